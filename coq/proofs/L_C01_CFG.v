(* C01 -- structural tie: running the `while not happyAboutTrSize` loop of the syntax tree of EquationSolver.trust_region_minimize
   extracted from /repo's AST (gen/CFG_TR.v, regenerated on every run) with the interpreter of model/M_C01_CFG.v IS the inner loop
   of the hand model model/M_C01_TR.v (lemma while_inner), for every Num T, all oracles, all settings, all values of the local
   variables and all pass budgets.  The proof is a symbolic execution of the interpreter on the extracted tree, statement by
   statement (each step's equation is checked by the VM), with a case analysis on the symbolic conditions as they appear and an
   induction on the pass budget for the re-entry of the loop after a rejected step.  is_converged and is_on_boundary are run from
   their own extracted trees.  Not proved here: the statements before the `while` (initial test, Cauchy-point block, CG call), the
   outer `for` and the exit after it; the harness compares those by execution (tools/props/c01.py, extracted_tree_vs_hand_model). *)
From Coq Require Import ZArith List String Bool Lia.
From OV.base Require Import Num.
From OV.model Require Import M_C06_Vec M_C06_CG M_C01_TR M_C01_CFG.
From OV.gen Require Import CFG_TR.
Import ListNotations.
Open Scope string_scope.
Open Scope list_scope.

(* ---- the pieces of the extracted program, obtained by computation (never copied by hand) *)
Definition tr_body : list stmt := f_body cfg_trust_region_minimize.
Definition tr_for : stmt := nth 9 tr_body (SExpr ENone).
Definition tr_forbody : list stmt := match tr_for with SFor _ _ b => b | _ => [] end.
Definition tr_fori : string := match tr_for with SFor i _ _ => i | _ => "" end.
Definition tr_forn : expr := match tr_for with SFor _ n _ => n | _ => ENone end.
Definition tr_epilogue : list stmt := skipn 10 tr_body.
Definition tr_while : stmt := last tr_forbody (SExpr ENone).
Definition tr_wcond : expr := match tr_while with SWhile c _ => c | _ => ENone end.
Definition tr_wbody : list stmt := match tr_while with SWhile _ b => b | _ => [] end.
Definition lam_of (s : stmt) : expr := match s with SAssign _ e => e | _ => ENone end.
Definition tr_incr_stmt : stmt := nth 0 tr_forbody (SExpr ENone).
Definition tr_lam_incr_true : expr := match tr_incr_stmt with SIf _ [s] _ => lam_of s | _ => ENone end.
Definition tr_lam_incr_false : expr := match tr_incr_stmt with SIf _ _ [s] => lam_of s | _ => ENone end.
Definition tr_lam_hv : expr := lam_of (nth 1 tr_forbody (SExpr ENone)).
Definition tr_mult_false : expr := match lam_of (nth 2 tr_forbody (SExpr ENone)) with EIfExp _ _ e => e | _ => ENone end.
Definition tr_keys : list string :=
  Eval lazy in map fst (@declare unit (assigned 50 tr_body) (map (fun p => (p, VNone)) (f_params cfg_trust_region_minimize))).

Lemma tr_shape : tr_body = firstn 9 tr_body ++ [SFor tr_fori tr_forn tr_forbody] ++ tr_epilogue
                 /\ tr_forbody = removelast tr_forbody ++ [SWhile tr_wcond tr_wbody].
Proof. split; reflexivity. Qed.

Section Tie.
  Context {T : Type} {NT : Num T}.
  Local Notation vec := (list T).
  Variable value : vec -> T.
  Variable grad : vec -> vec.
  Variable hessvec precond mult_approx : vec -> vec -> vec.
  Variable S : settings T.
  Variable chk : bool.
  Variable fuel : nat.

  Notation Ieval := (@eval T NT value grad hessvec precond mult_approx S chk fuel cfg_functions cfg_string_constants).
  Notation Iexec := (@exec T NT value grad hessvec precond mult_approx S chk fuel cfg_functions cfg_string_constants).
  Notation Iblock := (@block T NT value grad hessvec precond mult_approx S chk fuel cfg_functions cfg_string_constants).
  Notation Irun := (@run T NT value grad hessvec precond mult_approx S chk fuel cfg_functions cfg_string_constants).

  Definition clo_of (e : expr) : @val T := match e with ELambda ps b => VClo ps b | _ => VNone end.

  (* the local variables that are live at some loop head; everything else is junk (J) *)
  Record live := { l_x : vec; l_g : vec; l_o : T; l_gNorm : T; l_tr : T; l_tried : bool; l_cum : nat;
                   l_cp : vec; l_qn : vec; l_step : steptag; l_cg : nat; l_tru : T; l_happy : bool;
                   l_incr : @val T; l_hv : @val T; l_mult : @val T }.
  Definition pick (L : live) (J : string -> @val T) (k : string) : @val T :=
    if String.eqb k "objective" then VObj else if String.eqb k "settings" then VSet else if String.eqb k "callback" then VCb
    else if String.eqb k "gradient" then VMeth "gradient"
    else if String.eqb k "x" then VV (l_x L) else if String.eqb k "g" then VV (l_g L) else if String.eqb k "o" then VS (l_o L)
    else if String.eqb k "gNorm" then VS (l_gNorm L) else if String.eqb k "trSize" then VS (l_tr L)
    else if String.eqb k "triedNewPrecond" then VB (l_tried L) else if String.eqb k "cumulativeCgIters" then VN (l_cum L)
    else if String.eqb k "cauchyPoint" then VV (l_cp L) else if String.eqb k "qNewtonPoint" then VV (l_qn L)
    else if String.eqb k "stepType" then VT (l_step L) else if String.eqb k "cgIters" then VN (l_cg L)
    else if String.eqb k "trSizeUsed" then VS (l_tru L) else if String.eqb k "happyAboutTrSize" then VB (l_happy L)
    else if String.eqb k "incremental_objective" then l_incr L else if String.eqb k "hess_vec_func" then l_hv L
    else if String.eqb k "mult_by_approx_hessian" then l_mult L
    else J k.
  Definition mkst (L : live) (J : string -> @val T) (xp0 : vec) (tr0 : list (@rawev T)) : @state T :=
    {| env := map (fun k => (k, pick L J k)) tr_keys; xp := xp0; trace := tr0 |}.
  Definition get (e : list (string * @val T)) (k : string) : @val T := match assoc k e with Some v => v | None => VUnbound end.
  Definition hand (L : live) (xp0 : vec) : @st T :=
    {| c_x := l_x L; c_g := l_g L; c_o := l_o L; c_gNorm := l_gNorm L; c_tr := l_tr L; c_tried := l_tried L; c_cum := l_cum L; c_xp := xp0 |}.

  Definition clo_incr : @val T := if s_use_incremental S then clo_of tr_lam_incr_true else clo_of tr_lam_incr_false.
  Definition clo_hv : @val T := clo_of tr_lam_hv.
  Definition val_mult : @val T := if s_use_pc_ip S then VMeth "multiply_by_approx_hessian" else clo_of tr_mult_false.

  Ltac blk := lazy -[nadd nsub nmul ndiv nopp nsqrt nltb nleb neqb nconst nzero nunit nhalf nZ npow
                     vdot vadd vsub vscale vneg vnorm ediv ege egt is_on_boundary dogleg_step solve_trust_region_minimization
                     inner outer propose while_loop for_loop Nat.leb Nat.ltb Nat.add raw].

  (* is_on_boundary, run from its own syntax tree, is the C06 model's predicate *)
  Lemma is_on_boundary_tie F0 t st :
    Ieval (10 + F0) (ECall (EGlobal "is_on_boundary") [EName "s"] []) (with_env [("s", VT t)] st) = Some (VB (is_on_boundary t)).
  Proof. destruct t; reflexivity. Qed.

  Definition WLcond (F : nat) (st' : @state T) : option bool := match Ieval F tr_wcond st' with Some v => truthy v | None => None end.
  Definition WL (F : nat) := @while_loop T (WLcond F) (Iblock F tr_wbody).
  Lemma WL_unfold F k st :
    WL F (Datatypes.S k) st = match WLcond F st with
                              | Some false => ONormal st
                              | Some true => match Iblock F tr_wbody st with ONormal st' => WL F k st' | o => o end
                              | None => OError end.
  Proof. reflexivity. Qed.
  Lemma WL_exit F k st : WLcond F st = Some false -> WL F k st = ONormal st.
  Proof. intros H. unfold WL. destruct k; cbn [while_loop]; rewrite H; reflexivity. Qed.

  Lemma block_cons c F s r st :
    @block T NT value grad hessvec precond mult_approx S c fuel cfg_functions cfg_string_constants (Datatypes.S F) (s :: r) st =
    match @exec T NT value grad hessvec precond mult_approx S c fuel cfg_functions cfg_string_constants F s st with
    | ONormal st' => @block T NT value grad hessvec precond mult_approx S c fuel cfg_functions cfg_string_constants F r st' | o' => o' end.
  Proof. reflexivity. Qed.
  Lemma block_nil c F st :
    @block T NT value grad hessvec precond mult_approx S c fuel cfg_functions cfg_string_constants (Datatypes.S F) [] st = ONormal st.
  Proof. reflexivity. Qed.

  Lemma onb_eq t : orb (steptag_eqb t Boundary) (steptag_eqb t NegCurve) = is_on_boundary t.
  Proof. destruct t; reflexivity. Qed.

  Definition live_of (e : list (string * @val T)) : live :=
    {| l_x := match assoc "x" e with Some (VV v) => v | _ => [] end;
       l_g := match assoc "g" e with Some (VV v) => v | _ => [] end;
       l_o := match assoc "o" e with Some (VS t) => t | _ => nzero end;
       l_gNorm := match assoc "gNorm" e with Some (VS t) => t | _ => nzero end;
       l_tr := match assoc "trSize" e with Some (VS t) => t | _ => nzero end;
       l_tried := match assoc "triedNewPrecond" e with Some (VB b) => b | _ => false end;
       l_cum := match assoc "cumulativeCgIters" e with Some (VN n) => n | _ => O end;
       l_cp := match assoc "cauchyPoint" e with Some (VV v) => v | _ => [] end;
       l_qn := match assoc "qNewtonPoint" e with Some (VV v) => v | _ => [] end;
       l_step := match assoc "stepType" e with Some (VT t) => t | _ => Interior end;
       l_cg := match assoc "cgIters" e with Some (VN n) => n | _ => O end;
       l_tru := match assoc "trSizeUsed" e with Some (VS t) => t | _ => nzero end;
       l_happy := match assoc "happyAboutTrSize" e with Some (VB b) => b | _ => false end;
       l_incr := get e "incremental_objective"; l_hv := get e "hess_vec_func"; l_mult := get e "mult_by_approx_hessian" |}.

  (* what a run of the interpreted `while` has to do, given what the hand model's inner loop does *)
  Definition rel_inner (tr0 : list (@rawev T)) (io : @inner_out T) (o : @outcome T) : Prop :=
    match io with
    | IReturn x f ev => existsb is_fuel ev = false /\
        exists st', o = OReturn (VTup [VV x; VB f]) st' /\ trace st' = tr0 ++ raw chk ev
    | IContinue s' ev => existsb is_fuel ev = false /\
        exists L' J' tr', o = ONormal (mkst L' J' (c_xp s') tr') /\ tr' = tr0 ++ raw chk ev /\ hand L' (c_xp s') = s'
    | IFuel ev => existsb is_fuel ev = true /\ o = OFuel
    end.

  Lemma raw_app (a b : list (event T)) : raw chk (a ++ b) = raw chk a ++ raw chk b.
  Proof. unfold raw. apply flat_map_app. Qed.

  Lemma rel_prepend tr0 (ev : list (event T)) io o : existsb is_fuel ev = false -> rel_inner (tr0 ++ raw chk ev) io o -> rel_inner tr0 (prepend ev io) o.
  Proof.
    intros Hf. destruct io as [x f e|s' e|e]; cbn [prepend rel_inner]; rewrite ?existsb_app, ?Hf, ?raw_app, ?app_assoc; cbn [orb]; auto.
  Qed.

  (* normal forms: everything is unfolded except the arithmetic / vector primitives and the model's sub-solvers *)
  Ltac nf_in t :=
    eval lazy -[nadd nsub nmul ndiv nopp nsqrt nltb nleb neqb nconst npow
                vdot vadd vsub vscale vneg vnorm ediv ege egt dogleg_step solve_trust_region_minimization mult_of real_objective
                inner outer while_loop for_loop Nat.leb Nat.ltb Nat.add raw app existsb steptag_eqb is_on_boundary orb andb WL WLcond rel_inner prepend rho_of new_radius
                s_t1 s_t2 s_eta1 s_eta2 s_eta3 s_max_trust_iters s_tol s_max_cg_iters s_max_cumulative_cg_iters s_cg_tol s_cg_ratio
                s_tr_size s_min_tr_size s_use_pc_ip s_use_incremental] in t.
  Ltac nf_goal :=
    lazy -[nadd nsub nmul ndiv nopp nsqrt nltb nleb neqb nconst npow
           vdot vadd vsub vscale vneg vnorm ediv ege egt dogleg_step solve_trust_region_minimization mult_of real_objective
           inner outer while_loop for_loop Nat.leb Nat.ltb Nat.add raw app existsb steptag_eqb is_on_boundary orb andb WL WLcond rel_inner prepend rho_of new_radius
           s_t1 s_t2 s_eta1 s_eta2 s_eta3 s_max_trust_iters s_tol s_max_cg_iters s_max_cumulative_cg_iters s_cg_tol s_cg_ratio
           s_tr_size s_min_tr_size s_use_pc_ip s_use_incremental].

  (* one statement of the block at the head of the interpreter's continuation; the equation between the statement's execution
     and its readable normal form o is checked by the VM (a conversion the kernel re-checks quickly at Qed) *)
  Ltac ex1 :=
    match goal with
    | |- context [@block T NT value grad hessvec precond mult_approx S ?c fuel cfg_functions cfg_string_constants (Datatypes.S ?F) (?s :: ?r) ?st] =>
        rewrite (block_cons c F s r st);
        let o := nf_in (@exec T NT value grad hessvec precond mult_approx S c fuel cfg_functions cfg_string_constants F s st) in
        let E := fresh "E" in
        assert (E : @exec T NT value grad hessvec precond mult_approx S c fuel cfg_functions cfg_string_constants F s st = o) by (vm_compute; reflexivity);
        rewrite E; clear E;
        cbv beta iota; rewrite ?onb_eq
    | |- context [@block T NT value grad hessvec precond mult_approx S ?c fuel cfg_functions cfg_string_constants (Datatypes.S ?F) [] ?st] =>
        rewrite (block_nil c F st); cbv beta iota
    end.
  (* the same, with the resulting state claimed to be `assign x v st` (proved by tactic tac, e.g. a case split on a setting) *)
  Ltac ex1_as x v tac :=
    match goal with
    | |- context [@block T NT value grad hessvec precond mult_approx S ?c fuel cfg_functions cfg_string_constants (Datatypes.S ?F) (?s :: ?r) ?st] =>
        rewrite (block_cons c F s r st);
        let E := fresh "E" in
        assert (E : @exec T NT value grad hessvec precond mult_approx S c fuel cfg_functions cfg_string_constants F s st = ONormal (assign x v st)) by tac;
        rewrite E; clear E;
        let o := nf_in (assign x v st) in
        let E2 := fresh "E" in
        assert (E2 : assign x v st = o) by (vm_compute; reflexivity);
        rewrite E2; clear E2;
        cbv beta iota
    end.
  Ltac split_if :=
    match goal with
    | |- context [if ?c then _ else _] =>
        lazymatch c with context [if _ then _ else _] => fail | s_use_incremental _ => fail | s_use_pc_ip _ => fail | _ => idtac end;
        let H := fresh "Hc" in destruct c eqn:H; cbv beta iota
    end.
  (* abbreviate values the interpreter has computed and stored in its state (the hand-model side contains the same terms) *)
  Ltac gen :=
    repeat match goal with
    | |- context [@block T NT value grad hessvec precond mult_approx S _ fuel cfg_functions cfg_string_constants _ _ ?st] =>
        match st with
        | context [dogleg_step ?a ?b ?c ?d] => generalize (dogleg_step a b c d); intro
        | context [hessvec ?a ?b] => generalize (hessvec a b); intro
        | context [grad ?a] => generalize (grad a); intro
        | context [value ?a] => generalize (value a); intro
        | context [vnorm ?a] => generalize (vnorm a); intro
        | context [vdot ?a ?b] => generalize (vdot a b); intro
        end
    end.

  (* lhs = rhs through their readable normal forms (VM-checked), then case analysis on the conditions *)
  Ltac via_nf :=
    idtac; match goal with |- ?lhs = ?rhs =>
      let o := nf_in lhs in let o2 := nf_in rhs in
      transitivity o; [vm_compute; reflexivity|];
      transitivity o2; [rewrite ?onb_eq; repeat split_if; reflexivity | vm_compute; reflexivity]
    end.

  Lemma rho_of_eq mo ro : @rho_of T NT mo ro = ediv (nopp ro) (if nltb nzero mo then nopp (nopp mo) else nopp mo).
  Proof. unfold rho_of. destruct (nltb nzero mo); reflexivity. Qed.

  Lemma while_inner F0 : forall k L J xp0 tr0, l_incr L = clo_incr -> l_hv L = clo_hv -> l_mult L = val_mult -> l_happy L = false ->
     rel_inner tr0 (@inner T NT value grad hessvec mult_approx S k (hand L xp0) (l_cp L) (l_qn L) (l_step L) (l_cg L))
                   (WL (60 + F0) k (mkst L J xp0 tr0)).
  Proof.
    induction k as [|k IH]; intros L J xp0 tr0 Hi Hh Hm Hy.
    - destruct L; cbn [l_happy] in Hy; subst. cbn. auto.
    - destruct L; cbn [l_incr l_hv l_mult l_happy l_cp l_qn l_step l_cg hand l_x l_g l_o l_gNorm l_tr l_tried l_cum] in *; subst.
      match goal with |- rel_inner _ _ ?w => remember w as o eqn:Ho end.
      cbn [inner]. nf_goal. rewrite !rho_of_eq. nf_goal.
      rewrite WL_unfold in Ho.
      match type of Ho with context [mkst ?L ?J ?x ?t] =>
        let b := nf_in (mkst L J x t) in replace (mkst L J x t) with b in Ho by (vm_compute; reflexivity) end.
      match type of Ho with context [WLcond ?F ?st] =>
        let b := eval lazy in (WLcond F st) in replace (WLcond F st) with b in Ho by (vm_compute; reflexivity) end; cbv beta iota in Ho.
      let b := eval lazy in tr_wbody in replace tr_wbody with b in Ho by (vm_compute; reflexivity). cbn [Nat.add] in Ho. subst o.
      ex1_as "d" (VV (dogleg_step (mult_of mult_approx S xp0) l_cp0 l_qn0 l_tr0)) ltac:(unfold val_mult, mult_of; destruct (s_use_pc_ip S); vm_compute; reflexivity).
      gen. do 4 (ex1; gen).
      match goal with |- context [real_objective ?a ?b ?c ?d ?e ?f] =>
        ex1_as "realObjective" (VS (real_objective a b c d e f)) ltac:(unfold real_objective; destruct (s_use_incremental S); vm_compute; reflexivity);
        generalize (real_objective a b c d e f); intro end.
      gen. ex1. gen. ex1. split_if.
      + (* converged *) repeat (first [ex1; gen | split_if]).
        all: cbn [rel_inner]; (split; [reflexivity | eexists; split; [reflexivity | reflexivity]]).
      + do 3 ex1.
        match goal with |- context [ediv ?n (if ?c then ?a else ?b)] =>
          ex1_as "rho" (VQ n (if c then a else b)) ltac:(via_nf);
          generalize (if c then a else b); intro end.
        match goal with |- context [new_radius ?a ?b ?c ?d] =>
          ex1_as "trSize" (VS (new_radius a b c d)) ltac:(unfold new_radius; via_nf);
          generalize (new_radius a b c d); intro end.
        repeat (first [ex1; gen | split_if]).
        all: try discriminate.
        all: try (cbn [rel_inner]; (split; [reflexivity | eexists; split; [reflexivity | cbn [trace raw flat_map raw_of app]; rewrite <- ?app_assoc; reflexivity]]); fail).
        all: try (apply rel_prepend; [reflexivity|];
                  match goal with |- rel_inner ?t _ (WL ?F ?kk {| env := ?e; xp := ?x; trace := ?tr |}) =>
                    replace {| env := e; xp := x; trace := tr |} with (mkst (live_of e) (get e) x tr) by (vm_compute; reflexivity);
                    cbn [raw flat_map raw_of app]; rewrite ?app_nil_r;
                    apply (IH (live_of e) (get e) x _); vm_compute; reflexivity end; fail).
        all: match goal with |- rel_inner ?t _ (WL ?F ?kk {| env := ?e; xp := ?x; trace := ?tr |}) =>
                    rewrite (WL_exit F kk {| env := e; xp := x; trace := tr |}) by (vm_compute; reflexivity);
                    cbn [rel_inner]; split; [reflexivity|];
                    exists (live_of e), (get e), tr; split; [vm_compute; reflexivity|]; split; [|vm_compute; reflexivity];
                    cbn [raw flat_map raw_of app]; rewrite <- ?app_assoc; reflexivity end.
  Qed.

  (* the hypotheses of while_inner are satisfiable: this is the shape of the locals at every head of the `while` *)
  Lemma while_inner_hyps_satisfiable :
    exists L : live, l_incr L = clo_incr /\ l_hv L = clo_hv /\ l_mult L = val_mult /\ l_happy L = false.
  Proof.
    exists {| l_x := []; l_g := []; l_o := nzero; l_gNorm := nzero; l_tr := nunit; l_tried := false; l_cum := O; l_cp := []; l_qn := [];
              l_step := Interior; l_cg := O; l_tru := nunit; l_happy := false; l_incr := clo_incr; l_hv := clo_hv; l_mult := val_mult |}.
    repeat split.
  Qed.
End Tie.
