(* C04: on EVERY control-flow path through AlSolver.augmented_lagrange_solve and BoundConstrainedSolver.bound_constrained_solve the
   constrained objective is switched to the parameters of THIS call (`objective.p = p`) exactly once, after any warm start (which
   needs the old parameters) and before the first sub-problem solve / nested solve, and nothing else ever stores to `.p`.
   Hence every oracle value the outer loop reads (sub-problem objective, constraint, grad_x AL, FB residual: the oracles of
   model/M_C04_AL.v) belongs to the problem posed with the parameters that were passed, whatever the flags
   useWarmStart / updatePrecond / updatePrecondBeforeWarmStart are.
   Subject: the control-flow IR regenerated from the ASTs on every run (gen/CFG_drivers.v, vocabulary and path semantics of
   model/M_C19_CFG.v: conditions independent -- a superset of the feasible paths --, loops 0/1/2 passes).  By computation. *)
From Coq Require Import List Bool Arith String Lia.
Import ListNotations.
From OV.model Require Import M_C19_CFG.
From OV.gen Require Import CFG_drivers.
Local Open Scope list_scope.

Definition al_expect : expect := {| returns_flag := false; returns_unscaled := false |}.
Definition bc_expect : expect := {| returns_flag := false; returns_unscaled := true |}.

Theorem al_drivers_ok :
  driver_ok al_expect cfg_augmented_lagrange_solve = true /\ driver_ok bc_expect cfg_bound_constrained_solve = true.
Proof. vm_compute. split; reflexivity. Qed.

(* the flag combinations are really enumerated: both front ends have paths with and without a warm start, with and without a
   preconditioner update before the assignment, and paths that reach the sub-problem solve *)
Definition has_path (l : list stmt) (p : list tag -> bool) : bool := existsb (fun pe => p (fst pe)) (paths l).
Theorem al_paths_nonvacuous :
  has_path cfg_augmented_lagrange_solve (fun ts => existsb is_ws ts && existsb is_solve ts) = true
  /\ has_path cfg_augmented_lagrange_solve (fun ts => negb (existsb is_ws ts) && negb (existsb (fun t => match t with UpdatePrecond => true | _ => false end) ts) && existsb is_solve ts) = true
  /\ has_path cfg_bound_constrained_solve (fun ts => existsb is_ws ts && existsb is_solve ts) = true
  /\ has_path cfg_bound_constrained_solve (fun ts => negb (existsb is_ws ts) && existsb is_solve ts) = true.
Proof. vm_compute. repeat split; reflexivity. Qed.

(* ---- what the boolean checker means (self-contained; same argument as for C19) ---- *)
Lemma c04_split_first (p : tag -> bool) l : existsb p l = true ->
  exists x, p x = true /\ l = before_first p l ++ x :: after_first p l /\ existsb p (before_first p l) = false.
Proof.
  induction l as [|t r IH]; cbn [existsb before_first after_first]; [discriminate|].
  destruct (p t) eqn:E.
  - intros _. exists t. repeat split; assumption.
  - cbn [orb]. intros Hx. destruct (IH Hx) as (x & Hp & Hl & Hb). exists x. split; [exact Hp|]. split.
    + cbn [app]. f_equal. exact Hl.
    + cbn [existsb]. rewrite E. exact Hb.
Qed.

Lemma c04_count_pos_exists p l : count p l = 1%nat -> existsb p l = true.
Proof.
  unfold count. induction l as [|t r IH]; cbn [filter existsb]; [discriminate|].
  destruct (p t); [reflexivity|]. cbn [orb]. exact IH.
Qed.

Lemma c04_count_mid p a x b : count p (a ++ x :: b) = (count p a + (if p x then 1 else 0) + count p b)%nat.
Proof. unfold count. rewrite filter_app, app_length. cbn [filter]. destruct (p x); cbn [List.length]; lia. Qed.

Lemma c04_count_zero_existsb p l : count p l = 0%nat -> existsb p l = false.
Proof.
  unfold count. induction l as [|t r IH]; cbn [filter existsb]; [reflexivity|].
  destruct (p t); [discriminate|]. exact IH.
Qed.
Lemma c04_existsb_false_count p l : existsb p l = false -> count p l = 0%nat.
Proof.
  unfold count. induction l as [|t r IH]; cbn [filter existsb]; [reflexivity|].
  destruct (p t); [discriminate|]. exact IH.
Qed.

Definition installs_parameters_once (ts : list tag) : Prop :=
  exists a b, ts = a ++ AssignPNew :: b
    /\ existsb is_assignp a = false /\ existsb is_assignp b = false      (* objective.p := p exactly once *)
    /\ existsb is_ws b = false                                            (* every warm start precedes it *)
    /\ existsb is_solve a = false                                         (* no sub-problem / nested solve precedes it *)
    /\ existsb is_bad ts = false.                                         (* no other store to .p, no nested warm start *)

Lemma c04_path_ok_sound e ts en : path_ok e (ts, en) = true ->
  installs_parameters_once ts /\ match en with EndRet _ _ _ | EndRaise => True | _ => False end.
Proof.
  unfold path_ok. intros Hk. repeat (apply andb_prop in Hk; destruct Hk as [Hk ?]).
  apply Nat.eqb_eq in Hk.
  destruct (c04_split_first is_assignp ts (c04_count_pos_exists _ _ Hk)) as (x & Hx & Hl & Hb).
  destruct x; try discriminate. set (a := before_first is_assignp ts) in *. set (b := after_first is_assignp ts) in *.
  split.
  - exists a, b. split; [exact Hl|]. split; [exact Hb|].
    assert (Hcb : existsb is_assignp b = false).
    { apply c04_count_zero_existsb. pose proof (c04_count_mid is_assignp a AssignPNew b) as Hc. rewrite <- Hl in Hc.
      rewrite (c04_existsb_false_count _ _ Hb) in Hc. cbn [is_assignp] in Hc. lia. }
    split; [exact Hcb|].
    split; [apply negb_true_iff; assumption|]. split; [apply negb_true_iff; assumption|]. apply negb_true_iff; assumption.
  - destruct en; try discriminate; exact I.
Qed.

Lemma c04_driver_ok_paths e l : driver_ok e l = true -> forall ts en, In (ts, en) (paths l) ->
  installs_parameters_once ts /\ match en with EndRet _ _ _ | EndRaise => True | _ => False end.
Proof.
  unfold driver_ok. intros H ts en Hin. apply andb_prop in H. destruct H as [_ H].
  rewrite forallb_forall in H. apply (c04_path_ok_sound e). apply H. exact Hin.
Qed.

Theorem parameters_installed_on_every_path : forall ts en,
  In (ts, en) (paths cfg_augmented_lagrange_solve) \/ In (ts, en) (paths cfg_bound_constrained_solve) ->
  installs_parameters_once ts /\ match en with EndRet _ _ _ | EndRaise => True | _ => False end.
Proof.
  intros ts en [H | H].
  - exact (c04_driver_ok_paths _ _ (proj1 al_drivers_ok) ts en H).
  - exact (c04_driver_ok_paths _ _ (proj2 al_drivers_ok) ts en H).
Qed.
