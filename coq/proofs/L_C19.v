(* C19: warm start = exact linear predictor for affine residuals; diagonal scaling is transparent; driver order by
   computation on the control-flow IR regenerated from the four drivers; slot laws of param_index_update. *)
From Coq Require Import Reals Lra Lia List Bool Arith String FunctionalExtensionality.
From Coquelicot Require Import Coquelicot.
From OV.model Require Import M_C19_CFG M_C19_Warm.
From OV.gen Require Import CFG_drivers.
Import ListNotations.
Local Open Scope list_scope.
Local Open Scope R_scope.

(* ------------------------------------------------------------------ A. warm start *)
Section WarmStart.
  (* V: unknowns / residuals, Pm: parameters; abelian-group structure and additive maps as hypotheses *)
  Variables V Pm : Type.
  Variable vadd : V -> V -> V.
  Variable psub : Pm -> Pm -> Pm.
  Variable padd : Pm -> Pm -> Pm.
  Hypothesis vadd_assoc : forall a b c, vadd a (vadd b c) = vadd (vadd a b) c.
  Hypothesis vadd_comm : forall a b, vadd a b = vadd b a.
  Hypothesis psub_add : forall p q, padd (psub p q) q = p.
  Variable H : V -> V.            (* Hessian: objective.hessian_vec(x, .) *)
  Variable B : Pm -> V.           (* parameter Jacobian of the gradient: objective.jacobian_p_vec(x, .) *)
  Variable c : V.
  Hypothesis H_add : forall a b, H (vadd a b) = vadd (H a) (H b).
  Hypothesis B_add : forall p q, B (padd p q) = vadd (B p) (B q).
  (* residual affine in (x, p): gradient of a quadratic energy *)
  Definition g (x : V) (p : Pm) : V := vadd (vadd (H x) (B p)) c.

  (* the increment solves  H dx = B (p_old - p_new) + r   (r = residual left by the CG solve; r = 0 for an exact solve);
     then the residual at the predicted point with the NEW parameters is the old residual plus r *)
  Theorem warm_start_linear x p_old p_new dx r :
    H dx = vadd (B (psub p_old p_new)) r -> g (vadd x dx) p_new = vadd (g x p_old) r.
  Proof.
    intros E. unfold g. rewrite H_add, E.
    rewrite <- (psub_add p_old p_new) at 2. rewrite B_add.
    set (a := H x). set (b := B (psub p_old p_new)). set (d := B p_new).
    (* ((a + (b + r)) + d) + c = ((a + (b + d)) + c) + r *)
    rewrite !vadd_assoc. set (X := vadd a b).
    rewrite <- (vadd_assoc X r d), (vadd_comm r d), (vadd_assoc X d r).
    rewrite <- (vadd_assoc (vadd X d) r c), (vadd_comm r c), (vadd_assoc (vadd X d) c r). reflexivity.
  Qed.

  (* in particular an equilibrium of the old parameters is mapped to an equilibrium of the new ones by an exact solve *)
  Corollary warm_start_lands_on_solution (zero : V) x p_old p_new dx :
    (forall a, vadd a zero = a) -> g x p_old = zero -> H dx = vadd (B (psub p_old p_new)) zero -> g (vadd x dx) p_new = zero.
  Proof. intros Hz Hg E. rewrite (warm_start_linear _ _ _ _ _ E), Hg. apply Hz. Qed.

  (* the CG termination test (scipy.sparse.linalg.cg, atol = 0): |H dx - b| <= rtol |b| with b = B (p_old - p_new).
     Explicit residual bound for the predicted point: |g(x+dx, p_new)| <= |g(x, p_old)| + rtol |B (p_old - p_new)|;
     from an equilibrium of the old parameters: |g(x+dx, p_new)| <= rtol |B (p_old - p_new)|. *)
  Variable nrm : V -> R.
  Hypothesis nrm_triangle : forall a b, (nrm (vadd a b) <= nrm a + nrm b)%R.

  Theorem warm_start_cg_bound x p_old p_new dx r rtol :
    H dx = vadd (B (psub p_old p_new)) r -> (nrm r <= rtol * nrm (B (psub p_old p_new)))%R ->
    (nrm (g (vadd x dx) p_new) <= nrm (g x p_old) + rtol * nrm (B (psub p_old p_new)))%R.
  Proof.
    intros E Hr. rewrite (warm_start_linear _ _ _ _ _ E).
    eapply Rle_trans; [apply nrm_triangle|]. lra.
  Qed.

  Corollary warm_start_cg_bound_equilibrium (zero : V) x p_old p_new dx r rtol :
    (forall a, vadd a zero = a) -> g x p_old = zero ->
    H dx = vadd (B (psub p_old p_new)) r -> (nrm r <= rtol * nrm (B (psub p_old p_new)))%R ->
    (nrm (g (vadd x dx) p_new) <= rtol * nrm (B (psub p_old p_new)))%R.
  Proof.
    intros Hz Hg E Hr. rewrite (warm_start_linear _ _ _ _ _ E), Hg, vadd_comm, Hz. exact Hr.
  Qed.
End WarmStart.

(* hypotheses are satisfiable: V = Pm = R *)
Example warm_start_nonvacuous :
  forall h b c x po pn dx : R, h * dx = b * (po - pn) + 0 -> (h * (x + dx) + b * pn) + c = ((h * x + b * po) + c) + 0.
Proof.
  intros h b c x po pn dx E.
  apply (warm_start_linear R R Rplus Rminus Rplus (fun a b c => eq_sym (Rplus_assoc a b c)) Rplus_comm
           (fun p q => ltac:(unfold Rminus; rewrite Rplus_assoc, Rplus_opp_l, Rplus_0_r; reflexivity))
           (fun x => h * x) (fun p => b * p) c (fun a b => Rmult_plus_distr_l h a b) (fun p q => Rmult_plus_distr_l b p q)
           x po pn dx 0 E).
Qed.

(* ------------------------------------------------------------------ B. scaling transparency *)
Lemma unscale_scale d x : (forall j, d j <> 0) -> unscale d (scale d x) = x.
Proof. intros Hd. apply functional_extensionality. intros j. unfold unscale, scale. field. apply Hd. Qed.
Lemma scale_unscale d xb : (forall j, d j <> 0) -> scale d (unscale d xb) = xb.
Proof. intros Hd. apply functional_extensionality. intros j. unfold unscale, scale. field. apply Hd. Qed.

(* minimisers correspond: xBar* minimises the scaled objective iff invScaling * xBar* minimises the original one *)
Theorem scaling_minimisers (f : rvec -> R) d xb : (forall j, d j <> 0) ->
  (forall yb, scaled f d xb <= scaled f d yb) <-> (forall y, f (unscale d xb) <= f y).
Proof.
  intros Hd. unfold scaled. split; intros Hm y.
  - rewrite <- (unscale_scale d y Hd). apply Hm.
  - apply Hm.
Qed.

Lemma upd_unscale d xb i t : (forall j, d j <> 0) -> unscale d (upd xb i t) = upd (unscale d xb) i (t / d i).
Proof.
  intros Hd. apply functional_extensionality. intros j. unfold unscale, upd.
  destruct (Nat.eqb j i) eqn:E; [|reflexivity]. apply Nat.eqb_eq in E. subst j. field. apply Hd.
Qed.

(* chain rule along each coordinate: d/dt fBar(xBar + t e_i) = (1/d_i) d/ds f(x + s e_i) *)
Theorem scaling_partial (f : rvec -> R) d xb i l : (forall j, d j <> 0) ->
  is_derive (fun s => f (upd (unscale d xb) i s)) 0 l ->
  is_derive (fun t => scaled f d (upd xb i t)) 0 (l / d i).
Proof.
  intros Hd D. unfold scaled.
  apply (is_derive_ext (fun t => (fun s => f (upd (unscale d xb) i s)) (t / d i))).
  - intros t. rewrite (upd_unscale d xb i t Hd). reflexivity.
  - evar_last.
    + apply (is_derive_comp (fun s => f (upd (unscale d xb) i s)) (fun t => t / d i) 0).
      * replace (0 / d i) with 0 by (field; apply Hd). exact D.
      * auto_derive; [exact I | reflexivity].
    + unfold scal; simpl. unfold mult; simpl. field. apply Hd.
Qed.

(* stationary points correspond: all partials of the scaled objective vanish iff all partials of the original do *)
Theorem scaling_stationary (f : rvec -> R) d xb (gr : nat -> R) : (forall j, d j <> 0) ->
  (forall i, is_derive (fun s => f (upd (unscale d xb) i s)) 0 (gr i)) ->
  (forall i, is_derive (fun t => scaled f d (upd xb i t)) 0 (gr i / d i))
  /\ ((forall i, gr i / d i = 0) <-> (forall i, gr i = 0)).
Proof.
  intros Hd D. split.
  - intros i. apply scaling_partial; [exact Hd | apply D].
  - split; intros Hz i; specialize (Hz i).
    + apply Rmult_eq_compat_r with (r := d i) in Hz. unfold Rdiv in Hz.
      rewrite Rmult_assoc, Rinv_l, Rmult_1_r, Rmult_0_l in Hz by apply Hd. exact Hz.
    + rewrite Hz. unfold Rdiv. apply Rmult_0_l.
Qed.

(* ------------------------------------------------------------------ C. driver order, by computation over all paths *)
Definition exp_flag_unscaled : expect := {| returns_flag := true; returns_unscaled := true |}.
Definition exp_noflag_unscaled : expect := {| returns_flag := false; returns_unscaled := true |}.
Definition exp_noflag_raw : expect := {| returns_flag := false; returns_unscaled := false |}.

Theorem drivers_ok :
  driver_ok exp_flag_unscaled cfg_nonlinear_equation_solve = true
  /\ driver_ok exp_flag_unscaled cfg_spg_solve = true
  /\ driver_ok exp_noflag_unscaled cfg_bound_constrained_solve = true
  /\ driver_ok exp_noflag_raw cfg_augmented_lagrange_solve = true.
Proof. vm_compute. repeat split; reflexivity. Qed.

(* what the boolean checker means *)
Lemma split_first (p : tag -> bool) l : existsb p l = true ->
  exists x, p x = true /\ l = before_first p l ++ x :: after_first p l /\ existsb p (before_first p l) = false.
Proof.
  induction l as [|t r IH]; cbn [existsb before_first after_first]; [discriminate|].
  destruct (p t) eqn:E.
  - intros _. exists t. repeat split; assumption.
  - cbn [orb]. intros Hx. destruct (IH Hx) as (x & Hp & Hl & Hb). exists x. split; [exact Hp|]. split.
    + cbn [app]. f_equal. exact Hl.
    + cbn [existsb]. rewrite E. exact Hb.
Qed.

Lemma count_pos_exists p l : count p l = 1%nat -> existsb p l = true.
Proof.
  unfold count. induction l as [|t r IH]; cbn [filter existsb]; [discriminate|].
  destruct (p t); [reflexivity|]. cbn [orb]. exact IH.
Qed.

Lemma count_app p a b : count p (a ++ b) = (count p a + count p b)%nat.
Proof. unfold count. rewrite filter_app, app_length. reflexivity. Qed.

Lemma count_mid p a x b : count p (a ++ x :: b) = (count p a + (if p x then 1 else 0) + count p b)%nat.
Proof. rewrite count_app. unfold count. cbn [filter]. destruct (p x); cbn [List.length]; lia. Qed.

Lemma count_zero_existsb p l : count p l = 0%nat -> existsb p l = false.
Proof.
  unfold count. induction l as [|t r IH]; cbn [filter existsb]; [reflexivity|].
  destruct (p t); [discriminate|]. exact IH.
Qed.
Lemma existsb_false_count p l : existsb p l = false -> count p l = 0%nat.
Proof.
  unfold count. induction l as [|t r IH]; cbn [filter existsb]; [reflexivity|].
  destruct (p t); [discriminate|]. exact IH.
Qed.

Theorem path_ok_sound e ts en : path_ok e (ts, en) = true ->
  exists a b, ts = a ++ AssignPNew :: b
    /\ existsb is_assignp a = false /\ existsb is_assignp b = false      (* objective.p := p_new exactly once *)
    /\ existsb is_ws b = false                                            (* every warm start precedes it *)
    /\ existsb is_solve a = false                                         (* no solver call precedes it *)
    /\ existsb is_bad ts = false                                          (* no other store to .p, flag never re-bound *)
    /\ match en with
       | EndRet x u fl => x = true /\ u = returns_unscaled e /\ existsb is_solve b = true
                          /\ (if returns_flag e then fl = FlagSolver else fl = FlagNone)
       | EndRaise => True | _ => False end.
Proof.
  unfold path_ok. intros Hk. repeat (apply andb_prop in Hk; destruct Hk as [Hk ?]).
  apply Nat.eqb_eq in Hk.
  destruct (split_first is_assignp ts (count_pos_exists _ _ Hk)) as (x & Hx & Hl & Hb).
  destruct x; try discriminate. set (a := before_first is_assignp ts) in *. set (b := after_first is_assignp ts) in *.
  exists a, b. split; [exact Hl|]. split; [exact Hb|].
  assert (Hcb : existsb is_assignp b = false).
  { apply count_zero_existsb. pose proof (count_mid is_assignp a AssignPNew b) as Hc. rewrite <- Hl in Hc.
    rewrite (existsb_false_count _ _ Hb) in Hc. cbn [is_assignp] in Hc. lia. }
  split; [exact Hcb|].
  split; [apply negb_true_iff; assumption|]. split; [apply negb_true_iff; assumption|]. split; [apply negb_true_iff; assumption|].
  destruct en as [xs u fl| | |]; try discriminate; [|exact I].
  repeat (match goal with H : _ && _ = true |- _ => apply andb_prop in H; destruct H end).
  assert (Hsb : existsb is_solve b = true).
  { assert (Hs : existsb is_solve ts = true) by assumption. rewrite Hl, existsb_app in Hs.
    assert (Ha : existsb is_solve a = false) by (apply negb_true_iff; assumption). rewrite Ha in Hs. cbn in Hs. exact Hs. }
  split; [assumption|]. split; [apply eqb_prop; assumption|]. split; [exact Hsb|].
  destruct (returns_flag e), fl; try discriminate; reflexivity.
Qed.

(* ------------------------------------------------------------------ D. slot laws of param_index_update (regenerated table) *)
Theorem piu_slot_law (A : Type) (a0 a1 a2 a3 a4 a5 v d : A) i j : (i < 6)%nat -> (j < 6)%nat ->
  option_map (fun l => nth j l d) (piu_apply piu_rows [a0; a1; a2; a3; a4; a5] i v d)
  = Some (if Nat.eqb i j then v else nth j [a0; a1; a2; a3; a4; a5] d).
Proof.
  intros Hi Hj.
  do 6 (destruct i as [|i]; [do 6 (destruct j as [|j]; [reflexivity|]); lia|]). lia.
Qed.

Theorem piu_length (A : Type) (p : list A) i v d : (i < 6)%nat ->
  option_map (@List.length A) (piu_apply piu_rows p i v d) = Some params_nfields.
Proof. intros Hi. do 6 (destruct i as [|i]; [reflexivity|]). lia. Qed.

Theorem piu_out_of_range (A : Type) (p : list A) i v d : (6 <= i)%nat -> piu_apply piu_rows p i v d = None.
Proof. intros Hi. do 6 (destruct i as [|i]; [lia|]). reflexivity. Qed.
