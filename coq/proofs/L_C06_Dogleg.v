(* C06 -- dogleg_step / preconditioned_project_to_boundary over the reals: the result is on the path
   origin -> Cauchy point -> quasi-Newton point and inside the trust region measured by the approximate Hessian. *)
From Coq Require Import Reals Lra Lia List QArith Psatz Bool.
From OV.base Require Import Num.
From OV.model Require Import M_C06_Vec M_C06_CG.
From OV.proofs Require Import L_C06_Vec L_C06_CG.
Import ListNotations.
Local Open Scope R_scope.

Lemma tau_closed D zz zd dd : 0 < dd ->
  tauR D zz zd dd = (sqrt ((D * D - zz) * dd + zd * zd) - zd) / dd.
Proof.
  intros Hdd. unfold tauR, tau_coefs, Gen_EquationSolver.project_to_boundary_with_coefs. unfold_num. q2r. cbv zeta.
  match goal with |- context [sqrt ?e] => replace e with ((D * D - zz) * dd + zd * zd) by ring end.
  field. lra.
Qed.

Lemma rsub_as_axpy (a b : rvec) : rsub a b = raxpy a (-1) b.
Proof.
  revert b; induction a as [|x a IH]; intros [|y b]; try reflexivity.
  cbn. unfold_num. q2r. f_equal; [ring|apply IH].
Qed.

Section Dogleg.
  Variable n : nat.
  Variable M : rvec -> rvec.                 (* mat_mul: mult_by_approx_hessian, or the identity *)
  Variable D : R.
  Hypothesis Mlen : forall v, len n v -> len n (M v).
  Hypothesis Mlin : forall a k b, len n a -> len n b -> M (raxpy a k b) = raxpy (M a) k (M b).
  Hypothesis Mscale : forall k a, len n a -> M (rscale k a) = rscale k (M a).
  Hypothesis Msym : forall a b, len n a -> len n b -> a ⋅ M b = M a ⋅ b.
  Hypothesis Mpsd : forall v, len n v -> 0 <= v ⋅ M v.
  Hypothesis D_nz : D <> 0.

  Definition mnorm2 (v : rvec) : R := v ⋅ M v.

  Lemma mnorm2_axpy a k b : len n a -> len n b ->
    mnorm2 (raxpy a k b) = mnorm2 a + 2 * k * (a ⋅ M b) + k * k * mnorm2 b.
  Proof.
    intros Ha Hb. unfold mnorm2. rewrite Mlin by assumption.
    assert (Ha' := Mlen a Ha). assert (Hb' := Mlen b Hb).
    rewrite (rdot_raxpy_l n), !(rdot_raxpy_r n) by auto with vlen.
    rewrite (rdot_comm b (M a)), <- (Msym a b) by assumption. ring.
  Qed.

  (* Cauchy-Schwarz for the semi-inner product of M *)
  Lemma m_cauchy_schwarz a b : len n a -> len n b -> (a ⋅ M b) * (a ⋅ M b) <= mnorm2 a * mnorm2 b.
  Proof.
    intros Ha Hb.
    assert (Hq : forall k, 0 <= mnorm2 b + 2 * k * (b ⋅ M a) + k * k * mnorm2 a).
    { intros k. rewrite <- mnorm2_axpy by assumption. apply Mpsd. auto with vlen. }
    assert (Eba : b ⋅ M a = a ⋅ M b) by (rewrite (Msym b a), rdot_comm by assumption; reflexivity).
    setoid_rewrite Eba in Hq.
    pose proof (Mpsd a Ha) as Haa. pose proof (Mpsd b Hb) as Hbb. fold (mnorm2 a) in Haa. fold (mnorm2 b) in Hbb.
    set (c := a ⋅ M b) in *. set (aa := mnorm2 a) in *. set (bb := mnorm2 b) in *.
    destruct (Req_dec aa 0) as [Hz|Hnz].
    - (* aa = 0 forces c = 0 *)
      rewrite Hz. rewrite Hz in Hq.
      destruct (Req_dec c 0) as [Hc|Hc]; [rewrite Hc; lra|exfalso].
      specialize (Hq (- (bb + 1) / (2 * c))).
      replace (bb + 2 * (- (bb + 1) / (2 * c)) * c + - (bb + 1) / (2 * c) * (- (bb + 1) / (2 * c)) * 0) with (-1) in Hq by (field; assumption).
      lra.
    - assert (0 < aa) by lra.
      specialize (Hq (- c / aa)).
      replace (bb + 2 * (- c / aa) * c + - c / aa * (- c / aa) * aa) with (bb - c * c / aa) in Hq by (field; lra).
      assert (c * c / aa <= bb) by lra.
      assert (c * c / aa * aa <= bb * aa) by (apply Rmult_le_compat_r; lra).
      replace (c * c / aa * aa) with (c * c) in * by (field; lra). lra.
  Qed.

  Theorem dogleg_correct cp np : len n cp -> len n np ->
    let r := @dogleg_step R NumR M cp np D in
    len n r /\ mnorm2 r <= D * D /\
    ((exists c, 0 < c <= 1 /\ r = rscale c cp) \/ r = cp \/
     (exists t, 0 <= t <= 1 /\ r = raxpy cp t (rsub np cp)) \/ r = np).
  Proof.
    intros Hcp Hnp. cbv zeta. unfold dogleg_step. unfold_num. unfold Rleb, Rltb.
    fold (mnorm2 cp). fold (mnorm2 np).
    assert (Htt : 0 < D * D) by nra.
    pose proof (Mpsd cp Hcp) as Hcc. fold (mnorm2 cp) in Hcc.
    set (cc := mnorm2 cp) in *. set (nn := mnorm2 np) in *.
    destruct (Rle_dec (D * D) cc) as [H1|H1].
    { (* Cauchy point outside: scale back to the boundary *)
      assert (Hccp : 0 < cc) by lra.
      assert (Hq : 0 < D * D / cc) by (apply Rdiv_lt_0_compat; lra).
      assert (Hq1 : D * D / cc <= 1).
      { apply Rmult_le_reg_r with cc; [lra|]. replace (D * D / cc * cc) with (D * D) by (field; lra). lra. }
      pose proof (sqrt_sqrt (D * D / cc) ltac:(lra)) as Hs.
      assert (Hs0 : 0 < sqrt (D * D / cc)) by (apply sqrt_lt_R0; assumption).
      split; [auto with vlen|]. split.
      - unfold mnorm2. rewrite Mscale, rdot_rscale_l, rdot_rscale_r by assumption. fold (mnorm2 cp). fold cc.
        rewrite <- Rmult_assoc, Hs. right. field. lra.
      - left. exists (sqrt (D * D / cc)). split; [|reflexivity]. split; [assumption|].
        rewrite <- sqrt_1. apply sqrt_le_1_alt. assumption. }
    destruct (Rlt_dec nn cc) as [H2|H2].
    { split; [assumption|]. split; [fold cc; lra|]. right; left; reflexivity. }
    destruct (Rlt_dec (D * D) nn) as [H3|H3].
    2:{ split; [assumption|]. split; [fold nn; lra|]. right; right; right; reflexivity. }
    (* the dogleg segment *)
    unfold pc_project. unfold_num. q2r.
    set (d := rsub np cp).
    assert (Hd : len n d) by (unfold d; auto with vlen).
    assert (Ed : d = raxpy np (-1) cp) by (unfold d; apply rsub_as_axpy).
    set (c := cp ⋅ M np).
    assert (Enp_cp : np ⋅ M cp = c) by (unfold c; rewrite (Msym np cp), rdot_comm by assumption; reflexivity).
    assert (Hcs : c * c <= cc * nn) by (apply m_cauchy_schwarz; assumption).
    assert (Edd : d ⋅ M d = nn - 2 * c + cc).
    { fold (mnorm2 d). rewrite Ed, mnorm2_axpy by assumption. fold nn cc. rewrite Enp_cp. ring. }
    assert (Ezd : cp ⋅ M d = c - cc).
    { rewrite Ed, Mlin by assumption. rewrite (rdot_raxpy_r n) by auto. fold c. fold (mnorm2 cp). fold cc. ring. }
    assert (Hdd : 0 < d ⋅ M d).
    { rewrite Edd. destruct (Rlt_dec 0 (nn - 2 * c + cc)) as [|Hn]; [assumption|exfalso].
      assert (nn + cc <= 2 * c) by lra. assert (0 <= nn) by lra.
      assert ((nn + cc) * (nn + cc) <= 2 * c * (2 * c)) by (apply Rmult_le_compat; lra).
      assert ((nn - cc) * (nn - cc) <= 0) by nra.
      assert (0 < nn - cc) by lra. nra. }
    set (dd := d ⋅ M d) in *. set (zd := cp ⋅ M d) in *.
    match goal with |- context [raxpy cp ?e d] => replace e with (tauR D cc zd dd) end.
    2:{ rewrite tau_closed by assumption. f_equal. }
    assert (Hccle : cc <= D * D) by lra.
    destruct (tau_spec D cc zd dd Hccle Hdd) as (_ & Ht0 & Hq).
    assert (Hlt : tauR D cc zd dd < 1).
    { apply (tau_lt_step D cc zd dd 1 _ Hccle Hdd Ht0 Hq); [lra|]. rewrite Edd, Ezd. lra. }
    split; [auto with vlen|]. split.
    - rewrite mnorm2_axpy by assumption. change (mnorm2 d) with dd. change (mnorm2 cp) with cc. change (cp ⋅ M d) with zd. lra.
    - right; right; left. exists (tauR D cc zd dd). split; [lra|reflexivity].
  Qed.
End Dogleg.

(* the hypotheses are satisfiable: Euclidean mode, mat_mul = identity *)
Lemma dogleg_identity_instance n :
  (forall v, len n v -> len n ((fun u : rvec => u) v)) /\
  (forall (a : rvec) k (b : rvec), len n a -> len n b -> (fun u : rvec => u) (raxpy a k b) = raxpy a k b) /\
  (forall v : rvec, len n v -> 0 <= v ⋅ v).
Proof. repeat split; auto. intros; apply rdot_self_nonneg. Qed.
