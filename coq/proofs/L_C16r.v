(* C16 part 6 (PROPOSED patch F2, model/M_C16_Patched.v -- not the code in /repo): two-sided robustness of the patched overlap for
   facing parallel segments.  cs = the exact candidate list of A = (0,0)-(LA,0), B = (u,-h)-(v,-h) (v < u) with the common normal
   (0,-1); l' = any list whose parameters are within d <= tol of those of cs (rounding of the 2x2 solves).  The area integral of
   the patched code on l' is the overlap length up to (l/2 + 3 (tol + d)) (|A| + |B|). *)
From Coq Require Import Reals Lra Lia QArith Psatz List Bool Classical_Prop.
From OV.base Require Import Num.
From OV.gen Require Import Gen_MortarContact.
From OV.model Require Import M_C16_Mortar M_C16_Patched.
From OV.proofs Require Import L_C18 L_C16 L_C16m L_C16p.
Import ListNotations.
Local Open Scope R_scope.

Lemma Forall2_In_r {A B} (P : A -> B -> Prop) l l' y : Forall2 P l l' -> In y l' -> exists x, In x l /\ P x y.
Proof.
  induction 1 as [|a b l l' Hab _ IH]; intros Hi; [destruct Hi|].
  destruct Hi as [<-|Hi]; [exists a; split; [left; reflexivity|exact Hab]|].
  destruct (IH Hi) as (x & Ix & Px). exists x. split; [right; exact Ix|exact Px].
Qed.
Lemma clip_dist tol x : 0 <= tol -> - tol <= x <= 1 + tol -> Rabs (clipR x - x) <= tol.
Proof. intros Ht H. rewrite clip_closed. apply Rabs_le. destruct (Rlt_dec x 0), (Rlt_dec 1 x); lra. Qed.
(* scaled form of clip_near: L * clip x is at least as close to a point of [0, L] as L * x *)
Lemma clip_near_scaled L x y D : 0 < L -> 0 <= y <= L -> Rabs (L * x - y) <= D -> Rabs (L * clipR x - y) <= D.
Proof.
  intros HL Hy H. apply Rabs_le_inv in H. rewrite clip_closed. apply Rabs_le.
  destruct (Rlt_dec x 0); [|destruct (Rlt_dec 1 x)]; try lra.
  - assert (L * x < 0) by nra. lra.
  - assert (L < L * x) by nra. lra.
Qed.

Section RobustParallel.
  Variables LA u v h l tol d : R.
  Hypothesis HLA : 0 < LA.
  Hypothesis Huv : v < u.
  Hypothesis Hl : 0 < l <= 1 / 2.
  Hypothesis Hd : 0 <= d <= tol.
  Let lo := Rmax 0 v.
  Let hi := Rmin LA u.
  Hypothesis Hov : lo <= hi.
  Let LB := u - v.
  Let cs := candsR 0 0 LA 0 u (- h) v (- h) 0 (- 1).
  Variable l' : list cand.
  Hypothesis HF : Forall2 (close d) cs l'.
  Let EA := LA * d + LB * (tol + d).
  Let EB := LB * d + LA * (tol + d) + EA.

  Lemma lohi : 0 <= lo /\ v <= lo /\ hi <= LA /\ hi <= u.
  Proof. unfold lo, hi, Rmax, Rmin. destruct (Rle_dec 0 v), (Rle_dec LA u); lra. Qed.

  (* every candidate the patched mask accepts has its clipped A-parameter inside the exact overlap up to EA *)
  Lemma accepted_in_overlap x x' : In x cs -> close d x x' -> vPt tol x' ->
    lo - EA <= LA * clipR (cxa x') <= hi + EA.
  Proof.
    intros Ix [Ca Cb] [Va Vb]. destruct (cs_invariant LA u v h HLA Huv x Ix) as [Inv _]. unfold Xof in Inv.
    apply Rabs_le_inv in Ca. apply Rabs_le_inv in Cb. fold LB in Inv.
    pose proof lohi as (L0 & L1 & L2 & L3). pose proof (clip_range (cxa x')) as Cr.
    set (xa := cxa x) in *. set (xb := cxb x) in *. set (xa' := cxa x') in *. set (xb' := cxb x') in *.
    assert (HB : 0 < LB) by (unfold LB; lra).
    assert (P1 : LB * xb <= LB * (1 + tol + d)) by (apply Rmult_le_compat_l; lra).
    assert (P2 : LB * (- tol - d) <= LB * xb) by (apply Rmult_le_compat_l; lra).
    assert (P3 : LA * (xa - d) <= LA * xa') by (apply Rmult_le_compat_l; lra).
    assert (P4 : LA * xa' <= LA * (xa + d)) by (apply Rmult_le_compat_l; lra).
    assert (X1 : v - LB * (tol + d) <= LA * xa) by (unfold LB in *; nra).
    assert (X2 : LA * xa <= u + LB * (tol + d)) by (unfold LB in *; nra).
    assert (X3 : LA * xa - LA * d <= LA * xa' <= LA * xa + LA * d) by (split; nra).
    unfold EA. rewrite clip_closed. destruct (Rlt_dec xa' 0); [|destruct (Rlt_dec 1 xa')].
    - split; [|nra]. unfold lo, Rmax in *. destruct (Rle_dec 0 v); nra.
    - split; [nra|]. unfold hi, Rmin in *. destruct (Rle_dec LA u); nra.
    - split.
      + unfold lo, Rmax in *. destruct (Rle_dec 0 v); nra.
      + unfold hi, Rmin in *. destruct (Rle_dec LA u); nra.
  Qed.

  (* ... and its clipped B-parameter follows: if LA * clip xa' is within EA of a point X0 of [lo, hi] then LB * clip xb' is within
     EB of u - X0 *)
  Lemma accepted_b_parameter x x' X0 : In x cs -> close d x x' -> vPt tol x' -> lo <= X0 <= hi ->
    Rabs (LA * clipR (cxa x') - X0) <= EA -> Rabs (LB * clipR (cxb x') - (u - X0)) <= EB.
  Proof.
    intros Ix [Ca Cb] [Va Vb] HX0 HA. destruct (cs_invariant LA u v h HLA Huv x Ix) as [Inv _]. unfold Xof in Inv. fold LB in Inv.
    pose proof lohi as (L0 & L1 & L2 & L3). assert (HB : 0 < LB) by (unfold LB; lra).
    assert (Ht : 0 <= tol) by lra.
    pose proof (clip_dist tol (cxa x') Ht Va) as Cd. apply Rabs_le_inv in Cd.
    apply Rabs_le_inv in Ca. apply Rabs_le_inv in Cb. apply Rabs_le_inv in HA.
    apply clip_near_scaled; [exact HB|unfold LB; lra|].
    set (xa := cxa x) in *. set (xb := cxb x) in *. set (xa' := cxa x') in *. set (xb' := cxb x') in *. set (ca := clipR xa') in *.
    unfold EB. apply Rabs_le. split; nra.
  Qed.

  Variable quad : list (R * R).
  Hypothesis Hw1 : fold_right (fun q acc => snd q + acc) 0 quad = 1.

  Theorem patched_parallel_robust :
    Rabs (activeR (selminp tol l') (selmaxp tol l') LA LB (fun _ _ _ => 1) l quad - (hi - lo)) <= (l / 2 + 3 * (tol + d)) * (LA + LB).
  Proof.
    destruct (selected_ends LA u v h l HLA Huv Hl Hov) as (Vm & VM & Xm & XM & _). fold cs lo hi in Vm, VM, Xm, XM. unfold Xof in Xm, XM.
    assert (Hv : some_valid cs).
    { destruct (lo_attained LA u v h HLA Huv) as (xl & Il & El). exists xl. split; [exact Il|].
      destruct (cs_invariant LA u v h HLA Huv xl Il) as [Jl _]. apply (valid_by_X LA u v l HLA Huv Hl xl Jl). fold lo hi. fold lo in El. lra. }
    destruct (patched_selection_keeps_overlap tol d cs l' HF Hd Hv) as [K1 K2].
    destruct (selection_spec cs Hv) as (_ & _ & Im & IM & _).
    destruct (Forall2_In_l _ _ _ _ HF Im) as (m0 & Im0 & Cm0).
    assert (Hv' : some_valid_t tol l') by (exists m0; split; [exact Im0|apply (close_valid d tol _ _ Hd Cm0 Vm)]).
    destruct (selection_p_spec tol l' Hv') as ((xm' & Ixm & Vxm & Exm) & (xM' & IxM & VxM & ExM) & _).
    destruct (Forall2_In_r _ _ _ _ HF Ixm) as (xm & Ixm0 & Cxm). destruct (Forall2_In_r _ _ _ _ HF IxM) as (xM & IxM0 & CxM).
    pose proof (accepted_in_overlap _ _ Ixm0 Cxm Vxm) as [Am1 _]. pose proof (accepted_in_overlap _ _ IxM0 CxM VxM) as [_ AM2].
    pose proof lohi as (L0 & L1 & L2 & L3). assert (HB : 0 < LB) by (unfold LB; lra).
    assert (Ea : cxa (selminp tol l') = clipR (cxa xm')) by (rewrite Exm at 1; reflexivity).
    assert (Eb : cxb (selminp tol l') = clipR (cxb xm')) by (rewrite Exm at 1; reflexivity).
    assert (EAa : cxa (selmaxp tol l') = clipR (cxa xM')) by (rewrite ExM at 1; reflexivity).
    assert (EBb : cxb (selmaxp tol l') = clipR (cxb xM')) by (rewrite ExM at 1; reflexivity).
    assert (Rm : vP (selminp tol l')) by (rewrite Exm; apply clipc_range). assert (RM : vP (selmaxp tol l')) by (rewrite ExM; apply clipc_range).
    set (m := selminp tol l') in *. set (M := selmaxp tol l') in *.
    assert (Dm : Rabs (LA * cxa m - lo) <= EA).
    { apply Rabs_le. rewrite Ea in *. unfold EA in *. split; nra. }
    assert (DM : Rabs (LA * cxa M - hi) <= EA).
    { apply Rabs_le. rewrite EAa in *. unfold EA in *. split; nra. }
    assert (Bm : Rabs (LB * cxb m - (u - lo)) <= EB).
    { rewrite Eb. apply (accepted_b_parameter xm xm' lo Ixm0 Cxm Vxm); [lra|rewrite <- Ea; exact Dm]. }
    assert (BM : Rabs (LB * cxb M - (u - hi)) <= EB).
    { rewrite EBb. apply (accepted_b_parameter xM xM' hi IxM0 CxM VxM); [lra|rewrite <- EAa; exact DM]. }
    destruct Rm as [Ra Rb], RM as [RA RB].
    pose proof (slin_increment l Hl (cxa m) (cxa M) Ra RA) as IA. pose proof (slin_increment l Hl (cxb m) (cxb M) Rb RB) as IB.
    rewrite active_factor, wsum_one, Hw1. unfold dxiA, dxiB.
    set (sa := slin l (cxa M) - slin l (cxa m)) in *. set (sb := slin l (cxb M) - slin l (cxb m)) in *.
    apply Rabs_le_inv in Dm. apply Rabs_le_inv in DM. apply Rabs_le_inv in Bm. apply Rabs_le_inv in BM. apply Rabs_le_inv in IA.
    assert (IB' : Rabs (Rabs sb - Rabs (cxb M - cxb m)) <= l) by (eapply Rle_trans; [apply Rabs_triang_inv2|exact IB]).
    apply Rabs_le_inv in IB'.
    (* LB |xbM - xbm| is within 2 EB of hi - lo *)
    assert (Qb : - (2 * EB) <= LB * Rabs (cxb M - cxb m) - (hi - lo) <= 2 * EB).
    { assert (- (2 * EB) <= LB * (cxb m - cxb M) - (hi - lo) <= 2 * EB) by lra.
      unfold Rabs. destruct (Rcase_abs (cxb M - cxb m)); [nra|]. assert (0 <= EB) by (unfold EB, EA; nra). nra. }
    assert (HEA : EA <= (LA + LB) * (tol + d)) by (unfold EA; nra).
    assert (HEB : EB <= 2 * (LA + LB) * (tol + d)) by (unfold EB, EA; nra).
    apply Rabs_le. split; nra.
  Qed.
End RobustParallel.
