(* C05 -- the trust-region half of feasibility for the COMPLETE solver model (model/M_C05_Full.v at T := R): every point the
   solver forms inside an outer iteration -- the generalized Cauchy point, every SPG iterate x+z, the trial point y = x+s --
   is within the radius trSize of that iteration's centre x, the radius is never negative, and the centre is the current
   iterate (the start or the last accepted point).  Ingredients: the trust-region cut-back loop of the Cauchy search (needs
   cauchy_point_max_line_search_iters >= 1), project_onto_tr inside the radius for EVERY root-finder answer (repo fix F15,
   L_C05.project_onto_tr_props), the [0,1] step length, and convexity of the ball along z += alpha*s. *)
From Coq Require Import Reals Lra Lia List QArith Psatz Bool.
From OV.base Require Import Num.
From OV.gen Require Import Gen_TrustRegionSPG.
From OV.model Require Import M_C06_Vec M_C06_CG M_C01_TR M_C05_SPG M_C05_Full.
From OV.proofs Require Import L_C06_Vec L_C01 L_C05 L_C05_Full.
Import ListNotations.
Local Open Scope R_scope.

(* |p - c|^2 <= D^2 *)
Definition within (c : rvec) (D : R) (p : rvec) : Prop := rsub p c ⋅ rsub p c <= D * D.

(* walk along a trace of the complete model.  c = the current iterate (the start, then the point of the last AcceptedAt event),
   D = the radius announced by the last FIter event.  Every FIter must announce the current iterate as the centre and a
   non-negative radius; every FSpg point (the Cauchy point, every SPG iterate) and every trial point must be within D of c. *)
Fixpoint tr_walk (c : rvec) (D : R) (tr : list (fevent R)) : Prop :=
  match tr with
  | [] => True
  | FIter x D' :: t => x = c /\ 0 <= D' /\ tr_walk x D' t
  | FSpg p _ _ :: t => within c D p /\ tr_walk c D t
  | FTrial y :: t => within c D y /\ tr_walk c D t
  | FOut (EAccept y _) :: t => tr_walk y D t
  | _ :: t => tr_walk c D t
  end.

(* ------------------------------------------------------------ vector algebra *)
Lemma rsub_radd_cancel x z : length z = length x -> rsub (radd x z) x = z.
Proof.
  revert z; induction x as [|a x IH]; intros [|c z] E; simpl in E; try discriminate; [reflexivity|].
  unfold vadd, vsub in *. cbn [vmap2]. unfold_num. f_equal; [lra|apply IH; lia].
Qed.

(* convexity of the square along the SPG update: |z + a (p - (x+z))|^2 <= (1-a) |z|^2 + a |p - x|^2 for 0 <= a <= 1 *)
Lemma spg_update_ball x z p a : length z = length x -> length p = length x -> 0 <= a <= 1 ->
  raxpy z a (rsub p (radd x z)) ⋅ raxpy z a (rsub p (radd x z)) <= (1 - a) * (z ⋅ z) + a * (rsub p x ⋅ rsub p x).
Proof.
  intros Ez Ep Ha. revert z p Ez Ep; induction x as [|b x IH]; intros [|c z] [|e p] Ez Ep; simpl in Ez, Ep; try discriminate.
  - cbn. unfold_num. q2r. lra.
  - specialize (IH z p ltac:(lia) ltac:(lia)).
    change (radd (b :: x) (c :: z)) with ((b + c) :: radd x z).
    change (rsub (e :: p) ((b + c) :: radd x z)) with ((e - (b + c)) :: rsub p (radd x z)).
    change (raxpy (c :: z) a ((e - (b + c)) :: rsub p (radd x z))) with ((c + a * (e - (b + c))) :: raxpy z a (rsub p (radd x z))).
    change (rsub (e :: p) (b :: x)) with ((e - b) :: rsub p x).
    rewrite !rdot_cons.
    assert (H1 : (c + a * (e - (b + c))) * (c + a * (e - (b + c))) <= (1 - a) * (c * c) + a * ((e - b) * (e - b))).
    { assert (0 <= a * (1 - a) * ((c - (e - b)) * (c - (e - b)))).
      { apply Rmult_le_pos; [apply Rmult_le_pos; lra|]. pose proof (Rle_0_sqr (c - (e - b))) as Q. unfold Rsqr in Q. exact Q. }
      nra. }
    lra.
Qed.

Section TRProofs.
  Variable value : rvec -> R.
  Variable grad : rvec -> rvec.
  Variable hessvec : rvec -> rvec -> rvec.
  Variable brent : nat -> R.
  Variable bs : list rbound.
  Variable S : settings R.
  Variable G : spg_settings R.
  Hypothesis W : wf_box bs.
  Hypothesis grad_len : forall x, length x = length bs -> length (grad x) = length bs.
  Hypothesis hv_len : forall x v, length x = length bs -> length v = length bs -> length (hessvec x v) = length bs.
  (* the radius stays non-negative: initial radius and both scaling factors are non-negative *)
  Hypothesis tr0_nonneg : 0 <= s_tr_size S.
  Hypothesis t1_nonneg : 0 <= s_t1 S.
  Hypothesis t2_nonneg : 0 <= s_t2 S.
  (* the cut-back loop of the Cauchy search runs at least once before its cap is tested *)
  Hypothesis max_ls_pos : (1 <= g_max_ls G)%nat.

  (* ------------------------------------------------------------ the Cauchy search returns a step inside the radius *)
  Section CauchyTR.
    Variables (x g : rvec) (Hv : rvec -> rvec) (tr : R).
    Lemma shrink_loop_exit again fuel : forall i alpha i' a' s',
      (i < g_max_ls G)%nat ->
      @shrink_loop R NumR bs G x g again fuel i alpha = Some (i', a', s') ->
      again s' = false \/ i' = g_max_ls G.
    Proof.
      induction fuel as [|fuel IH]; intros i alpha i' a' s' Hi E; [discriminate|].
      cbn [shrink_loop] in E. cbv zeta in E.
      match type of E with (if ?c then _ else _) = _ => destruct c eqn:Hc end.
      - apply andb_true_iff in Hc. destruct Hc as [_ Hlt]. apply Nat.ltb_lt in Hlt.
        eapply IH; [exact Hlt|exact E].
      - inversion E; subst. apply andb_false_iff in Hc. destruct Hc as [Hc|Hc]; [left; exact Hc|].
        right. apply Nat.ltb_ge in Hc. lia.
    Qed.

    Lemma tr_cutback_in_tr fwd n1 alpha s fwd' n1' n2' a' s' :
      @tr_cutback R NumR bs G x g tr fwd n1 alpha s = CPOk fwd' n1' n2' a' s' -> s' ⋅ s' <= tr * tr.
    Proof.
      unfold tr_cutback. destruct (outside_tr tr s) eqn:Eo.
      - destruct (shrink_loop bs G x g (outside_tr tr) (Datatypes.S (g_max_ls G)) 0 alpha) as [[[i a2] s2]|] eqn:E; [|discriminate].
        destruct (Nat.eqb i (g_max_ls G)) eqn:Ei; [discriminate|]. intros H; inversion H; subst.
        apply shrink_loop_exit in E; [|lia]. destruct E as [E|E]; [|apply Nat.eqb_neq in Ei; contradiction].
        unfold outside_tr, deltaSq in E. revert E. unfold_num. intros E. apply Rltb_false in E. exact E.
      - intros H; inversion H; subst.
        unfold outside_tr, deltaSq in Eo. revert Eo. unfold_num. intros E. apply Rltb_false in E. exact E.
    Qed.

    Lemma cauchy_point_in_tr alpha fwd n1 n2 a s :
      @cauchy_point R NumR bs G x g Hv tr alpha = CPOk fwd n1 n2 a s -> s ⋅ s <= tr * tr.
    Proof.
      unfold cauchy_point. cbv zeta.
      match goal with |- (if ?c then _ else _) = _ -> _ => destruct c end.
      - match goal with |- match ?f with _ => _ end = _ -> _ => destruct f as [[[i a1] s1]|] end; [|discriminate].
        apply tr_cutback_in_tr.
      - match goal with |- match ?f with _ => _ end = _ -> _ => destruct f as [[[i a1] s1]|] end; [|discriminate].
        destruct (Nat.eqb i (g_max_ls G)); [discriminate|]. apply tr_cutback_in_tr.
    Qed.
  End CauchyTR.

  (* ------------------------------------------------------------ the SPG iterations stay in the ball *)
  Definition spg_within (c : rvec) (D : R) (e : fevent R) : Prop :=
    match e with FSpg p _ _ => within c D p | _ => False end.

  Lemma walk_app_spg c D l1 l2 : Forall (spg_within c D) l1 -> tr_walk c D l2 -> tr_walk c D (l1 ++ l2).
  Proof.
    induction 1 as [|e l He Hl IH]; intros H2; [exact H2|].
    destruct e; cbn [spg_within] in He; try contradiction. cbn [app tr_walk]. split; [exact He|apply IH; exact H2].
  Qed.

  Lemma within_radd x z D : length z = length x -> z ⋅ z <= D * D -> within x D (radd x z).
  Proof. intros E H. unfold within. rewrite rsub_radd_cancel by exact E. exact H. Qed.

  Lemma ptr_in_tr p xk tr k : length p = length bs -> in_box bs xk -> 0 <= tr ->
    let r := @ptr R NumR brent bs p xk tr k in length (fst r) = length bs /\ rsub (fst r) xk ⋅ rsub (fst r) xk <= tr * tr.
  Proof.
    intros Ep Hk Ht. cbv zeta. unfold ptr. cbn [fst].
    pose proof (project_onto_tr_props p xk bs tr (brent k) W Ep Hk Ht) as H. cbv zeta in H. destruct H as (A & _ & B).
    split; [apply in_box_length; exact A|exact B].
  Qed.

  Lemma spg_loop_in_tr rem : forall i x Hv tr tol2 z d q xNew lam h k chi2,
    in_box bs x -> (forall v, length v = length bs -> length (Hv v) = length bs) ->
    length z = length bs -> length d = length bs -> xNew = radd x z -> 0 <= tr -> z ⋅ z <= tr * tr ->
    let r := @spg_loop R NumR brent bs G rem i x Hv tr tol2 z d q xNew lam h k chi2 in
    length (o_z r) = length bs /\ o_z r ⋅ o_z r <= tr * tr /\ Forall (spg_within x tr) (o_ev r).
  Proof.
    induction rem as [|rem IH]; intros i x Hv tr tol2 z d q xNew lam h k chi2 Hx HHv Ez Ed EX Ht Hz; cbv zeta.
    - cbn. auto.
    - cbn [spg_loop]. unfold sub_opt.
      pose proof (in_box_length _ _ Hx) as Ex.
      set (pk := ptr brent bs (rsub xNew (rscale lam d)) x tr k).
      assert (LX : length xNew = length bs) by (subst xNew; rewrite radd_length; congruence).
      assert (Larg : length (rsub xNew (rscale lam d)) = length bs) by (rewrite rsub_length; rewrite rscale_length; congruence).
      pose proof (ptr_in_tr _ _ tr k Larg Hx Ht) as Hp. cbv zeta in Hp. fold pk in Hp. destruct Hp as (Lp & Pin).
      destruct pk as [p k1]. cbn [fst] in Lp, Pin.
      set (s := rsub p xNew). set (Bs := Hv s).
      assert (Ls : length s = length bs) by (unfold s; rewrite rsub_length; congruence).
      assert (LBs : length Bs = length bs) by (apply HHv; exact Ls).
      set (alpha := spg_alpha (g_nonmonotone G) (rdot d s) (rdot s Bs) q (hist_max h)).
      pose proof (spg_alpha_range (g_nonmonotone G) (rdot d s) (rdot s Bs) q (hist_max h)) as Ha. fold alpha in Ha.
      set (z1 := raxpy z alpha s). set (d1 := raxpy d alpha Bs).
      assert (Lz1 : length z1 = length bs) by (unfold z1; rewrite raxpy_length; congruence).
      assert (Ld1 : length d1 = length bs) by (unfold d1; rewrite raxpy_length; congruence).
      assert (Hz1 : z1 ⋅ z1 <= tr * tr).
      { unfold z1, s. subst xNew.
        eapply Rle_trans; [apply spg_update_ball; [congruence|congruence|exact Ha]|].
        assert (0 <= (1 - alpha) * (tr * tr - z ⋅ z)) by (apply Rmult_le_pos; lra).
        assert (0 <= alpha * (tr * tr - rsub p x ⋅ rsub p x)) by (apply Rmult_le_pos; lra).
        lra. }
      assert (Hw1 : within x tr (radd x z1)) by (apply within_radd; [congruence|exact Hz1]).
      match goal with |- context [ptr brent bs ?a ?b ?c ?e] => set (pk2 := ptr brent bs a b c e) end.
      destruct pk2 as [p2 k2].
      match goal with |- context [if nltb ?a ?b then _ else _] => destruct (nltb a b) end.
      + cbn [o_z o_ev]. split; [exact Lz1|]. split; [exact Hz1|]. constructor; [exact Hw1|constructor].
      + cbn [o_z o_ev].
        match goal with |- context [spg_loop brent bs G rem ?i' x Hv tr tol2 z1 d1 ?q' (radd x z1) ?l' ?h' k2 ?c'] =>
          pose proof (IH i' x Hv tr tol2 z1 d1 q' (radd x z1) l' h' k2 c' Hx HHv Lz1 Ld1 eq_refl Ht Hz1) as H end.
        cbv zeta in H. destruct H as (A & B & C).
        split; [exact A|]. split; [exact B|]. constructor; [exact Hw1|exact C].
  Qed.

  Lemma solve_spg_in_tr x cs r Hv tr k :
    in_box bs x -> (forall v, length v = length bs -> length (Hv v) = length bs) ->
    length cs = length bs -> length r = length bs -> 0 <= tr -> cs ⋅ cs <= tr * tr ->
    let o := @solve_spg R NumR brent bs S G x cs r Hv tr k in
    o_z o ⋅ o_z o <= tr * tr /\ Forall (spg_within x tr) (o_ev o).
  Proof.
    intros Hx HHv Ec Er Ht Hc. cbv zeta. unfold solve_spg. unfold sub_opt.
    pose proof (in_box_length _ _ Hx) as Ex.
    assert (Hw : within x tr (radd x cs)) by (apply within_radd; [congruence|exact Hc]).
    match goal with |- context [ptr brent bs ?a ?b ?c ?e] => set (pk := ptr brent bs a b c e) end.
    destruct pk as [p k1].
    match goal with |- context [if nltb ?a ?b then _ else _] => destruct (nltb a b) end.
    - cbn [o_z o_ev]. split; [exact Hc|]. constructor; [exact Hw|constructor].
    - destruct (Nat.eqb (s_max_cg_iters S) 0).
      + cbn [o_z o_ev]. split; [exact Hc|]. constructor; [exact Hw|constructor].
      + cbn [o_z o_ev].
        assert (Ld : length (radd r (Hv cs)) = length bs) by (rewrite radd_length; [apply HHv; exact Ec|rewrite HHv; congruence]).
        match goal with |- context [spg_loop brent bs G ?rem ?i' x Hv tr ?t2 cs ?d' ?q' (radd x cs) ?l' ?h' k1 ?c'] =>
          pose proof (spg_loop_in_tr rem i' x Hv tr t2 cs d' q' (radd x cs) l' h' k1 c' Hx HHv Ec Ld eq_refl Ht Hc) as H end.
        cbv zeta in H. destruct H as (A & B & C).
        split; [exact B|]. constructor; [exact Hw|exact C].
  Qed.

  (* ------------------------------------------------------------ the radius update and the rest of an outer iteration *)
  Lemma new_radius_nonneg rho st tr : 0 <= tr -> 0 <= @new_radius R NumR S rho st tr.
  Proof.
    intros Ht. unfold new_radius. unfold_num.
    destruct (negb (ege rho (s_eta2 S))); [apply Rmult_le_pos; assumption|].
    destruct (andb (egt rho (s_eta3 S)) (is_on_boundary st)); [apply Rmult_le_pos; assumption|exact Ht].
  Qed.

  Notation decideR := (@decide R NumR value grad bs S).
  Lemma decide_walk s a1 k1 sv mo onb it : 0 <= f_tr s ->
    match decideR s a1 k1 sv mo onb it with
    | DConverged y => True
    | DStop x ev => forall D, tr_walk (f_x s) D (map FOut ev)
    | DNext s' ev => 0 <= f_tr s' /\
                     forall D rest, (forall D0, tr_walk (f_x s') D0 rest) -> tr_walk (f_x s) D (map FOut ev ++ rest)
    end.
  Proof.
    intros Ht. unfold decide. cbv zeta.
    match goal with |- context [if nltb ?a (s_tol S) then _ else _] => destruct (nltb a (s_tol S)) end; [exact I|].
    match goal with |- context [new_radius S ?r ?t (f_tr s)] => pose proof (new_radius_nonneg r t (f_tr s) Ht) as Hn end.
    match goal with |- context [will_accept S ?r ?a ?b] => destruct (will_accept S r a b) end;
      (match goal with |- context [nltb ?a (s_min_tr_size S)] => destruct (nltb a (s_min_tr_size S)) end);
      cbn [negb]; try destruct (f_tried s); cbn [negb f_x f_tr app map tr_walk];
      try (split; [first [exact tr0_nonneg|exact Hn]|]); intros; cbn [app map tr_walk]; auto.
  Qed.

  (* ------------------------------------------------------------ the whole solver *)
  Notation outerF := (@full_outer R NumR value grad hessvec brent bs S G).

  Lemma full_outer_in_tr iters : forall s, in_box bs (f_x s) -> length (f_g s) = length bs -> 0 <= f_tr s ->
    forall D0, tr_walk (f_x s) D0 (snd (outerF iters s)).
  Proof.
    induction iters as [|iters IH]; intros s Hx Hg Ht D0.
    - cbn. exact I.
    - cbn [full_outer]. cbv zeta.
      pose proof (in_box_length _ _ Hx) as Lx.
      destruct (cauchy_point bs G (f_x s) (f_g s) (hessvec (f_x s)) (f_tr s) (f_alpha s)) as [fwd n1 n2 a1 cs|ph|] eqn:Ecp.
      2:{ cbn. auto. }
      2:{ cbn. auto. }
      pose proof (cauchy_point_in_tr _ _ _ _ _ _ _ _ _ _ Ecp) as Hcs.
      apply cauchy_point_pstep in Ecp. destruct Ecp as (a' & Ecs).
      destruct (pstep_props bs W (f_x s) (f_g s) a' Lx Hg) as (Lcs & Hcin). rewrite <- Ecs in Lcs, Hcin.
      pose proof (solve_spg_feasible brent bs S G W (f_x s) cs (f_g s) (hessvec (f_x s)) (f_tr s) (f_k s) Lx
                    (fun v Lv => hv_len (f_x s) v Lx Lv) Lcs Hg Hcin) as Hsp.
      pose proof (solve_spg_in_tr (f_x s) cs (f_g s) (hessvec (f_x s)) (f_tr s) (f_k s) Hx
                    (fun v Lv => hv_len (f_x s) v Lx Lv) Lcs Hg Ht Hcs) as Hst.
      cbv zeta in Hsp, Hst. set (o := solve_spg brent bs S G (f_x s) cs (f_g s) (hessvec (f_x s)) (f_tr s) (f_k s)) in *.
      destruct Hsp as (Lz & Hy & _). destruct Hst as (Hzz & Hev).
      assert (Hwy : within (f_x s) (f_tr s) (radd (f_x s) (o_z o))) by (apply within_radd; [congruence|exact Hzz]).
      (* the common prefix FIter :: FCauchy :: spg events ++ [FSpgExit] *)
      assert (Hpre : forall rest, tr_walk (f_x s) (f_tr s) rest ->
                tr_walk (f_x s) D0 ((FIter (f_x s) (f_tr s) :: FCauchy fwd n1 n2 a1 :: o_ev o ++ [FSpgExit (o_kind o) (o_iters o)]) ++ rest)).
      { intros rest Hr. cbn [app tr_walk]. split; [reflexivity|]. split; [exact Ht|].
        rewrite <- app_assoc. apply walk_app_spg; [exact Hev|]. cbn [app tr_walk]. exact Hr. }
      destruct (Nat.eqb (o_kind o) 3).
      { cbn [snd]. apply Hpre. cbn. exact I. }
      pose proof (decide_feasible value grad bs S grad_len s a1 (o_k o) (o_z o) (o_q o) (Nat.eqb (o_kind o) 1) (o_iters o) Hx Hg Hy) as Hd.
      pose proof (decide_walk s a1 (o_k o) (o_z o) (o_q o) (Nat.eqb (o_kind o) 1) (o_iters o) Ht) as Hw.
      destruct (decideR s a1 (o_k o) (o_z o) (o_q o) (Nat.eqb (o_kind o) 1) (o_iters o)) as [y'|x1 ev|s' ev].
      + cbn [snd]. apply Hpre. cbn [tr_walk]. split; [exact Hwy|exact I].
      + cbn [snd]. apply Hpre. cbn [tr_walk]. split; [exact Hwy|apply Hw].
      + destruct Hd as (Hx1 & Hg1 & _). destruct Hw as (Ht1 & Hw).
        pose proof (IH s' Hx1 Hg1 Ht1) as H. destruct (outerF iters s') as [res tr]. cbn [snd] in H |- *.
        apply Hpre. cbn [tr_walk]. split; [exact Hwy|]. apply Hw. exact H.
  Qed.

  Theorem full_minimize_in_tr x0 : in_box bs x0 ->
    forall D0, tr_walk x0 D0 (snd (@full_minimize R NumR value grad hessvec brent bs S G x0)).
  Proof.
    intros Hx D0. unfold full_minimize. cbv zeta.
    match goal with |- context [if nltb ?a (s_tol S) then _ else _] => destruct (nltb a (s_tol S)) end.
    - cbn. exact I.
    - match goal with |- context [full_outer _ _ _ _ _ _ _ ?it ?s0] =>
        exact (full_outer_in_tr it s0 Hx (grad_len x0 (in_box_length _ _ Hx)) tr0_nonneg D0) end.
  Qed.
End TRProofs.

(* non-vacuity: the hypotheses on the settings are satisfiable (the defaults t1 = 0.25, t2 = 1.75, tr_size = 2, 25 line-search
   iterations), and tr_walk is not trivially true: it rejects a trial point outside the radius, a wrong centre and a negative radius *)
Lemma example_tr_hypotheses :
  (0 <= 2 /\ 0 <= 1/4 /\ 0 <= 7/4 /\ (1 <= 25)%nat) /\
  ~ tr_walk [0] 0 [FIter [0] 1; FTrial [2]] /\ ~ tr_walk [0] 0 [FIter [1] 1] /\ ~ tr_walk [0] 0 [FIter [0] (-1)] /\
  tr_walk [0] 0 [FIter [0] 1; FSpg [1] 0 0; FTrial [1]; FOut (EAccept [1] 0); FIter [1] 2; FTrial [3]].
Proof.
  split; [repeat split; try lra; lia|].
  cbn [tr_walk]. unfold within. cbn [vsub vmap2 vdot ndot]. unfold_num. q2r.
  split; [intros (_ & _ & H & _); lra|]. split; [intros (H & _); inversion H; lra|]. split; [intros (_ & H & _); lra|].
  repeat split; lra.
Qed.

(* the hypothesis cauchy_point_max_line_search_iters >= 1 is NEEDED: with a cap of 0 the cut-back loop returns after one cut-back
   (`i == maxLineSearchIters` is 1 == 0) without raising.  Model Hessian 1/100, g = -1, x = 0, no bounds, first step length 100,
   trSize = 1: the returned Cauchy step is 20 (replayed on find_generalized_cauchy_point: it returns alpha = 20, s = [20.]) *)
Definition G0 : spg_settings R :=
  {| g_nonmonotone := true; g_hist := 10; g_mu0 := 0; g_qtol := 0; g_max_ls := 0; g_lam_min := 0; g_lam_max := 1 |}.

Ltac decide_cmp :=
  match goal with
  | |- context [Rltb ?a ?b] => first [rewrite (proj2 (Rltb_true a b)) by lra | rewrite (proj2 (Rltb_false a b)) by lra]
  | |- context [Rleb ?a ?b] => first [rewrite (proj2 (Rleb_true a b)) by lra | rewrite (proj2 (Rleb_false a b)) by lra]
  end.

Lemma cauchy_cap_zero_outside :
  exists (G : spg_settings R) x g Hv tr alpha fwd n1 n2 a s,
    g_max_ls G = O /\ @cauchy_point R NumR [(None, None)] G x g Hv tr alpha = CPOk fwd n1 n2 a s /\ tr * tr < s ⋅ s.
Proof.
  exists G0, [0], [-1], (fun s => rscale (1/100) s), 1, 100, true, 1%nat, 1%nat. eexists. eexists. split; [reflexivity|].
  unfold cauchy_point, tr_cutback, qm, suff, pstep, outside_tr, deltaSq, cutback, G0.
  cbn [fwd_loop shrink_loop g_max_ls g_mu0 g_qtol project clamp fst snd vsub vscale vmap2 map vdot ndot qm suff pstep outside_tr deltaSq cutback Nat.eqb Nat.ltb Nat.leb andb orb negb].
  unfold_num. q2r.
  repeat (decide_cmp; cbn [andb orb negb]).
  unfold cutback. cbn [vdot ndot]. unfold_num. q2r.
  repeat (decide_cmp; cbn [andb orb negb]).
  cbn [Nat.eqb]. split; [reflexivity|].
  cbn [vdot ndot]. unfold_num. q2r. lra.
Qed.
