(* C02: the reference table of optimism/Mechanics.py (gen/Refs_Mechanics.v, regenerated from the AST on every run) is decided by
   computation; this file proves what the computed boolean means, in both directions. *)
From Coq Require Import String List Bool Arith.
From OV.gen Require Import Refs_Mechanics.
Import ListNotations.

Lemma forallb_false_witness {A} (f : A -> bool) l : forallb f l = false -> exists x, In x l /\ f x = false.
Proof.
  induction l as [|x l IH]; simpl; [discriminate|].
  destruct (f x) eqn:E; simpl; intros H.
  - destruct (IH H) as (y & H1 & H2). exists y; auto.
  - exists x; auto.
Qed.

Definition refs_resolve : Prop :=
  (forall r, In r attr_refs -> attr_ok r = true) /\ free_names = [] /\ (forall h, In h hook_arities -> hook_ok h = true).

Definition refs_broken : Prop :=
  (exists r, In r attr_refs /\ attr_ok r = false) \/ free_names <> [] \/ (exists h, In h hook_arities /\ hook_ok h = false).

(* whatever the current source is, the computed flag decides between the two *)
Lemma refs_decided : if refs_all_ok then refs_resolve else refs_broken.
Proof.
  unfold refs_resolve, refs_broken. destruct refs_all_ok eqn:E; unfold refs_all_ok in E.
  - apply andb_prop in E. destruct E as [E E3]. apply andb_prop in E. destruct E as [E1 E2].
    split; [|split].
    + intros x Hx. rewrite forallb_forall in E1. auto.
    + revert E2. destruct free_names; [reflexivity|discriminate].
    + intros x Hx. rewrite forallb_forall in E3; auto.
  - apply andb_false_iff in E. destruct E as [E|E3]; [apply andb_false_iff in E; destruct E as [E1|E2]|].
    + left. apply forallb_false_witness; assumption.
    + right; left. revert E2. destruct free_names; discriminate.
    + right; right. apply forallb_false_witness; assumption.
Qed.

(* on a tree where the flag computes to false the full statement "every reference resolves" is refuted *)
Lemma refs_resolve_refuted_when_flag_false : refs_all_ok = false -> ~ refs_resolve.
Proof.
  unfold refs_all_ok, refs_resolve. intros H (H1 & H2 & H3).
  assert (E1 : forallb attr_ok attr_refs = true) by (apply forallb_forall; assumption).
  assert (E3 : forallb hook_ok hook_arities = true) by (apply forallb_forall; assumption).
  rewrite E1, E3, H2 in H. discriminate.
Qed.

(* on the current tree the flag computes to true: every reference of Mechanics.py resolves (re-decided from the regenerated
   table on every run; if a reference stops resolving this proof fails and the check reports the broken items) *)
Lemma refs_resolve_now : refs_resolve.
Proof.
  assert (E : refs_all_ok = true) by (vm_compute; reflexivity).
  pose proof refs_decided as H. rewrite E in H. exact H.
Qed.

Lemma refs_nonvacuous : 20 <= length attr_refs /\ 2 <= length hook_arities.
Proof. vm_compute. split; repeat constructor. Qed.
