(* C02: the reference table of optimism/Mechanics.py (gen/Refs_Mechanics.v, regenerated from the AST on every run) is decided by
   computation; this file proves what the computed boolean means, in both directions. *)
From Coq Require Import String List Bool Arith.
From OV.gen Require Import Refs_Mechanics.
Import ListNotations.

Lemma forallb_false_witness {A} (f : A -> bool) l : forallb f l = false -> exists x, In x l /\ f x = false.
Proof.
  induction l as [|x l IH]; simpl; [discriminate|].
  destruct (f x) eqn:E; simpl; intros H.
  - destruct (IH H) as (y & H1 & H2). exists y; auto.
  - exists x; auto.
Qed.

Definition refs_resolve : Prop :=
  (forall r, In r attr_refs -> attr_ok r = true) /\ free_names = [] /\ (forall h, In h hook_arities -> hook_ok h = true).

Definition refs_broken : Prop :=
  (exists r, In r attr_refs /\ attr_ok r = false) \/ free_names <> [] \/ (exists h, In h hook_arities /\ hook_ok h = false).

(* whatever the current source is, the computed flag decides between the two *)
Lemma refs_decided : if refs_all_ok then refs_resolve else refs_broken.
Proof.
  unfold refs_resolve, refs_broken. destruct refs_all_ok eqn:E; unfold refs_all_ok in E.
  - apply andb_prop in E. destruct E as [E E3]. apply andb_prop in E. destruct E as [E1 E2].
    split; [|split].
    + intros x Hx. rewrite forallb_forall in E1. auto.
    + revert E2. destruct free_names; [reflexivity|discriminate].
    + intros x Hx. rewrite forallb_forall in E3; auto.
  - apply andb_false_iff in E. destruct E as [E|E3]; [apply andb_false_iff in E; destruct E as [E1|E2]|].
    + left. apply forallb_false_witness; assumption.
    + right; left. revert E2. destruct free_names; discriminate.
    + right; right. apply forallb_false_witness; assumption.
Qed.

(* on a tree where the flag computes to false the full statement "every reference resolves" is refuted *)
Lemma refs_resolve_refuted_when_flag_false : refs_all_ok = false -> ~ refs_resolve.
Proof.
  unfold refs_all_ok, refs_resolve. intros H (H1 & H2 & H3).
  assert (E1 : forallb attr_ok attr_refs = true) by (apply forallb_forall; assumption).
  assert (E3 : forallb hook_ok hook_arities = true) by (apply forallb_forall; assumption).
  rewrite E1, E3, H2 in H. discriminate.
Qed.

(* on the current tree the flag computes to true: every reference of Mechanics.py resolves (re-decided from the regenerated
   table on every run; if a reference stops resolving this proof fails and the check reports the broken items) *)
Lemma refs_resolve_now : refs_resolve.
Proof.
  assert (E : refs_all_ok = true) by (vm_compute; reflexivity).
  pose proof refs_decided as H. rewrite E in H. exact H.
Qed.

Lemma refs_nonvacuous : 20 <= length attr_refs /\ 1 <= length hook_arities.
Proof. vm_compute. split; repeat constructor. Qed.

(* ---------------------------------------------------------------------------------------------------------------------------
   round 4: the option sites.  pp_sites lists EVERY top-level function of Mechanics.py with a parameter pressureProjectionDegree
   (the three factories and the helper), mode_sites every one with a parameter mode2D, call_arities every call of a top-level
   function of the module / of an element-gradient hook variable.  A site is in order when every truth test that mentions the
   degree is `is None` / `is not None` (a bare truthiness test silently treats degree 0 like None), the parameter is never
   rebound, and volume_average_J_gradient_transformation is reached directly or by handing the parameter unchanged to a
   function that reaches it; when both 2D modes are compared (or delegated to a function that compares both); when the number of
   arguments of a call fits the callee's signature. *)

Lemma pp_ok_spec f ln nt nn rb re di :
  pp_ok (f, ln, nt, nn, rb, re, di) = true <-> nt = nn /\ rb = 0 /\ re = true.
Proof.
  unfold pp_ok. rewrite !andb_true_iff, !Nat.eqb_eq. tauto.
Qed.

Lemma mode_ok_spec f ln p a d :
  mode_ok (f, ln, p, a, d) = true <-> d = true \/ (p = true /\ a = true).
Proof.
  unfold mode_ok. rewrite orb_true_iff, andb_true_iff. tauto.
Qed.

Lemma call_ok_spec f g ln n lo hi k :
  call_ok (f, g, ln, n, lo, hi, k) = true <-> lo <= n /\ n <= hi /\ k = true.
Proof.
  unfold call_ok. rewrite !andb_true_iff, !Nat.leb_le. tauto.
Qed.

Definition sites_resolve : Prop :=
  (forall s, In s pp_sites -> pp_ok s = true) /\ (forall s, In s mode_sites -> mode_ok s = true)
  /\ (forall c, In c call_arities -> call_ok c = true).

Definition sites_broken : Prop :=
  (exists s, In s pp_sites /\ pp_ok s = false) \/ (exists s, In s mode_sites /\ mode_ok s = false)
  \/ (exists c, In c call_arities /\ call_ok c = false).

Lemma sites_decided : if sites_all_ok then sites_resolve else sites_broken.
Proof.
  unfold sites_resolve, sites_broken. destruct sites_all_ok eqn:E; unfold sites_all_ok in E.
  - apply andb_prop in E. destruct E as [E E3]. apply andb_prop in E. destruct E as [E1 E2].
    rewrite forallb_forall in E1, E2, E3. auto.
  - apply andb_false_iff in E. destruct E as [E|E3]; [apply andb_false_iff in E; destruct E as [E1|E2]|].
    + left. apply forallb_false_witness; assumption.
    + right; left. apply forallb_false_witness; assumption.
    + right; right. apply forallb_false_witness; assumption.
Qed.

Lemma sites_resolve_refuted_when_flag_false : sites_all_ok = false -> ~ sites_resolve.
Proof.
  unfold sites_all_ok, sites_resolve. intros H (H1 & H2 & H3).
  assert (E1 : forallb pp_ok pp_sites = true) by (apply forallb_forall; assumption).
  assert (E2 : forallb mode_ok mode_sites = true) by (apply forallb_forall; assumption).
  assert (E3 : forallb call_ok call_arities = true) by (apply forallb_forall; assumption).
  rewrite E1, E2, E3 in H. discriminate.
Qed.

(* on the current tree: every factory treats pressureProjectionDegree = 0 like any other degree and reaches the projection kernel *)
Lemma sites_resolve_now : sites_resolve.
Proof.
  assert (E : sites_all_ok = true) by (vm_compute; reflexivity).
  pose proof sites_decided as H. rewrite E in H. exact H.
Qed.

Definition is_factory (s : string * nat * nat * nat * nat * bool * bool) : bool :=
  match s with (f, _, _, _, _, _, _) => String.prefix "create_" f end.

(* the statement read off for the factories: each one only ever tests the degree against None, never rebinds it, reaches the kernel *)
Lemma factories_pass_every_degree :
  forall f ln nt nn rb re di, In (f, ln, nt, nn, rb, re, di) pp_sites -> nt = nn /\ rb = 0 /\ re = true.
Proof.
  intros f ln nt nn rb re di H. apply (pp_ok_spec f ln nt nn rb re di). apply (proj1 sites_resolve_now). exact H.
Qed.

Definition is_mode_factory (s : string * nat * bool * bool * bool) : bool :=
  match s with (f, _, _, _, _) => String.prefix "create_" f end.

Lemma sites_nonvacuous :
  3 <= length (filter is_factory pp_sites) /\ 3 <= length (filter is_mode_factory mode_sites) /\ 20 <= length call_arities.
Proof. vm_compute. repeat split; repeat constructor. Qed.
