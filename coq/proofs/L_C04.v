(* C04: lemmas.  Part A: Fischer-Burmeister residual and augmented-Lagrangian penalty (kernels regenerated from
   ConstrainedObjective.py, at T := R).  Part B: invariants of the outer loop model (model/M_C04_AL.v) for arbitrary oracles.
   Part C: termination test => approximate KKT.  Part D: exact KKT + convexity => global constrained minimiser. *)
From Coq Require Import Reals Lra Lia QArith List Bool Psatz.
From Coquelicot Require Import Coquelicot.
From OV.base Require Import Num Piecewise.
From OV.gen Require Import Gen_ConstrainedObjective Gen_AlSolver Gen_BoundConstrainedObjective.
From OV.model Require Import M_C04_AL.
Import ListNotations.
Local Open Scope R_scope.

(* ------------------------------------------------------------------ A. kernels *)
Definition FB (c l k : R) : R := @fischer_burmeister R NumR c l k.

Lemma FB_closed c l k : FB c l k = sqrt ((c * k) ^ 2 + l ^ 2) - c * k - l.
Proof.
  unfold FB, fischer_burmeister. unfold_num.
  match goal with |- context [sqrt ?u] => replace u with ((c * k) ^ 2 + l ^ 2) by ring end. ring.
Qed.

Lemma sqrt2_facts : 1 < sqrt 2 < 2 /\ sqrt 2 * sqrt 2 = 2.
Proof.
  assert (H : sqrt 2 * sqrt 2 = 2) by (apply sqrt_sqrt; lra).
  assert (0 <= sqrt 2) by apply sqrt_pos. split; [split; nra | exact H].
Qed.

Lemma two_minus_sqrt2_pos : 0 < 2 - sqrt 2 < 1.
Proof. destruct sqrt2_facts as [[? ?] ?]. lra. Qed.

Lemma sq_le_le s t : 0 <= s -> 0 <= t -> s * s <= t * t -> s <= t.
Proof.
  intros Hs Ht H. destruct (Rle_dec s t) as [|N]; [assumption|exfalso].
  assert (0 < (s - t) * (s + t)) by (apply Rmult_lt_0_compat; lra). nra.
Qed.

(* phi(a,b) = sqrt(a^2+b^2) - a - b *)
Lemma phi_facts a b : let s := sqrt (a ^ 2 + b ^ 2) in
  0 <= s /\ s * s = a ^ 2 + b ^ 2 /\ Rabs a <= s /\ Rabs b <= s.
Proof.
  intros s. assert (Hs : 0 <= s) by apply sqrt_pos.
  assert (Hq : s * s = a ^ 2 + b ^ 2) by (apply sqrt_sqrt; nra).
  repeat split; try assumption.
  - unfold Rabs; destruct (Rcase_abs a); nra.
  - unfold Rabs; destruct (Rcase_abs b); nra.
Qed.

Lemma phi_min a b : 0 < a -> 0 < b -> (2 - sqrt 2) * Rmin a b <= a + b - sqrt (a ^ 2 + b ^ 2).
Proof.
  intros Ha Hb. destruct (phi_facts a b) as (Hs & Hq & _ & _).
  set (s := sqrt (a ^ 2 + b ^ 2)) in *. destruct sqrt2_facts as [[H1 H2] Hr]. set (r := sqrt 2) in *.
  unfold Rmin. destruct (Rle_dec a b) as [Hab|Hab].
  - assert (s <= b + (r - 1) * a).
    { assert (0 <= (r - 1) * a) by (apply Rmult_le_pos; lra).
      assert (0 <= (r - 1) * a * (b - a)) by (apply Rmult_le_pos; lra).
      apply sq_le_le; [lra | lra |].
      replace ((b + (r - 1) * a) * (b + (r - 1) * a)) with (a ^ 2 + b ^ 2 + 2 * ((r - 1) * a * (b - a)) + (r * r - 2) * (a * a)) by ring.
      rewrite Hq, Hr. lra. }
    lra.
  - assert (s <= a + (r - 1) * b).
    { assert (0 <= (r - 1) * b) by (apply Rmult_le_pos; lra).
      assert (0 <= (r - 1) * b * (a - b)) by (apply Rmult_le_pos; lra).
      apply sq_le_le; [lra | lra |].
      replace ((a + (r - 1) * b) * (a + (r - 1) * b)) with (a ^ 2 + b ^ 2 + 2 * ((r - 1) * b * (a - b)) + (r * r - 2) * (b * b)) by ring.
      rewrite Hq, Hr. lra. }
    lra.
Qed.

(* |FB| <= e  =>  k c >= -e,  lam >= -e,  min(k c, lam) <= e / (2 - sqrt 2) *)
Theorem fb_small_implies_complementarity c l k e :
  Rabs (FB c l k) <= e -> - e <= c * k /\ - e <= l /\ Rmin (c * k) l <= e / (2 - sqrt 2).
Proof.
  rewrite FB_closed. set (a := c * k). intros H.
  destruct (phi_facts a l) as (Hs & Hq & Ha & Hl). set (s := sqrt (a ^ 2 + l ^ 2)) in *.
  apply Rabs_le_between in H. destruct H as [Hlo Hhi].
  assert (He : 0 <= e) by lra.
  assert (Hal : a <= s) by (pose proof (Rle_abs a); lra).
  assert (Hll : l <= s) by (pose proof (Rle_abs l); lra).
  split; [lra|]. split; [lra|].
  destruct two_minus_sqrt2_pos as [Hp Hp1].
  assert (Hq0 : 0 <= e / (2 - sqrt 2)).
  { apply Rmult_le_pos; [exact He|]. left. apply Rinv_0_lt_compat. exact Hp. }
  destruct (Rle_dec (Rmin a l) 0) as [Hm|Hm]; [lra|].
  assert (0 < a /\ 0 < l) as [Ha0 Hl0].
  { unfold Rmin in Hm. destruct (Rle_dec a l); lra. }
  pose proof (phi_min a l Ha0 Hl0) as Hphi. fold s in Hphi.
  apply Rmult_le_reg_r with (2 - sqrt 2); [exact Hp|].
  unfold Rdiv. rewrite Rmult_assoc, Rinv_l by lra. lra.
Qed.

(* exact complementarity: FB = 0 iff both non-negative with zero product *)
Theorem fb_zero_iff c l k : FB c l k = 0 <-> (0 <= c * k /\ 0 <= l /\ (c * k) * l = 0).
Proof.
  rewrite FB_closed. set (a := c * k).
  destruct (phi_facts a l) as (Hs & Hq & Ha & Hl). set (s := sqrt (a ^ 2 + l ^ 2)) in *.
  split.
  - intros H. assert (Es : s = a + l) by lra.
    assert (Hal : a <= s) by (pose proof (Rle_abs a); lra).
    assert (Hll : l <= s) by (pose proof (Rle_abs l); lra).
    rewrite Es in Hq. repeat split; nra.
  - intros (H1 & H2 & H3).
    assert (s * s = (a + l) * (a + l)) by nra.
    assert (s = a + l) by (apply Rle_antisym; apply sq_le_le; nra). lra.
Qed.

(* the product form lam * c is scale dependent: a small FB residual does not bound it *)
Theorem fb_product_unbounded e k M : 0 < e -> 0 < k -> 0 < M ->
  exists c l, Rabs (FB c l k) <= e /\ 0 <= c /\ 0 <= l /\ M <= l * c.
Proof.
  intros He Hk HM. exists (e / k), (M * k / e).
  assert (Hck : e / k * k = e) by (field; lra).
  rewrite FB_closed, Hck. set (l := M * k / e).
  assert (Hl : 0 < l) by (unfold l; apply Rmult_lt_0_compat; [nra | apply Rinv_0_lt_compat; lra]).
  destruct (phi_facts e l) as (Hs & Hq & Ha & Hb). set (s := sqrt (e ^ 2 + l ^ 2)) in *.
  assert (Hle : l <= s) by (pose proof (Rle_abs l); lra).
  assert (s <= e + l) by (apply sq_le_le; nra).
  split; [apply Rabs_le_between; lra|].
  split; [left; apply Rmult_lt_0_compat; [lra | apply Rinv_0_lt_compat; lra]|].
  split; [lra|]. unfold l. right. field. lra.
Qed.

(* the penalty term of the augmented Lagrangian for one constraint: the regenerated nested `f` with
   objective := 0 and constraint := identity *)
Definition pen (c l k : R) : R := @al_value R NumR (fun _ _ => 0) (fun x _ => x) c 0 l k.

Lemma pen_closed c l k : pen c l k = if Rle_dec (k * c) l then - c * l + k * c * c / 2 else - (l * l) / (2 * k).
Proof.
  unfold pen, al_value. unfold_num. q2r. unfold Rleb.
  destruct (Rle_dec (k * c) l); [lra|].
  destruct (Req_EM_T k 0) as [->|Hk].
  - unfold Rdiv. rewrite Rmult_0_r, !Rinv_0. lra.
  - field. exact Hk.
Qed.

(* continuously differentiable in the constraint value, derivative -max(lam - k c, 0): the switch at lam = k c is C1 *)
Theorem pen_C1 l k : 0 < k -> C1_with (fun c => pen c l k) (fun c => - Rmax (l - k * c) 0).
Proof.
  intros Hk.
  assert (Hiff : forall c, c <= l / k <-> k * c <= l).
  { intros c. split; intros Hc.
    - apply Rmult_le_compat_l with (r := k) in Hc; [|lra].
      replace (k * (l / k)) with l in Hc by (field; lra). exact Hc.
    - apply Rmult_le_reg_l with k; [lra|]. replace (k * (l / k)) with l by (field; lra). exact Hc. }
  apply (C1_ext (pw (l / k) (fun c => - c * l + k * c * c / 2) (fun _ => - (l * l) / (2 * k)))
                (pw (l / k) (fun c => - l + k * c) (fun _ => 0))).
  - intros c. rewrite pen_closed. unfold pw.
    destruct (Rle_dec c (l / k)) as [H1|H1]; rewrite Hiff in H1; destruct (Rle_dec (k * c) l); try reflexivity; contradiction.
  - intros c. unfold pw, Rmax.
    destruct (Rle_dec c (l / k)) as [H1|H1]; rewrite Hiff in H1; destruct (Rle_dec (l - k * c) 0); lra.
  - apply C1_pw.
    + c1_auto.
    + c1_auto.
    + field. lra.
    + field. lra.
Qed.

(* multipliers after the first-order update are exactly the "effective multipliers" of the penalty derivative, and for
   lam >= 0 they differ from lam by at most the complementarity error (scaled by the penalty growth k / k0) *)
Theorem effective_multiplier_close c l k0 k e :
  0 <= l -> 0 < k0 <= k -> Rabs (FB c l k0) <= e ->
  Rabs (l - Rmax (l - k * c) 0) <= k / k0 * (e / (2 - sqrt 2)).
Proof.
  intros Hl [Hk0 Hk] H. destruct (fb_small_implies_complementarity _ _ _ _ H) as (H1 & H2 & H3).
  destruct two_minus_sqrt2_pos as [Hp Hp1].
  assert (He : 0 <= e) by (pose proof (Rabs_pos (FB c l k0)); lra).
  set (q := e / (2 - sqrt 2)) in *.
  assert (Heq : e <= q).
  { unfold q. apply Rmult_le_reg_r with (2 - sqrt 2); [exact Hp|].
    unfold Rdiv. rewrite Rmult_assoc, Rinv_l by lra. nra. }
  set (rho := k / k0). assert (Hrho : 1 <= rho).
  { unfold rho. apply Rmult_le_reg_r with k0; [exact Hk0|]. unfold Rdiv. rewrite Rmult_assoc, Rinv_l by lra. lra. }
  assert (Ek : k = rho * k0) by (unfold rho; field; lra).
  assert (Hq0 : 0 <= q) by lra.
  unfold Rmax. destruct (Rle_dec (l - k * c) 0) as [Hc|Hc].
  - (* l <= k c : difference is l = min(l, k c) *)
    replace (l - 0) with l by ring. rewrite Rabs_right by lra.
    unfold Rmin in H3. destruct (Rle_dec (c * k0) l) as [Hm|Hm].
    + assert (0 <= c * k0) by nra. assert (l <= rho * (c * k0)) by (rewrite Ek in Hc; lra). nra.
    + nra.
  - replace (l - (l - k * c)) with (k * c) by ring.
    destruct (Rle_dec 0 c) as [Hc0|Hc0].
    + rewrite Rabs_right by nra.
      unfold Rmin in H3. destruct (Rle_dec (c * k0) l) as [Hm|Hm].
      * rewrite Ek. nra.
      * assert (k * c < l) by lra. nra.
    + rewrite Rabs_left by nra. rewrite Ek. nra.
Qed.

(* ------------------------------------------------------------------ B. outer-loop invariants, arbitrary oracles *)
Definition nonneg (v : list R) : Prop := List.Forall (fun a => 0 <= a) v.
Definition le_vec (a b : list R) : Prop := List.Forall2 Rle a b.

Lemma le_vec_refl a : le_vec a a.
Proof. induction a; constructor; [lra|assumption]. Qed.
Lemma le_vec_trans a b c : le_vec a b -> le_vec b c -> le_vec a c.
Proof.
  intros H; revert c; induction H as [|x y a b Hxy Hab IH]; intros c0 H1; inversion H1; subst.
  - constructor.
  - constructor; [lra|apply IH; assumption].
Qed.

(* the regenerated update statements of AlSolver.solve_sub_step (gen/Gen_AlSolver.v), one constraint *)
Lemma sub_lam_update_closed l k c : @sub_lam_update R NumR l k c = Rmax (l - k * c) 0.
Proof.
  unfold sub_lam_update, nmax. unfold_num. q2r. unfold Rmax.
  destruct (Rle_dec (l - k * c) 0); rcases; lra.
Qed.
Lemma sub_lam_update_nonneg l k c : 0 <= @sub_lam_update R NumR l k c.
Proof. rewrite sub_lam_update_closed. apply Rmax_r. Qed.
Lemma sub_kappa_update_mono k p s : 1 <= s -> 0 <= k ->
  k <= @sub_kappa_update R NumR k p s /\ 0 <= @sub_kappa_update R NumR k p s.
Proof. intros Hs Hk. unfold sub_kappa_update. unfold_num. destruct p; split; nra. Qed.
Lemma sub_kappa_update_only_if_poor k s : @sub_kappa_update R NumR k false s = k.
Proof. unfold sub_kappa_update. reflexivity. Qed.
(* a constraint is flagged only if its complementarity error exceeds BOTH the required decrease and the absolute floor *)
Lemma sub_poor_progress_spec e old tdf tl m : @sub_poor_progress R NumR e old tdf tl m = true ->
  tdf * old < e /\ 10 * tl / sqrt m < e.
Proof.
  unfold sub_poor_progress, nmax. unfold_num. q2r. intros H. apply Rltb_true in H. revert H. rcases; intros; lra.
Qed.

Lemma lam_update_nonneg lam kappa c : nonneg (@lam_update R NumR lam kappa c).
Proof.
  unfold lam_update. revert kappa c.
  induction lam as [|l lam IH]; intros [|k kappa] [|c0 c]; cbn [zip3]; try (constructor; fail).
  constructor; [apply sub_lam_update_nonneg | apply IH].
Qed.

Lemma scale_where_mono s poor kappa : 1 <= s -> nonneg kappa ->
  le_vec kappa (@scale_where R NumR s poor kappa) /\ nonneg (@scale_where R NumR s poor kappa).
Proof.
  intros Hs. revert poor. induction kappa as [|k ks IH]; intros poor Hk.
  - destruct poor; cbn [scale_where]; split; constructor.
  - inversion Hk; subst. destruct poor as [|p ps]; cbn [scale_where].
    + split; [apply le_vec_refl | exact Hk].
    + destruct (IH ps H2) as [I1 I2]. destruct (sub_kappa_update_mono k p s Hs H1) as [J1 J2].
      split; constructor; assumption.
Qed.

Ltac fa := repeat first [assumption | apply Forall_nil | apply Forall_cons | (apply Forall_app; split)].

Section Inv.
  Variable cfg : @settings R.
  Variable orc : @oracles R.
  Variable kappa0 : list R.

  Definition resid (it : nat) (x lam kappa : list R) : list R :=
    @total_residual R NumR orc kappa0 it Sub x lam kappa.

  Lemma sub_step_spec it x lam kappa ncpOld s' ok ev :
    sub_step cfg orc kappa0 it x lam kappa ncpOld = (s', ok, ev) ->
    nonneg (slam s')
    /\ (1 <= penalty_scaling cfg -> nonneg kappa -> le_vec kappa (skap s') /\ nonneg (skap s'))
    /\ serr s' = norm2 (resid it (sx s') (slam s') (skap s'))
    /\ slam s' = lam_update lam kappa (constraint orc it Sub (sx s'))
    /\ List.Forall (fun e => match e with
                        | AfterSub _ _ l k _ _ _ _ => l = slam s' /\ k = skap s'
                        | Callback _ _ _ _ => False | _ => True end) ev.
  Proof.
    unfold sub_step. destruct (sub_solve orc it x lam kappa) as [x' ok'].
    intros H. inversion H; subst; clear H. cbn [slam skap serr sx].
    split; [apply lam_update_nonneg|]. split.
    - intros Hs Hk. match goal with |- context [if ?g then _ else _] => destruct g end.
      + apply scale_where_mono; assumption.
      + split; [apply le_vec_refl | exact Hk].
    - split; [reflexivity|]. split; [reflexivity|]. repeat constructor.
  Qed.

  (* events that show the multipliers *)
  Definition ev_lam_ok (e : event R) : Prop :=
    match e with
    | AfterSub _ _ lam _ _ _ _ _ => nonneg lam
    | Callback it _ lam _ => (1 <= it)%nat -> nonneg lam
    | _ => True
    end.

  Lemma linesearch_events fuel k it x lamSave dx dl kappa errN upd r ev :
    linesearch orc kappa0 fuel k it x lamSave dx dl kappa errN upd = (r, ev) ->
    List.Forall (fun e => match e with LSTry _ _ _ _ => True | _ => False end) ev.
  Proof.
    revert k dx dl upd r ev. induction fuel as [|f IH]; intros k dx dl upd r ev; cbn [linesearch].
    - intros H; inversion H; constructor.
    - match goal with |- context [if ?g then _ else _] => destruct g end.
      + intros H; inversion H; repeat constructor.
      + destruct (linesearch orc kappa0 f (S k) it x lamSave _ _ kappa errN _) as [r' ev'] eqn:E.
        intros H; inversion H; subst. constructor; [exact I|]. eapply IH; exact E.
  Qed.

  (* one outer iteration *)
  Theorem iteration_invariants it s res ev :
    iteration cfg orc kappa0 it s = (res, ev) ->
    ((it = 0)%nat \/ nonneg (slam s)) ->
    List.Forall ev_lam_ok ev
    /\ match res with
       | inl s' =>
           (newton_only cfg = false -> nonneg (slam s'))
           /\ (1 <= penalty_scaling cfg -> nonneg (skap s) -> le_vec (skap s) (skap s') /\ nonneg (skap s'))
       | inr (x, lam, kappa) =>
           newton_only cfg = false /\ nonneg lam
           /\ (1 <= penalty_scaling cfg -> nonneg (skap s) -> le_vec (skap s) kappa /\ nonneg kappa)
           /\ norm2 (resid it x lam kappa) < tol cfg
       end.
  Proof.
    unfold iteration. intros H H0.
    set (second := orb (andb (use_second_order cfg) (Nat.leb (n_low_order cfg) it)) (newton_only cfg)) in H.
    assert (Hcb : ev_lam_ok (Callback it (sx s) (slam s) (skap s))).
    { cbn. intros Hit. destruct H0 as [->|H0]; [lia|exact H0]. }
    destruct (if second then _ else _) as [[[[x1 lam1] err1] upd] ev1] eqn:E1 in H.
    assert (Hev1 : List.Forall ev_lam_ok ev1).
    { destruct second.
      - destruct (lin_update orc it (sx s) (slam s) (skap s)) as [[dx dl] failed].
        destruct (linesearch orc kappa0 10 0 it (sx s) (slam s) dx dl (skap s) (serr s) failed) as [r evl] eqn:EL.
        inversion E1; subst. constructor; [exact I|].
        apply linesearch_events in EL. eapply Forall_impl; [|exact EL]. intros [] Ha; try contradiction; exact I.
      - inversion E1; constructor. }
    assert (Hev2 : List.Forall ev_lam_ok (if upd then [@PrecondUpdate R it] else [])).
    { destruct upd; repeat constructor. }
    destruct (newton_only cfg) eqn:EN.
    - inversion H; subst; clear H. split.
      + fa.
      + cbn [slam skap]. split; [discriminate|]. intros _ Hk. split; [apply le_vec_refl|exact Hk].
    - destruct (sub_step cfg orc kappa0 it x1 lam1 (skap s) (sncp s)) as [[s' ok] ev3] eqn:E3.
      destruct (sub_step_spec _ _ _ _ _ _ _ _ E3) as (L1 & K1 & R1 & _ & V3).
      assert (Hev3 : List.Forall ev_lam_ok ev3).
      { eapply Forall_impl; [|exact V3]. intros [] Ha; cbn; try exact I; try contradiction.
        destruct Ha as [-> _]. exact L1. }
      destruct (nltb (serr s') (tol cfg)) eqn:ET; inversion H; subst; clear H.
      + split.
        * fa. cbn. intros _. exact L1.
        * split; [reflexivity|]. split; [exact L1|]. split; [exact K1|].
          rewrite <- R1. unfold_num. apply Rltb_true. exact ET.
      + split.
        * fa.
        * split; [intros _; exact L1 | exact K1].
  Qed.

  Lemma iteration_invariants_newton it s res ev :
    iteration cfg orc kappa0 it s = (res, ev) -> newton_only cfg = true -> exists s', res = inl s'.
  Proof.
    unfold iteration. intros H HN.
    set (second := orb (andb (use_second_order cfg) (Nat.leb (n_low_order cfg) it)) (newton_only cfg)) in H.
    destruct (if second then _ else _) as [[[[x1 lam1] err1] upd] ev1] in H.
    rewrite HN in H. inversion H; subst. eexists; reflexivity.
  Qed.

  (* the whole loop: every event satisfies the multiplier invariant; kappa never decreases from the start;
     a normal return satisfies the termination test *)
  Theorem loop_invariants fuel : forall it s o ev,
    loop cfg orc kappa0 fuel it s = (o, ev) ->
    newton_only cfg = false ->
    ((it = 0)%nat \/ nonneg (slam s)) ->
    List.Forall ev_lam_ok ev
    /\ (1 <= penalty_scaling cfg -> nonneg (skap s) ->
        match o with Returned _ _ kappa | NotConverged _ _ kappa => le_vec (skap s) kappa /\ nonneg kappa end)
    /\ match o with
       | Returned x lam kappa => nonneg lam /\ exists it', (it' < it + fuel)%nat /\ norm2 (resid it' x lam kappa) < tol cfg
       | NotConverged _ _ _ => True
       end.
  Proof.
    induction fuel as [|f IH]; intros it s o ev; cbn [loop].
    - intros H _ _. inversion H; subst. split; [constructor|]. split; [|exact I].
      intros _ Hk. split; [apply le_vec_refl|exact Hk].
    - destruct (iteration cfg orc kappa0 it s) as [res ev1] eqn:E1. intros H HN H0.
      destruct (iteration_invariants _ _ _ _ E1 H0) as [V1 P1].
      destruct res as [s'|[[x lam] kappa]].
      + destruct (loop cfg orc kappa0 f (S it) s') as [o' ev'] eqn:E2. injection H as Ho Hev. subst o ev.
        destruct P1 as [PL PK].
        destruct (IH _ _ _ _ E2 HN (or_intror (PL HN))) as (V2 & K2 & R2).
        split; [apply Forall_app; split; assumption|]. split.
        * intros Hs Hk. destruct (PK Hs Hk) as [K1 N1]. specialize (K2 Hs N1).
          destruct o'; destruct K2 as [K2 N2]; (split; [eapply le_vec_trans; eassumption | exact N2]).
        * destruct o'; [|exact I]. destruct R2 as [RL [it' [Hlt Hr]]]. split; [exact RL|].
          exists it'. split; [lia|exact Hr].
      + inversion H; subst; clear H. destruct P1 as (_ & PL & PK & PR).
        split; [exact V1|]. split; [exact PK|]. split; [exact PL|]. exists it. split; [lia|exact PR].
  Qed.

  (* "every outer iteration the solver goes through": the (iteration index, state) pairs at which the loop body runs *)
  Inductive visits : nat -> nat -> @st R -> nat -> @st R -> Prop :=
  | v_here fuel it s : visits (S fuel) it s it s
  | v_next fuel it s s' ev it2 s2 :
      iteration cfg orc kappa0 it s = (inl s', ev) -> visits fuel (S it) s' it2 s2 -> visits (S fuel) it s it2 s2.

  Lemma visits_inv fuel it s it2 s2 :
    visits fuel it s it2 s2 -> newton_only cfg = false -> 1 <= penalty_scaling cfg ->
    ((it = 0)%nat \/ nonneg (slam s)) -> nonneg (skap s) ->
    ((it2 = 0)%nat \/ nonneg (slam s2)) /\ nonneg (skap s2) /\ le_vec (skap s) (skap s2).
  Proof.
    induction 1 as [fuel it s|fuel it s s' ev it2 s2 E V IH]; intros HN Hs H0 Hk.
    - split; [exact H0|]. split; [exact Hk|apply le_vec_refl].
    - destruct (iteration_invariants _ _ _ _ E H0) as [_ [PL PK]]. destruct (PK Hs Hk) as [K1 N1].
      destruct (IH HN Hs (or_intror (PL HN)) N1) as (A & B & C).
      split; [exact A|]. split; [exact B|]. eapply le_vec_trans; eassumption.
  Qed.

  (* after EVERY outer iteration the solver goes through: multipliers >= 0 and no penalty parameter has decreased *)
  Theorem every_iteration fuel x lam kappa it2 s2 res ev :
    visits fuel 0 (init_state x lam kappa) it2 s2 -> iteration cfg orc kappa0 it2 s2 = (res, ev) ->
    newton_only cfg = false -> 1 <= penalty_scaling cfg -> nonneg kappa ->
    match res with
    | inl s' => nonneg (slam s') /\ le_vec (skap s2) (skap s') /\ le_vec kappa (skap s')
    | inr (_, lam', kappa') => nonneg lam' /\ le_vec (skap s2) kappa' /\ le_vec kappa kappa'
    end.
  Proof.
    intros V E HN Hs Hk.
    destruct (visits_inv _ _ _ _ _ V HN Hs (or_introl eq_refl) Hk) as (A & B & C). cbn [init_state skap] in C.
    destruct (iteration_invariants _ _ _ _ E A) as [_ P].
    destruct res as [s'|[[x' lam'] kappa']].
    - destruct P as [PL PK]. destruct (PK Hs B) as [K1 _].
      split; [exact (PL HN)|]. split; [exact K1|eapply le_vec_trans; eassumption].
    - destruct P as (_ & PL & PK & _). destruct (PK Hs B) as [K1 _].
      split; [exact PL|]. split; [exact K1|eapply le_vec_trans; eassumption].
  Qed.

  (* the loop only ever returns from a visited iteration *)
  Theorem loop_returns_from_visit fuel : forall it s x lam kappa ev,
    loop cfg orc kappa0 fuel it s = (Returned x lam kappa, ev) ->
    exists it2 s2 ev2, visits fuel it s it2 s2 /\ iteration cfg orc kappa0 it2 s2 = (inr (x, lam, kappa), ev2).
  Proof.
    induction fuel as [|f IH]; intros it s x lam kappa ev; cbn [loop]; [intros H; inversion H|].
    destruct (iteration cfg orc kappa0 it s) as [res ev1] eqn:E1.
    destruct res as [s'|[[x' lam'] kappa']].
    - destruct (loop cfg orc kappa0 f (S it) s') as [o' ev'] eqn:E2. intros H. injection H as Ho Hev. subst o'.
      destruct (IH _ _ _ _ _ _ E2) as (it2 & s2 & ev2 & V & E).
      exists it2, s2, ev2. split; [eapply v_next; eassumption|exact E].
    - intros H. injection H as <- <- <- <-. exists it, s, ev1. split; [constructor|exact E1].
  Qed.

  (* use_newton_only: the sub-step never runs, the loop never returns normally *)
  Theorem newton_only_never_returns fuel : forall it s o ev,
    newton_only cfg = true -> loop cfg orc kappa0 fuel it s = (o, ev) ->
    match o with Returned _ _ _ => False | NotConverged _ _ _ => True end.
  Proof.
    induction fuel as [|f IH]; intros it s o ev HN; cbn [loop]; [intros H; inversion H; exact I|].
    destruct (iteration cfg orc kappa0 it s) as [res ev1] eqn:E1.
    destruct (iteration_invariants_newton _ _ _ _ E1 HN) as [s' ->].
    destruct (loop cfg orc kappa0 f (S it) s') as [o' ev'] eqn:E2. intros H. injection H as Ho Hev. subst o.
    eapply IH; eassumption.
  Qed.
End Inv.

(* ------------------------------------------------------------------ C. termination test => approximate KKT *)
Definition SS (v : list R) : R := @nsum R NumR (map (fun a => nmul a a) v).
Lemma SS_nil : SS [] = 0.
Proof. unfold SS. cbn [map nsum]. unfold_num. q2r. reflexivity. Qed.
Lemma SS_cons a v : SS (a :: v) = a * a + SS v.
Proof. unfold SS. cbn [map nsum]. unfold_num. reflexivity. Qed.
Lemma SS_nonneg v : 0 <= SS v.
Proof. induction v; [rewrite SS_nil; lra | rewrite SS_cons; nra]. Qed.
Lemma SS_app a b : SS (a ++ b) = SS a + SS b.
Proof. induction a as [|x a IH]; cbn [app]; [rewrite SS_nil; lra | rewrite !SS_cons, IH; lra]. Qed.
Lemma norm2_SS v : @norm2 R NumR v = sqrt (SS v).
Proof. reflexivity. Qed.

Lemma norm2_components v t : @norm2 R NumR v < t -> List.Forall (fun a => Rabs a < t) v.
Proof.
  rewrite norm2_SS. induction v as [|a v IH]; intros H; constructor.
  - rewrite SS_cons in H. pose proof (SS_nonneg v).
    assert (sqrt (a * a) <= sqrt (a * a + SS v)) by (apply sqrt_le_1_alt; lra).
    replace (a * a) with (Rsqr a) in H1 at 1 by reflexivity. rewrite sqrt_Rsqr_abs in H1. lra.
  - apply IH. rewrite SS_cons in H.
    assert (sqrt (SS v) <= sqrt (a * a + SS v)) by (apply sqrt_le_1_alt; nra). lra.
Qed.

Lemma norm2_app g n t : @norm2 R NumR (g ++ n) < t -> @norm2 R NumR g < t /\ @norm2 R NumR n < t.
Proof.
  rewrite !norm2_SS, SS_app. pose proof (SS_nonneg g). pose proof (SS_nonneg n). intros Ht.
  assert (sqrt (SS g) <= sqrt (SS g + SS n)) by (apply sqrt_le_1_alt; lra).
  assert (sqrt (SS n) <= sqrt (SS g + SS n)) by (apply sqrt_le_1_alt; lra). lra.
Qed.

Definition triple (a b c : R) : R * R * R := (a, b, c).
(* per constraint (c_i, lam_i, kappa0_i): scaled feasibility, multiplier sign up to t, complementarity in the min form *)
Definition kkt_row (t : R) (r : R * R * R) : Prop :=
  let '(c, l, k) := r in - t < c * k /\ - t < l /\ Rmin (c * k) l <= t / (2 - sqrt 2).

Lemma fb_rows c lam k0 t :
  List.Forall (fun a => Rabs a < t) (@ncp_of R NumR c lam k0) -> List.Forall (kkt_row t) (zip3 triple c lam k0).
Proof.
  unfold ncp_of. revert lam k0. induction c as [|ci c IH]; intros [|li lam] [|ki k0]; cbn [zip3]; try (constructor; fail).
  intros H. inversion H as [|a l Ha Hl]; subst. constructor; [|apply IH; exact Hl].
  change (Rabs (FB ci li ki) < t) in Ha. unfold kkt_row, triple.
  destruct (fb_small_implies_complementarity ci li ki (Rabs (FB ci li ki)) (Rle_refl _)) as (H1 & H2 & H3).
  destruct two_minus_sqrt2_pos as [Hp _].
  split; [lra|]. split; [lra|].
  eapply Rle_trans; [exact H3|]. unfold Rdiv. apply Rmult_le_compat_r; [left; apply Rinv_0_lt_compat; exact Hp | lra].
Qed.

Theorem termination_test_implies_KKT g c lam k0 t :
  @norm2 R NumR (g ++ @ncp_of R NumR c lam k0) < t ->
  @norm2 R NumR g < t /\ List.Forall (kkt_row t) (zip3 triple c lam k0).
Proof.
  intros H. destruct (norm2_app _ _ _ H) as [Hg Hn]. split; [exact Hg|].
  apply fb_rows. apply norm2_components. exact Hn.
Qed.

(* every normal return of the solve: multipliers >= 0 exactly, and the returned (x, lam, kappa) passes the test, hence KKT rows *)
Theorem al_solve_return_is_KKT (cfg : @settings R) (orc : @oracles R) kappa0 x0 lam0 kap0 x lam kappa ev :
  al_solve cfg orc kappa0 x0 lam0 kap0 = (Returned x lam kappa, ev) ->
  newton_only cfg = false
  /\ nonneg lam
  /\ (1 <= penalty_scaling cfg -> nonneg kap0 -> le_vec kap0 kappa)
  /\ exists it, (it < max_al_iters cfg)%nat
       /\ @norm2 R NumR (gradAL orc it Sub x lam kappa) < tol cfg
       /\ List.Forall (kkt_row (tol cfg)) (zip3 triple (constraint orc it Sub x) lam kappa0).
Proof.
  unfold al_solve. intros H.
  destruct (newton_only cfg) eqn:EN.
  - exfalso. exact (newton_only_never_returns cfg orc kappa0 _ _ _ _ _ EN H).
  - destruct (loop_invariants cfg orc kappa0 _ _ _ _ _ H EN (or_introl eq_refl)) as (_ & K & L & it & Hit & Ht).
    split; [reflexivity|]. split; [exact L|]. split.
    + intros Hs Hk. destruct (K Hs Hk) as [K1 _]. exact K1.
    + exists it. split; [lia|]. unfold resid, total_residual in Ht.
      apply termination_test_implies_KKT in Ht. exact Ht.
Qed.

(* ------------------------------------------------------------------ D. exact KKT + convexity => global constrained minimiser *)
Section Convex.
  Variable V : Type.
  Variable f : V -> R.
  Variable df : V -> V -> R.                       (* df x y stands for <grad f(x), y - x> *)
  Variable x : V.
  (* constraints c_i >= 0, each with its multiplier and first-order pairing dc_i x y = <grad c_i(x), y - x> *)
  Definition conlist : Type := list (R * (V -> R) * (V -> V -> R)).

  Fixpoint lagr_pairing (l : conlist) (y : V) : R :=
    match l with [] => 0 | (lam, _, dc) :: r => lam * dc x y + lagr_pairing r y end.

  Definition kkt_rows_exact (cons : conlist) : Prop :=                            (* sign, feasibility, complementarity *)
    List.Forall (fun '(lam, c, _) => 0 <= lam /\ 0 <= c x /\ lam * c x = 0) cons.
  Definition kkt_exact (cons : conlist) : Prop :=
    (forall y, df x y = lagr_pairing cons y) /\ kkt_rows_exact cons.             (* stationarity in weak form *)
  Definition concave_cons (cons : conlist) : Prop :=
    List.Forall (fun '(_, c, dc) => forall y, c y <= c x + dc x y) cons.
  Definition feasible (cons : conlist) (y : V) : Prop := List.Forall (fun '(_, c, _) => 0 <= c y) cons.

  Lemma pairing_nonneg cons y : kkt_rows_exact cons -> concave_cons cons -> feasible cons y -> 0 <= lagr_pairing cons y.
  Proof.
    induction cons as [|[[lam c] dc] r IH]; intros HK HC HF; cbn [lagr_pairing]; [lra|].
    inversion HK as [|? ? H123 HK']; inversion HC as [|? ? H4 HC']; inversion HF as [|? ? H5 HF']; subst.
    cbn beta iota in H123, H4, H5. destruct H123 as (H1 & H2 & H3).
    specialize (IH HK' HC' HF'). specialize (H4 y).
    assert (lam * (c y - c x) <= lam * dc x y) by (apply Rmult_le_compat_l; lra). nra.
  Qed.

  Theorem convex_KKT_is_min cons : (forall y, f x + df x y <= f y) -> kkt_exact cons -> concave_cons cons ->
    feasible cons x /\ forall y, feasible cons y -> f x <= f y.
  Proof.
    intros Hf [HS HK] HC. split.
    - unfold feasible. eapply Forall_impl; [|exact HK]. intros [[lam c] dc]. tauto.
    - intros y Hy. pose proof (pairing_nonneg cons y HK HC Hy). specialize (Hf y). rewrite HS in Hf. lra.
  Qed.

  Theorem strictly_convex_KKT_is_unique_min cons (neq : V -> V -> Prop) :
    (forall y, neq y x -> f x + df x y < f y) -> kkt_exact cons -> concave_cons cons ->
    forall y, feasible cons y -> neq y x -> f x < f y.
  Proof.
    intros Hf [HS HK] HC y Hy Hn. pose proof (pairing_nonneg cons y HK HC Hy).
    specialize (Hf y Hn). rewrite HS in Hf. lra.
  Qed.
End Convex.

(* ------------------------------------------------------------------ E. NewtonSolver.compute_min_p *)
Theorem compute_min_p_in_bounds p0 p1 p2 b0 b1 : b0 <= b1 -> b0 <= @compute_min_p R NumR p0 p1 p2 b0 b1 <= b1.
Proof. intros H. unfold compute_min_p. unfold_num. q2r. rcases; lra. Qed.

Theorem compute_min_p_minimises p0 p1 p2 b0 b1 : b0 <= b1 -> 0 < p1 - p0 - p2 ->
  let q := fun s => (p1 - p0 - p2) * s * s + p2 * s + p0 in
  forall s, b0 <= s <= b1 -> q (@compute_min_p R NumR p0 p1 p2 b0 b1) <= q s.
Proof.
  intros H Ha q s Hs. unfold q, compute_min_p. unfold_num. q2r. set (a := p1 - p0 - p2) in *.
  assert (Hm : 2 * a * (- p2 / (2 * a)) = - p2) by (field; lra). set (m := - p2 / (2 * a)) in *.
  assert (Hq : forall r, (a * s * s + p2 * s + p0) - (a * r * r + p2 * r + p0) = (s - r) * (a * (s - m) + a * (r - m))).
  { intros r. replace p2 with (- (2 * a * m)) by lra. ring. }
  rcases; try lra.
  all: match goal with |- _ * ?r * ?r + _ + _ <= _ => pose proof (Hq r) as Hr end.
  all: clearbody a m; clear q.
  all: first
    [ (* clamp at b0 > m *)
      assert (0 <= (s - b0) * (a * (s - m) + a * (b0 - m)))
        by (apply Rmult_le_pos; [lra|]; apply Rplus_le_le_0_compat; apply Rmult_le_pos; lra); lra
    | (* clamp at b1 < m *)
      assert (0 <= (b1 - s) * (a * (m - s) + a * (m - b1)))
        by (apply Rmult_le_pos; [lra|]; apply Rplus_le_le_0_compat; apply Rmult_le_pos; lra); lra
    | (* interior *)
      assert (0 <= a * ((s - m) * (s - m))) by (apply Rmult_le_pos; [lra | apply Rle_0_sqr]); lra ].
Qed.

(* ------------------------------------------------------------------ non-vacuity witnesses *)
Example C04_nonvacuous_fb : Rabs (FB 0 3 2) <= 0 /\ FB 1 0 5 = 0.
Proof.
  split.
  - rewrite (proj2 (fb_zero_iff 0 3 2)); [rewrite Rabs_R0; lra | lra].
  - apply fb_zero_iff. lra.
Qed.

(* min x^2 s.t. x - 1 >= 0: x* = 1, lam = 2 *)
Example C04_nonvacuous_convex :
  let cons := [(2, (fun x : R => x - 1), (fun x y : R => y - x))] in
  kkt_exact R (fun x y => 2 * x * (y - x)) 1 cons /\ concave_cons R 1 cons /\ (forall y, 1 * 1 + 2 * 1 * (y - 1) <= y * y).
Proof.
  cbv zeta. split; [split|split].
  - intros y. cbn [lagr_pairing]. lra.
  - constructor; [cbn beta iota; repeat split; lra|constructor].
  - constructor; [cbn beta iota; intros y; lra|constructor].
  - intros y. pose proof (Rle_0_sqr (y - 1)) as Hq. unfold Rsqr in Hq. lra.
Qed.

(* ------------------------------------------------------------------ F. bound-constrained front end: diagonal scaling is transparent for KKT
   BoundConstrainedObjective solves in xBar = d x (d = scaling > 0, invScaling = 1/d): gradient component g/d, bound xBar >= 0,
   multiplier lam; get_multipliers() returns d*lam.  Per constrained dof, KKT in scaled variables <=> KKT in original ones. *)
Theorem bound_scaling_KKT_transparent d g lam x : 0 < d ->
  (g / d - lam = 0 /\ 0 <= lam /\ 0 <= d * x /\ lam * (d * x) = 0)
  <-> (g - d * lam = 0 /\ 0 <= d * lam /\ 0 <= x /\ (d * lam) * x = 0).
Proof.
  intros Hd.
  assert (E1 : g / d - lam = (g - d * lam) / d) by (field; lra).
  assert (Hinv : 0 < / d) by (apply Rinv_0_lt_compat; exact Hd).
  split.
  - intros (H1 & H2 & H3 & H4). rewrite E1 in H1.
    assert (G : g - d * lam = 0).
    { apply Rmult_eq_compat_r with (r := d) in H1. unfold Rdiv in H1.
      rewrite Rmult_assoc, Rinv_l, Rmult_1_r, Rmult_0_l in H1 by lra. exact H1. }
    split; [exact G|]. split; [apply Rmult_le_pos; lra|]. split; [|lra].
    apply Rmult_le_reg_l with d; [exact Hd|]. lra.
  - intros (H1 & H2 & H3 & H4). rewrite E1, H1. split; [unfold Rdiv; ring|].
    split; [apply Rmult_le_reg_l with d; [exact Hd|]; lra|]. split; [apply Rmult_le_pos; lra|]. lra.
Qed.

(* ------------------------------------------------------------------ G. approximate KKT + strong convexity => near the minimiser (quantitative)
   x  : the returned point, multipliers lam >= 0, Lagrangian gradient of norm <= eg, possibly slightly infeasible;
   xs : an exact KKT point (the constrained minimiser) with multipliers lam_s;  d = |x - xs|;
   f mu-strongly convex in the first-order sense at both points, constraints concave in the first-order sense.
   S = sum lam_i max(c_i(x),0)   (complementarity slack of x),  Vi = sum lam_s_i max(-c_i(x),0)  (infeasibility of x weighted by lam_s).
   Then  mu d^2 <= eg d + S + Vi,  hence  d <= (eg + sqrt(eg^2 + 4 mu (S + Vi))) / (2 mu). *)
Section StrongConvex.
  Variable V : Type.
  Variable f : V -> R.
  Variable df : V -> V -> R.
  Variables x xs : V.

  Fixpoint comp_slack (l : conlist V) : R :=
    match l with [] => 0 | (lam, c, _) :: r => lam * Rmax (c x) 0 + comp_slack r end.
  Fixpoint weighted_violation (l : conlist V) : R :=
    match l with [] => 0 | (lam, c, _) :: r => lam * Rmax (- c x) 0 + weighted_violation r end.
  Definition mult_nonneg (l : conlist V) : Prop := List.Forall (fun '(lam, _, _) => 0 <= lam) l.

  Lemma comp_slack_nonneg cons : mult_nonneg cons -> 0 <= comp_slack cons.
  Proof.
    induction cons as [|[[lam c] dc] r IH]; intros Hl; cbn [comp_slack]; [lra|].
    inversion Hl as [|? ? H1 Hl']; subst. cbn beta iota in H1. specialize (IH Hl').
    pose proof (Rmax_r (c x) 0). assert (0 <= lam * Rmax (c x) 0) by (apply Rmult_le_pos; lra). lra.
  Qed.
  Lemma weighted_violation_nonneg cons : mult_nonneg cons -> 0 <= weighted_violation cons.
  Proof.
    induction cons as [|[[lam c] dc] r IH]; intros Hl; cbn [weighted_violation]; [lra|].
    inversion Hl as [|? ? H1 Hl']; subst. cbn beta iota in H1. specialize (IH Hl').
    pose proof (Rmax_r (- c x) 0). assert (0 <= lam * Rmax (- c x) 0) by (apply Rmult_le_pos; lra). lra.
  Qed.

  (* at x: multipliers >= 0, constraints concave, xs feasible  =>  <sum lam grad c (x), xs - x> >= -S *)
  Lemma pairing_lower_at_x cons : mult_nonneg cons -> concave_cons V x cons -> feasible V cons xs ->
    - comp_slack cons <= lagr_pairing V x cons xs.
  Proof.
    induction cons as [|[[lam c] dc] r IH]; intros Hl HC HF; cbn [lagr_pairing comp_slack]; [lra|].
    inversion Hl as [|? ? H1 Hl']; inversion HC as [|? ? H4 HC']; inversion HF as [|? ? H5 HF']; subst.
    cbn beta iota in H1, H4, H5. specialize (IH Hl' HC' HF'). specialize (H4 xs).
    assert (lam * (c xs - c x) <= lam * dc x xs) by (apply Rmult_le_compat_l; lra).
    assert (lam * c x <= lam * Rmax (c x) 0) by (apply Rmult_le_compat_l; [lra | apply Rmax_l]).
    assert (0 <= lam * c xs) by (apply Rmult_le_pos; lra). lra.
  Qed.

  (* at xs: exact KKT rows, constraints concave  =>  <sum lam_s grad c (xs), x - xs> >= -Vi *)
  Lemma pairing_lower_at_xs cons : kkt_rows_exact V xs cons -> concave_cons V xs cons ->
    - weighted_violation cons <= lagr_pairing V xs cons x.
  Proof.
    induction cons as [|[[lam c] dc] r IH]; intros HK HC; cbn [lagr_pairing weighted_violation]; [lra|].
    inversion HK as [|? ? H123 HK']; inversion HC as [|? ? H4 HC']; subst.
    cbn beta iota in H123, H4. destruct H123 as (H1 & H2 & H3). specialize (IH HK' HC'). specialize (H4 x).
    assert (lam * (c x - c xs) <= lam * dc xs x) by (apply Rmult_le_compat_l; lra).
    assert (lam * (- c x) <= lam * Rmax (- c x) 0) by (apply Rmult_le_compat_l; [lra | apply Rmax_l]). lra.
  Qed.

  Variables mu eg d : R.
  Variable cons : conlist V.      (* multipliers / constraints / pairings at x *)
  Variable cons_s : conlist V.    (* multipliers / constraints / pairings at xs *)

  Theorem approx_KKT_distance_inequality :
    0 <= d ->
    f x + df x xs + mu / 2 * (d * d) <= f xs ->          (* strong convexity at x, evaluated at xs *)
    f xs + df xs x + mu / 2 * (d * d) <= f x ->          (* strong convexity at xs, evaluated at x *)
    Rabs (df x xs - lagr_pairing V x cons xs) <= eg * d ->   (* |grad f(x) - sum lam_i grad c_i(x)| <= eg *)
    mult_nonneg cons -> concave_cons V x cons -> feasible V cons xs ->
    kkt_exact V df xs cons_s -> concave_cons V xs cons_s ->
    mu * (d * d) <= eg * d + comp_slack cons + weighted_violation cons_s.
  Proof.
    intros Hd SCx SCs Hst Hl HC HF [HS HK] HCs.
    pose proof (pairing_lower_at_x cons Hl HC HF) as P1.
    pose proof (pairing_lower_at_xs cons_s HK HCs) as P2.
    rewrite (HS x) in SCs. apply Rabs_le_between in Hst. lra.
  Qed.

  Theorem approx_KKT_is_near_min :
    0 < mu -> 0 <= eg -> 0 <= d ->
    f x + df x xs + mu / 2 * (d * d) <= f xs ->
    f xs + df xs x + mu / 2 * (d * d) <= f x ->
    Rabs (df x xs - lagr_pairing V x cons xs) <= eg * d ->
    mult_nonneg cons -> concave_cons V x cons -> feasible V cons xs ->
    kkt_exact V df xs cons_s -> concave_cons V xs cons_s ->
    d <= (eg + sqrt (eg * eg + 4 * mu * (comp_slack cons + weighted_violation cons_s))) / (2 * mu).
  Proof.
    intros Hmu Heg Hd SCx SCs Hst Hl HC HF HKs HCs.
    pose proof (approx_KKT_distance_inequality Hd SCx SCs Hst Hl HC HF HKs HCs) as Q.
    pose proof (comp_slack_nonneg cons Hl) as S0.
    assert (V0 : 0 <= weighted_violation cons_s).
    { apply weighted_violation_nonneg. destruct HKs as [_ HK]. unfold mult_nonneg. eapply Forall_impl; [|exact HK].
      intros [[lam c] dc]. tauto. }
    set (T := comp_slack cons + weighted_violation cons_s) in *.
    assert (T0 : 0 <= T) by (unfold T; lra).
    assert (T1 : 0 <= mu * T) by (apply Rmult_le_pos; lra).
    assert (HT : 0 <= eg * eg + 4 * mu * T) by nra.
    set (s := sqrt (eg * eg + 4 * mu * T)).
    assert (Hs : 0 <= s) by apply sqrt_pos.
    assert (Hss : s * s = eg * eg + 4 * mu * T) by (apply sqrt_sqrt; exact HT).
    apply Rmult_le_reg_r with (2 * mu); [lra|]. unfold Rdiv. rewrite Rmult_assoc, Rinv_l, Rmult_1_r by lra.
    destruct (Rle_dec (d * (2 * mu)) (eg + s)) as [|N]; [assumption|exfalso].
    assert (Hgt : s < 2 * mu * d - eg) by lra.
    assert (s * s < (2 * mu * d - eg) * (2 * mu * d - eg)) by nra.
    assert (0 < 4 * mu * (mu * (d * d) - eg * d - T)) by nra.
    assert (0 < mu * (d * d) - eg * d - T) by nra. unfold T in *. lra.
  Qed.
End StrongConvex.

(* the complementarity slack in terms of the min form that the termination test controls *)
Lemma product_from_min c l k : 0 < k -> 0 <= c -> 0 <= l -> l * c = Rmin (c * k) l * Rmax (c * k) l / k.
Proof.
  intros Hk Hc Hl. unfold Rmin, Rmax. destruct (Rle_dec (c * k) l); field; lra.
Qed.

Example approx_KKT_nonvacuous :
  (* min x^2 s.t. x - 1 >= 0: xs = 1 (lam_s = 2); x = 1.1 with lam = 2.2 is an exact-stationary, complementarity-violating point *)
  let x := 11 / 10 in let xs := 1 in
  let cons := [(22 / 10, (fun y : R => y - 1), (fun y z : R => z - y))] in
  let cons_s := [(2, (fun y : R => y - 1), (fun y z : R => z - y))] in
  kkt_exact R (fun y z => 2 * y * (z - y)) xs cons_s /\ concave_cons R xs cons_s /\ concave_cons R x cons /\ feasible R cons xs
  /\ mult_nonneg R cons /\ comp_slack R x cons = 22 / 100.
Proof.
  cbv zeta. repeat split.
  - intros y. cbn [lagr_pairing]. lra.
  - constructor; [cbn beta iota; repeat split; lra|constructor].
  - constructor; [cbn beta iota; intros y; lra|constructor].
  - constructor; [cbn beta iota; intros y; lra|constructor].
  - constructor; [cbn beta iota; lra|constructor].
  - constructor; [cbn beta iota; lra|constructor].
  - cbn [comp_slack]. unfold Rmax. destruct (Rle_dec (11 / 10 - 1) 0); lra.
Qed.
