(* C09, "never NaN" closed for LINEAR hardening (rate independent, H >= 0, perfect plasticity included): the residual of the scalar
   return-mapping equation is affine with slope 3 mu + H > 0, the update starts the root finder at the bracket midpoint, the first
   Newton iterate is the exact root, lies inside the bracket and passes the decrease test (|2 F| <= |dxOld DF| because the midpoint is
   within half the bracket of the root), so the regenerated loop body ends converged after ONE iteration: the iteration-cap exit --
   the only NaN exit left by L_C09N.nan_only_by_iteration_cap -- is not reachable. *)
From Coq Require Import Reals Lra Lia ZArith QArith Bool List Psatz.
From Coquelicot Require Import Coquelicot.
From OV.base Require Import Num.
From OV.gen Require Import Gen_ScalarRootFind Gen_Hardening Gen_TensorMath Gen_J2Flow Gen_J2Elastic.
From OV.model Require Import M_C17 M_C09.
From OV.proofs Require Import L_C17 L_C09 L_C09r L_C09N.
Import ListNotations.
Local Open Scope R_scope.

Ltac un := cbn [nconst nadd nsub nmul ndiv nopp nabs nsqrt nexp nln nltb nleb neqb NumR nZ nzero nunit ntwo nhalf ngtb ngeb nneb nmin nmax nsign nsq npow npowr];
  unfold Q2R'; cbn [Qnum Qden inject_Z].
Lemma clipR_inside x lo hi : lo <= x <= hi -> clipR x lo hi = x.
Proof. intros H. unfold clipR. rewrite Rmax_left by lra. rewrite Rmin_left by lra. reflexivity. Qed.
Section Affine.
  Variables a K tol b0 b1 : R.
  Hypothesis HK : 0 < K.
  Hypothesis Htol : 0 <= tol.
  Let f := fun e : R => a + K * e.
  Let df := fun _ : R => K.
  Hypothesis Hb : b0 < b1.
  Hypothesis Hf0 : f b0 < - tol.
  Hypothesis Hf1 : tol < f b1.
  Let x0 := (b0 + b1) / 2.
  Hypothesis Hfx : tol < Rabs (f x0).

  Let c0 : @carry R := (x0, Rabs (b1 - b0), Rabs (b1 - b0), f x0, K, b0, b1, false, 0).

  Lemma affine_init : init f df x0 b0 b1 tol = Some c0.
  Proof.
    unfold init. rewrite clip_R, sign_test_R. un.
    assert (Hc : clipR x0 b0 b1 = x0) by (apply clipR_inside; unfold x0; lra).
    rewrite Hc.
    replace (Rltb (f b0 * f b1) 0) with true by (symmetry; apply Rltb_true; assert (0 < (- f b0) * f b1) by (apply Rmult_lt_0_compat; lra); lra).
    replace (Rleb (Rabs (f b0)) tol) with false by (symmetry; apply Rleb_false; rewrite Rabs_left by lra; lra).
    replace (Rleb (Rabs (f b1)) tol) with false by (symmetry; apply Rleb_false; rewrite Rabs_pos_eq by lra; lra).
    replace (Rleb (Rabs (f x0)) tol) with false by (symmetry; apply Rleb_false; exact Hfx).
    replace (Rltb (f b0) 0) with true by (symmetry; apply Rltb_true; lra).
    cbn [negb andb orb]. reflexivity.
  Qed.

  Lemma affine_newton_accepted : ~ bisect_chosen c0.
  Proof.
    unfold bisect_chosen, c0. unfold_carry. intros [H|H].
    - apply (newton_in_range_test x0 b0 b1 (f x0) K) in H; [|lra]. apply H. apply between_cases. left.
      unfold f, x0 in *. replace ((b0 + b1) / 2 - (a + K * ((b0 + b1) / 2)) / K) with (- a / K) by (field; lra).
      split.
      + apply (Rmult_le_reg_r K); [lra|]. replace (- a / K * K) with (- a) by (field; lra). lra.
      + apply (Rmult_le_reg_r K); [lra|]. replace (- a / K * K) with (- a) by (field; lra). lra.
    - rewrite (Rabs_pos_eq (b1 - b0)) in H by lra. rewrite (Rabs_pos_eq ((b1 - b0) * K)) in H by nra.
      unfold f, x0 in *. revert H. unfold Rabs. destruct (Rcase_abs _); intros H; nra.
  Qed.

  Lemma affine_one_step : let c1 := body (fdf_of f df) 0 tol c0 in c_conv c1 = true /\ c_i c1 = 1.
  Proof.
    intros c1. destruct (body_spec f df 0 tol c0) as (_ & HN & _ & HF & _ & _ & _ & Hi). fold c1 in HN, HF, Hi.
    destruct (HN affine_newton_accepted) as (_ & Hr & Hcv). split.
    - rewrite Hcv, HF, Hr. unfold c0. unfold_carry.
      assert (E : f (x0 + - f x0 / K) = 0) by (unfold f; field; lra). rewrite E, Rabs_R0.
      replace (Rleb 0 tol) with true by (symmetry; apply Rleb_true; exact Htol). apply orb_true_r.
    - rewrite Hi. unfold c0. unfold_carry. ring.
  Qed.

  Theorem affine_never_caps n it F dx : (1 < n)%nat -> rtsafe f df x0 b0 b1 n 0 tol <> Res None false it F dx IterCap.
  Proof.
    intros Hn E. pose proof (rtsafe_spec f df 0 tol n x0 b0 b1) as Hs. rewrite affine_init in Hs.
    destruct Hs as (c & Hst & [(_ & _ & E1)|[(_ & Hcv & Hcap & _)|(_ & _ & E3)]]); [rewrite E in E1; discriminate| |rewrite E in E3; discriminate].
    assert (Hn1 : 1 < INR n) by (apply (lt_INR 1 n) in Hn; cbn in Hn; lra).
    inversion Hst as [c' E0|c' c'' Hc Hz Hst']; subst.
    - unfold c0 in Hcap. unfold_carry. lra.
    - destruct affine_one_step as (Hcv1 & Hi1).
      inversion Hst' as [c' E0|c' c'' Hc' _ _]; subst.
      + rewrite Hcv1 in Hcv. discriminate.
      + apply (cond_spec f df 0 n) in Hc'. destruct Hc' as (A & _). rewrite Hcv1 in A. discriminate.
  Qed.
End Affine.

(* linear hardening: the update always returns a number *)
Theorem linear_hardening_never_nan Y0 H mu s eo dt : 0 < mu -> 0 <= Y0 -> 0 <= H ->
  exists d, @delta_eqps R NumR (Linear Y0 H) NoRate mu s eo dt = Some d.
Proof.
  intros Hmu HY HH. unfold delta_eqps.
  set (Yf := fun e : R => nadd (h_flow (Linear Y0 H) e) (k_flow NoRate e eo dt)).
  set (dYf := fun e : R => nadd (h_slope (Linear Y0 H) e) (k_slope NoRate e eo dt)).
  set (tol := tolY (Linear Y0 H)).
  assert (Ht : 0 <= tol) by (apply tolY_nonneg; exact HY).
  assert (EY : forall e, Yf e = Y0 + H * e) by (intros e; unfold Yf; cbn [h_flow k_flow]; unfold_num; q2r; ring).
  assert (Hm : tol < s - Yf eo -> Yf eo <= Yf (ubR Yf mu s eo)).
  { intros Hy. rewrite !EY. assert (eo <= ubR Yf mu s eo); [|nra].
    unfold ubR. assert (0 < (s - Yf eo) / (3 * mu)); [apply Rdiv_lt_0_compat; lra|lra]. }
  destruct (delta_eqps_gen Yf dYf mu tol s eo) as [d|] eqn:E; [exists d; reflexivity|exfalso].
  destruct (nan_only_by_iteration_cap Yf dYf mu tol Hmu Ht s eo Hm E) as (Hy & Hflat & it & F & dx & Hc & _).
  unfold root_call in Hc. set (ub := ubR Yf mu s eo) in *.
  assert (Hub : eo < ub) by (unfold ub, ubR; assert (0 < (s - Yf eo) / (3 * mu)); [apply Rdiv_lt_0_compat; lra|lra]).
  set (a := - s - 3 * mu * eo + Y0). set (K := 3 * mu + H).
  assert (Ef : @resid R NumR Yf mu s eo = (fun e => a + K * e)).
  { apply FunctionalExtensionality.functional_extensionality. intros e. rewrite (resid_R Yf mu). unfold residR. rewrite EY. unfold a, K. ring. }
  assert (Ed : @dresid R NumR dYf mu = (fun _ => K)).
  { apply FunctionalExtensionality.functional_extensionality. intros e. unfold dresid, dYf, three, K. cbn [h_slope k_slope]. unfold_num. q2r. ring. }
  rewrite Ef, Ed in Hc.
  assert (HK : 0 < K) by (unfold K; lra).
  assert (H0 : a + K * eo < - tol) by (unfold a, K; rewrite EY in Hy; lra).
  assert (H1 : tol < a + K * ub).
  { replace (a + K * ub) with (residR Yf mu s eo ub) by (unfold residR, a, K; rewrite EY; ring). unfold ub. rewrite (resid_ub Yf mu Hmu). exact Hflat. }
  destruct (Rle_lt_dec (Rabs (a + K * ((eo + ub) / 2))) tol) as [Hx|Hx].
  - (* the midpoint already meets the tolerance: returned untouched by the root finder *)
    pose proof (result_contract _ _ _ _ _ _ _ _ _ _ _ _ _ _ Hc) as (_ & _ & _ & _ & _ & Hg & _).
    assert (Hcl : clipR ((eo + ub) / 2) eo ub = (eo + ub) / 2) by (apply clipR_inside; lra).
    rewrite Hcl in Hg. destruct Hg as (B & _); try discriminate.
    + assert (0 < (- (a + K * eo)) * (a + K * ub)) by (apply Rmult_lt_0_compat; lra). lra.
    + rewrite Rabs_left by lra. lra.
    + rewrite Rabs_pos_eq by lra. lra.
    + exact Hx.
  - exact (affine_never_caps a K tol eo ub HK Ht Hub H0 H1 Hx 50 it F dx ltac:(lia) Hc).
Qed.
