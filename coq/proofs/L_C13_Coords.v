(* C13 -- affine placement of the coordinates of elevated nodes (model/M_C13_Coords.v). *)
From Coq Require Import Reals Lra Lia List Arith.
From OV.model Require Import M_C13_Coords.
Import ListNotations.
Local Open Scope R_scope.

Section Coords.
  Variable X : nat -> R.
  Variable s1d : nat -> R.
  Variables N0 N1 : nat -> R.
  Variables ea eb : nat -> nat.
  Variable tri : nat -> nat -> nat.
  Variables nV nE m nI : nat.
  Let ec := elev_coord X s1d N0 N1 ea eb tri nV nE m nI.

  (* which row of the stacked coordinate array an id denotes *)
  Theorem coord_of_vertex_id v : (v < nV)%nat -> ec v = X v.
  Proof. intros H. unfold ec, elev_coord. destruct (Nat.ltb_spec v nV); [reflexivity | lia]. Qed.

  Theorem coord_of_edge_id e k : (e < nE)%nat -> (k < m)%nat ->
    ec (nV + e * m + k) = edge_coord X s1d ea eb e k.
  Proof.
    intros He Hk. unfold ec, elev_coord.
    destruct (Nat.ltb_spec (nV + e * m + k) nV); [lia |].
    assert (nV + e * m + k < nV + nE * m)%nat by nia.
    destruct (Nat.ltb_spec (nV + e * m + k) (nV + nE * m)); [| lia].
    replace (nV + e * m + k - nV)%nat with (k + e * m)%nat by lia.
    rewrite Nat.div_add by lia. rewrite Nat.mod_add by lia.
    rewrite Nat.div_small, Nat.mod_small by lia. reflexivity.
  Qed.

  Theorem coord_of_interior_id t k : (k < nI)%nat ->
    ec (nV + nE * m + t * nI + k) = interior_coord X N0 N1 tri t k.
  Proof.
    intros Hk. unfold ec, elev_coord.
    destruct (Nat.ltb_spec (nV + nE * m + t * nI + k) nV); [lia |].
    destruct (Nat.ltb_spec (nV + nE * m + t * nI + k) (nV + nE * m)); [lia |].
    replace (nV + nE * m + t * nI + k - nV - nE * m)%nat with (k + t * nI)%nat by lia.
    rewrite Nat.div_add by lia. rewrite Nat.mod_add by lia.
    rewrite Nat.div_small, Nat.mod_small by lia. reflexivity.
  Qed.
End Coords.

(* the point with barycentric weights side_weight s . sk is the point at parameter sk on side s *)
Lemma side_weight_point s sk X0 X1 X2 : (s < 3)%nat ->
  side_weight s 0 sk * X0 + side_weight s 1 sk * X1 + side_weight s 2 sk * X2
  = (1 - sk) * nth s [X0; X1; X2] 0 + sk * nth ((s + 1) mod 3) [X0; X1; X2] 0.
Proof.
  intros Hs. destruct s as [| [| [| s]]]; try lia; unfold side_weight; cbn; lra.
Qed.
Lemma side_weight_sum s sk : (s < 3)%nat -> side_weight s 0 sk + side_weight s 1 sk + side_weight s 2 sk = 1.
Proof. intros Hs. destruct s as [| [| [| s]]]; try lia; unfold side_weight; cbn; lra. Qed.

(* a reference point within delta (per coordinate) of barycentric weights (w0, w1, 1-w0-w1) has its affine image within
   delta (|X0 - X2| + |X1 - X2|) of the weighted combination *)
Lemma affine_image_close xi0 xi1 w0 w1 X0 X1 X2 delta :
  Rabs (xi0 - w0) <= delta -> Rabs (xi1 - w1) <= delta ->
  Rabs (affine_image xi0 xi1 X0 X1 X2 - (w0 * X0 + w1 * X1 + (1 - w0 - w1) * X2)) <= delta * (Rabs (X0 - X2) + Rabs (X1 - X2)).
Proof.
  intros H0 H1. unfold affine_image.
  replace (xi0 * X0 + xi1 * X1 + (1 - xi0 - xi1) * X2 - (w0 * X0 + w1 * X1 + (1 - w0 - w1) * X2))
    with ((xi0 - w0) * (X0 - X2) + (xi1 - w1) * (X1 - X2)) by ring.
  eapply Rle_trans; [apply Rabs_triang |]. rewrite !Rabs_mult.
  pose proof (Rabs_pos (X0 - X2)). pose proof (Rabs_pos (X1 - X2)).
  assert (Rabs (xi0 - w0) * Rabs (X0 - X2) <= delta * Rabs (X0 - X2)) by (apply Rmult_le_compat_r; assumption).
  assert (Rabs (xi1 - w1) * Rabs (X1 - X2) <= delta * Rabs (X1 - X2)) by (apply Rmult_le_compat_r; assumption).
  lra.
Qed.

(* LEFT element of an edge: its side s runs from a = vertex s to b = vertex s+1, which is the edge row's pair (ea, eb); the node
   at face position k has the id nV + e m + k (C13_elevate_conform), whose stored coordinate is the edge point at s_k.  If the
   reference coordinates (xi0, xi1) of that face position are within delta of the side weights (certificate ref_face_okb), the
   stored coordinate is within delta (|X0-X2| + |X1-X2|) of the affine image of the reference node. *)
Theorem affine_placement_left s sk xi0 xi1 X0 X1 X2 delta : (s < 3)%nat ->
  Rabs (xi0 - side_weight s 0 sk) <= delta -> Rabs (xi1 - side_weight s 1 sk) <= delta ->
  let Xa := nth s [X0; X1; X2] 0 in let Xb := nth ((s + 1) mod 3) [X0; X1; X2] 0 in
  Rabs (affine_image xi0 xi1 X0 X1 X2 - ((1 - sk) * Xa + sk * Xb)) <= delta * (Rabs (X0 - X2) + Rabs (X1 - X2)).
Proof.
  intros Hs H0 H1 Xa Xb. unfold Xa, Xb. rewrite <- (side_weight_point s sk X0 X1 X2 Hs).
  replace (side_weight s 2 sk) with (1 - side_weight s 0 sk - side_weight s 1 sk) by (pose proof (side_weight_sum s sk Hs); lra).
  apply affine_image_close; assumption.
Qed.

(* RIGHT element: its side s runs from a to b but the edge row's pair is (b, a) and the node at face position k carries the id
   nV + e m + (m-1-k), i.e. the stored coordinate (1 - s') Xb + s' Xa with s' = s_{m-1-k}.  With the 1-D nodes symmetric up to
   delta' (certificate lobatto_sym_cert) the stored coordinate is within delta (...) + delta' |Xa - Xb| of the affine image. *)
Theorem affine_placement_right s sk sk' xi0 xi1 X0 X1 X2 delta delta' : (s < 3)%nat ->
  Rabs (xi0 - side_weight s 0 sk) <= delta -> Rabs (xi1 - side_weight s 1 sk) <= delta ->
  Rabs (sk + sk' - 1) <= delta' ->
  let Xa := nth s [X0; X1; X2] 0 in let Xb := nth ((s + 1) mod 3) [X0; X1; X2] 0 in
  Rabs (affine_image xi0 xi1 X0 X1 X2 - ((1 - sk') * Xb + sk' * Xa))
  <= delta * (Rabs (X0 - X2) + Rabs (X1 - X2)) + delta' * Rabs (Xa - Xb).
Proof.
  intros Hs H0 H1 Hsym Xa Xb.
  pose proof (affine_placement_left s sk xi0 xi1 X0 X1 X2 delta Hs H0 H1) as L. cbv zeta in L. fold Xa Xb in L.
  replace (affine_image xi0 xi1 X0 X1 X2 - ((1 - sk') * Xb + sk' * Xa))
    with ((affine_image xi0 xi1 X0 X1 X2 - ((1 - sk) * Xa + sk * Xb)) + (sk + sk' - 1) * (Xb - Xa)) by ring.
  eapply Rle_trans; [apply Rabs_triang |]. rewrite Rabs_mult. rewrite (Rabs_minus_sym Xb Xa).
  pose proof (Rabs_pos (Xa - Xb)).
  assert (Rabs (sk + sk' - 1) * Rabs (Xa - Xb) <= delta' * Rabs (Xa - Xb)) by (apply Rmult_le_compat_r; assumption).
  lra.
Qed.

(* VERTEX and INTERIOR positions: exact.  The reference coordinates of vertex position i are the unit points (certificate
   ref_vertex_okb); the interior weights N0, N1 ARE the reference coordinates of the interior positions (same table). *)
Theorem affine_placement_vertex X0 X1 X2 :
  affine_image 1 0 X0 X1 X2 = X0 /\ affine_image 0 1 X0 X1 X2 = X1 /\ affine_image 0 0 X0 X1 X2 = X2.
Proof. unfold affine_image. repeat split; ring. Qed.
Theorem affine_placement_interior X N0 N1 tri t k :
  interior_coord X N0 N1 tri t k = affine_image (N0 k) (N1 k) (X (tri t 0%nat)) (X (tri t 1%nat)) (X (tri t 2%nat)).
Proof. reflexivity. Qed.
