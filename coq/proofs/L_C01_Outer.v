(* C01 -- structural tie, part 2 (item (f)): the WHOLE of EquationSolver.trust_region_minimize as extracted from /repo's AST
   (gen/CFG_TR.v), run by the interpreter of model/M_C01_CFG.v with a callback, IS the hand model model/M_C01_TR.v
   trust_region_minimize: initial convergence test, the Cauchy-point block and the call of the CG sub-solver (= propose), the
   outer `for` (induction on the iteration count), the `while` (L_C01_CFG.while_inner) and the exit after max_trust_iters.
   For every Num T, all oracles, all settings, all values of the locals and the preconditioner state, every `while` budget.
   Proved here: for_body0 / for_body (one pass of the `for` body = propose + inner), for_outer0 / for_outer (the `for` loop followed by
   the statements after it = outer, by induction on the iteration count), extracted_solver_is_hand_model (the whole function called
   with a callback: run = trust_region_minimize, including the initial convergence test), and the driver's success theorem with the
   interpreted extracted solver (solver_tree) as the callee.  NOT proved here: the call without a callback (callback=None). *)
From Coq Require Import Reals ZArith List String Bool Lia Lra.
From OV.base Require Import Num.
From OV.model Require Import M_C06_Vec M_C06_CG M_C01_TR M_C01_CFG M_C01_Drv.
From OV.gen Require Import CFG_TR.
From OV.proofs Require Import L_C06_Vec L_C01 L_C01_CFG L_C01_Drv.
Import ListNotations.
Open Scope string_scope.
Open Scope list_scope.

Definition tr_prologue : list stmt := firstn 9 tr_body.

Section Outer.
  Context {T : Type} {NT : Num T}.
  Local Notation vec := (list T).
  Variable value : vec -> T.
  Variable grad : vec -> vec.
  Variable hessvec precond mult_approx : vec -> vec -> vec.
  Variable S : settings T.
  Variable chk : bool.
  Variable fuel : nat.

  Notation Ieval := (@eval T NT value grad hessvec precond mult_approx S chk fuel cfg_functions cfg_string_constants).
  Notation Iexec := (@exec T NT value grad hessvec precond mult_approx S chk fuel cfg_functions cfg_string_constants).
  Notation Iblock := (@block T NT value grad hessvec precond mult_approx S chk fuel cfg_functions cfg_string_constants).
  Notation Irun := (@run T NT value grad hessvec precond mult_approx S chk fuel cfg_functions cfg_string_constants).
  Notation IWL := (@WL T NT value grad hessvec precond mult_approx S chk fuel).
  Notation Irel := (rel_inner chk).
  Notation Imkst := mkst.
  Notation Ihand := hand.

  Lemma block_cons' F s r st :
    Iblock (Datatypes.S F) (s :: r) st = match Iexec F s st with ONormal st' => Iblock F r st' | o' => o' end.
  Proof. reflexivity. Qed.
  Lemma block_nil' F st : Iblock (Datatypes.S F) [] st = ONormal st.
  Proof. reflexivity. Qed.
  Lemma exec_while F st : Iexec (Datatypes.S F) (SWhile tr_wcond tr_wbody) st = IWL F fuel st.
  Proof. reflexivity. Qed.
  Lemma exec_for F i n body st :
    Iexec (Datatypes.S F) (SFor i n body) st =
    match Ieval F n st with
    | Some (VN k) => for_loop (fun j st' => Iblock F body (assign i (VN j) st')) k O st
    | _ => OError end.
  Proof. reflexivity. Qed.

  Ltac nf_in t :=
    eval lazy -[nadd nsub nmul ndiv nopp nsqrt nltb nleb neqb nconst npow
                vdot vadd vsub vscale vneg vnorm ediv ege egt dogleg_step solve_trust_region_minimization mult_of real_objective
                inner outer while_loop for_loop Nat.leb Nat.ltb Nat.add raw app existsb steptag_eqb is_on_boundary orb andb WL WLcond rel_inner prepend rho_of new_radius
                cg_z cg_cauchy cg_tag cg_iters
                s_t1 s_t2 s_eta1 s_eta2 s_eta3 s_max_trust_iters s_tol s_max_cg_iters s_max_cumulative_cg_iters s_cg_tol s_cg_ratio
                s_tr_size s_min_tr_size s_use_pc_ip s_use_incremental] in t.
  Ltac nf_goal :=
    lazy -[nadd nsub nmul ndiv nopp nsqrt nltb nleb neqb nconst npow
           vdot vadd vsub vscale vneg vnorm ediv ege egt dogleg_step solve_trust_region_minimization mult_of real_objective
           inner outer while_loop for_loop Nat.leb Nat.ltb Nat.add raw app existsb steptag_eqb is_on_boundary orb andb WL WLcond rel_inner prepend rho_of new_radius
           cg_z cg_cauchy cg_tag cg_iters
           s_t1 s_t2 s_eta1 s_eta2 s_eta3 s_max_trust_iters s_tol s_max_cg_iters s_max_cumulative_cg_iters s_cg_tol s_cg_ratio
           s_tr_size s_min_tr_size s_use_pc_ip s_use_incremental].

  Ltac ex1 :=
    match goal with
    | |- context [@block T NT value grad hessvec precond mult_approx S ?c fuel cfg_functions cfg_string_constants (Datatypes.S ?F) (?s :: ?r) ?st] =>
        rewrite (block_cons' F s r st);
        let o := nf_in (@exec T NT value grad hessvec precond mult_approx S c fuel cfg_functions cfg_string_constants F s st) in
        let E := fresh "E" in
        assert (E : @exec T NT value grad hessvec precond mult_approx S c fuel cfg_functions cfg_string_constants F s st = o) by (vm_compute; reflexivity);
        rewrite E; clear E;
        cbv beta iota
    | |- context [@block T NT value grad hessvec precond mult_approx S ?c fuel cfg_functions cfg_string_constants (Datatypes.S ?F) [] ?st] =>
        rewrite (block_nil' F st); cbv beta iota
    end.
  Ltac ex1_as x v tac :=
    match goal with
    | |- context [@block T NT value grad hessvec precond mult_approx S ?c fuel cfg_functions cfg_string_constants (Datatypes.S ?F) (?s :: ?r) ?st] =>
        rewrite (block_cons' F s r st);
        let E := fresh "E" in
        assert (E : @exec T NT value grad hessvec precond mult_approx S c fuel cfg_functions cfg_string_constants F s st = ONormal (assign x v st)) by tac;
        rewrite E; clear E;
        let o := nf_in (assign x v st) in
        let E2 := fresh "E" in
        assert (E2 : assign x v st = o) by (vm_compute; reflexivity);
        rewrite E2; clear E2;
        cbv beta iota
    end.
  Ltac split_if :=
    match goal with
    | |- context [if ?c then _ else _] =>
        lazymatch c with context [if _ then _ else _] => fail | s_use_incremental _ => fail | s_use_pc_ip _ => fail | _ => idtac end;
        let H := fresh "Hc" in destruct c eqn:H; cbv beta iota
    end.

  (* ---- one pass of the `for` body: the statements before the `while` are `propose`, then the `while` is `inner` *)
  Definition body_hand (s : @st T) : @inner_out T :=
    let '(cp, qn, stepType, cgIters) := @propose T NT hessvec precond mult_approx S s in
    @inner T NT value grad hessvec mult_approx S fuel
      {| c_x := c_x s; c_g := c_g s; c_o := c_o s; c_gNorm := c_gNorm s; c_tr := c_tr s; c_tried := c_tried s;
         c_cum := (c_cum s + cgIters)%nat; c_xp := c_xp s |} cp qn stepType cgIters.

  Lemma rel_id_match tr0 io (o : @outcome T) : Irel tr0 io o -> Irel tr0 io (match o with ONormal st' => ONormal st' | o' => o' end).
  Proof. destruct o; auto. Qed.

  Ltac gen :=
    repeat match goal with
    | |- context [@block T NT value grad hessvec precond mult_approx S _ fuel cfg_functions cfg_string_constants _ _ ?st] =>
        match st with
        | context [hessvec ?a ?b] => generalize (hessvec a b); intro
        | context [vdot ?a ?b] => generalize (vdot a b); intro
        end
    end.

  Lemma block_last_while F st t io : Irel t io (IWL F fuel st) -> Irel t io (Iblock (Datatypes.S (Datatypes.S F)) [SWhile tr_wcond tr_wbody] st).
  Proof. intros H. rewrite block_cons', exec_while. destruct (IWL F fuel st); exact H. Qed.

  (* states in which the six locals that every pass assigns before reading them (cauchyPoint, qNewtonPoint, stepType, cgIters, trSizeUsed,
     happyAboutTrSize) hold ANYTHING -- in particular "unbound", as on entry of the first pass *)
  Definition pick0 (L : live) (J : string -> @val T) (k : string) : @val T :=
    if String.eqb k "cauchyPoint" then J k else if String.eqb k "qNewtonPoint" then J k else if String.eqb k "stepType" then J k
    else if String.eqb k "cgIters" then J k else if String.eqb k "trSizeUsed" then J k else if String.eqb k "happyAboutTrSize" then J k
    else pick L J k.
  Definition mkst0 (L : live) (J : string -> @val T) (xp0 : vec) (tr0 : list (@rawev T)) : @state T :=
    {| env := map (fun k => (k, pick0 L J k)) tr_keys; xp := xp0; trace := tr0 |}.
  Lemma mkst_mkst0 L J xp0 tr0 : Imkst L J xp0 tr0 = mkst0 L (pick L J) xp0 tr0.
  Proof. destruct L. vm_compute. reflexivity. Qed.

  Lemma for_body0 F0 j L J xp0 tr0 :
    Irel tr0 (body_hand (Ihand L xp0)) (Iblock (71 + F0) tr_forbody (assign tr_fori (VN j) (mkst0 L J xp0 tr0))).
  Proof.
    pose proof (@while_inner T NT value grad hessvec precond mult_approx S chk fuel F0 fuel) as W.
    remember (60 + F0) as F60 eqn:HF.
    destruct L as [lx lg lo lgn ltr ltried lcum lcp lqn lstep lcg ltru lhappy lincr lhv lmult]. unfold body_hand, propose.
    cbn [hand c_x c_g c_o c_gNorm c_tr c_tried c_cum c_xp l_x l_g l_o l_gNorm l_tr l_tried l_cum].
    match goal with |- Irel _ _ ?w => remember w as o eqn:Ho end.
    nf_goal.
    match type of Ho with context [assign ?i ?v (mkst0 ?L ?J ?x ?t)] =>
      let b := nf_in (assign i v (mkst0 L J x t)) in replace (assign i v (mkst0 L J x t)) with b in Ho by (vm_compute; reflexivity) end.
    let b := eval lazy in (removelast tr_forbody) in
      replace tr_forbody with (b ++ [SWhile tr_wcond tr_wbody]) in Ho by (vm_compute; reflexivity).
    cbn [Nat.add app] in Ho. subst o.
    ex1_as "incremental_objective" (clo_incr S) ltac:(unfold clo_incr; destruct (s_use_incremental S) eqn:Hi; nf_goal; rewrite Hi; reflexivity).
    ex1.
    ex1_as "mult_by_approx_hessian" (val_mult S) ltac:(unfold val_mult; destruct (s_use_pc_ip S) eqn:Hi; nf_goal; rewrite Hi; reflexivity).
    unfold mult_of, val_mult. destruct (s_use_pc_ip S) eqn:Hpc.
    all: ex1; gen; ex1; split_if.
    all: ex1; split_if.
    all: rewrite ?Hpc; do 3 ex1.
    all: match goal with |- Irel _ _ (Iblock (Datatypes.S (Datatypes.S ?F)) _ _) => change F with (60 + F0); rewrite <- HF end.
    all: apply block_last_while.
    all: match goal with |- Irel ?t ?h (IWL ?F fuel {| env := ?e; xp := ?x; trace := ?tr |}) =>
      replace {| env := e; xp := x; trace := tr |} with (Imkst (live_of e) (get e) x tr) by (vm_compute; reflexivity) end.
    all: match goal with |- Irel ?t ?h (IWL ?F fuel (Imkst ?L ?JJ ?x ?tr)) =>
      refine (eq_ind _ (fun h' => Irel t h' (IWL F fuel (Imkst L JJ x tr))) (W L JJ x tr _ _ _ _) _ _);
      [ vm_compute; reflexivity | vm_compute; reflexivity | unfold val_mult; rewrite Hpc; vm_compute; reflexivity
      | vm_compute; reflexivity | nf_goal; reflexivity ] end.
  Qed.

  Lemma for_body F0 j L J xp0 tr0 :
    Irel tr0 (body_hand (Ihand L xp0)) (Iblock (71 + F0) tr_forbody (assign tr_fori (VN j) (Imkst L J xp0 tr0))).
  Proof. rewrite mkst_mkst0. apply for_body0. Qed.

  (* ---- the outer `for` and the exit after it, by induction on the number of iterations *)
  Definition prefix_result (tr0 : list (@rawev T)) (r : option (vec * bool * list (@rawev T))) : option (vec * bool * list (@rawev T)) :=
    match r with Some (x, f, ev) => Some (x, f, tr0 ++ ev) | None => None end.

  Lemma epilogue_exit F0 L J xp0 tr0 :
    result_of (Iblock (10 + F0) tr_epilogue (Imkst L J xp0 tr0)) = Some (l_x L, false, tr0 ++ (if chk then [RCallback (l_x L)] else [])).
  Proof. destruct L, chk; [|rewrite app_nil_r]; vm_compute; reflexivity. Qed.

  Lemma raw_app' (a b : list (event T)) : raw chk (a ++ b) = raw chk a ++ raw chk b.
  Proof. unfold raw. apply flat_map_app. Qed.

  Lemma epilogue_exit0 F0 L J xp0 tr0 :
    result_of (Iblock (10 + F0) tr_epilogue (mkst0 L J xp0 tr0)) = Some (l_x L, false, tr0 ++ (if chk then [RCallback (l_x L)] else [])).
  Proof. destruct L, chk; [|rewrite app_nil_r]; vm_compute; reflexivity. Qed.

  Lemma for_outer0 F0 : forall n i L J xp0 tr0,
    result_of (match for_loop (fun j st' => Iblock (71 + F0) tr_forbody (assign tr_fori (VN j) st')) n i (mkst0 L J xp0 tr0) with
               | ONormal st' => Iblock (72 + F0) tr_epilogue st' | o => o end)
    = prefix_result tr0 (raw_result chk (@outer T NT value grad hessvec precond mult_approx S n fuel (Ihand L xp0))).
  Proof.
    induction n as [|n IH]; intros i L J xp0 tr0.
    - cbn [for_loop outer]. rewrite (epilogue_exit0 (62 + F0)). unfold hand; cbn [c_x raw_result existsb is_fuel raw flat_map raw_of prefix_result app orb].
      destruct chk; reflexivity.
    - cbn [for_loop outer].
      pose proof (for_body0 F0 i L J xp0 tr0) as B. unfold body_hand in B.
      destruct (@propose T NT hessvec precond mult_approx S (Ihand L xp0)) as [[[cp qn] stt] cg].
      match type of B with Irel _ ?io ?o => destruct io as [x f ev|s' ev|ev]; remember o as oo end.
      + destruct B as (Hf & st' & -> & Ht). cbn [result_of raw_result prefix_result]. rewrite Hf, Ht. reflexivity.
      + destruct B as (Hf & L' & J' & tr' & -> & -> & Hh). rewrite mkst_mkst0, IH, Hh.
        destruct (@outer T NT value grad hessvec precond mult_approx S n fuel s') as [[x f] ev'].
        cbn [raw_result prefix_result]. rewrite existsb_app, Hf. cbn [orb].
        destruct (existsb is_fuel ev'); cbn [prefix_result]; [reflexivity|]. rewrite raw_app', app_assoc. reflexivity.
      + destruct B as (Hf & ->). cbn [result_of raw_result prefix_result]. rewrite Hf. reflexivity.
  Qed.


  Lemma for_outer F0 n i L J xp0 tr0 :
    result_of (match for_loop (fun j st' => Iblock (71 + F0) tr_forbody (assign tr_fori (VN j) st')) n i (Imkst L J xp0 tr0) with
               | ONormal st' => Iblock (72 + F0) tr_epilogue st' | o => o end)
    = prefix_result tr0 (raw_result chk (@outer T NT value grad hessvec precond mult_approx S n fuel (Ihand L xp0))).
  Proof. rewrite mkst_mkst0. apply for_outer0. Qed.
End Outer.

Section Top.
  Context {T : Type} {NT : Num T}.
  Local Notation vec := (list T).
  Variable value : vec -> T.
  Variable grad : vec -> vec.
  Variable hessvec precond mult_approx : vec -> vec -> vec.
  Variable S : settings T.
  Variable fuel : nat.

  Notation Iblock c := (@block T NT value grad hessvec precond mult_approx S c fuel cfg_functions cfg_string_constants).
  Notation Iexec c := (@exec T NT value grad hessvec precond mult_approx S c fuel cfg_functions cfg_string_constants).
  Notation Ieval c := (@eval T NT value grad hessvec precond mult_approx S c fuel cfg_functions cfg_string_constants).
  Lemma Tblock_cons_p c F s r st :
    Iblock c (Datatypes.S F) (s :: r) st = match Iexec c F s st with ONormal st' => Iblock c F r st' | o' => o' end.
  Proof. reflexivity. Qed.
  Lemma Tblock_nil_p c F st : Iblock c (Datatypes.S F) [] st = ONormal st.
  Proof. reflexivity. Qed.
  Lemma Texec_for c F i n body st :
    Iexec c (Datatypes.S F) (SFor i n body) st =
    match Ieval c F n st with
    | Some (VN k) => for_loop (fun j st' => Iblock c F body (assign i (VN j) st')) k O st
    | _ => OError end.
  Proof. reflexivity. Qed.

  Ltac nf_in t :=
    eval lazy -[nadd nsub nmul ndiv nopp nsqrt nltb nleb neqb nconst npow
                vdot vadd vsub vscale vneg vnorm ediv ege egt dogleg_step solve_trust_region_minimization mult_of real_objective
                inner outer while_loop for_loop Nat.leb Nat.ltb Nat.add raw app existsb steptag_eqb is_on_boundary orb andb WL WLcond rel_inner prepend rho_of new_radius
                cg_z cg_cauchy cg_tag cg_iters
                s_t1 s_t2 s_eta1 s_eta2 s_eta3 s_max_trust_iters s_tol s_max_cg_iters s_max_cumulative_cg_iters s_cg_tol s_cg_ratio
                s_tr_size s_min_tr_size s_use_pc_ip s_use_incremental] in t.
  Ltac nf_goal :=
    lazy -[nadd nsub nmul ndiv nopp nsqrt nltb nleb neqb nconst npow
           vdot vadd vsub vscale vneg vnorm ediv ege egt dogleg_step solve_trust_region_minimization mult_of real_objective
           inner outer while_loop for_loop Nat.leb Nat.ltb Nat.add raw app existsb steptag_eqb is_on_boundary orb andb WL WLcond rel_inner prepend rho_of new_radius
           cg_z cg_cauchy cg_tag cg_iters
           s_t1 s_t2 s_eta1 s_eta2 s_eta3 s_max_trust_iters s_tol s_max_cg_iters s_max_cumulative_cg_iters s_cg_tol s_cg_ratio
           s_tr_size s_min_tr_size s_use_pc_ip s_use_incremental].

  Ltac ex1 :=
    match goal with
    | |- context [@block T NT value grad hessvec precond mult_approx S ?c fuel cfg_functions cfg_string_constants (Datatypes.S ?F) (?s :: ?r) ?st] =>
        rewrite (Tblock_cons_p c F s r st);
        let o := nf_in (@exec T NT value grad hessvec precond mult_approx S c fuel cfg_functions cfg_string_constants F s st) in
        let E := fresh "E" in
        assert (E : @exec T NT value grad hessvec precond mult_approx S c fuel cfg_functions cfg_string_constants F s st = o) by (vm_compute; reflexivity);
        rewrite E; clear E;
        cbv beta iota
    | |- context [@block T NT value grad hessvec precond mult_approx S ?c fuel cfg_functions cfg_string_constants (Datatypes.S ?F) [] ?st] =>
        rewrite (Tblock_nil_p c F st); cbv beta iota
    end.
  Ltac ex1_as x v tac :=
    match goal with
    | |- context [@block T NT value grad hessvec precond mult_approx S ?c fuel cfg_functions cfg_string_constants (Datatypes.S ?F) (?s :: ?r) ?st] =>
        rewrite (Tblock_cons_p c F s r st);
        let E := fresh "E" in
        assert (E : @exec T NT value grad hessvec precond mult_approx S c fuel cfg_functions cfg_string_constants F s st = ONormal (assign x v st)) by tac;
        rewrite E; clear E;
        let o := nf_in (assign x v st) in
        let E2 := fresh "E" in
        assert (E2 : assign x v st = o) by (vm_compute; reflexivity);
        rewrite E2; clear E2;
        cbv beta iota
    end.
  Ltac split_if :=
    match goal with
    | |- context [if ?c then _ else _] =>
        lazymatch c with context [if _ then _ else _] => fail | s_use_incremental _ => fail | s_use_pc_ip _ => fail | _ => idtac end;
        let H := fresh "Hc" in destruct c eqn:H; cbv beta iota
    end.


  Theorem extracted_solver_is_hand_model chk F0 x xp0 :
    result_of (@run T NT value grad hessvec precond mult_approx S chk fuel cfg_functions cfg_string_constants (82 + F0) cfg_trust_region_minimize [VObj; VV x; VSet; VCb] xp0)
    = raw_result chk (@trust_region_minimize T NT value grad hessvec precond mult_approx S fuel x xp0).
  Proof.
    unfold run, trust_region_minimize, tol2. cbv zeta.
    match goal with |- result_of (match ?b with Some _ => _ | None => _ end) = _ =>
      let v := eval lazy in b in replace b with v by (vm_compute; reflexivity) end. cbv beta iota.
    match goal with |- context [@block _ _ _ _ _ _ _ _ _ _ _ _ ?F (f_body _) ?st] =>
      let v := eval lazy in st in replace st with v by (vm_compute; reflexivity) end.
    let b := eval lazy in tr_prologue in
    let l := eval cbv [app] in (b ++ [SFor tr_fori tr_forn tr_forbody] ++ tr_epilogue) in
      replace (f_body cfg_trust_region_minimize) with l by (vm_compute; reflexivity).
    let n := eval cbv [Nat.add] in (82 + F0) in change (82 + F0) with n.
    pose proof (@for_outer0 T NT value grad hessvec precond mult_approx S chk fuel F0 (s_max_trust_iters S) O) as HO.
    cbn [Nat.add] in HO.
    destruct chk.
    all: do 8 ex1; split_if; [ vm_compute; reflexivity | ].
    all: ex1; rewrite Tblock_cons_p, Texec_for.
    all: match goal with |- context [@eval _ _ _ _ _ _ _ _ ?c _ _ _ ?F tr_forn {| env := ?e; xp := ?xx; trace := ?tr |}] =>
        replace (Ieval c F tr_forn {| env := e; xp := xx; trace := tr |}) with (Some (@VN T (s_max_trust_iters S))) by (vm_compute; reflexivity);
        replace {| env := e; xp := xx; trace := tr |} with (mkst0 (live_of e) (get e) xx tr) by (vm_compute; reflexivity)
      end; cbv beta iota; rewrite HO.
    all: match goal with |- prefix_result _ (raw_result _ ?a) = raw_result _ ?b => change a with b; destruct b as [[xr fl] ev] end.
    all: cbn [raw_result]; destruct (existsb is_fuel ev); reflexivity.
  Qed.
End Top.

(* ---- the driver with the INTERPRETED EXTRACTED trust_region_minimize as the callee *)
Section SolverTree.
  Context {T : Type} {NT : Num T} {P : Type}.
  Local Notation vec := (list T).
  Variable value : P -> vec -> T.
  Variable grad : P -> vec -> vec.
  Variable hessvec : P -> vec -> vec -> vec.
  Variable precond mult_approx : P -> P -> vec -> vec -> vec.
  Variable S : settings T.
  Variable chk : bool.
  Variable wfuel : nat.

  Lemma solver_tree_result ft sc F g fd args par pcp xp0 x f ev xp' :
    @solver_tree T NT P value grad hessvec precond mult_approx S chk wfuel ft sc F g fd args par pcp xp0 = Some (x, f, ev, xp') ->
    result_of (@run T NT (value par) (grad par) (hessvec par) (precond pcp par) (mult_approx pcp par) S chk wfuel ft sc F fd args xp0) = Some (x, f, ev).
  Proof.
    unfold solver_tree, result_of. destruct (run _ _ _ _ _ _ _ _ _ _ _ _ _ _) as [|v st| |]; try discriminate.
    repeat (match goal with |- (match ?t with _ => _ end) = _ -> _ => destruct t; try discriminate end).
    intros H. injection H as <- <- <- <-. reflexivity.
  Qed.

  (* with a callback: what the interpreted extracted solver returns is what the hand model returns *)
  Lemma solver_tree_is_hand F0 par pcp xp0 x xs f ev xp' :
    @solver_tree T NT P value grad hessvec precond mult_approx S chk wfuel cfg_functions cfg_string_constants (82 + F0)
       "trust_region_minimize" cfg_trust_region_minimize [VObj; VV x; VSet; VCb] par pcp xp0 = Some (xs, f, ev, xp') ->
    raw_result chk (@trust_region_minimize T NT (value par) (grad par) (hessvec par) (precond pcp par) (mult_approx pcp par) S wfuel x xp0) = Some (xs, f, ev).
  Proof. intros H. apply solver_tree_result in H. rewrite extracted_solver_is_hand_model in H. exact H. Qed.
End SolverTree.

Section DrvTreeR.
  Local Open Scope R_scope.
  Variable P : Type.
  Variable value : P -> rvec -> R.
  Variable grad : P -> rvec -> rvec.
  Variable hessvec : P -> rvec -> rvec -> rvec.
  Variable precond mult_approx : P -> P -> rvec -> rvec -> rvec.
  Variable warm : P -> P -> rvec -> rvec -> P -> rvec.
  Variable scaling invScaling : scal R.
  Variable S : settings R.
  Variable chk : bool.
  Variable wfuel : nat.

  Theorem driver_success_small_gradient_tree F0 F1 x0 p uw up par pcp xp x par' pcp' xp' tr :
    dresult_of (@drun_default R NumR P warm scaling invScaling
                  (@solver_tree R NumR P value grad hessvec precond mult_approx S chk wfuel cfg_functions cfg_string_constants (82 + F1))
                  cfg_functions (20 + F0) cfg_nonlinear_equation_solve x0 p (cb_val true) uw up par pcp xp) = Some (x, true, par', pcp', xp', tr) ->
    par' = p /\ exists xBar, x = smul invScaling xBar /\ grad p xBar ⋅ grad p xBar < @tol2 R NumR S.
  Proof.
    intros H. apply driver_installs_parameters in H. destruct H as (Hp & pre & pcp2 & xp2 & xb1 & xs & ev & _ & _ & _ & Hx & Hs).
    split; [exact Hp|]. exists xs. split; [exact Hx|].
    cbn [cb_arg] in Hs. apply solver_tree_is_hand in Hs.
    pose proof (trm_spec (value p) (grad p) (hessvec p) (precond pcp2 p) (mult_approx pcp2 p) S wfuel xb1 xp2) as Ht.
    destruct (@trust_region_minimize R NumR (value p) (grad p) (hessvec p) (precond pcp2 p) (mult_approx pcp2 p) S wfuel xb1 xp2) as [[xr flag] tr0].
    cbn [raw_result] in Hs. destruct (existsb is_fuel tr0); try discriminate. injection Hs as Hxr Hfl _. subst xr flag.
    destruct Ht as (_ & _ & Ht & _). apply Ht. reflexivity.
  Qed.
End DrvTreeR.
