(* C09, tensor level (small-deformation kinematics, model/M_C09T.v): the residual handed to the root finder by the code (derivative
   of the tensor-level incremental potential along the return direction) is the scalar residual, so the tensor update IS the scalar
   update; invariants along ANY history of displacement gradients (eqps non-decreasing, plastic strain trace preserved);
   committing the state: same elastic strain, yield consistency in tensor terms, tensor-level idempotence, same energy. *)
From Coq Require Import Reals Lra Lia ZArith QArith Bool List Psatz FunctionalExtensionality.
From Coquelicot Require Import Coquelicot.
From OV.base Require Import Num.
From OV.gen Require Import Gen_ScalarRootFind Gen_Hardening Gen_TensorMath Gen_J2Flow Gen_J2Elastic.
From OV.model Require Import M_C17 M_C09 M_C09T.
From OV.proofs Require Import L_C17 L_C09 L_C09r.
Import ListNotations.
Local Open Scope R_scope.

Lemma m9_eq (a0 a1 a2 a3 a4 a5 a6 a7 a8 b0 b1 b2 b3 b4 b5 b6 b7 b8 : R) :
  a0 = b0 -> a1 = b1 -> a2 = b2 -> a3 = b3 -> a4 = b4 -> a5 = b5 -> a6 = b6 -> a7 = b7 -> a8 = b8 ->
  (a0, a1, a2, a3, a4, a5, a6, a7, a8) = (b0, b1, b2, b3, b4, b5, b6, b7, b8).
Proof. intros; subst; reflexivity. Qed.

(* ---------- (A) the tensor-level residual is the scalar residual ---------- *)
Lemma delta_gen_res (Yf dYf : R -> R) (mu tol s eo : R) :
  @delta_eqps_gen R NumR Yf dYf mu tol s eo = @delta_eqps_res R NumR (resid Yf mu s eo) (dresid dYf mu) (Yf eo) mu tol s eo.
Proof. reflexivity. Qed.

Lemma elastic_along_R (mu : R) (E : @m9 R) (eo e : R) :
  @elastic_along R NumR mu E eo e = mu * ddot (dev9 E) (dev9 E) - (e - eo) * trial_mises mu E + 3 / 2 * mu * ((e - eo) * (e - eo)).
Proof.
  pose proof (tensor_potential_reduction E 0 0 mu 0 0 (e - eo)) as H. cbv zeta in H. unfold elastic_along. unfold_num.
  destruct (axpy9 (e - eo) (flowdir E) E) as [[[[[[[[x0 x1] x2] x3] x4] x5] x6] x7] x8]. exact H.
Qed.

Section TensorResidual.
  Variables Yf dYf DelT D2T : R -> R.
  Variables (mu tol eo : R) (E : @m9 R).
  (* what jax.jacfwd delivers for the elastic part of incremental_potential (and jax.grad of that for the Newton slope) *)
  Hypothesis HD1 : forall e, is_derive (fun x => @elastic_along R NumR mu E eo x) e (DelT e).
  Hypothesis HD2 : forall e, is_derive DelT e (D2T e).

  Lemma DelT_closed e : DelT e = - trial_mises mu E + 3 * mu * (e - eo).
  Proof.
    apply (is_derive_unique (fun x => @elastic_along R NumR mu E eo x) e) in HD1 as <-.
    apply is_derive_unique.
    apply (is_derive_ext (fun x => mu * ddot (dev9 E) (dev9 E) - (x - eo) * trial_mises mu E + 3 / 2 * mu * ((x - eo) * (x - eo)))).
    - intros t. symmetry. apply elastic_along_R.
    - generalize (trial_mises mu E) (ddot (dev9 E) (dev9 E)). intros s q. auto_derive; [trivial|field].
  Qed.
  Lemma D2T_closed e : D2T e = 3 * mu.
  Proof.
    pose proof (HD2 e) as H. apply is_derive_unique in H. rewrite <- H. apply is_derive_unique.
    apply (is_derive_ext (fun x => - trial_mises mu E + 3 * mu * (x - eo))).
    - intros t. symmetry. apply DelT_closed.
    - generalize (trial_mises mu E). intros s. auto_derive; [trivial|ring].
  Qed.

  Theorem tensor_residual_update :
    @delta_eqps_res R NumR (fun e => DelT e + Yf e) (fun e => D2T e + dYf e) (Yf eo) mu tol (trial_mises mu E) eo
    = @delta_eqps_gen R NumR Yf dYf mu tol (trial_mises mu E) eo.
  Proof.
    rewrite delta_gen_res. f_equal.
    - apply functional_extensionality. intros e. rewrite DelT_closed. unfold resid, three. unfold_num. q2r. reflexivity.
    - apply functional_extensionality. intros e. rewrite D2T_closed. unfold dresid, three. unfold_num. q2r. reflexivity.
  Qed.
End TensorResidual.

(* the hypotheses of tensor_residual_update are satisfiable for every trial strain: the elastic part is a quadratic in eqps *)
Lemma tensor_residual_nonvacuous (mu eo : R) (E : @m9 R) :
  exists DelT D2T : R -> R, (forall e, is_derive (fun x => @elastic_along R NumR mu E eo x) e (DelT e)) /\ (forall e, is_derive DelT e (D2T e)).
Proof.
  exists (fun e => - trial_mises mu E + 3 * mu * (e - eo)), (fun _ => 3 * mu). split; intros e.
  - apply (is_derive_ext (fun x => mu * ddot (dev9 E) (dev9 E) - (x - eo) * trial_mises mu E + 3 / 2 * mu * ((x - eo) * (x - eo)))).
    + intros t. symmetry. apply elastic_along_R.
    + generalize (trial_mises mu E) (ddot (dev9 E) (dev9 E)). intros s q. auto_derive; [trivial|field].
  - generalize (trial_mises mu E). intros s. auto_derive; [trivial|ring].
Qed.

(* ---------- small algebra on flat 3x3 ---------- *)
Lemma tr9_add9 (a b : @m9 R) : tr9 (add9 a b) = tr9 a + tr9 b.
Proof.
  destruct a as [[[[[[[[a0 a1] a2] a3] a4] a5] a6] a7] a8]. destruct b as [[[[[[[[b0 b1] b2] b3] b4] b5] b6] b7] b8].
  unfold tr9, add9. unfold_num. ring.
Qed.
Lemma tr9_smul9 (k : R) (a : @m9 R) : tr9 (smul9 k a) = k * tr9 a.
Proof. destruct a as [[[[[[[[a0 a1] a2] a3] a4] a5] a6] a7] a8]. unfold tr9, smul9. unfold_num. ring. Qed.

(* ---------- the update step at tensor level ---------- *)
Definition rate_admissible (r : @rate R) : Prop :=
  match r with NoRate => True | Rate Sr m ed0 => 0 <= Sr /\ 0 < m /\ 0 < ed0 end.

Lemma delta_nonneg_laws (l : @law R) (r : @rate R) mu s eo dt d : 0 < mu -> law_admissible l eo -> rate_admissible r -> 0 < dt ->
  @delta_eqps R NumR l r mu s eo dt = Some d -> 0 <= d.
Proof.
  intros Hmu Ha Hr Hdt H. destruct r as [|Sr m ed0].
  - exact (proj1 (delta_eqps_norate_spec l mu s eo dt d Hmu Ha H)).
  - destruct Hr as (HS & Hm & Hed). exact (proj1 (delta_eqps_rate_laws l Sr m ed0 mu s eo dt d Hmu Ha HS Hm Hdt Hed H)).
Qed.

Lemma state_new_add_spec (Ef : @m9 R -> @tstate R -> @m9 R) (l : @law R) (r : @rate R) mu dt H (st st' : @tstate R) :
  @state_new_add R NumR Ef l r mu dt H st = Some st' ->
  exists d, @delta_eqps R NumR l r mu (trial_mises mu (Ef H st)) (fst st) dt = Some d /\
            st' = (fst st + d, add9 (snd st) (smul9 d (flowdir (Ef H st)))).
Proof.
  unfold state_new_add, state_increment.
  destruct (delta_eqps l r mu (trial_mises mu (Ef H st)) (fst st) dt) as [d|]; [|discriminate].
  intros E. inversion E. exists d. split; reflexivity.
Qed.

(* one step: eqps does not decrease, the trace of the plastic strain is unchanged (exactly isochoric, no assumption) *)
Theorem add_step_invariants (Ef : @m9 R -> @tstate R -> @m9 R) (l : @law R) (r : @rate R) mu dt H (st st' : @tstate R) :
  0 < mu -> law_admissible l (fst st) -> rate_admissible r -> 0 < dt ->
  @state_new_add R NumR Ef l r mu dt H st = Some st' -> fst st <= fst st' /\ tr9 (snd st') = tr9 (snd st).
Proof.
  intros Hmu Ha Hr Hdt E. destruct (state_new_add_spec Ef l r mu dt H st st' E) as (d & Hd & ->). cbn [fst snd].
  pose proof (delta_nonneg_laws l r mu _ _ dt d Hmu Ha Hr Hdt Hd). split; [lra|].
  rewrite tr9_add9, tr9_smul9. destruct (flow_direction_props (Ef H st)) as (-> & _). ring.
Qed.

(* along ANY history of (displacement gradient, time step): eqps is non-decreasing and the plastic strain keeps its trace *)
Theorem history_add_invariants (Ef : @m9 R -> @tstate R -> @m9 R) (l : @law R) (r : @rate R) mu : 0 < mu -> rate_admissible r ->
  forall (steps : list (@m9 R * R)) (st : @tstate R) sts, law_admissible l (fst st) -> List.Forall (fun p => 0 < snd p) steps ->
  @history_add R NumR Ef l r mu steps st = Some sts ->
  forall k, (k < length sts)%nat ->
    fst (nth k (st :: sts) st) <= fst (nth (S k) (st :: sts) st) /\ tr9 (snd (nth (S k) (st :: sts) st)) = tr9 (snd st).
Proof.
  intros Hmu Hr. induction steps as [|[H dt] rest IH]; intros st sts Ha Hdts E k Hk; cbn [history_add] in E.
  - inversion E; subst sts. inversion Hk.
  - destruct (state_new_add Ef l r mu dt H st) as [st'|] eqn:E1; [|discriminate].
    destruct (history_add Ef l r mu rest st') as [sts'|] eqn:E2; [|discriminate].
    inversion E; subst sts; clear E. inversion Hdts as [|p ps Hdt Hrest]; subst. cbn [snd] in Hdt.
    destruct (add_step_invariants Ef l r mu dt H st st' Hmu Ha Hr Hdt E1) as (Hm1 & Ht1).
    destruct k as [|k]; [cbn [nth]; split; assumption|].
    assert (Ha' : law_admissible l (fst st')) by (apply (admissible_later l (fst st)); assumption).
    cbn [length] in Hk. assert (Hk' : (k < length sts')%nat) by lia.
    destruct (IH st' sts' Ha' Hrest E2 k Hk') as (A & B).
    assert (Hn1 : nth (S k) (st :: st' :: sts') st = nth k (st' :: sts') st') by (change (nth (S k) (st :: st' :: sts') st) with (nth k (st' :: sts') st); apply nth_indep; cbn [length]; lia).
    assert (Hn2 : nth (S (S k)) (st :: st' :: sts') st = nth (S k) (st' :: sts') st') by (change (nth (S (S k)) (st :: st' :: sts') st) with (nth (S k) (st' :: sts') st); apply nth_indep; cbn [length]; lia).
    rewrite Hn1, Hn2. split; [exact A|]. rewrite B. exact Ht1.
Qed.

(* ---------- committing the state ---------- *)
(* the code's flow-direction threshold is not triggered *)
Definition nondegenerate (E : @m9 R) : Prop := 1 / 10000000000000000 < ddot (dev9 E) (dev9 E).

Lemma flowdir_of (E : @m9 R) : nondegenerate E ->
  flowdir E = smul9 (sqrt (3 / 2) / sqrt (ddot (dev9 E) (dev9 E))) (dev9 E).
Proof.
  destruct E as [[[[[[[[a0 a1] a2] a3] a4] a5] a6] a7] a8].
  unfold nondegenerate, flowdir, compute_flow_direction, dev9, dev, deviator, t_trace, ddot, smul9. unfold_num. q2r. intros Hg.
  match goal with |- context [Rltb ?a ?b] => destruct (Rltb a b) eqn:Eb; [apply Rltb_true in Eb|apply Rltb_false in Eb] end.
  - reflexivity.
  - exfalso. lra.
Qed.

Lemma dev9_axpy (c k : R) (E : @m9 R) : dev9 (axpy9 c (smul9 k (dev9 E)) E) = smul9 (1 - c * k) (dev9 E).
Proof.
  destruct E as [[[[[[[[a0 a1] a2] a3] a4] a5] a6] a7] a8].
  unfold dev9, axpy9, smul9, dev, deviator, t_trace. unfold_num. q2r. apply m9_eq; field.
Qed.
Lemma ddot_smul9 (a b : R) (X : @m9 R) : ddot (smul9 a X) (smul9 b X) = a * b * ddot X X.
Proof. destruct X as [[[[[[[[a0 a1] a2] a3] a4] a5] a6] a7] a8]. unfold ddot, smul9. unfold_num. ring. Qed.
Lemma smul9_smul9 (a b : R) (X : @m9 R) : smul9 a (smul9 b X) = smul9 (a * b) X.
Proof. destruct X as [[[[[[[[a0 a1] a2] a3] a4] a5] a6] a7] a8]. unfold smul9. unfold_num. apply m9_eq; ring. Qed.

Lemma trial_mises_of (mu : R) (E : @m9 R) : nondegenerate E ->
  trial_mises mu E = 2 * mu * sqrt (3 / 2) * sqrt (ddot (dev9 E) (dev9 E)).
Proof.
  intros Hg. unfold trial_mises. rewrite (flowdir_of E Hg). set (q := ddot (dev9 E) (dev9 E)). unfold nondegenerate in Hg. fold q in Hg.
  replace (dev9 E) with (smul9 1 (dev9 E)) at 1.
  2:{ destruct (dev9 E) as [[[[[[[[a0 a1] a2] a3] a4] a5] a6] a7] a8]. unfold smul9. unfold_num. apply m9_eq; ring. }
  rewrite ddot_smul9. fold q. unfold_num. q2r.
  assert (Hq : 0 < q) by lra. assert (Hs : sqrt q <> 0) by (apply Rgt_not_eq, sqrt_lt_R0; exact Hq).
  replace (1 * (sqrt (3 / 2) / sqrt q) * q) with (sqrt (3 / 2) / sqrt q * (sqrt q * sqrt q)) by (rewrite sqrt_sqrt by lra; ring).
  field. exact Hs.
Qed.

(* the trial state recomputed from the committed state has the same flow direction and the trial Mises stress s - 3 mu d *)
Lemma commit_direction (mu d : R) (E : @m9 R) : 0 < mu -> nondegenerate E -> nondegenerate (axpy9 d (flowdir E) E) ->
  0 < trial_mises mu E - 3 * mu * d ->
  flowdir (axpy9 d (flowdir E) E) = flowdir E /\ trial_mises mu (axpy9 d (flowdir E) E) = trial_mises mu E - 3 * mu * d.
Proof.
  intros Hmu Hg Hg' Hpos.
  pose proof (trial_mises_of mu E Hg) as Hs.
  set (q := ddot (dev9 E) (dev9 E)) in *. assert (Hq : 0 < q) by (unfold nondegenerate in Hg; fold q in Hg; lra).
  assert (Hsq : 0 < sqrt q) by (apply sqrt_lt_R0; exact Hq).
  assert (H32 : 0 < sqrt (3 / 2)) by (apply sqrt_lt_R0; lra).
  assert (H32s : sqrt (3 / 2) * sqrt (3 / 2) = 3 / 2) by (apply sqrt_sqrt; lra).
  set (k := sqrt (3 / 2) / sqrt q).
  assert (Hk : 0 < k) by (apply Rdiv_lt_0_compat; assumption).
  assert (HN : flowdir E = smul9 k (dev9 E)) by (apply flowdir_of; exact Hg).
  set (lam := 1 - d * k).
  assert (Hlam : trial_mises mu E - 3 * mu * d = lam * trial_mises mu E).
  { rewrite Hs. unfold lam, k. replace (3 * mu * d) with (2 * mu * (sqrt (3 / 2) * sqrt (3 / 2)) * d) by (rewrite H32s; field).
    field. lra. }
  assert (Hs0 : 0 < trial_mises mu E) by (rewrite Hs; repeat apply Rmult_lt_0_compat; lra).
  assert (Hl0 : 0 < lam).
  { destruct (Rlt_le_dec 0 lam) as [A|A]; [exact A|]. exfalso. rewrite Hlam in Hpos. nra. }
  assert (HD' : dev9 (axpy9 d (flowdir E) E) = smul9 lam (dev9 E)) by (rewrite HN; apply dev9_axpy).
  assert (Hq' : ddot (dev9 (axpy9 d (flowdir E) E)) (dev9 (axpy9 d (flowdir E) E)) = lam * lam * q) by (rewrite HD', ddot_smul9; reflexivity).
  assert (Hsq' : sqrt (lam * lam * q) = lam * sqrt q) by (rewrite sqrt_mult by nra; rewrite sqrt_square by lra; reflexivity).
  assert (HN' : flowdir (axpy9 d (flowdir E) E) = flowdir E).
  { rewrite (flowdir_of _ Hg'), Hq', HD', Hsq', smul9_smul9, HN. f_equal. unfold k. field. split; lra. }
  split; [exact HN'|].
  unfold trial_mises at 1. rewrite HN', HD', HN. rewrite Hlam. unfold trial_mises. rewrite HN.
  replace (dev9 E) with (smul9 1 (dev9 E)) at 3.
  2:{ destruct (dev9 E) as [[[[[[[[a0 a1] a2] a3] a4] a5] a6] a7] a8]. unfold smul9. unfold_num. apply m9_eq; ring. }
  rewrite !ddot_smul9. unfold_num. q2r. ring.
Qed.

Lemma strain_small_commit (H : @m9 R) (eo d : R) (Ep N : @m9 R) :
  strain_small H (eo + d, add9 Ep (smul9 d N)) = axpy9 d N (strain_small H (eo, Ep)).
Proof.
  destruct H as [[[[[[[[h0 h1] h2] h3] h4] h5] h6] h7] h8]. destruct Ep as [[[[[[[[p0 p1] p2] p3] p4] p5] p6] p7] p8].
  destruct N as [[[[[[[[n0 n1] n2] n3] n4] n5] n6] n7] n8].
  unfold strain_small, add9, smul9, axpy9, compute_elastic_linear_strain, sym. unfold_num. q2r. apply m9_eq; ring.
Qed.

Lemma axpy9_sub9 (d : R) (N E : @m9 R) : axpy9 d N E = sub9 E (smul9 d N).
Proof.
  destruct E as [[[[[[[[a0 a1] a2] a3] a4] a5] a6] a7] a8]. destruct N as [[[[[[[[n0 n1] n2] n3] n4] n5] n6] n7] n8].
  reflexivity.
Qed.
Lemma sub9_zero (N E : @m9 R) : sub9 E (smul9 0 N) = E.
Proof.
  destruct E as [[[[[[[[a0 a1] a2] a3] a4] a5] a6] a7] a8]. destruct N as [[[[[[[[n0 n1] n2] n3] n4] n5] n6] n7] n8].
  unfold sub9, smul9. unfold_num. apply m9_eq; ring.
Qed.
Lemma add9_zero (N E : @m9 R) : add9 E (smul9 0 N) = E.
Proof.
  destruct E as [[[[[[[[a0 a1] a2] a3] a4] a5] a6] a7] a8]. destruct N as [[[[[[[[n0 n1] n2] n3] n4] n5] n6] n7] n8].
  unfold add9, smul9. unfold_num. apply m9_eq; ring.
Qed.

(* the flow stress of an admissible law is at least Y0 for eqps >= 0 *)
Lemma admissible_flow_lower (l : @law R) e : law_admissible l 0 -> 0 <= e -> law_Y0 l <= @h_flow R NumR l e.
Proof.
  intros Ha He. pose proof (admissible_flow_monotone l 0 Ha 0 e (Rle_refl 0) He) as Hm.
  assert (H0 : @h_flow R NumR l 0 = law_Y0 l); [|lra].
  destruct l; cbn [h_flow law_Y0]; unfold npowr; unfold_num; q2r.
  - ring.
  - replace (- 0 / eps0) with 0 by (unfold Rdiv; ring). rewrite exp_0. ring.
  - cbn in Ha. replace (1 + 0 / eps0) with 1 by (unfold Rdiv; ring).
    replace (Reqb 1 0) with false by (symmetry; apply Reqb_false; lra). rewrite ln_1, Rmult_0_r, exp_0. ring.
Qed.

Lemma tolY_small (l : @law R) : 0 < law_Y0 l -> @tolY R NumR l < law_Y0 l.
Proof. intros H. unfold tolY, c__TOLERANCE. unfold_num. q2r. nra. Qed.

(* rate-independent laws, small-deformation kinematics: after committing the updated state, at the same displacement gradient
   (i) the elastic trial strain is the elastic strain the update produced, (ii) the stress is on or inside the yield surface in
   tensor terms, (iii) the update changes nothing, (iv) the energy density is the same as before committing *)
Definition additive_strain (Ef : @m9 R -> @tstate R -> @m9 R) : Prop :=
  forall H eo d Ep N, Ef H (eo + d, add9 Ep (smul9 d N)) = axpy9 d N (Ef H (eo, Ep)).

Theorem commit_invariance_add (Ef : @m9 R -> @tstate R -> @m9 R) (l : @law R) mu kappa dt dt' H (st st' : @tstate R) :
  additive_strain Ef ->
  0 < mu -> law_admissible l 0 -> 0 < law_Y0 l -> 0 <= fst st ->
  nondegenerate (Ef H st) -> nondegenerate (Ef H st') ->
  @state_new_add R NumR Ef l NoRate mu dt H st = Some st' ->
  Ef H st' = sub9 (Ef H st) (smul9 (fst st' - fst st) (flowdir (Ef H st))) /\
  trial_mises mu (Ef H st') - @h_flow R NumR l (fst st') <= @tolY R NumR l /\
  @state_new_add R NumR Ef l NoRate mu dt' H st' = Some st' /\
  @energy_add R NumR Ef l NoRate mu kappa dt' H st' = @energy_add R NumR Ef l NoRate mu kappa dt H st.
Proof.
  intros HEf Hmu Ha0 HY0 He0 Hg Hg' E.
  destruct (state_new_add_spec Ef l NoRate mu dt H st st' E) as (d & Hd & ->). destruct st as [eo Ep]. cbn [fst snd] in *.
  set (Etr := Ef H (eo, Ep)) in *. set (N := flowdir Etr) in *. set (s := trial_mises mu Etr) in *.
  assert (Ha : law_admissible l eo) by (apply (admissible_later l 0); assumption).
  destruct (delta_eqps_norate_spec l mu s eo dt d Hmu Ha Hd) as (Hd0 & Hyc & Hyc2 & Hid).
  assert (HE' : Ef H (eo + d, add9 Ep (smul9 d N)) = axpy9 d N Etr) by apply HEf.
  assert (Hpos : 0 < s - 3 * mu * d).
  { destruct Hd0 as [Hdp| <-].
    - pose proof (Hyc2 Hdp) as A. apply Rabs_le_between in A.
      pose proof (admissible_flow_lower l (eo + d) Ha0 ltac:(lra)). pose proof (tolY_small l HY0). lra.
    - rewrite Rmult_0_r, Rminus_0_r. unfold s. rewrite (trial_mises_of mu Etr Hg).
      assert (0 < sqrt (3 / 2)) by (apply sqrt_lt_R0; lra).
      assert (0 < sqrt (ddot (dev9 Etr) (dev9 Etr))) by (apply sqrt_lt_R0; unfold nondegenerate in Hg; lra).
      repeat apply Rmult_lt_0_compat; lra. }
  rewrite HE' in Hg'.
  destruct (commit_direction mu d Etr Hmu Hg Hg' Hpos) as (HN' & Hs'). fold N in HN', Hs'. fold s in Hs'.
  replace (eo + d - eo) with d by ring.
  split; [rewrite HE'; apply axpy9_sub9|].
  split; [rewrite HE', Hs'; exact Hyc|].
  assert (Hinc : @state_increment R NumR l NoRate mu dt' (axpy9 d N Etr) (eo + d) = Some (0, smul9 0 N)).
  { unfold state_increment. rewrite HN', Hs'.
    assert (Hid' : @delta_eqps R NumR l NoRate mu (s - 3 * mu * d) (eo + d) dt' = Some 0) by exact Hid.
    rewrite Hid'. reflexivity. }
  split.
  - unfold state_new_add. cbn [fst snd]. rewrite HE', Hinc. unfold_num. rewrite add9_zero. f_equal. f_equal. ring.
  - unfold energy_add. cbn [fst snd]. rewrite HE', Hinc. fold Etr.
    unfold state_increment. fold N. fold s. rewrite Hd.
    rewrite sub9_zero, <- axpy9_sub9. unfold_num.
    replace (eo + d + 0) with (eo + d) by ring. reflexivity.
Qed.

(* ---------- the two kinematics with an additive state update ---------- *)
Lemma strain_small_additive : additive_strain (@strain_small R NumR).
Proof. intros H eo d Ep N. apply strain_small_commit. Qed.

Lemma strain_seth_hill_additive (pw : R -> R -> R -> R -> R -> R -> R -> R -> R -> R -> @m9 R) : additive_strain (@strain_seth_hill R NumR pw).
Proof.
  intros H eo d Ep N.
  destruct H as [[[[[[[[h0 h1] h2] h3] h4] h5] h6] h7] h8]. destruct Ep as [[[[[[[[p0 p1] p2] p3] p4] p5] p6] p7] p8].
  destruct N as [[[[[[[[n0 n1] n2] n3] n4] n5] n6] n7] n8].
  unfold strain_seth_hill, add9, smul9, axpy9, compute_elastic_seth_hill_strain. cbv zeta.
  match goal with |- context [pw ?a0 ?a1 ?a2 ?a3 ?a4 ?a5 ?a6 ?a7 ?a8 ?a9] => destruct (pw a0 a1 a2 a3 a4 a5 a6 a7 a8 a9) as [[[[[[[[q0 q1] q2] q3] q4] q5] q6] q7] q8] end.
  unfold_num. q2r. apply m9_eq; field.
Qed.

Theorem tensor_history_invariants (l : @law R) (r : @rate R) mu : 0 < mu -> rate_admissible r ->
  forall (steps : list (@m9 R * R)) (st : @tstate R) sts, law_admissible l (fst st) -> List.Forall (fun p => 0 < snd p) steps ->
  @tensor_history R NumR l r mu steps st = Some sts ->
  forall k, (k < length sts)%nat ->
    fst (nth k (st :: sts) st) <= fst (nth (S k) (st :: sts) st) /\ tr9 (snd (nth (S k) (st :: sts) st)) = tr9 (snd st).
Proof. exact (history_add_invariants strain_small l r mu). Qed.

Theorem commit_invariance_small (l : @law R) mu kappa dt dt' H (st st' : @tstate R) :
  0 < mu -> law_admissible l 0 -> 0 < law_Y0 l -> 0 <= fst st ->
  nondegenerate (strain_small H st) -> nondegenerate (strain_small H st') ->
  @state_new_small R NumR l NoRate mu dt H st = Some st' ->
  strain_small H st' = sub9 (strain_small H st) (smul9 (fst st' - fst st) (flowdir (strain_small H st))) /\
  trial_mises mu (strain_small H st') - @h_flow R NumR l (fst st') <= @tolY R NumR l /\
  @state_new_small R NumR l NoRate mu dt' H st' = Some st' /\
  @energy_small R NumR l NoRate mu kappa dt' H st' = @energy_small R NumR l NoRate mu kappa dt H st.
Proof. exact (commit_invariance_add strain_small l mu kappa dt dt' H st st' strain_small_additive). Qed.

(* 'seth hill' kinematics, TensorMath.pow_symm an arbitrary function: same invariants, same commit invariance *)
Theorem seth_hill_history_invariants pw (l : @law R) (r : @rate R) mu : 0 < mu -> rate_admissible r ->
  forall (steps : list (@m9 R * R)) (st : @tstate R) sts, law_admissible l (fst st) -> List.Forall (fun p => 0 < snd p) steps ->
  @history_add R NumR (strain_seth_hill pw) l r mu steps st = Some sts ->
  forall k, (k < length sts)%nat ->
    fst (nth k (st :: sts) st) <= fst (nth (S k) (st :: sts) st) /\ tr9 (snd (nth (S k) (st :: sts) st)) = tr9 (snd st).
Proof. exact (history_add_invariants (strain_seth_hill pw) l r mu). Qed.

Theorem commit_invariance_seth_hill pw (l : @law R) mu kappa dt dt' H (st st' : @tstate R) :
  0 < mu -> law_admissible l 0 -> 0 < law_Y0 l -> 0 <= fst st ->
  nondegenerate (strain_seth_hill pw H st) -> nondegenerate (strain_seth_hill pw H st') ->
  @state_new_add R NumR (strain_seth_hill pw) l NoRate mu dt H st = Some st' ->
  strain_seth_hill pw H st' = sub9 (strain_seth_hill pw H st) (smul9 (fst st' - fst st) (flowdir (strain_seth_hill pw H st))) /\
  trial_mises mu (strain_seth_hill pw H st') - @h_flow R NumR l (fst st') <= @tolY R NumR l /\
  @state_new_add R NumR (strain_seth_hill pw) l NoRate mu dt' H st' = Some st' /\
  @energy_add R NumR (strain_seth_hill pw) l NoRate mu kappa dt' H st' = @energy_add R NumR (strain_seth_hill pw) l NoRate mu kappa dt H st.
Proof. exact (commit_invariance_add (strain_seth_hill pw) l mu kappa dt dt' H st st' (strain_seth_hill_additive pw)). Qed.

(* non-vacuity of the guards and of the step *)
Lemma nonvacuous_C09_tensor :
  nondegenerate (1, 0, 0, 0, 0, 0, 0, 0, 0) /\ law_admissible (Linear 1 2) 0 /\ rate_admissible (Rate 1 2 3) /\
  @state_new_small R NumR (Linear 1 2) NoRate 1 1 (0, 0, 0, 0, 0, 0, 0, 0, 0) (0, (0, 0, 0, 0, 0, 0, 0, 0, 0))
  = Some (0 + 0, add9 (0, 0, 0, 0, 0, 0, 0, 0, 0) (smul9 0 (flowdir (strain_small (0, 0, 0, 0, 0, 0, 0, 0, 0) (0, (0, 0, 0, 0, 0, 0, 0, 0, 0)))))).
Proof.
  split; [|split; [|split]].
  - unfold nondegenerate, ddot, dev9, dev, deviator, t_trace. unfold_num. q2r. lra.
  - cbn. lra.
  - cbn. lra.
  - unfold state_new_small, state_new_add, state_increment. cbn [fst snd].
    set (E0 := strain_small _ _).
    assert (Hd : @delta_eqps R NumR (Linear 1 2) NoRate 1 (trial_mises 1 E0) 0 1 = Some 0).
    { unfold delta_eqps, delta_eqps_gen, is_yielding. cbn [h_flow k_flow]. unfold tolY, c__TOLERANCE, law_Y0.
      assert (Hs : trial_mises 1 E0 = 0).
      { unfold E0, trial_mises, strain_small, compute_elastic_linear_strain, sym, flowdir, compute_flow_direction, dev9, dev, deviator, t_trace, ddot.
        unfold_num. q2r. match goal with |- context [Rltb ?a ?b] => destruct (Rltb a b) end; lra. }
      rewrite Hs. unfold_num. q2r.
      match goal with |- context [Rltb ?a ?b] => replace (Rltb a b) with false by (symmetry; apply Rltb_false; lra) end. reflexivity. }
    rewrite Hd. unfold_num. reflexivity.
Qed.
