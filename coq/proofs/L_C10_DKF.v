(* C10: Daleckii-Krein for a GENERAL scalar function f given by a derivative hypothesis (is_derive f (lam_k) (df lam_k) at the three
   eigenvalues), non-diagonal argument, eigenvalues distinct or not.  The matrix function along a differentiable path A(t) is
   V(t) diag(f(lam(t))) V(t)^T for an eigen-decomposition (lam(t), V(t)) of A(t) that is differentiable at t = 0 (its existence is the
   analytic hypothesis -- Rellich's theorem for the line A + t S -- and is NOT proved here); by L_C10_Inv.primal_invariant the value does not
   depend on the decomposition.  Its derivative at t = 0 is, entry by entry, what the JVP helper returns for ANY eigen-pair (lam, V) of A(0)
   satisfying the eigh contract, with A'(0) = sym(Cdot). *)
From Coq Require Import Reals Lra Lia Bool Arith List.
From Coquelicot Require Import Coquelicot.
From OV.base Require Import Num.
From OV.model Require Import M_C10.
From OV.proofs Require Import L_C10 L_C10_DK L_C10_DKV.
From OV.proofs Require Import L_C10_Inv.
Local Open Scope R_scope.

Lemma s3_derive3 (g : R -> nat -> R) (dg : nat -> R) x :
  (forall k, (k < 3)%nat -> is_derive (fun t => g t k) x (dg k)) -> is_derive (fun t => s3 (g t)) x (s3 dg).
Proof.
  intros H. unfold s3.
  apply (is_derive_plus (V := R_NormedModule)); [apply (is_derive_plus (V := R_NormedModule))|]; apply H; lia.
Qed.

(* derivative of the sandwich V(t) diag(g(t)) V(t)^T *)
Lemma sandwich_derive (Vt : R -> Rm) (g : R -> nat -> R) (dV : Rm) (dg : nat -> R) i j : (i < 3)%nat -> (j < 3)%nat ->
  (forall a k, (a < 3)%nat -> (k < 3)%nat -> is_derive (fun t => Vt t a k) 0 (dV a k)) ->
  (forall k, (k < 3)%nat -> is_derive (fun t => g t k) 0 (dg k)) ->
  is_derive (fun t => cj (Vt t) (Dg (g t)) i j) 0
    (s3 (fun k => dV i k * g 0 k * Vt 0 j k + Vt 0 i k * dg k * Vt 0 j k + Vt 0 i k * g 0 k * dV j k)).
Proof.
  intros Hi Hj HV Hg.
  assert (EQ : forall t : R, s3 (fun k => Vt t i k * g t k * Vt t j k) = cj (Vt t) (Dg (g t)) i j).
  { intros t. unfold cj, mm, s3, tr, Dg; cbn [Nat.eqb]. ring. }
  apply (is_derive_ext _ _ _ _ EQ).
  apply (s3_derive3 (fun t k => Vt t i k * g t k * Vt t j k)). intros k Hk.
  evar_last.
  - apply (is_derive_mult (fun t => Vt t i k * g t k) (fun t => Vt t j k) 0 (dV i k * g 0 k + Vt 0 i k * dg k) (dV j k)).
    + apply (is_derive_mult (fun t => Vt t i k) (fun t => g t k) 0 (dV i k) (dg k));
        [apply HV; assumption|apply Hg; assumption|intros a b; apply Rmult_comm].
    + apply HV; assumption.
    + intros a b. apply Rmult_comm.
  - unfold plus, mult; simpl. ring.
Qed.

Section Path.
  Variables (f df : R -> R) (At Vt : R -> Rm) (lt : R -> nat -> R) (dV S : Rm) (dl : nat -> R).
  Hypothesis HV : forall a k, (a < 3)%nat -> (k < 3)%nat -> is_derive (fun t => Vt t a k) 0 (dV a k).
  Hypothesis HLD : forall k, (k < 3)%nat -> is_derive (fun t => lt t k) 0 (dl k).
  Hypothesis Hloc : locally 0 (fun t => orth (Vt t) /\ eq3 (At t) (cj (Vt t) (Dg (lt t)))).
  Hypothesis HA : forall i j, (i < 3)%nat -> (j < 3)%nat -> is_derive (fun t => At t i j) 0 (S i j).
  Hypothesis Hf : forall k, (k < 3)%nat -> is_derive f (lt 0 k) (df (lt 0 k)).

  Let V0 := Vt 0.
  Let L := lt 0.
  Let Om : Rm := fun k l => s3 (fun a => V0 a k * dV a l).       (* V^T V' *)

  Lemma path_orth0 : orth V0 /\ eq3 (At 0) (cj V0 (Dg L)).
  Proof. exact (locally_singleton _ _ Hloc). Qed.

  (* A'(0) = V' L V^T + V L' V^T + V L V'^T *)
  Lemma path_S i j : (i < 3)%nat -> (j < 3)%nat ->
    S i j = s3 (fun k => dV i k * L k * V0 j k + V0 i k * dl k * V0 j k + V0 i k * L k * dV j k).
  Proof.
    intros Hi Hj.
    assert (D1 : is_derive (fun t => At t i j) 0 (s3 (fun k => dV i k * L k * V0 j k + V0 i k * dl k * V0 j k + V0 i k * L k * dV j k))).
    { apply is_derive_ext_loc with (f := fun t => cj (Vt t) (Dg (lt t)) i j).
      - revert Hloc. apply filter_imp. intros t [_ E]. symmetry. apply E; assumption.
      - apply (sandwich_derive Vt lt dV dl i j Hi Hj HV HLD). }
    pose proof (is_derive_unique _ _ _ (HA i j Hi Hj)) as U1. pose proof (is_derive_unique _ _ _ D1) as U2.
    rewrite <- U1, U2. reflexivity.
  Qed.

  (* V^T V = I along the path: V^T V' is skew *)
  Lemma path_skew k l : (k < 3)%nat -> (l < 3)%nat -> Om l k = - Om k l.
  Proof.
    intros Hk Hl3.
    assert (D1 : is_derive (fun t => mm (tr (Vt t)) (Vt t) k l) 0 (s3 (fun a => dV a k * V0 a l + V0 a k * dV a l))).
    { apply is_derive_ext with (f := fun t => s3 (fun a => Vt t a k * Vt t a l)); [intros t; reflexivity|].
      apply (s3_derive3 (fun t a => Vt t a k * Vt t a l)). intros a Ha. evar_last.
      - apply (is_derive_mult (fun t => Vt t a k) (fun t => Vt t a l) 0 (dV a k) (dV a l));
          [apply HV; assumption|apply HV; assumption|intros x y; apply Rmult_comm].
      - unfold plus, mult; simpl. reflexivity. }
    assert (D0 : is_derive (fun t => mm (tr (Vt t)) (Vt t) k l) 0 0).
    { apply is_derive_ext_loc with (f := fun _ : R => I3 k l).
      - revert Hloc. apply filter_imp. intros t [[O _] _]. symmetry. apply O; assumption.
      - apply (is_derive_const (V := R_NormedModule)). }
    pose proof (is_derive_unique _ _ _ D1) as U1. pose proof (is_derive_unique _ _ _ D0) as U0.
    rewrite U1 in U0. unfold Om. unfold s3 in *. lra.
  Qed.

  (* V^T A'(0) V = Om L - L Om + L' *)
  Lemma path_W k l : (k < 3)%nat -> (l < 3)%nat ->
    cj (tr V0) S k l = Om k l * L l + L k * Om l k + I3 k l * dl k.
  Proof.
    intros Hk Hl3. destruct path_orth0 as [[HO _] _].
    rewrite (cj_ext3 (tr V0) S (fun i j => s3 (fun c => dV i c * L c * V0 j c + V0 i c * dl c * V0 j c + V0 i c * L c * dV j c)) k l)
      by (intros i j Hi Hj; apply path_S; assumption).
    transitivity (s3 (fun c => Om k c * L c * mm (tr V0) V0 c l) + s3 (fun c => mm (tr V0) V0 k c * dl c * mm (tr V0) V0 c l)
                  + s3 (fun c => mm (tr V0) V0 k c * L c * Om l c)).
    { unfold Om, cj, mm, s3, tr. ring. }
    unfold s3. rewrite (HO k 0%nat), (HO k 1%nat), (HO k 2%nat), (HO 0%nat l), (HO 1%nat l), (HO 2%nat l) by lia.
    destruct k as [|[|[|k]]]; try lia; destruct l as [|[|[|l]]]; try lia; unfold I3; cbn [Nat.eqb]; ring.
  Qed.

  Let M : Rm := fun k l => Om k l * f (L l) + f (L k) * Om l k + I3 k l * (df (L k) * dl k).

  (* the Hadamard product with the guarded divided differences turns Om L - L Om + L' into Om f(L) - f(L) Om + f'(L) L':
     on a pair of coinciding eigenvalues both are zero off the diagonal, whatever df is there *)
  Lemma path_entry k l : (k < 3)%nat -> (l < 3)%nat -> DDf f df (L k) (L l) * cj (tr V0) S k l = M k l.
  Proof.
    intros Hk Hl3. rewrite (path_W k l Hk Hl3). unfold M. rewrite (path_skew k l Hk Hl3). unfold DDf, I3.
    destruct (Nat.eqb_spec k l) as [E|N].
    - subst l. destruct (Req_EM_T (L k) (L k)); [|contradiction]. ring.
    - destruct (Req_EM_T (L k) (L l)) as [E|NE].
      + rewrite E. ring.
      + field. intro Z. apply NE. lra.
  Qed.

  Lemma path_assemble i j : (i < 3)%nat -> (j < 3)%nat ->
    cj V0 M i j = s3 (fun k => dV i k * f (L k) * V0 j k + V0 i k * (df (L k) * dl k) * V0 j k + V0 i k * f (L k) * dV j k).
  Proof.
    intros Hi Hj. destruct path_orth0 as [[_ HO] _].
    transitivity (s3 (fun l => s3 (fun a => mm V0 (tr V0) i a * dV a l) * f (L l) * V0 j l)
                  + s3 (fun k => V0 i k * f (L k) * s3 (fun a => mm V0 (tr V0) j a * dV a k))
                  + s3 (fun k => V0 i k * (df (L k) * dl k) * V0 j k)).
    { unfold M, Om, cj, mm, s3, tr, I3; cbn [Nat.eqb]. ring. }
    unfold s3. rewrite (HO i 0%nat), (HO i 1%nat), (HO i 2%nat) by lia.
    rewrite ?(HO j 0%nat), ?(HO j 1%nat), ?(HO j 2%nat) by lia.
    destruct i as [|[|[|i]]]; try lia; destruct j as [|[|[|j]]]; try lia; unfold I3; cbn [Nat.eqb]; ring.
  Qed.

  Lemma path_derive_spectral i j : (i < 3)%nat -> (j < 3)%nat ->
    is_derive (fun t => cj (Vt t) (Dg (fun k => f (lt t k))) i j) 0
              (cj V0 (fun k l => DDf f df (L k) (L l) * cj (tr V0) S k l) i j).
  Proof.
    intros Hi Hj.
    rewrite (cj_ext3 V0 _ M i j) by (intros k l Hk Hl3; apply path_entry; assumption).
    rewrite (path_assemble i j Hi Hj).
    apply (sandwich_derive Vt (fun t k => f (lt t k)) dV (fun k => df (L k) * dl k) i j Hi Hj HV).
    intros k Hk. evar_last.
    - apply (is_derive_comp f (fun t => lt t k) 0 (df (L k)) (dl k)); [apply Hf; assumption|apply HLD; assumption].
    - unfold scal; simpl; unfold mult; simpl. ring.
  Qed.
End Path.

(* Daleckii-Krein along a differentiable path, general f, any eigen-pair (lam, V) of A(0) in the helper *)
Lemma daleckii_krein_path (f df : R -> R) rel lam (V E : Rm) (At Vt : R -> Rm) (lt : R -> nat -> R) (dV : Rm) (dl : nat -> R) i j :
  (i < 3)%nat -> (j < 3)%nat ->
  orth V -> eq3 (At 0) (cj V (Dg lam)) ->
  (forall a b, a <> b -> rel a b = (f a - f b) / (a - b)) ->
  (forall a b, (a < 3)%nat -> (b < 3)%nat -> is_derive (fun t => At t a b) 0 (symd E a b)) ->
  locally 0 (fun t => orth (Vt t) /\ eq3 (At t) (cj (Vt t) (Dg (lt t)))) ->
  (forall a k, (a < 3)%nat -> (k < 3)%nat -> is_derive (fun t => Vt t a k) 0 (dV a k)) ->
  (forall k, (k < 3)%nat -> is_derive (fun t => lt t k) 0 (dl k)) ->
  (forall k, (k < 3)%nat -> is_derive f (lt 0 k) (df (lt 0 k))) ->
  is_derive (fun t => cj (Vt t) (Dg (fun k => f (lt t k))) i j) 0 (@jvp_helper R NumR df rel lam V E i j).
Proof.
  intros Hi Hj HO HA0 Hrel HdA Hloc HV Hl Hf.
  rewrite (helper_spectral f df rel lam V E i j Hi Hj Hrel).
  destruct (path_orth0 At Vt lt Hloc) as [O0 A0].
  rewrite (spectral_hadamard_invariant (DDf f df) (Vt 0) (lt 0) V lam (At 0) (symd E) O0 HO A0 HA0 i j Hi Hj).
  apply (path_derive_spectral f df At Vt lt dV (symd E) dl HV Hl Hloc HdA Hf i j Hi Hj).
Qed.

(* ... along the line A + t sym(Cdot) *)
Lemma daleckii_krein_eigenpath (f df : R -> R) rel lam (V A E : Rm) (Vt : R -> Rm) (lt : R -> nat -> R) (dV : Rm) (dl : nat -> R) i j :
  (i < 3)%nat -> (j < 3)%nat ->
  orth V -> eq3 A (cj V (Dg lam)) ->
  (forall a b, a <> b -> rel a b = (f a - f b) / (a - b)) ->
  locally 0 (fun t => orth (Vt t) /\ eq3 (line A (symd E) t) (cj (Vt t) (Dg (lt t)))) ->
  (forall a k, (a < 3)%nat -> (k < 3)%nat -> is_derive (fun t => Vt t a k) 0 (dV a k)) ->
  (forall k, (k < 3)%nat -> is_derive (fun t => lt t k) 0 (dl k)) ->
  (forall k, (k < 3)%nat -> is_derive f (lt 0 k) (df (lt 0 k))) ->
  is_derive (fun t => cj (Vt t) (Dg (fun k => f (lt t k))) i j) 0 (@jvp_helper R NumR df rel lam V E i j).
Proof.
  intros Hi Hj HO HA Hrel Hloc HV Hl Hf.
  apply (daleckii_krein_path f df rel lam V E (line A (symd E)) Vt lt dV dl i j); try assumption.
  - intros a b Ha Hb. unfold line. rewrite <- (HA a b Ha Hb). ring.
  - intros a b Ha Hb. unfold line. auto_derive; [exact I|ring].
Qed.

(* ... and for the primal exactly as symmetric_matrix_function computes it: ANY eigen-solver `eig` (returning (lam, V)) that satisfies the
   eigh contract along the line; no regularity of eig itself is assumed (it may permute eigenvalues or rotate eigenspaces erratically):
   only that SOME eigen-decomposition of the line is differentiable at t = 0 *)
Lemma daleckii_krein_eigh_solver (eig : Rm -> (nat -> R) * Rm) (f df : R -> R) rel (A E : Rm)
      (Vt : R -> Rm) (lt : R -> nat -> R) (dV : Rm) (dl : nat -> R) i j :
  (i < 3)%nat -> (j < 3)%nat ->
  locally 0 (fun t => orth (snd (eig (line A (symd E) t)))
                      /\ eq3 (line A (symd E) t) (cj (snd (eig (line A (symd E) t))) (Dg (fst (eig (line A (symd E) t)))))) ->
  (forall a b, a <> b -> rel a b = (f a - f b) / (a - b)) ->
  locally 0 (fun t => orth (Vt t) /\ eq3 (line A (symd E) t) (cj (Vt t) (Dg (lt t)))) ->
  (forall a k, (a < 3)%nat -> (k < 3)%nat -> is_derive (fun t => Vt t a k) 0 (dV a k)) ->
  (forall k, (k < 3)%nat -> is_derive (fun t => lt t k) 0 (dl k)) ->
  (forall k, (k < 3)%nat -> is_derive f (lt 0 k) (df (lt 0 k))) ->
  is_derive (fun t => cj (snd (eig (line A (symd E) t))) (Dg (fun k => f (fst (eig (line A (symd E) t)) k))) i j) 0
            (@jvp_helper R NumR df rel (fst (eig (line A (symd E) 0))) (snd (eig (line A (symd E) 0))) E i j).
Proof.
  intros Hi Hj Heig Hrel Hloc HV Hl Hf.
  destruct (locally_singleton _ _ Heig) as [O0 A0].
  apply is_derive_ext_loc with (f := fun t => cj (Vt t) (Dg (fun k => f (lt t k))) i j).
  - generalize (filter_and _ _ Heig Hloc). apply filter_imp. intros t [[O1 A1] [O2 A2]].
    apply (primal_invariant f (snd (eig (line A (symd E) t))) (fst (eig (line A (symd E) t))) (Vt t) (lt t) (line A (symd E) t)); assumption.
  - apply (daleckii_krein_path f df rel _ _ E (line A (symd E)) Vt lt dV dl i j); try assumption.
    intros a b Ha Hb. unfold line. auto_derive; [exact I|ring].
Qed.

(* ------------------------------------------------------------------ non-vacuity: a path whose eigenvectors genuinely rotate:
   V(t) = rotation by the angle t in the (0,1) plane, lam(t) = (1 + t, 2, 3), A(t) = V(t) diag(lam(t)) V(t)^T; V^T V' <> 0 *)
Definition Vrott (t : R) : Rm := fun i j =>
  match i, j with
  | 0%nat, 0%nat => cos t | 0%nat, 1%nat => - sin t | 1%nat, 0%nat => sin t | 1%nat, 1%nat => cos t | 2%nat, 2%nat => 1 | _, _ => 0
  end.
Definition lrott (t : R) : nat -> R := fun k => match k with 0%nat => 1 + t | 1%nat => 2 | _ => 3 end.
Definition dVrot : Rm := fun i j => match i, j with 0%nat, 1%nat => - 1 | 1%nat, 0%nat => 1 | _, _ => 0 end.
Definition dlrot : nat -> R := fun k => match k with 0%nat => 1 | _ => 0 end.

Lemma orth_Vrott t : orth (Vrott t).
Proof.
  pose proof (sin2_cos2 t) as H. unfold Rsqr in H.
  split; intros i j Hi Hj; destruct i as [|[|[|i]]]; try lia; destruct j as [|[|[|j]]]; try lia;
    unfold mm, s3, tr, Vrott, I3; cbn [Nat.eqb]; nra.
Qed.

Lemma dkf_nonvacuous :
  (forall t, orth (Vrott t) /\ eq3 (cj (Vrott t) (Dg (lrott t))) (cj (Vrott t) (Dg (lrott t))))
  /\ (forall a k, (a < 3)%nat -> (k < 3)%nat -> is_derive (fun t => Vrott t a k) 0 (dVrot a k))
  /\ (forall k, (k < 3)%nat -> is_derive (fun t => lrott t k) 0 (dlrot k))
  /\ (forall k, (k < 3)%nat -> is_derive ln (lrott 0 k) (/ lrott 0 k))
  /\ s3 (fun a => Vrott 0 a 0%nat * dVrot a 1%nat) = - 1.
Proof.
  split; [|split; [|split; [|split]]].
  - intros t. split; [apply orth_Vrott|]. intros i j _ _. reflexivity.
  - intros a k Ha Hk. destruct a as [|[|[|a]]]; try lia; destruct k as [|[|[|k]]]; try lia; unfold Vrott, dVrot;
      auto_derive; try exact I; rewrite ?sin_0, ?cos_0; ring.
  - intros k Hk. destruct k as [|[|[|k]]]; try lia; unfold lrott, dlrot; auto_derive; try exact I; ring.
  - intros k Hk. destruct k as [|[|[|k]]]; try lia; unfold lrott; auto_derive; try lra; field.
  - unfold s3, Vrott, dVrot. rewrite sin_0, cos_0. ring.
Qed.
