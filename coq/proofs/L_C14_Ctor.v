(* C14: the extracted constructor DofManager.__init__ (gen/CFG_Dof.v), with its two helper methods _make_hessian_coordinates and
   _make_hessian_bc_mask run from their own extracted syntax trees, builds the hand model's object (model/M_C14_IR.v dof_object)
   -- for ALL inputs: loop invariants for the three kinds of `for` loop (the BC loop of __init__, the two loops of
   _make_hessian_coordinates, the loop of _make_hessian_bc_mask) through the interpreter of model/M_C14_IR.v.

   Method.  The interpreter re-binds a bound name in place, so the environment after one loop iteration has the same shape as
   before it; one iteration from an environment of that shape with symbolic values is evaluated by conversion (`reflexivity`,
   or `lazy` + Nat.eqb_refl where the interpreter tests the equality of two symbolic extents), which yields the RAW per-iteration
   update as the interpreter computes it (upd1 / upd2 / updm below); an induction over the enumerated rows turns the loop into a
   fold of that update (fill1 / fill2 / fillm); pure list lemmas identify the folds with the hand model's HessRowCoords /
   HessColCoords / hessian_bc_mask (for in-range nodes and a rectangular table).  The first iteration is treated separately
   (it creates the loop-local names); a table without rows is evaluated directly.
   The proofs follow the SYNTAX of the source: the position of the loops in the method bodies and the order in which __init__
   assigns the attributes are used (firstn / nth / skipn of the extracted bodies; so1 / so2 = the partially built object at the
   two helper calls).  A reordering of the source that keeps its meaning can break these proofs; the check then reports the broken
   tie (no failing input), which is the price of a syntactic tie. *)
From Coq Require Import String ZArith List Bool Arith Lia.
From OV.model Require Import M_C14_Dof M_C14_Asm M_C14_IR.
From OV.proofs Require Import L_C14 L_C14_Asm L_C14_IR.
From OV.gen Require Import CFG_Dof.
Import ListNotations.
Open Scope string_scope. Open Scope list_scope.

(* ------------------------------------------------------------------ generic facts about the interpreter *)
Section Generic.
  Context {A : Type} (zero : A).
  Variable cm : string -> @val A -> list (@val A) -> option (@val A).

  Definition for_step (vars : list string) (body : list stmt) (r0 : env) (item : @val A) : option (@outcome A) :=
    match vars, item with
    | [x], _ => exec_block zero cm (bind x item r0) body
    | _, VTup vs => match bind_vars r0 vars vs with Some r1 => exec_block zero cm r1 body | None => None end
    | _, _ => None
    end.

  Lemma loop_ext (f g : env -> @val A -> option (@outcome A)) items :
    (forall r i, f r i = g r i) -> forall r, loop f items r = loop g items r.
  Proof.
    intros H. induction items as [|it items IH]; intros r; simpl; auto.
    rewrite H. destruct (g r it) as [[r'|v]|]; auto.
  Qed.

  Lemma exec_for r vars it body :
    exec zero cm r (SFor vars it body)
    = match eval zero cm r it with
      | Some (VTup items) => loop (for_step vars body) items r
      | _ => None
      end.
  Proof. reflexivity. Qed.

  Lemma exec_block_app r l1 l2 :
    exec_block zero cm r (l1 ++ l2)
    = match exec_block zero cm r l1 with Some (ONext r') => exec_block zero cm r' l2 | other => other end.
  Proof.
    revert r; induction l1 as [|x t IH]; intros r; simpl; auto.
    destruct (exec zero cm r x) as [[r'|v]|]; auto.
  Qed.
End Generic.

(* ------------------------------------------------------------------ the pieces of the extracted __init__ *)
Definition init_body : list stmt := f_body cfg_dof_init.
Definition for_parts (s : stmt) : list string * expr * list stmt :=
  match s with SFor vars it body => (vars, it, body) | _ => ([], ENone, []) end.

Section Ctor.
  Context {A : Type} (zero : A).
  Variables (nNodes dim : nat) (sets : string -> list nat) (conns : list (list nat)).

  Notation mk_fsp := (@mk_fsp A nNodes sets conns).
  Notation ebc_val := (@ebc_val A).
  Notation mk_ebcs := (@mk_ebcs A).
  Notation ebcs_of := (ebcs_of sets).

  Variable cm : string -> @val A -> list (@val A) -> option (@val A).
  Variable ebl : list (string * nat).

  Definition r_start : env :=
    [("EssentialBCs", mk_ebcs ebl); ("dim", VInt dim); ("functionSpace", mk_fsp); ("self", VObj [])].
  Definition RA (acc : list bool) : env :=
    bind "isBc" (VB [nNodes; dim] acc) (bind "self" (VObj [("fieldShape", VTup [VInt nNodes; VInt dim])]) r_start).
  Definition RB (v : @val A) (acc : list bool) : env := bind "isBc" (VB [nNodes; dim] acc) (bind "ebc" v (RA [])).

  Lemma init_params : bind_params zero cm [] (f_params cfg_dof_init) [VObj []; mk_fsp; VInt dim; mk_ebcs ebl] (f_defaults cfg_dof_init) = Some r_start.
  Proof. reflexivity. Qed.

  Lemma init_pre : exec_block zero cm r_start (firstn 2 init_body) = Some (ONext (RA (repeat false (prodn [nNodes; dim])))).
  Proof. reflexivity. Qed.

  Definition init_for := for_parts (nth 2 init_body (SReturn ENone)).
  Definition init_step := for_step zero cm (fst (fst init_for)) (snd init_for).

  Lemma init_for_items r : lookup "EssentialBCs" r = Some (mk_ebcs ebl) -> eval zero cm r (snd (fst init_for)) = Some (mk_ebcs ebl).
  Proof. intros H. exact H. Qed.

  Lemma init_step_A e acc : init_step (RA acc) (ebc_val e) = Some (ONext (RB (ebc_val e) (apply_ebc nNodes dim acc (sets (fst e), snd e)))).
  Proof. reflexivity. Qed.
  Lemma init_step_B v e acc : init_step (RB v acc) (ebc_val e) = Some (ONext (RB (ebc_val e) (apply_ebc nNodes dim acc (sets (fst e), snd e)))).
  Proof. reflexivity. Qed.

  Lemma init_loop_B l : forall v acc, exists v',
    loop init_step (map ebc_val l) (RB v acc) = Some (ONext (RB v' (fold_left (apply_ebc nNodes dim) (ebcs_of l) acc))).
  Proof.
    induction l as [|e l IH]; intros v acc; [exists v; reflexivity|].
    cbn [map loop]. rewrite init_step_B. apply IH.
  Qed.

  (* the environment after the BC loop: the mask is mk_isBc of the declared sets; `ebc` is bound iff the list is not empty *)
  Definition RC (pre : env) (acc : list bool) : env := pre ++ RA acc.
  Lemma init_loop :
    exists pre, (pre = [] \/ exists v, pre = [("ebc", v)])
      /\ exec_block zero cm r_start (firstn 3 init_body) = Some (ONext (RC pre (mk_isBc nNodes dim (ebcs_of ebl)))).
  Proof.
    change (firstn 3 init_body) with (firstn 2 init_body ++ [nth 2 init_body (SReturn ENone)]).
    rewrite exec_block_app, init_pre.
    change (nth 2 init_body (SReturn ENone)) with (SFor (fst (fst init_for)) (snd (fst init_for)) (snd init_for)).
    cbn [exec_block]. rewrite exec_for, init_for_items by reflexivity.
    unfold mk_ebcs. fold init_step. unfold mk_isBc. rewrite prodn2.
    destruct ebl as [|e l].
    - exists []. split; [left; reflexivity|reflexivity].
    - cbn [map loop]. rewrite init_step_A.
      destruct (init_loop_B l (ebc_val e) (apply_ebc nNodes dim (repeat false (nNodes * dim)) (sets (fst e), snd e))) as (v' & ->).
      exists [("ebc", v')]. split; [right; eexists; reflexivity|reflexivity].
  Qed.
End Ctor.

(* ------------------------------------------------------------------ _make_hessian_coordinates *)
Definition hc_body : list stmt := f_body cfg_dof_make_hessian_coordinates.
Definition enum_item {A} (kr : nat * list nat) : @val A := VTup [VInt (fst kr); VN [length (snd kr)] (snd kr)].

Section HC.
  Context {A : Type} (zero : A).
  Variables (nNodes dim : nat) (isBc : list bool) (conns : list (list nat)).
  Variable cm : string -> @val A -> list (@val A) -> option (@val A).

  (* the partially built object at the point where __init__ calls the helper *)
  Definition fields1 (d2u : list Z) : list (string * @val A) :=
         [("dofToUnknown", VZ [length isBc] d2u);
          ("bcIndices", VN [count_true isBc] (bcIndices isBc));
          ("unknownIndices", VN [count_true (isUnknown isBc)] (unknownIndices isBc));
          ("ids", VN [nNodes; dim] (ids isBc));
          ("isUnknown", VB [nNodes; dim] (isUnknown isBc));
          ("isBc", VB [nNodes; dim] isBc);
          ("fieldShape", VTup [VInt nNodes; VInt dim])].
  Definition so1_fields : list (string * @val A) := fields1 (dofToUnknown isBc).
  Definition so1 : @val A := VObj so1_fields.
  Notation nE := (length conns).
  Definition hc_r0 : env := [("conns", VConns conns); ("self", so1)].
  Definition H0 (acc : list nat) (tot : nat) : env :=
    bind "nHessianEntries" (VInt tot) (bind "nElUnknowns" (VN [nE] acc) hc_r0).
  Definition H1 (e en fl : @val A) (acc : list nat) (tot : nat) : env :=
    bind "nHessianEntries" (VInt tot) (bind "nElUnknowns" (VN [nE] acc)
      (bind "elUnknownFlags" fl (bind "eNodes" en (bind "e" e (H0 [] 0))))).

  Lemma hc_params : bind_params zero cm [] (f_params cfg_dof_make_hessian_coordinates) [so1; VConns conns]
                                (f_defaults cfg_dof_make_hessian_coordinates) = Some hc_r0.
  Proof. reflexivity. Qed.
  Lemma hc_pre : exec_block zero cm hc_r0 (firstn 2 hc_body) = Some (ONext (H0 (repeat 0 nE) 0)).
  Proof. reflexivity. Qed.

  Definition hc_for1 := for_parts (nth 2 hc_body (SReturn ENone)).
  Definition hc_step1 := for_step zero cm (fst (fst hc_for1)) (snd hc_for1).
  Definition hc_items : list (@val A) := map enum_item (combine (seq 0 nE) conns).

  (* one iteration on (k, row): nElUnknowns[k] = number of unknown dofs of the row; the running total adds the square of the
     value READ BACK from nElUnknowns[k] *)
  Definition upd1 (k : nat) (row : list nat) (st : list nat * nat) : list nat * nat :=
    let acc' := set_nth k (n_el_unknowns isBc dim row) (fst st) in (acc', snd st + nth k acc' 0 * nth k acc' 0).
  Definition fl_of (row : list nat) : @val A := VB [length (el_unknown_flags isBc dim row)] (el_unknown_flags isBc dim row).
  Definition en_of (row : list nat) : @val A := VN [length row] row.

  Lemma hc_step1_0 k row acc tot :
    hc_step1 (H0 acc tot) (enum_item (k, row))
    = Some (ONext (H1 (VInt k) (en_of row) (fl_of row) (fst (upd1 k row (acc, tot))) (snd (upd1 k row (acc, tot))))).
  Proof. reflexivity. Qed.
  Lemma hc_step1_1 e en fl k row acc tot :
    hc_step1 (H1 e en fl acc tot) (enum_item (k, row))
    = Some (ONext (H1 (VInt k) (en_of row) (fl_of row) (fst (upd1 k row (acc, tot))) (snd (upd1 k row (acc, tot))))).
  Proof. reflexivity. Qed.

  Fixpoint fill1 (s : nat) (rows : list (list nat)) (st : list nat * nat) : list nat * nat :=
    match rows with [] => st | row :: t => fill1 (S s) t (upd1 s row st) end.

  Lemma hc_loop1_1 rows : forall s e en fl acc tot, exists e' en' fl',
    loop hc_step1 (map enum_item (combine (seq s (length rows)) rows)) (H1 e en fl acc tot)
    = Some (ONext (H1 e' en' fl' (fst (fill1 s rows (acc, tot))) (snd (fill1 s rows (acc, tot))))).
  Proof.
    induction rows as [|row rows IH]; intros s e en fl acc tot; [exists e, en, fl; reflexivity|].
    cbn [length seq combine map loop fill1]. rewrite hc_step1_1.
    destruct (upd1 s row (acc, tot)) as [acc' tot'] eqn:E. apply IH.
  Qed.

  (* middle part: rowCoords / colCoords allocated with the total, rangeBegin = 0 *)
  Definition G0 (e en fl : @val A) (ne : list nat) (tot : nat) : env :=
    bind "rangeBegin" (VInt 0) (bind "colCoords" (VN [tot] (repeat 0 tot)) (bind "rowCoords" (VN [tot] (repeat 0 tot)) (H1 e en fl ne tot))).
  Lemma hc_mid e en fl ne tot :
    exec_block zero cm (H1 e en fl ne tot) (firstn 3 (skipn 3 hc_body)) = Some (ONext (G0 e en fl ne tot)).
  Proof. reflexivity. Qed.

  Definition G1 (e en fl : @val A) (ne : list nat) (tot : nat) (sh1 sh2 : list nat) (rowd cold : list Z) (rb : nat) (v4 v5 v6 v7 : @val A) : env :=
    bind "rangeEnd" v7 (bind "elHessCoords" v6 (bind "elUnknowns" v5 (bind "elDofs" v4
      (bind "rangeBegin" (VInt rb) (bind "colCoords" (VZ sh2 cold) (bind "rowCoords" (VZ sh1 rowd) (H1 e en fl ne tot))))))).

  Definition hc_for2 := for_parts (nth 6 hc_body (SReturn ENone)).
  Definition hc_step2 := for_step zero cm (fst (fst hc_for2)) (snd hc_for2).

  (* raw per-element quantities as the interpreter computes them *)
  Definition raw_dofs (row : list nat) : list nat := map (fun p => nth p (ids isBc) 0) (el_dofs dim row).
  Definition raw_u (row : list nat) : list Z := map (fun p => nth p (dofToUnknown isBc) (-1)%Z) (mask_select (el_unknown_flags isBc dim row) (raw_dofs row)).
  Definition raw_tile (ne : list nat) (k : nat) (row : list nat) : list Z := concat (repeat (raw_u row) (nth k ne 0)).
  Definition upd2 (ne : list nat) (k : nat) (row : list nat) (st : list Z * list Z * nat) : list Z * list Z * nat :=
    let '(rowd, cold, rb) := st in
    let n := nth k ne 0 in
    (slice_assign rb (rb + n * n) rowd (raw_tile ne k row),
     slice_assign rb (rb + n * n) cold (transpose2 0%Z n (count_true (el_unknown_flags isBc dim row)) (raw_tile ne k row)),
     rb + n * n).
  Definition v4_of (row : list nat) : @val A := VN [length row; dim] (raw_dofs row).
  Definition fl2_of (row : list nat) : @val A := VB [length row; dim] (el_unknown_flags isBc dim row).
  Definition v5_of (row : list nat) : @val A := VZ [count_true (el_unknown_flags isBc dim row)] (raw_u row).
  Definition v6_of ne k (row : list nat) : @val A := VZ [nth k ne 0; count_true (el_unknown_flags isBc dim row)] (raw_tile ne k row).

  Lemma hc_step2_0 e en fl ne tot k row :
    hc_step2 (G0 e en fl ne tot) (enum_item (k, row))
    = Some (ONext (let st := upd2 ne k row (map Z.of_nat (repeat 0 tot), map Z.of_nat (repeat 0 tot), 0) in
                   G1 (VInt k) (en_of row) (fl2_of row) ne tot [tot] [tot] (fst (fst st)) (snd (fst st)) (snd st)
                      (v4_of row) (v5_of row) (v6_of ne k row) (VInt (0 + nth k ne 0 * nth k ne 0)))).
  Proof. reflexivity. Qed.
  Lemma hc_step2_1 e en fl ne tot sh1 sh2 rowd cold rb v4 v5 v6 v7 k row :
    hc_step2 (G1 e en fl ne tot sh1 sh2 rowd cold rb v4 v5 v6 v7) (enum_item (k, row))
    = Some (ONext (let st := upd2 ne k row (rowd, cold, rb) in
                   G1 (VInt k) (en_of row) (fl2_of row) ne tot sh1 sh2 (fst (fst st)) (snd (fst st)) (snd st)
                      (v4_of row) (v5_of row) (v6_of ne k row) (VInt (rb + nth k ne 0 * nth k ne 0)))).
  Proof. reflexivity. Qed.

  Fixpoint fill2 (ne : list nat) (s : nat) (rows : list (list nat)) (st : list Z * list Z * nat) : list Z * list Z * nat :=
    match rows with [] => st | row :: t => fill2 ne (S s) t (upd2 ne s row st) end.

  Lemma hc_loop2_1 ne tot sh1 sh2 rows : forall s e en fl rowd cold rb v4 v5 v6 v7, exists e' en' fl' v4' v5' v6' v7',
    loop hc_step2 (map enum_item (combine (seq s (length rows)) rows)) (G1 e en fl ne tot sh1 sh2 rowd cold rb v4 v5 v6 v7)
    = Some (ONext (let st := fill2 ne s rows (rowd, cold, rb) in
                   G1 e' en' fl' ne tot sh1 sh2 (fst (fst st)) (snd (fst st)) (snd st) v4' v5' v6' v7')).
  Proof.
    induction rows as [|row rows IH]; intros s e en fl rowd cold rb v4 v5 v6 v7.
    - exists e, en, fl, v4, v5, v6, v7. reflexivity.
    - cbn [length seq combine map loop fill2]. rewrite hc_step2_1. cbv zeta.
      destruct (upd2 ne s row (rowd, cold, rb)) as [[rowd' cold'] rb'] eqn:E. cbn [fst snd]. apply IH.
  Qed.

  Lemma hc_ret e en fl ne tot sh1 sh2 rowd cold rb v4 v5 v6 v7 :
    exec_block zero cm (G1 e en fl ne tot sh1 sh2 rowd cold rb v4 v5 v6 v7) (skipn 7 hc_body)
    = Some (ORet (VTup [VZ sh1 rowd; VZ sh2 cold])).
  Proof. reflexivity. Qed.

  Lemma hc_for1_items r : lookup "conns" r = Some (VConns conns) -> eval zero cm r (snd (fst hc_for1)) = Some (VTup hc_items).
  Proof. intros H. cbn. rewrite H. reflexivity. Qed.
  Lemma hc_for2_items r : lookup "conns" r = Some (VConns conns) -> eval zero cm r (snd (fst hc_for2)) = Some (VTup hc_items).
  Proof. intros H. cbn. rewrite H. reflexivity. Qed.

  (* the whole method body on a non-empty connectivity table, in terms of the two folds *)
  Definition hc_ne_tot (cs : list (list nat)) := fill1 0 cs (repeat 0 (length cs), 0).
  Definition hc_raw (cs : list (list nat)) :=
    let ne := fst (hc_ne_tot cs) in let tot := snd (hc_ne_tot cs) in
    fill2 ne 0 cs (map Z.of_nat (repeat 0 tot), map Z.of_nat (repeat 0 tot), 0).

  Lemma hc_items_cons row0 rows : conns = row0 :: rows ->
    hc_items = enum_item (0, row0) :: map enum_item (combine (seq 1 (length rows)) rows).
  Proof. unfold hc_items. intros E. rewrite E. reflexivity. Qed.
  Lemma H0_start row0 rows : conns = row0 :: rows -> H0 (repeat 0 nE) 0 = H0 (repeat 0 (S (length rows))) 0.
  Proof. intros E. rewrite E at 1. reflexivity. Qed.

  Lemma hc_body_raw row0 rows : conns = row0 :: rows ->
    exec_block zero cm hc_r0 hc_body
    = Some (ORet (VTup [VZ [snd (hc_ne_tot (row0 :: rows))] (fst (fst (hc_raw (row0 :: rows))));
                        VZ [snd (hc_ne_tot (row0 :: rows))] (snd (fst (hc_raw (row0 :: rows))))])).
  Proof.
    intros NE.
    change hc_body with (firstn 2 hc_body ++ [nth 2 hc_body (SReturn ENone)] ++ firstn 3 (skipn 3 hc_body)
                         ++ [nth 6 hc_body (SReturn ENone)] ++ skipn 7 hc_body).
    rewrite exec_block_app, hc_pre.
    change (nth 2 hc_body (SReturn ENone)) with (SFor (fst (fst hc_for1)) (snd (fst hc_for1)) (snd hc_for1)).
    change (nth 6 hc_body (SReturn ENone)) with (SFor (fst (fst hc_for2)) (snd (fst hc_for2)) (snd hc_for2)).
    rewrite (exec_block_app _ _ _ [_]). cbn [exec_block]. rewrite exec_for, hc_for1_items by reflexivity.
    fold hc_step1. rewrite (hc_items_cons _ _ NE), (H0_start _ _ NE). unfold hc_raw, hc_ne_tot.
    cbn [length seq combine map loop fill1]. rewrite hc_step1_0.
    destruct (upd1 0 row0 (repeat 0 (S (length rows)), 0)) as [acc1 tot1] eqn:E1. cbn [fst snd].
    destruct (hc_loop1_1 rows 1 (VInt 0) (en_of row0) (fl_of row0) acc1 tot1) as (e1 & en1 & fl1 & ->).
    destruct (fill1 1 rows (acc1, tot1)) as [ne tot] eqn:E2. cbn [fst snd].
    rewrite exec_block_app, hc_mid.
    rewrite (exec_block_app _ _ _ [_]). cbn [exec_block]. rewrite exec_for, hc_for2_items by reflexivity.
    fold hc_step2. rewrite (hc_items_cons _ _ NE).
    cbn [length seq combine map loop fill2]. rewrite hc_step2_0. cbv zeta.
    destruct (upd2 ne 0 row0 (map Z.of_nat (repeat 0 tot), map Z.of_nat (repeat 0 tot), 0)) as [[rowd1 cold1] rb1] eqn:E3. cbn [fst snd].
    match goal with |- context [loop hc_step2 _ (G1 ?e ?en ?fl _ _ _ _ _ _ _ ?v4 ?v5 ?v6 ?v7)] =>
      destruct (hc_loop2_1 ne tot [tot] [tot] rows 1 e en fl rowd1 cold1 rb1 v4 v5 v6 v7) as (e2 & en2 & fl2 & v4' & v5' & v6' & v7' & ->) end.
    cbv zeta. apply hc_ret.
  Qed.

End HC.

Lemma call_unfold {A} (zero : A) methods F m self args d :
  find (fun d => String.eqb (fst d) m) methods = Some d ->
  call zero methods (S F) m self args
  = match run_body zero (call zero methods F) (snd d) (self :: args) with
    | Some (ORet v) => Some v | Some (ONext _) => Some VNone | None => None end.
Proof. intros H. cbn [call]. rewrite H. reflexivity. Qed.

Lemma hc_call_raw {A} (zero : A) nNodes dim isBc conns F row0 rows : conns = row0 :: rows ->
  call zero cfg_dof_methods (S F) "_make_hessian_coordinates" (so1 nNodes dim isBc) [VConns conns]
  = Some (VTup [VZ [snd (hc_ne_tot dim isBc (row0 :: rows))] (fst (fst (hc_raw dim isBc (row0 :: rows))));
                VZ [snd (hc_ne_tot dim isBc (row0 :: rows))] (snd (fst (hc_raw dim isBc (row0 :: rows))))]).
Proof.
  intros NE. rewrite (call_unfold zero _ F _ _ _ ("_make_hessian_coordinates", cfg_dof_make_hessian_coordinates)) by reflexivity.
  unfold run_body. cbn [snd]. rewrite hc_params. fold hc_body. rewrite (hc_body_raw zero nNodes dim isBc conns _ _ _ NE). reflexivity.
Qed.

(* ------------------------------------------------------------------ pure list facts used by the loop invariants *)
Lemma map_repeat' {X Y} (f : X -> Y) x n : map f (repeat x n) = repeat (f x) n.
Proof. induction n; simpl; congruence. Qed.
Lemma skipn_repeat {X} (x : X) m n : skipn m (repeat x n) = repeat x (n - m).
Proof. revert m; induction n; intros [|m]; simpl; auto. Qed.
Lemma map_const_repeat {X Y} (y : Y) (l : list X) : map (fun _ => y) l = repeat y (length l).
Proof. induction l; simpl; congruence. Qed.
Lemma firstn_app_exact {X} (l1 l2 : list X) : firstn (length l1) (l1 ++ l2) = l1.
Proof. induction l1; simpl; congruence. Qed.
Lemma skipn_app_exact {X} (l1 l2 : list X) m : skipn (length l1 + m) (l1 ++ l2) = skipn m l2.
Proof. induction l1; simpl; auto. Qed.

Lemma slice_assign_fill {X} (done vals : list X) (x : X) T lo hi :
  lo = length done -> hi = lo + length vals ->
  slice_assign lo hi (done ++ repeat x (T - lo)) vals = (done ++ vals) ++ repeat x (T - hi).
Proof.
  intros -> ->. unfold slice_assign. rewrite firstn_app_exact, skipn_app_exact, skipn_repeat, <- app_assoc.
  replace (T - length done - length vals) with (T - (length done + length vals)) by lia. reflexivity.
Qed.

Lemma nth_concat_repeat {X} (d : X) (u : list X) n : forall i j, i < n -> j < length u ->
  nth (i * length u + j) (concat (repeat u n)) d = nth j u d.
Proof.
  induction n as [|n IH]; intros i j Hi Hj; [lia|]. cbn [repeat concat].
  destruct i as [|i].
  - simpl. apply app_nth1; assumption.
  - rewrite app_nth2 by (simpl; lia). replace (S i * length u + j - length u) with (i * length u + j) by (simpl; lia).
    apply IH; lia.
Qed.

Lemma transpose_tile {X} (d0 : X) (u : list X) n :
  transpose2 d0 n (length u) (concat (repeat u n)) = flat_map (fun x => repeat x n) u.
Proof.
  unfold transpose2.
  transitivity (flat_map (fun x => repeat x n) (map (fun a => nth a u d0) (seq 0 (length u))));
    [|rewrite <- list_as_map_nth; reflexivity].
  rewrite flat_map_map. apply flat_map_ext_in'. intros j Hj. apply in_seq in Hj.
  rewrite <- (seq_length n 0) at 2. rewrite <- map_const_repeat. apply map_ext_in. intros i Hi. apply in_seq in Hi.
  apply nth_concat_repeat; lia.
Qed.

Section HCPure.
  Variables (isBc : list bool) (dim : nat).
  Notation nel := (n_el_unknowns isBc dim).
  Notation inr := (el_in_range isBc dim).

  Lemma fill1_spec rows : forall pre tot,
    fill1 dim isBc (length pre) rows (pre ++ repeat 0 (length rows), tot)
    = (pre ++ map nel rows, tot + list_sum (map (fun r => nel r * nel r) rows)).
  Proof.
    induction rows as [|row rows IH]; intros pre tot.
    - simpl. rewrite Nat.add_0_r. reflexivity.
    - cbn [fill1 length repeat map list_sum]. unfold upd1. cbn [fst snd].
      rewrite set_nth_app_len, nth_middle.
      replace (pre ++ nel row :: repeat 0 (length rows)) with ((pre ++ [nel row]) ++ repeat 0 (length rows)) by (rewrite <- app_assoc; reflexivity).
      replace (S (length pre)) with (length (pre ++ [nel row])) by (rewrite app_length; simpl; lia).
      rewrite IH, <- app_assoc. f_equal. simpl. lia.
  Qed.

  Lemma raw_dofs_ok row : inr row -> raw_dofs dim isBc row = el_dofs dim row.
  Proof.
    intros H. unfold raw_dofs, ids, nDofs. rewrite <- (map_id (el_dofs dim row)) at 2. apply map_ext_in. intros p Hp.
    unfold el_in_range in H. rewrite Forall_forall in H. rewrite seq_nth by (apply H; assumption). reflexivity.
  Qed.
  Lemma raw_u_ok row : inr row -> raw_u dim isBc row = el_unknowns isBc dim row.
  Proof. intros H. unfold raw_u. rewrite raw_dofs_ok by assumption. reflexivity. Qed.
  Lemma raw_tile_ok ne k row : inr row -> nth k ne 0 = nel row -> raw_tile dim isBc ne k row = el_rows isBc dim row.
  Proof. intros H E. unfold raw_tile. rewrite raw_u_ok, E by assumption. reflexivity. Qed.
  Lemma raw_cols_ok row : inr row ->
    transpose2 0%Z (nel row) (count_true (el_unknown_flags isBc dim row)) (el_rows isBc dim row) = el_cols isBc dim row.
  Proof.
    intros H. unfold el_rows. change (count_true (el_unknown_flags isBc dim row)) with (nel row).
    rewrite (n_el_unknowns_length isBc dim row) at 2. rewrite transpose_tile. reflexivity.
  Qed.
  Lemma el_rows_length row : length (el_rows isBc dim row) = nel row * nel row.
  Proof. unfold el_rows. rewrite concat_repeat_length, <- n_el_unknowns_length. reflexivity. Qed.

  Notation FR := (flat_map (el_rows isBc dim)).
  Notation FC := (flat_map (el_cols isBc dim)).
  Lemma FR_FC_length cs : length (FR cs) = length (FC cs).
  Proof. induction cs as [|c cs IH]; simpl; auto. rewrite !app_length, IH, el_rows_cols_length. reflexivity. Qed.
  Lemma FR_length cs : length (FR cs) = list_sum (map (fun r => nel r * nel r) cs).
  Proof. induction cs as [|c cs IH]; simpl; auto. rewrite app_length, IH, el_rows_length. reflexivity. Qed.

  Lemma fill2_spec all T rows : forall done, all = done ++ rows -> Forall inr rows ->
    fill2 dim isBc (map nel all) (length done) rows
          (FR done ++ repeat 0%Z (T - length (FR done)), FC done ++ repeat 0%Z (T - length (FR done)), length (FR done))
    = (FR all ++ repeat 0%Z (T - length (FR all)), FC all ++ repeat 0%Z (T - length (FR all)), length (FR all)).
  Proof.
    induction rows as [|row rows IH]; intros done E HR.
    - rewrite app_nil_r in E. subst. reflexivity.
    - inversion HR as [|? ? Hrow HR']; subst.
      assert (En : nth (length done) (map nel (done ++ row :: rows)) 0 = nel row).
      { rewrite map_app, app_nth2 by (rewrite map_length; lia). rewrite map_length, Nat.sub_diag. reflexivity. }
      cbn [fill2]. unfold upd2. rewrite En, raw_tile_ok by assumption. rewrite raw_cols_ok by assumption.
      rewrite <- el_rows_length.
      rewrite (slice_assign_fill (FR done) (el_rows isBc dim row)) by reflexivity.
      rewrite (slice_assign_fill (FC done) (el_cols isBc dim row))
        by (rewrite <- ?FR_FC_length, <- ?el_rows_cols_length; reflexivity).
      assert (E1 : FR (done ++ [row]) = FR done ++ el_rows isBc dim row) by (rewrite flat_map_app; simpl; rewrite app_nil_r; reflexivity).
      assert (E2 : FC (done ++ [row]) = FC done ++ el_cols isBc dim row) by (rewrite flat_map_app; simpl; rewrite app_nil_r; reflexivity).
      rewrite <- E1, <- E2.
      replace (length (FR done) + length (el_rows isBc dim row)) with (length (FR (done ++ [row])))
        by (rewrite E1, app_length; reflexivity).
      replace (S (length done)) with (length (done ++ [row])) by (rewrite app_length; simpl; lia).
      apply IH; [rewrite <- app_assoc; reflexivity|assumption].
  Qed.

  (* the two folds of the extracted method are the hand model's coordinate arrays *)
  Lemma hc_raw_spec cs : Forall inr cs ->
    snd (hc_ne_tot dim isBc cs) = length (HessRowCoords isBc dim cs)
    /\ fst (fst (hc_raw dim isBc cs)) = HessRowCoords isBc dim cs
    /\ snd (fst (hc_raw dim isBc cs)) = HessColCoords isBc dim cs.
  Proof.
    intros HR. unfold hc_raw, hc_ne_tot, HessRowCoords, HessColCoords.
    pose proof (fill1_spec cs [] 0) as H1. cbn [length app Nat.add] in H1. rewrite H1. cbn [fst snd]. rewrite <- FR_length, map_repeat'. cbn [Z.of_nat].
    pose proof (fill2_spec cs (length (FR cs)) cs [] eq_refl HR) as H. cbn [length flat_map app] in H.
    rewrite Nat.sub_0_r in H. rewrite H. rewrite Nat.sub_diag. cbn [repeat fst snd]. rewrite !app_nil_r. auto.
  Qed.
End HCPure.

(* ------------------------------------------------------------------ _make_hessian_bc_mask *)
Definition bm_body : list stmt := f_body cfg_dof_make_hessian_bc_mask.

Ltac stepm := lazy -[Nat.eqb Nat.mul Nat.add on_block knock_rows knock_cols nth map flat_map seq length hd].
Section BM.
  Context {A : Type} (zero : A).
  Variables (nNodes dim : nat) (isBc : list bool) (conns : list (list nat)) (vr vc : @val A).
  Variable cm : string -> @val A -> list (@val A) -> option (@val A).
  Notation nE := (length conns).
  Notation npe := (length (hd [] conns)).
  Notation nd := (npe * dim).

  (* the partially built object at the point where __init__ calls the second helper *)
  Definition so2 : @val A := VObj (("HessColCoords", vc) :: ("HessRowCoords", vr) :: so1_fields nNodes dim isBc).
  Definition bm_r0 : env := [("conns", VConns conns); ("self", so2)].
  Definition M0 (d : list bool) : env :=
    bind "hessian_bc_mask" (VB [nE; nd; nd] d) (bind "nDofPerElement" (VInt nd) (bind "nFields" (VInt dim)
      (bind "nNodesPerElement" (VInt npe) (bind "nElements" (VInt nE) bm_r0)))).
  Definition M1 (e en fl : @val A) (d : list bool) : env :=
    bind "hessian_bc_mask" (VB [nE; nd; nd] d) (bind "eFlag" fl (bind "eNodes" en (bind "e" e (M0 [])))).

  Lemma bm_params : bind_params zero cm [] (f_params cfg_dof_make_hessian_bc_mask) [so2; VConns conns]
                                (f_defaults cfg_dof_make_hessian_bc_mask) = Some bm_r0.
  Proof. reflexivity. Qed.
  Lemma bm_pre : exec_block zero cm bm_r0 (firstn 4 bm_body) = Some (ONext (M0 (repeat true (prodn [nE; nd; nd])))).
  Proof. reflexivity. Qed.

  Definition bm_for := for_parts (nth 4 bm_body (SReturn ENone)).
  Definition bm_step := for_step zero cm (fst (fst bm_for)) (snd bm_for).
  Definition updm (k : nat) (row : list nat) (d : list bool) : list bool :=
    on_block k (nd * nd) (knock_cols (el_bc_flags isBc dim row) nd) (on_block k (nd * nd) (knock_rows (el_bc_flags isBc dim row) nd) d).
  Definition flm_of (row : list nat) : @val A := VB [length (el_bc_flags isBc dim row)] (el_bc_flags isBc dim row).

  Lemma bm_step_0 k row d :
    bm_step (M0 d) (enum_item (k, row)) = Some (ONext (M1 (VInt k) (en_of row) (flm_of row) (updm k row d))).
  Proof.
    unfold bm_step, for_step.
    let v := eval cbv in (fst (fst bm_for)) in change (fst (fst bm_for)) with v.
    let b := eval cbv in (snd bm_for) in change (snd bm_for) with b.
    stepm. rewrite Nat.eqb_refl. stepm. rewrite Nat.eqb_refl. reflexivity.
  Qed.
  Lemma bm_step_1 e en fl k row d :
    bm_step (M1 e en fl d) (enum_item (k, row)) = Some (ONext (M1 (VInt k) (en_of row) (flm_of row) (updm k row d))).
  Proof.
    unfold bm_step, for_step.
    let v := eval cbv in (fst (fst bm_for)) in change (fst (fst bm_for)) with v.
    let b := eval cbv in (snd bm_for) in change (snd bm_for) with b.
    stepm. rewrite Nat.eqb_refl. stepm. rewrite Nat.eqb_refl. reflexivity.
  Qed.

  Fixpoint fillm (s : nat) (rows : list (list nat)) (d : list bool) : list bool :=
    match rows with [] => d | row :: t => fillm (S s) t (updm s row d) end.

  Lemma bm_loop_1 rows : forall s e en fl d, exists e' en' fl',
    loop bm_step (map enum_item (combine (seq s (length rows)) rows)) (M1 e en fl d) = Some (ONext (M1 e' en' fl' (fillm s rows d))).
  Proof.
    induction rows as [|row rows IH]; intros s e en fl d; [exists e, en, fl; reflexivity|].
    cbn [length seq combine map loop fillm]. rewrite bm_step_1. apply IH.
  Qed.

  Lemma bm_ret e en fl d : exec_block zero cm (M1 e en fl d) (skipn 5 bm_body) = Some (ORet (VB [nE; nd; nd] d)).
  Proof. reflexivity. Qed.
  Definition bm_items : list (@val A) := map enum_item (combine (seq 0 nE) conns).
  Lemma bm_for_items r : lookup "conns" r = Some (VConns conns) ->
    eval zero cm r (snd (fst bm_for)) = Some (VTup bm_items).
  Proof. intros H. cbn. rewrite H. reflexivity. Qed.
  Lemma bm_items_cons row0 rows : conns = row0 :: rows ->
    bm_items = enum_item (0, row0) :: map enum_item (combine (seq 1 (length rows)) rows).
  Proof. unfold bm_items. intros E. rewrite E. reflexivity. Qed.

  Lemma bm_body_raw row0 rows : conns = row0 :: rows ->
    exec_block zero cm bm_r0 bm_body
    = Some (ORet (VB [nE; nd; nd] (fillm 0 (row0 :: rows) (repeat true (prodn [nE; nd; nd]))))).
  Proof.
    intros NE.
    change bm_body with (firstn 4 bm_body ++ [nth 4 bm_body (SReturn ENone)] ++ skipn 5 bm_body).
    rewrite exec_block_app, bm_pre.
    change (nth 4 bm_body (SReturn ENone)) with (SFor (fst (fst bm_for)) (snd (fst bm_for)) (snd bm_for)).
    rewrite (exec_block_app _ _ _ [_]). cbn [exec_block]. rewrite exec_for, bm_for_items by reflexivity.
    fold bm_step. rewrite (bm_items_cons _ _ NE). cbn [loop fillm]. rewrite bm_step_0.
    destruct (bm_loop_1 rows 1 (VInt 0) (en_of row0) (flm_of row0) (updm 0 row0 (repeat true (prodn [nE; nd; nd])))) as (e' & en' & fl' & ->).
    apply bm_ret.
  Qed.
End BM.

Lemma bm_call_raw {A} (zero : A) nNodes dim isBc conns vr vc F row0 rows : conns = row0 :: rows ->
  call zero cfg_dof_methods (S F) "_make_hessian_bc_mask" (so2 nNodes dim isBc vr vc) [VConns conns]
  = Some (VB [length conns; length (hd [] conns) * dim; length (hd [] conns) * dim]
             (fillm dim isBc conns 0 (row0 :: rows)
                    (repeat true (prodn [length conns; length (hd [] conns) * dim; length (hd [] conns) * dim])))).
Proof.
  intros NE. rewrite (call_unfold zero _ F _ _ _ ("_make_hessian_bc_mask", cfg_dof_make_hessian_bc_mask)) by reflexivity.
  unfold run_body. cbn [snd]. rewrite bm_params. fold bm_body. rewrite (bm_body_raw zero nNodes dim isBc conns vr vc _ _ _ NE). reflexivity.
Qed.


(* ------------------------------------------------------------------ pure facts for the mask loop *)
Lemma firstn_repeat {X} (x : X) m n : firstn m (repeat x n) = repeat x (Nat.min m n).
Proof. revert m; induction n; intros [|m]; simpl; auto. rewrite IHn; reflexivity. Qed.
Lemma nth_repeat_lt {X} (x d : X) n i : i < n -> nth i (repeat x n) d = x.
Proof. revert i; induction n; intros [|i] H; simpl; auto; try lia. apply IHn; lia. Qed.
Lemma nth_map_seq {X} (h : nat -> X) d n b : b < n -> nth b (map h (seq 0 n)) d = h b.
Proof.
  intros H. rewrite (nth_indep _ d (h 0)) by (rewrite map_length, seq_length; assumption).
  rewrite map_nth, seq_nth by assumption. reflexivity.
Qed.
Lemma nth_chunks {X} (f : nat -> list X) (d : X) m n : (forall a, length (f a) = m) ->
  forall s a b, a < n -> b < m -> nth (a * m + b) (flat_map f (seq s n)) d = nth b (f (s + a)) d.
Proof.
  intros Hm. induction n as [|n IH]; intros s a b Ha Hb; [lia|]. cbn [seq flat_map].
  destruct a as [|a].
  - rewrite app_nth1 by (rewrite Hm; simpl; lia). rewrite Nat.add_0_r. reflexivity.
  - rewrite app_nth2 by (rewrite Hm; simpl; lia). rewrite Hm.
    replace (S a * m + b - m) with (a * m + b) by (simpl; lia). rewrite IH by lia. f_equal. f_equal. lia.
Qed.
Lemma flat_map_map_length {X Y Z} (h : X -> Y -> Z) (l1 : list X) (l2 : list Y) :
  length (flat_map (fun a => map (h a) l2) l1) = length l1 * length l2.
Proof. induction l1; simpl; auto. rewrite app_length, map_length, IHl1. reflexivity. Qed.

Definition grid (n : nat) (g : nat -> nat -> bool) : list bool := flat_map (fun a => map (fun b => g a b) (seq 0 n)) (seq 0 n).
Lemma nth_grid n g a b : a < n -> b < n -> nth (a * n + b) (grid n g) false = g a b.
Proof.
  intros Ha Hb. unfold grid. rewrite (nth_chunks _ false n) by (auto; intros; rewrite map_length, seq_length; reflexivity).
  apply nth_map_seq; assumption.
Qed.
Lemma grid_length n g : length (grid n g) = n * n.
Proof. unfold grid. rewrite flat_map_map_length, seq_length. reflexivity. Qed.
Lemma grid_ext n g g' : (forall a b, a < n -> b < n -> g a b = g' a b) -> grid n g = grid n g'.
Proof.
  intros H. unfold grid. apply flat_map_ext_in'. intros a Ha. apply map_ext_in. intros b Hb.
  apply in_seq in Ha. apply in_seq in Hb. apply H; lia.
Qed.

Lemma knock_rows_grid fl n g : knock_rows fl n (grid n g) = grid n (fun a b => if nth a fl false then false else g a b).
Proof. unfold knock_rows. apply grid_ext. intros a b Ha Hb. rewrite nth_grid by assumption. reflexivity. Qed.
Lemma knock_cols_grid fl n g : knock_cols fl n (grid n g) = grid n (fun a b => if nth b fl false then false else g a b).
Proof. unfold knock_cols. apply grid_ext. intros a b Ha Hb. rewrite nth_grid by assumption. reflexivity. Qed.
Lemma flat_map_const_repeat {X Y} (x : X) m (l : list Y) : flat_map (fun _ => repeat x m) l = repeat x (length l * m).
Proof. induction l; simpl; auto. rewrite IHl, repeat_app. reflexivity. Qed.
Lemma repeat_grid n : repeat true (n * n) = grid n (fun _ _ => true).
Proof.
  unfold grid. rewrite (flat_map_ext_in' _ (fun _ => repeat true n)).
  - rewrite flat_map_const_repeat, seq_length. reflexivity.
  - intros a _. rewrite map_const_repeat, seq_length. reflexivity.
Qed.

Lemma on_block_mid {X} (f : list X -> list X) s sz (D B R : list X) :
  length D = s * sz -> length B = sz -> on_block s sz f (D ++ B ++ R) = D ++ f B ++ R.
Proof.
  intros HD HB. unfold on_block. rewrite <- HD, <- HB.
  rewrite firstn_app_exact. rewrite <- (Nat.add_0_r (length D)) at 1. rewrite skipn_app_exact. cbn [skipn].
  rewrite firstn_app_exact. rewrite skipn_app_exact. rewrite <- (Nat.add_0_r (length B)), skipn_app_exact. reflexivity.
Qed.

Lemma el_dofs_length dim row : length (el_dofs dim row) = length row * dim.
Proof. unfold el_dofs. rewrite flat_map_map_length, seq_length. reflexivity. Qed.

Section BMPure.
  Variables (isBc : list bool) (dim : nat) (all : list (list nat)).
  Notation npe := (length (hd [] all)).
  Notation nd := (npe * dim).
  Notation FM := (flat_map (el_mask isBc dim)).
  Definition rect (rows : list (list nat)) : Prop := Forall (fun row => length row = npe) rows.

  Lemma el_mask_grid row : length row = npe ->
    el_mask isBc dim row = grid nd (fun a b => negb (nth a (el_bc_flags isBc dim row) false) && negb (nth b (el_bc_flags isBc dim row) false)).
  Proof.
    intros H. unfold el_mask, grid. cbv zeta.
    assert (L : length (el_bc_flags isBc dim row) = nd) by (unfold el_bc_flags; rewrite map_length, el_dofs_length, H; reflexivity).
    set (f := el_bc_flags isBc dim row) in *.
    transitivity (flat_map (fun fa => map (fun fb => negb fa && negb fb) (map (fun a => nth a f false) (seq 0 nd)))
                           (map (fun a => nth a f false) (seq 0 nd))).
    { rewrite <- L, <- (list_as_map_nth false f). reflexivity. }
    rewrite flat_map_map. apply flat_map_ext_in'. intros a _. rewrite map_map. reflexivity.
  Qed.

  Lemma updm_block row s D m : length row = npe -> length D = s * (nd * nd) ->
    updm dim isBc all s row (D ++ repeat true (S m * (nd * nd))) = (D ++ el_mask isBc dim row) ++ repeat true (m * (nd * nd)).
  Proof.
    intros H HD. unfold updm.
    replace (repeat true (S m * (nd * nd))) with (repeat true (nd * nd) ++ repeat true (m * (nd * nd))) by (rewrite <- repeat_app; reflexivity).
    rewrite on_block_mid by (auto; apply repeat_length).
    rewrite repeat_grid, knock_rows_grid.
    rewrite on_block_mid by (auto; apply grid_length).
    rewrite knock_cols_grid, el_mask_grid, <- app_assoc by assumption. do 2 f_equal.
    apply grid_ext. intros a b _ _.
    destruct (nth a (el_bc_flags isBc dim row) false), (nth b (el_bc_flags isBc dim row) false); reflexivity.
  Qed.

  Lemma FM_length rows : rect rows -> length (FM rows) = length rows * (nd * nd).
  Proof.
    induction 1 as [|row rows Hrow HR IH]; simpl; auto.
    rewrite app_length, IH, el_mask_grid, grid_length by assumption. reflexivity.
  Qed.

  Lemma fillm_spec rows : forall done, rect done -> rect rows ->
    fillm dim isBc all (length done) rows (FM done ++ repeat true (length rows * (nd * nd))) = FM (done ++ rows).
  Proof.
    induction rows as [|row rows IH]; intros done HD HR.
    - simpl. rewrite !app_nil_r. reflexivity.
    - inversion HR as [|? ? Hrow HR']; subst. cbn [fillm length].
      rewrite updm_block by (auto; apply FM_length; assumption).
      assert (E : FM (done ++ [row]) = FM done ++ el_mask isBc dim row) by (rewrite flat_map_app; simpl; rewrite app_nil_r; reflexivity).
      rewrite <- E. replace (S (length done)) with (length (done ++ [row])) by (rewrite app_length; simpl; lia).
      rewrite IH; [rewrite <- app_assoc; reflexivity| |assumption].
      apply Forall_app. split; [assumption|constructor; [assumption|constructor]].
  Qed.

  Lemma bm_raw_spec : rect all ->
    fillm dim isBc all 0 all (repeat true (prodn [length all; nd; nd])) = hessian_bc_mask isBc dim all.
  Proof.
    intros HR. pose proof (fillm_spec all [] (Forall_nil _) HR) as H. cbn [length flat_map app] in H.
    unfold hessian_bc_mask. rewrite <- H. do 2 f_equal. unfold prodn. simpl. lia.
  Qed.
End BMPure.

(* ------------------------------------------------------------------ __init__ after the BC loop, and the constructor *)
Definition ones_raw (n : nat) : list Z := map (fun k => (Z.of_nat k * - Z.of_nat 1)%Z) (repeat 1 n).
Lemma ones_raw_eq n : ones_raw n = repeat (-1)%Z n.
Proof. unfold ones_raw. rewrite map_repeat'. reflexivity. Qed.
Definition d2u_from (ones : list Z) (isBc : list bool) : list Z :=
  scatter ones (unknownIndices isBc) (map Z.of_nat (seq 0 (length (unknownIndices isBc)))).

Ltac stepi := lazy -[Nat.eqb Nat.mul Nat.add so1_fields mk_isBc].

Section Ctor2.
  Context {A : Type} (zero : A).
  Variables (nNodes dim : nat) (sets : string -> list nat) (conns : list (list nat)) (ebl : list (string * nat)).
  Variable cm : string -> @val A -> list (@val A) -> option (@val A).
  Notation RCn := (RC nNodes dim sets conns ebl).

  Definition RD (pre : env) (acc : list bool) (v1 v2 selfv : @val A) : env :=
    bind "dofToUnknown" v2 (bind "ones" v1 (bind "self" selfv (RCn pre acc))).

  Lemma init_mid_raw pre acc : (pre = [] \/ exists v, pre = [("ebc", v)]) ->
    exec_block zero cm (RCn pre acc) (firstn 9 (skipn 3 init_body))
    = Some (ONext (RD pre acc (VZ [length acc] (ones_raw (length acc))) (VZ [length acc] (d2u_from (ones_raw (length acc)) acc))
                      (VObj (fields1 nNodes dim acc (d2u_from (ones_raw (length acc)) acc))))).
  Proof. intros [->|(v & ->)]; reflexivity. Qed.

  Lemma init_mid pre acc : (pre = [] \/ exists v, pre = [("ebc", v)]) -> exists v1 v2,
    exec_block zero cm (RCn pre acc) (firstn 9 (skipn 3 init_body)) = Some (ONext (RD pre acc v1 v2 (so1 nNodes dim acc))).
  Proof.
    intros H. rewrite (init_mid_raw pre acc H), ones_raw_eq. do 2 eexists. reflexivity.
  Qed.

  Variables (isBc : list bool) (vr vc vm : @val A).
  Hypothesis Hhc : cm "_make_hessian_coordinates" (so1 nNodes dim isBc) [VConns conns] = Some (VTup [vr; vc]).
  Hypothesis Hbm : cm "_make_hessian_bc_mask" (so2 nNodes dim isBc vr vc) [VConns conns] = Some vm.

  Definition built_fields : list (string * @val A) :=
    ("hessian_bc_mask", vm) :: ("HessColCoords", vc) :: ("HessRowCoords", vr) :: so1_fields nNodes dim isBc.

  Lemma init_tail pre v1 v2 : (pre = [] \/ exists v, pre = [("ebc", v)]) -> exists r,
    exec_block zero cm (RD pre isBc v1 v2 (so1 nNodes dim isBc)) (skipn 12 init_body) = Some (ONext r)
    /\ lookup "self" r = Some (VObj built_fields).
  Proof.
    pose proof Hhc as H1. unfold so1 in H1. pose proof Hbm as H2. unfold so2 in H2.
    intros [->|(v & ->)];
      (let b := eval cbv in (skipn 12 init_body) in change (skipn 12 init_body) with b);
      stepi; (rewrite H1 || fail "hc"); stepi; (rewrite H2 || fail "bm"); eexists; (split; reflexivity).
  Qed.

  (* everything after the BC loop *)
  Lemma init_post pre : (pre = [] \/ exists v, pre = [("ebc", v)]) -> exists r,
    exec_block zero cm (RCn pre isBc) (skipn 3 init_body) = Some (ONext r) /\ lookup "self" r = Some (VObj built_fields).
  Proof.
    intros H. change (skipn 3 init_body) with (firstn 9 (skipn 3 init_body) ++ skipn 12 init_body).
    rewrite exec_block_app. destruct (init_mid pre isBc H) as (v1 & v2 & ->). apply init_tail; assumption.
  Qed.
End Ctor2.

(* ------------------------------------------------------------------ the constructor theorem *)

Section Main.
  Context {A : Type} (zero : A).
  Variables (nNodes dim : nat) (sets : string -> list nat) (conns : list (list nat)) (ebl : list (string * nat)) (F : nat).
  Hypothesis HV : valid_conns nNodes conns.
  Hypothesis HR : rect_conns conns.
  Hypothesis HNE : conns <> [].
  Notation isBcF := (mk_isBc nNodes dim (ebcs_of sets ebl)).
  Notation cmF := (call zero cfg_dof_methods (S F)).

  Definition built_object : @val A :=
    VObj (built_fields nNodes dim isBcF
            (VZ [length (HessRowCoords isBcF dim conns)] (HessRowCoords isBcF dim conns))
            (VZ [length (HessRowCoords isBcF dim conns)] (HessColCoords isBcF dim conns))
            (VB [length conns; length (hd [] conns) * dim; length (hd [] conns) * dim] (hessian_bc_mask isBcF dim conns))).

  Lemma in_range_F : Forall (el_in_range isBcF dim) conns.
  Proof. apply (valid_conns_in_range _ _ nNodes); [apply mk_isBc_length|assumption]. Qed.

  Lemma hc_call_model :
    cmF "_make_hessian_coordinates" (so1 nNodes dim isBcF) [VConns conns]
    = Some (VTup [VZ [length (HessRowCoords isBcF dim conns)] (HessRowCoords isBcF dim conns);
                  VZ [length (HessRowCoords isBcF dim conns)] (HessColCoords isBcF dim conns)]).
  Proof.
    destruct conns as [|row0 rows] eqn:E; [congruence|]. rewrite <- E in *.
    rewrite (hc_call_raw zero nNodes dim isBcF conns F row0 rows E). rewrite <- E.
    destruct (hc_raw_spec isBcF dim conns in_range_F) as (-> & -> & ->). reflexivity.
  Qed.

  Lemma bm_call_model vr vc :
    cmF "_make_hessian_bc_mask" (so2 nNodes dim isBcF vr vc) [VConns conns]
    = Some (VB [length conns; length (hd [] conns) * dim; length (hd [] conns) * dim] (hessian_bc_mask isBcF dim conns)).
  Proof.
    destruct conns as [|row0 rows] eqn:E; [congruence|]. rewrite <- E in *.
    rewrite (bm_call_raw zero nNodes dim isBcF conns vr vc F row0 rows E). rewrite <- E.
    rewrite bm_raw_spec by exact HR. reflexivity.
  Qed.

  Lemma construct_built :
    construct zero cfg_dof_methods (S F) [mk_fsp nNodes sets conns; VInt dim; mk_ebcs ebl] = Some built_object.
  Proof.
    unfold construct.
    change (find (fun d => String.eqb (fst d) "__init__") cfg_dof_methods) with (Some ("__init__", cfg_dof_init)).
    cbn [snd]. unfold run_body. rewrite init_params. fold init_body.
    change init_body with (firstn 3 init_body ++ skipn 3 init_body). rewrite exec_block_app.
    destruct (init_loop zero nNodes dim sets conns cmF ebl) as (pre & Hpre & ->).
    destruct (init_post zero nNodes dim sets conns ebl cmF isBcF _ _ _ hc_call_model (bm_call_model _ _) pre Hpre) as (r & -> & ->).
    reflexivity.
  Qed.

  Lemma construct_full :
    option_map (canon_object cfg_dof_fields) (construct zero cfg_dof_methods (S F) [mk_fsp nNodes sets conns; VInt dim; mk_ebcs ebl])
    = Some (canon_object cfg_dof_fields (dof_object nNodes dim isBcF conns)).
  Proof. rewrite construct_built. reflexivity. Qed.
End Main.

(* ------------------------------------------------------------------ end to end: construct, then call the extracted methods / assembler *)
Section BuiltMethods.
  Context {A : Type} (zero : A).
  Variables (nNodes dim : nat) (isBc : list bool) (vr vc vm : @val A).
  Hypothesis Hsize : length isBc = nNodes * dim.
  Let obj : @val A := VObj (built_fields nNodes dim isBc vr vc vm).
  Notation callm := (call zero cfg_dof_methods).

  Lemma built_methods F :
    callm (S F) "get_bc_size" obj [] = Some (VInt (get_bc_size isBc))
    /\ callm (S F) "get_unknown_size" obj [] = Some (VInt (get_unknown_size isBc))
    /\ (forall sh U, callm (S F) "get_bc_values" obj [VA sh U] = Some (VA [count_true isBc] (get_bc_values isBc U)))
    /\ (forall sh U, callm (S F) "get_unknown_values" obj [VA sh U] = Some (VA [count_true (isUnknown isBc)] (get_unknown_values isBc U)))
    /\ (forall s1 s2 Uu Ubc, callm (S F) "create_field" obj [VA s1 Uu; VA s2 Ubc] = Some (VA [nNodes; dim] (create_field isBc zero Uu Ubc)))
    /\ (forall s1 Uu c, callm (S F) "create_field" obj [VA s1 Uu; VSc c] = Some (VA [nNodes; dim] (create_field_scalar isBc zero Uu c)))
    /\ (forall s1 Uu, callm (S F) "create_field" obj [VA s1 Uu] = Some (VA [nNodes; dim] (create_field_scalar isBc zero Uu zero)))
    /\ (forall s1 Uu pos, callm (S F) "slice_unknowns_with_dof_indices" obj [VA s1 Uu; VPos pos]
                          = Some (VA [count_true (map (is_unknown isBc) pos)] (slice_unknowns isBc zero Uu pos))).
  Proof.
    repeat split; intros; try reflexivity.
    - unfold create_field, nDofs. rewrite Hsize, <- prodn2. reflexivity.
    - unfold create_field_scalar, create_field, nDofs, get_bc_size. rewrite Hsize, <- prodn2. reflexivity.
    - unfold create_field_scalar, create_field, nDofs, get_bc_size. rewrite Hsize, <- prodn2. reflexivity.
  Qed.
End BuiltMethods.

Lemma built_assemble {A} (zero : A) nNodes dim sets conns ebl n0 n1 n3 n4 (kflat : list A) :
  let isBc := mk_isBc nNodes dim (ebcs_of sets ebl) in
  run_function zero cfg_asm_assemble_sparse_stiffness_matrix
               [VA [n0; n1; dim; n3; n4] kflat; VConns conns; built_object nNodes dim sets conns ebl]
  = Some (VCsc (length (unknownIndices isBc)) (length (unknownIndices isBc))
               (HessRowCoords isBc dim conns) (HessColCoords isBc dim conns)
               (mask_select (hessian_bc_mask isBc dim conns) kflat)).
Proof. reflexivity. Qed.

(* the packaged end-to-end statement: the extracted constructor, then every extracted public method and the extracted assembler, on
   a mesh (nNodes, node sets, connectivity) and a list of essential BCs (node-set name, component) *)
Lemma construct_end_to_end (A : Type) (zero : A) nNodes dim sets conns ebl F :
  valid_conns nNodes conns -> rect_conns conns -> conns <> [] ->
  let isBc := mk_isBc nNodes dim (ebcs_of sets ebl) in
  exists obj : @val A,
    construct zero cfg_dof_methods (S F) [mk_fsp nNodes sets conns; VInt dim; mk_ebcs ebl] = Some obj
    /\ canon_object cfg_dof_fields obj = canon_object cfg_dof_fields (dof_object nNodes dim isBc conns)
    /\ (let callm := call zero cfg_dof_methods (S F) in
        callm "get_bc_size" obj [] = Some (VInt (get_bc_size isBc))
        /\ callm "get_unknown_size" obj [] = Some (VInt (get_unknown_size isBc))
        /\ (forall sh U, callm "get_bc_values" obj [VA sh U] = Some (VA [count_true isBc] (get_bc_values isBc U)))
        /\ (forall sh U, callm "get_unknown_values" obj [VA sh U] = Some (VA [count_true (isUnknown isBc)] (get_unknown_values isBc U)))
        /\ (forall s1 s2 Uu Ubc, callm "create_field" obj [VA s1 Uu; VA s2 Ubc] = Some (VA [nNodes; dim] (create_field isBc zero Uu Ubc)))
        /\ (forall s1 Uu c, callm "create_field" obj [VA s1 Uu; VSc c] = Some (VA [nNodes; dim] (create_field_scalar isBc zero Uu c)))
        /\ (forall s1 Uu, callm "create_field" obj [VA s1 Uu] = Some (VA [nNodes; dim] (create_field_scalar isBc zero Uu zero)))
        /\ (forall s1 Uu pos, callm "slice_unknowns_with_dof_indices" obj [VA s1 Uu; VPos pos]
                              = Some (VA [count_true (map (is_unknown isBc) pos)] (slice_unknowns isBc zero Uu pos)))).
Proof.
  intros HV HR HNE isBc. exists (built_object nNodes dim sets conns ebl).
  split; [apply construct_built; assumption|]. split; [reflexivity|].
  apply built_methods. apply mk_isBc_length.
Qed.

(* ... and the extracted assembler on the constructed object returns the matrix assembled by hand from the element matrices, the
   connectivity and the DECLARED BCs (node-set names resolved through mesh.nodeSets) *)
Lemma construct_then_assemble nNodes dim sets conns ebl F (kvals : list (list Z)) n0 n1 n3 n4 :
  valid_conns nNodes conns -> rect_conns conns -> conns <> [] -> asm_blocks_ok dim conns kvals ->
  match construct 0%Z cfg_dof_methods (S F) [mk_fsp nNodes sets conns; VInt dim; mk_ebcs ebl] with
  | Some obj =>
      match run_function 0%Z cfg_asm_assemble_sparse_stiffness_matrix [VA [n0; n1; dim; n3; n4] (concat kvals); VConns conns; obj] with
      | Some K => csc_dense K
      | None => None
      end
  | None => None
  end = Some (assemble (mk_isBc nNodes dim (ebcs_of sets ebl)) dim conns kvals).
Proof.
  intros HV HR HNE HB. rewrite construct_built by assumption. rewrite built_assemble.
  unfold csc_dense. rewrite Nat.eqb_refl. f_equal.
  destruct (assemble_maps_by_hand_full (mk_isBc nNodes dim (ebcs_of sets ebl)) dim nNodes conns kvals (mk_isBc_length _ _ _) HV HB) as (E & _).
  exact E.
Qed.

(* non-vacuity: the worked example of L_C14_IR.ex_construct satisfies the hypotheses and is an instance *)
Definition ex_sets (s : string) : list nat := if String.eqb s "a" then [0;2;2] else if String.eqb s "b" then [2;3] else [].
Lemma ex_ctor_nonvacuous :
  valid_conns 4 ex_conns /\ rect_conns ex_conns /\ ex_conns <> []
  /\ mk_fsp 4 ex_sets ex_conns = ex_fsp /\ mk_ebcs [("a", 0); ("b", 0); ("c", 1)] = ex_ebcs
  /\ mk_isBc 4 2 (ebcs_of ex_sets [("a", 0); ("b", 0); ("c", 1)]) = ex_isBc.
Proof.
  repeat split; try reflexivity; try discriminate.
  - unfold valid_conns, ex_conns. repeat constructor.
  - unfold rect_conns, ex_conns. repeat constructor.
Qed.

(* ------------------------------------------------------------------ a mesh without elements (both helper loops make zero trips) *)
Lemma construct_no_elements {A} (zero : A) nNodes dim sets ebl F :
  construct zero cfg_dof_methods (S F) [mk_fsp nNodes sets []; VInt dim; mk_ebcs ebl]
  = Some (VObj (built_fields nNodes dim (mk_isBc nNodes dim (ebcs_of sets ebl)) (VN [0] []) (VN [0] []) (VB [0; 0; 0] []))).
Proof.
  unfold construct.
  change (find (fun d => String.eqb (fst d) "__init__") cfg_dof_methods) with (Some ("__init__", cfg_dof_init)).
  cbn [snd]. unfold run_body. rewrite init_params. fold init_body.
  change init_body with (firstn 3 init_body ++ skipn 3 init_body). rewrite exec_block_app.
  destruct (init_loop zero nNodes dim sets [] (call zero cfg_dof_methods (S F)) ebl) as (pre & Hpre & ->).
  destruct (init_post zero nNodes dim sets [] ebl (call zero cfg_dof_methods (S F)) (mk_isBc nNodes dim (ebcs_of sets ebl))
                      (VN [0] []) (VN [0] []) (VB [0; 0; 0] []) eq_refl eq_refl pre Hpre) as (r & -> & ->).
  reflexivity.
Qed.

(* for EVERY rectangular in-range connectivity table, empty or not: same object up to the tag of integer arrays *)
Lemma construct_full_data (A : Type) (zero : A) nNodes dim sets conns ebl F :
  valid_conns nNodes conns -> rect_conns conns ->
  option_map (canon_data cfg_dof_fields) (construct zero cfg_dof_methods (S F) [mk_fsp nNodes sets conns; VInt dim; mk_ebcs ebl])
  = Some (canon_data cfg_dof_fields (dof_object nNodes dim (mk_isBc nNodes dim (ebcs_of sets ebl)) conns)).
Proof.
  intros HV HR. destruct conns as [|row0 rows] eqn:E.
  - rewrite construct_no_elements. reflexivity.
  - rewrite <- E in *. rewrite construct_built by (assumption || congruence). reflexivity.
Qed.
