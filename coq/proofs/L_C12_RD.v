(* C12 (round 3): the relative-difference kernels of the derivative rules that were "NOT PROVED" in round 1/2:
   (e) truncation error of _relative_log_difference_taylor (series of ln((1+r)/(1-r)) cut after r^9) on the range where the
       branching kernel _relative_log_difference selects it, and the accuracy of that branching kernel;
   (f) the kernels actually wired into log_symm / pow_symm, _log_relative_difference and _pow_relative_difference (argsort by
       magnitude, log1p / expm1, the nearOne / xIsZero selects), are the divided differences of ln and of x |-> x^m.
   All statements are about the kernels regenerated from /repo/optimism/TensorMath.py (OV.gen.Gen_TensorMathFun) at T := R. *)
From Coq Require Import Reals Lra.
From Coquelicot Require Import Coquelicot.
From Interval Require Import Tactic.
From OV.base Require Import Num.
From OV.gen Require Import Gen_TensorMathFun.
Local Open Scope R_scope.

Ltac rdnum := cbv beta iota zeta delta [_relative_log_difference_taylor _relative_log_difference_no_tolerance_check
   _relative_log_difference _log_relative_difference _pow_relative_difference]; unfold_num; q2r.

(* ---------- (e) the Taylor branch ---------- *)
Definition atanh2 (r : R) : R := ln ((1 + r) / (1 - r)).
Definition ser9 (r : R) : R := 2 + 2 / 3 * r ^ 2 + 2 / 5 * r ^ 4 + 2 / 7 * r ^ 6 + 2 / 9 * r ^ 8.
Definition rem9 (r : R) : R := atanh2 r - r * ser9 r.

Lemma rem9_derive x : -1 < x < 1 -> is_derive rem9 x (2 * x ^ 10 / (1 - x ^ 2)).
Proof.
  intros Hx. unfold rem9, atanh2, ser9. auto_derive.
  - repeat split; try lra. apply Rdiv_lt_0_compat; lra.
  - field. split; [nra|]. split; lra.
Qed.

Lemma rem9_mvt r : Rabs r <= 1 / 40 -> exists c, Rabs c <= Rabs r /\ rem9 r = 2 * c ^ 10 / (1 - c ^ 2) * r.
Proof.
  intros Hr. assert (Hr' : -1/40 <= r <= 1/40) by (apply Rabs_le_between in Hr; lra).
  destruct (MVT_gen rem9 0 r (fun x => 2 * x ^ 10 / (1 - x ^ 2))) as (c & Hc & E).
  - intros x Hx. apply rem9_derive. unfold Rmin, Rmax in Hx. destruct (Rle_dec 0 r); lra.
  - intros x Hx. apply continuity_pt_filterlim. apply (ex_derive_continuous (V := R_NormedModule)).
    exists (2 * x ^ 10 / (1 - x ^ 2)). apply rem9_derive. unfold Rmin, Rmax in Hx. destruct (Rle_dec 0 r); lra.
  - exists c. split.
    + unfold Rmin, Rmax in Hc. unfold Rabs. destruct (Rle_dec 0 r), (Rcase_abs c), (Rcase_abs r); lra.
    + assert (D0 : rem9 0 = 0).
      { unfold rem9, atanh2, ser9. replace ((1 + 0) / (1 - 0)) with 1 by field. rewrite ln_1. ring. }
      rewrite D0 in E. lra.
Qed.

(* relative truncation error of the series for |r| <= 1/40: at most 1e-16 (below the binary64 unit roundoff 2^-53 ~ 1.11e-16) *)
Lemma atanh2_series r : Rabs r <= 1 / 40 -> Rabs (r * ser9 r - atanh2 r) <= 1 / 10000000000000000 * Rabs (atanh2 r).
Proof.
  intros Hr. destruct (rem9_mvt r Hr) as (c & Hc & E).
  assert (Hr' : -1/40 <= r <= 1/40) by (apply Rabs_le_between in Hr; lra).
  assert (Hc0 : Rabs c <= 1 / 40) by lra. assert (Hc' : -1/40 <= c <= 1/40) by (apply Rabs_le_between in Hc0; lra).
  set (k := 2 * c ^ 10 / (1 - c ^ 2)) in *.
  assert (Hk : 0 <= k <= 2 / 10000000000000000).
  { unfold k. clear -Hc'. split.
    - apply Rmult_le_pos; [|left; apply Rinv_0_lt_compat; nra].
      replace (c ^ 10) with ((c ^ 5) ^ 2) by ring. nra.
    - interval with (i_prec 80). }
  assert (HP : 2 <= ser9 r).
  { unfold ser9. assert (0 <= r ^ 2) by nra. assert (0 <= r ^ 4) by (replace (r ^ 4) with ((r ^ 2) ^ 2) by ring; nra).
    assert (0 <= r ^ 6) by (replace (r ^ 6) with ((r ^ 3) ^ 2) by ring; nra).
    assert (0 <= r ^ 8) by (replace (r ^ 8) with ((r ^ 4) ^ 2) by ring; nra). lra. }
  assert (EL : atanh2 r = r * (ser9 r + k)) by (unfold rem9 in E; lra).
  replace (r * ser9 r - atanh2 r) with (- (k * r)) by lra.
  rewrite Rabs_Ropp, EL, !Rabs_mult.
  rewrite (Rabs_pos_eq k) by lra. rewrite (Rabs_pos_eq (ser9 r + k)) by lra.
  assert (0 <= Rabs r) by apply Rabs_pos. nra.
Qed.

Lemma taylor_range l1 l2 : 0 < l1 -> 0 < l2 -> Rabs (l1 - l2) <= 5 / 100 * Rmin l1 l2 -> Rabs ((l1 - l2) / (l1 + l2)) <= 1 / 40.
Proof.
  intros H1 H2 Hd. unfold Rdiv. rewrite Rabs_mult, (Rabs_pos_eq (/ (l1 + l2))) by (left; apply Rinv_0_lt_compat; lra).
  apply Rmult_le_reg_r with (l1 + l2); [lra|]. rewrite Rmult_assoc, Rinv_l, Rmult_1_r by lra.
  unfold Rmin in Hd. destruct (Rle_dec l1 l2); lra.
Qed.

Theorem log_taylor_truncation l1 l2 : 0 < l1 -> 0 < l2 -> l1 <> l2 -> Rabs (l1 - l2) <= 5 / 100 * Rmin l1 l2 ->
  Rabs (@_relative_log_difference_taylor R NumR l1 l2 - (ln l1 - ln l2) / (l1 - l2))
  <= 1 / 10000000000000000 * Rabs ((ln l1 - ln l2) / (l1 - l2)).
Proof.
  intros H1 H2 Hne Hd.
  set (r := (l1 - l2) / (l1 + l2)).
  assert (Hs : 0 < l1 + l2) by lra.
  assert (Hr : Rabs r <= 1 / 40) by (apply taylor_range; assumption).
  assert (Hrne : r <> 0).
  { unfold r. intros Hz. apply Hne. apply Rmult_integral in Hz. destruct Hz as [Hz|Hz]; [lra|].
    exfalso. apply (Rinv_neq_0_compat (l1 + l2)); lra. }
  assert (Hr' : -1/40 <= r <= 1/40) by (apply Rabs_le_between in Hr; lra).
  assert (EK : @_relative_log_difference_taylor R NumR l1 l2 = r * ser9 r / (r * (l1 + l2))).
  { rdnum. fold r. unfold ser9. field. split; lra. }
  assert (ED : (ln l1 - ln l2) / (l1 - l2) = atanh2 r / (r * (l1 + l2))).
  { unfold atanh2. replace ((1 + r) / (1 - r)) with (l1 * / l2) by (unfold r; field; split; lra).
    rewrite ln_mult, ln_Rinv by (try apply Rinv_0_lt_compat; lra).
    replace (r * (l1 + l2)) with (l1 - l2) by (unfold r; field; lra). reflexivity. }
  rewrite EK, ED.
  replace (r * ser9 r / (r * (l1 + l2)) - atanh2 r / (r * (l1 + l2))) with ((r * ser9 r - atanh2 r) * / (r * (l1 + l2)))
    by (field; split; lra).
  unfold Rdiv at 2. rewrite !Rabs_mult.
  pose proof (atanh2_series r Hr) as HT.
  assert (0 <= Rabs (/ (r * (l1 + l2)))) by apply Rabs_pos. nra.
Qed.

(* the truncated series under-estimates: the kernel never exceeds the divided difference (all dropped terms are positive) *)
Theorem log_taylor_one_sided l1 l2 : 0 < l1 -> 0 < l2 -> l1 <> l2 -> Rabs (l1 - l2) <= 5 / 100 * Rmin l1 l2 ->
  0 < @_relative_log_difference_taylor R NumR l1 l2 <= (ln l1 - ln l2) / (l1 - l2).
Proof.
  intros H1 H2 Hne Hd.
  set (r := (l1 - l2) / (l1 + l2)).
  assert (Hs : 0 < l1 + l2) by lra.
  assert (Hr : Rabs r <= 1 / 40) by (apply taylor_range; assumption).
  assert (Hr' : -1/40 <= r <= 1/40) by (apply Rabs_le_between in Hr; lra).
  assert (Hrne : r <> 0).
  { unfold r. intros Hz. apply Hne. apply Rmult_integral in Hz. destruct Hz as [Hz|Hz]; [lra|].
    exfalso. apply (Rinv_neq_0_compat (l1 + l2)); lra. }
  destruct (rem9_mvt r Hr) as (c & Hc & E).
  assert (Hc' : -1/40 <= c <= 1/40) by (assert (Rabs c <= 1 / 40) by lra; apply Rabs_le_between in H; lra).
  set (k := 2 * c ^ 10 / (1 - c ^ 2)) in *.
  assert (Hk : 0 <= k).
  { unfold k. apply Rmult_le_pos; [|left; apply Rinv_0_lt_compat; nra]. replace (c ^ 10) with ((c ^ 5) ^ 2) by ring. nra. }
  assert (HP : 2 <= ser9 r).
  { unfold ser9. assert (0 <= r ^ 2) by nra. assert (0 <= r ^ 4) by (replace (r ^ 4) with ((r ^ 2) ^ 2) by ring; nra).
    assert (0 <= r ^ 6) by (replace (r ^ 6) with ((r ^ 3) ^ 2) by ring; nra).
    assert (0 <= r ^ 8) by (replace (r ^ 8) with ((r ^ 4) ^ 2) by ring; nra). lra. }
  assert (EK : @_relative_log_difference_taylor R NumR l1 l2 = ser9 r / (l1 + l2)).
  { rdnum. fold r. unfold ser9. field. lra. }
  assert (ED : (ln l1 - ln l2) / (l1 - l2) = (ser9 r + k) / (l1 + l2)).
  { assert (EA : atanh2 r = r * (ser9 r + k)) by (unfold rem9 in E; lra).
    assert (EL : ln l1 - ln l2 = atanh2 r).
    { unfold atanh2. replace ((1 + r) / (1 - r)) with (l1 * / l2) by (unfold r; field; split; lra).
      rewrite ln_mult, ln_Rinv by (try apply Rinv_0_lt_compat; lra). ring. }
    rewrite EL, EA. replace (l1 - l2) with (r * (l1 + l2)) by (unfold r; field; lra). field. split; lra. }
  rewrite EK, ED. assert (Hi : 0 < / (l1 + l2)) by (apply Rinv_0_lt_compat; lra). unfold Rdiv. split; nra.
Qed.

Lemma log_plain_exact l1 l2 : 0 < l1 -> 0 < l2 -> l1 <> l2 ->
  @_relative_log_difference_no_tolerance_check R NumR l1 l2 = (ln l1 - ln l2) / (l1 - l2).
Proof. intros H1 H2 Hne. rdnum. unfold Rdiv at 2. rewrite ln_mult, ln_Rinv by (try apply Rinv_0_lt_compat; lra). field. lra. Qed.

(* the branching reference kernel _relative_log_difference: exact where the difference is large, 1e-16 relative on the Taylor branch *)
Theorem relative_log_difference_accuracy l1 l2 : 0 < l1 -> 0 < l2 -> l1 <> l2 ->
  Rabs (@_relative_log_difference R NumR l1 l2 - (ln l1 - ln l2) / (l1 - l2))
  <= 1 / 10000000000000000 * Rabs ((ln l1 - ln l2) / (l1 - l2)).
Proof.
  intros H1 H2 Hne. unfold _relative_log_difference. unfold_num. q2r. rcases.
  - rewrite log_plain_exact by assumption.
    replace ((ln l1 - ln l2) / (l1 - l2) - (ln l1 - ln l2) / (l1 - l2)) with 0 by ring. rewrite Rabs_R0.
    assert (0 <= Rabs ((ln l1 - ln l2) / (l1 - l2))) by apply Rabs_pos. lra.
  - apply log_taylor_truncation; try assumption.
    unfold Rmin. revert Hc. unfold nmin, Rmin. unfold_num. rcases; intros; destruct (Rle_dec l1 l2); lra.
Qed.

(* ---------- (f) the argsort-based kernels wired into log_symm and pow_symm ---------- *)
Theorem log_relative_difference_argsort_exact l1 l2 : 0 < l1 -> 0 < l2 -> l1 <> l2 ->
  @_log_relative_difference R NumR l1 l2 = (ln l1 - ln l2) / (l1 - l2).
Proof.
  intros H1 H2 Hne. rdnum. cbv beta iota zeta delta [nunit nZ]. unfold_num. q2r.
  rewrite !(Rabs_pos_eq l1), !(Rabs_pos_eq l2) by lra.
  rcases.
  - assert (E : 1 + (l2 / l1 - 1) = l2 * / l1) by (field; lra). rewrite E.
    rewrite (ln_mult l2 (/ l1)) by (first [lra | apply Rinv_0_lt_compat; lra]). rewrite (ln_Rinv l1) by lra. field. split; lra.
  - assert (E : 1 + (l1 / l2 - 1) = l1 * / l2) by (field; lra). rewrite E.
    rewrite (ln_mult l1 (/ l2)) by (first [lra | apply Rinv_0_lt_compat; lra]). rewrite (ln_Rinv l2) by lra. field. split; lra.
Qed.
(* the kernel is symmetric in its arguments (the argsort makes the operand order irrelevant) *)
Theorem log_relative_difference_argsort_sym l1 l2 : 0 < l1 -> 0 < l2 -> l1 <> l2 ->
  @_log_relative_difference R NumR l1 l2 = @_log_relative_difference R NumR l2 l1.
Proof.
  intros H1 H2 Hne. rewrite !log_relative_difference_argsort_exact by (try assumption; auto). field. split; lra.
Qed.

Lemma rpow_split b m : 0 < b -> exp ((m - 1) * ln b) = exp (m * ln b) / b.
Proof.
  intros Hb. replace ((m - 1) * ln b) with (m * ln b + - ln b) by ring.
  rewrite exp_plus, exp_Ropp, exp_ln by assumption. reflexivity.
Qed.
Lemma pow_rd_core s b m : 0 < s -> 0 < b -> s <> b ->
  exp ((m - 1) * ln b) * ((exp (m * ln (s / b)) - 1) / (s / b - 1)) = (exp (m * ln s) - exp (m * ln b)) / (s - b).
Proof.
  intros Hs Hb Hne. rewrite rpow_split by assumption.
  assert (EL : ln (s / b) = ln s + - ln b).
  { unfold Rdiv. rewrite (ln_mult s (/ b)) by (first [lra | apply Rinv_0_lt_compat; lra]). rewrite (ln_Rinv b) by lra. reflexivity. }
  rewrite EL.
  replace (m * (ln s + - ln b)) with (m * ln s + - (m * ln b)) by ring. rewrite exp_plus, exp_Ropp.
  assert (0 < exp (m * ln b)) by apply exp_pos. field. repeat split; lra.
Qed.

(* both ways the kernel forms the ratio (expm1(m log1p x)/x with x = small/big - 1 when small/big > 1/2, (arg^m - 1)/(arg - 1)
   otherwise) and both operand orders give the divided difference of x |-> x^m = exp(m ln x) *)
Theorem pow_relative_difference_argsort_exact l1 l2 m : 0 < l1 -> 0 < l2 -> l1 <> l2 ->
  @_pow_relative_difference R NumR l1 l2 m = (Rpower l1 m - Rpower l2 m) / (l1 - l2).
Proof.
  intros H1 H2 Hne. unfold Rpower. rdnum. cbv beta iota zeta delta [nunit nZ nzero]. unfold_num. q2r.
  rewrite !(Rabs_pos_eq l1), !(Rabs_pos_eq l2) by lra.
  assert (Q1 : 0 < l1 / l2) by (apply Rdiv_lt_0_compat; lra).
  assert (Q2 : 0 < l2 / l1) by (apply Rdiv_lt_0_compat; lra).
  assert (N1 : l1 / l2 - 1 <> 0). { intro Hz. apply Hne. apply Rmult_eq_reg_r with (/ l2); [|apply Rinv_neq_0_compat; lra]. rewrite Rinv_r by lra. unfold Rdiv in Hz. lra. }
  assert (N2 : l2 / l1 - 1 <> 0). { intro Hz. apply Hne. symmetry. apply Rmult_eq_reg_r with (/ l1); [|apply Rinv_neq_0_compat; lra]. rewrite Rinv_r by lra. unfold Rdiv in Hz. lra. }
  assert (E1 : 1 + (l1 / l2 - 1) = l1 / l2) by ring.
  assert (E2 : 1 + (l2 / l1 - 1) = l2 / l1) by ring.
  destruct (Rlt_dec (Rabs l2) (Rabs l1)) as [Hlt|Hge]; rewrite (Rabs_pos_eq l1), (Rabs_pos_eq l2) in * by lra.
  - (* l2 is the smaller one *)
    replace (Rltb l2 l1) with true by (symmetry; apply Rltb_true; exact Hlt). cbv iota.
    unfold npowr, nzero, nZ; unfold_num; q2r. rcases; try lra; try (exfalso; lra).
    + rewrite E2. rewrite pow_rd_core by lra. field. lra.
    + rewrite pow_rd_core by lra. field. lra.
  - replace (Rltb l2 l1) with false by (symmetry; apply Rltb_false; lra). cbv iota.
    unfold npowr, nzero, nZ; unfold_num; q2r. rcases; try lra; try (exfalso; lra).
    + rewrite E1. rewrite pow_rd_core by lra. reflexivity.
    + rewrite pow_rd_core by lra. reflexivity.
Qed.
(* coinciding arguments (the xIsZero select): the kernel returns the derivative m x^(m-1) *)
Theorem pow_relative_difference_argsort_confluent l m : 0 < l -> @_pow_relative_difference R NumR l l m = m * Rpower l (m - 1).
Proof.
  intros H. unfold Rpower. rdnum. cbv beta iota zeta delta [nunit nZ nzero]. unfold_num. q2r.
  assert (E : l / l = 1) by (field; lra).
  replace (Rltb (Rabs l) (Rabs l)) with false by (symmetry; apply Rltb_false; lra). cbv iota. rewrite !E.
  unfold npowr, nzero, nZ; unfold_num; q2r. rcases; try lra; try (exfalso; lra).
Qed.

(* the hypotheses are satisfiable on both branches of each kernel, and the bounds are not trivially 0 <= 0 *)
Lemma rd_nonvacuous :
  (0 < 1 /\ 0 < 102 / 100 /\ 1 <> 102 / 100 /\ Rabs (1 - 102 / 100) <= 5 / 100 * Rmin 1 (102 / 100))
  /\ @_relative_log_difference_taylor R NumR 1 (102 / 100) < (ln 1 - ln (102 / 100)) / (1 - 102 / 100)
  /\ @_pow_relative_difference R NumR 2 2 3 = 3 * Rpower 2 (3 - 1)
  /\ (Rabs (@_log_relative_difference R NumR 3 4 - 2876820724517809 / 10000000000000000) <= 1 / 1000000000000000).
Proof.
  split; [|split; [|split]].
  - unfold Rmin. destruct (Rle_dec 1 (102 / 100)); rewrite Rabs_left by lra; repeat split; lra.
  - rdnum. rewrite ln_1. interval with (i_prec 100).
  - apply pow_relative_difference_argsort_confluent. lra.
  - rewrite log_relative_difference_argsort_exact by lra. interval with (i_prec 80).
Qed.
