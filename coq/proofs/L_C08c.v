(* C08 (deepening, part 2):
   (A) zero stress at rest for the options that go through log_sqrt_symm (LinearElastic/logarithmic, J2 logarithmic, phase field
       logarithmic, the COMPLETE single- and three-branch viscoelastic incremental energies), under the hypothesis LogSqrtDiffAtId:
       log_sqrt_symm is differentiable at the identity with derivative 1/2 sym, stated along curves (for every differentiable curve
       C of symmetric matrices with C(0) = I, t |-> lss(C t) is differentiable at 0 with derivative C'(0)/2).  The proofs only use
       the differentiability (the energies are quadratic in a strain that vanishes at rest); the value 1/2 C' is what the harness
       checks on the implementation (jax.jvp and difference quotients of TensorMath.log_sqrt_symm at I).
   (B) Kirchhoff-stress symmetry as a derivative statement for the closed-form models: for every H with det F > 0 the explicit
       first Piola-Kirchhoff tensor P satisfies d/dt W(H + t D)|_0 = P : D for every D, and tau = P F^T is symmetric. *)
From Coq Require Import Reals Lra QArith Nsatz.
From Coquelicot Require Import Coquelicot.
From OV.base Require Import Num.
From OV.gen Require Import Gen_TensorMath Gen_LinearElastic Gen_Neohookean Gen_Gent Gen_J2Elastic
  Gen_HyperViscoelastic Gen_MultiBranchHyperViscoelastic Gen_PhaseFieldThreshold.
From OV.model Require Import M_C08 M_C08b.
From OV.proofs Require Import L_C08 L_C08b.
Local Open Scope R_scope.

(* component-wise derivative of a matrix-valued path *)
Definition mderive (f : R -> M) (x : R) (D : M) : Prop :=
  is_derive (fun t => m00 (f t)) x (m00 D) /\ is_derive (fun t => m01 (f t)) x (m01 D) /\ is_derive (fun t => m02 (f t)) x (m02 D) /\
  is_derive (fun t => m10 (f t)) x (m10 D) /\ is_derive (fun t => m11 (f t)) x (m11 D) /\ is_derive (fun t => m12 (f t)) x (m12 D) /\
  is_derive (fun t => m20 (f t)) x (m20 D) /\ is_derive (fun t => m21 (f t)) x (m21 D) /\ is_derive (fun t => m22 (f t)) x (m22 D).

(* Differentiability of log_sqrt_symm at the identity with derivative 1/2 sym, stated along curves (Hadamard form, equivalent to
   Frechet differentiability in finite dimension): for every differentiable curve of symmetric matrices through I, ... *)
Definition LogSqrtDiffAtId (lss : M -> M) : Prop :=
  forall (C : R -> M) (C' : M), (forall t, msym (C t)) -> C 0 = mid -> mderive C 0 C' -> mderive (fun t => lss (C t)) 0 (mscal (/ 2) C').

Lemma half_sub_derive (f : R -> R) c d : is_derive f 0 d -> is_derive (fun t => / 2 * (f t - c)) 0 (/ 2 * d).
Proof. intros Hf. auto_derive. eexists; eassumption. assert (Df : Derive (fun x => f x) 0 = d) by (apply is_derive_unique; exact Hf). rewrite Df. ring. Qed.
Lemma LogSqrtDiffAtId_inhabited : LogSqrtDiffAtId (fun A => mscal (/ 2) (msub A mid)).
Proof.
  intros C C' _ _ HD. unfold mderive in *. 
  destruct HD as (D0 & D1 & D2 & D3 & D4 & D5 & D6 & D7 & D8).
  unfold mscal, msub, map2, mid; simpl. unfold nmul, nsub, nunit, nzero, NumR; simpl.
  repeat match goal with |- _ /\ _ => split end; apply half_sub_derive; assumption.
Qed.

Definition lso (X : M) (J : R) : M := madd (mdevm X) (mscal (ln J / 3) mid).
Lemma log_strain_of_lso lss C J : log_strain_of lss C J = lso (lss C) J.
Proof. reflexivity. Qed.
Lemma mat_eta (A : M) : A = mk (m00 A) (m01 A) (m02 A) (m10 A) (m11 A) (m12 A) (m20 A) (m21 A) (m22 A).
Proof. destruct A. reflexivity. Qed.

Section QuadPath.
  Variables (l00 l01 l02 l10 l11 l12 l20 l21 l22 j : R -> R) (d00 d01 d02 d10 d11 d12 d20 d21 d22 j' : R).
  Hypothesis H00 : is_derive l00 0 d00. Hypothesis H01 : is_derive l01 0 d01. Hypothesis H02 : is_derive l02 0 d02.
  Hypothesis H10 : is_derive l10 0 d10. Hypothesis H11 : is_derive l11 0 d11. Hypothesis H12 : is_derive l12 0 d12.
  Hypothesis H20 : is_derive l20 0 d20. Hypothesis H21 : is_derive l21 0 d21. Hypothesis H22 : is_derive l22 0 d22.
  Hypothesis Z00 : l00 0 = 0. Hypothesis Z01 : l01 0 = 0. Hypothesis Z02 : l02 0 = 0.
  Hypothesis Z10 : l10 0 = 0. Hypothesis Z11 : l11 0 = 0. Hypothesis Z12 : l12 0 = 0.
  Hypothesis Z20 : l20 0 = 0. Hypothesis Z21 : l21 0 = 0. Hypothesis Z22 : l22 0 = 0.
  Hypothesis Hj : is_derive j 0 j'.
  Hypothesis Hj0 : j 0 = 1.
  Let L (t : R) : M := mk (l00 t) (l01 t) (l02 t) (l10 t) (l11 t) (l12 t) (l20 t) (l21 t) (l22 t).
  Ltac exd := repeat split; try (eexists; eassumption); try (rewrite Hj0; lra).
  Lemma D00 : Derive (fun x => l00 x) 0 = d00. Proof. apply is_derive_unique. exact H00. Qed.
  Lemma D01 : Derive (fun x => l01 x) 0 = d01. Proof. apply is_derive_unique. exact H01. Qed.
  Lemma D02 : Derive (fun x => l02 x) 0 = d02. Proof. apply is_derive_unique. exact H02. Qed.
  Lemma D10 : Derive (fun x => l10 x) 0 = d10. Proof. apply is_derive_unique. exact H10. Qed.
  Lemma D11 : Derive (fun x => l11 x) 0 = d11. Proof. apply is_derive_unique. exact H11. Qed.
  Lemma D12 : Derive (fun x => l12 x) 0 = d12. Proof. apply is_derive_unique. exact H12. Qed.
  Lemma D20 : Derive (fun x => l20 x) 0 = d20. Proof. apply is_derive_unique. exact H20. Qed.
  Lemma D21 : Derive (fun x => l21 x) 0 = d21. Proof. apply is_derive_unique. exact H21. Qed.
  Lemma D22 : Derive (fun x => l22 x) 0 = d22. Proof. apply is_derive_unique. exact H22. Qed.
  Lemma Dj_ : Derive (fun x => j x) 0 = j'. Proof. apply is_derive_unique. exact Hj. Qed.
  Ltac derives := rewrite ?D00, ?D01, ?D02, ?D10, ?D11, ?D12, ?D20, ?D21, ?D22, ?Dj_, ?Z00, ?Z01, ?Z02, ?Z10, ?Z11, ?Z12, ?Z20, ?Z21, ?Z22, ?Hj0, ?ln_1.
  Lemma tr_path : is_derive (fun t => mtrace (L t)) 0 (d00 + d11 + d22).
  Proof. unfold L. mnum. auto_derive; [exd | derives; ring]. Qed.
  Lemma ddot_path : is_derive (fun t => mddot (L t) (L t)) 0 0.
  Proof. unfold L. mnum. auto_derive; [exd | derives; ring]. Qed.
  Lemma lso_tr_path : is_derive (fun t => mtrace (lso (L t) (j t))) 0 j'.
  Proof. unfold L, lso, mdevm. mnum. auto_derive; [exd | derives; field]. Qed.
  Lemma lso_ddot_path : is_derive (fun t => mddot (lso (L t) (j t)) (lso (L t) (j t))) 0 0.
  Proof. unfold L, lso, mdevm. mnum. auto_derive; [exd | derives; field]. Qed.
  Lemma lso_tr_0 : mtrace (lso (L 0) (j 0)) = 0.
  Proof. unfold L, lso, mdevm. mnum. derives. field. Qed.
  Lemma tr_0 : mtrace (L 0) = 0.
  Proof. unfold L. mnum. derives. ring. Qed.
End QuadPath.

Lemma quad_paths (Lf : R -> M) (L' : M) (j : R -> R) j' : mderive Lf 0 L' -> Lf 0 = mzero -> is_derive j 0 j' -> j 0 = 1 ->
  is_derive (fun t => mtrace (Lf t)) 0 (mtrace L') /\ is_derive (fun t => mddot (Lf t) (Lf t)) 0 0 /\ mtrace (Lf 0) = 0 /\
  is_derive (fun t => mtrace (lso (Lf t) (j t))) 0 j' /\ is_derive (fun t => mddot (lso (Lf t) (j t)) (lso (Lf t) (j t))) 0 0 /\
  mtrace (lso (Lf 0) (j 0)) = 0.
Proof.
  intros (D0 & D1 & D2 & D3 & D4 & D5 & D6 & D7 & D8) H0 Hj Hj0.
  assert (Z : forall (g : M -> R), g mzero = 0 -> g (Lf 0) = 0) by (intros g Hg; rewrite H0; exact Hg).
  pose proof (Z m00 eq_refl) as Z0. pose proof (Z m01 eq_refl) as Z1. pose proof (Z m02 eq_refl) as Z2.
  pose proof (Z m10 eq_refl) as Z3. pose proof (Z m11 eq_refl) as Z4. pose proof (Z m12 eq_refl) as Z5.
  pose proof (Z m20 eq_refl) as Z6. pose proof (Z m21 eq_refl) as Z7. pose proof (Z m22 eq_refl) as Z8.
  repeat match goal with |- _ /\ _ => split end.
  - apply (is_derive_ext _ _ _ _ (fun t => f_equal mtrace (eq_sym (mat_eta (Lf t))))).
    replace (mtrace L') with (m00 L' + m11 L' + m22 L') by (destruct L'; reflexivity). apply tr_path; assumption.
  - apply (is_derive_ext _ _ _ _ (fun t => f_equal (fun X => mddot X X) (eq_sym (mat_eta (Lf t))))).
    apply ddot_path with (1 := D0) (2 := D1) (3 := D2) (4 := D3) (5 := D4) (6 := D5) (7 := D6) (8 := D7) (9 := D8); assumption.
  - rewrite H0. apply mtrace_mzero.
  - apply (is_derive_ext _ _ _ _ (fun t => f_equal (fun X => mtrace (lso X (j t))) (eq_sym (mat_eta (Lf t))))).
    eapply lso_tr_path; eassumption.
  - apply (is_derive_ext _ _ _ _ (fun t => f_equal (fun X => mddot (lso X (j t)) (lso X (j t))) (eq_sym (mat_eta (Lf t))))).
    eapply lso_ddot_path; eassumption.
  - rewrite H0, Hj0. unfold lso, mdevm. mnum. rewrite ln_1. field.
Qed.

(* the path t |-> C(tD) = (I + tD)^T (I + tD) through the identity *)
Lemma CC_path D : mderive (fun t => CC (mscal t D)) 0 (madd D (mtr D)).
Proof.
  dm D. unfold mderive, CC. mnum.
  repeat match goal with |- _ /\ _ => split end; (auto_derive; [trivial | ring]).
Qed.
Lemma CC_path0 D : CC (mscal 0 D) = mid.
Proof. dm D. unfold CC. mat_eq. Qed.

Lemma mdet_mid_ne : mdet (@mid R NumR) <> 0. Proof. rewrite mdet_mid. lra. Qed.
Lemma is_derive_plus0 (f g : R -> R) x : is_derive f x 0 -> is_derive g x 0 -> is_derive (fun t => f t + g t) x 0.
Proof. intros Hf Hg. evar_last. apply (is_derive_plus f g x 0 0 Hf Hg). unfold plus; simpl. ring. Qed.
Lemma phi_pf_phase0 p g0 g1 g2 a b :
  phi_pf p 0 g0 g1 g2 a b = let '(_, _, mu, kappa, Gc, l) := p in phi_q kappa mu a b + 3 * Gc / 8 * (0 / l + l * (g0 * g0 + g1 * g1 + g2 * g2)).
Proof. destruct p as [[[[[a0 b0] c] d] e] f]. unfold phi_pf, phi_q. destruct (Rlt_dec 0 a); unfold Rdiv; ring. Qed.

Section RestStressLog.
  Variable lss : M -> M.
  Hypothesis HS : LogSqrtSpec lss.
  Hypothesis HD : LogSqrtDiffAtId lss.
  Variable D : M.
  Let Lf (t : R) : M := lss (CC (mscal t D)).
  Let jf (t : R) : R := JJ (mscal t D).
  Lemma Lf_derive : mderive Lf 0 (mscal (/ 2) (madd D (mtr D))).
  Proof. apply (HD (fun t => CC (mscal t D))); [intros t; apply CC_sym | apply CC_path0 | apply CC_path]. Qed.
  Lemma Lf_0 : Lf 0 = mzero.
  Proof. unfold Lf. rewrite CC_path0. apply (lss_identity _ HS). Qed.
  Lemma log_paths :
    is_derive (fun t => mtrace (Lf t)) 0 (mtrace (mscal (/ 2) (madd D (mtr D)))) /\ is_derive (fun t => mddot (Lf t) (Lf t)) 0 0 /\
    mtrace (Lf 0) = 0 /\
    is_derive (fun t => mtrace (lso (Lf t) (jf t))) 0 (mtrace D) /\
    is_derive (fun t => mddot (lso (Lf t) (jf t)) (lso (Lf t) (jf t))) 0 0 /\ mtrace (lso (Lf 0) (jf 0)) = 0.
  Proof. apply quad_paths; [apply Lf_derive | apply Lf_0 | apply JJ_path | apply JJ_path0]. Qed.

  Theorem le_log_rest_stress p : is_derive (fun t => E_le_log lss p (mscal t D)) 0 0.
  Proof.
    destruct p as [[[a b] c] d]. destruct log_paths as (_ & _ & _ & P1 & P2 & P3).
    apply (is_derive_ext (fun t => phi_q d c (mtrace (lso (Lf t) (jf t))) (mddot (lso (Lf t) (jf t)) (lso (Lf t) (jf t))))).
    - intros t. unfold E_le_log. rewrite W_le_bridge, strain_log_bridge'. reflexivity.
    - apply (phi_q_path_derive _ _ _ _ (mtrace D)); assumption.
  Qed.
  Theorem j2_log_rest_stress p eqps : is_derive (fun t => E_j2_log lss p eqps mid (mscal t D)) 0 0.
  Proof.
    destruct p as [[[[a b] c] d] e]. destruct log_paths as (_ & _ & _ & P1 & P2 & P3).
    apply (is_derive_ext (fun t => phi_q d c (mtrace (lso (Lf t) (jf t))) (mddot (lso (Lf t) (jf t)) (lso (Lf t) (jf t))))).
    - intros t. unfold E_j2_log. rewrite W_j2_bridge, j2_strain_log_bridge by (rewrite mdet_mid; lra).
      rewrite tinv_id, CCe_id. reflexivity.
    - apply (phi_q_path_derive _ _ _ _ (mtrace D)); assumption.
  Qed.
  (* phase field: undamaged (phase = 0); the reference gradient of the phase field does not enter the stress *)
  Theorem pf_log_rest_stress p g0 g1 g2 : is_derive (fun t => E_pf_log lss p 0 g0 g1 g2 (mscal t D)) 0 0.
  Proof.
    destruct p as [[[[[a b] c] d] e] f]. destruct log_paths as (_ & _ & _ & P1 & P2 & P3).
    apply (is_derive_ext (fun t => phi_q d c (mtrace (lso (Lf t) (jf t))) (mddot (lso (Lf t) (jf t)) (lso (Lf t) (jf t)))
                                   + 3 * e / 8 * (0 / f + f * (g0 * g0 + g1 * g1 + g2 * g2)))).
    - intros t. unfold E_pf_log. rewrite W_pf_bridge, pf_strain_log_bridge, phi_pf_phase0. reflexivity.
    - apply is_derive_plus0.
      + apply (phi_q_path_derive _ _ _ _ (mtrace D)); assumption.
      + apply (is_derive_const (V := R_NormedModule)).
  Qed.

  Lemma hv_tail_path_derive Gn tau dt (a b : R -> R) a' :
    is_derive a 0 a' -> is_derive b 0 0 -> a 0 = 0 -> is_derive (fun t => hv_tail Gn tau dt (a t) (b t)) 0 0.
  Proof.
    intros Ha Hb Ha0. unfold hv_tail.
    generalize (Gn * ((1 - hv_c tau dt) * (1 - hv_c tau dt)) + dt * (Gn * tau * (hv_c tau dt / dt * (hv_c tau dt / dt)))). intros k.
    auto_derive.
    - repeat split; eexists; eassumption.
    - assert (Da : Derive (fun x => a x) 0 = a') by (apply is_derive_unique; exact Ha).
      assert (Db : Derive (fun x => b x) 0 = 0) by (apply is_derive_unique; exact Hb).
      rewrite Da, Db, Ha0. field.
  Qed.
  Lemma mb_tail_virgin_path Gn tau dt : is_derive (fun t => mb_tail lss Gn tau dt mid (mscal t D)) 0 0.
  Proof.
    destruct log_paths as (P1 & P2 & P3 & _).
    apply (is_derive_ext (fun t => hv_tail Gn tau dt (mtrace (Lf t)) (mddot (Lf t) (Lf t)))).
    - intros t. unfold mb_tail. rewrite linv_id, CCe_id. reflexivity.
    - eapply hv_tail_path_derive; eassumption.
  Qed.
  Lemma psi_adagio_path K G : is_derive (fun t => psi_adagio K G (I1 (mscal t D)) (JJ (mscal t D))) 0 0.
  Proof. apply (psi_adagio_rest_derive _ _ (mtrace D)); first [apply I1_path | apply JJ_path | apply I1_path0 | apply JJ_path0]. Qed.

  (* the complete incremental energies of the viscoelastic models (equilibrium + non-equilibrium + dt * dissipation), virgin state *)
  Theorem hv_rest_stress p dt : 0 < dt -> (let '(_, _, _, tau) := p in 0 < tau) -> is_derive (fun t => E_hv lss p mid dt (mscal t D)) 0 0.
  Proof.
    intros Hdt Htau.
    apply (is_derive_ext_loc (fun t => let '(K, G, Gn, tau) := p in
             psi_adagio K G (I1 (mscal t D)) (JJ (mscal t D)) + mb_tail lss Gn tau dt mid (mscal t D))).
    - generalize (JJ_path_locally D). apply filter_imp. intros t Ht. cbv beta. symmetry.
      etransitivity; [exact (hv_bridge lss p mid dt (mscal t D) Ht mdet_mid_ne Hdt Htau)|]. destruct p as [[[K G] Gn] tau]. reflexivity.
    - destruct p as [[[K G] Gn] tau]. apply is_derive_plus0; [apply psi_adagio_path | apply mb_tail_virgin_path].
  Qed.
  Theorem mb_rest_stress p dt : 0 < dt -> mb_taus_pos p -> is_derive (fun t => E_mb lss p mid mid mid dt (mscal t D)) 0 0.
  Proof.
    intros Hdt Htau.
    apply (is_derive_ext_loc (fun t => let '(K, G, G1, t1, G2, t2, G3, t3) := p in
             psi_adagio K G (I1 (mscal t D)) (JJ (mscal t D)) + mb_tail lss G1 t1 dt mid (mscal t D)
             + mb_tail lss G2 t2 dt mid (mscal t D) + mb_tail lss G3 t3 dt mid (mscal t D))).
    - generalize (JJ_path_locally D). apply filter_imp. intros t Ht. cbv beta. symmetry.
      etransitivity; [exact (mb_bridge lss p mid mid mid dt (mscal t D) Ht mdet_mid_ne mdet_mid_ne mdet_mid_ne Hdt Htau)|].
      destruct p as [[[[[[[K G] G1] t1] G2] t2] G3] t3]. reflexivity.
    - destruct p as [[[[[[[K G] G1] t1] G2] t2] G3] t3]. apply (is_derive_plus0 (fun t => psi_adagio K G (I1 (mscal t D)) (JJ (mscal t D)) + mb_tail lss G1 t1 dt mid (mscal t D)
                                       + mb_tail lss G2 t2 dt mid (mscal t D)) (fun t => mb_tail lss G3 t3 dt mid (mscal t D)));
        [| apply mb_tail_virgin_path].
      apply (is_derive_plus0 (fun t => psi_adagio K G (I1 (mscal t D)) (JJ (mscal t D)) + mb_tail lss G1 t1 dt mid (mscal t D))
                             (fun t => mb_tail lss G2 t2 dt mid (mscal t D))); [| apply mb_tail_virgin_path].
      apply (is_derive_plus0 (fun t => psi_adagio K G (I1 (mscal t D)) (JJ (mscal t D))) (fun t => mb_tail lss G1 t1 dt mid (mscal t D)));
        [apply psi_adagio_path | apply mb_tail_virgin_path].
  Qed.
End RestStressLog.

(* ---------- Kirchhoff stress as a derivative statement: P = dW/dH exists (derivative along every straight path through H)
   and tau = P F^T is symmetric, for the energies that are functions of I1 = F:F and J = det F ---------- *)
Definition mcof (A : M) : M :=
  mk (m11 A * m22 A - m12 A * m21 A) (m12 A * m20 A - m10 A * m22 A) (m10 A * m21 A - m11 A * m20 A)
     (m02 A * m21 A - m01 A * m22 A) (m00 A * m22 A - m02 A * m20 A) (m01 A * m20 A - m00 A * m21 A)
     (m01 A * m12 A - m02 A * m11 A) (m02 A * m10 A - m00 A * m12 A) (m00 A * m11 A - m01 A * m10 A).
Definition pk1 (a b : R) (H : M) : M := madd (mscal (2 * a) (defgrad H)) (mscal b (mcof (defgrad H))).
Lemma I1_line H D : is_derive (fun t => I1 (madd H (mscal t D))) 0 (2 * mddot (defgrad H) D).
Proof. dm H. dm D. unfold I1. mnum. auto_derive; [trivial | ring]. Qed.
Lemma JJ_line H D : is_derive (fun t => JJ (madd H (mscal t D))) 0 (mddot (mcof (defgrad H)) D).
Proof. dm H. dm D. unfold JJ, mcof. mnum. auto_derive; [trivial | ring]. Qed.
Lemma line0 (H D : M) : madd H (mscal 0 D) = H.
Proof. dm H. dm D. mat_eq. Qed.
Lemma JJ_line_locally H D : 0 < JJ H -> locally 0 (fun t => JJ (madd H (mscal t D)) <> 0).
Proof.
  intros HJ.
  assert (Hc : continuous (fun t => JJ (madd H (mscal t D))) 0).
  { apply (ex_derive_continuous (fun t => JJ (madd H (mscal t D)))). eexists. apply JJ_line. }
  assert (HP : locally (JJ (madd H (mscal 0 D))) (fun y => 0 < y)).
  { apply (open_gt 0). rewrite line0. exact HJ. }
  specialize (Hc _ HP). unfold filtermap in Hc. revert Hc. apply filter_imp. intros t Ht. lra.
Qed.
Lemma pk1_ddot a b H D : mddot (pk1 a b H) D = a * (2 * mddot (defgrad H) D) + b * mddot (mcof (defgrad H)) D.
Proof. dm H. dm D. unfold pk1, mcof. mnum. ring. Qed.
Lemma pk1_kirchhoff_sym a b H : msym (mmul (pk1 a b H) (mtr (defgrad H))).
Proof. dm H. unfold msym, pk1, mcof. mnum. f_equal; ring. Qed.

Definition chain2 (psi : R -> R -> R) (I0 J0 a b : R) : Prop :=
  forall (i j : R -> R) (i' j' : R), is_derive i 0 i' -> is_derive j 0 j' -> i 0 = I0 -> j 0 = J0 ->
    is_derive (fun t => psi (i t) (j t)) 0 (a * i' + b * j').
Lemma kirchhoff_of_invariants (E : M -> R) (psi : R -> R -> R) (H : M) (a b : R) :
  0 < JJ H -> (forall X, JJ X <> 0 -> E X = psi (I1 X) (JJ X)) -> chain2 psi (I1 H) (JJ H) a b ->
  (forall D, is_derive (fun t => E (madd H (mscal t D))) 0 (mddot (pk1 a b H) D)) /\ msym (mmul (pk1 a b H) (mtr (defgrad H))).
Proof.
  intros HJ HE Hc. split; [|apply pk1_kirchhoff_sym].
  intros D. rewrite pk1_ddot.
  apply (is_derive_ext_loc (fun t => psi (I1 (madd H (mscal t D))) (JJ (madd H (mscal t D))))).
  - generalize (JJ_line_locally H D HJ). apply filter_imp. intros t Ht. cbv beta. symmetry. apply HE. exact Ht.
  - apply Hc; [apply I1_line | apply JJ_line | rewrite line0; reflexivity | rewrite line0; reflexivity].
Qed.

Section Chain.
  Variables (i j : R -> R) (i' j' I0 J0 : R).
  Hypothesis Hi : is_derive i 0 i'.
  Hypothesis Hj : is_derive j 0 j'.
  Hypothesis Hi0 : i 0 = I0.
  Hypothesis Hj0 : j 0 = J0.
  Hypothesis HJ : 0 < J0.
  Lemma cDi : Derive (fun x => i x) 0 = i'. Proof. apply is_derive_unique. exact Hi. Qed.
  Lemma cDj : Derive (fun x => j x) 0 = j'. Proof. apply is_derive_unique. exact Hj. Qed.
  Lemma psi_neo_chain mu lam :
    is_derive (fun t => psi_neo mu lam (i t) (j t)) 0 ((/ 2 * mu) * i' + ((lam * ln J0 - mu) / J0) * j').
  Proof.
    unfold psi_neo. auto_derive.
    - repeat split; try (eexists; eassumption); rewrite Hj0; lra.
    - rewrite cDi, cDj, Hj0. field. lra.
  Qed.
  Lemma psi_adagio_chain k mu :
    is_derive (fun t => psi_adagio k mu (i t) (j t)) 0
      ((/ 2 * mu * exp (- (2 / 3) * ln J0)) * i' + (/ 2 * mu * I0 * exp (- (2 / 3) * ln J0) * (- (2 / 3)) / J0 + / 2 * k * (J0 - / J0)) * j').
  Proof.
    unfold psi_adagio, psi_vol, I1bar. auto_derive.
    - repeat split; try (eexists; eassumption); rewrite Hj0; lra.
    - rewrite cDi, cDj, Hi0, Hj0. field. lra.
  Qed.
  Lemma psi_gent_chain k mu Jm : Jm <> 0 -> 0 < 1 - (I1bar I0 J0 - 3) / Jm ->
    is_derive (fun t => psi_gent k mu Jm (i t) (j t)) 0
      ((/ 2 * mu / (1 - (I1bar I0 J0 - 3) / Jm) * exp (- (2 / 3) * ln J0)) * i'
       + (/ 2 * mu / (1 - (I1bar I0 J0 - 3) / Jm) * I0 * exp (- (2 / 3) * ln J0) * (- (2 / 3)) / J0 + / 2 * k * (J0 - / J0)) * j').
  Proof.
    intros HJm Hu. unfold psi_gent, psi_vol. unfold I1bar in *. auto_derive.
    - rewrite Hi0, Hj0. repeat split; try (eexists; eassumption); try lra.
    - rewrite cDi, cDj, Hi0, Hj0. field. repeat split; try lra.
      intros Hc. assert (E : exp (- (2 / 3) * ln J0) * I0 - 3 = Jm) by lra. rewrite E in Hu. unfold Rdiv in Hu. rewrite Rinv_r in Hu by exact HJm. lra.
  Qed.
End Chain.

Lemma neo_chain2 mu lam I0 J0 : 0 < J0 -> chain2 (psi_neo mu lam) I0 J0 (/ 2 * mu) ((lam * ln J0 - mu) / J0).
Proof. intros HJ i j i' j' Hi Hj Hi0 Hj0. apply psi_neo_chain; assumption. Qed.
Definition adagio_dI (mu J0 : R) : R := / 2 * mu * exp (- (2 / 3) * ln J0).
Definition adagio_dJ (k mu I0 J0 : R) : R := / 2 * mu * I0 * exp (- (2 / 3) * ln J0) * (- (2 / 3)) / J0 + / 2 * k * (J0 - / J0).
Lemma adagio_chain2 k mu I0 J0 : 0 < J0 -> chain2 (psi_adagio k mu) I0 J0 (adagio_dI mu J0) (adagio_dJ k mu I0 J0).
Proof. intros HJ i j i' j' Hi Hj Hi0 Hj0. apply psi_adagio_chain; assumption. Qed.
Definition gent_u (Jm I0 J0 : R) : R := 1 - (I1bar I0 J0 - 3) / Jm.
Lemma gent_chain2 k mu Jm I0 J0 : 0 < J0 -> Jm <> 0 -> 0 < gent_u Jm I0 J0 ->
  chain2 (psi_gent k mu Jm) I0 J0 (adagio_dI mu J0 / gent_u Jm I0 J0) (/ 2 * mu / gent_u Jm I0 J0 * I0 * exp (- (2 / 3) * ln J0) * (- (2 / 3)) / J0 + / 2 * k * (J0 - / J0)).
Proof.
  intros HJ HJm Hu i j i' j' Hi Hj Hi0 Hj0. unfold gent_u, adagio_dI in *.
  evar_last. apply (psi_gent_chain i j i' j' I0 J0 Hi Hj Hi0 Hj0 HJ k mu Jm HJm Hu).
  unfold I1bar in *. field. split; [lra|]. split; [exact HJm|].
  intros Hc. assert (E : exp (- (2 / 3) * ln J0) * I0 - 3 = Jm) by lra. rewrite E in Hu. unfold Rdiv in Hu. rewrite Rinv_r in Hu by exact HJm. lra.
Qed.

(* first Piola-Kirchhoff stresses (closed form) *)
Definition P_neo_coupled (p : p5) (H : M) : M := let '(_, _, mu, _, lam) := p in pk1 (/ 2 * mu) ((lam * ln (JJ H) - mu) / JJ H) H.
Definition P_adagio (k mu : R) (H : M) : M := pk1 (adagio_dI mu (JJ H)) (adagio_dJ k mu (I1 H) (JJ H)) H.
Definition P_gent (p : p3) (H : M) : M := let '(k, mu, Jm) := p in
  pk1 (adagio_dI mu (JJ H) / gent_u Jm (I1 H) (JJ H))
      (/ 2 * mu / gent_u Jm (I1 H) (JJ H) * I1 H * exp (- (2 / 3) * ln (JJ H)) * (- (2 / 3)) / JJ H + / 2 * k * (JJ H - / JJ H)) H.

Theorem neo_coupled_kirchhoff p H : 0 < JJ H ->
  (forall D, is_derive (fun t => E_neo_coupled p (madd H (mscal t D))) 0 (mddot (P_neo_coupled p H) D))
  /\ msym (mmul (P_neo_coupled p H) (mtr (defgrad H))).
Proof.
  intros HJ. destruct p as [[[[a b] mu] d] lam]. unfold P_neo_coupled.
  apply (kirchhoff_of_invariants _ (psi_neo mu lam)); [exact HJ | intros X _; apply (neo_bridge (a, b, mu, d, lam)) | apply neo_chain2; exact HJ].
Qed.
Theorem neo_adagio_kirchhoff p H : 0 < JJ H ->
  let '(_, _, mu, kappa, _) := p in
  (forall D, is_derive (fun t => E_neo_adagio p (madd H (mscal t D))) 0 (mddot (P_adagio kappa mu H) D))
  /\ msym (mmul (P_adagio kappa mu H) (mtr (defgrad H))).
Proof.
  intros HJ. destruct p as [[[[a b] mu] kappa] e]. unfold P_adagio.
  apply (kirchhoff_of_invariants _ (psi_adagio kappa mu)); [exact HJ | intros X HX; apply (adagio_bridge (a, b, mu, kappa, e) X HX) | apply adagio_chain2; exact HJ].
Qed.
Theorem hveq_kirchhoff p H : 0 < JJ H ->
  let '(K, G, _, _) := p in
  (forall D, is_derive (fun t => E_hv_eq p (madd H (mscal t D))) 0 (mddot (P_adagio K G H) D)) /\ msym (mmul (P_adagio K G H) (mtr (defgrad H))).
Proof.
  intros HJ. destruct p as [[[K G] c] d]. unfold P_adagio.
  apply (kirchhoff_of_invariants _ (psi_adagio K G)); [exact HJ | intros X HX; apply (hveq_bridge (K, G, c, d) X HX) | apply adagio_chain2; exact HJ].
Qed.
Theorem mbeq_kirchhoff p H : 0 < JJ H ->
  let '(K, G, _, _, _, _, _, _) := p in
  (forall D, is_derive (fun t => E_mb_eq p (madd H (mscal t D))) 0 (mddot (P_adagio K G H) D)) /\ msym (mmul (P_adagio K G H) (mtr (defgrad H))).
Proof.
  intros HJ. destruct p as [[[[[[[K G] c] d] e] f] g] h]. unfold P_adagio.
  apply (kirchhoff_of_invariants _ (psi_adagio K G)); [exact HJ | intros X HX; apply (mbeq_bridge (K, G, c, d, e, f, g, h) X HX) | apply adagio_chain2; exact HJ].
Qed.
(* Gent: inside the limiting-extensibility domain 1 - (I1bar - 3)/Jm > 0 (outside, ln is applied to a non-positive number) *)
Theorem gent_kirchhoff p H : 0 < JJ H -> (let '(_, _, Jm) := p in Jm <> 0 /\ 0 < gent_u Jm (I1 H) (JJ H)) ->
  (forall D, is_derive (fun t => E_gent p (madd H (mscal t D))) 0 (mddot (P_gent p H) D)) /\ msym (mmul (P_gent p H) (mtr (defgrad H))).
Proof.
  intros HJ. destruct p as [[k mu] Jm]. intros (HJm & Hu). unfold P_gent.
  apply (kirchhoff_of_invariants _ (psi_gent k mu Jm)); [exact HJ | intros X HX; apply (gent_bridge (k, mu, Jm) X HX) | apply gent_chain2; assumption].
Qed.

(* St-Venant (linear elastic law in the Green-Lagrange strain): P = F S, S = kappa tr(E) I + 2 mu dev E *)
Definition P_le_gl (p : p4) (H : M) : M :=
  let '(_, _, mu, kappa) := p in let E := mscal (/ 2) (msub (CC H) mid) in
  mmul (defgrad H) (madd (mscal (kappa * mtrace E) mid) (mscal (2 * mu) (mdevm E))).
Theorem le_gl_kirchhoff p H :
  (forall D, is_derive (fun t => E_le_gl p (madd H (mscal t D))) 0 (mddot (P_le_gl p H) D)) /\ msym (mmul (P_le_gl p H) (mtr (defgrad H))).
Proof.
  destruct p as [[[a b] mu] kappa]. split.
  - intros D.
    apply (is_derive_ext (fun t => phi_q kappa mu (mtrace (mscal (/ 2) (msub (CC (madd H (mscal t D))) mid)))
            (mddot (mscal (/ 2) (msub (CC (madd H (mscal t D))) mid)) (mscal (/ 2) (msub (CC (madd H (mscal t D))) mid))))).
    + intros t. unfold E_le_gl. rewrite W_le_bridge, strain_gl_bridge. reflexivity.
    + dm H. dm D. unfold P_le_gl, phi_q, CC, mdevm. mnum. auto_derive; [trivial | field].
  - dm H. unfold msym, P_le_gl, CC, mdevm. mnum. f_equal; field.
Qed.

Example nonvacuous_witness_diff :
  (LogSqrtSpec (fun A => mscal (/ 2) (msub A mid)) /\ LogSqrtDiffAtId (fun A => mscal (/ 2) (msub A mid)))
  /\ (0 < JJ (mk (/ 2) (/ 4) 0 0 (/ 3) 0 0 0 0) /\ (30 : R) <> 0 /\ 0 < gent_u 30 (I1 mzero) (JJ mzero)).
Proof.
  split; [split; [apply LogSqrtSpec_inhabited | apply LogSqrtDiffAtId_inhabited]|].
  split; [unfold JJ; mnum; lra|]. split; [lra|].
  unfold gent_u, I1bar. rewrite I1_zero, JJ_zero, ln_1, Rmult_0_r, exp_0. lra.
Qed.
