(* C10: the REGENERATED body of TensorMath._symmetric_matrix_function_jvp_helper (OV.gen.Gen_TensorMathJVP.jvp_helper_gen, re-translated
   from /repo on every run; func / relative_difference / jax.jacfwd(func) are oracle parameters, eigen_sym33_unit is an opaque function)
   is, whatever the opaque eigen-solver returns, the hand model M_C10.jvp_helper applied to that eigen-pair.  The Daleckii-Krein theorems
   are restated over the generated kernel: the eigh contract is a hypothesis on what the opaque function returns at the primal point. *)
From Coq Require Import Reals Lra Lia Bool Arith List.
From Coquelicot Require Import Coquelicot.
From OV.base Require Import Num.
From OV.gen Require Import Gen_TensorMathJVP.
From OV.model Require Import M_C10.
From OV.proofs Require Import L_C10 L_C10_DK L_C10_DKV.
Import ListNotations.
Local Open Scope R_scope.

Definition ap9 {X : Type} (f : R -> R -> R -> R -> R -> R -> R -> R -> R -> X) (M : Rm) : X :=
  f (M 0 0)%nat (M 0 1)%nat (M 0 2)%nat (M 1 0)%nat (M 1 1)%nat (M 1 2)%nat (M 2 0)%nat (M 2 1)%nat (M 2 2)%nat.
Definition t9 (M : Rm) : R * R * R * R * R * R * R * R * R :=
  ap9 (fun a b c d e f g h i => (a, b, c, d, e, f, g, h, i)) M.
Definition t12 (lam : nat -> R) (V : Rm) : R * R * R * R * R * R * R * R * R * R * R * R :=
  ap9 (fun a b c d e f g h i => (lam 0%nat, lam 1%nat, lam 2%nat, a, b, c, d, e, f, g, h, i)) V.
Definition eigh_t := R -> R -> R -> R -> R -> R -> R -> R -> R -> R * R * R * R * R * R * R * R * R * R * R * R.
(* the generated kernel applied to matrices given as index functions *)
Definition gen_helper (eigh : eigh_t) (func dfunc : R -> R) (rel : R -> R -> R) (C E : Rm) :=
  ap9 (ap9 (@jvp_helper_gen R NumR eigh func rel dfunc) C) E.
Definition eigh_returns (eigh : eigh_t) (C : Rm) (lam : nat -> R) (V : Rm) : Prop :=
  ap9 eigh C = t12 lam V.

(* structural tie: generated kernel = hand model on the eigen-pair the opaque solver returned *)
Lemma gen_helper_is_model (eigh : eigh_t) (func dfunc : R -> R) rel (C E : Rm) lam V :
  eigh_returns eigh C lam V ->
  gen_helper eigh func dfunc rel C E = t9 (@jvp_helper R NumR dfunc rel lam V E).
Proof.
  unfold eigh_returns, gen_helper, t12, t9, ap9. intros He. unfold jvp_helper_gen. rewrite He.
  unfold jh_sym, jvp_helper, msym, mmul, mtr, sum3, h_matrix, rd_guard.
  cbv beta iota zeta delta [nunit nzero nhalf nZ]. unfold_num. q2r.
  (* the three guarded entries occur in the same form on both sides: abstract them (any harmless rewrite of the guard that keeps the two
     forms convertible keeps this proof) and compare the nine polynomial entries *)
  repeat match goal with |- context [if ?c then ?a else ?b] => let h := fresh "h" in set (h := if c then a else b) end.
  repeat (match goal with |- (_, _) = (_, _) => apply f_equal2 end); field.
Qed.

Lemma t9_inj (M N : Rm) : t9 M = t9 N -> eq3 M N.
Proof.
  unfold t9, ap9. intros H. injection H as H0 H1 H2 H3 H4 H5 H6 H7 H8. intros i j Hi Hj.
  destruct i as [|[|[|i]]]; try lia; destruct j as [|[|[|j]]]; try lia; assumption.
Qed.

Definition c9 (i j : nat) (t : R * R * R * R * R * R * R * R * R) : R :=
  let '(a00, a01, a02, a10, a11, a12, a20, a21, a22) := t in
  match i, j with
  | 0%nat, 0%nat => a00 | 0%nat, 1%nat => a01 | 0%nat, 2%nat => a02
  | 1%nat, 0%nat => a10 | 1%nat, 1%nat => a11 | 1%nat, 2%nat => a12
  | 2%nat, 0%nat => a20 | 2%nat, 1%nat => a21 | 2%nat, 2%nat => a22 | _, _ => 0 end.
Lemma c9_t9 M i j : (i < 3)%nat -> (j < 3)%nat -> c9 i j (t9 M) = M i j.
Proof. intros Hi Hj. destruct i as [|[|[|i]]]; try lia; destruct j as [|[|[|j]]]; try lia; reflexivity. Qed.

(* Daleckii-Krein for polynomials over the GENERATED helper: whatever eigen-solver is plugged in, if at the primal point C it returns an
   eigen-pair satisfying the eigh contract (V orthogonal, C = V diag(lam) V^T), every entry of the kernel's output is the derivative at
   t = 0 of the matrix polynomial of C + t sym(Cdot) *)
Lemma gen_daleckii_krein_polynomial (eigh : eigh_t) c func rel lam (V A E : Rm) i j : (i < 3)%nat -> (j < 3)%nat ->
  eigh_returns eigh A lam V -> orth V -> eq3 A (cj V (Dg lam)) ->
  (forall a b, a <> b -> rel a b = (peval 0 c a - peval 0 c b) / (a - b)) ->
  is_derive (fun t => mpoly 0 c (line A (symd E) t) i j) 0 (c9 i j (gen_helper eigh func (pderiv 0 c) rel A E)).
Proof.
  intros Hi Hj He HO HA Hrel. rewrite (gen_helper_is_model eigh func (pderiv 0 c) rel A E lam V He), c9_t9 by assumption.
  apply daleckii_krein_polynomial_eigh; assumption.
Qed.

Lemma gen_nonvacuous :
  let A := cj Vrot (Dg (fun k => INR k + 1)) in
  let eigh : eigh_t := fun _ _ _ _ _ _ _ _ _ => t12 (fun k => INR k + 1) Vrot in
  eigh_returns eigh A (fun k => INR k + 1) Vrot /\ orth Vrot /\ eq3 A (cj Vrot (Dg (fun k => INR k + 1))).
Proof. intros A eigh. split; [reflexivity|]. split; [exact orth_Vrot|]. intros i j _ _. reflexivity. Qed.
