(* C11: theorems (single branch, three branches, limits); bridges and algebra are in L_C11a.v *)
From Coq Require Import Reals Lra QArith List.
From OV.base Require Import Num.
From OV.gen Require Import Gen_TensorMath Gen_HyperViscoelastic Gen_MultiBranchHyperViscoelastic Gen_ViscoState.
From OV.model Require Import M_C08 M_C11.
From OV.proofs Require Import L_C08 L_C11a.
Import ListNotations.
Local Open Scope R_scope.

(* ---- single branch: closed forms *)
Section Single.
  Variables (lss expm : M -> M) (K G Gn tau : R).
  Let p : p4 := (K, G, Gn, tau).
  Hypothesis Htau : 0 < tau.

  Lemma E_hv_closed (Fv : M) dt (H : M) : 0 < dt ->
    E_hv lss p Fv dt H = E_hv_eq p H + Gn * nds (Etrial lss H Fv) * fac dt tau.
  Proof.
    intros Hd. unfold p. rewrite E_hv_bridge, Wneq_hv_form, Psi_hv_form, relax_nds, rate_nds by assumption.
    pose proof (den_ne dt tau Hd Htau). unfold fac. field. split; lra.
  Qed.

  Lemma D_hv_closed (Fv : M) dt (H : M) : 0 < dt ->
    D_hv lss p Fv dt H = Gn * nds (Etrial lss H Fv) * (dt / tau) * (fac dt tau * fac dt tau).
  Proof.
    intros Hd. unfold p. rewrite D_hv_bridge, Psi_hv_form, rate_nds by assumption. field. lra.
  Qed.

  (* dissipated energy is non-negative *)
  Lemma D_hv_nonneg (Fv : M) dt (H : M) : 0 < dt -> 0 <= Gn -> 0 <= D_hv lss p Fv dt H.
  Proof.
    intros Hd HG. rewrite D_hv_closed by exact Hd. pose proof (nds_nonneg (Etrial lss H Fv)).
    destruct (fac_pos dt tau Hd Htau) as [Hf _]. assert (Hr : 0 < dt / tau) by (apply Rdiv_lt_0_compat; lra).
    assert (H1 : 0 <= Gn * nds (Etrial lss H Fv)) by (apply Rmult_le_pos; lra).
    assert (H2 : 0 <= fac dt tau * fac dt tau) by (apply Rmult_le_pos; lra).
    apply Rmult_le_pos; [apply Rmult_le_pos; [exact H1 | lra] | exact H2].
  Qed.

  (* the viscous flow is isochoric, for every matrix exponential with det(exp A) = exp(tr A) *)
  Hypothesis Hexp : forall A : M, mdet (expm A) = exp (mtrace A).
  Lemma state_new_hv_det (Fv : M) dt (H : M) : 0 < dt -> mdet (state_new_hv lss expm p Fv dt H) = mdet Fv.
  Proof.
    intros Hd. unfold p. rewrite state_new_hv_bridge, mdet_mmul, Hexp, inc_trace by assumption. rewrite exp_0. ring.
  Qed.

  (* relaxation at held deformation: one more step multiplies the stored non-equilibrium energy by fac^2 < 1.
     Hcoax: the trial strain of the updated state is the relaxed strain -- exact for the true matrix logarithm and
     exponential because the increment is coaxial with the trial strain (it is a multiple of its deviator). *)
  Variable H : M.
  Hypothesis Hcoax : forall (Fv : M) dt, 0 < dt ->
    Etrial lss H (state_new_hv lss expm p Fv dt H) = relax_hv p dt (Etrial lss H Fv).

  Lemma Wneq_reported_form (Fv : M) dt : 0 < dt ->
    Wneq_reported_hv lss p Fv dt H = Gn * (fac dt tau * fac dt tau * nds (Etrial lss H Fv)).
  Proof. intros Hd. unfold Wneq_reported_hv, p. now rewrite Wneq_hv_form, relax_nds. Qed.

  Lemma relaxation_step (Fv : M) dt dt' : 0 < dt -> 0 < dt' -> 0 <= Gn ->
    Wneq_reported_hv lss p (state_new_hv lss expm p Fv dt H) dt' H
    = fac dt' tau * fac dt' tau * Wneq_reported_hv lss p Fv dt H
    /\ Wneq_reported_hv lss p (state_new_hv lss expm p Fv dt H) dt' H <= Wneq_reported_hv lss p Fv dt H.
  Proof.
    intros Hd Hd' HG. rewrite !Wneq_reported_form by assumption. rewrite Hcoax by assumption. unfold p. rewrite relax_nds by assumption.
    split; [ring |]. destruct (fac_pos dt tau Hd Htau) as [F0 F1]. destruct (fac_pos dt' tau Hd' Htau) as [F0' F1'].
    pose proof (nds_nonneg (Etrial lss H Fv)) as Hn.
    assert (Hx : 0 <= Gn * (fac dt tau * fac dt tau * nds (Etrial lss H Fv))).
    { apply Rmult_le_pos; [lra |]. apply Rmult_le_pos; [apply Rmult_le_pos; lra | lra]. }
    assert (Hff : fac dt' tau * fac dt' tau <= 1) by nra.
    replace (Gn * (fac dt' tau * fac dt' tau * (fac dt tau * fac dt tau * nds (Etrial lss H Fv))))
      with (fac dt' tau * fac dt' tau * (Gn * (fac dt tau * fac dt tau * nds (Etrial lss H Fv)))) by ring.
    nra.
  Qed.

  (* along any sequence of positive steps at held deformation the reported non-equilibrium energy never increases *)
  Fixpoint reported (Fv : M) (dts : list R) : list R :=
    match dts with
    | [] => []
    | dt :: r => Wneq_reported_hv lss p Fv dt H :: reported (state_new_hv lss expm p Fv dt H) r
    end.
  Fixpoint nonincreasing (l : list R) : Prop :=
    match l with
    | x :: ((y :: _) as r) => y <= x /\ nonincreasing r
    | _ => True
    end.
  Lemma relaxation_monotone dts : Forall (fun dt => 0 < dt) dts -> 0 <= Gn -> forall Fv, nonincreasing (reported Fv dts).
  Proof.
    intros Hp HG. induction Hp as [| dt r Hd Hr IH]; intros Fv; [exact I |]. cbn [reported].
    destruct r as [| dt' r']; [exact I |]. cbn [reported nonincreasing]. inversion Hr as [| ? ? Hd' _]; subst. split.
    - apply relaxation_step; assumption.
    - exact (IH (state_new_hv lss expm p Fv dt H)).
  Qed.
End Single.
