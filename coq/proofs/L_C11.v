(* C11: theorems (single branch, three branches, limits); bridges and algebra are in L_C11a.v *)
From Coq Require Import Reals Lra QArith List.
From OV.base Require Import Num.
From OV.gen Require Import Gen_TensorMath Gen_HyperViscoelastic Gen_MultiBranchHyperViscoelastic Gen_ViscoState.
From OV.model Require Import M_C08 M_C11.
From OV.proofs Require Import L_C08 L_C11a.
Import ListNotations.
Local Open Scope R_scope.

(* ---- single branch: closed forms *)
Section Single.
  Variables (lss expm : M -> M) (K G Gn tau : R).
  Let p : p4 := (K, G, Gn, tau).
  Hypothesis Htau : 0 < tau.

  Lemma E_hv_closed (Fv : M) dt (H : M) : 0 < dt ->
    E_hv lss p Fv dt H = E_hv_eq p H + Gn * nds (Etrial lss H Fv) * fac dt tau.
  Proof.
    intros Hd. unfold p. rewrite E_hv_bridge, Wneq_hv_form, Psi_hv_form, relax_nds, rate_nds by assumption.
    pose proof (den_ne dt tau Hd Htau). unfold fac. field. split; lra.
  Qed.

  Lemma D_hv_closed (Fv : M) dt (H : M) : 0 < dt ->
    D_hv lss p Fv dt H = Gn * nds (Etrial lss H Fv) * (dt / tau) * (fac dt tau * fac dt tau).
  Proof.
    intros Hd. unfold p. rewrite D_hv_bridge, Psi_hv_form, rate_nds by assumption. field. lra.
  Qed.

  (* dissipated energy is non-negative *)
  Lemma D_hv_nonneg (Fv : M) dt (H : M) : 0 < dt -> 0 <= Gn -> 0 <= D_hv lss p Fv dt H.
  Proof.
    intros Hd HG. rewrite D_hv_closed by exact Hd. pose proof (nds_nonneg (Etrial lss H Fv)).
    destruct (fac_pos dt tau Hd Htau) as [Hf _]. assert (Hr : 0 < dt / tau) by (apply Rdiv_lt_0_compat; lra).
    assert (H1 : 0 <= Gn * nds (Etrial lss H Fv)) by (apply Rmult_le_pos; lra).
    assert (H2 : 0 <= fac dt tau * fac dt tau) by (apply Rmult_le_pos; lra).
    apply Rmult_le_pos; [apply Rmult_le_pos; [exact H1 | lra] | exact H2].
  Qed.

  (* the viscous flow is isochoric, for every matrix exponential with det(exp A) = exp(tr A) *)
  Hypothesis Hexp : forall A : M, mdet (expm A) = exp (mtrace A).
  Lemma state_new_hv_det (Fv : M) dt (H : M) : 0 < dt -> mdet (state_new_hv lss expm p Fv dt H) = mdet Fv.
  Proof.
    intros Hd. unfold p. rewrite state_new_hv_bridge, mdet_mmul, Hexp, inc_trace by assumption. rewrite exp_0. ring.
  Qed.

  (* relaxation at held deformation: one more step multiplies the stored non-equilibrium energy by fac^2 < 1.
     Hcoax: the trial strain of the updated state is the relaxed strain -- exact for the true matrix logarithm and
     exponential because the increment is coaxial with the trial strain (it is a multiple of its deviator). *)
  Variable H : M.
  Hypothesis Hcoax : forall (Fv : M) dt, 0 < dt ->
    Etrial lss H (state_new_hv lss expm p Fv dt H) = relax_hv p dt (Etrial lss H Fv).

  Lemma Wneq_reported_form (Fv : M) dt : 0 < dt ->
    Wneq_reported_hv lss p Fv dt H = Gn * (fac dt tau * fac dt tau * nds (Etrial lss H Fv)).
  Proof. intros Hd. unfold Wneq_reported_hv, p. now rewrite Wneq_hv_form, relax_nds. Qed.

  Lemma relaxation_step (Fv : M) dt dt' : 0 < dt -> 0 < dt' -> 0 <= Gn ->
    Wneq_reported_hv lss p (state_new_hv lss expm p Fv dt H) dt' H
    = fac dt' tau * fac dt' tau * Wneq_reported_hv lss p Fv dt H
    /\ Wneq_reported_hv lss p (state_new_hv lss expm p Fv dt H) dt' H <= Wneq_reported_hv lss p Fv dt H.
  Proof.
    intros Hd Hd' HG. rewrite !Wneq_reported_form by assumption. rewrite Hcoax by assumption. unfold p. rewrite relax_nds by assumption.
    split; [ring |]. destruct (fac_pos dt tau Hd Htau) as [F0 F1]. destruct (fac_pos dt' tau Hd' Htau) as [F0' F1'].
    pose proof (nds_nonneg (Etrial lss H Fv)) as Hn.
    assert (Hx : 0 <= Gn * (fac dt tau * fac dt tau * nds (Etrial lss H Fv))).
    { apply Rmult_le_pos; [lra |]. apply Rmult_le_pos; [apply Rmult_le_pos; lra | lra]. }
    assert (Hff : fac dt' tau * fac dt' tau <= 1) by nra.
    replace (Gn * (fac dt' tau * fac dt' tau * (fac dt tau * fac dt tau * nds (Etrial lss H Fv))))
      with (fac dt' tau * fac dt' tau * (Gn * (fac dt tau * fac dt tau * nds (Etrial lss H Fv)))) by ring.
    nra.
  Qed.

  (* along any sequence of positive steps at held deformation the reported non-equilibrium energy never increases *)
  Fixpoint reported (Fv : M) (dts : list R) : list R :=
    match dts with
    | [] => []
    | dt :: r => Wneq_reported_hv lss p Fv dt H :: reported (state_new_hv lss expm p Fv dt H) r
    end.
  Fixpoint nonincreasing (l : list R) : Prop :=
    match l with
    | x :: ((y :: _) as r) => y <= x /\ nonincreasing r
    | _ => True
    end.
  Lemma relaxation_monotone dts : Forall (fun dt => 0 < dt) dts -> 0 <= Gn -> forall Fv, nonincreasing (reported Fv dts).
  Proof.
    intros Hp HG. induction Hp as [| dt r Hd Hr IH]; intros Fv; [exact I |]. cbn [reported].
    destruct r as [| dt' r']; [exact I |]. cbn [reported nonincreasing]. inversion Hr as [| ? ? Hd' _]; subst. split.
    - apply relaxation_step; assumption.
    - exact (IH (state_new_hv lss expm p Fv dt H)).
  Qed.
End Single.

(* the stored non-equilibrium energy is what the model reports: energy density minus dissipated energy minus equilibrium energy *)
Lemma reported_is_energy_minus_dissipation_hv lss K G Gn tau (Fv : M) dt (H : M) :
  E_hv lss (K, G, Gn, tau) Fv dt H - D_hv lss (K, G, Gn, tau) Fv dt H - E_hv_eq (K, G, Gn, tau) H = Wneq_reported_hv lss (K, G, Gn, tau) Fv dt H.
Proof. rewrite E_hv_bridge, D_hv_bridge. unfold Wneq_reported_hv. ring. Qed.

(* ---- bounds on the integration factor, and the two limits for one branch *)
Lemma fac_bounds dt tau : 0 < dt -> 0 < tau -> 0 <= 1 - fac dt tau <= dt / tau /\ 0 <= fac dt tau <= tau / dt.
Proof.
  intros Hd Ht. destruct (fac_pos dt tau Hd Ht) as [F0 F1]. assert (Hr : 0 < dt / tau) by (apply Rdiv_lt_0_compat; lra).
  assert (E : fac dt tau * (1 + dt / tau) = 1) by (unfold fac; field; split; [lra | pose proof (den_ne dt tau Hd Ht); lra]).
  assert (E2 : dt / tau * (tau / dt) = 1) by (field; lra).
  assert (Hq : 0 < tau / dt) by (apply Rdiv_lt_0_compat; lra).
  repeat split; try lra; nra.
Qed.

Section Limits1.
  Variables (lss : M -> M) (K G Gn tau : R) (Fv H : M).
  Let p : p4 := (K, G, Gn, tau).
  Hypothesis Htau : 0 < tau.
  Hypothesis HG : 0 <= Gn.
  Let c := Gn * nds (Etrial lss H Fv).
  (* instantaneous response: the branch spring carries the whole trial strain; equilibrium response: it carries nothing *)
  Definition W_inst_hv : R := E_hv_eq p H + Wneq_hv p (Etrial lss H Fv).
  Definition W_eq_hv : R := E_hv_eq p H.

  Lemma c_nonneg : 0 <= c.
  Proof. unfold c. apply Rmult_le_pos; [exact HG | apply nds_nonneg]. Qed.

  Lemma hv_bound_small_dt dt : 0 < dt -> Rabs (E_hv lss p Fv dt H - W_inst_hv) <= c * (dt / tau).
  Proof.
    intros Hd. unfold W_inst_hv, p. rewrite (E_hv_closed lss K G Gn tau Htau Fv dt H Hd), Wneq_hv_form. fold c.
    destruct (fac_bounds dt tau Hd Htau) as [[B1 B2] _]. pose proof c_nonneg.
    replace (E_hv_eq (K, G, Gn, tau) H + c * fac dt tau - (E_hv_eq (K, G, Gn, tau) H + c)) with (- (c * (1 - fac dt tau))) by ring.
    rewrite Rabs_Ropp, Rabs_pos_eq by (apply Rmult_le_pos; lra). apply Rmult_le_compat_l; lra.
  Qed.
  Lemma hv_bound_large_dt dt : 0 < dt -> Rabs (E_hv lss p Fv dt H - W_eq_hv) <= c * (tau / dt).
  Proof.
    intros Hd. unfold W_eq_hv, p. rewrite (E_hv_closed lss K G Gn tau Htau Fv dt H Hd). fold c.
    destruct (fac_bounds dt tau Hd Htau) as [_ [B1 B2]]. pose proof c_nonneg.
    replace (E_hv_eq (K, G, Gn, tau) H + c * fac dt tau - E_hv_eq (K, G, Gn, tau) H) with (c * fac dt tau) by ring.
    rewrite Rabs_pos_eq by (apply Rmult_le_pos; lra). apply Rmult_le_compat_l; lra.
  Qed.
  (* the two limits, in epsilon form *)
  Lemma hv_limit_dt_to_0 eps : 0 < eps -> exists delta, 0 < delta /\ forall dt, 0 < dt < delta -> Rabs (E_hv lss p Fv dt H - W_inst_hv) < eps.
  Proof.
    intros He. pose proof c_nonneg as Hc. exists (eps * tau / (c + 1)). split; [apply Rdiv_lt_0_compat; [apply Rmult_lt_0_compat |]; lra |].
    intros dt [Hd Hlt]. eapply Rle_lt_trans; [apply hv_bound_small_dt; exact Hd |].
    assert (Hx : dt * (c + 1) < eps * tau) by (apply (Rmult_lt_reg_r (/ (c + 1))); [apply Rinv_0_lt_compat; lra |];
      rewrite Rmult_assoc, Rinv_r by lra; unfold Rdiv in Hlt; lra).
    apply (Rmult_lt_reg_r tau); [exact Htau |]. unfold Rdiv. rewrite !Rmult_assoc, Rinv_l by lra. nra.
  Qed.
  Lemma hv_limit_dt_to_infinity eps : 0 < eps -> exists T, 0 < T /\ forall dt, T < dt -> Rabs (E_hv lss p Fv dt H - W_eq_hv) < eps.
  Proof.
    intros He. pose proof c_nonneg as Hc. exists ((c + 1) * tau / eps). split; [apply Rdiv_lt_0_compat; [apply Rmult_lt_0_compat |]; lra |].
    intros dt Hlt. assert (HT : 0 < (c + 1) * tau / eps) by (apply Rdiv_lt_0_compat; [apply Rmult_lt_0_compat |]; lra).
    assert (Hd : 0 < dt) by lra. eapply Rle_lt_trans; [apply hv_bound_large_dt; exact Hd |].
    assert (Hx : (c + 1) * tau < dt * eps) by (apply (Rmult_lt_reg_r (/ eps)); [apply Rinv_0_lt_compat; lra |];
      rewrite (Rmult_assoc dt), Rinv_r by lra; unfold Rdiv in Hlt; lra).
    apply (Rmult_lt_reg_r dt); [exact Hd |]. unfold Rdiv. rewrite !Rmult_assoc, Rinv_l by lra. nra.
  Qed.
End Limits1.

(* ---- three branches *)
Section Multi.
  Variables (lss expm : M -> M) (p : @p8 R).
  Hypothesis Htau : forall n, 0 < taub n p.
  Hypothesis HG : forall n, 0 <= Gb n p.

  Definition cb (n : nat) (H Fv : M) : R := Gb n p * nds (Etrial_mb lss H Fv).
  Lemma cb_nonneg n H Fv : 0 <= cb n H Fv.
  Proof. unfold cb. apply Rmult_le_pos; [apply HG | apply nds_nonneg]. Qed.

  Lemma branch_energy n (E : M) dt : 0 < dt ->
    Wneq_b n p (relax_b n p dt E) + dt * Psi_b n p (mdiv (inc_b n p dt E) dt) = Gb n p * nds E * fac dt (taub n p).
  Proof.
    intros Hd. pose proof (Htau n) as Ht. rewrite Wneq_b_form, Psi_b_form, relax_b_nds, rate_b_nds by assumption.
    pose proof (den_ne dt _ Hd Ht). unfold fac. field. split; lra.
  Qed.
  Lemma branch_dissipation n (E : M) dt : 0 < dt ->
    dt * Psi_b n p (mdiv (inc_b n p dt E) dt) = Gb n p * nds E * (dt / taub n p) * (fac dt (taub n p) * fac dt (taub n p))
    /\ 0 <= dt * Psi_b n p (mdiv (inc_b n p dt E) dt).
  Proof.
    intros Hd. pose proof (Htau n) as Ht. rewrite Psi_b_form, rate_b_nds by assumption.
    assert (E1 : dt * (Gb n p * taub n p * (fac dt (taub n p) / taub n p * (fac dt (taub n p) / taub n p) * nds E))
                 = Gb n p * nds E * (dt / taub n p) * (fac dt (taub n p) * fac dt (taub n p))) by (field; lra).
    split; [exact E1 |]. rewrite E1. destruct (fac_pos dt _ Hd Ht) as [F0 _]. pose proof (nds_nonneg E). pose proof (HG n).
    assert (0 < dt / taub n p) by (apply Rdiv_lt_0_compat; lra).
    apply Rmult_le_pos; [apply Rmult_le_pos; [apply Rmult_le_pos; lra | lra] | apply Rmult_le_pos; lra].
  Qed.

  Lemma E_mb_closed (Fv1 Fv2 Fv3 : M) dt (H : M) : 0 < dt ->
    E_mb lss p Fv1 Fv2 Fv3 dt H
    = E_mb_eq p H + cb 0 H Fv1 * fac dt (taub 0 p) + cb 1 H Fv2 * fac dt (taub 1 p) + cb 2 H Fv3 * fac dt (taub 2 p).
  Proof.
    intros Hd. rewrite E_mb_bridge. unfold cb.
    rewrite <- (branch_energy 0 (Etrial_mb lss H Fv1) dt Hd), <- (branch_energy 1 (Etrial_mb lss H Fv2) dt Hd),
            <- (branch_energy 2 (Etrial_mb lss H Fv3) dt Hd). ring.
  Qed.

  Lemma D_mb_nonneg (Fv1 Fv2 Fv3 : M) dt (H : M) : 0 < dt -> 0 <= D_mb lss p Fv1 Fv2 Fv3 dt H.
  Proof.
    intros Hd. unfold D_mb, D_mb_branch. unfold_num. q2r.
    destruct (branch_dissipation 0 (Etrial_mb lss H Fv1) dt Hd) as [_ H1].
    destruct (branch_dissipation 1 (Etrial_mb lss H Fv2) dt Hd) as [_ H2].
    destruct (branch_dissipation 2 (Etrial_mb lss H Fv3) dt Hd) as [_ H3]. lra.
  Qed.

  Hypothesis Hexp : forall A : M, mdet (expm A) = exp (mtrace A).
  Lemma state_new_b_det n (Fv : M) dt (H : M) : 0 < dt -> mdet (state_new_b n lss expm p Fv dt H) = mdet Fv.
  Proof. intros Hd. unfold state_new_b. rewrite mdet_mmul, Hexp, inc_b_trace by (auto using Htau). rewrite exp_0. ring. Qed.

  (* relaxation of every branch at held deformation *)
  Variable H : M.
  Hypothesis Hcoax : forall n (Fv : M) dt, 0 < dt ->
    Etrial_mb lss H (state_new_b n lss expm p Fv dt H) = relax_b n p dt (Etrial_mb lss H Fv).
  Lemma relaxation_step_b n (Fv : M) dt dt' : 0 < dt -> 0 < dt' ->
    Wneq_reported_b n lss p (state_new_b n lss expm p Fv dt H) dt' H
    = fac dt' (taub n p) * fac dt' (taub n p) * Wneq_reported_b n lss p Fv dt H
    /\ Wneq_reported_b n lss p (state_new_b n lss expm p Fv dt H) dt' H <= Wneq_reported_b n lss p Fv dt H.
  Proof.
    intros Hd Hd'. pose proof (Htau n) as Ht. unfold Wneq_reported_b. rewrite Hcoax by assumption.
    rewrite !Wneq_b_form, !relax_b_nds by assumption.
    set (x := Gb n p * (fac dt (taub n p) * fac dt (taub n p) * nds (Etrial_mb lss H Fv))).
    assert (Hx : 0 <= x).
    { destruct (fac_pos dt _ Hd Ht). pose proof (nds_nonneg (Etrial_mb lss H Fv)). pose proof (HG n).
      unfold x. apply Rmult_le_pos; [lra |]. apply Rmult_le_pos; [apply Rmult_le_pos; lra | lra]. }
    replace (Gb n p * (fac dt' (taub n p) * fac dt' (taub n p) * (fac dt (taub n p) * fac dt (taub n p) * nds (Etrial_mb lss H Fv))))
      with (fac dt' (taub n p) * fac dt' (taub n p) * x) by (unfold x; ring).
    split; [reflexivity |]. destruct (fac_pos dt' _ Hd' Ht) as [F0 F1]. assert (fac dt' (taub n p) * fac dt' (taub n p) <= 1) by nra. nra.
  Qed.

  (* along ANY sequence of positive steps at held deformation the stored non-equilibrium energy of every branch, and their sum (the
     W_neq that _energy_density accumulates over the three Prony branches), never increase *)
  Fixpoint reported_b (n : nat) (Fv : M) (dts : list R) : list R :=
    match dts with
    | [] => []
    | dt :: r => Wneq_reported_b n lss p Fv dt H :: reported_b n (state_new_b n lss expm p Fv dt H) r
    end.
  Lemma relaxation_monotone_b n dts : Forall (fun dt => 0 < dt) dts -> forall Fv, nonincreasing (reported_b n Fv dts).
  Proof.
    intros Hp. induction Hp as [| dt r Hd Hr IH]; intros Fv; [exact I |]. cbn [reported_b].
    destruct r as [| dt' r']; [exact I |]. cbn [reported_b nonincreasing]. inversion Hr as [| ? ? Hd' _]; subst. split.
    - apply relaxation_step_b; assumption.
    - exact (IH (state_new_b n lss expm p Fv dt H)).
  Qed.
  Definition Wneq_total (Fv1 Fv2 Fv3 : M) (dt : R) : R :=
    Wneq_reported_b 0 lss p Fv1 dt H + Wneq_reported_b 1 lss p Fv2 dt H + Wneq_reported_b 2 lss p Fv3 dt H.
  Fixpoint reported_total (Fv1 Fv2 Fv3 : M) (dts : list R) : list R :=
    match dts with
    | [] => []
    | dt :: r => Wneq_total Fv1 Fv2 Fv3 dt
                 :: reported_total (state_new_b 0 lss expm p Fv1 dt H) (state_new_b 1 lss expm p Fv2 dt H) (state_new_b 2 lss expm p Fv3 dt H) r
    end.
  Lemma relaxation_monotone_total dts : Forall (fun dt => 0 < dt) dts -> forall Fv1 Fv2 Fv3, nonincreasing (reported_total Fv1 Fv2 Fv3 dts).
  Proof.
    intros Hp. induction Hp as [| dt r Hd Hr IH]; intros Fv1 Fv2 Fv3; [exact I |]. cbn [reported_total].
    destruct r as [| dt' r']; [exact I |]. cbn [reported_total nonincreasing]. inversion Hr as [| ? ? Hd' _]; subst. split.
    - unfold Wneq_total.
      destruct (relaxation_step_b 0 Fv1 dt dt' Hd Hd') as [_ L0]. destruct (relaxation_step_b 1 Fv2 dt dt' Hd Hd') as [_ L1].
      destruct (relaxation_step_b 2 Fv3 dt dt' Hd Hd') as [_ L2]. lra.
    - apply IH.
  Qed.
  (* the sum is what the model reports: energy density minus dissipated energy minus equilibrium energy *)
  Lemma reported_total_is_energy_minus_dissipation (Fv1 Fv2 Fv3 : M) dt :
    E_mb lss p Fv1 Fv2 Fv3 dt H - D_mb lss p Fv1 Fv2 Fv3 dt H - E_mb_eq p H = Wneq_total Fv1 Fv2 Fv3 dt.
  Proof. rewrite E_mb_bridge. unfold D_mb, D_mb_branch, Wneq_total, Wneq_reported_b. unfold_num. q2r. ring. Qed.
End Multi.

(* limits for the three-branch model *)
Section Limits3.
  Variables (lss : M -> M) (p : @p8 R) (Fv1 Fv2 Fv3 H : M).
  Hypothesis Htau : forall n, 0 < taub n p.
  Hypothesis HG : forall n, 0 <= Gb n p.
  Let c0 := cb lss p 0 H Fv1. Let c1 := cb lss p 1 H Fv2. Let c2 := cb lss p 2 H Fv3.
  Definition W_inst_mb : R := E_mb_eq p H + cb lss p 0 H Fv1 + cb lss p 1 H Fv2 + cb lss p 2 H Fv3.
  Definition W_eq_mb : R := E_mb_eq p H.

  Lemma mb_bound_small_dt dt : 0 < dt ->
    Rabs (E_mb lss p Fv1 Fv2 Fv3 dt H - W_inst_mb) <= c0 * (dt / taub 0 p) + c1 * (dt / taub 1 p) + c2 * (dt / taub 2 p).
  Proof.
    intros Hd. unfold W_inst_mb. rewrite (E_mb_closed lss p Htau Fv1 Fv2 Fv3 dt H Hd). fold c0 c1 c2.
    destruct (fac_bounds dt _ Hd (Htau 0)) as [[A1 A2] _]. destruct (fac_bounds dt _ Hd (Htau 1)) as [[B1 B2] _].
    destruct (fac_bounds dt _ Hd (Htau 2)) as [[C1 C2] _].
    pose proof (cb_nonneg lss p HG 0 H Fv1) as P0. pose proof (cb_nonneg lss p HG 1 H Fv2) as P1. pose proof (cb_nonneg lss p HG 2 H Fv3) as P2.
    fold c0 in P0. fold c1 in P1. fold c2 in P2.
    match goal with |- Rabs ?x <= _ => replace x with (- (c0 * (1 - fac dt (taub 0 p)) + c1 * (1 - fac dt (taub 1 p)) + c2 * (1 - fac dt (taub 2 p)))) by ring end.
    assert (Q0 : 0 <= c0 * (1 - fac dt (taub 0 p)) <= c0 * (dt / taub 0 p)) by (split; [apply Rmult_le_pos | apply Rmult_le_compat_l]; lra).
    assert (Q1 : 0 <= c1 * (1 - fac dt (taub 1 p)) <= c1 * (dt / taub 1 p)) by (split; [apply Rmult_le_pos | apply Rmult_le_compat_l]; lra).
    assert (Q2 : 0 <= c2 * (1 - fac dt (taub 2 p)) <= c2 * (dt / taub 2 p)) by (split; [apply Rmult_le_pos | apply Rmult_le_compat_l]; lra).
    rewrite Rabs_Ropp, Rabs_pos_eq by lra. lra.
  Qed.
  Lemma mb_bound_large_dt dt : 0 < dt ->
    Rabs (E_mb lss p Fv1 Fv2 Fv3 dt H - W_eq_mb) <= c0 * (taub 0 p / dt) + c1 * (taub 1 p / dt) + c2 * (taub 2 p / dt).
  Proof.
    intros Hd. unfold W_eq_mb. rewrite (E_mb_closed lss p Htau Fv1 Fv2 Fv3 dt H Hd). fold c0 c1 c2.
    destruct (fac_bounds dt _ Hd (Htau 0)) as [_ [A1 A2]]. destruct (fac_bounds dt _ Hd (Htau 1)) as [_ [B1 B2]].
    destruct (fac_bounds dt _ Hd (Htau 2)) as [_ [C1 C2]].
    pose proof (cb_nonneg lss p HG 0 H Fv1) as P0. pose proof (cb_nonneg lss p HG 1 H Fv2) as P1. pose proof (cb_nonneg lss p HG 2 H Fv3) as P2.
    fold c0 in P0. fold c1 in P1. fold c2 in P2.
    match goal with |- Rabs ?x <= _ => replace x with (c0 * fac dt (taub 0 p) + c1 * fac dt (taub 1 p) + c2 * fac dt (taub 2 p)) by ring end.
    assert (Q0 : 0 <= c0 * fac dt (taub 0 p) <= c0 * (taub 0 p / dt)) by (split; [apply Rmult_le_pos | apply Rmult_le_compat_l]; lra).
    assert (Q1 : 0 <= c1 * fac dt (taub 1 p) <= c1 * (taub 1 p / dt)) by (split; [apply Rmult_le_pos | apply Rmult_le_compat_l]; lra).
    assert (Q2 : 0 <= c2 * fac dt (taub 2 p) <= c2 * (taub 2 p / dt)) by (split; [apply Rmult_le_pos | apply Rmult_le_compat_l]; lra).
    rewrite Rabs_pos_eq by lra. lra.
  Qed.
End Limits3.

(* ---- non-vacuity: the hypotheses on the un-modelled functions are jointly satisfiable (these instances are NOT the matrix
   logarithm / exponential; the real functions are checked against the hypotheses on the implementation by the harness) *)
Definition expm_iso (A : M) : M := mscal (exp (mtrace A / 3)) mid.
Lemma expm_iso_det A : mdet (expm_iso A) = exp (mtrace A).
Proof.
  unfold expm_iso. set (e := exp (mtrace A / 3)). replace (mtrace A) with (mtrace A / 3 + mtrace A / 3 + mtrace A / 3) by field.
  rewrite !exp_plus. fold e. cbv beta iota zeta delta [mdet mscal mid m00 m01 m02 m10 m11 m12 m20 m21 m22 nadd nsub nmul NumR nunit nzero nZ nconst Q2R' Qnum Qden inject_Z]. ring.
Qed.
Lemma hypotheses_satisfiable : exists (lss expm : M -> M),
  (forall A : M, mdet (expm A) = exp (mtrace A))
  /\ forall K G Gn tau (H Fv : M) dt, 0 < tau -> 0 < dt ->
       Etrial lss H (state_new_hv lss expm (K, G, Gn, tau) Fv dt H) = relax_hv (K, G, Gn, tau) dt (Etrial lss H Fv).
Proof.
  exists (fun _ => mzero), expm_iso. split; [exact expm_iso_det |]. intros K G Gn tau H Fv dt Ht Hd.
  pose proof (den_ne dt tau Hd Ht). dm H. dm Fv. cnum. f_equal; field; split; lra.
Qed.
