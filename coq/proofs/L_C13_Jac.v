(* C13 -- geometric non-degeneracy of the elevated elements: the isoparametric map of every elevated element is the affine map of
   its simplex and its Jacobian is the constant Jacobian of the simplex (the one FunctionSpace.py uses), at EVERY point at which
   the shape functions reproduce 1, xi0, xi1 and their gradients -- which exact Lagrange shape functions (solution of the
   Vandermonde system of ANY basis whose span contains the affine functions) do at every point.  With the certificate tolerances
   (reference tables: delta, delta'; shape table: eps) the statements carry explicit bounds; with exact tables they are equalities.
   Composition of elevated_node_affine (L_C13_ElevMesh) with linear algebra of weighted sums. *)
From Coq Require Import List Arith Lia Bool Reals Lra.
From OV.base Require Import Num.
From OV.model Require Import M_C13_Edges M_C13_Elevate M_C13_Coords M_C13_ElevMesh M_C13_Jac.
From OV.proofs Require Import L_C13_Edges L_C13_Elevate L_C13_Elev2 L_C13_Elev3 L_C13_Coords L_C13_ElevMesh.
Import ListNotations.
Local Open Scope R_scope.

(* ---- weighted sums *)
Lemma wsumf_ext k W f g : (forall p, (k <= p < k + length W)%nat -> f p = g p) -> wsumf k W f = wsumf k W g.
Proof.
  revert k. induction W as [| a W IH]; intros k H; [reflexivity |]. cbn [wsumf].
  rewrite (H k) by (cbn [length]; lia). rewrite (IH (S k)); [reflexivity |]. intros p Hp. apply H. cbn [length]. lia.
Qed.
Lemma wsumf_lin k W (c0 c1 c2 : R) g h e :
  wsumf k W (fun p => c0 + c1 * g p + c2 * h p + e p)
  = c0 * wsumf k W (fun _ => 1) + c1 * wsumf k W g + c2 * wsumf k W h + wsumf k W e.
Proof. revert k. induction W as [| a W IH]; intros k; cbn [wsumf]; [ring |]. rewrite IH. ring. Qed.
Lemma wsumf_scal_add k W (x : R) g e : wsumf k W (fun p => x * g p + e p) = x * wsumf k W g + wsumf k W e.
Proof. revert k. induction W as [| a W IH]; intros k; cbn [wsumf]; [ring |]. rewrite IH. ring. Qed.
Lemma wsumf_zero k W : wsumf k W (fun _ => 0) = 0.
Proof. revert k. induction W as [| a W IH]; intros k; cbn [wsumf]; [reflexivity |]. rewrite IH. ring. Qed.
Lemma asum_nonneg W : 0 <= asum W.
Proof. induction W as [| a W IH]; cbn [asum]; [lra |]. pose proof (Rabs_pos a). lra. Qed.
Lemma wsumf_bound k W e E : (forall p, (k <= p < k + length W)%nat -> Rabs (e p) <= E) -> Rabs (wsumf k W e) <= asum W * E.
Proof.
  revert k. induction W as [| a W IH]; intros k H; cbn [wsumf asum].
  - rewrite Rabs_R0. lra.
  - eapply Rle_trans; [apply Rabs_triang |]. rewrite Rabs_mult.
    assert (H1 : Rabs (e k) <= E) by (apply H; cbn [length]; lia).
    assert (H2 : Rabs (wsumf (S k) W e) <= asum W * E) by (apply IH; intros p Hp; apply H; cbn [length]; lia).
    pose proof (Rabs_pos a).
    assert (Rabs a * Rabs (e k) <= Rabs a * E) by (apply Rmult_le_compat_l; assumption). lra.
Qed.
(* sum exchange: sum_a W_a sum_i c_i A(a,i) = sum_i c_i sum_a W_a A(a,i) *)
Lemma wsumf_exchange k W j c (A : nat -> nat -> R) :
  wsumf k W (fun a => wsumf j c (fun i => A a i)) = wsumf j c (fun i => wsumf k W (fun a => A a i)).
Proof.
  revert j. induction c as [| x c IH]; intros j; cbn [wsumf]; [apply wsumf_zero |].
  rewrite (wsumf_scal_add k W x (fun a => A a j) (fun a => wsumf (S j) c (fun i => A a i))). now rewrite IH.
Qed.

Lemma abs_prod_le x y p q : Rabs x <= p -> Rabs y <= q -> Rabs (x * y) <= p * q.
Proof. intros Hx Hy. rewrite Rabs_mult. apply Rmult_le_compat; auto using Rabs_pos. Qed.

(* ---- the core: nodes within E of the affine image of their reference points, weights reproducing (s, a0, a1) within eps *)
Lemma wsumf_affine_close W (c r0 r1 : nat -> R) A B C E s a0 a1 eps :
  (forall p, (p < length W)%nat -> Rabs (c p - (r0 p * A + r1 p * B + (1 - r0 p - r1 p) * C)) <= E) ->
  Rabs (lsum W - s) <= eps -> Rabs (wsumf 0 W r0 - a0) <= eps -> Rabs (wsumf 0 W r1 - a1) <= eps ->
  Rabs (wsumf 0 W c - (s * C + a0 * (A - C) + a1 * (B - C))) <= eps * (Rabs C + Rabs (A - C) + Rabs (B - C)) + asum W * E.
Proof.
  intros Hc Hs H0 H1.
  set (e := fun p => c p - (r0 p * A + r1 p * B + (1 - r0 p - r1 p) * C)).
  assert (Eq : wsumf 0 W c = wsumf 0 W (fun p => C + (A - C) * r0 p + (B - C) * r1 p + e p)).
  { apply wsumf_ext. intros p _. unfold e. ring. }
  rewrite Eq, wsumf_lin. fold (lsum W).
  replace (C * lsum W + (A - C) * wsumf 0 W r0 + (B - C) * wsumf 0 W r1 + wsumf 0 W e - (s * C + a0 * (A - C) + a1 * (B - C)))
    with (C * (lsum W - s) + (A - C) * (wsumf 0 W r0 - a0) + (B - C) * (wsumf 0 W r1 - a1) + wsumf 0 W e) by ring.
  assert (He : Rabs (wsumf 0 W e) <= asum W * E) by (apply wsumf_bound; intros p Hp; apply Hc; lia).
  pose proof (abs_prod_le C (lsum W - s) (Rabs C) eps (Rle_refl _) Hs) as B1.
  pose proof (abs_prod_le (A - C) (wsumf 0 W r0 - a0) (Rabs (A - C)) eps (Rle_refl _) H0) as B2.
  pose proof (abs_prod_le (B - C) (wsumf 0 W r1 - a1) (Rabs (B - C)) eps (Rle_refl _) H1) as B3.
  eapply Rle_trans; [apply Rabs_triang |]. eapply Rle_trans; [apply Rplus_le_compat_r, Rabs_triang |].
  eapply Rle_trans; [apply Rplus_le_compat_r, Rplus_le_compat_r, Rabs_triang |]. lra.
Qed.

(* determinant of a perturbed 2 x 2 matrix (rows perturbed by d1, d2) *)
Lemma det_perturb a b c e a0 b0 c0 e0 d1 d2 :
  Rabs (a - a0) <= d1 -> Rabs (b - b0) <= d1 -> Rabs (c - c0) <= d2 -> Rabs (e - e0) <= d2 ->
  Rabs ((a * e - b * c) - (a0 * e0 - b0 * c0)) <= d2 * (Rabs a0 + Rabs b0) + d1 * (Rabs c0 + Rabs e0) + 2 * d1 * d2.
Proof.
  intros Ha Hb Hc He.
  replace ((a * e - b * c) - (a0 * e0 - b0 * c0))
    with (a0 * (e - e0) + (a - a0) * e0 + (a - a0) * (e - e0) - (b0 * (c - c0)) - ((b - b0) * c0) - ((b - b0) * (c - c0))) by ring.
  pose proof (abs_prod_le a0 (e - e0) _ _ (Rle_refl _) He) as T1.
  pose proof (abs_prod_le (a - a0) e0 _ _ Ha (Rle_refl _)) as T2.
  pose proof (abs_prod_le (a - a0) (e - e0) _ _ Ha He) as T3.
  pose proof (abs_prod_le b0 (c - c0) _ _ (Rle_refl _) Hc) as T4.
  pose proof (abs_prod_le (b - b0) c0 _ _ Hb (Rle_refl _)) as T5.
  pose proof (abs_prod_le (b - b0) (c - c0) _ _ Hb Hc) as T6.
  set (u1 := a0 * (e - e0)) in *. set (u2 := (a - a0) * e0) in *. set (u3 := (a - a0) * (e - e0)) in *.
  set (u4 := b0 * (c - c0)) in *. set (u5 := (b - b0) * c0) in *. set (u6 := (b - b0) * (c - c0)) in *.
  assert (Rabs (u1 + u2 + u3 - u4 - u5 - u6) <= Rabs u1 + Rabs u2 + Rabs u3 + Rabs u4 + Rabs u5 + Rabs u6).
  { unfold Rminus.
    pose proof (Rabs_triang (u1 + u2 + u3 + - u4 + - u5) (- u6)) as K1. pose proof (Rabs_triang (u1 + u2 + u3 + - u4) (- u5)) as K2.
    pose proof (Rabs_triang (u1 + u2 + u3) (- u4)) as K3. pose proof (Rabs_triang (u1 + u2) u3) as K4. pose proof (Rabs_triang u1 u2) as K5.
    rewrite Rabs_Ropp in K1, K2, K3. lra. }
  lra.
Qed.

(* ---- degree-1 reproduction of a shape-function row (values N, parametric gradients Gx = dN/dxi0, Gy = dN/dxi1) at the point xi,
        within eps: sum N = 1, sum N ref = xi, sum grad N = 0, sum grad N (x) ref = I *)
Record repro (ref : nat -> R * R) (n : nat) (xi : R * R) (N Gx Gy : list R) (eps : R) : Prop := {
  rp_lN : length N = n; rp_lGx : length Gx = n; rp_lGy : length Gy = n;
  rp_N1 : Rabs (lsum N - 1) <= eps;
  rp_N0x : Rabs (wsumf 0 N (fun p => fst (ref p)) - fst xi) <= eps;
  rp_N0y : Rabs (wsumf 0 N (fun p => snd (ref p)) - snd xi) <= eps;
  rp_Gx1 : Rabs (lsum Gx - 0) <= eps;
  rp_Gxx : Rabs (wsumf 0 Gx (fun p => fst (ref p)) - 1) <= eps;
  rp_Gxy : Rabs (wsumf 0 Gx (fun p => snd (ref p)) - 0) <= eps;
  rp_Gy1 : Rabs (lsum Gy - 0) <= eps;
  rp_Gyx : Rabs (wsumf 0 Gy (fun p => fst (ref p)) - 0) <= eps;
  rp_Gyy : Rabs (wsumf 0 Gy (fun p => snd (ref p)) - 1) <= eps }.

(* ---- exact Lagrange shape functions reproduce the affine functions at EVERY point.  Interpolants.shape2d solves
          A^T shapes = nf,  A^T dshapes_x = nfx,  A^T dshapes_y = nfy      A[a, j] = pb_j(ref_a), nf[j] = pb_j(xi), nfx[j] = d pb_j / d xi0 (xi) ...
        for a basis pb_0 .. pb_{nb-1} (orthonormal Dubiner polynomials there; ANY basis here) whose span contains 1, xi0, xi1 with
        coefficient lists c1, cx, cy, the same combinations of the derivative functions being the derivatives 0/1/0/0/0/1. *)
Section Lagrange.
  Variable ref : nat -> R * R.
  Variable n nb : nat.
  Variables pb dxb dyb : nat -> R * R -> R.
  Variables c1 cx cy : list R.
  Hypothesis L1 : length c1 = nb.
  Hypothesis Lx : length cx = nb.
  Hypothesis Ly : length cy = nb.
  Hypothesis S1 : forall eta, wsumf 0 c1 (fun j => pb j eta) = 1 /\ wsumf 0 c1 (fun j => dxb j eta) = 0 /\ wsumf 0 c1 (fun j => dyb j eta) = 0.
  Hypothesis Sx : forall eta, wsumf 0 cx (fun j => pb j eta) = fst eta /\ wsumf 0 cx (fun j => dxb j eta) = 1 /\ wsumf 0 cx (fun j => dyb j eta) = 0.
  Hypothesis Sy : forall eta, wsumf 0 cy (fun j => pb j eta) = snd eta /\ wsumf 0 cy (fun j => dxb j eta) = 0 /\ wsumf 0 cy (fun j => dyb j eta) = 1.

  (* a weight row W solving the transposed Vandermonde system with right-hand side b reproduces every function in the span *)
  Lemma vandermonde_span W (b : nat -> R) c (q : nat -> R) : length c = nb ->
    (forall j, (j < nb)%nat -> wsumf 0 W (fun a => pb j (ref a)) = b j) ->
    (forall a, wsumf 0 c (fun j => pb j (ref a)) = q a) ->
    wsumf 0 W q = wsumf 0 c b.
  Proof.
    intros Hl Hsys Hq.
    rewrite (wsumf_ext 0 W q (fun a => wsumf 0 c (fun j => pb j (ref a)))) by (intros p _; now rewrite Hq).
    rewrite (wsumf_exchange 0 W 0 c (fun a j => pb j (ref a))).
    apply wsumf_ext. intros j Hj. apply Hsys. lia.
  Qed.

  Theorem lagrange_repro xi N Gx Gy : length N = n -> length Gx = n -> length Gy = n ->
    (forall j, (j < nb)%nat -> wsumf 0 N (fun a => pb j (ref a)) = pb j xi) ->
    (forall j, (j < nb)%nat -> wsumf 0 Gx (fun a => pb j (ref a)) = dxb j xi) ->
    (forall j, (j < nb)%nat -> wsumf 0 Gy (fun a => pb j (ref a)) = dyb j xi) ->
    repro ref n xi N Gx Gy 0.
  Proof.
    intros HN HGx HGy EN EGx EGy.
    assert (Z0 : forall x y : R, x = y -> Rabs (x - y) <= 0) by (intros x y ->; rewrite Rminus_diag_eq, Rabs_R0 by reflexivity; lra).
    destruct (S1 xi) as (A1 & A2 & A3). destruct (Sx xi) as (B1 & B2 & B3). destruct (Sy xi) as (C1 & C2 & C3).
    constructor; try assumption; apply Z0; unfold lsum.
    - rewrite (vandermonde_span N (fun j => pb j xi) c1 (fun _ => 1) L1 EN); [exact A1 | intros a; apply S1].
    - rewrite (vandermonde_span N (fun j => pb j xi) cx (fun p => fst (ref p)) Lx EN); [exact B1 | intros a; apply Sx].
    - rewrite (vandermonde_span N (fun j => pb j xi) cy (fun p => snd (ref p)) Ly EN); [exact C1 | intros a; apply Sy].
    - rewrite (vandermonde_span Gx (fun j => dxb j xi) c1 (fun _ => 1) L1 EGx); [exact A2 | intros a; apply S1].
    - rewrite (vandermonde_span Gx (fun j => dxb j xi) cx (fun p => fst (ref p)) Lx EGx); [exact B2 | intros a; apply Sx].
    - rewrite (vandermonde_span Gx (fun j => dxb j xi) cy (fun p => snd (ref p)) Ly EGx); [exact C2 | intros a; apply Sy].
    - rewrite (vandermonde_span Gy (fun j => dyb j xi) c1 (fun _ => 1) L1 EGy); [exact A3 | intros a; apply S1].
    - rewrite (vandermonde_span Gy (fun j => dyb j xi) cx (fun p => fst (ref p)) Lx EGy); [exact B3 | intros a; apply Sx].
    - rewrite (vandermonde_span Gy (fun j => dyb j xi) cy (fun p => snd (ref p)) Ly EGy); [exact C3 | intros a; apply Sy].
  Qed.
End Lagrange.

(* ---- the elevated mesh *)
Section Jac.
  Variables X Y s1d : nat -> R.
  Variable ref : nat -> R * R.
  Variable pe : pelem.
  Variables nV m : nat.
  Variable conns : list (list nat).
  Variables delta delta' : R.
  Hypothesis Hok : pe_okb pe m = true.
  Hypothesis Hnd : NoDup (all_faces conns).
  Hypothesis Hnondeg : forall f, In f (all_faces conns) -> fst f <> snd f.
  Hypothesis Hlen : Forall (fun c => length c = 3%nat) conns.
  Hypothesis Hrange : Forall (Forall (fun i => (i < nV)%nat)) conns.
  Hypothesis Href : ref_good ref pe s1d delta.
  Hypothesis Hsym : forall k, (k < m)%nat -> Rabs (s1d k + s1d (m - 1 - k) - 1) <= delta'.
  Hypothesis Hd : 0 <= delta.
  Hypothesis Hd' : 0 <= delta'.
  Variable t : nat.
  Hypothesis Ht : (t < length conns)%nat.
  (* shape data at one point *)
  Variable xi : R * R.
  Variables N Gx Gy : list R.
  Variables eps lam : R.
  Hypothesis Hrep : repro ref (pe_n pe) xi N Gx Gy eps.
  Hypothesis Hlx : asum Gx <= lam.
  Hypothesis Hly : asum Gy <= lam.

  Let cx := el_coord X s1d ref pe nV m conns t.
  Let cy := el_coord Y s1d ref pe nV m conns t.
  Let V (Z : nat -> R) (i : nat) : R := Z (em_tri conns t i).
  Let bnd (Z : nat -> R) : R := em_bound Z conns delta delta' t.
  (* size of the simplex in one component, and the resulting entry bound *)
  Definition comp_size (Z : nat -> R) : R := Rabs (V Z 2) + Rabs (V Z 0 - V Z 2) + Rabs (V Z 1 - V Z 2).
  Definition entry_bound (Z : nat -> R) : R := eps * comp_size Z + lam * bnd Z.

  Lemma bnd_nonneg Z : 0 <= bnd Z.
  Proof. unfold bnd, em_bound. destruct (bound_parts Z conns delta delta' Hd Hd' t). lra. Qed.

  Lemma node_close Z p : (p < pe_n pe)%nat ->
    Rabs (el_coord Z s1d ref pe nV m conns t p - (fst (ref p) * V Z 0 + snd (ref p) * V Z 1 + (1 - fst (ref p) - snd (ref p)) * V Z 2)) <= bnd Z.
  Proof.
    intros Hp. destruct (elevated_node_affine Z s1d ref pe nV m conns delta delta' Hok Hnd Hnondeg Hlen Hrange Href Hsym Hd Hd' t p Ht Hp) as [_ H].
    rewrite em_affine_R in H. exact H.
  Qed.

  (* the isoparametric image of xi is the affine image of xi *)
  Theorem iso_position Z :
    Rabs (iso_pos N (el_coord Z s1d ref pe nV m conns t) - affine_image (fst xi) (snd xi) (V Z 0) (V Z 1) (V Z 2))
    <= eps * comp_size Z + asum N * bnd Z.
  Proof.
    unfold iso_pos, affine_image, comp_size.
    replace (fst xi * V Z 0 + snd xi * V Z 1 + (1 - fst xi - snd xi) * V Z 2)
      with (1 * V Z 2 + fst xi * (V Z 0 - V Z 2) + snd xi * (V Z 1 - V Z 2)) by ring.
    apply (wsumf_affine_close N _ (fun p => fst (ref p)) (fun p => snd (ref p))).
    - intros p Hp. apply node_close. now rewrite <- (rp_lN _ _ _ _ _ _ _ Hrep).
    - apply (rp_N1 _ _ _ _ _ _ _ Hrep).
    - apply (rp_N0x _ _ _ _ _ _ _ Hrep).
    - apply (rp_N0y _ _ _ _ _ _ _ Hrep).
  Qed.

  Lemma lam_bound W Z : asum W <= lam -> eps * comp_size Z + asum W * bnd Z <= entry_bound Z.
  Proof. intros H. unfold entry_bound. pose proof (bnd_nonneg Z). assert (asum W * bnd Z <= lam * bnd Z) by (apply Rmult_le_compat_r; assumption). lra. Qed.

  (* the four entries of the Jacobian matrix are those of column_stack((v0 - v2, v1 - v2)) *)
  Theorem iso_jacobian_entries Z :
    Rabs (wsumf 0 Gx (el_coord Z s1d ref pe nV m conns t) - (V Z 0 - V Z 2)) <= entry_bound Z
    /\ Rabs (wsumf 0 Gy (el_coord Z s1d ref pe nV m conns t) - (V Z 1 - V Z 2)) <= entry_bound Z.
  Proof.
    split.
    - eapply Rle_trans; [| apply (lam_bound Gx Z Hlx)]. unfold comp_size.
      replace (V Z 0 - V Z 2) with (0 * V Z 2 + 1 * (V Z 0 - V Z 2) + 0 * (V Z 1 - V Z 2)) at 1 by ring.
      apply (wsumf_affine_close Gx _ (fun p => fst (ref p)) (fun p => snd (ref p))).
      + intros p Hp. apply node_close. now rewrite <- (rp_lGx _ _ _ _ _ _ _ Hrep).
      + apply (rp_Gx1 _ _ _ _ _ _ _ Hrep).
      + apply (rp_Gxx _ _ _ _ _ _ _ Hrep).
      + apply (rp_Gxy _ _ _ _ _ _ _ Hrep).
    - eapply Rle_trans; [| apply (lam_bound Gy Z Hly)]. unfold comp_size.
      replace (V Z 1 - V Z 2) with (0 * V Z 2 + 0 * (V Z 0 - V Z 2) + 1 * (V Z 1 - V Z 2)) at 1 by ring.
      apply (wsumf_affine_close Gy _ (fun p => fst (ref p)) (fun p => snd (ref p))).
      + intros p Hp. apply node_close. now rewrite <- (rp_lGy _ _ _ _ _ _ _ Hrep).
      + apply (rp_Gy1 _ _ _ _ _ _ _ Hrep).
      + apply (rp_Gyx _ _ _ _ _ _ _ Hrep).
      + apply (rp_Gyy _ _ _ _ _ _ _ Hrep).
  Qed.

  Definition det_bound : R :=
    entry_bound Y * (Rabs (V X 0 - V X 2) + Rabs (V X 1 - V X 2)) + entry_bound X * (Rabs (V Y 0 - V Y 2) + Rabs (V Y 1 - V Y 2))
    + 2 * entry_bound X * entry_bound Y.

  (* the Jacobian determinant of the isoparametric map is the constant Jacobian of the simplex *)
  Theorem iso_jacobian_det : Rabs (iso_det Gx Gy cx cy - simplex_det X Y conns t) <= det_bound.
  Proof.
    destruct (iso_jacobian_entries X) as [A1 A2]. destruct (iso_jacobian_entries Y) as [B1 B2].
    unfold iso_det, simplex_det, det_bound, cx, cy. fold (V X 0) (V X 1) (V X 2) (V Y 0) (V Y 1) (V Y 2).
    apply det_perturb; assumption.
  Qed.
  Corollary iso_jacobian_positive : det_bound < simplex_det X Y conns t -> 0 < iso_det Gx Gy cx cy.
  Proof. intros H. pose proof iso_jacobian_det as D. unfold Rabs in D. destruct (Rcase_abs _) in D; lra. Qed.
End Jac.

(* simplex_det is the Jacobian FunctionSpace.compute_element_volumes uses: cross(v1 - v0, v2 - v0) *)
Lemma simplex_det_cross X Y conns t :
  simplex_det X Y conns t
  = (X (em_tri conns t 1) - X (em_tri conns t 0)) * (Y (em_tri conns t 2) - Y (em_tri conns t 0))
    - (X (em_tri conns t 2) - X (em_tri conns t 0)) * (Y (em_tri conns t 1) - Y (em_tri conns t 0)).
Proof. unfold simplex_det. ring. Qed.

(* ---- exact tables (delta = delta' = 0) and exact reproduction (eps = 0, e.g. lagrange_repro): equalities, at every such point *)
Theorem iso_exact (X Y s1d : nat -> R) ref pe nV m conns :
  pe_okb pe m = true -> NoDup (all_faces conns) -> (forall f, In f (all_faces conns) -> fst f <> snd f) ->
  Forall (fun c => length c = 3%nat) conns -> Forall (Forall (fun i => (i < nV)%nat)) conns ->
  ref_good ref pe s1d 0 -> (forall k, (k < m)%nat -> Rabs (s1d k + s1d (m - 1 - k)%nat - 1) <= 0) ->
  forall t, (t < length conns)%nat -> forall xi N Gx Gy, repro ref (pe_n pe) xi N Gx Gy 0 ->
    let cx := el_coord X s1d ref pe nV m conns t in let cy := el_coord Y s1d ref pe nV m conns t in
    let V := fun (Z : nat -> R) (i : nat) => Z (em_tri conns t i) in
    iso_pos N cx = affine_image (fst xi) (snd xi) (V X 0%nat) (V X 1%nat) (V X 2%nat)
    /\ iso_pos N cy = affine_image (fst xi) (snd xi) (V Y 0%nat) (V Y 1%nat) (V Y 2%nat)
    /\ wsumf 0 Gx cx = V X 0%nat - V X 2%nat /\ wsumf 0 Gy cx = V X 1%nat - V X 2%nat
    /\ wsumf 0 Gx cy = V Y 0%nat - V Y 2%nat /\ wsumf 0 Gy cy = V Y 1%nat - V Y 2%nat
    /\ iso_det Gx Gy cx cy = simplex_det X Y conns t.
Proof.
  intros Hok Hnd Hnondeg Hlen Hrange Href Hsym t Ht xi N Gx Gy Hrep. cbv zeta.
  assert (Z0 : forall x y b : R, Rabs (x - y) <= b -> b = 0 -> x = y).
  { intros x y b H ->. pose proof (Rabs_pos (x - y)). assert (E : Rabs (x - y) = 0) by lra.
    destruct (Req_dec (x - y) 0) as [E0 | E0]; [lra | apply Rabs_no_R0 in E0; contradiction]. }
  assert (B0 : forall Z, em_bound Z conns 0 0 t = 0) by (intros Z; unfold em_bound; ring).
  pose proof (Rle_refl 0) as R0.
  set (lam := asum Gx + asum Gy).
  assert (EB : forall Z, entry_bound conns 0 0 t 0 lam Z = 0) by (intros Z; unfold entry_bound; rewrite B0; ring).
  assert (Lx : asum Gx <= lam) by (pose proof (asum_nonneg Gy); unfold lam; lra).
  assert (Ly : asum Gy <= lam) by (pose proof (asum_nonneg Gx); unfold lam; lra).
  pose proof (iso_position s1d ref pe nV m conns 0 0 Hok Hnd Hnondeg Hlen Hrange Href Hsym R0 R0 t Ht xi N Gx Gy 0 Hrep) as P.
  pose proof (iso_jacobian_entries s1d ref pe nV m conns 0 0 Hok Hnd Hnondeg Hlen Hrange Href Hsym R0 R0 t Ht xi N Gx Gy 0 lam Hrep Lx Ly) as E.
  pose proof (iso_jacobian_det X Y s1d ref pe nV m conns 0 0 Hok Hnd Hnondeg Hlen Hrange Href Hsym R0 R0 t Ht xi N Gx Gy 0 lam Hrep Lx Ly) as D.
  destruct (E X) as [E1 E2]. destruct (E Y) as [E3 E4].
  split; [apply (Z0 _ _ _ (P X)); rewrite B0; ring |]. split; [apply (Z0 _ _ _ (P Y)); rewrite B0; ring |].
  split; [apply (Z0 _ _ _ E1), EB |]. split; [apply (Z0 _ _ _ E2), EB |].
  split; [apply (Z0 _ _ _ E3), EB |]. split; [apply (Z0 _ _ _ E4), EB |].
  apply (Z0 _ _ _ D). unfold det_bound. rewrite !EB. ring.
Qed.

(* ---- soundness of the rational certificates *)
From Coq Require Import QArith Qabs Qreals.
Local Open Scope R_scope.
Lemma Q2R_qwsumf k W f : Q2R (qwsumf k W f) = wsumf k (map Q2R W) (fun p => Q2R (f p)).
Proof. revert k. induction W as [| a W IH]; intros k; cbn [qwsumf wsumf map]; [apply Q2R_zero |]. now rewrite Q2R_plus, Q2R_mult, IH. Qed.
Lemma Q2R_qwsumf_one k W : Q2R (qwsumf k W (fun _ => 1%Q)) = wsumf k (map Q2R W) (fun _ => 1).
Proof. rewrite Q2R_qwsumf. apply wsumf_ext. intros. apply Q2R_one. Qed.
Lemma asum_Q2R W : asum (map Q2R W) <= Q2R (qasum W).
Proof.
  induction W as [| a W IH]; cbn [qasum asum map]; [rewrite Q2R_zero; lra |]. rewrite Q2R_plus.
  assert (Rabs (Q2R a) <= Q2R (Qabs a)) by (apply Qabs_le_R, Qle_bool_iff, Qle_refl). lra.
Qed.
Lemma qclose_R x y tol : qclose x y tol = true -> Rabs (Q2R x - Q2R y) <= Q2R tol.
Proof. intros H. apply Qabs_le_R in H. now rewrite Q2R_minus in H. Qed.

Definition rec_xi (rc : qrec) : R * R := (Q2R (fst (fst rc)), Q2R (snd (fst rc))).
Definition rec_N (rc : qrec) : list R := map Q2R (fst (snd rc)).
Definition rec_Gx (rc : qrec) : list R := map Q2R (fst (snd (snd rc))).
Definition rec_Gy (rc : qrec) : list R := map Q2R (snd (snd (snd rc))).

Theorem repro_cert_sound refq qrecs tol lam : repro_cert_okb refq qrecs tol lam = true ->
  0 <= Q2R tol /\ forall rc, In rc qrecs ->
    repro (ref_of_q refq) (length refq) (rec_xi rc) (rec_N rc) (rec_Gx rc) (rec_Gy rc) (Q2R tol)
    /\ asum (rec_Gx rc) <= Q2R lam /\ asum (rec_Gy rc) <= Q2R lam.
Proof.
  unfold repro_cert_okb. rewrite andb_true_iff, forallb_forall. intros [H Ht]. split.
  - apply Qle_bool_iff, Qle_Rle in Ht. now rewrite Q2R_zero in Ht.
  - intros rc Hin. specialize (H _ Hin). unfold repro_rec_okb in H. cbv zeta in H. rewrite !andb_true_iff in H.
    destruct H as [[[[[[[[[[[[[l1 l2] l3] a1] a2] a3] b1] b2] b3] c1] c2] c3] d1] d2].
    apply Nat.eqb_eq in l1, l2, l3.
    apply qclose_R in a1, a2, a3, b1, b2, b3, c1, c2, c3.
    rewrite Q2R_qwsumf_one in a1, b1, c1. rewrite Q2R_qwsumf in a2, a3, b2, b3, c2, c3. rewrite ?Q2R_one, ?Q2R_zero in *.
    apply Qle_bool_iff, Qle_Rle in d1, d2.
    split; [| split; [eapply Rle_trans; [apply asum_Q2R | exact d1] | eapply Rle_trans; [apply asum_Q2R | exact d2]]].
    unfold rec_N, rec_Gx, rec_Gy, rec_xi, lsum.
    constructor; cbn [fst snd]; rewrite ?map_length; assumption.
Qed.

(* what the table certificate gives (the hypotheses of the closed elevated-mesh theorem) *)
Lemma elev_cert_hyps pe m refq faces nodes in1d tol : elev_cert_okb pe m refq faces nodes in1d tol = true ->
  pe_okb pe m = true /\ ref_good (ref_of_q refq) pe (s1d_of_q nodes in1d) (Q2R tol)
  /\ (forall k, (k < m)%nat -> Rabs (s1d_of_q nodes in1d k + s1d_of_q nodes in1d (m - 1 - k)%nat - 1) <= Q2R tol) /\ 0 <= Q2R tol.
Proof.
  unfold elev_cert_okb. rewrite !andb_true_iff. intros [[[[[[[[[Hok Hn] Hin1] _] _] _] Hv] Hf] Hs] Ht].
  apply Nat.eqb_eq in Hn. apply list_eqb_eq in Hin1. subst in1d.
  split; [exact Hok |]. split; [| split].
  - constructor.
    + exact (ref_vertex_sound refq (pe_vertex pe) Hv).
    + intros s k p Hs3 Hk. unfold s1d_of_q. exact (ref_face_sound refq pe _ tol Hf s k p Hs3 Hk).
  - intros k Hk. unfold s1d_of_q. rewrite !s1d_q_nth by lia. exact (lobatto_sym_sound nodes tol m Hs Hn k Hk).
  - apply Qle_bool_iff, Qle_Rle in Ht. now rewrite Q2R_zero in Ht.
Qed.

(* the Jacobian theorem with every table hypothesis discharged by ONE computed certificate (evaluated in Coq on the implementation's
   reference tables and on its shape table at the quadrature points, exact rationals of the binary64 entries) *)
Theorem elevated_jacobian_certified pe m refq faces nodes in1d qrecs tol tols lam conns nV (X Y : nat -> R) :
  jac_cert_okb pe m refq faces nodes in1d qrecs tol tols lam = true ->
  NoDup (all_faces conns) -> (forall f, In f (all_faces conns) -> fst f <> snd f) ->
  Forall (fun c => length c = 3%nat) conns -> Forall (Forall (fun i => (i < nV)%nat)) conns ->
  forall t rc, (t < length conns)%nat -> In rc qrecs ->
    let cx := el_coord X (s1d_of_q nodes in1d) (ref_of_q refq) pe nV m conns t in
    let cy := el_coord Y (s1d_of_q nodes in1d) (ref_of_q refq) pe nV m conns t in
    let B := det_bound X Y conns (Q2R tol) (Q2R tol) t (Q2R tols) (Q2R lam) in
    Rabs (iso_det (rec_Gx rc) (rec_Gy rc) cx cy - simplex_det X Y conns t) <= B
    /\ (B < simplex_det X Y conns t -> 0 < iso_det (rec_Gx rc) (rec_Gy rc) cx cy).
Proof.
  unfold jac_cert_okb. rewrite !andb_true_iff. intros [[He Hr] Hl] Hnd Hnondeg Hlen Hrange t rc Ht Hin. cbv zeta.
  apply Nat.eqb_eq in Hl.
  destruct (elev_cert_hyps _ _ _ _ _ _ _ He) as (Hok & Href & Hsym & Htol).
  destruct (repro_cert_sound _ _ _ _ Hr) as [_ Hrc]. destruct (Hrc rc Hin) as (Hrep & Lx & Ly). rewrite Hl in Hrep.
  split.
  - exact (iso_jacobian_det X Y _ _ pe nV m conns _ _ Hok Hnd Hnondeg Hlen Hrange Href Hsym Htol Htol t Ht _ _ _ _ _ _ Hrep Lx Ly).
  - exact (iso_jacobian_positive X Y _ _ pe nV m conns _ _ Hok Hnd Hnondeg Hlen Hrange Href Hsym Htol Htol t Ht _ _ _ _ _ _ Hrep Lx Ly).
Qed.

(* ---- non-vacuity: the quadratic reference element with its exact shape row at the centroid (N_vertex = -1/9, N_mid = 4/9) passes the
        certificate with tolerance 0; on the structured 3 x 4 mesh with unit spacing the simplex Jacobian of element 0 is 1 > 0 *)
From OV.model Require Import M_C13_Struct.
Lemma jacobian_nonvacuous :
  jac_cert_okb pe_quadratic 1 [(1, 0); (1 # 2, 1 # 2); (0, 1); (1 # 2, 0); (0, 1 # 2); (0, 0)]%Q
               [[0; 1; 2]; [2; 4; 5]; [5; 3; 0]]%nat [0; 1 # 2; 1]%Q [1%nat]
               [((1 # 3, 1 # 3), ([-1 # 9; 4 # 9; -1 # 9; 4 # 9; 4 # 9; -1 # 9],
                                  ([1 # 3; 4 # 3; 0; 0; -4 # 3; -1 # 3], [0; 4 # 3; 1 # 3; -4 # 3; 0; -1 # 3])))]%Q 0%Q 0%Q 4%Q = true
  /\ nth 0 (struct_conns 3 4) [] = [0; 1; 4]%nat
  /\ simplex_det (fun n => INR (n mod 3)) (fun n => INR (n / 3)) (struct_conns 3 4) 0 = 1.
Proof.
  split; [vm_compute; reflexivity |]. split; [reflexivity |].
  unfold simplex_det, em_tri. cbn. lra.
Qed.

(* non-vacuity of the Lagrange theorem's span hypotheses: the monomial basis 1, eta0, eta1 (nb = 3) with its derivative functions *)
Lemma lagrange_span_nonvacuous :
  let pb := fun (j : nat) (eta : R * R) => match j with 0%nat => 1 | 1%nat => fst eta | _ => snd eta end in
  let dxb := fun (j : nat) (_ : R * R) => match j with 1%nat => 1 | _ => 0 end in
  let dyb := fun (j : nat) (_ : R * R) => match j with 2%nat => 1 | _ => 0 end in
  (forall eta, wsumf 0 [1; 0; 0] (fun j => pb j eta) = 1 /\ wsumf 0 [1; 0; 0] (fun j => dxb j eta) = 0 /\ wsumf 0 [1; 0; 0] (fun j => dyb j eta) = 0)
  /\ (forall eta, wsumf 0 [0; 1; 0] (fun j => pb j eta) = fst eta /\ wsumf 0 [0; 1; 0] (fun j => dxb j eta) = 1 /\ wsumf 0 [0; 1; 0] (fun j => dyb j eta) = 0)
  /\ (forall eta, wsumf 0 [0; 0; 1] (fun j => pb j eta) = snd eta /\ wsumf 0 [0; 0; 1] (fun j => dxb j eta) = 0 /\ wsumf 0 [0; 0; 1] (fun j => dyb j eta) = 1).
Proof. cbv zeta. repeat split; cbn [wsumf]; ring. Qed.
