(* C16 part 4: theorems about the PROPOSED PATCHES for the open findings C16-F1 / C16-F2 (model/M_C16_Patched.v -- NOT the code
   in /repo, which is unchanged), and the theorems about the UNPATCHED code that came out of the same analysis:
     - anti-parallel segments with the average-normal rule (the rule the examples and tests of /repo use);
     - parallel segments of the SAME orientation with the one-sided rule.
   F1 (compute_average_normal patched with a fall-back to nA when |nA - nB| <= eps):
     equals the unpatched rule whenever |nA - nB| > eps; always a unit vector (eps >= 0, both segments non-degenerate); rotates
     with the segments (so every mortar integral stays rigid-motion invariant); never divides by a norm that is not > eps, in
     EVERY numeric type (binary64 included); for same-orientation parallel segments -- the configuration of the finding, where
     the unpatched rule is 0/0 -- the integrals are the overlap length and h * overlap up to the smoothing length.
   F2 (compute_intersection patched with a toleranced mask and clipping): see the second half. *)
From Coq Require Import Reals Lra Lia QArith Psatz List Bool Classical_Prop.
From OV.base Require Import Num.
From OV.gen Require Import Gen_MortarContact.
From OV.model Require Import M_C16_Mortar M_C16_Patched.
From OV.proofs Require Import L_C18 L_C16 L_C16m.
Import ListNotations.
Local Open Scope R_scope.

Notation cnR := (@Gen_MortarContact.compute_normal R NumR).
Notation avgR := (@average_normal R NumR).
Notation avgpR := (@average_normal_p R NumR).
Notation fromaR := (@normal_from_a R NumR).
Notation mortarR := (@mortar R NumR).
Notation mwnR := (@mortar_with_normal R NumR).

(* |nA - nB| *)
Definition nn_of (nA nB : R * R) : R :=
  sqrt ((fst nA - fst nB) * (fst nA - fst nB) + (snd nA - snd nB) * (snd nA - snd nB)).

(* ================= F1: the patched average normal ================= *)
Lemma avgp_cases eps a00 a01 a10 a11 b00 b01 b10 b11 :
  (eps < nn_of (cnR a00 a01 a10 a11) (cnR b00 b01 b10 b11) ->
     avgpR eps a00 a01 a10 a11 b00 b01 b10 b11 = avgR a00 a01 a10 a11 b00 b01 b10 b11) /\
  (nn_of (cnR a00 a01 a10 a11) (cnR b00 b01 b10 b11) <= eps ->
     avgpR eps a00 a01 a10 a11 b00 b01 b10 b11 = cnR a00 a01 a10 a11).
Proof.
  unfold average_normal_p, average_normal, nn_of.
  destruct (cnR a00 a01 a10 a11) as [na0 na1]. destruct (cnR b00 b01 b10 b11) as [nb0 nb1]. cbn [fst snd]. mnum. cbv zeta.
  destruct (Rlt_dec eps (sqrt ((na0 - nb0) * (na0 - nb0) + (na1 - nb1) * (na1 - nb1)))); split; intros H; try lra; reflexivity.
Qed.

(* the patch changes nothing where the unpatched rule is well conditioned *)
Theorem avgp_is_avg eps a00 a01 a10 a11 b00 b01 b10 b11 :
  eps < nn_of (cnR a00 a01 a10 a11) (cnR b00 b01 b10 b11) ->
  avgpR eps a00 a01 a10 a11 b00 b01 b10 b11 = avgR a00 a01 a10 a11 b00 b01 b10 b11.
Proof. apply avgp_cases. Qed.
Theorem avgp_fallback eps a00 a01 a10 a11 b00 b01 b10 b11 :
  nn_of (cnR a00 a01 a10 a11) (cnR b00 b01 b10 b11) <= eps ->
  avgpR eps a00 a01 a10 a11 b00 b01 b10 b11 = cnR a00 a01 a10 a11.
Proof. apply avgp_cases. Qed.

Lemma cn_unit a0 a1 b0 b1 : (a0, a1) <> (b0, b1) ->
  fst (cnR a0 a1 b0 b1) * fst (cnR a0 a1 b0 b1) + snd (cnR a0 a1 b0 b1) * snd (cnR a0 a1 b0 b1) = 1.
Proof.
  intros H. rewrite m_compute_normal_closed. cbn [fst snd].
  pose proof (dist_pos _ _ _ _ H) as P. pose proof (dist_sq b0 b1 a0 a1) as S. unfold d2 in S.
  set (L := dist b0 b1 a0 a1) in *.
  replace ((b1 - a1) / L * ((b1 - a1) / L) + - (b0 - a0) / L * (- (b0 - a0) / L))
    with (((b0 - a0) * (b0 - a0) + (b1 - a1) * (b1 - a1)) / (L * L)) by (field; lra).
  rewrite <- S. field. lra.
Qed.

(* always a unit vector: no 0/0, whatever the relative orientation of the two segments *)
Theorem avgp_unit eps a00 a01 a10 a11 b00 b01 b10 b11 : 0 <= eps -> (a00, a01) <> (a10, a11) -> (b00, b01) <> (b10, b11) ->
  let n := avgpR eps a00 a01 a10 a11 b00 b01 b10 b11 in fst n * fst n + snd n * snd n = 1.
Proof.
  intros He HA HB. cbv zeta.
  destruct (Rlt_dec eps (nn_of (cnR a00 a01 a10 a11) (cnR b00 b01 b10 b11))) as [Hb|Hs].
  - rewrite (avgp_is_avg _ _ _ _ _ _ _ _ _ Hb). unfold average_normal. unfold nn_of in Hb.
    destruct (cnR a00 a01 a10 a11) as [na0 na1]. destruct (cnR b00 b01 b10 b11) as [nb0 nb1]. cbn [fst snd] in *. mnum. cbv zeta. cbn [fst snd].
    set (X := (na0 - nb0) * (na0 - nb0) + (na1 - nb1) * (na1 - nb1)) in *.
    assert (HX : 0 <= X) by (unfold X; pose proof (Rle_0_sqr (na0 - nb0)); pose proof (Rle_0_sqr (na1 - nb1)); unfold Rsqr in *; lra).
    pose proof (sqrt_sqrt X HX) as S. set (N := sqrt X) in *.
    replace ((na0 - nb0) / N * ((na0 - nb0) / N) + (na1 - nb1) / N * ((na1 - nb1) / N)) with (X / (N * N)) by (unfold X; field; lra).
    rewrite S. field. nra.
  - rewrite (avgp_fallback eps) by lra. apply cn_unit. exact HA.
Qed.

(* never a division by a norm that is not > eps -- in EVERY numeric type, binary64 included (a NaN norm compares false) *)
Theorem avgp_no_small_division (T : Type) (NT : Num T) (eps a00 a01 a10 a11 b00 b01 b10 b11 : T) :
  let nA := @Gen_MortarContact.compute_normal T NT a00 a01 a10 a11 in
  let nB := @Gen_MortarContact.compute_normal T NT b00 b01 b10 b11 in
  let d0 := nsub (fst nA) (fst nB) in let d1 := nsub (snd nA) (snd nB) in
  let nn := nsqrt (nadd (nmul d0 d0) (nmul d1 d1)) in
  (nltb eps nn = false -> @average_normal_p T NT eps a00 a01 a10 a11 b00 b01 b10 b11 = nA) /\
  (nltb eps nn = true -> @average_normal_p T NT eps a00 a01 a10 a11 b00 b01 b10 b11 = (ndiv d0 nn, ndiv d1 nn)).
Proof.
  cbv zeta. unfold average_normal_p.
  destruct (@Gen_MortarContact.compute_normal T NT a00 a01 a10 a11) as [na0 na1].
  destruct (@Gen_MortarContact.compute_normal T NT b00 b01 b10 b11) as [nb0 nb1]. cbn [fst snd].
  split; intros ->; reflexivity.
Qed.

Section RigidP.
  Variables c s tx ty : R.
  Hypothesis Hcs : c * c + s * s = 1.
  Notation rX := (rx c s tx). Notation rY := (ry c s ty).
  Ltac rot_ring := match goal with |- ?l = ?r => transitivity ((c * c + s * s) * r); [unfold rx, ry, rot0, rot1; ring | rewrite Hcs; ring] end.

  (* the patched rule rotates with the segments (the branch is decided by the rotation-invariant |nA - nB|) *)
  Theorem average_normal_p_rigid eps a00 a01 a10 a11 b00 b01 b10 b11 :
    avgpR eps (rX a00 a01) (rY a00 a01) (rX a10 a11) (rY a10 a11) (rX b00 b01) (rY b00 b01) (rX b10 b11) (rY b10 b11)
    = (rot0 c s (fst (avgpR eps a00 a01 a10 a11 b00 b01 b10 b11)) (snd (avgpR eps a00 a01 a10 a11 b00 b01 b10 b11)),
       rot1 c s (fst (avgpR eps a00 a01 a10 a11 b00 b01 b10 b11)) (snd (avgpR eps a00 a01 a10 a11 b00 b01 b10 b11))).
  Proof.
    unfold average_normal_p. rewrite !(m_compute_normal_rigid c s tx ty Hcs).
    destruct (cnR a00 a01 a10 a11) as [na0 na1]. destruct (cnR b00 b01 b10 b11) as [nb0 nb1]. cbn [fst snd]. mnum. cbv zeta.
    replace ((rot0 c s na0 na1 - rot0 c s nb0 nb1) * (rot0 c s na0 na1 - rot0 c s nb0 nb1)
             + (rot1 c s na0 na1 - rot1 c s nb0 nb1) * (rot1 c s na0 na1 - rot1 c s nb0 nb1))
      with ((na0 - nb0) * (na0 - nb0) + (na1 - nb1) * (na1 - nb1)) by (symmetry; rot_ring).
    destruct (Rlt_dec eps (sqrt ((na0 - nb0) * (na0 - nb0) + (na1 - nb1) * (na1 - nb1)))); cbn [fst snd];
      apply pair_eq; unfold rot0, rot1, Rdiv; ring.
  Qed.

  Corollary mortar_rigid_average_p eps a00 a01 a10 a11 b00 b01 b10 b11 f l quad :
    mortarR (avgpR eps) (rX a00 a01) (rY a00 a01) (rX a10 a11) (rY a10 a11) (rX b00 b01) (rY b00 b01) (rX b10 b11) (rY b10 b11) f l quad
    = mortarR (avgpR eps) a00 a01 a10 a11 b00 b01 b10 b11 f l quad.
  Proof. apply (mortar_rigid c s tx ty Hcs). apply average_normal_p_rigid. Qed.
End RigidP.

(* ================= parallel segments: the remaining rule / orientation combinations ================= *)
(* --- anti-parallel, AVERAGE rule (unpatched and patched): nA - nB = 2 nA, so the common normal is nA --- *)
Section AntiParallelAverage.
  Variables LA u v h : R.
  Hypothesis HLA : 0 < LA.
  Hypothesis Huv : v < u.

  Lemma cn_A_axis : cnR 0 0 LA 0 = (0, - 1).
  Proof.
    rewrite m_compute_normal_closed. unfold dist, d2.
    replace ((LA - 0) * (LA - 0) + (0 - 0) * (0 - 0)) with (LA * LA) by ring. rewrite sqrt_square by lra.
    apply pair_eq; field; lra.
  Qed.
  Lemma cn_B_anti : cnR u (- h) v (- h) = (0, 1).
  Proof.
    rewrite m_compute_normal_closed. unfold dist, d2.
    replace ((v - u) * (v - u) + (- h - - h) * (- h - - h)) with ((u - v) * (u - v)) by ring. rewrite sqrt_square by lra.
    apply pair_eq; field; lra.
  Qed.
  Lemma cn_B_same : cnR v (- h) u (- h) = (0, - 1).
  Proof.
    rewrite m_compute_normal_closed. unfold dist, d2.
    replace ((u - v) * (u - v) + (- h - - h) * (- h - - h)) with ((u - v) * (u - v)) by ring. rewrite sqrt_square by lra.
    apply pair_eq; field; lra.
  Qed.

  Lemma nn_anti : nn_of (cnR 0 0 LA 0) (cnR u (- h) v (- h)) = 2.
  Proof.
    rewrite cn_A_axis, cn_B_anti. unfold nn_of. cbn [fst snd].
    replace ((0 - 0) * (0 - 0) + (- 1 - 1) * (- 1 - 1)) with (2 * 2) by ring. apply sqrt_square. lra.
  Qed.
  Lemma nn_same : nn_of (cnR 0 0 LA 0) (cnR v (- h) u (- h)) = 0.
  Proof.
    rewrite cn_A_axis, cn_B_same. unfold nn_of. cbn [fst snd].
    replace ((0 - 0) * (0 - 0) + (- 1 - - 1) * (- 1 - - 1)) with 0 by ring. apply sqrt_0.
  Qed.

  Lemma average_normal_anti_axis : avgR 0 0 LA 0 u (- h) v (- h) = (0, - 1).
  Proof.
    unfold average_normal. rewrite cn_A_axis, cn_B_anti. mnum. cbv zeta.
    replace ((0 - 0) * (0 - 0) + (- 1 - 1) * (- 1 - 1)) with (2 * 2) by ring. rewrite sqrt_square by lra.
    apply pair_eq; field.
  Qed.
  Lemma average_normal_p_anti_axis eps : eps < 2 -> avgpR eps 0 0 LA 0 u (- h) v (- h) = (0, - 1).
  Proof. intros He. rewrite avgp_is_avg by (rewrite nn_anti; exact He). apply average_normal_anti_axis. Qed.
  Lemma average_normal_p_same_axis eps : 0 <= eps -> avgpR eps 0 0 LA 0 v (- h) u (- h) = (0, - 1).
  Proof. intros He. rewrite avgp_fallback by (rewrite nn_same; exact He). apply cn_A_axis. Qed.
End AntiParallelAverage.

(* --- parallel segments of the SAME orientation, common normal = A's normal (0,-1) in the axis position ---
   A from (0,0) to (LA,0); B from (v,-h) to (u,-h) with v < u.  This is the configuration of finding C16-F1. *)
Section ParallelSame.
  Variables LA u v h l : R.
  Hypothesis HLA : 0 < LA.
  Hypothesis Huv : v < u.
  Hypothesis Hl : 0 < l <= 1 / 2.
  Let lo := Rmax 0 v.
  Let hi := Rmin LA u.
  Hypothesis Hov : lo <= hi.
  Let cs := candsR 0 0 LA 0 v (- h) u (- h) 0 (- 1).

  Lemma css_explicit : cs = [(0, (0 - v) / (u - v), h); (1, (LA - v) / (u - v), h); (v / LA, 0, h); (u / LA, 1, h)].
  Proof.
    unfold cs, candidates, compute_xi, solve2. mnum. cbv beta iota zeta.
    apply list4_eq; apply triple_eq; try reflexivity; field; lra.
  Qed.

  Definition XofS (x : cand) : R := LA * cxa x.
  Lemma css_invariant x : In x cs -> XofS x = v + (u - v) * cxb x /\ cg x = h.
  Proof.
    rewrite css_explicit. unfold XofS. intros [<-|[<-|[<-|[<-|[]]]]]; unfold cxa, cxb, cg; cbn [fst snd]; split; try reflexivity; field; lra.
  Qed.
  Lemma valid_by_XS x : XofS x = v + (u - v) * cxb x -> (vP x <-> lo <= XofS x <= hi).
  Proof.
    unfold vP, XofS, lo, hi, Rmax, Rmin. intros E. set (xa := cxa x) in *. set (xb := cxb x) in *.
    assert (Exb : (u - v) * xb = LA * xa - v) by lra.
    destruct (Rle_dec 0 v), (Rle_dec LA u); split; intros H; repeat split; try nra.
  Qed.
  Lemma lo_attainedS : exists x, In x cs /\ XofS x = lo.
  Proof.
    rewrite css_explicit. unfold lo, Rmax. destruct (Rle_dec 0 v).
    - exists (v / LA, 0, h). split; [right; right; left; reflexivity|]. unfold XofS, cxa; cbn [fst]. field. lra.
    - exists (0, (0 - v) / (u - v), h). split; [left; reflexivity|]. unfold XofS, cxa; cbn [fst]. ring.
  Qed.
  Lemma hi_attainedS : exists x, In x cs /\ XofS x = hi.
  Proof.
    rewrite css_explicit. unfold hi, Rmin. destruct (Rle_dec LA u).
    - exists (1, (LA - v) / (u - v), h). split; [right; left; reflexivity|]. unfold XofS, cxa; cbn [fst]. ring.
    - exists (u / LA, 1, h). split; [right; right; right; left; reflexivity|]. unfold XofS, cxa; cbn [fst]. field. lra.
  Qed.

  Lemma selected_endsS : vP (selmin cs) /\ vP (selmax cs) /\ XofS (selmin cs) = lo /\ XofS (selmax cs) = hi /\
    cg (selmin cs) = h /\ cg (selmax cs) = h /\
    (u - v) * cxb (selmin cs) = lo - v /\ (u - v) * cxb (selmax cs) = hi - v.
  Proof.
    destruct lo_attainedS as (xl & Il & El). destruct hi_attainedS as (xh & Ih & Eh).
    pose proof (css_invariant xl Il) as [Jl _]. pose proof (css_invariant xh Ih) as [Jh _].
    assert (Vl : vP xl) by (apply (valid_by_XS xl Jl); lra).
    assert (Vh : vP xh) by (apply (valid_by_XS xh Jh); lra).
    assert (Hv : some_valid cs) by (exists xl; split; assumption).
    destruct (selection_spec cs Hv) as (Vm & VM & Im & IM & Hall).
    pose proof (css_invariant _ Im) as [Jm Gm]. pose proof (css_invariant _ IM) as [JM GM].
    pose proof (proj1 (valid_by_XS _ Jm) Vm) as Rm. pose proof (proj1 (valid_by_XS _ JM) VM) as RM.
    pose proof (Hall xl Il Vl) as [Al _]. pose proof (Hall xh Ih Vh) as [_ Ah].
    assert (XofS (selmin cs) <= XofS xl) by (unfold XofS; apply Rmult_le_compat_l; lra).
    assert (XofS xh <= XofS (selmax cs)) by (unfold XofS; apply Rmult_le_compat_l; lra).
    assert (XofS (selmin cs) = lo) by lra. assert (XofS (selmax cs) = hi) by lra.
    repeat split; try assumption; try apply Vm; try apply VM; lra.
  Qed.

  Lemma seglen_AS : seglenR 0 0 LA 0 = LA.
  Proof. unfold seglen. mnum. replace ((0 - LA) * (0 - LA) + (0 - 0) * (0 - 0)) with (LA * LA) by ring. apply sqrt_square. lra. Qed.
  Lemma seglen_BS : seglenR v (- h) u (- h) = u - v.
  Proof. unfold seglen. mnum. replace ((v - u) * (v - u) + (- h - - h) * (- h - - h)) with ((u - v) * (u - v)) by ring. apply sqrt_square. lra. Qed.

  Variable quad : list (R * R).
  Hypothesis Hw1 : fold_right (fun q acc => snd q + acc) 0 quad = 1.

  Theorem parallel_same_with_normal :
    Rabs (mwnR 0 0 LA 0 v (- h) u (- h) 0 (- 1) (fun _ _ _ => 1) l quad - (hi - lo)) <= l * (LA + (u - v)) / 2 /\
    mwnR 0 0 LA 0 v (- h) u (- h) 0 (- 1) (fun _ _ g => g) l quad = h * mwnR 0 0 LA 0 v (- h) u (- h) 0 (- 1) (fun _ _ _ => 1) l quad.
  Proof.
    unfold mortar_with_normal. cbv zeta. fold cs.
    rewrite seglen_AS, seglen_BS, !active_factor.
    destruct selected_endsS as (Vm & VM & Xm & XM & Gm & GM & Bm & BM).
    rewrite wsum_one, (wsum_const_gap _ _ _ h Gm GM), Hw1. split; [|ring].
    unfold XofS in Xm, XM. set (m := selmin cs) in *. set (M := selmax cs) in *.
    destruct Vm as [Am Bm'], VM as [AM BM'].
    pose proof (slin_increment l Hl (cxa m) (cxa M) Am AM) as IA.
    pose proof (slin_increment l Hl (cxb m) (cxb M) Bm' BM') as IB.
    assert (EA : LA * dxiA m M l - (hi - lo) = LA * ((slin l (cxa M) - slin l (cxa m)) - (cxa M - cxa m))) by (unfold dxiA; rewrite <- Xm, <- XM; ring).
    assert (EBx : (u - v) * Rabs (cxb M - cxb m) = hi - lo).
    { rewrite <- (Rabs_right (u - v)) at 1 by lra. rewrite <- Rabs_mult.
      replace ((u - v) * (cxb M - cxb m)) with (hi - lo) by lra. apply Rabs_right. lra. }
    assert (IB' : Rabs (dxiB m M l - Rabs (cxb M - cxb m)) <= l).
    { unfold dxiB. eapply Rle_trans; [apply Rabs_triang_inv2|exact IB]. }
    assert (ES : / 2 * (LA * dxiA m M l + (u - v) * dxiB m M l) * 1 - (hi - lo)
      = / 2 * (LA * dxiA m M l - (hi - lo)) + / 2 * ((u - v) * (dxiB m M l - Rabs (cxb M - cxb m)))).
    { set (K := hi - lo) in *. rewrite <- EBx. field. }
    rewrite ES.
    eapply Rle_trans; [apply Rabs_triang|]. rewrite EA, !Rabs_mult, (Rabs_right (/ 2)), (Rabs_right LA), (Rabs_right (u - v)) by lra.
    assert (LA * Rabs (slin l (cxa M) - slin l (cxa m) - (cxa M - cxa m)) <= LA * l) by (apply Rmult_le_compat_l; lra).
    assert ((u - v) * Rabs (dxiB m M l - Rabs (cxb M - cxb m)) <= (u - v) * l) by (apply Rmult_le_compat_l; lra).
    lra.
  Qed.
End ParallelSame.

Definition sumw (quad : list (R * R)) : R := fold_right (fun q acc => snd q + acc) 0 quad.

(* anti-parallel segments, AVERAGE rule of the unpatched source, any position and orientation *)
Theorem parallel_segments_average c s tx ty LA u v h l quad :
  c * c + s * s = 1 -> 0 < LA -> v < u -> 0 < l <= 1 / 2 -> Rmax 0 v <= Rmin LA u -> sumw quad = 1 ->
  let m f := mortarR avgR (rx c s tx 0 0) (ry c s ty 0 0) (rx c s tx LA 0) (ry c s ty LA 0)
               (rx c s tx u (- h)) (ry c s ty u (- h)) (rx c s tx v (- h)) (ry c s ty v (- h)) f l quad in
  Rabs (m (fun _ _ _ => 1) - (Rmin LA u - Rmax 0 v)) <= l * (LA + (u - v)) / 2 /\
  m (fun _ _ g => g) = h * m (fun _ _ _ => 1).
Proof.
  intros Hcs HLA Huv Hl Hov Hw. cbv beta zeta.
  rewrite !(mortar_rigid_average c s tx ty Hcs).
  pose proof (parallel_segments LA u v h l HLA Huv Hl Hov quad Hw) as P.
  unfold mortar in *. rewrite (average_normal_anti_axis LA u v h HLA Huv). rewrite (normal_from_a_axis LA u v h HLA) in P. exact P.
Qed.

(* ... and with the patched average rule (any threshold below 2 = |nA - nB| of facing segments) *)
Theorem parallel_segments_average_p eps c s tx ty LA u v h l quad : eps < 2 ->
  c * c + s * s = 1 -> 0 < LA -> v < u -> 0 < l <= 1 / 2 -> Rmax 0 v <= Rmin LA u -> sumw quad = 1 ->
  let m f := mortarR (avgpR eps) (rx c s tx 0 0) (ry c s ty 0 0) (rx c s tx LA 0) (ry c s ty LA 0)
               (rx c s tx u (- h)) (ry c s ty u (- h)) (rx c s tx v (- h)) (ry c s ty v (- h)) f l quad in
  Rabs (m (fun _ _ _ => 1) - (Rmin LA u - Rmax 0 v)) <= l * (LA + (u - v)) / 2 /\
  m (fun _ _ g => g) = h * m (fun _ _ _ => 1).
Proof.
  intros He Hcs HLA Huv Hl Hov Hw. cbv beta zeta.
  rewrite !(mortar_rigid_average_p c s tx ty Hcs).
  pose proof (parallel_segments LA u v h l HLA Huv Hl Hov quad Hw) as P.
  unfold mortar in *. rewrite (average_normal_p_anti_axis LA u v h HLA Huv eps He). rewrite (normal_from_a_axis LA u v h HLA) in P. exact P.
Qed.

(* same orientation, one-sided rule of the unpatched source *)
Theorem parallel_same_orientation_from_a c s tx ty LA u v h l quad :
  c * c + s * s = 1 -> 0 < LA -> v < u -> 0 < l <= 1 / 2 -> Rmax 0 v <= Rmin LA u -> sumw quad = 1 ->
  let m f := mortarR fromaR (rx c s tx 0 0) (ry c s ty 0 0) (rx c s tx LA 0) (ry c s ty LA 0)
               (rx c s tx v (- h)) (ry c s ty v (- h)) (rx c s tx u (- h)) (ry c s ty u (- h)) f l quad in
  Rabs (m (fun _ _ _ => 1) - (Rmin LA u - Rmax 0 v)) <= l * (LA + (u - v)) / 2 /\
  m (fun _ _ g => g) = h * m (fun _ _ _ => 1).
Proof.
  intros Hcs HLA Huv Hl Hov Hw. cbv beta zeta.
  rewrite !(mortar_rigid_from_a c s tx ty Hcs).
  pose proof (parallel_same_with_normal LA u v h l HLA Huv Hl Hov quad Hw) as P.
  unfold mortar. rewrite (normal_from_a_axis LA v u h HLA). exact P.
Qed.

(* same orientation, PATCHED average rule: the configuration of finding C16-F1 now gives the overlap length *)
Theorem parallel_same_orientation_average_p eps c s tx ty LA u v h l quad : 0 <= eps ->
  c * c + s * s = 1 -> 0 < LA -> v < u -> 0 < l <= 1 / 2 -> Rmax 0 v <= Rmin LA u -> sumw quad = 1 ->
  let m f := mortarR (avgpR eps) (rx c s tx 0 0) (ry c s ty 0 0) (rx c s tx LA 0) (ry c s ty LA 0)
               (rx c s tx v (- h)) (ry c s ty v (- h)) (rx c s tx u (- h)) (ry c s ty u (- h)) f l quad in
  Rabs (m (fun _ _ _ => 1) - (Rmin LA u - Rmax 0 v)) <= l * (LA + (u - v)) / 2 /\
  m (fun _ _ g => g) = h * m (fun _ _ _ => 1).
Proof.
  intros He Hcs HLA Huv Hl Hov Hw. cbv beta zeta.
  rewrite !(mortar_rigid_average_p c s tx ty Hcs).
  pose proof (parallel_same_with_normal LA u v h l HLA Huv Hl Hov quad Hw) as P.
  unfold mortar. rewrite (average_normal_p_same_axis LA u v h HLA Huv eps He). exact P.
Qed.

(* ================= F2: toleranced validity mask + clipping in compute_intersection ================= *)
Notation vtolR := (@valid_tol R NumR).
Notation clipR := (@clip01 R NumR).
Notation clipcR := (@clipc R NumR).
Notation fbpR := (@first_best_p R NumR).
Notation selminp := (@sel_min_p R NumR).
Notation selmaxp := (@sel_max_p R NumR).
Notation mwnpR := (@mortar_with_normal_p R NumR).

Definition vPt (tol : R) (x : cand) : Prop := - tol <= cxa x <= 1 + tol /\ - tol <= cxb x <= 1 + tol.
Lemma valid_tol_iff tol (x : cand) : vtolR tol x = true <-> vPt tol x.
Proof.
  unfold valid_tol, vPt. mnum. rewrite !andb_true_iff.
  destruct (Rle_dec (- tol) (cxa x)), (Rle_dec (cxa x) (1 + tol)), (Rle_dec (- tol) (cxb x)), (Rle_dec (cxb x) (1 + tol));
    split; intros H; try lra; try (repeat split; (reflexivity || lra)); try (destruct H as [[[? ?] ?] ?]; discriminate).
Qed.
Lemma vPt0 (x : cand) : vPt 0 x <-> vP x.
Proof. unfold vPt, vP. split; intros [[? ?] [? ?]]; repeat split; lra. Qed.

Lemma Rabs_le_inv x a : Rabs x <= a -> - a <= x <= a.
Proof. unfold Rabs. destruct (Rcase_abs x); lra. Qed.
Lemma clip_closed x : clipR x = if Rlt_dec x 0 then 0 else if Rlt_dec 1 x then 1 else x.
Proof. unfold clip01. mnum. destruct (Rlt_dec x 0), (Rlt_dec 1 x); reflexivity. Qed.
Lemma clip_range x : 0 <= clipR x <= 1.
Proof. rewrite clip_closed. destruct (Rlt_dec x 0), (Rlt_dec 1 x); lra. Qed.
Lemma clip_id x : 0 <= x <= 1 -> clipR x = x.
Proof. intros H. rewrite clip_closed. destruct (Rlt_dec x 0), (Rlt_dec 1 x); lra. Qed.
(* clipping never moves a value away from a point of [0,1] *)
Lemma clip_near x y d : 0 <= y <= 1 -> Rabs (x - y) <= d -> Rabs (clipR x - y) <= d.
Proof.
  intros Hy H. rewrite clip_closed. apply Rabs_le_inv in H. apply Rabs_le. destruct (Rlt_dec x 0), (Rlt_dec 1 x); lra.
Qed.
Lemma clipc_valid (x : cand) : vP x -> clipcR x = x.
Proof.
  intros [Ha Hb]. destruct x as [[xa xb] g]. unfold clipc, cxa, cxb, cg in *. cbn [fst snd] in *.
  rewrite (clip_id xa Ha), (clip_id xb Hb). reflexivity.
Qed.
Lemma clipc_range (x : cand) : vP (clipcR x).
Proof. unfold vP, clipc, cxa, cxb. cbn [fst snd]. split; apply clip_range. Qed.

(* the selection loop of the patched code, for either direction of the comparison *)
Section FBP.
  Variable tol : R.
  Variable better : R -> R -> bool.
  Variable le : R -> R -> Prop.
  Hypothesis B1 : forall x y, better x y = true -> le x y.
  Hypothesis B2 : forall x y, better x y = false -> le y x.
  Hypothesis Ltrans : forall x y z, le x y -> le y z -> le x z.
  Hypothesis Lrefl : forall x, le x x.

  (* m is the clipped image of an accepted candidate of l *)
  Definition from_list (l : list cand) (m : cand) : Prop := exists x, In x l /\ vPt tol x /\ m = clipcR x.
  Lemma from_list_cons x l m : from_list l m -> from_list (x :: l) m.
  Proof. intros (y & I & V & E). exists y. split; [right; exact I|split; assumption]. Qed.

  Lemma fbp_spec l : forall best,
    match fbpR tol better l best with
    | None => best = None /\ (forall x, In x l -> ~ vPt tol x)
    | Some m => (from_list l m \/ best = Some m) /\
                (forall x, In x l -> vPt tol x -> le (cxa m) (cxa (clipcR x))) /\
                (forall b, best = Some b -> le (cxa m) (cxa b))
    end.
  Proof.
    induction l as [|x r IH]; intros best; cbn [first_best_p].
    - destruct best as [b|]; [|split; [reflexivity|intros ? []]].
      split; [right; reflexivity|]. split; [intros ? []|]. intros b' E; injection E as E'; subst b'. apply Lrefl.
    - destruct (vtolR tol x) eqn:V.
      + apply valid_tol_iff in V.
        assert (Hx : from_list (x :: r) (clipcR x)) by (exists x; split; [left; reflexivity|split; [exact V|reflexivity]]).
        destruct best as [b|].
        * destruct (better (cxa (clipcR x)) (cxa b)) eqn:Hc.
          -- specialize (IH (Some (clipcR x))). destruct (fbpR tol better r (Some (clipcR x))) as [m|].
             ++ destruct IH as (Hin & Hall & Hbest). specialize (Hbest _ eq_refl).
                split; [destruct Hin as [Hin|E]; [left; apply from_list_cons; exact Hin|injection E as E'; subst m; left; exact Hx]|].
                split; [intros y [<-|Hy] Vy; [exact Hbest|apply Hall; assumption]|].
                intros b' E; injection E as E'; subst b'. eapply Ltrans; [exact Hbest|apply B1; exact Hc].
             ++ destruct IH as [E _]; discriminate.
          -- specialize (IH (Some b)). destruct (fbpR tol better r (Some b)) as [m|].
             ++ destruct IH as (Hin & Hall & Hbest). specialize (Hbest _ eq_refl).
                split; [destruct Hin as [Hin|E]; [left; apply from_list_cons; exact Hin|right; exact E]|].
                split; [intros y [<-|Hy] Vy; [eapply Ltrans; [exact Hbest|apply B2; exact Hc]|apply Hall; assumption]|].
                intros b' E; injection E as E'; subst b'. exact Hbest.
             ++ destruct IH as [E _]; discriminate.
        * specialize (IH (Some (clipcR x))). destruct (fbpR tol better r (Some (clipcR x))) as [m|].
          -- destruct IH as (Hin & Hall & Hbest). specialize (Hbest _ eq_refl).
             split; [destruct Hin as [Hin|E]; [left; apply from_list_cons; exact Hin|injection E as E'; subst m; left; exact Hx]|].
             split; [intros y [<-|Hy] Vy; [exact Hbest|apply Hall; assumption]|]. intros b' E; discriminate.
          -- destruct IH as [E _]; discriminate.
      + assert (NV : ~ vPt tol x) by (intros H; apply valid_tol_iff in H; congruence).
        specialize (IH best). destruct (fbpR tol better r best) as [m|].
        * destruct IH as (Hin & Hall & Hbest).
          split; [destruct Hin as [Hin|E]; [left; apply from_list_cons; exact Hin|right; exact E]|].
          split; [intros y [<-|Hy] Vy; [contradiction|apply Hall; assumption]|exact Hbest].
        * destruct IH as [E Hall]. split; [exact E|]. intros y [<-|Hy]; [exact NV|apply Hall; exact Hy].
  Qed.
End FBP.

Definition some_valid_t (tol : R) (l : list cand) : Prop := exists x, In x l /\ vPt tol x.

Lemma ltR_1 x y : ltR x y = true -> x <= y.
Proof. intros H. change (Rltb x y = true) in H. apply Rltb_true in H. lra. Qed.
Lemma ltR_2 x y : ltR x y = false -> y <= x.
Proof. intros H. change (Rltb x y = false) in H. apply Rltb_false in H. exact H. Qed.
Lemma gtR_1 x y : gtR x y = true -> y <= x.
Proof. intros H. change (Rltb y x = true) in H. apply Rltb_true in H. lra. Qed.
Lemma gtR_2 x y : gtR x y = false -> x <= y.
Proof. intros H. change (Rltb y x = false) in H. apply Rltb_false in H. exact H. Qed.

(* the patched selection: both ends are clipped images of accepted candidates, extreme among them *)
Theorem selection_p_spec tol l : some_valid_t tol l ->
  from_list tol l (selminp tol l) /\ from_list tol l (selmaxp tol l) /\
  (forall x, In x l -> vPt tol x -> cxa (selminp tol l) <= cxa (clipcR x) <= cxa (selmaxp tol l)).
Proof.
  intros (x0 & I0 & V0).
  pose proof (fbp_spec tol ltR Rle ltR_1 ltR_2 Rle_trans Rle_refl l None) as Hm.
  pose proof (fbp_spec tol gtR (fun x y => y <= x) gtR_1 gtR_2 (fun x y z H1 H2 => Rle_trans _ _ _ H2 H1) Rle_refl l None) as HM.
  unfold sel_min_p, sel_max_p. fold ltR. change (fun x y : R => ltR y x) with gtR.
  destruct (fbpR tol ltR l None) as [m|]; [|destruct Hm as [_ Hn]; exfalso; apply (Hn x0 I0 V0)].
  destruct (fbpR tol gtR l None) as [M|]; [|destruct HM as [_ Hn]; exfalso; apply (Hn x0 I0 V0)].
  destruct Hm as ([Fm|E] & Am & _); [|discriminate]. destruct HM as ([FM|E] & AM & _); [|discriminate].
  split; [exact Fm|]. split; [exact FM|]. intros x Hi Vx. split; [apply Am|apply AM]; assumption.
Qed.
Theorem selection_p_none tol l : ~ some_valid_t tol l -> selminp tol l = selmaxp tol l.
Proof.
  intros Hn.
  pose proof (fbp_spec tol ltR Rle ltR_1 ltR_2 Rle_trans Rle_refl l None) as Hm.
  pose proof (fbp_spec tol gtR (fun x y => y <= x) gtR_1 gtR_2 (fun x y z H1 H2 => Rle_trans _ _ _ H2 H1) Rle_refl l None) as HM.
  unfold sel_min_p, sel_max_p. fold ltR. change (fun x y : R => ltR y x) with gtR.
  destruct (fbpR tol ltR l None) as [m|].
  - destruct Hm as ([(x & I & V & _)|E] & _); [|discriminate]. exfalso. apply Hn. exists x. split; assumption.
  - destruct (fbpR tol gtR l None) as [M|]; [|reflexivity].
    destruct HM as ([(x & I & V & _)|E] & _); [|discriminate]. exfalso. apply Hn. exists x. split; assumption.
Qed.
(* the parameters handed to smooth_linear are always in [0,1] (clipped), and ordered *)
Corollary selection_p_in_unit_interval tol l : some_valid_t tol l ->
  vP (selminp tol l) /\ vP (selmaxp tol l) /\ cxa (selminp tol l) <= cxa (selmaxp tol l).
Proof.
  intros Hv. destruct (selection_p_spec tol l Hv) as ((x & Ix & Vx & Ex) & (y & Iy & Vy & Ey) & Hall).
  split; [rewrite Ex; apply clipc_range|]. split; [rewrite Ey; apply clipc_range|].
  destruct (Hall y Iy Vy) as [H _]. rewrite <- Ey in H. exact H.
Qed.

(* with tol = 0 the patched selection IS the unpatched one *)
Lemma fbp0 better l : forall best, fbpR 0 better l best = fbR better l best.
Proof.
  induction l as [|x r IH]; intros best; cbn [first_best_p first_best]; [reflexivity|].
  assert (E : vtolR 0 x = validR x).
  { destruct (vtolR 0 x) eqn:V1, (validR x) eqn:V2; try reflexivity; exfalso.
    - apply valid_tol_iff in V1. apply vPt0 in V1. apply valid_iff in V1. congruence.
    - apply valid_iff in V2. apply vPt0 in V2. apply valid_tol_iff in V2. congruence. }
  rewrite E. destruct (validR x) eqn:V; [|apply IH]. apply valid_iff in V. rewrite (clipc_valid x V). apply IH.
Qed.
Lemma some_valid_t0 l : some_valid_t 0 l <-> some_valid l.
Proof. split; intros (x & I & V); exists x; (split; [exact I|apply vPt0; exact V]). Qed.
Lemma selminp0 l : some_valid l -> selminp 0 l = selmin l.
Proof.
  intros (x0 & I0 & V0). unfold sel_min_p, sel_min. rewrite fbp0. fold ltR.
  pose proof (fb_min_spec l None) as Hm. destruct (fbR ltR l None); [reflexivity|].
  destruct Hm as [_ Hn]; [intros ? E; discriminate|]. exfalso. apply (Hn x0 I0 V0).
Qed.
Lemma selmaxp0 l : some_valid l -> selmaxp 0 l = selmax l.
Proof.
  intros (x0 & I0 & V0). unfold sel_max_p, sel_max. rewrite fbp0. fold ltR. change (fun x y : R => ltR y x) with gtR.
  pose proof (fb_max_spec l None) as Hm. destruct (fbR gtR l None); [reflexivity|].
  destruct Hm as [_ Hn]; [intros ? E; discriminate|]. exfalso. apply (Hn x0 I0 V0).
Qed.
Theorem mortar_p_tol0 a00 a01 a10 a11 b00 b01 b10 b11 n0 n1 f l quad :
  mwnpR 0 a00 a01 a10 a11 b00 b01 b10 b11 n0 n1 f l quad = mwnR a00 a01 a10 a11 b00 b01 b10 b11 n0 n1 f l quad.
Proof.
  unfold mortar_with_normal_p, mortar_with_normal. cbv zeta. set (cs := candsR _ _ _ _ _ _ _ _ _ _).
  destruct (classic (some_valid cs)) as [Hv|Hn].
  - rewrite (selminp0 cs Hv), (selmaxp0 cs Hv). reflexivity.
  - rewrite (selection_none cs Hn), active_same.
    rewrite (selection_p_none 0 cs) by (intros H; apply Hn, some_valid_t0; exact H). apply active_same.
Qed.

(* rigid-motion invariance, sign and vanishing carry over to the patched code, for every tolerance *)
Theorem mortar_p_rigid c s tx ty tol : c * c + s * s = 1 -> forall a00 a01 a10 a11 b00 b01 b10 b11 n0 n1 f l quad,
  mwnpR tol (rx c s tx a00 a01) (ry c s ty a00 a01) (rx c s tx a10 a11) (ry c s ty a10 a11)
        (rx c s tx b00 b01) (ry c s ty b00 b01) (rx c s tx b10 b11) (ry c s ty b10 b11) (rot0 c s n0 n1) (rot1 c s n0 n1) f l quad
  = mwnpR tol a00 a01 a10 a11 b00 b01 b10 b11 n0 n1 f l quad.
Proof.
  intros Hcs *. unfold mortar_with_normal_p. cbv zeta. rewrite (candidates_rigid c s tx ty Hcs), !(seglen_rigid c s tx ty Hcs). reflexivity.
Qed.
Theorem mortar_p_nonneg tol l : 0 < l <= 1 / 2 -> forall a00 a01 a10 a11 b00 b01 b10 b11 n0 n1 f (quad : list (R * R)),
  (forall q, In q quad -> 0 <= snd q) -> (forall xa xb g, 0 <= f xa xb g) ->
  0 <= mwnpR tol a00 a01 a10 a11 b00 b01 b10 b11 n0 n1 f l quad.
Proof.
  intros Hl * Hw Hf. unfold mortar_with_normal_p. cbv zeta. set (cs := candsR _ _ _ _ _ _ _ _ _ _).
  destruct (classic (some_valid_t tol cs)) as [Hv|Hn]; [|rewrite (selection_p_none tol cs Hn), active_same; lra].
  destruct (selection_p_in_unit_interval tol cs Hv) as (Vm & VM & Hord).
  rewrite active_factor. pose proof (wsum_nonneg f (selminp tol cs) (selmaxp tol cs) quad Hw Hf) as W.
  assert (0 <= dxiA (selminp tol cs) (selmaxp tol cs) l).
  { unfold dxiA. destruct Vm as [Vm _], VM as [VM _]. pose proof (slin_monotone l Hl (cxa (selminp tol cs)) (cxa (selmaxp tol cs))). lra. }
  assert (0 <= dxiB (selminp tol cs) (selmaxp tol cs) l) by (unfold dxiB; apply Rabs_pos).
  assert (0 <= seglenR a00 a01 a10 a11) by (unfold seglen; mnum; apply sqrt_pos).
  assert (0 <= seglenR b00 b01 b10 b11) by (unfold seglen; mnum; apply sqrt_pos).
  apply Rmult_le_pos; [|exact W]. apply Rmult_le_pos; [lra|]. apply Rplus_le_le_0_compat; apply Rmult_le_pos; assumption.
Qed.
Theorem mortar_p_no_overlap tol a00 a01 a10 a11 b00 b01 b10 b11 n0 n1 f l quad :
  ~ some_valid_t tol (candsR a00 a01 a10 a11 b00 b01 b10 b11 n0 n1) ->
  mwnpR tol a00 a01 a10 a11 b00 b01 b10 b11 n0 n1 f l quad = 0.
Proof. intros Hn. unfold mortar_with_normal_p. cbv zeta. rewrite (selection_p_none tol _ Hn). apply active_same. Qed.

(* ---- what the patch is for: robustness of the selected overlap against perturbed parameters ----
   l = the exact candidate list, l' = the same candidates with every parameter perturbed by at most d (rounding of the 2x2 solves). *)
Definition close (d : R) (c c' : cand) : Prop := Rabs (cxa c' - cxa c) <= d /\ Rabs (cxb c' - cxb c) <= d.
Lemma Forall2_In_l {A B} (P : A -> B -> Prop) l l' x : Forall2 P l l' -> In x l -> exists y, In y l' /\ P x y.
Proof.
  induction 1 as [|a b l l' Hab _ IH]; intros Hi; [destruct Hi|].
  destruct Hi as [<-|Hi]; [exists b; split; [left; reflexivity|exact Hab]|].
  destruct (IH Hi) as (y & Iy & Py). exists y. split; [right; exact Iy|exact Py].
Qed.
Lemma close_valid d tol c c' : 0 <= d <= tol -> close d c c' -> vP c -> vPt tol c'.
Proof.
  intros Hd [Ha Hb] [Va Vb]. apply Rabs_le_inv in Ha. apply Rabs_le_inv in Hb. unfold vPt. lra.
Qed.
(* the patched code never loses an end of the exact overlap by more than the perturbation *)
Theorem patched_selection_keeps_overlap tol d l l' : Forall2 (close d) l l' -> 0 <= d <= tol -> some_valid l ->
  cxa (selminp tol l') <= cxa (selmin l) + d /\ cxa (selmax l) - d <= cxa (selmaxp tol l').
Proof.
  intros HF Hd Hv. destruct (selection_spec l Hv) as (Vm & VM & Im & IM & _).
  destruct (Forall2_In_l _ _ _ _ HF Im) as (m' & Im' & Cm). destruct (Forall2_In_l _ _ _ _ HF IM) as (M' & IM' & CM).
  pose proof (close_valid d tol _ _ Hd Cm Vm) as Vm'. pose proof (close_valid d tol _ _ Hd CM VM) as VM'.
  assert (Hv' : some_valid_t tol l') by (exists m'; split; assumption).
  destruct (selection_p_spec tol l' Hv') as (_ & _ & Hall).
  destruct (Hall m' Im' Vm') as [H1 _]. destruct (Hall M' IM' VM') as [_ H2].
  destruct Cm as [Cm _], CM as [CM _]. destruct Vm as [Vm _], VM as [VM _].
  pose proof (clip_near _ _ d Vm Cm) as N1. pose proof (clip_near _ _ d VM CM) as N2.
  apply Rabs_le_inv in N1. apply Rabs_le_inv in N2.
  unfold clipc, cxa in *. cbn [fst snd] in *. lra.
Qed.

(* ... whereas the un-toleranced mask of the source can lose the WHOLE overlap under an arbitrarily small perturbation:
   exact candidates of a conforming (node-aligned) pair, each parameter moved outward by d *)
Definition conforming_exact : list cand := [(0, 1, 0); (1, 0, 0); (1, 0, 0); (0, 1, 0)].
Definition conforming_perturbed (d : R) : list cand := [(0, 1 + d, 0); (1, - d, 0); (1 + d, 0, 0); (- d, 1, 0)].
Theorem untoleranced_mask_loses_the_overlap d : 0 < d ->
  Forall2 (close d) conforming_exact (conforming_perturbed d) /\
  cxa (selmin conforming_exact) = 0 /\ cxa (selmax conforming_exact) = 1 /\
  ~ some_valid (conforming_perturbed d) /\
  (forall lenA lenB f s quad, activeR (selmin (conforming_perturbed d)) (selmax (conforming_perturbed d)) lenA lenB f s quad = 0) /\
  (forall tol, d <= tol -> cxa (selminp tol (conforming_perturbed d)) = 0 /\ cxa (selmaxp tol (conforming_perturbed d)) = 1).
Proof.
  intros Hd.
  assert (HF : Forall2 (close d) conforming_exact (conforming_perturbed d)).
  { unfold conforming_exact, conforming_perturbed.
    repeat (apply Forall2_cons; [split; unfold cxa, cxb; cbn [fst snd];
      match goal with |- Rabs ?e <= _ => first [replace e with 0 by ring; rewrite Rabs_R0; lra
                                               | replace e with d by ring; rewrite Rabs_right; lra
                                               | replace e with (- d) by ring; rewrite Rabs_Ropp, Rabs_right; lra] end|]).
    apply Forall2_nil. }
  assert (V0 : vP ((0, 1, 0) : cand)) by (unfold vP, cxa, cxb; cbn [fst snd]; lra).
  assert (V1 : vP ((1, 0, 0) : cand)) by (unfold vP, cxa, cxb; cbn [fst snd]; lra).
  assert (Hv : some_valid conforming_exact) by (exists (0, 1, 0); split; [left; reflexivity|exact V0]).
  destruct (selection_spec _ Hv) as (Vm & VM & _ & _ & Hall).
  assert (I0 : In ((0, 1, 0) : cand) conforming_exact) by (left; reflexivity).
  assert (I1 : In ((1, 0, 0) : cand) conforming_exact) by (right; left; reflexivity).
  pose proof (Hall _ I0 V0) as [A0 _]. pose proof (Hall _ I1 V1) as [_ A1].
  change (cxa ((0, 1, 0) : cand)) with 0 in A0. change (cxa ((1, 0, 0) : cand)) with 1 in A1.
  assert (Hn : ~ some_valid (conforming_perturbed d)).
  { intros (x & Ix & [Vxa Vxb]). unfold conforming_perturbed in Ix.
    destruct Ix as [<-|[<-|[<-|[<-|[]]]]]; unfold cxa, cxb in *; cbn [fst snd] in *; lra. }
  split; [exact HF|]. split; [destruct Vm as [Vm _]; lra|]. split; [destruct VM as [VM _]; lra|]. split; [exact Hn|].
  split; [intros; rewrite (selection_none _ Hn); apply active_same|].
  intros tol Ht.
  destruct (patched_selection_keeps_overlap tol d _ _ HF (conj (Rlt_le _ _ Hd) Ht) Hv) as [P1 P2].
  assert (Hv' : some_valid_t tol (conforming_perturbed d)).
  { exists (0, 1 + d, 0). split; [left; reflexivity|]. unfold vPt, cxa, cxb; cbn [fst snd]. lra. }
  destruct (selection_p_in_unit_interval tol _ Hv') as ([Q1 _] & [Q2 _] & _).
  assert (I0' : In ((0, 1 + d, 0) : cand) (conforming_perturbed d)) by (left; reflexivity).
  assert (I1' : In ((1, - d, 0) : cand) (conforming_perturbed d)) by (right; left; reflexivity).
  destruct (selection_p_spec tol _ Hv') as (_ & _ & Hall').
  assert (W0 : vPt tol (0, 1 + d, 0)) by (unfold vPt, cxa, cxb; cbn [fst snd]; lra).
  assert (W1 : vPt tol (1, - d, 0)) by (unfold vPt, cxa, cxb; cbn [fst snd]; lra).
  destruct (Hall' _ I0' W0) as [E0 _]. destruct (Hall' _ I1' W1) as [_ E1].
  change (cxa (clipcR (0, 1 + d, 0))) with (clipR 0) in E0. change (cxa (clipcR (1, - d, 0))) with (clipR 1) in E1.
  rewrite clip_id in E0, E1 by lra. split; lra.
Qed.
