(* C11: viscoelastic models dissipate, relax and keep the viscous flow isochoric.
   Subjects: the kernels regenerated from /repo (Gen_HyperViscoelastic, Gen_MultiBranchHyperViscoelastic, Gen_ViscoState,
   Gen_TensorMath) at T := R, composed as in the material factories (model/M_C11.v, model/M_C08.v).
   Method: bridge lemmas (unfold + field) express every composite kernel through the trial strain E = Etrial lss H Fv; the
   property clauses are then algebra in E, dt, tau, G. *)
From Coq Require Import Reals Lra QArith List.
From OV.base Require Import Num.
From OV.gen Require Import Gen_TensorMath Gen_HyperViscoelastic Gen_MultiBranchHyperViscoelastic Gen_ViscoState.
From OV.model Require Import M_C08 M_C11.
From OV.proofs Require Import L_C08.
Import ListNotations.
Local Open Scope R_scope.

Ltac cnum := cbv beta iota zeta delta [
   E_hv E_hv_eq E_mb E_mb_eq mb_branch
   Etrial nds mdiv inc_hv Wneq_hv Psi_hv D_hv state_new_hv relax_hv Wneq_reported_hv
   inc_b Wneq_b Psi_b Etrial_mb D_mb_branch D_mb state_new_b relax_b Wneq_reported_b
   t_trace I2 t_det detpIm1 deviator dev sym skw norm_of_deviator_squared
   _eq_strain_energy _neq_strain_energy _dissipation_potential _compute_state_increment _compute_elastic_logarithmic_strain
   hv_energy_density hv_dissipated_energy mb_eq_strain_energy mb_compute_elastic_logarithmic_strain
   c11_state_increment c11_elastic_log_strain c11_state_new
   _neq_strain_energy_b1 _dissipation_potential_b1 _compute_state_increment_b1
   _neq_strain_energy_b2 _dissipation_potential_b2 _compute_state_increment_b2
   _neq_strain_energy_b3 _dissipation_potential_b3 _compute_state_increment_b3
   defgrad madd msub map2 mscal mmul mtr mtrace mddot mdet mid mzero ap9 of9 to9 lift1 lift2
   m00 m01 m02 m10 m11 m12 m20 m21 m22
   nconst nadd nsub nmul ndiv nopp nabs nsqrt nexp nln nltb nleb neqb NumR nZ nzero nunit ntwo nhalf ngtb ngeb nneb nmin nmax nsign nsq npow npowr
   Q2R' Qnum Qden inject_Z].
(* the same, keeping the trial-strain kernel (the only place where log_sqrt_symm is applied) folded *)
Ltac cnum0 := cbv beta iota zeta delta [
   E_hv E_hv_eq E_mb E_mb_eq mb_branch
   Etrial nds mdiv inc_hv Wneq_hv Psi_hv D_hv state_new_hv relax_hv Wneq_reported_hv
   inc_b Wneq_b Psi_b Etrial_mb D_mb_branch D_mb state_new_b relax_b Wneq_reported_b
   t_trace I2 t_det detpIm1 deviator dev sym skw norm_of_deviator_squared
   _eq_strain_energy _neq_strain_energy _dissipation_potential _compute_state_increment
   hv_energy_density hv_dissipated_energy mb_eq_strain_energy
   c11_state_increment c11_state_new
   _neq_strain_energy_b1 _dissipation_potential_b1 _compute_state_increment_b1
   _neq_strain_energy_b2 _dissipation_potential_b2 _compute_state_increment_b2
   _neq_strain_energy_b3 _dissipation_potential_b3 _compute_state_increment_b3
   defgrad madd msub map2 mscal mmul mtr mtrace mddot mdet mid mzero ap9 of9 to9 lift1 lift2
   m00 m01 m02 m10 m11 m12 m20 m21 m22
   nconst nadd nsub nmul ndiv nopp nabs nsqrt nexp nln nltb nleb neqb NumR nZ nzero nunit ntwo nhalf ngtb ngeb nneb nmin nmax nsign nsq npow npowr
   Q2R' Qnum Qden inject_Z].
Ltac dp4 p := destruct p as [[[?K ?G ?Gn ?tau]]].

(* the integration factor 1/(1+dt/tau) *)
Definition fac (dt tau : R) : R := 1 / (1 + dt / tau).
Lemma fac_pos dt tau : 0 < dt -> 0 < tau -> 0 < fac dt tau < 1.
Proof.
  intros Hd Ht. unfold fac. assert (0 < dt / tau) by (apply Rdiv_lt_0_compat; lra). split.
  - apply Rdiv_lt_0_compat; lra.
  - apply (Rmult_lt_reg_r (1 + dt / tau)); [lra |]. unfold Rdiv at 1. rewrite Rmult_assoc, Rinv_l by lra. lra.
Qed.
Lemma den_ne dt tau : 0 < dt -> 0 < tau -> 1 + dt / tau <> 0.
Proof. intros Hd Ht. assert (0 < dt / tau) by (apply Rdiv_lt_0_compat; lra). lra. Qed.

(* ---- algebra in the trial strain *)
Lemma nds_nonneg (E : M) : 0 <= nds E.
Proof. dm E. cnum. repeat apply Rplus_le_le_0_compat; apply Rle_0_sqr. Qed.

Lemma inc_trace K G Gn tau dt (E : M) : 0 < dt -> 0 < tau -> mtrace (inc_hv (K, G, Gn, tau) dt E) = 0.
Proof. intros Hd Ht. pose proof (den_ne dt tau Hd Ht). dm E. cnum. field. split; lra. Qed.

Lemma relax_nds K G Gn tau dt (E : M) : 0 < dt -> 0 < tau ->
  nds (relax_hv (K, G, Gn, tau) dt E) = fac dt tau * fac dt tau * nds E.
Proof. intros Hd Ht. pose proof (den_ne dt tau Hd Ht). dm E. unfold fac. cnum. field. split; lra. Qed.

Lemma rate_nds K G Gn tau dt (E : M) : 0 < dt -> 0 < tau ->
  nds (mdiv (inc_hv (K, G, Gn, tau) dt E) dt) = (fac dt tau / tau) * (fac dt tau / tau) * nds E.
Proof. intros Hd Ht. pose proof (den_ne dt tau Hd Ht). dm E. unfold fac. cnum. field. repeat split; lra. Qed.

Lemma Wneq_hv_form K G Gn tau (E : M) : Wneq_hv (K, G, Gn, tau) E = Gn * nds E.
Proof. dm E. cnum. reflexivity. Qed.
Lemma Psi_hv_form K G Gn tau (E : M) : Psi_hv (K, G, Gn, tau) E = Gn * tau * nds E.
Proof. dm E. cnum. reflexivity. Qed.

(* ---- bridges: the composite kernels expressed through the trial strain *)
Ltac kill_trial := match goal with |- context [_compute_elastic_logarithmic_strain ?f ?a ?b ?c ?d ?e ?g ?h ?i ?j ?k ?l ?m ?n ?o ?q ?r ?s ?t] =>
  destruct (_compute_elastic_logarithmic_strain f a b c d e g h i j k l m n o q r s t) as [[[[[[[[? ?] ?] ?] ?] ?] ?] ?] ?] end.
Lemma c11_trial_same : @c11_elastic_log_strain R NumR = @_compute_elastic_logarithmic_strain R NumR.
Proof. reflexivity. Qed.

Lemma E_hv_bridge lss K G Gn tau (Fv : M) dt (H : M) :
  E_hv lss (K, G, Gn, tau) Fv dt H
  = E_hv_eq (K, G, Gn, tau) H + Wneq_hv (K, G, Gn, tau) (relax_hv (K, G, Gn, tau) dt (Etrial lss H Fv))
    + dt * Psi_hv (K, G, Gn, tau) (mdiv (inc_hv (K, G, Gn, tau) dt (Etrial lss H Fv)) dt).
Proof. dm Fv. dm H. cnum0. kill_trial. cnum0. reflexivity. Qed.

Lemma D_hv_bridge lss K G Gn tau (Fv : M) dt (H : M) :
  D_hv lss (K, G, Gn, tau) Fv dt H = dt * Psi_hv (K, G, Gn, tau) (mdiv (inc_hv (K, G, Gn, tau) dt (Etrial lss H Fv)) dt).
Proof. dm Fv. dm H. cnum0. kill_trial. cnum0. reflexivity. Qed.

Lemma state_new_hv_bridge lss expm K G Gn tau (Fv : M) dt (H : M) :
  state_new_hv lss expm (K, G, Gn, tau) Fv dt H = mmul (expm (inc_hv (K, G, Gn, tau) dt (Etrial lss H Fv))) Fv.
Proof.
  dm Fv. dm H. unfold state_new_hv, c11_state_new. rewrite c11_trial_same. cnum0. kill_trial. cnum0.
  match goal with |- context [expm ?X] => destruct (expm X) end. reflexivity.
Qed.


(* ---- three branches *)
Definition Gb (n : nat) (p : p8) : R := let '(a, b, c, d, e, f, g, h) := p in match n with O => c | S O => e | _ => g end.
Definition taub (n : nat) (p : p8) : R := let '(a, b, c, d, e, f, g, h) := p in match n with O => d | S O => f | _ => h end.
Ltac dp8 p := destruct p as [[[[[[[?a ?b] ?c] ?d] ?e] ?f] ?g] ?h].
Ltac d3 n := destruct n as [| [| n]].

Lemma inc_b_trace n p dt (E : M) : 0 < dt -> 0 < taub n p -> mtrace (inc_b n p dt E) = 0.
Proof. dp8 p. d3 n; cbn [taub]; intros Hd Ht; pose proof (den_ne dt _ Hd Ht); dm E; cnum; field; split; lra. Qed.
Lemma relax_b_nds n p dt (E : M) : 0 < dt -> 0 < taub n p ->
  nds (relax_b n p dt E) = fac dt (taub n p) * fac dt (taub n p) * nds E.
Proof. dp8 p. d3 n; cbn [taub]; intros Hd Ht; pose proof (den_ne dt _ Hd Ht); dm E; unfold fac; cnum; field; split; lra. Qed.
Lemma rate_b_nds n p dt (E : M) : 0 < dt -> 0 < taub n p ->
  nds (mdiv (inc_b n p dt E) dt) = (fac dt (taub n p) / taub n p) * (fac dt (taub n p) / taub n p) * nds E.
Proof. dp8 p. d3 n; cbn [taub]; intros Hd Ht; pose proof (den_ne dt _ Hd Ht); dm E; unfold fac; cnum; field; repeat split; lra. Qed.
Lemma Wneq_b_form n p (E : M) : Wneq_b n p E = Gb n p * nds E.
Proof. dp8 p. d3 n; dm E; cnum; reflexivity. Qed.
Lemma Psi_b_form n p (E : M) : Psi_b n p E = Gb n p * taub n p * nds E.
Proof. dp8 p. d3 n; dm E; cnum; reflexivity. Qed.

Lemma mb_branch_bridge_0 lss p (Fv : M) dt (H : M) :
  mb_branch (@_compute_state_increment_b1 R NumR) (@_neq_strain_energy_b1 R NumR) (@_dissipation_potential_b1 R NumR) lss p Fv dt H
  = (Wneq_b 0 p (relax_b 0 p dt (Etrial_mb lss H Fv)), Psi_b 0 p (mdiv (inc_b 0 p dt (Etrial_mb lss H Fv)) dt)).
Proof. dp8 p. dm Fv. dm H. cnum0. reflexivity. Qed.
Lemma mb_branch_bridge_1 lss p (Fv : M) dt (H : M) :
  mb_branch (@_compute_state_increment_b2 R NumR) (@_neq_strain_energy_b2 R NumR) (@_dissipation_potential_b2 R NumR) lss p Fv dt H
  = (Wneq_b 1 p (relax_b 1 p dt (Etrial_mb lss H Fv)), Psi_b 1 p (mdiv (inc_b 1 p dt (Etrial_mb lss H Fv)) dt)).
Proof. dp8 p. dm Fv. dm H. cnum0. reflexivity. Qed.
Lemma mb_branch_bridge_2 lss p (Fv : M) dt (H : M) :
  mb_branch (@_compute_state_increment_b3 R NumR) (@_neq_strain_energy_b3 R NumR) (@_dissipation_potential_b3 R NumR) lss p Fv dt H
  = (Wneq_b 2 p (relax_b 2 p dt (Etrial_mb lss H Fv)), Psi_b 2 p (mdiv (inc_b 2 p dt (Etrial_mb lss H Fv)) dt)).
Proof. dp8 p. dm Fv. dm H. cnum0. reflexivity. Qed.

Lemma E_mb_bridge lss p (Fv1 Fv2 Fv3 : M) dt (H : M) :
  E_mb lss p Fv1 Fv2 Fv3 dt H
  = E_mb_eq p H
    + (0 + Wneq_b 0 p (relax_b 0 p dt (Etrial_mb lss H Fv1)) + Wneq_b 1 p (relax_b 1 p dt (Etrial_mb lss H Fv2))
         + Wneq_b 2 p (relax_b 2 p dt (Etrial_mb lss H Fv3)))
    + dt * (0 + Psi_b 0 p (mdiv (inc_b 0 p dt (Etrial_mb lss H Fv1)) dt) + Psi_b 1 p (mdiv (inc_b 1 p dt (Etrial_mb lss H Fv2)) dt)
              + Psi_b 2 p (mdiv (inc_b 2 p dt (Etrial_mb lss H Fv3)) dt)).
Proof.
  unfold E_mb. rewrite mb_branch_bridge_0, mb_branch_bridge_1, mb_branch_bridge_2.
  cbv beta iota zeta delta [nadd nmul nzero nZ nconst NumR Q2R' Qnum Qden inject_Z]. reflexivity.
Qed.
