(* C03 -- divergence theorem for polynomial vector fields: reference triangle (Green), every affine triangle (Piola
   pull-back), and a mesh (cancellation of the fluxes through interior edges). Integrals are Riemann integrals. *)
From Coq Require Import ZArith List Lia Reals Lra Psatz Permutation.
From Coquelicot Require Import Coquelicot.
From OV.proofs Require Import L_C03sn L_C03cert L_C03lift L_C03int.
Import ListNotations.
Local Open Scope R_scope.

(* ------------------------------------------------------------------ derivatives of polynomials are polynomials *)
Lemma PolyG_deriv_PolyG k f fx fy : PolyG k f fx fy ->
  (exists a c, PolyG k fx a c) /\ (exists a c, PolyG k fy a c).
Proof.
  induction 1.
  - split; exists (fun _ => 0), (fun _ => 0); apply (PG_const 0).
  - split; exists (fun _ => 0), (fun _ => 0); apply (PG_le 0 1); try lia; [apply (PG_const 1) | apply (PG_const 0)].
  - split; exists (fun _ => 0), (fun _ => 0); apply (PG_le 0 1); try lia; [apply (PG_const 0) | apply (PG_const 1)].
  - destruct IHPolyG1 as [[a1 [c1 A1]] [a2 [c2 A2]]], IHPolyG2 as [[a3 [c3 A3]] [a4 [c4 A4]]].
    split; eexists; eexists; eapply PG_add; eassumption.
  - destruct IHPolyG1 as [[a1 [c1 A1]] [a2 [c2 A2]]], IHPolyG2 as [[a3 [c3 A3]] [a4 [c4 A4]]].
    split; eexists; eexists.
    + eapply PG_add; [apply (PG_mul _ _ _ _ _ _ _ _ A1 H0) | apply (PG_mul _ _ _ _ _ _ _ _ H A3)].
    + eapply PG_add; [apply (PG_mul _ _ _ _ _ _ _ _ A2 H0) | apply (PG_mul _ _ _ _ _ _ _ _ H A4)].
  - destruct IHPolyG as [[a1 [c1 A1]] [a2 [c2 A2]]]. split; eexists; eexists; eapply PG_le; eassumption.
  - destruct IHPolyG as [[a1 [c1 A1]] [a2 [c2 A2]]].
    split.
    + exists a1, c1. apply (PG_ext k fx a1 c1 fx' a1 c1); auto.
    + exists a2, c2. apply (PG_ext k fy a2 c2 fy' a2 c2); auto.
Qed.

(* ------------------------------------------------------------------ continuity, fundamental theorem along the axes *)
Lemma cont_of_deriv' (f : R -> R) x l : is_derive f x l -> continuous f x.
Proof. intros H. apply cont_of_deriv. exists l. exact H. Qed.
Lemma PolyG_cont_x k f fx fy : PolyG k f fx fy -> forall y x, continuous (fun t => f (t, y)) x.
Proof. intros H y x. destruct (PolyG_is_derive k f fx fy H x y) as [A _]. eapply cont_of_deriv', A. Qed.
Lemma PolyG_cont_y k f fx fy : PolyG k f fx fy -> forall x y, continuous (fun t => f (x, t)) y.
Proof. intros H x y. destruct (PolyG_is_derive k f fx fy H x y) as [_ A]. eapply cont_of_deriv', A. Qed.

Lemma ftc_y k f fx fy : PolyG k f fx fy -> forall x a b, is_RInt (fun y => fy (x, y)) a b (f (x, b) - f (x, a)).
Proof.
  intros H x a b. destruct (PolyG_deriv_PolyG k f fx fy H) as [_ [u [w Hy]]].
  apply (is_RInt_derive (fun y => f (x, y)) (fun y => fy (x, y))).
  - intros y _. apply (PolyG_is_derive k f fx fy H x y).
  - intros y _. apply (PolyG_cont_y k fy u w Hy).
Qed.
Lemma ftc_x k f fx fy : PolyG k f fx fy -> forall y a b, is_RInt (fun x => fx (x, y)) a b (f (b, y) - f (a, y)).
Proof.
  intros H y a b. destruct (PolyG_deriv_PolyG k f fx fy H) as [[u [w Hx]] _].
  apply (is_RInt_derive (fun x => f (x, y)) (fun x => fx (x, y))).
  - intros x _. apply (PolyG_is_derive k f fx fy H x y).
  - intros x _. apply (PolyG_cont_x k fx u w Hx).
Qed.

(* ------------------------------------------------------------------ both orders of integration agree on polynomials *)
Definition swap (p : R * R) : R * R := (snd p, fst p).
Definition pswap (P : poly) : poly := map (fun t => (fst t, (snd (snd t), fst (snd t)))) P.
Lemma peval_pswap P p : peval (pswap P) p = peval P (swap p).
Proof.
  unfold peval, plin, pswap. rewrite map_map. f_equal. apply map_ext. intros [c [i j]]. unfold rmon, swap; cbn [fst snd]. ring.
Qed.
Lemma tri_moment_sym i j : tri_moment i j = tri_moment j i.
Proof. unfold tri_moment. replace (j + i + 2)%nat with (i + j + 2)%nat by lia. field. apply INR_fact_neq_0. Qed.
Lemma pint_ref_pswap P : pint_ref (pswap P) = pint_ref P.
Proof.
  unfold pint_ref, plin, pswap. rewrite map_map. f_equal. apply map_ext. intros [c [i j]]; cbn [fst snd]. rewrite tri_moment_sym. reflexivity.
Qed.
Lemma int_ref_swap k h hx hy : PolyG k h hx hy -> int_ref (fun p => h (swap p)) = int_ref h.
Proof.
  intros H. destruct (PolyG_normal_form k h hx hy H) as [P [_ EP]].
  rewrite (int_ref_ext h (peval P)) by (intros; apply EP).
  rewrite (int_ref_ext (fun p => h (swap p)) (peval (pswap P))) by (intros; rewrite peval_pswap; apply EP).
  rewrite !int_ref_peval. apply pint_ref_pswap.
Qed.
Lemma int_ref_add k f fx fy l g gx gy : PolyG k f fx fy -> PolyG l g gx gy ->
  int_ref (fun p => f p + g p) = int_ref f + int_ref g.
Proof.
  intros Hf Hg. destruct (PolyG_normal_form k f fx fy Hf) as [P [_ EP]]. destruct (PolyG_normal_form l g gx gy Hg) as [Q [_ EQ]].
  rewrite (int_ref_ext f (peval P)) by (intros; apply EP). rewrite (int_ref_ext g (peval Q)) by (intros; apply EQ).
  rewrite (int_ref_ext (fun p => f p + g p) (peval (P ++ Q))).
  - rewrite !int_ref_peval. unfold pint_ref. apply plin_app.
  - intros x. unfold peval. rewrite plin_app. f_equal; [apply EP | apply EQ].
Qed.

(* ------------------------------------------------------------------ Green's theorem on the reference triangle *)
Theorem green_ref k G1 G1x G1y l G2 G2x G2y : PolyG k G1 G1x G1y -> PolyG l G2 G2x G2y ->
  int_ref (fun p => G1x p + G2y p)
  = RInt (fun y => G1 (1 - y, y) - G1 (0, y)) 0 1 + RInt (fun x => G2 (x, 1 - x) - G2 (x, 0)) 0 1.
Proof.
  intros H1 H2.
  destruct (PolyG_deriv_PolyG k G1 G1x G1y H1) as [[u1 [w1 D1]] _].
  destruct (PolyG_deriv_PolyG l G2 G2x G2y H2) as [_ [u2 [w2 D2]]].
  rewrite (int_ref_add k G1x u1 w1 l G2y u2 w2 D1 D2). f_equal.
  - rewrite <- (int_ref_swap k G1x u1 w1 D1). unfold int_ref. apply RInt_ext. intros y _.
    apply is_RInt_unique. unfold swap; cbn [fst snd]. apply (ftc_x k G1 G1x G1y H1 y 0 (1 - y)).
  - unfold int_ref. apply RInt_ext. intros x _. apply is_RInt_unique. apply (ftc_y l G2 G2x G2y H2 x 0 (1 - x)).
Qed.

(* ------------------------------------------------------------------ line integrals of polynomials along segments *)
Definition seg (A B : R * R) (s : R) : R * R := (fst A + s * (fst B - fst A), snd A + s * (snd B - snd A)).
Definition pint (H : R * R -> R) (A B : R * R) : R := RInt (fun s => H (seg A B s)) 0 1.
(* int_edge F.n ds over the edge A -> B with n = (t_y, -t_x)/|t| (to the right of the direction of travel: outward on a
   counter-clockwise boundary) and ds = |t| ds *)
Definition flux (F1 F2 : R * R -> R) (A B : R * R) : R :=
  pint F1 A B * (snd B - snd A) - pint F2 A B * (fst B - fst A).

Lemma path_cont k H hx hy A B : PolyG k H hx hy -> forall s, continuous (fun s => H (seg A B s)) s.
Proof.
  intros HP s.
  pose proof (PolyG_affine k H hx hy (fst A) (fst B - fst A) 0 (snd A) (snd B - snd A) 0 HP) as HA. cbv zeta in HA.
  apply (continuous_ext (fun t => H (affmap (fst A) (fst B - fst A) 0 (snd A) (snd B - snd A) 0 (t, 0)))).
  - intros t. f_equal. unfold affmap, seg; cbn [fst snd]. f_equal; ring.
  - apply (PolyG_cont_x _ _ _ _ HA 0 s).
Qed.
Lemma path_ex k H hx hy A B a b : PolyG k H hx hy -> ex_RInt (fun s => H (seg A B s)) a b.
Proof. intros HP. apply (@ex_RInt_continuous R_CompleteNormedModule). intros z _. apply (path_cont k H hx hy A B HP). Qed.

Lemma seg_rev A B s : seg B A s = seg A B (1 - s).
Proof. unfold seg; cbn [fst snd]. f_equal; ring. Qed.
Lemma pint_rev k H hx hy A B : PolyG k H hx hy -> pint H B A = pint H A B.
Proof.
  intros HP. unfold pint. set (phi := fun s => H (seg A B s)).
  assert (Ex10 : ex_RInt phi 1 0) by apply (path_ex k H hx hy A B 1 0 HP).
  pose proof (RInt_correct phi 1 0 Ex10) as I10.
  pose proof (is_RInt_comp_lin phi (-1) 1 0 1 (RInt phi 1 0)) as C.
  replace (-1 * 0 + 1) with 1 in C by ring. replace (-1 * 1 + 1) with 0 in C by ring. specialize (C I10).
  apply (is_RInt_scal _ 0 1 (-1)) in C.
  apply is_RInt_unique.
  replace (RInt phi 0 1) with (scal (-1) (RInt phi 1 0)).
  - eapply is_RInt_ext; [|exact C]. intros y _. cbv beta. rewrite seg_rev. unfold phi, scal; simpl; unfold mult; simpl.
    replace (-1 * y + 1) with (1 - y) by ring. ring.
  - rewrite <- (opp_RInt_swap phi 1 0 Ex10). unfold scal, opp; simpl; unfold mult; simpl. ring.
Qed.
Lemma flux_rev k F1 f1x f1y l F2 f2x f2y A B : PolyG k F1 f1x f1y -> PolyG l F2 f2x f2y -> flux F1 F2 B A = - flux F1 F2 A B.
Proof.
  intros H1 H2. unfold flux. rewrite (pint_rev k F1 f1x f1y A B H1), (pint_rev l F2 f2x f2y A B H2). ring.
Qed.
Lemma pint_lin2 k H1 h1x h1y l H2 h2x h2y c1 c2 A B : PolyG k H1 h1x h1y -> PolyG l H2 h2x h2y ->
  pint (fun p => c1 * H1 p - c2 * H2 p) A B = c1 * pint H1 A B - c2 * pint H2 A B.
Proof.
  intros P1 P2. unfold pint.
  pose proof (RInt_correct _ 0 1 (path_ex k H1 h1x h1y A B 0 1 P1)) as I1.
  pose proof (RInt_correct _ 0 1 (path_ex l H2 h2x h2y A B 0 1 P2)) as I2.
  apply (is_RInt_scal _ 0 1 c1) in I1. apply (is_RInt_scal _ 0 1 c2) in I2.
  pose proof (is_RInt_minus _ _ 0 1 _ _ I1 I2) as I.
  apply is_RInt_unique. eapply is_RInt_ext; [|exact I]. intros s _. reflexivity.
Qed.
Lemma pint_ext H H' A B : (forall p, H p = H' p) -> pint H A B = pint H' A B.
Proof. intros E. unfold pint. apply RInt_ext. intros; apply E. Qed.
Lemma elmap_seg v0 v1 v2 A B s : elmap v0 v1 v2 (seg A B s) = seg (elmap v0 v1 v2 A) (elmap v0 v1 v2 B) s.
Proof. unfold elmap, affmap, seg; cbn [fst snd]. f_equal; ring. Qed.
Lemma pint_elmap v0 v1 v2 F A B :
  pint (fun xi => F (elmap v0 v1 v2 xi)) A B = pint F (elmap v0 v1 v2 A) (elmap v0 v1 v2 B).
Proof. unfold pint. apply RInt_ext. intros s _. rewrite elmap_seg. reflexivity. Qed.

(* ------------------------------------------------------------------ int_ref of a scaled polynomial *)
Definition pscal (c : R) (P : poly) : poly := map (fun t => (c * fst t, snd t)) P.
Lemma plin_pscal phi c P : plin phi (pscal c P) = c * plin phi P.
Proof. induction P as [|t P IH]; [unfold plin; cbn; ring|]. unfold pscal in *. cbn [map]. rewrite !plin_cons. cbn [fst snd]. rewrite IH. ring. Qed.
Lemma int_ref_scal k h hx hy c : PolyG k h hx hy -> int_ref (fun p => c * h p) = c * int_ref h.
Proof.
  intros H. destruct (PolyG_normal_form k h hx hy H) as [P [_ EP]].
  rewrite (int_ref_ext h (peval P)) by (intros; apply EP).
  rewrite (int_ref_ext (fun p => c * h p) (peval (pscal c P))).
  - rewrite !int_ref_peval. unfold pint_ref. apply plin_pscal.
  - intros x. unfold peval. rewrite plin_pscal. f_equal. apply EP.
Qed.

(* ------------------------------------------------------------------ divergence theorem on every affine triangle *)
Definition tri_flux (F1 F2 : R * R -> R) (v0 v1 v2 : R * R) : R := flux F1 F2 v0 v1 + flux F1 F2 v1 v2 + flux F1 F2 v2 v0.

Theorem divergence_triangle k F1 f1x f1y l F2 f2x f2y v0 v1 v2 : PolyG k F1 f1x f1y -> PolyG l F2 f2x f2y ->
  tri_flux F1 F2 v0 v1 v2 = int_tri v0 v1 v2 (fun x => f1x x + f2y x).
Proof.
  intros H1 H2. set (X := elmap v0 v1 v2).
  set (a1 := fst v0 - fst v2). set (a2 := fst v1 - fst v2). set (b1 := snd v0 - snd v2). set (b2 := snd v1 - snd v2).
  pose proof (PolyG_affine k F1 f1x f1y (fst v2) a1 a2 (snd v2) b1 b2 H1) as A1. cbv zeta in A1. change (affmap (fst v2) a1 a2 (snd v2) b1 b2) with X in A1.
  pose proof (PolyG_affine l F2 f2x f2y (fst v2) a1 a2 (snd v2) b1 b2 H2) as A2. cbv zeta in A2. change (affmap (fst v2) a1 a2 (snd v2) b1 b2) with X in A2.
  (* Piola pull-back G = adj(J) (F o X) *)
  pose proof (PG_add _ _ _ _ _ _ _ (PG_le _ (k + l) _ _ _ (Nat.le_add_r k l) (PG_mul 0 k _ _ _ _ _ _ (PG_const b2) A1))
                                   (PG_le _ (k + l) _ _ _ (Nat.le_add_l l k) (PG_mul 0 l _ _ _ _ _ _ (PG_const (- a2)) A2))) as G1.
  pose proof (PG_add _ _ _ _ _ _ _ (PG_le _ (k + l) _ _ _ (Nat.le_add_r k l) (PG_mul 0 k _ _ _ _ _ _ (PG_const (- b1)) A1))
                                   (PG_le _ (k + l) _ _ _ (Nat.le_add_l l k) (PG_mul 0 l _ _ _ _ _ _ (PG_const a1) A2))) as G2.
  cbv beta in G1, G2.
  pose proof (green_ref _ _ _ _ _ _ _ _ G1 G2) as GR. cbv beta in GR.
  assert (Ej : jacR v0 v1 v2 = a1 * b2 - a2 * b1) by (rewrite jacR_det; reflexivity).
  assert (HD : exists u w, PolyG (k + l) (fun x => f1x x + f2y x) u w).
  { destruct (PolyG_deriv_PolyG k F1 f1x f1y H1) as [[u1 [w1 D1]] _]. destruct (PolyG_deriv_PolyG l F2 f2x f2y H2) as [_ [u2 [w2 D2]]].
    eexists; eexists. apply PG_add; [eapply PG_le; [|exact D1] | eapply PG_le; [|exact D2]]; lia. }
  destruct HD as [u [w HD]].
  pose proof (PolyG_affine _ _ _ _ (fst v2) a1 a2 (snd v2) b1 b2 HD) as HDX. cbv zeta in HDX. change (affmap (fst v2) a1 a2 (snd v2) b1 b2) with X in HDX.
  unfold int_tri. fold X. rewrite <- (int_ref_scal _ _ _ _ (jacR v0 v1 v2) HDX).
  match type of GR with int_ref ?h = _ => rewrite (int_ref_ext _ h) by (intros p; cbv beta; rewrite Ej; ring) end.
  rewrite GR. clear GR.
  (* the four boundary terms as line integrals over reference edges, then over physical edges *)
  set (R0 := (1, 0) : R * R). set (R1 := (0, 1) : R * R). set (R2 := (0, 0) : R * R).
  set (g1 := fun p : R * R => b2 * F1 (X p) + - a2 * F2 (X p)). set (g2 := fun p : R * R => - b1 * F1 (X p) + a1 * F2 (X p)).
  assert (S1 : RInt (fun y => g1 (1 - y, y) - g1 (0, y)) 0 1 = pint g1 R0 R1 - pint g1 R2 R1).
  { unfold pint.
    pose proof (RInt_correct _ 0 1 (path_ex _ _ _ _ R0 R1 0 1 G1)) as I1. pose proof (RInt_correct _ 0 1 (path_ex _ _ _ _ R2 R1 0 1 G1)) as I2.
    pose proof (is_RInt_minus _ _ 0 1 _ _ I1 I2) as I. apply is_RInt_unique. eapply is_RInt_ext; [|exact I].
    intros y _. cbv beta. unfold minus, plus, opp; simpl. unfold seg, R0, R1, R2; cbn [fst snd].
    replace (1 + y * (0 - 1)) with (1 - y) by ring. replace (0 + y * (1 - 0)) with y by ring. replace (0 + y * (0 - 0)) with 0 by ring. reflexivity. }
  assert (S2 : RInt (fun x => g2 (x, 1 - x) - g2 (x, 0)) 0 1 = pint g2 R1 R0 - pint g2 R2 R0).
  { unfold pint.
    pose proof (RInt_correct _ 0 1 (path_ex _ _ _ _ R1 R0 0 1 G2)) as I1. pose proof (RInt_correct _ 0 1 (path_ex _ _ _ _ R2 R0 0 1 G2)) as I2.
    pose proof (is_RInt_minus _ _ 0 1 _ _ I1 I2) as I. apply is_RInt_unique. eapply is_RInt_ext; [|exact I].
    intros x _. cbv beta. unfold minus, plus, opp; simpl. unfold seg, R0, R1, R2; cbn [fst snd].
    replace (0 + x * (1 - 0)) with x by ring. replace (1 + x * (0 - 1)) with (1 - x) by ring. replace (0 + x * (0 - 0)) with 0 by ring. reflexivity. }
  change (tri_flux F1 F2 v0 v1 v2 = RInt (fun y => g1 (1 - y, y) - g1 (0, y)) 0 1 + RInt (fun x => g2 (x, 1 - x) - g2 (x, 0)) 0 1).
  rewrite S1, S2.
  assert (L1 : forall A B, pint g1 A B = b2 * pint F1 (X A) (X B) - a2 * pint F2 (X A) (X B)).
  { intros A B. rewrite (pint_ext g1 (fun p => b2 * F1 (X p) - a2 * F2 (X p))) by (intros; unfold g1; ring).
    rewrite (pint_lin2 _ _ _ _ _ _ _ _ b2 a2 A B A1 A2). unfold X. rewrite !pint_elmap. reflexivity. }
  assert (L2 : forall A B, pint g2 A B = a1 * pint F2 (X A) (X B) - b1 * pint F1 (X A) (X B)).
  { intros A B. rewrite (pint_ext g2 (fun p => a1 * F2 (X p) - b1 * F1 (X p))) by (intros; unfold g2; ring).
    rewrite (pint_lin2 _ _ _ _ _ _ _ _ a1 b1 A B A2 A1). unfold X. rewrite !pint_elmap. reflexivity. }
  rewrite !L1, !L2.
  destruct (elmap_vertices v0 v1 v2) as [E0 [E1 E2]]. fold X in E0, E1, E2. fold R0 in E0. fold R1 in E1. fold R2 in E2.
  rewrite E0, E1, E2.
  unfold tri_flux, flux.
  rewrite (pint_rev k F1 f1x f1y v0 v1 H1), (pint_rev l F2 f2x f2y v0 v1 H2).
  rewrite (pint_rev k F1 f1x f1y v1 v2 H1), (pint_rev l F2 f2x f2y v1 v2 H2).
  unfold a1, a2, b1, b2. ring.
Qed.

(* ------------------------------------------------------------------ meshes: fluxes through interior edges cancel *)
Definition dedge := ((R * R) * (R * R))%type.
Definition tri_edges (t : tri) : list dedge := let '(a, c, d) := t in [(a, c); (c, d); (d, a)].
Definition eflux (F1 F2 : R * R -> R) (e : dedge) : R := flux F1 F2 (fst e) (snd e).
Definition int_tri' (f : R * R -> R) (t : tri) : R := let '(a, c, d) := t in int_tri a c d f.
Definition both_ways (e : dedge) : list dedge := [e; (snd e, fst e)].

Lemma rsum_perm {A} (f : A -> R) l l' : Permutation l l' -> rsum (map f l) = rsum (map f l').
Proof. induction 1; cbn [map rsum]; lra. Qed.

(* the boundary flux over a closed counter-clockwise boundary equals the integral of the divergence over the mesh, whenever
   the directed edges of all elements consist of the boundary edges plus interior edges traversed once in each direction *)
Theorem divergence_mesh k F1 f1x f1y l F2 f2x f2y (mesh : list tri) (bnd inter : list dedge) :
  PolyG k F1 f1x f1y -> PolyG l F2 f2x f2y ->
  Permutation (flat_map tri_edges mesh) (bnd ++ flat_map both_ways inter) ->
  rsum (map (eflux F1 F2) bnd) = rsum (map (int_tri' (fun x => f1x x + f2y x)) mesh).
Proof.
  intros H1 H2 HP.
  assert (E1 : rsum (map (eflux F1 F2) (flat_map tri_edges mesh)) = rsum (map (int_tri' (fun x => f1x x + f2y x)) mesh)).
  { clear HP. induction mesh as [|t mesh IH]; [reflexivity|]. cbn [flat_map]. rewrite map_app, rsum_app.
    cbn [map rsum]. rewrite <- IH. f_equal. destruct t as [[a c] d]. cbn [tri_edges int_tri' map rsum].
    rewrite <- (divergence_triangle k F1 f1x f1y l F2 f2x f2y a c d H1 H2). unfold tri_flux, eflux; cbn [fst snd]. ring. }
  rewrite <- E1, (rsum_perm _ _ _ HP), map_app, rsum_app.
  assert (E2 : rsum (map (eflux F1 F2) (flat_map both_ways inter)) = 0).
  { clear HP. induction inter as [|e inter IH]; [reflexivity|]. cbn [flat_map both_ways app map rsum]. rewrite IH.
    unfold eflux; cbn [fst snd]. rewrite (flux_rev k F1 f1x f1y l F2 f2x f2y (fst e) (snd e) H1 H2). ring. }
  rewrite E2. ring.
Qed.

(* ------------------------------------------------------------------ edge quadrature *)
Lemma line_mono_int i j : is_RInt (fun s => rmon (s, 0) (i, j)) 0 1 (0 ^ j / INR (S i)).
Proof.
  pose proof (inner_mono 0 j i) as H. replace (1 - 0) with 1 in H by ring. rewrite pow1 in H.
  apply (is_RInt_ext (fun y => 0 ^ j * y ^ i)); [intros s _; unfold rmon; cbn [fst snd]; apply Rmult_comm|].
  evar_last; [exact H | field; apply not_0_INR; lia].
Qed.
Lemma line_poly_int P : is_RInt (fun s => peval P (s, 0)) 0 1 (plin (fun m => 0 ^ snd m / INR (S (fst m))) P).
Proof.
  induction P as [|t P IH].
  - evar_last; [apply (is_RInt_const 0 1 0)|]. unfold plin, scal; simpl; unfold mult; simpl. ring.
  - evar_last.
    + apply (is_RInt_ext (fun s => plus (scal (fst t) (rmon (s, 0) (fst (snd t), snd (snd t)))) (peval P (s, 0)))).
      * intros s _. unfold peval at 2. rewrite plin_cons. destruct t as [c [i j]]. reflexivity.
      * apply @is_RInt_plus; [apply @is_RInt_scal; apply line_mono_int | exact IH].
    + rewrite plin_cons. reflexivity.
Qed.

Theorem edge_quadrature k H hx hy A B d1 : PolyG k H hx hy -> (k <= d1)%nat ->
  exists C, 0 <= C /\ forall eps xs ws, Gauss1dExact d1 eps xs ws ->
    Rabs (rdot ws (map (fun s => H (seg A B s)) xs) - pint H A B) <= C * eps.
Proof.
  intros HP Hk.
  pose proof (PolyG_affine k H hx hy (fst A) (fst B - fst A) 0 (snd A) (snd B - snd A) 0 HP) as HA. cbv zeta in HA.
  apply PolyG_normal_form in HA. destruct HA as [P [DP EP]].
  assert (E : forall s, H (seg A B s) = peval P (s, 0)).
  { intros s. destruct (EP (s, 0)) as [E0 _]. rewrite <- E0. f_equal. unfold affmap, seg; cbn [fst snd]. f_equal; ring. }
  exists (pnorm1 P). split; [apply pnorm1_nonneg|]. intros eps xs ws [L [HQ _]].
  unfold pint. rewrite (RInt_ext _ (fun s => peval P (s, 0))) by (intros; apply E).
  rewrite (is_RInt_unique _ _ _ _ (line_poly_int P)).
  replace (map (fun s => H (seg A B s)) xs) with (map (peval P) (map (fun s => (s, 0)) xs)) by (rewrite map_map; apply map_ext; intros; symmetry; apply E).
  rewrite rdot_peval, (Rmult_comm (pnorm1 P)).
  apply plin_diff_bound with (k := d1); [eapply pdeg_mono; eassumption|].
  intros [i j] Hm; cbn [fst snd] in *.
  rewrite map_map.
  rewrite (rdot_map_ext ws (fun s => rmon (s, 0) (i, j)) (fun s => 0 ^ j * s ^ i)) by (intros; unfold rmon; cbn [fst snd]; ring).
  rewrite rdot_map_scal.
  replace (0 ^ j * rdot ws (map (fun s => s ^ i) xs) - 0 ^ j / INR (S i)) with (0 ^ j * (rdot ws (map (fun s => s ^ i) xs) - 1 / INR (S i))) by (field; apply not_0_INR; lia).
  rewrite Rabs_mult. assert (Hi : (i <= d1)%nat) by lia. specialize (HQ i Hi).
  assert (Rabs (0 ^ j) <= 1) by (destruct j; [simpl; rewrite Rabs_R1; lra | rewrite pow_i by lia; rewrite Rabs_R0; lra]).
  pose proof (Rabs_pos (0 ^ j)). pose proof (Rabs_pos (rdot ws (map (fun s => s ^ i) xs) - 1 / INR (S i))). nra.
Qed.

(* the discrete edge flux computed by FunctionSpace.integrate_function_on_edge for func = F.n at exact edge points:
   sum_q w_q jac (F1(X_q) n_x + F2(X_q) n_y), n = (t_y, -t_x)/jac, jac = |t|, X_q = A + s_q t *)
Definition discrete_flux (F1 F2 : R * R -> R) (A B : R * R) (xs ws : list R) : R :=
  rdot ws (map (fun s => F1 (seg A B s)) xs) * (snd B - snd A) - rdot ws (map (fun s => F2 (seg A B s)) xs) * (fst B - fst A).
Theorem edge_flux_quadrature k F1 f1x f1y l F2 f2x f2y A B d1 : PolyG k F1 f1x f1y -> PolyG l F2 f2x f2y -> (k <= d1)%nat -> (l <= d1)%nat ->
  exists C, 0 <= C /\ forall eps xs ws, Gauss1dExact d1 eps xs ws ->
    Rabs (discrete_flux F1 F2 A B xs ws - flux F1 F2 A B) <= C * eps.
Proof.
  intros H1 H2 K1 K2.
  destruct (edge_quadrature k F1 f1x f1y A B d1 H1 K1) as [C1 [P1 B1]].
  destruct (edge_quadrature l F2 f2x f2y A B d1 H2 K2) as [C2 [P2 B2]].
  exists (C1 * Rabs (snd B - snd A) + C2 * Rabs (fst B - fst A)). split.
  - pose proof (Rabs_pos (snd B - snd A)). pose proof (Rabs_pos (fst B - fst A)). nra.
  - intros eps xs ws HQ. specialize (B1 eps xs ws HQ). specialize (B2 eps xs ws HQ). unfold discrete_flux, flux.
    match goal with |- Rabs (?a * ?u - ?c * ?v - (?a' * ?u - ?c' * ?v)) <= _ =>
      replace (a * u - c * v - (a' * u - c' * v)) with (u * (a - a') - v * (c - c')) by ring end.
    unfold Rminus at 1. eapply Rle_trans; [apply Rabs_triang|]. rewrite Rabs_Ropp, !Rabs_mult.
    pose proof (Rabs_pos (snd B - snd A)). pose proof (Rabs_pos (fst B - fst A)). nra.
Qed.
