(* C10: what the library adds to JAX's differentiation -- envelope / implicit-function facts, the safe_sqrt rule,
   the relative-difference kernels as divided differences, the x2 == x1 guard, the JVP helper on diagonal arguments. *)
From Coq Require Import Reals Lra Lia Bool List.
From Coquelicot Require Import Coquelicot.
From Interval Require Import Tactic.
From OV.base Require Import Num.
From OV.gen Require Import Gen_Math Gen_TensorMathFun Gen_TensorMathAD.
From OV.model Require Import M_C10.
From OV.proofs Require L_C12 L_C12_RD.
Local Open Scope R_scope.

(* ------------------------------------------------------------------ (1) custom_root: tangent solve + scalar implicit function theorem *)
(* (the same two facts are proved in proofs/L_C17.v; they are re-proved here -- 15 lines -- so that this file does not depend on
   L_C17's proofs about the regenerated rtsafe kernel, which are legitimately red whenever ScalarRootFind.py is being changed) *)
Lemma tangent_solve (a y : R) : a <> 0 -> let g := fun t : R => a * t in g (y / g 1) = y.
Proof. intros H g. unfold g. field. exact H. Qed.

Lemma scalar_ift (F : R -> R -> R) (x : R -> R) (p0 a b dx : R) :
  locally p0 (fun p => F (x p) p = 0) ->
  filterdiff (fun xp : R * R => F (fst xp) (snd xp)) (locally (x p0, p0)) (fun h => a * fst h + b * snd h) ->
  is_derive x p0 dx ->
  a * dx + b = 0.
Proof.
  intros Hz HF Hx.
  assert (H1 : filterdiff (fun p : R => F (x p) p) (locally p0) (fun h : R => a * (scal h dx) + b * h)).
  { apply (filterdiff_comp'_2 x (fun p => p) F p0 (fun h => scal h dx) (fun h => h) (fun u v => a * u + b * v)).
    - exact Hx.
    - apply filterdiff_id.
    - exact HF. }
  assert (H2 : is_derive (fun p : R => F (x p) p) p0 (a * dx + b)).
  { unfold is_derive. apply filterdiff_ext_lin with (1 := H1). intros h. unfold scal; simpl; unfold mult; simpl. ring. }
  assert (H3 : is_derive (fun p : R => F (x p) p) p0 0).
  { apply is_derive_ext_loc with (f := fun _ : R => 0).
    - revert Hz. apply filter_imp. intros p Hp. symmetry. exact Hp.
    - apply (is_derive_const (V := R_NormedModule) 0 p0). }
  apply is_derive_unique in H2. apply is_derive_unique in H3. rewrite H2 in H3. exact H3.
Qed.

Lemma scalar_ift_with_tangent_solve (F : R -> R -> R) (x : R -> R) (p0 a b dx : R) :
  locally p0 (fun p => F (x p) p = 0) ->
  filterdiff (fun xp : R * R => F (fst xp) (snd xp)) (locally (x p0, p0)) (fun h => a * fst h + b * snd h) ->
  is_derive x p0 dx -> a <> 0 ->
  dx = (- b) / a /\ (fun t : R => a * t) ((- b) / (fun t : R => a * t) 1) = - b.
Proof.
  intros H1 H2 H3 Ha. split; [|exact (tangent_solve a (- b) Ha)].
  pose proof (scalar_ift F x p0 a b dx H1 H2 H3) as E.
  apply Rmult_eq_reg_l with a; [|exact Ha]. field_simplify; [|exact Ha]. lra.
Qed.

(* ------------------------------------------------------------------ (2) total derivative / envelope theorem *)
Lemma total_derivative (phi : R -> R -> R) (y : R -> R) (x0 a b dy : R) :
  filterdiff (fun xy : R * R => phi (fst xy) (snd xy)) (locally (x0, y x0)) (fun h => a * fst h + b * snd h) ->
  is_derive y x0 dy ->
  is_derive (fun x => phi x (y x)) x0 (a + b * dy).
Proof.
  intros Hphi Hy.
  assert (H1 : filterdiff (fun x : R => phi x (y x)) (locally x0) (fun h : R => a * h + b * (scal h dy))).
  { apply (filterdiff_comp'_2 (fun x => x) y phi x0 (fun h => h) (fun h => scal h dy) (fun u v => a * u + b * v)).
    - apply filterdiff_id.
    - exact Hy.
    - exact Hphi. }
  unfold is_derive. apply filterdiff_ext_lin with (1 := H1).
  intros h. unfold scal; simpl; unfold mult; simpl. ring.
Qed.

(* the stress is the PARTIAL derivative at fixed internal variable in both regimes: the internal variable is either
   stationary for the potential (yielding: b = 0) or frozen (elastic: dy = 0) *)
Lemma envelope (phi : R -> R -> R) (y : R -> R) (x0 a b dy : R) :
  filterdiff (fun xy : R * R => phi (fst xy) (snd xy)) (locally (x0, y x0)) (fun h => a * fst h + b * snd h) ->
  is_derive y x0 dy -> (b = 0 \/ dy = 0) ->
  is_derive (fun x => phi x (y x)) x0 a.
Proof.
  intros Hphi Hy Hz. replace a with (a + b * dy) by (destruct Hz as [-> | ->]; ring).
  apply total_derivative; assumption.
Qed.

(* ------------------------------------------------------------------ (4) the safe_sqrt rule *)
Lemma safe_sqrt_rule (x v : R) :
  fst (@safe_sqrt_jvp R NumR x v) = sqrt x
  /\ (0 < x -> snd (@safe_sqrt_jvp R NumR x v) = v * (/ 2 / sqrt x) /\ is_derive sqrt x (/ 2 / sqrt x))
  /\ (x <= 0 -> snd (@safe_sqrt_jvp R NumR x v) = 0).
Proof.
  unfold safe_sqrt_jvp, safe_sqrt. unfold_num. q2r. cbn [fst snd].
  split; [reflexivity|]. split.
  - intros Hx. assert (S := sqrt_lt_R0 x Hx). rcases; [lra|]. split; [field; lra|].
    change sqrt with (fun t : R => sqrt t). auto_derive; [exact Hx|field; lra].
  - intros Hx. rcases; [ring|lra].
Qed.

(* ------------------------------------------------------------------ (3) relative-difference kernels = divided differences *)
(* sqrt / exp / unbranched log kernels: proved in C12, restated *)
Lemma sqrt_rd_exact l1 l2 : 0 < l1 -> 0 < l2 -> l1 <> l2 ->
  @_sqrt_relative_difference R NumR l1 l2 = (sqrt l1 - sqrt l2) / (l1 - l2).
Proof. exact (L_C12.sqrt_relative_difference_exact l1 l2). Qed.
Lemma exp_rd_exact l1 l2 : l1 <> l2 -> @_exp_relative_difference R NumR l1 l2 = (exp l1 - exp l2) / (l1 - l2).
Proof. exact (L_C12.exp_relative_difference_exact l1 l2). Qed.
Lemma log_rd_plain_exact l1 l2 : 0 < l1 -> 0 < l2 -> l1 <> l2 ->
  @_relative_log_difference_no_tolerance_check R NumR l1 l2 = (ln l1 - ln l2) / (l1 - l2).
Proof. exact (L_C12.log_relative_difference_exact l1 l2). Qed.

Ltac adnum := cbv beta iota zeta delta [ad_rel_log_taylor ad_rel_log_plain ad_rel_log rd_guard];
              unfold_num; q2r.

Lemma ad_plain_exact l1 l2 : 0 < l1 -> 0 < l2 -> l1 <> l2 ->
  @ad_rel_log_plain R NumR l1 l2 = (ln l1 - ln l2) / (l1 - l2).
Proof.
  intros H1 H2 Hne. adnum. unfold Rdiv at 2. rewrite ln_mult, ln_Rinv by (try apply Rinv_0_lt_compat; lra). field. lra.
Qed.

(* --- the Taylor branch: series of ln((1+r)/(1-r)) truncated after r^9 --- *)
Definition Lr (r : R) : R := ln ((1 + r) / (1 - r)).
Definition Pr (r : R) : R := 2 + 2 / 3 * r ^ 2 + 2 / 5 * r ^ 4 + 2 / 7 * r ^ 6 + 2 / 9 * r ^ 8.
Definition Dr (r : R) : R := Lr r - r * Pr r.

Lemma Dr_derive x : -1 < x < 1 -> is_derive Dr x (2 * x ^ 10 / (1 - x ^ 2)).
Proof.
  intros Hx. unfold Dr, Lr, Pr. auto_derive.
  - repeat split; try lra. apply Rdiv_lt_0_compat; lra.
  - field. split; [nra|]. split; lra.
Qed.

Lemma Dr_mvt r : Rabs r <= 1 / 39 ->
  exists c, Rabs c <= Rabs r /\ Dr r = 2 * c ^ 10 / (1 - c ^ 2) * r.
Proof.
  intros Hr. assert (Hr' : -1/39 <= r <= 1/39) by (apply Rabs_le_between in Hr; lra).
  destruct (MVT_gen Dr 0 r (fun x => 2 * x ^ 10 / (1 - x ^ 2))) as (c & Hc & E).
  - intros x Hx. apply Dr_derive.
    unfold Rmin, Rmax in Hx. destruct (Rle_dec 0 r); lra.
  - intros x Hx. apply continuity_pt_filterlim. apply (ex_derive_continuous (V := R_NormedModule)).
    exists (2 * x ^ 10 / (1 - x ^ 2)). apply Dr_derive.
    unfold Rmin, Rmax in Hx. destruct (Rle_dec 0 r); lra.
  - exists c. split.
    + unfold Rmin, Rmax in Hc. unfold Rabs. destruct (Rle_dec 0 r), (Rcase_abs c), (Rcase_abs r); lra.
    + assert (D0 : Dr 0 = 0).
      { unfold Dr, Lr, Pr. replace ((1 + 0) / (1 - 0)) with 1 by field. rewrite ln_1. ring. }
      rewrite D0 in E. lra.
Qed.

(* relative accuracy of the truncated series on the range where the Taylor branch is taken *)
Lemma Lr_taylor r : Rabs r <= 1 / 39 -> Rabs (r * Pr r - Lr r) <= 1 / 1000000000 * Rabs (Lr r).
Proof.
  intros Hr. destruct (Dr_mvt r Hr) as (c & Hc & E).
  assert (Hr' : -1/39 <= r <= 1/39) by (apply Rabs_le_between in Hr; lra).
  assert (Hc0 : Rabs c <= 1 / 39) by lra. assert (Hc' : -1/39 <= c <= 1/39) by (apply Rabs_le_between in Hc0; lra).
  set (k := 2 * c ^ 10 / (1 - c ^ 2)) in *.
  assert (Hk : 0 <= k <= 1 / 1000000000).
  { unfold k. clear -Hc'. split.
    - apply Rmult_le_pos; [|left; apply Rinv_0_lt_compat; nra].
      replace (c ^ 10) with ((c ^ 5) ^ 2) by ring. nra.
    - interval with (i_prec 60). }
  assert (HP : 2 <= Pr r). { unfold Pr. assert (0 <= r ^ 2) by nra. assert (0 <= r ^ 4) by (replace (r ^ 4) with ((r ^ 2) ^ 2) by ring; nra).
    assert (0 <= r ^ 6) by (replace (r ^ 6) with ((r ^ 3) ^ 2) by ring; nra). assert (0 <= r ^ 8) by (replace (r ^ 8) with ((r ^ 4) ^ 2) by ring; nra). lra. }
  (* Lr r = r * (Pr r + k): same sign as r, at least 2|r| in size *)
  assert (EL : Lr r = r * (Pr r + k)) by (unfold Dr in E; lra).
  replace (r * Pr r - Lr r) with (- (k * r)) by lra.
  rewrite Rabs_Ropp, EL, !Rabs_mult.
  rewrite (Rabs_pos_eq k) by lra. rewrite (Rabs_pos_eq (Pr r + k)) by lra.
  assert (0 <= Rabs r) by apply Rabs_pos. nra.
Qed.

(* the Taylor kernel versus the divided difference of ln, for |l1 - l2| <= 0.05 min(l1, l2) *)
Lemma ad_taylor_accuracy l1 l2 : 0 < l1 -> 0 < l2 -> l1 <> l2 -> Rabs (l1 - l2) <= 5 / 100 * Rmin l1 l2 ->
  Rabs (@ad_rel_log_taylor R NumR l1 l2 - (ln l1 - ln l2) / (l1 - l2))
  <= 1 / 1000000000 * Rabs ((ln l1 - ln l2) / (l1 - l2)).
Proof.
  intros H1 H2 Hne Hd.
  set (r := (l1 - l2) / (l1 + l2)).
  assert (Hs : 0 < l1 + l2) by lra.
  assert (Hr : Rabs r <= 1 / 39).
  { unfold r. unfold Rdiv. rewrite Rabs_mult, (Rabs_pos_eq (/ (l1 + l2))) by (left; apply Rinv_0_lt_compat; lra).
    apply Rmult_le_reg_r with (l1 + l2); [lra|]. rewrite Rmult_assoc, Rinv_l, Rmult_1_r by lra.
    unfold Rmin in Hd. destruct (Rle_dec l1 l2); nra. }
  assert (Hrne : r <> 0). { unfold r. intros Hz. apply Hne. apply Rmult_integral in Hz. destruct Hz as [Hz|Hz]; [lra|].
    exfalso. apply (Rinv_neq_0_compat (l1 + l2)); lra. }
  assert (Hr' : -1/39 <= r <= 1/39) by (apply Rabs_le_between in Hr; lra).
  assert (EK : @ad_rel_log_taylor R NumR l1 l2 = r * Pr r / (r * (l1 + l2))).
  { adnum. fold r. unfold Pr. field. split; lra. }
  assert (ED : (ln l1 - ln l2) / (l1 - l2) = Lr r / (r * (l1 + l2))).
  { unfold Lr. replace ((1 + r) / (1 - r)) with (l1 * / l2) by (unfold r; field; split; lra).
    rewrite ln_mult, ln_Rinv by (try apply Rinv_0_lt_compat; lra).
    replace (r * (l1 + l2)) with (l1 - l2) by (unfold r; field; lra). reflexivity. }
  rewrite EK, ED.
  replace (r * Pr r / (r * (l1 + l2)) - Lr r / (r * (l1 + l2))) with ((r * Pr r - Lr r) * / (r * (l1 + l2))) by (field; split; lra).
  unfold Rdiv at 2. rewrite !Rabs_mult.
  pose proof (Lr_taylor r Hr) as HT.
  assert (0 <= Rabs (/ (r * (l1 + l2)))) by apply Rabs_pos. nra.
Qed.

(* the branching kernel ad_rel_log (= TensorMath._relative_log_difference): exact on the large-difference branch, within 1e-9
   relative on the Taylor branch *)
Lemma ad_rel_log_accuracy l1 l2 : 0 < l1 -> 0 < l2 -> l1 <> l2 ->
  Rabs (@ad_rel_log R NumR l1 l2 - (ln l1 - ln l2) / (l1 - l2)) <= 1 / 1000000000 * Rabs ((ln l1 - ln l2) / (l1 - l2)).
Proof.
  intros H1 H2 Hne. unfold ad_rel_log. unfold_num. q2r. rcases.
  - change (@ad_rel_log_plain R NumR l1 l2) with (@ad_rel_log_plain R NumR l1 l2). rewrite ad_plain_exact by assumption.
    replace ((ln l1 - ln l2) / (l1 - l2) - (ln l1 - ln l2) / (l1 - l2)) with 0 by ring. rewrite Rabs_R0.
    assert (0 <= Rabs ((ln l1 - ln l2) / (l1 - l2))) by apply Rabs_pos. lra.
  - apply ad_taylor_accuracy; try assumption.
    unfold Rmin. revert Hc. unfold nmin, Rmin. unfold_num. rcases; intros; destruct (Rle_dec l1 l2); lra.
Qed.

(* --- the kernels actually wired into log_symm / pow_symm: the REGENERATED kernels _log_relative_difference / _pow_relative_difference
   of OV.gen.Gen_TensorMathFun (argsort by magnitude, log1p, the nearOne / xIsZero selects of the expm1(m log1p x)/x form); the
   proofs are those of C12 (proofs/L_C12_RD.v), restated --- *)
Lemma log_rd_exact l1 l2 : 0 < l1 -> 0 < l2 -> l1 <> l2 -> @_log_relative_difference R NumR l1 l2 = (ln l1 - ln l2) / (l1 - l2).
Proof. exact (L_C12_RD.log_relative_difference_argsort_exact l1 l2). Qed.

(* x ** m for x > 0 is exp (m ln x) (= Rpower x m) *)
Lemma pow_rd_exact l1 l2 m : 0 < l1 -> 0 < l2 -> l1 <> l2 ->
  @_pow_relative_difference R NumR l1 l2 m = (Rpower l1 m - Rpower l2 m) / (l1 - l2).
Proof. exact (L_C12_RD.pow_relative_difference_argsort_exact l1 l2 m). Qed.
(* coinciding arguments (the xIsZero select of the kernel): the derivative m x^(m-1) *)
Lemma pow_rd_confluent l m : 0 < l -> @_pow_relative_difference R NumR l l m = m * Rpower l (m - 1).
Proof. exact (L_C12_RD.pow_relative_difference_argsort_confluent l m). Qed.

(* --- the x2 == x1 guard of the helper --- *)
Lemma rd_guard_equal (df : R -> R) rel x : @rd_guard R NumR df rel x x = df x.
Proof. adnum. rcases; [reflexivity|lra]. Qed.
Lemma rd_guard_distinct (df : R -> R) rel x1 x2 : x1 <> x2 -> @rd_guard R NumR df rel x1 x2 = rel x1 x2.
Proof. intros H. adnum. rcases; [lra|reflexivity]. Qed.

(* with a relative difference that is the divided difference of f off the diagonal, the guarded entry is the first divided
   difference f[x1, x2] in the sense of Daleckii-Krein: (f x1 - f x2)/(x1 - x2), and f'(x1) when the arguments coincide *)
Lemma rd_guard_divided_difference (f df : R -> R) rel x1 x2 :
  (forall a b, a <> b -> rel a b = (f a - f b) / (a - b)) ->
  @rd_guard R NumR df rel x1 x2 = if Req_EM_T x1 x2 then df x1 else (f x1 - f x2) / (x1 - x2).
Proof.
  intros Hrel. destruct (Req_EM_T x1 x2) as [->|Hne]; [apply rd_guard_equal|].
  rewrite rd_guard_distinct by assumption. apply Hrel; assumption.
Qed.

(* --- the helper on a diagonal argument (V = identity): entrywise product of the divided-difference matrix with sym(Cdot) --- *)
Lemma helper_diagonal (df : R -> R) rel lam (E : nat -> nat -> R) i j : (i < 3)%nat -> (j < 3)%nat ->
  @jvp_helper R NumR df rel lam mid E i j = @h_matrix R NumR df rel lam i j * ((E i j + E j i) / 2).
Proof.
  intros Hi Hj.
  destruct i as [|[|[|i]]]; try lia; destruct j as [|[|[|j]]]; try lia;
    unfold jvp_helper, msym, mmul, mtr, mid, sum3, h_matrix; cbn [Nat.eqb];
    cbv beta iota zeta delta [nunit nzero nhalf nZ]; unfold_num; q2r; field.
Qed.

(* non-vacuity of the hypotheses used above *)
Lemma c10_nonvacuous :
  (0 < 1 /\ 0 < 102 / 100 /\ 1 <> 102 / 100 /\ Rabs (1 - 102 / 100) <= 5 / 100 * Rmin 1 (102 / 100))
  /\ (exists (phi : R -> R -> R) (y : R -> R) x0 a b dy,
        filterdiff (fun xy : R * R => phi (fst xy) (snd xy)) (locally (x0, y x0)) (fun h => a * fst h + b * snd h)
        /\ is_derive y x0 dy /\ b = 0 /\ dy <> 0).
Proof.
  split.
  - repeat split; try lra. unfold Rmin. destruct (Rle_dec 1 (102 / 100)); unfold Rabs; destruct (Rcase_abs (1 - 102 / 100)); lra.
  - (* phi(x, y) = x + (y - x)^2 is stationary in y along y(x) = x, which moves with x *)
    exists (fun x y => x + (y - x) * (y - x)), (fun x => x), 0, 1, 0, 1.
    split; [|split; [|split; [reflexivity|lra]]].
    + apply filterdiff_ext_lin with (fun h : R * R => fst h + ((snd h - fst h) * (0 - 0) + (0 - 0) * (snd h - fst h))).
      * apply (filterdiff_plus_fct (F := locally (0, 0)) (fun xy : R * R => fst xy) (fun xy : R * R => (snd xy - fst xy) * (snd xy - fst xy))).
        -- apply filterdiff_linear. apply is_linear_fst.
        -- apply (filterdiff_mult_fct (fun xy : R * R => snd xy - fst xy) (fun xy : R * R => snd xy - fst xy) (0, 0)
                    (fun h : R * R => snd h - fst h) (fun h : R * R => snd h - fst h)).
           ++ apply Rmult_comm.
           ++ apply (filterdiff_minus_fct (F := locally (0, 0)) (fun xy : R * R => snd xy) (fun xy : R * R => fst xy));
                apply filterdiff_linear; [apply is_linear_snd|apply is_linear_fst].
           ++ apply (filterdiff_minus_fct (F := locally (0, 0)) (fun xy : R * R => snd xy) (fun xy : R * R => fst xy));
                apply filterdiff_linear; [apply is_linear_snd|apply is_linear_fst].
      * intros [h1 h2]. simpl. unfold plus, mult, minus, opp, scal; simpl. unfold mult; simpl. ring.
    + apply (is_derive_id (K := R_AbsRing)).
Qed.
