(* C09, finite-deformation kinematics, COMMITTING THE STATE (rate-independent laws): with the spectral log_sqrt_symm / exp_symm over
   eigen-solvers that meet their contract on symmetric matrices, at the same displacement gradient the committed state
   (eqps + d, exp_symm(d N) Fp) gives the trial strain Ee_trial - d N (coaxial update, from L_C11t.coax_core: spectral functions do not
   depend on the decomposition, exp(A) exp(-A) = I, log_sqrt(exp(-D) C exp(-D)) = log_sqrt(C) - D for D a multiple of dev log_sqrt C),
   hence yield consistency in tensor terms, tensor-level idempotence and the same energy density before / after committing. *)
From Coq Require Import Reals Lra Lia ZArith QArith Bool List Psatz.
From Coquelicot Require Import Coquelicot.
From OV.base Require Import Num.
From OV.gen Require Import Gen_ScalarRootFind Gen_Hardening Gen_TensorMath Gen_J2Flow Gen_J2Elastic Gen_J2Finite.
From OV.gen Require Import Gen_HyperViscoelastic Gen_MultiBranchHyperViscoelastic Gen_ViscoState.
From OV.model Require Import M_C17 M_C09 M_C09T M_C08 M_C11 M_C11s M_C09F.
From OV.proofs Require Import L_C17 L_C09 L_C09r L_C09T L_C08 L_C11a L_C11 L_C11s L_C11t L_C11e L_C11u L_C09F.
Import ListNotations.
Local Open Scope R_scope.

(* ---------- generic core (any kinematics): if the committed state reproduces the trial strain Etr - d N, the rest follows ---------- *)
Lemma commit_core (l : @law R) mu dt dt' (Etr Etr' : @m9 R) (eo d : R) :
  0 < mu -> law_admissible l 0 -> 0 < law_Y0 l -> 0 <= eo ->
  nondegenerate Etr -> nondegenerate Etr' ->
  @delta_eqps R NumR l NoRate mu (trial_mises mu Etr) eo dt = Some d ->
  Etr' = axpy9 d (flowdir Etr) Etr ->
  trial_mises mu Etr' - @h_flow R NumR l (eo + d) <= @tolY R NumR l /\
  @state_increment R NumR l NoRate mu dt' Etr' (eo + d) = Some (0, smul9 0 (flowdir Etr)).
Proof.
  intros Hmu Ha0 HY0 He0 Hg Hg' Hd HE'.
  set (N := flowdir Etr) in *. set (s := trial_mises mu Etr) in *.
  assert (Ha : law_admissible l eo) by (apply (admissible_later l 0); assumption).
  destruct (delta_eqps_norate_spec l mu s eo dt d Hmu Ha Hd) as (Hd0 & Hyc & Hyc2 & Hid).
  assert (Hpos : 0 < s - 3 * mu * d).
  { destruct Hd0 as [Hdp| <-].
    - pose proof (Hyc2 Hdp) as A. apply Rabs_le_between in A.
      pose proof (admissible_flow_lower l (eo + d) Ha0 ltac:(lra)). pose proof (tolY_small l HY0). lra.
    - rewrite Rmult_0_r, Rminus_0_r. unfold s. rewrite (trial_mises_of mu Etr Hg).
      assert (0 < sqrt (3 / 2)) by (apply sqrt_lt_R0; lra).
      assert (0 < sqrt (ddot (dev9 Etr) (dev9 Etr))) by (apply sqrt_lt_R0; unfold nondegenerate in Hg; lra).
      repeat apply Rmult_lt_0_compat; lra. }
  rewrite HE' in Hg'.
  destruct (commit_direction mu d Etr Hmu Hg Hg' Hpos) as (HN' & Hs'). fold N in HN', Hs'. fold s in Hs'.
  split; [rewrite HE', Hs'; exact Hyc|].
  unfold state_increment. rewrite HE', HN', Hs'.
  assert (Hid' : @delta_eqps R NumR l NoRate mu (s - 3 * mu * d) (eo + d) dt' = Some 0) by exact Hid.
  rewrite Hid'. reflexivity.
Qed.

(* ---------- algebra in the matrix records ---------- *)
Lemma tinv_minv (A : M) : mdet A <> 0 -> tinv A = minv A.
Proof.
  destruct A as [a b c d e f g h i]. unfold tinv. tnum. intros Hd.
  f_equal; field; repeat split; try exact Hd; (intro Hx; apply Hd; (etransitivity; [|exact Hx]); ring).
Qed.
Lemma mdev_sym (A : M) : msym A -> msym (mdev A).
Proof. unfold msym, mdev. dm A. snum. intros E. injection E as E1 E2 E3 E4 E5 E6. subst. f_equal; ring. Qed.
Lemma mdev_shift (A : M) t : mdev (madd (mdevm A) (mscal t mid)) = mdev A.
Proof. unfold mdev, mdevm. dm A. snum. f_equal; field. Qed.
Lemma shift_commit (A : M) c t :
  madd (mdevm (msub A (mscal c (mdev A)))) (mscal t mid) = msub (madd (mdevm A) (mscal t mid)) (mscal c (mdev A)).
Proof. unfold mdev, mdevm. dm A. snum. f_equal; field. Qed.
Lemma mscal_mscal a b (A : M) : mscal a (mscal b A) = mscal (a * b) A.
Proof. dm A. snum. f_equal; ring. Qed.
Lemma mscal_0 (A : M) : mscal 0 A = mzero.
Proof. dm A. snum. f_equal; ring. Qed.
Lemma mtr_mid' : mtr (@mid R NumR) = mid.
Proof. snum. reflexivity. Qed.

(* exp_symm of the zero matrix is the identity, whatever decomposition the solver returns *)
Lemma expm_spec_zero (eigh : M -> E3) : eigh_ok eigh mzero -> expm_spec eigh mzero = mid.
Proof.
  unfold eigh_ok, expm_spec, spectral. destruct (eigh mzero) as [[[w0 w1] w2] V]. intros (H1 & H2 & HA).
  fold (cj V (mdiag w0 w1 w2)) in HA. fold (cj V (mdiag (nexp w0) (nexp w1) (nexp w2))). change (@nexp R NumR) with exp.
  assert (I1 : mmul (mtr mid) mid = @mid R NumR) by (rewrite mtr_mid', mmul_id_l; reflexivity).
  assert (I2 : mmul mid (mtr mid) = @mid R NumR) by (rewrite mtr_mid', mmul_id_l; reflexivity).
  rewrite (spectral_unique V mid w0 w1 w2 0 0 0 exp H1 H2 I1 I2).
  - unfold cj. rewrite mtr_mid', mmul_id_l, mmul_id_r, exp_0. apply mdiag_id.
  - rewrite HA. unfold cj. rewrite mtr_mid', mmul_id_l, mmul_id_r. snum. reflexivity.
Qed.
Lemma mzero_sym : msym (@mzero R NumR).
Proof. unfold msym. snum. reflexivity. Qed.

(* ---------- the trial strain in matrix form ---------- *)
Lemma strain_log_M (g : M -> M) (H : @m9 R) eo (Fp : @m9 R) :
  of9 (strain_log (lift1 g) H (eo, Fp)) = j2_strain_log g eo (of9 Fp) (of9 H).
Proof. d9 H. d9 Fp. reflexivity. Qed.

Lemma strain_log_form (g : M -> M) (H : @m9 R) eo (Fp : @m9 R) : mdet (of9 Fp) <> 0 ->
  of9 (strain_log (lift1 g) H (eo, Fp)) = log_strain_of g (Ce_of (of9 H) (of9 Fp)) (JJ (of9 H)).
Proof. intros Hd. rewrite strain_log_M, (j2_strain_log_bridge g eo _ _ Hd), (tinv_minv _ Hd). reflexivity. Qed.

Lemma flowdir_M (E : @m9 R) : nondegenerate E ->
  of9 (flowdir E) = mscal (sqrt (3 / 2) / sqrt (ddot (dev9 E) (dev9 E))) (mdev (of9 E)).
Proof. intros Hg. rewrite (flowdir_of E Hg), smul9_M, dev9_M. reflexivity. Qed.

Section Commit.
  Variables eighL eighE : M -> E3.
  Hypothesis HL : solver_ok eighL.
  Hypothesis HE : solver_ok eighE.
  Let lss := @fin_lss R NumR eighL.
  Let expm := @fin_expm R NumR eighE.

  (* the coaxial update at tensor level: trial strain recomputed from the committed state = trial strain - d N *)
  Lemma strain_log_commit (H : @m9 R) (eo eo' d : R) (Fp : @m9 R) :
    mdet (defgrad (of9 H)) <> 0 -> mdet (of9 Fp) <> 0 -> nondegenerate (strain_log lss H (eo, Fp)) ->
    strain_log lss H (eo', mul9 (app9 expm (smul9 d (flowdir (strain_log lss H (eo, Fp))))) Fp)
    = axpy9 d (flowdir (strain_log lss H (eo, Fp))) (strain_log lss H (eo, Fp)).
  Proof.
    intros HF HFp Hg. set (Etr := strain_log lss H (eo, Fp)) in *. set (N := flowdir Etr).
    set (k := sqrt (3 / 2) / sqrt (ddot (dev9 Etr) (dev9 Etr))).
    set (Ce := Ce_of (of9 H) (of9 Fp)). set (Ee := lss_spec eighL Ce). set (t := ln (JJ (of9 H)) / 3).
    assert (EEtr : of9 Etr = madd (mdevm Ee) (mscal t mid)) by (unfold Etr, lss, fin_lss; rewrite (strain_log_form _ _ _ _ HFp); reflexivity).
    assert (EN : of9 N = mscal k (mdev Ee)) by (unfold N; rewrite (flowdir_M Etr Hg), EEtr, mdev_shift; reflexivity).
    set (dE := mscal (d * k) (mdev Ee)).
    assert (EdE : of9 (smul9 d N) = dE) by (rewrite smul9_M, EN, mscal_mscal; reflexivity).
    assert (HsE : msym Ee) by apply lss_spec_sym.
    assert (HsdE : msym dE) by (apply mscal_sym, mdev_sym, HsE).
    set (X := expm_spec eighE dE).
    assert (EFp' : of9 (mul9 (app9 expm (smul9 d N)) Fp) = mmul X (of9 Fp)).
    { rewrite mul9_M. unfold expm, fin_expm. rewrite app9_lift1, of9_to9, EdE. reflexivity. }
    assert (HdX : mdet X = 1).
    { unfold X. rewrite (expm_spec_det eighE dE (HE dE HsdE)). unfold dE.
      replace (mtrace (mscal (d * k) (mdev Ee))) with 0; [apply exp_0|]. unfold mdev. destruct Ee. snum. field. }
    assert (HFp' : mdet (of9 (mul9 (app9 expm (smul9 d N)) Fp)) <> 0) by (rewrite EFp', mdet_mmul, HdX; lra).
    apply of9_inj. unfold lss, fin_lss. rewrite (strain_log_form _ _ _ _ HFp'). fold lss.
    rewrite axpy9_sub9, sub9_M, EEtr, EdE, EFp'.
    assert (Hc : lss_spec eighL (Ce_of (of9 H) (mmul X (of9 Fp))) = msub Ee dE).
    { unfold Ce_of, Fe_of.
      apply (coax_core eighL eighE (defgrad (of9 H)) (of9 Fp) (d * k) HF HFp).
      - apply HL, Ce_sym.
      - apply HE. exact HsdE.
      - apply HL. apply (Ce_sym (of9 H) (mmul (expm_spec eighE (mscal (d * k) (mdev (lss_spec eighL (Ce_of (of9 H) (of9 Fp)))))) (of9 Fp))). }
    unfold log_strain_of. rewrite Hc. fold t. unfold dE. apply shift_commit.
  Qed.

  (* after committing (rate-independent laws, deviators above the code's flow-direction threshold, invertible F and Fp):
     (i) the elastic trial strain is the elastic strain the update produced, (ii) the stress is on or inside the yield surface in
     tensor terms, (iii) the update changes nothing -- eqps AND the plastic distortion (exp_symm(0) = I), (iv) same energy density *)
  Theorem commit_invariance_fin (l : @law R) mu kappa dt dt' H (st st' : @tstate R) :
    0 < mu -> law_admissible l 0 -> 0 < law_Y0 l -> 0 <= fst st ->
    det9 (add9 H id9) <> 0 -> det9 (snd st) <> 0 ->
    nondegenerate (strain_log lss H st) -> nondegenerate (strain_log lss H st') ->
    @state_new_fin R NumR lss expm l NoRate mu dt H st = Some st' ->
    strain_log lss H st' = sub9 (strain_log lss H st) (smul9 (fst st' - fst st) (flowdir (strain_log lss H st))) /\
    trial_mises mu (strain_log lss H st') - @h_flow R NumR l (fst st') <= @tolY R NumR l /\
    @state_new_fin R NumR lss expm l NoRate mu dt' H st' = Some st' /\
    @energy_fin R NumR lss l NoRate mu kappa dt' H st' = @energy_fin R NumR lss l NoRate mu kappa dt H st /\
    det9 (snd st') = det9 (snd st).
  Proof.
    intros Hmu Ha0 HY0 He0 HF HFp Hg Hg' E.
    destruct (state_new_fin_spec lss expm l NoRate mu dt H st st' E) as (d & Hd & ->). destruct st as [eo Fp]. cbn [fst snd] in *.
    set (Etr := strain_log lss H (eo, Fp)) in *. set (N := flowdir Etr) in *.
    assert (HFM : mdet (defgrad (of9 H)) <> 0).
    { rewrite det9_M, add9_M in HF. replace (of9 (@id9 R NumR)) with (@mid R NumR) in HF by reflexivity. exact HF. }
    assert (HFpM : mdet (of9 Fp) <> 0) by (rewrite <- det9_M; exact HFp).
    assert (HE' : strain_log lss H (eo + d, mul9 (app9 expm (smul9 d N)) Fp) = axpy9 d N Etr) by (apply strain_log_commit; assumption).
    rewrite HE' in Hg'.
    assert (Hg'' : nondegenerate (axpy9 d N Etr)) by exact Hg'.
    destruct (commit_core l mu dt dt' Etr (axpy9 d N Etr) eo d Hmu Ha0 HY0 He0 Hg Hg'' Hd eq_refl) as (Hyc & Hinc). fold N in Hinc.
    replace (eo + d - eo) with d by ring.
    split; [rewrite HE'; apply axpy9_sub9|].
    split; [rewrite HE'; exact Hyc|].
    assert (Hz : app9 expm (smul9 0 N) = id9).
    { apply of9_inj. unfold expm, fin_expm. rewrite app9_lift1, of9_to9, smul9_M, mscal_0.
      rewrite (expm_spec_zero eighE (HE mzero mzero_sym)). reflexivity. }
    assert (Hid9 : forall A : @m9 R, mul9 id9 A = A).
    { intros A. apply of9_inj. rewrite mul9_M. replace (of9 (@id9 R NumR)) with (@mid R NumR) by reflexivity. apply mmul_id_l. }
    split; [|split].
    - unfold state_new_fin. cbn [fst]. rewrite HE', Hinc, tail_fin_R, Hz, Hid9. f_equal. f_equal. ring.
    - unfold energy_fin, energy_add. cbn [fst snd]. rewrite HE', Hinc. fold Etr.
      unfold state_increment. fold N. rewrite Hd.
      rewrite sub9_zero, <- axpy9_sub9. unfold_num.
      replace (eo + d + 0) with (eo + d) by ring. reflexivity.
    - rewrite det9_mul, (fin_expm_jacobi eighE HE) by (apply smul9_sym, flowdir_sym, strain_log_sym, fin_lss_sym).
      rewrite tr9_smul9. destruct (flow_direction_props Etr) as (Ht & _). fold N in Ht. rewrite Ht, Rmult_0_r, exp_0. apply Rmult_1_l.
  Qed.
End Commit.

(* with the solver of L_C11e.v nothing about the matrix functions is assumed *)
Theorem commit_invariance_fin_unconditional (l : @law R) mu kappa dt dt' H (st st' : @tstate R) :
  let lss := @fin_lss R NumR eigh_sym in let expm := @fin_expm R NumR eigh_sym in
  0 < mu -> law_admissible l 0 -> 0 < law_Y0 l -> 0 <= fst st ->
  det9 (add9 H id9) <> 0 -> det9 (snd st) <> 0 ->
  nondegenerate (strain_log lss H st) -> nondegenerate (strain_log lss H st') ->
  @state_new_fin R NumR lss expm l NoRate mu dt H st = Some st' ->
  strain_log lss H st' = sub9 (strain_log lss H st) (smul9 (fst st' - fst st) (flowdir (strain_log lss H st))) /\
  trial_mises mu (strain_log lss H st') - @h_flow R NumR l (fst st') <= @tolY R NumR l /\
  @state_new_fin R NumR lss expm l NoRate mu dt' H st' = Some st' /\
  @energy_fin R NumR lss l NoRate mu kappa dt' H st' = @energy_fin R NumR lss l NoRate mu kappa dt H st /\
  det9 (snd st') = det9 (snd st).
Proof. intros lss expm. exact (commit_invariance_fin eigh_sym eigh_sym eigh_sym_solver_ok eigh_sym_solver_ok l mu kappa dt dt' H st st'). Qed.
