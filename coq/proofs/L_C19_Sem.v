(* C19: soundness of the static order checker of model/M_C19_Sem.v, for EVERY value of the driver IR:
   if sa_ok e l = true then every execution of l -- any outcome of every condition, ANY number of passes through every loop --
   ends in a return or a raise and its trace satisfies path_ok e (objective.p := p_new exactly once, before every solver call and
   after every warm start, nothing else stores to .p, the returned point and flag are the solver's).  The four regenerated driver
   trees pass the checker by computation. *)
From Coq Require Import List Bool Arith Lia String.
From OV.model Require Import M_C19_CFG M_C19_Sem.
Import ListNotations.

Scheme exec_mind := Minimality for exec Sort Prop
  with execs_mind := Minimality for execs Sort Prop.
Combined Scheme exec_execs_ind from exec_mind, execs_mind.

(* ---- sets *)
Lemma mem_of_pred f q : mem (of_pred f) q = f q.
Proof. destruct q as [|[] []]; reflexivity. Qed.
Lemma aset_eqb_eq S T : aset_eqb S T = true -> S = T.
Proof.
  destruct S, T. unfold aset_eqb. cbn. intros H. repeat (apply andb_prop in H; destruct H as [H ?]).
  repeat match goal with E : Bool.eqb _ _ = true |- _ => apply eqb_prop in E end. subst. reflexivity.
Qed.
Lemma mem_union S T q : mem (union S T) q = mem S q || mem T q.
Proof. unfold union. apply mem_of_pred. Qed.
Lemma mem_empty q : mem empty q = false.
Proof. unfold empty. apply mem_of_pred. Qed.
Lemma in_all_ast q : In q all_ast.
Proof. destruct q as [|[] []]; simpl; tauto. Qed.
Lemma ast_eqb_refl q : ast_eqb q q = true.
Proof. destruct q as [|[] []]; reflexivity. Qed.
Lemma mem_single q : mem (single q) q = true.
Proof. unfold single. rewrite mem_of_pred. apply ast_eqb_refl. Qed.
Lemma all_in_spec S p q : all_in S p = true -> mem S q = true -> p q = true.
Proof.
  unfold all_in. rewrite forallb_forall. intros H Hm. specialize (H q (in_all_ast q)). rewrite Hm in H. exact H.
Qed.
Lemma img_spec t S q q' : mem S q = true -> step t q = Some q' -> mem (img t S) q' = true.
Proof.
  intros Hm Hs. unfold img. rewrite mem_of_pred. apply existsb_exists. exists q. split; [apply in_all_ast|].
  rewrite Hm, Hs. apply ast_eqb_refl.
Qed.
Lemma iter_fix k F I : F I = I -> iter k F I = I.
Proof. intros E. induction k as [|k IH]; [reflexivity|]. cbn [iter]. rewrite E. exact IH. Qed.
Lemma iter_sup k F : (forall I q, mem I q = true -> mem (F I) q = true) -> forall S q, mem S q = true -> mem (iter k F S) q = true.
Proof. intros HF. induction k as [|k IH]; intros S q Hm; [exact Hm|]. cbn [iter]. apply IH, HF, Hm. Qed.

Lemma run_app ts1 ts2 q : run (ts1 ++ ts2) q = match run ts1 q with Some q1 => run ts2 q1 | None => None end.
Proof. revert q; induction ts1 as [|t r IH]; intros q; cbn [run app]; [reflexivity|]. destruct (step t q); [apply IH|reflexivity]. Qed.

(* ---- what an analysis result promises about the automaton state at the end of an execution *)
Definition post (e : expect) (r : ares) (o : outc) (q' : ast) : Prop :=
  match o with
  | ONormal => mem (nrm r) q' = true
  | OBreak => mem (brk r) q' = true
  | ORet x u f => end_ok e q' (EndRet x u f) = true
  | ORaise => end_ok e q' EndRaise = true
  end.
Lemma post_mono e r1 r2 o q' :
  (forall q, mem (nrm r1) q = true -> mem (nrm r2) q = true) -> (forall q, mem (brk r1) q = true -> mem (brk r2) q = true) ->
  post e r1 o q' -> post e r2 o q'.
Proof. intros Hn Hb. destruct o; cbn [post]; auto. Qed.

Lemma sa_loop_unfold f e body S :
  sa (Datatypes.S f) e (Loop body) S =
  let F := fun I => union I (nrm (sas f e body I)) in
  let I := iter 6 F S in
  let rb := sas f e body I in
  {| nrm := union I (brk rb); brk := empty; ok := ok rb && aset_eqb (F I) I |}.
Proof. reflexivity. Qed.

Definition Pexec (s : stmt) (ts : list tag) (o : outc) : Prop :=
  forall fuel e S q, ok (sa fuel e s S) = true -> mem S q = true -> exists q', run ts q = Some q' /\ post e (sa fuel e s S) o q'.
Definition Pexecs (l : list stmt) (ts : list tag) (o : outc) : Prop :=
  forall fuel e S q, ok (sas fuel e l S) = true -> mem S q = true -> exists q', run ts q = Some q' /\ post e (sas fuel e l S) o q'.

Lemma loop_facts f e body S : ok (sa (Datatypes.S f) e (Loop body) S) = true ->
  let F := fun I => union I (nrm (sas f e body I)) in
  let I := iter 6 F S in
  ok (sas f e body I) = true /\ F I = I /\ (forall q, mem S q = true -> mem I q = true)
  /\ sa (Datatypes.S f) e (Loop body) I = sa (Datatypes.S f) e (Loop body) S.
Proof.
  rewrite sa_loop_unfold. cbv zeta. cbn [ok]. intros H. apply andb_prop in H. destruct H as (H1 & H2).
  apply aset_eqb_eq in H2. split; [exact H1|]. split; [exact H2|]. split.
  - intros q Hq. apply iter_sup; [|exact Hq]. intros I q0 Hm. rewrite mem_union, Hm. reflexivity.
  - rewrite !sa_loop_unfold. cbv zeta. rewrite (iter_fix 6 (fun I => union I (nrm (sas f e body I))) _ H2). reflexivity.
Qed.

Theorem sa_sound_exec : (forall s ts o, exec s ts o -> Pexec s ts o) /\ (forall l ts o, execs l ts o -> Pexecs l ts o).
Proof.
  apply exec_execs_ind; unfold Pexec, Pexecs.
  - (* Do *) intros t [|f] e S q Hok Hm; [discriminate|]. cbn [sa ok] in *.
    pose proof (all_in_spec _ _ q Hok Hm) as Hs. cbv beta in Hs. destruct (step t q) as [q1|] eqn:E; [|discriminate].
    exists q1. split; [cbn [run]; rewrite E; reflexivity|]. cbn [post nrm]. eapply img_spec; eassumption.
  - (* If, first branch *) intros c a b ts o _ IH [|f] e S q Hok Hm; [discriminate|]. cbn [sa ok] in *.
    apply andb_prop in Hok. destruct Hok as (Ha & Hb). destruct (IH f e S q Ha Hm) as (q' & Hr & Hp).
    exists q'. split; [exact Hr|]. eapply post_mono; [| |exact Hp]; cbn [nrm brk]; intros q0 H0; rewrite mem_union, H0; reflexivity.
  - (* If, second branch *) intros c a b ts o _ IH [|f] e S q Hok Hm; [discriminate|]. cbn [sa ok] in *.
    apply andb_prop in Hok. destruct Hok as (Ha & Hb). destruct (IH f e S q Hb Hm) as (q' & Hr & Hp).
    exists q'. split; [exact Hr|]. eapply post_mono; [| |exact Hp]; cbn [nrm brk]; intros q0 H0; rewrite mem_union, H0; apply orb_true_r.
  - (* loop: no further pass *) intros body [|f] e S q Hok Hm; [discriminate|].
    destruct (loop_facts f e body S Hok) as (_ & _ & Hsup & _).
    exists q. split; [reflexivity|]. rewrite sa_loop_unfold. cbv zeta. cbn [post nrm]. rewrite mem_union, (Hsup q Hm). reflexivity.
  - (* loop: one complete pass, then the rest *) intros body ts1 ts2 o _ IH1 _ IH2 [|f] e S q Hok Hm; [discriminate|].
    destruct (loop_facts f e body S Hok) as (Hb & HF & Hsup & Hsame). cbv zeta in *.
    set (I := iter 6 (fun I => union I (nrm (sas f e body I))) S) in *.
    destruct (IH1 f e I q Hb (Hsup q Hm)) as (q1 & Hr1 & Hp1). cbn [post] in Hp1.
    assert (Hq1 : mem I q1 = true) by (rewrite <- HF; rewrite mem_union, Hp1; apply orb_true_r).
    assert (Hok' : ok (sa (Datatypes.S f) e (Loop body) I) = true) by (rewrite Hsame; exact Hok).
    destruct (IH2 (Datatypes.S f) e I q1 Hok' Hq1) as (q' & Hr2 & Hp2).
    exists q'. split; [rewrite run_app, Hr1; exact Hr2|]. rewrite <- Hsame. exact Hp2.
  - (* loop: break *) intros body ts _ IH [|f] e S q Hok Hm; [discriminate|].
    destruct (loop_facts f e body S Hok) as (Hb & HF & Hsup & _). cbv zeta in *.
    destruct (IH f e _ q Hb (Hsup q Hm)) as (q' & Hr & Hp). cbn [post] in Hp.
    exists q'. split; [exact Hr|]. rewrite sa_loop_unfold. cbv zeta. cbn [post nrm]. rewrite mem_union, Hp. apply orb_true_r.
  - (* loop: return inside *) intros body ts x u fl _ IH [|f] e S q Hok Hm; [discriminate|].
    destruct (loop_facts f e body S Hok) as (Hb & HF & Hsup & _). cbv zeta in *.
    destruct (IH f e _ q Hb (Hsup q Hm)) as (q' & Hr & Hp). exists q'. split; [exact Hr|exact Hp].
  - (* loop: raise inside *) intros body ts _ IH [|f] e S q Hok Hm; [discriminate|].
    destruct (loop_facts f e body S Hok) as (Hb & HF & Hsup & _). cbv zeta in *.
    destruct (IH f e _ q Hb (Hsup q Hm)) as (q' & Hr & Hp). exists q'. split; [exact Hr|exact Hp].
  - (* return *) intros x u fl [|f] e S q Hok Hm; [discriminate|]. cbn [sa ok] in *.
    exists q. split; [reflexivity|]. cbn [post]. exact (all_in_spec _ _ q Hok Hm).
  - (* raise *) intros [|f] e S q Hok Hm; [discriminate|]. cbn [sa ok] in *.
    exists q. split; [reflexivity|]. cbn [post]. exact (all_in_spec _ _ q Hok Hm).
  - (* break *) intros [|f] e S q Hok Hm; [discriminate|]. exists q. split; [reflexivity|]. cbn [sa post brk]. exact Hm.
  - (* [] *) intros [|f] e S q Hok Hm; [discriminate|]. exists q. split; [reflexivity|]. cbn [sas post nrm]. exact Hm.
  - (* s ; rest *) intros s r ts1 ts2 o _ IH1 _ IH2 [|f] e S q Hok Hm; [discriminate|]. cbn [sas ok] in *.
    apply andb_prop in Hok. destruct Hok as (H1 & H2).
    destruct (IH1 f e S q H1 Hm) as (q1 & Hr1 & Hp1). cbn [post] in Hp1.
    destruct (IH2 f e _ q1 H2 Hp1) as (q' & Hr2 & Hp2).
    exists q'. split; [rewrite run_app, Hr1; exact Hr2|].
    eapply post_mono; [| |exact Hp2]; cbn [nrm brk]; intros q0 H0; [exact H0|rewrite mem_union, H0; apply orb_true_r].
  - (* s leaves the block *) intros s r ts o _ IH Hne [|f] e S q Hok Hm; [discriminate|]. cbn [sas ok] in *.
    apply andb_prop in Hok. destruct Hok as (H1 & H2).
    destruct (IH f e S q H1 Hm) as (q' & Hr & Hp). exists q'. split; [exact Hr|].
    destruct o; cbn [post nrm brk] in *; [contradiction| |exact Hp|exact Hp]. rewrite mem_union, Hp. reflexivity.
Qed.

(* ---- the automaton recognises path_ok *)
Lemma count_cons p t r : count p (t :: r) = ((if p t then 1 else 0) + count p r)%nat.
Proof. unfold count. cbn [filter]. destruct (p t); reflexivity. Qed.

Lemma run_assigned ts : forall s sf q', run ts (QA s sf) = Some q' ->
  count is_assignp ts = 0%nat /\ existsb is_bad ts = false /\ existsb is_ws ts = false
  /\ q' = QA (s || existsb is_solve ts) (sf || existsb is_flagsolve ts).
Proof.
  induction ts as [|t r IH]; intros s sf q' H.
  - cbn in H. inversion H. cbn. rewrite !orb_false_r. repeat split; reflexivity.
  - cbn [run] in H. rewrite count_cons. cbn [existsb].
    destruct t as [| | | |fl nested| | |]; cbn [step] in H; try discriminate.
    all: try (destruct nested; [discriminate|]).
    all: apply IH in H; destruct H as (H1 & H2 & H3 & H4); cbn [is_assignp is_bad is_ws is_solve is_flagsolve].
    all: rewrite H1, H2, H3, H4; repeat split; try reflexivity.
    all: destruct s, sf, (existsb is_solve r), (existsb is_flagsolve r); try destruct fl; reflexivity.
Qed.

Lemma run_unassigned ts : forall s sf, run ts QU = Some (QA s sf) ->
  count is_assignp ts = 1%nat /\ existsb is_bad ts = false /\ existsb is_ws (after_first is_assignp ts) = false
  /\ existsb is_solve (before_first is_assignp ts) = false /\ s = existsb is_solve ts /\ sf = existsb is_flagsolve ts.
Proof.
  induction ts as [|t r IH]; intros s sf H; [discriminate|].
  cbn [run] in H. rewrite count_cons. cbn [existsb before_first after_first].
  destruct t as [| | | |fl nested| | |]; cbn [step] in H; try discriminate; try (destruct nested; discriminate).
  - (* WarmStart *) apply IH in H. simpl. tauto.
  - (* AssignPNew *) apply run_assigned in H. destruct H as (H1 & H2 & H3 & H4). simpl in H4. inversion H4.
    simpl. rewrite H1, H2, H3. repeat split; reflexivity.
  - (* UpdatePrecond *) apply IH in H. simpl. tauto.
  - (* Other *) apply IH in H. simpl. tauto.
Qed.

Theorem automaton_path_ok e ts q en : run ts QU = Some q -> end_ok e q en = true -> path_ok e (ts, en) = true.
Proof.
  intros Hr He. destruct q as [|s sf]; [discriminate|].
  destruct (run_unassigned ts s sf Hr) as (H1 & H2 & H3 & H4 & H5 & H6).
  unfold path_ok. rewrite H1, H2, H3, H4. cbn [Nat.eqb negb andb].
  cbn [end_ok] in He. subst s sf. destruct en; try discriminate; exact He.
Qed.

(* ---- the theorem about the checker *)
Theorem sa_sound e l : sa_ok e l = true -> forall ts o, execs l ts o ->
  ((exists x u f, o = ORet x u f) \/ o = ORaise) /\ path_ok e (ts, ending_of o) = true.
Proof.
  unfold sa_ok. intros H ts o Hx. apply andb_prop in H. destruct H as (H & Hb). apply andb_prop in H. destruct H as (Hok & Hn).
  apply aset_eqb_eq in Hb. apply aset_eqb_eq in Hn.
  destruct (proj2 sa_sound_exec l ts o Hx 200 e (single QU) QU Hok (mem_single QU)) as (q' & Hr & Hp).
  destruct o as [| |x u f|]; cbn [post] in Hp.
  - rewrite Hn, mem_empty in Hp. discriminate.
  - rewrite Hb, mem_empty in Hp. discriminate.
  - split; [left; eauto|]. apply (automaton_path_ok e ts q'); assumption.
  - split; [right; reflexivity|]. apply (automaton_path_ok e ts q'); assumption.
Qed.
