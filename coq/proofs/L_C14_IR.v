(* C14: running the syntax trees extracted from /repo (gen/CFG_Dof.v) through the interpreter of model/M_C14_IR.v IS the hand
   model (model/M_C14_Dof.v, M_C14_Asm.v), for all inputs. *)
From Coq Require Import String ZArith List Bool Arith Lia.
From OV.model Require Import M_C14_Dof M_C14_Asm M_C14_IR.
From OV.proofs Require Import L_C14 L_C14_Asm.
From OV.gen Require Import CFG_Dof.
Import ListNotations.
Open Scope string_scope. Open Scope list_scope.

Lemma prodn2 n d : prodn [n; d] = n * d.
Proof. unfold prodn; simpl. lia. Qed.

Section Methods.
  Context {A : Type} (zero : A).
  Variables (nNodes dim : nat) (isBc : list bool) (conns : list (list nat)).
  Hypothesis Hsize : length isBc = nNodes * dim.
  Let obj : @val A := dof_object nNodes dim isBc conns.
  Notation callm := (call zero cfg_dof_methods).

  Lemma ir_get_bc_size F : callm (S F) "get_bc_size" obj [] = Some (VInt (get_bc_size isBc)).
  Proof. reflexivity. Qed.

  Lemma ir_get_unknown_size F : callm (S F) "get_unknown_size" obj [] = Some (VInt (get_unknown_size isBc)).
  Proof. reflexivity. Qed.

  Lemma ir_get_bc_values F sh U : callm (S F) "get_bc_values" obj [VA sh U] = Some (VA [count_true isBc] (get_bc_values isBc U)).
  Proof. reflexivity. Qed.

  Lemma ir_get_unknown_values F sh U :
    callm (S F) "get_unknown_values" obj [VA sh U] = Some (VA [count_true (isUnknown isBc)] (get_unknown_values isBc U)).
  Proof. reflexivity. Qed.

  Lemma ir_create_field F s1 s2 Uu Ubc :
    callm (S F) "create_field" obj [VA s1 Uu; VA s2 Ubc] = Some (VA [nNodes; dim] (create_field isBc zero Uu Ubc)).
  Proof.
    unfold create_field, nDofs. rewrite Hsize, <- prodn2. reflexivity.
  Qed.

  Lemma ir_create_field_scalar F s1 Uu c :
    callm (S F) "create_field" obj [VA s1 Uu; VSc c] = Some (VA [nNodes; dim] (create_field_scalar isBc zero Uu c)).
  Proof.
    unfold create_field_scalar, create_field, nDofs, get_bc_size. rewrite Hsize, <- prodn2. reflexivity.
  Qed.

  (* the default Ubc = 0.0 *)
  Lemma ir_create_field_default F s1 Uu :
    callm (S F) "create_field" obj [VA s1 Uu] = Some (VA [nNodes; dim] (create_field_scalar isBc zero Uu zero)).
  Proof.
    unfold create_field_scalar, create_field, nDofs, get_bc_size. rewrite Hsize, <- prodn2. reflexivity.
  Qed.

  Lemma ir_slice_unknowns F s1 Uu pos :
    callm (S F) "slice_unknowns_with_dof_indices" obj [VA s1 Uu; VPos pos]
    = Some (VA [count_true (map (is_unknown isBc) pos)] (slice_unknowns isBc zero Uu pos)).
  Proof. reflexivity. Qed.
End Methods.

(* ------------------------------------------------------------------ the assembler's extracted body *)
(* dense view of a CSC/COO value: duplicates summed (scipy semantics of coo_matrix(...).tocsc().toarray()) *)
Definition csc_dense (v : @val Z) : option (list (list Z)) :=
  match v with
  | VCsc n m rows cols vals => if Nat.eqb n m then Some (coo_dense n rows cols vals) else None
  | _ => None
  end.

Section Assembler.
  Context {A : Type} (zero : A).
  Variables (nNodes dim : nat) (isBc : list bool) (conns : list (list nat)).

  (* kValues has shape (nEl, npe, dim, npe, dim): only its third extent and its flat row-major data matter *)
  Lemma ir_assemble n0 n1 n3 n4 (kflat : list A) :
    run_function zero cfg_asm_assemble_sparse_stiffness_matrix
                 [VA [n0; n1; dim; n3; n4] kflat; VConns conns; dof_object nNodes dim isBc conns]
    = Some (VCsc (length (unknownIndices isBc)) (length (unknownIndices isBc))
                 (HessRowCoords isBc dim conns) (HessColCoords isBc dim conns)
                 (mask_select (hessian_bc_mask isBc dim conns) kflat)).
  Proof. reflexivity. Qed.
End Assembler.

(* the extracted assembler, run on the model's DofManager object, returns the matrix assembled by hand *)
Lemma ir_assemble_by_hand nNodes dim isBc conns (kvals : list (list Z)) n0 n1 n3 n4 :
  length isBc = nNodes * dim -> valid_conns nNodes conns -> asm_blocks_ok dim conns kvals ->
  match run_function 0%Z cfg_asm_assemble_sparse_stiffness_matrix
                     [VA [n0; n1; dim; n3; n4] (concat kvals); VConns conns; dof_object nNodes dim isBc conns] with
  | Some K => csc_dense K
  | None => None
  end = Some (assemble isBc dim conns kvals).
Proof.
  intros HN HV HB. rewrite ir_assemble. unfold csc_dense. rewrite Nat.eqb_refl. f_equal.
  destruct (assemble_maps_by_hand_full isBc dim nNodes conns kvals HN HV HB) as (E & _). exact E.
Qed.

(* the assembler module keeps no state: nothing is bound at module level except the function and its imports *)
Lemma asm_module_stateless : cfg_asm_module_state = [] /\ cfg_asm_other_functions = [].
Proof. split; reflexivity. Qed.

(* ------------------------------------------------------------------ packaged *)
Lemma ir_methods_full (A : Type) (zero : A) nNodes dim isBc conns F :
  length isBc = nNodes * dim ->
  let obj : @val A := dof_object nNodes dim isBc conns in
  let callm := call zero cfg_dof_methods (S F) in
  callm "get_bc_size" obj [] = Some (VInt (get_bc_size isBc))
  /\ callm "get_unknown_size" obj [] = Some (VInt (get_unknown_size isBc))
  /\ (forall sh U, callm "get_bc_values" obj [VA sh U] = Some (VA [count_true isBc] (get_bc_values isBc U)))
  /\ (forall sh U, callm "get_unknown_values" obj [VA sh U] = Some (VA [count_true (isUnknown isBc)] (get_unknown_values isBc U)))
  /\ (forall s1 s2 Uu Ubc, callm "create_field" obj [VA s1 Uu; VA s2 Ubc] = Some (VA [nNodes; dim] (create_field isBc zero Uu Ubc)))
  /\ (forall s1 Uu c, callm "create_field" obj [VA s1 Uu; VSc c] = Some (VA [nNodes; dim] (create_field_scalar isBc zero Uu c)))
  /\ (forall s1 Uu, callm "create_field" obj [VA s1 Uu] = Some (VA [nNodes; dim] (create_field_scalar isBc zero Uu zero)))
  /\ (forall s1 Uu pos, callm "slice_unknowns_with_dof_indices" obj [VA s1 Uu; VPos pos]
                        = Some (VA [count_true (map (is_unknown isBc) pos)] (slice_unknowns isBc zero Uu pos))).
Proof.
  intros H obj callm. unfold obj, callm.
  split; [apply ir_get_bc_size|]. split; [apply ir_get_unknown_size|].
  split; [intros; apply ir_get_bc_values|]. split; [intros; apply ir_get_unknown_values|].
  split; [intros; apply ir_create_field; assumption|]. split; [intros; apply ir_create_field_scalar; assumption|].
  split; [intros; apply ir_create_field_default; assumption|]. intros; apply ir_slice_unknowns.
Qed.

(* non-vacuity: the extracted constructor, run on the example of L_C14.ex_values, builds the model's object *)
Definition ex_fsp : @val Z :=
  VObj [("mesh", VObj [("num_nodes", VInt 4);
                       ("nodeSets", VDict (fun s => if String.eqb s "a" then [0;2;2] else if String.eqb s "b" then [2;3] else []));
                       ("conns", VConns ex_conns)])].
Definition ex_ebcs : @val Z :=
  VTup [VObj [("nodeSet", VStr "a"); ("component", VInt 0)]; VObj [("nodeSet", VStr "b"); ("component", VInt 0)];
        VObj [("nodeSet", VStr "c"); ("component", VInt 1)]].
Lemma ex_construct :
  option_map (canon_object cfg_dof_fields) (construct 0%Z cfg_dof_methods 2 [ex_fsp; VInt 2; ex_ebcs])
  = Some (canon_object cfg_dof_fields (dof_object 4 2 ex_isBc ex_conns)).
Proof. vm_compute. reflexivity. Qed.

(* ------------------------------------------------------------------ the value-semantics guard (model/M_C14_IR.v alias_safe) *)
(* every extracted function passes it ... *)
Lemma alias_guard_holds :
  forallb (fun d => alias_safe (snd d)) cfg_dof_methods = true /\ alias_safe cfg_asm_assemble_sparse_stiffness_matrix = true.
Proof. split; vm_compute; reflexivity. Qed.

(* ... and it is not vacuous: _make_hessian_coordinates with `colCoords = rowCoords` instead of `rowCoords.copy()` (in NumPy the two
   names then denote ONE array and the row coordinates are overwritten by the column coordinates) is rejected, although the
   value-semantics interpreter cannot tell the two versions apart (it returns the same pair for both on the worked example);
   likewise __init__ with `self.isBc = isBc` moved in front of the BC loop *)
Definition hc_without_copy : fundef :=
  {| f_params := f_params cfg_dof_make_hessian_coordinates; f_defaults := f_defaults cfg_dof_make_hessian_coordinates;
     f_body := firstn 4 (f_body cfg_dof_make_hessian_coordinates) ++ [SAssign [EName "colCoords"] (EName "rowCoords")]
               ++ skipn 5 (f_body cfg_dof_make_hessian_coordinates) |}.
Definition init_alias_early : fundef :=
  {| f_params := f_params cfg_dof_init; f_defaults := f_defaults cfg_dof_init;
     f_body := firstn 2 (f_body cfg_dof_init) ++ [nth 3 (f_body cfg_dof_init) (SReturn ENone); nth 2 (f_body cfg_dof_init) (SReturn ENone)]
               ++ skipn 4 (f_body cfg_dof_init) |}.
Definition replace_method (m : string) (fd : fundef) (ms : list (string * fundef)) : list (string * fundef) :=
  map (fun d => if String.eqb (fst d) m then (m, fd) else d) ms.
Lemma alias_guard_discriminates :
  nth 4 (f_body cfg_dof_make_hessian_coordinates) (SReturn ENone)
    = SAssign [EName "colCoords"] (ECall (EAttr (EName "rowCoords") "copy") [] [])
  /\ alias_safe hc_without_copy = false
  /\ option_map (canon_object cfg_dof_fields)
       (construct 0%Z (replace_method "_make_hessian_coordinates" hc_without_copy cfg_dof_methods) 2 [ex_fsp; VInt 2; ex_ebcs])
     = Some (canon_object cfg_dof_fields (dof_object 4 2 ex_isBc ex_conns))
  /\ alias_safe init_alias_early = false.
Proof. repeat split; vm_compute; reflexivity. Qed.
