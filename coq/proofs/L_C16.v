(* C16 part 1: closest-point projection and signed distance to a segment (EdgeCpp.py, Surface.compute_normal):
   on the segment, nearest point, |signed distance| = Euclidean distance, sign convention, rigid-motion invariance.
   All statements are about the kernels regenerated from /repo (gen/Gen_*.v), instantiated at R. *)
From Coq Require Import Reals Lra Lia QArith Psatz.
From OV.base Require Import Num.
From OV.gen Require Import Gen_Surface Gen_SmoothFunctions Gen_EdgeCpp Gen_Levelset.
Local Open Scope R_scope.

(* ---------- vocabulary of the statements ---------- *)
Definition d2 (p0 p1 q0 q1 : R) : R := (p0 - q0) * (p0 - q0) + (p1 - q1) * (p1 - q1).   (* squared distance *)
Definition dist (p0 p1 q0 q1 : R) : R := sqrt (d2 p0 p1 q0 q1).
(* parameter of the orthogonal projection of p on the line through a, b *)
Definition tline (a0 a1 b0 b1 p0 p1 : R) : R := ((b0 - a0) * (p0 - a0) + (b1 - a1) * (p1 - a1)) / d2 b0 b1 a0 a1.
Definition clamp01 (t : R) : R := if Rlt_dec t 0 then 0 else if Rlt_dec 1 t then 1 else t.
Definition lerp (t u v : R) : R := (1 - t) * u + t * v.
(* component of p - a along the code's (unnormalised) normal (b1-a1, -(b0-a0)) divided by |b-a| *)
Definition ndist (a0 a1 b0 b1 p0 p1 : R) : R := ((b1 - a1) * (p0 - a0) - (b0 - a0) * (p1 - a1)) / dist b0 b1 a0 a1.
Definition sgn1 (x : R) : R := if Rlt_dec x 0 then -1 else 1.     (* sign with the code's convention 0 |-> + *)

Lemma sq_pos x : x <> 0 -> 0 < x * x.
Proof. intros H. destruct (Rtotal_order x 0) as [H1|[H1|H1]]; [nra|contradiction|nra]. Qed.
Lemma sumsq_zero x y : x * x + y * y = 0 -> x = 0 /\ y = 0.
Proof.
  intros H. pose proof (Rle_0_sqr x) as Hx. pose proof (Rle_0_sqr y) as Hy. unfold Rsqr in *.
  split; [destruct (Req_EM_T x 0) as [E|E]|destruct (Req_EM_T y 0) as [E|E]]; try exact E;
    apply sq_pos in E; lra.
Qed.
Lemma d2_nonneg p0 p1 q0 q1 : 0 <= d2 p0 p1 q0 q1.
Proof. unfold d2. pose proof (Rle_0_sqr (p0 - q0)). pose proof (Rle_0_sqr (p1 - q1)). unfold Rsqr in *. lra. Qed.
Lemma d2_pos a0 a1 b0 b1 : (a0, a1) <> (b0, b1) -> 0 < d2 b0 b1 a0 a1.
Proof.
  intros H. unfold d2.
  destruct (Req_EM_T b0 a0) as [->|Hx].
  - destruct (Req_EM_T b1 a1) as [->|Hy]; [contradiction H; reflexivity|].
    assert (0 < (b1 - a1) * (b1 - a1)) by (apply sq_pos; intro; apply Hy; lra).
    pose proof (Rle_0_sqr (a0 - a0)); unfold Rsqr in *; lra.
  - assert (0 < (b0 - a0) * (b0 - a0)) by (apply sq_pos; intro; apply Hx; lra).
    pose proof (Rle_0_sqr (b1 - a1)); unfold Rsqr in *; lra.
Qed.
Lemma dist_pos a0 a1 b0 b1 : (a0, a1) <> (b0, b1) -> 0 < dist b0 b1 a0 a1.
Proof. intros H. apply sqrt_lt_R0. apply d2_pos. exact H. Qed.
Lemma dist_sq p0 p1 q0 q1 : dist p0 p1 q0 q1 * dist p0 p1 q0 q1 = d2 p0 p1 q0 q1.
Proof. apply sqrt_sqrt. apply d2_nonneg. Qed.
Lemma dist_nonneg p0 p1 q0 q1 : 0 <= dist p0 p1 q0 q1.
Proof. apply sqrt_pos. Qed.
Lemma abs_of_sq d D : d * d = D -> Rabs d = sqrt D.
Proof. intros <-. symmetry. fold (Rsqr d). apply sqrt_Rsqr_abs. Qed.

(* ---------- tactics that bring a regenerated kernel to the vocabulary above, tolerant of harmless rewrites ---------- *)
Ltac field_eq nz := first [reflexivity | ring | (field; nz)].
Ltac repl X e tac := lazymatch X with e => fail | _ => replace X with e by (first [reflexivity | tac]) end.
(* find a comparison operand that is field-equal to the canonical term e and replace it by e everywhere *)
Ltac canon e nz :=
  repeat match goal with
  | |- context [Rlt_dec ?X ?Y] => first [repl X e nz | repl Y e nz]
  | |- context [Rle_dec ?X ?Y] => first [repl X e nz | repl Y e nz]
  | |- context [Req_EM_T ?X ?Y] => first [repl X e nz | repl Y e nz]
  end.
(* every sqrt whose argument is ring-equal to that of the canonical L becomes L *)
Ltac canon_sqrt L A :=
  repeat match goal with
  | |- context [sqrt ?X] => lazymatch X with A => fail | _ => replace (sqrt X) with L by (try unfold L; unfold dist; f_equal; unfold d2; ring) end
  end.
Ltac destruct_cmps :=
  repeat match goal with
  | |- context [Rlt_dec ?a ?b] => destruct (Rlt_dec a b)
  | |- context [Rle_dec ?a ?b] => destruct (Rle_dec a b)
  | |- context [Req_EM_T ?a ?b] => destruct (Req_EM_T a b)
  end.
Lemma triple_eq (x y t x' y' t' : R) : x = x' -> y = y' -> t = t' -> (x, y, t) = (x', y', t').
Proof. intros -> -> ->. reflexivity. Qed.
Lemma pair_eq (x y x' y' : R) : x = x' -> y = y' -> (x, y) = (x', y').
Proof. intros -> ->. reflexivity. Qed.

Section Segment.
  Variables a0 a1 b0 b1 : R.
  Hypothesis Hab : (a0, a1) <> (b0, b1).
  Let L2 := d2 b0 b1 a0 a1.
  Let L := dist b0 b1 a0 a1.
  Let L2pos : 0 < L2. Proof. apply d2_pos. exact Hab. Qed.
  Let Lpos : 0 < L. Proof. apply dist_pos. exact Hab. Qed.
  Let LL : L * L = L2. Proof. apply dist_sq. Qed.
  Let L2e : L2 = (b0 - a0) * (b0 - a0) + (b1 - a1) * (b1 - a1). Proof. reflexivity. Qed.

  Ltac nz := try (unfold d2 in * ); try (apply Rgt_not_eq); try lra; try nra.

  (* closed forms of the regenerated kernels *)
  Lemma cpp_line_closed p0 p1 :
    @cpp_line R NumR a0 a1 b0 b1 p0 p1 =
    let t := tline a0 a1 b0 b1 p0 p1 in (lerp t a0 b0, lerp t a1 b1, t).
  Proof.
    unfold cpp_line, e_dot, norm_squared, lerp. unfold_num. q2r. cbv zeta.
    pose proof L2pos as HL. rewrite L2e in HL.
    apply triple_eq; unfold tline, d2; field; nz.
  Qed.

  Lemma cpp_closed p0 p1 :
    @cpp R NumR a0 a1 b0 b1 p0 p1 =
    let t := clamp01 (tline a0 a1 b0 b1 p0 p1) in (lerp t a0 b0, lerp t a1 b1, t).
  Proof.
    unfold cpp, e_dot, norm_squared, clamp01, lerp. unfold_num. q2r. unfold Rltb. cbv zeta.
    pose proof L2pos as HL. rewrite L2e in HL.
    set (T := tline a0 a1 b0 b1 p0 p1).
    canon T ltac:(unfold T, tline, d2; field; nz).
    destruct_cmps; try (exfalso; lra); apply triple_eq; try ring; try lra.
  Qed.

  (* ---- the projection lies on the segment and is its nearest point ---- *)
  Lemma clamp01_range t : 0 <= clamp01 t <= 1.
  Proof. unfold clamp01. destruct (Rlt_dec t 0), (Rlt_dec 1 t); lra. Qed.

  Lemma d2_along p0 p1 s :
    d2 p0 p1 (lerp s a0 b0) (lerp s a1 b1) = d2 p0 p1 a0 a1 + L2 * (s * s - 2 * s * tline a0 a1 b0 b1 p0 p1).
  Proof. unfold tline. fold L2. rewrite L2e. unfold lerp, d2. pose proof L2pos as H; rewrite L2e in H. field. lra. Qed.

  Lemma clamp_nearest t s : 0 <= s <= 1 -> clamp01 t * clamp01 t - 2 * clamp01 t * t <= s * s - 2 * s * t.
  Proof.
    intros Hs. unfold clamp01. destruct (Rlt_dec t 0), (Rlt_dec 1 t); try lra.
    - assert (0 <= s * (- t)) by (apply Rmult_le_pos; lra). nra.
    - assert (0 <= (1 - s) * (2 * t - 1 - s)) by (apply Rmult_le_pos; lra). nra.
    - pose proof (Rle_0_sqr (s - t)). unfold Rsqr in *. nra.
  Qed.

  Theorem cpp_on_segment p0 p1 :
    let '(q0, q1, t) := @cpp R NumR a0 a1 b0 b1 p0 p1 in
    0 <= t <= 1 /\ q0 = lerp t a0 b0 /\ q1 = lerp t a1 b1.
  Proof. rewrite cpp_closed. cbv zeta. split; [apply clamp01_range|split; reflexivity]. Qed.

  Theorem cpp_nearest_sq p0 p1 s : 0 <= s <= 1 ->
    let '(q0, q1, _) := @cpp R NumR a0 a1 b0 b1 p0 p1 in
    d2 p0 p1 q0 q1 <= d2 p0 p1 (lerp s a0 b0) (lerp s a1 b1).
  Proof.
    intros Hs. rewrite cpp_closed. cbv zeta. rewrite !d2_along.
    pose proof (clamp_nearest (tline a0 a1 b0 b1 p0 p1) s Hs). pose proof L2pos. nra.
  Qed.

  Theorem cpp_nearest p0 p1 s : 0 <= s <= 1 ->
    let '(q0, q1, _) := @cpp R NumR a0 a1 b0 b1 p0 p1 in
    dist p0 p1 q0 q1 <= dist p0 p1 (lerp s a0 b0) (lerp s a1 b1).
  Proof.
    intros Hs. pose proof (cpp_nearest_sq p0 p1 s Hs) as H.
    destruct (@cpp R NumR a0 a1 b0 b1 p0 p1) as [[q0 q1] t]. unfold dist. apply sqrt_le_1_alt. exact H.
  Qed.

  (* the unclamped projection is the foot of the perpendicular *)
  Theorem cpp_line_perpendicular p0 p1 :
    let '(q0, q1, _) := @cpp_line R NumR a0 a1 b0 b1 p0 p1 in
    (b0 - a0) * (p0 - q0) + (b1 - a1) * (p1 - q1) = 0.
  Proof.
    rewrite cpp_line_closed. cbv zeta. unfold lerp, tline. fold L2. rewrite L2e.
    pose proof L2pos as H; rewrite L2e in H. field. lra.
  Qed.

  (* ---- unit normal and signed distance ---- *)
  Lemma compute_normal_closed :
    @Gen_Surface.compute_normal R NumR a0 a1 b0 b1 = ((b1 - a1) / L, - (b0 - a0) / L).
  Proof.
    unfold Gen_Surface.compute_normal. unfold_num. cbv zeta.
    canon_sqrt L (d2 b0 b1 a0 a1).
    apply pair_eq; field; lra.
  Qed.

  Theorem compute_normal_unit :
    let '(n0, n1) := @Gen_Surface.compute_normal R NumR a0 a1 b0 b1 in
    n0 * n0 + n1 * n1 = 1 /\ n0 * (b0 - a0) + n1 * (b1 - a1) = 0.
  Proof.
    rewrite compute_normal_closed. split.
    - replace ((b1 - a1) / L * ((b1 - a1) / L) + - (b0 - a0) / L * (- (b0 - a0) / L)) with (L2 / (L * L)) by (rewrite L2e; field; lra).
      rewrite LL. field. lra.
    - field. lra.
  Qed.

  Lemma cpp_distance_closed p0 p1 :
    @cpp_distance R NumR a0 a1 b0 b1 p0 p1 =
    let t := tline a0 a1 b0 b1 p0 p1 in let dn := ndist a0 a1 b0 b1 p0 p1 in
    if Rlt_dec t 0 then dist a0 a1 p0 p1 * sgn1 dn
    else if Rlt_dec 1 t then dist b0 b1 p0 p1 * sgn1 dn else dn.
  Proof.
    unfold cpp_distance. rewrite compute_normal_closed, cpp_line_closed.
    unfold e_dot, norm_squared, sgn1, nsign. unfold_num. q2r. unfold Rltb, Reqb. cbv zeta.
    set (T := tline a0 a1 b0 b1 p0 p1). set (DN := ndist a0 a1 b0 b1 p0 p1).
    canon DN ltac:(unfold DN, ndist, lerp; fold L; field; lra).
    fold (d2 a0 a1 p0 p1) (d2 b0 b1 p0 p1) (dist a0 a1 p0 p1) (dist b0 b1 p0 p1).
    destruct_cmps; try (exfalso; lra); try reflexivity; try lra; try ring.
  Qed.

  Lemma sgn1_abs x : Rabs (sgn1 x) = 1.
  Proof. unfold sgn1. destruct (Rlt_dec x 0); [rewrite Rabs_left|rewrite Rabs_right]; lra. Qed.
  Lemma dist_sym p0 p1 q0 q1 : dist p0 p1 q0 q1 = dist q0 q1 p0 p1.
  Proof. unfold dist. f_equal. unfold d2. ring. Qed.

  Lemma ndist_sq_in_range p0 p1 :
    let t := tline a0 a1 b0 b1 p0 p1 in
    ndist a0 a1 b0 b1 p0 p1 * ndist a0 a1 b0 b1 p0 p1 = d2 p0 p1 (lerp t a0 b0) (lerp t a1 b1).
  Proof.
    cbv zeta. rewrite d2_along. unfold ndist. fold L.
    replace ((b1 - a1) * (p0 - a0) - (b0 - a0) * (p1 - a1)) with ((b1 - a1) * (p0 - a0) - (b0 - a0) * (p1 - a1)) by ring.
    set (c := (b1 - a1) * (p0 - a0) - (b0 - a0) * (p1 - a1)).
    replace (c / L * (c / L)) with (c * c / (L * L)) by (field; lra). rewrite LL.
    unfold tline. fold L2. unfold c. rewrite L2e. unfold d2. pose proof L2pos as H; rewrite L2e in H. field. lra.
  Qed.

  (* |signed distance| is the Euclidean distance to the nearest point of the segment *)
  Theorem cpp_distance_abs p0 p1 :
    let '(q0, q1, _) := @cpp R NumR a0 a1 b0 b1 p0 p1 in
    Rabs (@cpp_distance R NumR a0 a1 b0 b1 p0 p1) = dist p0 p1 q0 q1.
  Proof.
    rewrite cpp_closed, cpp_distance_closed. cbv zeta. unfold clamp01.
    destruct (Rlt_dec (tline a0 a1 b0 b1 p0 p1) 0); [|destruct (Rlt_dec 1 (tline a0 a1 b0 b1 p0 p1))].
    - rewrite Rabs_mult, sgn1_abs, Rmult_1_r, Rabs_right by (apply Rle_ge, dist_nonneg).
      unfold dist. f_equal. unfold d2, lerp. ring.
    - rewrite Rabs_mult, sgn1_abs, Rmult_1_r, Rabs_right by (apply Rle_ge, dist_nonneg).
      unfold dist. f_equal. unfold d2, lerp. ring.
    - apply abs_of_sq. apply ndist_sq_in_range.
  Qed.

  (* beyond either end the magnitude is the distance to that end point *)
  Theorem cpp_distance_beyond_ends p0 p1 :
    (tline a0 a1 b0 b1 p0 p1 < 0 -> Rabs (@cpp_distance R NumR a0 a1 b0 b1 p0 p1) = dist p0 p1 a0 a1) /\
    (1 < tline a0 a1 b0 b1 p0 p1 -> Rabs (@cpp_distance R NumR a0 a1 b0 b1 p0 p1) = dist p0 p1 b0 b1).
  Proof.
    rewrite cpp_distance_closed. cbv zeta.
    split; intros Ht; destruct (Rlt_dec (tline a0 a1 b0 b1 p0 p1) 0); try lra;
      [|destruct (Rlt_dec 1 (tline a0 a1 b0 b1 p0 p1)); [|lra]];
      rewrite Rabs_mult, sgn1_abs, Rmult_1_r, Rabs_right by (apply Rle_ge, dist_nonneg); apply dist_sym.
  Qed.

  (* ndist is the component of p - a along the unit normal the code computes *)
  Lemma ndist_is_normal_component p0 p1 :
    let '(n0, n1) := @Gen_Surface.compute_normal R NumR a0 a1 b0 b1 in
    n0 * (p0 - a0) + n1 * (p1 - a1) = ndist a0 a1 b0 b1 p0 p1.
  Proof. rewrite compute_normal_closed. unfold ndist. fold L. field. lra. Qed.

  (* sign: the side of the outward normal, with the code's convention that a point on the line counts as + *)
  Theorem cpp_distance_sign p0 p1 :
    let '(n0, n1) := @Gen_Surface.compute_normal R NumR a0 a1 b0 b1 in
    let s := n0 * (p0 - a0) + n1 * (p1 - a1) in
    (0 <= s -> 0 <= @cpp_distance R NumR a0 a1 b0 b1 p0 p1) /\
    (s < 0 -> @cpp_distance R NumR a0 a1 b0 b1 p0 p1 < 0).
  Proof.
    pose proof (ndist_is_normal_component p0 p1) as Hn.
    destruct (@Gen_Surface.compute_normal R NumR a0 a1 b0 b1) as [n0 n1]. cbv zeta. rewrite Hn.
    rewrite cpp_distance_closed. cbv zeta. unfold sgn1.
    set (dn := ndist a0 a1 b0 b1 p0 p1). set (t := tline a0 a1 b0 b1 p0 p1).
    pose proof (dist_nonneg a0 a1 p0 p1) as Da. pose proof (dist_nonneg b0 b1 p0 p1) as Db.
    split; intros Hs; destruct (Rlt_dec t 0); [| destruct (Rlt_dec 1 t) | | destruct (Rlt_dec 1 t)];
      destruct (Rlt_dec dn 0); try lra.
    - (* dn < 0 beyond end a: the end-point distance is positive because p is off the line *)
      assert (0 < dist a0 a1 p0 p1); [|lra].
      apply sqrt_lt_R0. destruct (Req_EM_T (d2 a0 a1 p0 p1) 0) as [E|E]; [|pose proof (d2_nonneg a0 a1 p0 p1); lra].
      exfalso. unfold d2 in E. apply sumsq_zero in E. destruct E as [E0 E1].
      unfold dn, ndist in r0. replace (p0 - a0) with 0 in r0 by lra. replace (p1 - a1) with 0 in r0 by lra.
      unfold Rdiv in r0. rewrite !Rmult_0_r, Rminus_0_r, Rmult_0_l in r0. lra.
    - assert (0 < dist b0 b1 p0 p1); [|lra].
      apply sqrt_lt_R0. destruct (Req_EM_T (d2 b0 b1 p0 p1) 0) as [E|E]; [|pose proof (d2_nonneg b0 b1 p0 p1); lra].
      exfalso. unfold d2 in E. apply sumsq_zero in E. destruct E as [E0 E1].
      unfold dn, ndist in r0. replace p0 with b0 in r0 by lra. replace p1 with b1 in r0 by lra.
      replace ((b1 - a1) * (b0 - a0) - (b0 - a0) * (b1 - a1)) with 0 in r0 by ring.
      unfold Rdiv in r0. rewrite Rmult_0_l in r0. lra.
  Qed.
End Segment.

(* ---------- invariance under a common rigid motion x |-> Q x + c, Q a rotation ---------- *)
Section Rigid.
  Variables c s tx ty : R.
  Hypothesis Hcs : c * c + s * s = 1.
  Definition rx (x y : R) : R := c * x - s * y + tx.
  Definition ry (x y : R) : R := s * x + c * y + ty.

  Ltac rot_ring := match goal with |- ?l = ?r => transitivity ((c * c + s * s) * r); [unfold rx, ry; ring | rewrite Hcs; ring] end.

  Lemma d2_rigid p0 p1 q0 q1 : d2 (rx p0 p1) (ry p0 p1) (rx q0 q1) (ry q0 q1) = d2 p0 p1 q0 q1.
  Proof. unfold d2. rot_ring. Qed.
  Lemma dist_rigid p0 p1 q0 q1 : dist (rx p0 p1) (ry p0 p1) (rx q0 q1) (ry q0 q1) = dist p0 p1 q0 q1.
  Proof. unfold dist. now rewrite d2_rigid. Qed.
  Lemma tline_rigid a0 a1 b0 b1 p0 p1 :
    tline (rx a0 a1) (ry a0 a1) (rx b0 b1) (ry b0 b1) (rx p0 p1) (ry p0 p1) = tline a0 a1 b0 b1 p0 p1.
  Proof. unfold tline. rewrite d2_rigid. f_equal. rot_ring. Qed.
  Lemma ndist_rigid a0 a1 b0 b1 p0 p1 :
    ndist (rx a0 a1) (ry a0 a1) (rx b0 b1) (ry b0 b1) (rx p0 p1) (ry p0 p1) = ndist a0 a1 b0 b1 p0 p1.
  Proof. unfold ndist. rewrite dist_rigid. f_equal. rot_ring. Qed.
  Lemma lerp_rx t a0 a1 b0 b1 : lerp t (rx a0 a1) (rx b0 b1) = rx (lerp t a0 b0) (lerp t a1 b1).
  Proof. unfold lerp, rx. ring. Qed.
  Lemma lerp_ry t a0 a1 b0 b1 : lerp t (ry a0 a1) (ry b0 b1) = ry (lerp t a0 b0) (lerp t a1 b1).
  Proof. unfold lerp, ry. ring. Qed.
  Lemma rigid_distinct a0 a1 b0 b1 : (a0, a1) <> (b0, b1) -> (rx a0 a1, ry a0 a1) <> (rx b0 b1, ry b0 b1).
  Proof.
    intros H E. pose proof (d2_pos _ _ _ _ H) as P. rewrite <- d2_rigid in P.
    injection E as E0 E1. rewrite E0, E1 in P. unfold d2 in P. nra.
  Qed.

  (* the projection moves with the segment and the point; its parameter is unchanged *)
  Theorem cpp_rigid a0 a1 b0 b1 p0 p1 : (a0, a1) <> (b0, b1) ->
    let '(q0, q1, t) := @cpp R NumR a0 a1 b0 b1 p0 p1 in
    @cpp R NumR (rx a0 a1) (ry a0 a1) (rx b0 b1) (ry b0 b1) (rx p0 p1) (ry p0 p1) = (rx q0 q1, ry q0 q1, t).
  Proof.
    intros H. rewrite !cpp_closed by (try apply rigid_distinct; exact H). cbv zeta.
    rewrite tline_rigid, lerp_rx, lerp_ry. reflexivity.
  Qed.
  Theorem cpp_line_rigid a0 a1 b0 b1 p0 p1 : (a0, a1) <> (b0, b1) ->
    let '(q0, q1, t) := @cpp_line R NumR a0 a1 b0 b1 p0 p1 in
    @cpp_line R NumR (rx a0 a1) (ry a0 a1) (rx b0 b1) (ry b0 b1) (rx p0 p1) (ry p0 p1) = (rx q0 q1, ry q0 q1, t).
  Proof.
    intros H. rewrite !cpp_line_closed by (try apply rigid_distinct; exact H). cbv zeta.
    rewrite tline_rigid, lerp_rx, lerp_ry. reflexivity.
  Qed.
  (* the signed distance (magnitude and sign) is unchanged *)
  Theorem cpp_distance_rigid a0 a1 b0 b1 p0 p1 : (a0, a1) <> (b0, b1) ->
    @cpp_distance R NumR (rx a0 a1) (ry a0 a1) (rx b0 b1) (ry b0 b1) (rx p0 p1) (ry p0 p1)
    = @cpp_distance R NumR a0 a1 b0 b1 p0 p1.
  Proof.
    intros H. rewrite !cpp_distance_closed by (try apply rigid_distinct; exact H). cbv zeta.
    rewrite tline_rigid, ndist_rigid, !dist_rigid. reflexivity.
  Qed.
  (* the unit normal rotates with the segment *)
  Theorem compute_normal_rigid a0 a1 b0 b1 : (a0, a1) <> (b0, b1) ->
    let '(n0, n1) := @Gen_Surface.compute_normal R NumR a0 a1 b0 b1 in
    @Gen_Surface.compute_normal R NumR (rx a0 a1) (ry a0 a1) (rx b0 b1) (ry b0 b1) = (c * n0 - s * n1, s * n0 + c * n1).
  Proof.
    intros H. rewrite !compute_normal_closed by (try apply rigid_distinct; exact H). rewrite dist_rigid.
    pose proof (dist_pos _ _ _ _ H). apply pair_eq; unfold rx, ry; field; lra.
  Qed.
End Rigid.

(* a reflection is NOT admissible: it flips the sign (so the rotation hypothesis is needed) *)
Lemma cpp_distance_reflection_flips :
  @cpp_distance R NumR 0 0 1 0 0 1 = -1 /\ @cpp_distance R NumR 0 0 1 0 0 (-1) = 1.
Proof.
  assert (H : (0, 0) <> (1, 0)) by (intro E; injection E; lra).
  rewrite !cpp_distance_closed by exact H. cbv zeta. unfold tline, ndist, dist, d2, sgn1.
  replace ((1 - 0) * (1 - 0) + (0 - 0) * (0 - 0)) with 1 by ring. rewrite sqrt_1.
  split; destruct_cmps; lra.
Qed.

(* ---------- level-set obstacle functions (pointwise form) ---------- *)
Theorem plane_value x0 x1 yLoc : @plane R NumR x0 x1 yLoc = yLoc - x1.
Proof. unfold plane. unfold_num. ring. Qed.
Theorem corner_value x0 x1 xLoc yLoc : @corner R NumR x0 x1 xLoc yLoc = Rmin (x0 - xLoc) (x1 - yLoc).
Proof. unfold corner, nmin. unfold_num. unfold Rltb, Rmin. destruct (Rlt_dec (x0 - xLoc) (x1 - yLoc)), (Rle_dec (x0 - xLoc) (x1 - yLoc)); lra. Qed.
Theorem sphere_value x0 x1 xLoc yLoc Rad : @sphere R NumR x0 x1 xLoc yLoc Rad = dist x0 x1 xLoc yLoc - Rad.
Proof. unfold sphere, dist, d2. unfold_num. cbv zeta. f_equal; try (f_equal; ring). Qed.
(* sign semantics: non-negative exactly outside the obstacle *)
Theorem sphere_sign x0 x1 xLoc yLoc Rad : 0 <= Rad ->
  (0 <= @sphere R NumR x0 x1 xLoc yLoc Rad <-> Rad * Rad <= d2 x0 x1 xLoc yLoc).
Proof.
  intros HR. rewrite sphere_value. pose proof (dist_sq x0 x1 xLoc yLoc) as Hs. pose proof (dist_nonneg x0 x1 xLoc yLoc) as Hp.
  split; intros H; [rewrite <- Hs; nra|]. destruct (Rle_dec Rad (dist x0 x1 xLoc yLoc)); [lra|exfalso; nra].
Qed.
Theorem corner_sign x0 x1 xLoc yLoc : 0 <= @corner R NumR x0 x1 xLoc yLoc <-> xLoc <= x0 /\ yLoc <= x1.
Proof. rewrite corner_value. unfold Rmin. destruct (Rle_dec (x0 - xLoc) (x1 - yLoc)); lra. Qed.
