(* C11, round 4: the theorems of L_C11s.v / L_C11t.v freed from the per-call premises on the eigen-solver.
   (1) Every matrix the solvers are called on during a step is symmetric (Ce = Fe^T Fe, the increment of a symmetric trial strain), so the
       contract "eigh_ok at every symmetric matrix" implies step_ok / seq_ok along EVERY sequence; with L_C11e.eigh_sym_ok (the spectral
       theorem: such a solver exists) the isochoric and relaxation theorems hold with no premise on the matrix functions at all.
   (2) A spectral function does not depend on the solver: two solvers that meet the contract at A give the same V diag(f(lam)) V^T.
   (3) Arbitrary deformation AND time-step histories (H_k, dt_k): the viscous distortion keeps its determinant along the whole history
       (det Fv = 1 from the virgin state) and every reported dissipated energy is non-negative, single and three-branch model. *)
From Coq Require Import Reals Lra QArith List.
From OV.base Require Import Num.
From OV.gen Require Import Gen_TensorMath Gen_HyperViscoelastic Gen_MultiBranchHyperViscoelastic Gen_ViscoState.
From OV.model Require Import M_C08 M_C11.
From OV.model Require Import M_C11s.
From OV.proofs Require Import L_C08 L_C11a L_C11.
From OV.proofs Require Import L_C11s L_C11t L_C11e.
Import ListNotations.
Local Open Scope R_scope.

(* ---- (2) solver independence *)
Lemma spectral_solver_independent (eigh1 eigh2 : M -> E3) (f : R -> R) (A : M) :
  eigh_ok eigh1 A -> eigh_ok eigh2 A -> spectral eigh1 f A = spectral eigh2 f A.
Proof.
  unfold eigh_ok, spectral. destruct (eigh1 A) as [[[a0 a1] a2] V]. destruct (eigh2 A) as [[[b0 b1] b2] V'].
  intros (H1 & H2 & HA) (H1' & H2' & HA'). apply (spectral_unique V V' a0 a1 a2 b0 b1 b2 f H1 H2 H1' H2'). unfold cj. rewrite HA, HA'. reflexivity.
Qed.

Definition solver_ok (eigh : M -> E3) : Prop := forall A : M, msym A -> eigh_ok eigh A.

Section AllSymmetric.
  Variables (eighL eighE : M -> E3).
  Hypothesis HL : solver_ok eighL.
  Hypothesis HE : solver_ok eighE.
  Let lss := lss_spec eighL.
  Let expm := expm_spec eighE.

  Lemma Etrial_mb_sym H Fv : msym (Etrial_mb lss H Fv).
  Proof. rewrite Etrial_mb_form. apply lss_spec_sym. Qed.
  Lemma Etrial_hv_sym H Fv : msym (Etrial lss H Fv).
  Proof. apply Etrial_sym. intros C. apply lss_spec_sym. Qed.

  (* ---- (1) the per-call premises follow from the contract on symmetric matrices *)
  Lemma step_ok_hv_all p H Fv dt : step_ok_hv eighL eighE p H Fv dt.
  Proof.
    destruct p as [[[K G] Gn] tau]. unfold step_ok_hv. split; [apply HL, Ce_sym | split; [| apply HL, Ce_sym]].
    apply HE, inc_hv_sym, Etrial_hv_sym.
  Qed.
  Lemma step_ok_b_all n p H Fv dt : step_ok_b eighL eighE n p H Fv dt.
  Proof.
    unfold step_ok_b. split; [apply HL, Ce_sym | split; [| apply HL, Ce_sym]]. apply HE, inc_b_sym, Etrial_mb_sym.
  Qed.
  Lemma seq_ok_hv_all p H dts : forall Fv, seq_ok_hv eighL eighE p H Fv dts.
  Proof. induction dts as [| dt r IH]; intros Fv; [exact I |]. cbn [seq_ok_hv]. split; [apply step_ok_hv_all | apply IH]. Qed.
  Lemma seq_ok_b_all n p H dts : forall Fv, seq_ok_b eighL eighE n p H Fv dts.
  Proof. induction dts as [| dt r IH]; intros Fv; [exact I |]. cbn [seq_ok_b]. split; [apply step_ok_b_all | apply IH]. Qed.

  Lemma state_new_b_det_all n p Fv dt H : 0 < taub n p -> 0 < dt -> mdet (state_new_b n lss expm p Fv dt H) = mdet Fv.
  Proof. intros Ht Hd. apply state_new_b_det_spec; try assumption. apply HE, inc_b_sym, Etrial_mb_sym. Qed.
  Lemma state_new_hv_det_all K G Gn tau Fv dt H : 0 < tau -> 0 < dt -> mdet (state_new_hv lss expm (K, G, Gn, tau) Fv dt H) = mdet Fv.
  Proof. intros Ht Hd. apply state_new_hv_det_spec; try assumption. apply HE, inc_hv_sym, Etrial_hv_sym. Qed.

  Lemma coax_hv_all K G Gn tau H Fv dt : 0 < tau -> 0 < dt -> mdet (defgrad H) <> 0 -> mdet Fv <> 0 ->
    Etrial lss H (state_new_hv lss expm (K, G, Gn, tau) Fv dt H) = relax_hv (K, G, Gn, tau) dt (Etrial lss H Fv).
  Proof. intros. apply coax_hv; try assumption. apply step_ok_hv_all. Qed.
  Lemma coax_b_all n p H Fv dt : 0 < taub n p -> 0 < dt -> mdet (defgrad H) <> 0 -> mdet Fv <> 0 ->
    Etrial_mb lss H (state_new_b n lss expm p Fv dt H) = relax_b n p dt (Etrial_mb lss H Fv).
  Proof. intros. apply coax_b; try assumption. apply step_ok_b_all. Qed.

  Lemma relaxation_monotone_all K G Gn tau H dts : 0 < tau -> 0 <= Gn -> mdet (defgrad H) <> 0 -> Forall (fun dt => 0 < dt) dts ->
    forall Fv, mdet Fv <> 0 -> nonincreasing (reported lss expm K G Gn tau H Fv dts).
  Proof. intros Ht HG HF Hp Fv HFv. apply relaxation_monotone_spec; try assumption. apply seq_ok_hv_all. Qed.
  Lemma relaxation_monotone_b_all n p H dts : (forall n, 0 < taub n p) -> (forall n, 0 <= Gb n p) -> mdet (defgrad H) <> 0 ->
    Forall (fun dt => 0 < dt) dts -> forall Fv, mdet Fv <> 0 -> nonincreasing (reported_b lss expm p H n Fv dts).
  Proof. intros Ht HG HF Hp Fv HFv. apply relaxation_monotone_b_spec; try assumption. apply seq_ok_b_all. Qed.

  (* the total over the three branches, i.e. energy - dissipation - equilibrium energy as the model reports it *)
  Lemma relaxation_monotone_total_all p H dts : (forall n, 0 < taub n p) -> (forall n, 0 <= Gb n p) -> mdet (defgrad H) <> 0 ->
    Forall (fun dt => 0 < dt) dts ->
    forall Fv1 Fv2 Fv3, mdet Fv1 <> 0 -> mdet Fv2 <> 0 -> mdet Fv3 <> 0 -> nonincreasing (reported_total lss expm p H Fv1 Fv2 Fv3 dts).
  Proof.
    intros Htau HG HF Hp. induction Hp as [| dt r Hd Hr IH]; intros Fv1 Fv2 Fv3 N1 N2 N3; [exact I |]. cbn [reported_total].
    destruct r as [| dt' r']; [exact I |]. cbn [reported_total nonincreasing]. inversion Hr as [| ? ? Hd' _]; subst. split.
    - unfold Wneq_total.
      pose proof (relaxation_step_b_spec eighL eighE 0 p H Fv1 dt dt' Htau HG Hd Hd' HF N1 (step_ok_b_all 0 p H Fv1 dt)) as L0.
      pose proof (relaxation_step_b_spec eighL eighE 1 p H Fv2 dt dt' Htau HG Hd Hd' HF N2 (step_ok_b_all 1 p H Fv2 dt)) as L1.
      pose proof (relaxation_step_b_spec eighL eighE 2 p H Fv3 dt dt' Htau HG Hd Hd' HF N3 (step_ok_b_all 2 p H Fv3 dt)) as L2.
      cbv zeta in L0, L1, L2. fold lss expm in L0, L1, L2. lra.
    - apply IH; rewrite state_new_b_det_all by (try apply Htau; assumption); assumption.
  Qed.
End AllSymmetric.

(* ---- (3) arbitrary deformation and time-step histories: steps = [(H_1, dt_1); (H_2, dt_2); ...] *)
Fixpoint run_hv (lss expm : M -> M) (p : p4) (Fv : M) (steps : list (M * R)) : M :=
  match steps with
  | [] => Fv
  | (H, dt) :: r => run_hv lss expm p (state_new_hv lss expm p Fv dt H) r
  end.
Fixpoint diss_hv (lss expm : M -> M) (p : p4) (Fv : M) (steps : list (M * R)) : list R :=
  match steps with
  | [] => []
  | (H, dt) :: r => D_hv lss p Fv dt H :: diss_hv lss expm p (state_new_hv lss expm p Fv dt H) r
  end.
Fixpoint run_b (n : nat) (lss expm : M -> M) (p : @p8 R) (Fv : M) (steps : list (M * R)) : M :=
  match steps with
  | [] => Fv
  | (H, dt) :: r => run_b n lss expm p (state_new_b n lss expm p Fv dt H) r
  end.
Fixpoint diss_mb (lss expm : M -> M) (p : @p8 R) (Fv1 Fv2 Fv3 : M) (steps : list (M * R)) : list R :=
  match steps with
  | [] => []
  | (H, dt) :: r => D_mb lss p Fv1 Fv2 Fv3 dt H
                    :: diss_mb lss expm p (state_new_b 0 lss expm p Fv1 dt H) (state_new_b 1 lss expm p Fv2 dt H) (state_new_b 2 lss expm p Fv3 dt H) r
  end.
Definition steps_pos (steps : list (M * R)) : Prop := Forall (fun s : M * R => 0 < snd s) steps.

Lemma history_diss_nonneg_hv (lss expm : M -> M) K G Gn tau steps : 0 < tau -> 0 <= Gn -> steps_pos steps ->
  forall Fv, Forall (fun d => 0 <= d) (diss_hv lss expm (K, G, Gn, tau) Fv steps).
Proof.
  intros Ht HG Hp. induction Hp as [| [H dt] r Hd Hr IH]; intros Fv; [constructor |]. cbn [diss_hv]. constructor; [| apply IH].
  apply D_hv_nonneg; assumption.
Qed.
Lemma history_diss_nonneg_mb (lss expm : M -> M) p steps : (forall n, 0 < taub n p) -> (forall n, 0 <= Gb n p) -> steps_pos steps ->
  forall Fv1 Fv2 Fv3, Forall (fun d => 0 <= d) (diss_mb lss expm p Fv1 Fv2 Fv3 steps).
Proof.
  intros Ht HG Hp. induction Hp as [| [H dt] r Hd Hr IH]; intros Fv1 Fv2 Fv3; [constructor |]. cbn [diss_mb]. constructor; [| apply IH].
  apply D_mb_nonneg; assumption.
Qed.
(* the accumulated dissipation never decreases along a history *)
Fixpoint partial_sums (acc : R) (l : list R) : list R := match l with [] => [] | x :: r => (acc + x) :: partial_sums (acc + x) r end.
Fixpoint nondecreasing_from (a : R) (l : list R) : Prop := match l with [] => True | x :: r => a <= x /\ nondecreasing_from x r end.
Lemma partial_sums_monotone l : Forall (fun d => 0 <= d) l -> forall acc, nondecreasing_from acc (partial_sums acc l).
Proof. intros Hl. induction Hl as [| x r Hx Hr IH]; intros acc; [exact I |]. cbn. split; [lra | apply IH]. Qed.

Section HistoryDet.
  Variables (lss expm : M -> M).
  Hypothesis Hexp : forall A : M, mdet (expm A) = exp (mtrace A).
  Lemma history_det_hv K G Gn tau steps : 0 < tau -> steps_pos steps -> forall Fv, mdet (run_hv lss expm (K, G, Gn, tau) Fv steps) = mdet Fv.
  Proof.
    intros Ht Hp. induction Hp as [| [H dt] r Hd Hr IH]; intros Fv; [reflexivity |]. cbn [run_hv]. rewrite IH.
    apply state_new_hv_det; assumption.
  Qed.
  Lemma history_det_b n p steps : (forall n, 0 < taub n p) -> steps_pos steps -> forall Fv, mdet (run_b n lss expm p Fv steps) = mdet Fv.
  Proof.
    intros Ht Hp. induction Hp as [| [H dt] r Hd Hr IH]; intros Fv; [reflexivity |]. cbn [run_b]. rewrite IH.
    apply state_new_b_det; assumption.
  Qed.
End HistoryDet.

Section HistoryDetSpectral.
  Variables (eighL eighE : M -> E3).
  Hypothesis HE : solver_ok eighE.
  Lemma history_det_hv_spec K G Gn tau steps : 0 < tau -> steps_pos steps ->
    forall Fv, mdet (run_hv (lss_spec eighL) (expm_spec eighE) (K, G, Gn, tau) Fv steps) = mdet Fv.
  Proof.
    intros Ht Hp. induction Hp as [| [H dt] r Hd Hr IH]; intros Fv; [reflexivity |]. cbn [run_hv]. rewrite IH.
    apply state_new_hv_det_all; assumption.
  Qed.
  Lemma history_det_b_spec n p steps : (forall n, 0 < taub n p) -> steps_pos steps ->
    forall Fv, mdet (run_b n (lss_spec eighL) (expm_spec eighE) p Fv steps) = mdet Fv.
  Proof.
    intros Ht Hp. induction Hp as [| [H dt] r Hd Hr IH]; intros Fv; [reflexivity |]. cbn [run_b]. rewrite IH.
    apply state_new_b_det_all; [exact HE | apply Ht | exact Hd].
  Qed.
End HistoryDetSpectral.

(* ---- with the solver of L_C11e.v: no premise on the matrix functions is left *)
Definition lss_R : M -> M := lss_spec eigh_sym.
Definition expm_R : M -> M := expm_spec eigh_sym.
Lemma eigh_sym_solver_ok : solver_ok eigh_sym.
Proof. exact eigh_sym_ok. Qed.
(* lss_R / expm_R are THE spectral functions: every solver that meets the contract at A yields them *)
Lemma lss_R_canonical eigh (A : M) : msym A -> eigh_ok eigh A -> lss_spec eigh A = lss_R A.
Proof. intros HA Hok. unfold lss_R, lss_spec. f_equal. apply spectral_solver_independent; [exact Hok | apply eigh_sym_ok, HA]. Qed.
Lemma expm_R_canonical eigh (A : M) : msym A -> eigh_ok eigh A -> expm_spec eigh A = expm_R A.
Proof. intros HA Hok. unfold expm_R, expm_spec. apply spectral_solver_independent; [exact Hok | apply eigh_sym_ok, HA]. Qed.

Lemma virgin_history_isochoric_hv K G Gn tau steps : 0 < tau -> steps_pos steps -> mdet (run_hv lss_R expm_R (K, G, Gn, tau) mid steps) = 1.
Proof. intros Ht Hp. unfold lss_R, expm_R. rewrite (history_det_hv_spec eigh_sym eigh_sym eigh_sym_solver_ok K G Gn tau steps Ht Hp). apply mdet_mid. Qed.
Lemma virgin_history_isochoric_b n p steps : (forall n, 0 < taub n p) -> steps_pos steps -> mdet (run_b n lss_R expm_R p mid steps) = 1.
Proof. intros Ht Hp. unfold lss_R, expm_R. rewrite (history_det_b_spec eigh_sym eigh_sym eigh_sym_solver_ok n p steps Ht Hp). apply mdet_mid. Qed.

Lemma relaxation_unconditional_hv K G Gn tau H dts : 0 < tau -> 0 <= Gn -> mdet (defgrad H) <> 0 -> Forall (fun dt => 0 < dt) dts ->
  forall Fv, mdet Fv <> 0 -> nonincreasing (reported lss_R expm_R K G Gn tau H Fv dts).
Proof. intros. apply (relaxation_monotone_all eigh_sym eigh_sym eigh_sym_solver_ok eigh_sym_solver_ok); assumption. Qed.
Lemma relaxation_unconditional_total p H dts : (forall n, 0 < taub n p) -> (forall n, 0 <= Gb n p) -> mdet (defgrad H) <> 0 ->
  Forall (fun dt => 0 < dt) dts ->
  forall Fv1 Fv2 Fv3, mdet Fv1 <> 0 -> mdet Fv2 <> 0 -> mdet Fv3 <> 0 -> nonincreasing (reported_total lss_R expm_R p H Fv1 Fv2 Fv3 dts).
Proof. intros. apply (relaxation_monotone_total_all eigh_sym eigh_sym eigh_sym_solver_ok eigh_sym_solver_ok); assumption. Qed.

(* non-vacuity of the history theorems: a two-step history with a genuinely changing, non-diagonal deformation has positive steps *)
Lemma history_nonvacuous : exists steps : list (M * R), steps_pos steps /\ length steps = 2%nat /\ fst (nth 0 steps (mzero, 0)) <> fst (nth 1 steps (mzero, 0)).
Proof.
  exists [(mk 1 (1 / 2) 0 0 0 0 0 0 0, 1); (mk 0 0 0 (1 / 4) 0 0 0 0 1, 2)]. split; [| split].
  - repeat constructor; cbn; lra.
  - reflexivity.
  - cbn. intros E. apply (f_equal m00) in E. cbn in E. lra.
Qed.

(* ---- held deformation after an ARBITRARY history from the virgin state: the stored energy decays monotonically *)
Lemma relaxation_after_history_hv K G Gn tau steps H dts : 0 < tau -> 0 <= Gn -> steps_pos steps -> mdet (defgrad H) <> 0 ->
  Forall (fun dt => 0 < dt) dts -> nonincreasing (reported lss_R expm_R K G Gn tau H (run_hv lss_R expm_R (K, G, Gn, tau) mid steps) dts).
Proof.
  intros Ht HG Hp HF Hd. apply relaxation_unconditional_hv; try assumption. rewrite virgin_history_isochoric_hv by assumption. lra.
Qed.
Lemma relaxation_after_history_total p steps H dts : (forall n, 0 < taub n p) -> (forall n, 0 <= Gb n p) -> steps_pos steps ->
  mdet (defgrad H) <> 0 -> Forall (fun dt => 0 < dt) dts ->
  nonincreasing (reported_total lss_R expm_R p H (run_b 0 lss_R expm_R p mid steps) (run_b 1 lss_R expm_R p mid steps) (run_b 2 lss_R expm_R p mid steps) dts).
Proof.
  intros Ht HG Hp HF Hd. apply relaxation_unconditional_total; try assumption; rewrite virgin_history_isochoric_b by assumption; lra.
Qed.

(* ---- virgin material: the trial strain is the logarithmic strain of the deformation itself, lss (F^T F) *)
Lemma minv_mid : minv (@mid R NumR) = mid.
Proof. tnum. f_equal; field. Qed.
Lemma Etrial_virgin (lss : M -> M) (H : M) : Etrial lss H mid = lss (mmul (mtr (defgrad H)) (defgrad H)).
Proof. rewrite Etrial_form. unfold Ce_of, Fe_of. rewrite minv_mid, mmul_id_r. reflexivity. Qed.
Lemma Etrial_mb_virgin (lss : M -> M) (H : M) : Etrial_mb lss H mid = lss (mmul (mtr (defgrad H)) (defgrad H)).
Proof. rewrite Etrial_mb_form. unfold Ce_of, Fe_of. rewrite minv_mid, mmul_id_r. reflexivity. Qed.

(* ---- the two limits for the three-branch model, epsilon form *)
Section Limits3eps.
  Variables (lss : M -> M) (p : @p8 R) (Fv1 Fv2 Fv3 H : M).
  Hypothesis Htau : forall n, 0 < taub n p.
  Hypothesis HG : forall n, 0 <= Gb n p.
  Lemma mb_limit_dt_to_0 eps : 0 < eps -> exists delta, 0 < delta /\ forall dt, 0 < dt < delta -> Rabs (E_mb lss p Fv1 Fv2 Fv3 dt H - W_inst_mb lss p Fv1 Fv2 Fv3 H) < eps.
  Proof.
    intros He. pose proof (cb_nonneg lss p HG 0 H Fv1) as P0. pose proof (cb_nonneg lss p HG 1 H Fv2) as P1. pose proof (cb_nonneg lss p HG 2 H Fv3) as P2.
    pose proof (Htau 0) as T0. pose proof (Htau 1) as T1. pose proof (Htau 2) as T2.
    set (S := cb lss p 0 H Fv1 / taub 0 p + cb lss p 1 H Fv2 / taub 1 p + cb lss p 2 H Fv3 / taub 2 p).
    assert (HS : 0 <= S).
    { unfold S. assert (0 <= cb lss p 0 H Fv1 / taub 0 p) by (apply Rmult_le_pos; [lra | left; apply Rinv_0_lt_compat; lra]).
      assert (0 <= cb lss p 1 H Fv2 / taub 1 p) by (apply Rmult_le_pos; [lra | left; apply Rinv_0_lt_compat; lra]).
      assert (0 <= cb lss p 2 H Fv3 / taub 2 p) by (apply Rmult_le_pos; [lra | left; apply Rinv_0_lt_compat; lra]). lra. }
    exists (eps / (S + 1)). split; [apply Rdiv_lt_0_compat; lra |]. intros dt [Hd Hlt].
    eapply Rle_lt_trans; [apply (mb_bound_small_dt lss p Fv1 Fv2 Fv3 H Htau HG dt Hd) |].
    replace (cb lss p 0 H Fv1 * (dt / taub 0 p) + cb lss p 1 H Fv2 * (dt / taub 1 p) + cb lss p 2 H Fv3 * (dt / taub 2 p)) with (dt * S) by (unfold S; field; lra).
    assert (Hx : dt * (S + 1) < eps) by (apply (Rmult_lt_reg_r (/ (S + 1))); [apply Rinv_0_lt_compat; lra |]; rewrite Rmult_assoc, Rinv_r by lra; unfold Rdiv in Hlt; lra).
    nra.
  Qed.
  Lemma mb_limit_dt_to_infinity eps : 0 < eps -> exists T, 0 < T /\ forall dt, T < dt -> Rabs (E_mb lss p Fv1 Fv2 Fv3 dt H - W_eq_mb p H) < eps.
  Proof.
    intros He. pose proof (cb_nonneg lss p HG 0 H Fv1) as P0. pose proof (cb_nonneg lss p HG 1 H Fv2) as P1. pose proof (cb_nonneg lss p HG 2 H Fv3) as P2.
    pose proof (Htau 0) as T0. pose proof (Htau 1) as T1. pose proof (Htau 2) as T2.
    set (S := cb lss p 0 H Fv1 * taub 0 p + cb lss p 1 H Fv2 * taub 1 p + cb lss p 2 H Fv3 * taub 2 p).
    assert (HS : 0 <= S) by (unfold S; nra).
    exists ((S + 1) / eps). split; [apply Rdiv_lt_0_compat; lra |]. intros dt Hlt.
    assert (HT : 0 < (S + 1) / eps) by (apply Rdiv_lt_0_compat; lra). assert (Hd : 0 < dt) by lra.
    eapply Rle_lt_trans; [apply (mb_bound_large_dt lss p Fv1 Fv2 Fv3 H Htau HG dt Hd) |].
    replace (cb lss p 0 H Fv1 * (taub 0 p / dt) + cb lss p 1 H Fv2 * (taub 1 p / dt) + cb lss p 2 H Fv3 * (taub 2 p / dt)) with (S / dt) by (unfold S; field; lra).
    assert (Hx : S + 1 < dt * eps) by (apply (Rmult_lt_reg_r (/ eps)); [apply Rinv_0_lt_compat; lra |]; rewrite (Rmult_assoc dt), Rinv_r by lra; unfold Rdiv in Hlt; lra).
    apply (Rmult_lt_reg_r dt); [exact Hd |]. unfold Rdiv. rewrite Rmult_assoc, Rinv_l by lra. nra.
  Qed.
End Limits3eps.
