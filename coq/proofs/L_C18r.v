(* C18, rounding-aware analysis of the in-band expression of SmoothFunctions.min_base, over an ABSTRACT rounding operator.
   Section hypotheses (discharged for IEEE binary64 round-to-nearest-even in proofs/L_C18f.v from Flocq's error_N_FLT):
     rnd_err : |rnd z - z| <= u |z| + eta   for every real z   (relative error u, absolute underflow error eta)
     u <= 1/1000,  eta * 1000 <= u tol^2    (tol = the width clamp safeTol, tol <= 1)
   Result: with t = x - y, |rnd t| < s (the band test as the code evaluates it, after rounding), s >= tol,
     r = rnd( rnd( rnd(h rnd(x+y)) - rnd(q s) ) - rnd( rnd(q rnd(rnd t * rnd t)) / s ) )        (h = 1/2, q = 1/4)
   differs from the exact closed form  v = h (x+y) - q s - q t^2 / s  by at most 3 u (|x| + |y| + s),
   and v <= min x y,  min x y - s/4 <= v.  Hence  min x y - s/4 - 3u(..) <= r <= min x y + 3u(..). *)
From Coq Require Import Reals Lra Lia.
Local Open Scope R_scope.

Definition near (a b E : R) : Prop := - E <= a - b <= E.

Lemma Rabs_bounds z : - Rabs z <= z <= Rabs z.
Proof. unfold Rabs. destruct (Rcase_abs z); lra. Qed.

Lemma Rabs_le_inv z B : Rabs z <= B -> - B <= z <= B.
Proof. unfold Rabs. destruct (Rcase_abs z); lra. Qed.

Lemma abs_le_of_bounds z B : - B <= z <= B -> Rabs z <= B.
Proof. intros H. unfold Rabs. destruct (Rcase_abs z); lra. Qed.

Ltac possq := match goal with |- 0 <= ?a * ?a => pose proof (Rle_0_sqr a) as Hsq_; unfold Rsqr in Hsq_; exact Hsq_ | _ => nra end.

Lemma div_near z z0 k s : 0 < s -> near z z0 (k * s) -> near (z / s) (z0 / s) k.
Proof.
  intros Hs [H1 H2]. unfold near.
  assert (E : z / s - z0 / s = (z - z0) * / s) by (field; lra).
  assert (Hi : 0 < / s) by (apply Rinv_0_lt_compat; exact Hs).
  rewrite E. split.
  - apply Rmult_le_reg_r with s; [exact Hs|]. rewrite Rmult_assoc, Rinv_l by lra. lra.
  - apply Rmult_le_reg_r with s; [exact Hs|]. rewrite Rmult_assoc, Rinv_l by lra. lra.
Qed.

Lemma div_bounds z0 b s : 0 < s -> - (b * s) <= z0 <= b * s -> - b <= z0 / s <= b.
Proof.
  intros Hs [H1 H2]. unfold Rdiv. split.
  - apply Rmult_le_reg_r with s; [exact Hs|]. rewrite Rmult_assoc, Rinv_l by lra. lra.
  - apply Rmult_le_reg_r with s; [exact Hs|]. rewrite Rmult_assoc, Rinv_l by lra. lra.
Qed.

Lemma sq_near d t E T : 0 <= E -> near d t E -> - T <= t <= T -> near (d * d) (t * t) (E * (2 * T + E)).
Proof.
  intros HE [H1 H2] [H3 H4]. unfold near.
  assert (Ed : d * d - t * t = (d - t) * (d + t)) by ring. rewrite Ed.
  assert (- (2 * T + E) <= d + t <= 2 * T + E) by lra.
  split; nra.
Qed.

(* the closed form is below the true minimum, by at most s/4 when |x - y| <= 2 s *)
Lemma closed_form_le_min x y s : 0 < s -> (x + y) / 2 - s / 4 - (x - y) * (x - y) / (4 * s) <= Rmin x y.
Proof.
  intros Hs. unfold Rmin. destruct (Rle_dec x y).
  - assert (E : (x + y) / 2 - s / 4 - (x - y) * (x - y) / (4 * s) = x - (s - (y - x)) * (s - (y - x)) / (4 * s)) by (field; lra).
    rewrite E. assert (0 <= (s - (y - x)) * (s - (y - x)) / (4 * s)); [|lra].
    apply Rmult_le_pos; [possq|]. apply Rlt_le, Rinv_0_lt_compat. lra.
  - assert (E : (x + y) / 2 - s / 4 - (x - y) * (x - y) / (4 * s) = y - (s - (x - y)) * (s - (x - y)) / (4 * s)) by (field; lra).
    rewrite E. assert (0 <= (s - (x - y)) * (s - (x - y)) / (4 * s)); [|lra].
    apply Rmult_le_pos; [possq|]. apply Rlt_le, Rinv_0_lt_compat. lra.
Qed.

Lemma closed_form_ge_min_minus_quarter x y s : 0 < s -> - (2 * s) <= x - y <= 2 * s ->
  Rmin x y - s / 4 <= (x + y) / 2 - s / 4 - (x - y) * (x - y) / (4 * s).
Proof.
  intros Hs Ht. unfold Rmin. destruct (Rle_dec x y).
  - assert (E : (x + y) / 2 - s / 4 - (x - y) * (x - y) / (4 * s) = x - s / 4 + (y - x) * (2 * s - (y - x)) / (4 * s)) by (field; lra).
    rewrite E. assert (0 <= (y - x) * (2 * s - (y - x)) / (4 * s)); [|lra].
    apply Rmult_le_pos; [possq|]. apply Rlt_le, Rinv_0_lt_compat. lra.
  - assert (E : (x + y) / 2 - s / 4 - (x - y) * (x - y) / (4 * s) = y - s / 4 + (x - y) * (2 * s - (x - y)) / (4 * s)) by (field; lra).
    rewrite E. assert (0 <= (x - y) * (2 * s - (x - y)) / (4 * s)); [|lra].
    apply Rmult_le_pos; [possq|]. apply Rlt_le, Rinv_0_lt_compat. lra.
Qed.

Section Rounded.
  Variable rnd : R -> R.
  Variables u eta : R.
  Hypothesis u_pos : 0 <= u.
  Hypothesis u_small : u <= 1 / 1000.
  Hypothesis eta_pos : 0 <= eta.
  Hypothesis rnd_err : forall z, Rabs (rnd z - z) <= u * Rabs z + eta.

  Lemma umul z : 0 <= z -> u * z <= z / 1000.
  Proof. intros Hz. assert (u * z <= 1 / 1000 * z) by (apply Rmult_le_compat_r; assumption). lra. Qed.

  Lemma rnd_near z z0 E B : near z z0 E -> - B <= z0 <= B -> near (rnd z) z0 (E + u * (B + E) + eta).
  Proof.
    intros [H1 H2] [H3 H4]. unfold near.
    assert (Hz : Rabs z <= B + E) by (apply abs_le_of_bounds; lra).
    pose proof (rnd_err z) as He. apply Rabs_le_inv in He.
    assert (u * Rabs z <= u * (B + E)) by (apply Rmult_le_compat_l; assumption).
    lra.
  Qed.

  (* the expression of the in-band branch of min_base, operation by operation *)
  Definition rounded_inband (h q x y s : R) : R :=
    rnd (rnd (rnd (h * rnd (x + y)) - rnd (q * s)) - rnd (rnd (q * rnd (rnd (x - y) * rnd (x - y))) / s)).

  Definition closed_form (x y s : R) : R := (x + y) / 2 - s / 4 - (x - y) * (x - y) / (4 * s).

  Theorem rounded_inband_near h q x y s tol : h = 1 / 2 -> q = 1 / 4 ->
    0 < tol <= 1 -> tol <= s -> eta * 1000 <= u * (tol * tol) ->
    Rabs (rnd (x - y)) < s ->
    near (rounded_inband h q x y s) (closed_form x y s) (3 * u * (Rabs x + Rabs y + s)) /\ - (2 * s) <= x - y <= 2 * s.
  Proof.
    intros -> -> Htol Hs Heta Hband. unfold rounded_inband, closed_form.
    set (A := Rabs x + Rabs y).
    assert (HA : 0 <= A) by (unfold A; pose proof (Rabs_pos x); pose proof (Rabs_pos y); lra).
    assert (Hs0 : 0 < s) by lra.
    (* second-order facts, stated once on the monomials that occur *)
    assert (uA0 : 0 <= u * A) by (apply Rmult_le_pos; assumption).
    assert (us0 : 0 <= u * s) by (apply Rmult_le_pos; lra).
    assert (fss : 0 < s * s) by (apply Rmult_lt_0_compat; assumption).
    assert (uss0 : 0 <= u * s * s) by (apply Rmult_le_pos; lra).
    pose proof (umul _ uA0) as fP. pose proof (umul _ us0) as fS. pose proof (umul _ uss0) as fW.
    pose proof (umul _ eta_pos) as fe3. pose proof (umul s ltac:(lra)) as s1. pose proof (umul (s * s) ltac:(lra)) as s2.
    assert (ftt : tol * tol <= s * s) by (apply Rmult_le_compat; lra).
    assert (ft1 : tol * tol <= s).
    { assert (tol * tol <= 1 * tol) by (apply Rmult_le_compat_r; lra). lra. }
    assert (fe1 : eta <= u * s / 1000).
    { assert (u * (tol * tol) <= u * s) by (apply Rmult_le_compat_l; assumption). lra. }
    assert (fe2 : eta <= u * s * s / 1000).
    { assert (u * (tol * tol) <= u * (s * s)) by (apply Rmult_le_compat_l; assumption). lra. }
    (* ---- t = x - y and d = rnd t *)
    set (t := x - y) in *.
    set (d := rnd t) in *.
    pose proof (rnd_err t) as Hd0. fold d in Hd0. apply Rabs_le_inv in Hd0.
    pose proof (Rabs_bounds t) as Hta. pose proof (Rabs_pos t) as Hta0.
    pose proof (Rabs_bounds d) as Hda.
    pose proof (umul _ Hta0) as fut.
    assert (HT : Rabs t <= 1002 / 1000 * s).
    { assert (Rabs t <= Rabs d + u * Rabs t + eta).
      { unfold Rabs at 1. destruct (Rcase_abs t); lra. }
      lra. }
    assert (HTb : - (1002 / 1000 * s) <= t <= 1002 / 1000 * s) by lra.
    assert (fut2 : u * Rabs t <= 1002 / 1000 * (u * s)) by nra.
    assert (Hd : near d t (1003 / 1000 * (u * s))) by (unfold near; lra).
    assert (Hdd : 0 <= d * d <= s * s).
    { split; [nra|]. assert (- s < d < s) by (unfold Rabs in Hband; destruct (Rcase_abs d); lra). nra. }
    assert (Htt : 0 <= t * t <= 1004004 / 1000000 * (s * s)) by (split; nra).
    (* ---- d*d vs t*t *)
    assert (Hsq : near (d * d) (t * t) (2012 / 1000 * (u * s * s))).
    { pose proof (sq_near d t (1003 / 1000 * (u * s)) (1002 / 1000 * s) ltac:(lra) Hd HTb) as [Q1 Q2]. unfold near. lra. }
    (* ---- q1 = rnd (d*d) *)
    pose proof (rnd_near (d * d) (t * t) _ (1004004 / 1000000 * (s * s)) Hsq ltac:(lra)) as Hq1.
    set (q1 := rnd (d * d)) in *.
    assert (Hq1' : near q1 (t * t) (3020 / 1000 * (u * s * s))) by (unfold near in *; lra).
    clear Hq1.
    (* ---- q4 = rnd (1/4 * q1) *)
    assert (Hq4a : near (1 / 4 * q1) (1 / 4 * (t * t)) (755 / 1000 * (u * s * s))) by (unfold near in *; lra).
    pose proof (rnd_near _ _ _ (251001 / 1000000 * (s * s)) Hq4a ltac:(lra)) as Hq4.
    set (q4 := rnd (1 / 4 * q1)) in *.
    assert (Hq4' : near q4 (1 / 4 * (t * t)) ((1008 / 1000 * (u * s)) * s)) by (unfold near in *; lra).
    clear Hq4.
    (* ---- c = rnd (q4 / s) *)
    pose proof (div_near _ _ _ s Hs0 Hq4') as Hca.
    assert (Hcb : - (251001 / 1000000 * s) <= 1 / 4 * (t * t) / s <= 251001 / 1000000 * s).
    { apply div_bounds; [exact Hs0|]. lra. }
    pose proof (rnd_near _ _ _ _ Hca Hcb) as Hc.
    set (c := rnd (q4 / s)) in *.
    assert (Hc' : near c (1 / 4 * (t * t) / s) (1262 / 1000 * (u * s))) by (unfold near in *; lra).
    clear Hc.
    (* ---- a1 = rnd (x + y), a2 = rnd (1/2 * a1) *)
    pose proof (Rabs_bounds x) as Hxa. pose proof (Rabs_bounds y) as Hya.
    assert (Ha1a : near (x + y) (x + y) 0) by (unfold near; lra).
    pose proof (rnd_near _ _ _ A Ha1a ltac:(unfold A; lra)) as Ha1.
    set (a1 := rnd (x + y)) in *.
    assert (Ha2a : near (1 / 2 * a1) (1 / 2 * (x + y)) (1 / 2 * (u * A) + 1 / 2 * eta)) by (unfold near in *; lra).
    pose proof (rnd_near _ _ _ (A / 2) Ha2a ltac:(unfold A; lra)) as Ha2.
    set (a2 := rnd (1 / 2 * a1)) in *.
    assert (Ha2' : near a2 (1 / 2 * (x + y)) (1001 / 1000 * (u * A) + 2 / 1000 * (u * s))) by (unfold near in *; lra).
    clear Ha2.
    (* ---- b = rnd (1/4 * s) *)
    assert (Hba : near (1 / 4 * s) (1 / 4 * s) 0) by (unfold near; lra).
    pose proof (rnd_near _ _ _ (s / 4) Hba ltac:(lra)) as Hb.
    set (b := rnd (1 / 4 * s)) in *.
    (* ---- c1 = rnd (a2 - b) *)
    assert (Hc1a : near (a2 - b) (1 / 2 * (x + y) - 1 / 4 * s) (1001 / 1000 * (u * A) + 254 / 1000 * (u * s))) by (unfold near in *; lra).
    pose proof (rnd_near _ _ _ (A / 2 + s / 4) Hc1a ltac:(unfold A; lra)) as Hc1.
    set (c1 := rnd (a2 - b)) in *.
    assert (Hc1' : near c1 (1 / 2 * (x + y) - 1 / 4 * s) (1503 / 1000 * (u * A) + 506 / 1000 * (u * s))) by (unfold near in *; lra).
    clear Hc1.
    (* ---- r = rnd (c1 - c) *)
    assert (Hra : near (c1 - c) ((x + y) / 2 - s / 4 - t * t / (4 * s)) (1503 / 1000 * (u * A) + 1768 / 1000 * (u * s))).
    { assert (E : t * t / (4 * s) = 1 / 4 * (t * t) / s) by (field; lra). rewrite E. unfold near in *. lra. }
    assert (Hrb : - (A / 2 + s / 4 + 251001 / 1000000 * s) <= (x + y) / 2 - s / 4 - t * t / (4 * s) <= A / 2 + s / 4 + 251001 / 1000000 * s).
    { assert (E : t * t / (4 * s) = 1 / 4 * (t * t) / s) by (field; lra). rewrite E. unfold A. lra. }
    pose proof (rnd_near _ _ _ _ Hra Hrb) as Hr.
    split; [|lra].
    unfold near in *. lra.
  Qed.

  (* consequence: one-sided bound and tightness against the true minimum *)
  Corollary rounded_inband_bounds h q x y s tol : h = 1 / 2 -> q = 1 / 4 ->
    0 < tol <= 1 -> tol <= s -> eta * 1000 <= u * (tol * tol) ->
    Rabs (rnd (x - y)) < s ->
    Rmin x y - s / 4 - 3 * u * (Rabs x + Rabs y + s) <= rounded_inband h q x y s <= Rmin x y + 3 * u * (Rabs x + Rabs y + s).
  Proof.
    intros Hh Hq Htol Hs Heta Hband.
    destruct (rounded_inband_near h q x y s tol Hh Hq Htol Hs Heta Hband) as [[H1 H2] Ht].
    assert (Hs0 : 0 < s) by lra.
    pose proof (closed_form_le_min x y s Hs0). pose proof (closed_form_ge_min_minus_quarter x y s Hs0 Ht).
    unfold closed_form in *. lra.
  Qed.
End Rounded.
