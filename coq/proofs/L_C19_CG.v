(* C19: the linear solve of WarmStart.warm_start_increment (model/M_C19_CG.v: scipy.sparse.linalg.cg as called there) over R.
   For a symmetric positive definite Hessian oracle and a symmetric positive definite preconditioner:
     * the recurred residual is the true residual b - H x (linearity only), so the stopping test is a test on the true residual;
     * the search directions are pairwise H-conjugate with positive curvature (full CG induction, spans handled through
       orthogonality as in proofs/L_C06_CGpc.v), hence there are at most n of them (proofs/L_C19_Dim.v): the loop flags
       convergence after at most n passes whenever maxiter > n -- scipy's default 10 n is enough;
     * therefore the increment returned by warm_start_increment satisfies |b - H dx| < rtol |b|, b = B (p_old - p_new), although
       the routine never looks at scipy's info flag, and for a residual affine in (x, p) the predicted point satisfies
       |g(x + dx, p_new)| <= |g(x, p_old)| + rtol |B (p_old - p_new)|. *)
From Coq Require Import Reals Lra Lia List Bool.
From OV.base Require Import Num.
From OV.model Require Import M_C06_Vec M_C19_CG.
From OV.proofs Require Import L_C06_Vec L_C06_CG L_C19_Dim.
Import ListNotations.
Local Open Scope R_scope.

Definition nrm (v : rvec) : R := sqrt (v ⋅ v).
Lemma nrm_nonneg v : 0 <= nrm v. Proof. apply sqrt_pos. Qed.
Lemma nrm_sq v : nrm v * nrm v = v ⋅ v. Proof. apply sqrt_sqrt, rdot_self_nonneg. Qed.
Lemma vnorm_R v : @vnorm R NumR v = nrm v. Proof. reflexivity. Qed.

(* u = v + e in weak form  =>  |u| <= |v| + |e| *)
Lemma nrm_weak_triangle n u v e : len n u -> len n v -> len n e ->
  (forall w, len n w -> u ⋅ w = v ⋅ w + e ⋅ w) -> nrm u <= nrm v + nrm e.
Proof.
  intros Lu Lv Le Hw. pose proof (Hw u Lu) as E.
  pose proof (rdot_cauchy_schwarz n v u Lv Lu) as C1. pose proof (rdot_cauchy_schwarz n e u Le Lu) as C2.
  pose proof (nrm_nonneg u) as Nu. pose proof (nrm_nonneg v) as Nv. pose proof (nrm_nonneg e) as Ne.
  pose proof (nrm_sq u) as Su. pose proof (nrm_sq v) as Sv. pose proof (nrm_sq e) as Se.
  assert (A1 : v ⋅ u <= nrm v * nrm u).
  { destruct (Rle_dec (v ⋅ u) 0) as [|Hp]; [apply Rle_trans with 0; [assumption|apply Rmult_le_pos; assumption]|].
    apply Rsqr_incr_0_var; [|apply Rmult_le_pos; assumption]. unfold Rsqr.
    replace (nrm v * nrm u * (nrm v * nrm u)) with ((nrm v * nrm v) * (nrm u * nrm u)) by ring. rewrite Su, Sv. exact C1. }
  assert (A2 : e ⋅ u <= nrm e * nrm u).
  { destruct (Rle_dec (e ⋅ u) 0) as [|Hp]; [apply Rle_trans with 0; [assumption|apply Rmult_le_pos; assumption]|].
    apply Rsqr_incr_0_var; [|apply Rmult_le_pos; assumption]. unfold Rsqr.
    replace (nrm e * nrm u * (nrm e * nrm u)) with ((nrm e * nrm e) * (nrm u * nrm u)) by ring. rewrite Su, Se. exact C2. }
  destruct (Req_dec (nrm u) 0) as [Z|NZ]; [lra|].
  assert (0 < nrm u) by lra.
  assert (nrm u * nrm u <= (nrm v + nrm e) * nrm u) by (rewrite Su, E; lra).
  apply Rmult_le_reg_r with (nrm u); assumption.
Qed.

Section ScipyCG.
  Variable n : nat.
  Variables Hf Pf : rvec -> rvec.            (* objective.hessian_vec(x, .), objective.apply_precond *)
  Hypothesis Hlen : forall v, len n v -> len n (Hf v).
  Hypothesis Plen : forall v, len n v -> len n (Pf v).
  Hypothesis Hlin : forall a k b, len n a -> len n b -> Hf (raxpy a k b) = raxpy (Hf a) k (Hf b).
  Hypothesis Hsym : forall a b, len n a -> len n b -> a ⋅ Hf b = Hf a ⋅ b.
  Hypothesis Hpos : forall v, len n v -> 0 < v ⋅ v -> 0 < v ⋅ Hf v.
  Hypothesis Psym : forall a b, len n a -> len n b -> a ⋅ Pf b = Pf a ⋅ b.
  Hypothesis Ppos : forall v, len n v -> 0 < v ⋅ v -> 0 < v ⋅ Pf v.
  Variable b : rvec.
  Hypothesis blen : len n b.
  Variable atol : R.
  Hypothesis atol_pos : 0 < atol.

  Definition orth (w : rvec) (ds : list rvec) : Prop := forall e, In e ds -> w ⋅ e = 0.
  Notation CJ := (Conj n Hf).

  (* what is known about the previous pass when there was one: ps = p :: ps' *)
  Definition Prev (ps : list rvec) (p r : rvec) (rho_prev : R) : Prop :=
    match ps with
    | [] => True
    | e :: ps' => e = p /\ exists r_prev, len n r_prev /\ rho_prev = r_prev ⋅ Pf r_prev /\ 0 < rho_prev
        /\ (forall w, len n w -> r ⋅ w = r_prev ⋅ w - rho_prev / (p ⋅ Hf p) * (Hf p ⋅ w))
        /\ (forall w, len n w -> orth w ps -> w ⋅ Pf r_prev = 0)                                  (* P r_prev in span ps *)
        /\ (forall e', In e' ps' -> forall w, len n w -> orth w ps -> Pf w ⋅ Hf e' = 0)           (* P H e' in span ps *)
    end.

  Record Inv (ps : list rvec) (it : nat) (x r p : rvec) (rho_prev : R) : Prop := {
    i_x : len n x; i_r : len n r;
    i_it : it = length ps;
    i_res : forall w, len n w -> r ⋅ w = b ⋅ w - Hf x ⋅ w;      (* the recurred residual is the true one *)
    i_orth : orth r ps;
    i_conj : CJ ps;
    i_prev : Prev ps p r rho_prev }.

  Lemma pos_of_dot u v : 0 < u ⋅ v -> 0 < v ⋅ v.
  Proof.
    intros H. pose proof (rdot_self_nonneg v). destruct (Req_dec (v ⋅ v) 0) as [Z|]; [|lra].
    pose proof (rdot_self_zero v Z u) as Z1. rewrite rdot_comm in Z1. lra.
  Qed.

  Lemma inv_step ps it x r p rho_prev : Inv ps it x r p rho_prev -> 0 < r ⋅ r ->
    let z := Pf r in
    let rho := r ⋅ z in
    let p' := match it with O => z | S _ => radd (rscale (rho / rho_prev) p) z end in
    let q := Hf p' in
    let alpha := rho / (p' ⋅ q) in
    Inv (p' :: ps) (S it) (raxpy x alpha p') (rsub r (rscale alpha q)) p' rho.
  Proof.
    intros [Ix Ir Iit Ires Iorth Iconj Iprev] Hrr z rho p' q alpha.
    assert (Lz : len n z) by (apply Plen; assumption).
    assert (Hrho : 0 < rho) by (apply Ppos; assumption).
    (* the four facts about the new direction *)
    assert (F : len n p' /\ r ⋅ p' = rho /\ (forall e, In e ps -> p' ⋅ Hf e = 0)
                /\ (forall w, len n w -> orth w (p' :: ps) -> w ⋅ z = 0)
                /\ (forall e', In e' ps -> forall w, len n w -> orth w (p' :: ps) -> Pf w ⋅ Hf e' = 0)).
    { destruct ps as [|e ps'].
      - subst it. cbn in p'. subst p'. split; [assumption|]. split; [reflexivity|]. split; [intros e []|].
        split; [|intros e' []]. intros w Lw Ho. apply (Ho z). left; reflexivity.
      - subst it. cbn [length] in p'.
        destruct Iprev as (-> & r_prev & Lrp & Erho & Hrp & Hupd & Hspan & HPH).
        destruct Iconj as (Lp & Hcurv & Hcp & Cps').
        assert (LHp : len n (Hf p)) by auto.
        set (beta := rho / rho_prev) in *.
        assert (Lp' : len n p') by (unfold p'; auto with vlen).
        assert (Erp : r ⋅ p = 0) by (apply Iorth; left; reflexivity).
        assert (Edot : forall w, len n w -> w ⋅ p' = beta * (w ⋅ p) + w ⋅ z).
        { intros w Lw. unfold p'. rewrite (rdot_radd_r n) by auto with vlen. rewrite rdot_rscale_r. reflexivity. }
        assert (Edot' : forall w, len n w -> p' ⋅ w = beta * (p ⋅ w) + z ⋅ w).
        { intros w Lw. rewrite rdot_comm, Edot by assumption. rewrite (rdot_comm w p), (rdot_comm w z). reflexivity. }
        split; [exact Lp'|]. split; [rewrite Edot by assumption; rewrite Erp; fold rho; ring|].
        assert (Hzspan : forall w, len n w -> orth w (p' :: p :: ps') -> w ⋅ z = 0).
        { intros w Lw Ho. pose proof (Ho p' (or_introl eq_refl)) as E1. rewrite Edot in E1 by assumption.
          rewrite (Ho p (or_intror (or_introl eq_refl))) in E1. lra. }
        split; [|split; [exact Hzspan|]].
        + intros e [<-|He].
          * rewrite Edot' by assumption.
            pose proof (Hupd z Lz) as U. fold rho in U.
            assert (Z0 : r_prev ⋅ z = 0).
            { unfold z. rewrite Psym by assumption. rewrite rdot_comm. apply Hspan; assumption. }
            rewrite Z0 in U. rewrite (rdot_comm z (Hf p)).
            assert (H : Hf p ⋅ z = - rho * (p ⋅ Hf p) / rho_prev).
            { set (y := Hf p ⋅ z) in *. set (cc := p ⋅ Hf p) in *. rewrite U. field. split; lra. }
            rewrite H. unfold beta. field. lra.
          * assert (Le : len n e) by (eapply Forall_forall; [apply (Conj_len n Hf ps' Cps')|exact He]).
            rewrite Edot' by auto. rewrite (Hcp e He).
            assert (z ⋅ Hf e = 0) by (apply (HPH e He r Ir Iorth)). lra.
        + intros e' [<-|He'] w Lw Ho.
          * assert (Ho' : orth w (p :: ps')) by (intros e He; apply Ho; right; exact He).
            assert (LPw : len n (Pf w)) by auto.
            pose proof (Hupd (Pf w) LPw) as U.
            assert (A1 : r_prev ⋅ Pf w = 0).
            { rewrite Psym by assumption. rewrite rdot_comm. apply Hspan; assumption. }
            assert (A2 : r ⋅ Pf w = 0).
            { rewrite Psym by assumption. rewrite rdot_comm. apply Hzspan; assumption. }
            rewrite A1, A2 in U.
            assert (0 < rho_prev / (p ⋅ Hf p)) by (apply Rdiv_lt_0_compat; assumption).
            rewrite rdot_comm. nra.
          * apply (HPH e' He' w Lw). intros e He; apply Ho; right; exact He. }
    destruct F as (Lp' & Erp' & Hconj' & Hzspan & HPH').
    assert (Hpp : 0 < p' ⋅ p') by (apply (pos_of_dot r); lra).
    assert (Lq : len n q) by (apply Hlen; assumption).
    assert (Hcurv : 0 < p' ⋅ q) by (apply Hpos; assumption).
    assert (Halpha : 0 < alpha) by (apply Rdiv_lt_0_compat; assumption).
    assert (Hupd' : forall w, len n w -> rsub r (rscale alpha q) ⋅ w = r ⋅ w - alpha * (q ⋅ w)).
    { intros w Lw. rewrite (rdot_rsub_l n) by auto with vlen. rewrite rdot_rscale_l. reflexivity. }
    constructor.
    - auto with vlen.
    - auto with vlen.
    - simpl. congruence.
    - intros w Lw. rewrite Hupd' by assumption. rewrite Hlin by assumption.
      rewrite (rdot_raxpy_l n) by auto. rewrite (Ires w Lw). fold q. ring.
    - intros e [<-|He].
      + rewrite Hupd' by assumption. rewrite Erp'. rewrite (rdot_comm q p'). unfold alpha. field. lra.
      + rewrite Hupd' by (apply (Conj_len n Hf ps Iconj) || idtac; eapply Forall_forall; [apply (Conj_len n Hf ps Iconj)|exact He]).
        rewrite (Iorth e He). unfold q. rewrite <- Hsym; [|assumption|eapply Forall_forall; [apply (Conj_len n Hf ps Iconj)|exact He]].
        rewrite (Hconj' e He). ring.
    - cbn [Conj]. repeat split; assumption.
    - cbn [Prev]. split; [reflexivity|]. exists r. split; [assumption|]. split; [reflexivity|]. split; [assumption|].
      split; [intros w Lw; rewrite Hupd' by assumption; reflexivity|]. split; [exact Hzspan|exact HPH'].
  Qed.

  Definition loopR := @scg_loop R NumR Hf Pf.

  (* the true residual of the returned point *)
  Definition tres (x : rvec) : rvec := rsub b (Hf x).
  Lemma tres_of_res x r : len n x -> len n r -> (forall w, len n w -> r ⋅ w = b ⋅ w - Hf x ⋅ w) -> tres x ⋅ tres x = r ⋅ r.
  Proof.
    intros Lx Lr Hres. unfold tres. assert (LH := Hlen x Lx).
    rewrite (rdot_rsub_l n), !(rdot_rsub_r n) by assumption.
    rewrite (Hres r Lr). rewrite (rdot_comm b r), (rdot_comm (Hf x) r). rewrite (Hres b blen), (Hres (Hf x) LH). ring.
  Qed.

  Theorem scg_loop_spec fuel : forall ps it x r p rho_prev, Inv ps it x r p rho_prev ->
    let '(xr, ok, k) := loopR fuel it atol x r p rho_prev in
    len n xr /\ (it <= k <= n)%nat /\ (ok = true -> nrm (tres xr) < atol) /\ ((n < fuel + it)%nat -> ok = true).
  Proof.
    induction fuel as [|f IH]; intros ps it x r p rho_prev I.
    - cbn [loopR scg_loop]. pose proof (conj_length n Hf Hlen Hsym ps (i_conj _ _ _ _ _ _ I)) as Hk.
      rewrite <- (i_it _ _ _ _ _ _ I) in Hk.
      split; [apply I|]. split; [lia|]. split; [discriminate|]. intros; lia.
    - unfold loopR. cbn [scg_loop]. rewrite vnorm_R. unfold_num. unfold Rltb.
      pose proof (conj_length n Hf Hlen Hsym ps (i_conj _ _ _ _ _ _ I)) as Hk. rewrite <- (i_it _ _ _ _ _ _ I) in Hk.
      destruct (Rlt_dec (nrm r) atol) as [Hc|Hc].
      + split; [apply I|]. split; [lia|]. split; [|reflexivity]. intros _. unfold nrm.
        rewrite (tres_of_res x r); [exact Hc|apply I|apply I|apply I].
      + assert (Hrr : 0 < r ⋅ r).
        { pose proof (rdot_self_nonneg r). destruct (Req_dec (r ⋅ r) 0) as [Z|]; [|lra].
          exfalso. apply Hc. unfold nrm. rewrite Z, sqrt_0. exact atol_pos. }
        pose proof (inv_step ps it x r p rho_prev I Hrr) as I'. cbv zeta in I'.
        specialize (IH _ _ _ _ _ _ I'). fold loopR.
        change (@vadd R NumR) with radd. change (@vscale R NumR) with rscale. change (@vsub R NumR) with rsub.
        change (@vaxpy R NumR) with raxpy. change (@vdot R NumR) with rdot.
        destruct (loopR f (S it) atol _ _ _ _) as [[xr ok] k].
        destruct IH as (L & Hk' & Hok & Hfuel). split; [exact L|]. split; [lia|]. split; [exact Hok|].
        intros Hn. apply Hfuel. lia.
  Qed.

  (* the start state of scipy's cg: x = 0, r = b *)
  Lemma raxpy_self_neg (x : rvec) : raxpy x (-1) x = rzero x.
  Proof. induction x as [|a x IH]; [reflexivity|]. cbn. unfold_num. q2r. f_equal; [ring|exact IH]. Qed.
  Lemma Hf_zero x w : len n x -> Hf (rzero x) ⋅ w = 0.
  Proof. intros Lx. rewrite <- raxpy_self_neg, Hlin by assumption. rewrite (rdot_raxpy_l n) by auto. ring. Qed.

  Lemma inv_start : Inv [] 0 (rzero b) b b 0.
  Proof.
    constructor.
    - auto with vlen.
    - assumption.
    - reflexivity.
    - intros w Lw. rewrite (Hf_zero b w blen). ring.
    - intros e [].
    - exact I.
    - exact I.
  Qed.
End ScipyCG.

(* ---- scipy_cg and warm_start_increment *)
Section WarmStartIncrement.
  Variable n : nat.
  Variables Hf Pf : rvec -> rvec.
  Hypothesis Hlen : forall v, len n v -> len n (Hf v).
  Hypothesis Plen : forall v, len n v -> len n (Pf v).
  Hypothesis Hlin : forall a k b, len n a -> len n b -> Hf (raxpy a k b) = raxpy (Hf a) k (Hf b).
  Hypothesis Hsym : forall a b, len n a -> len n b -> a ⋅ Hf b = Hf a ⋅ b.
  Hypothesis Hpos : forall v, len n v -> 0 < v ⋅ v -> 0 < v ⋅ Hf v.
  Hypothesis Psym : forall a b, len n a -> len n b -> a ⋅ Pf b = Pf a ⋅ b.
  Hypothesis Ppos : forall v, len n v -> 0 < v ⋅ v -> 0 < v ⋅ Pf v.

  Theorem scipy_cg_solves b maxiter rtol : len n b -> 0 < rtol -> (n < maxiter)%nat ->
    let '(x, ok, k) := @scipy_cg R NumR Hf Pf b maxiter rtol 0 in
    len n x /\ ok = true /\ (k <= n)%nat /\ nrm (tres Hf b x) <= rtol * nrm b.
  Proof.
    intros Lb Hrtol Hmax. unfold scipy_cg, scg_atol. rewrite !vnorm_R. unfold nmax. unfold_num. q2r.
    replace (0 / 1) with 0 by field. unfold Reqb, Rltb.
    pose proof (nrm_nonneg b) as Nb.
    destruct (Req_EM_T (nrm b) 0) as [Z|NZ].
    - (* b = 0: returned as it is *)
      cbv beta iota.
      assert (Zb : b ⋅ b = 0) by (rewrite <- nrm_sq, Z; ring).
      split; [exact Lb|]. split; [reflexivity|]. split; [lia|]. rewrite Z, Rmult_0_r.
      assert (E : tres Hf b b ⋅ tres Hf b b = 0).
      { unfold tres. assert (LH := Hlen b Lb). rewrite (rdot_rsub_l n), !(rdot_rsub_r n) by assumption.
        rewrite Zb. rewrite (rdot_self_zero b Zb (Hf b)). rewrite (rdot_comm (Hf b) b), (rdot_self_zero b Zb (Hf b)).
        rewrite <- Hsym by assumption. rewrite (rdot_self_zero b Zb (Hf (Hf b))). ring. }
      unfold nrm. rewrite E, sqrt_0. lra.
    - cbv beta iota.
      assert (Hpos' : 0 < rtol * nrm b) by (apply Rmult_lt_0_compat; lra).
      destruct (Rlt_dec 0 (rtol * nrm b)) as [_|C]; [|contradiction].
      pose proof (scg_loop_spec n Hf Pf Hlen Plen Hlin Hsym Hpos Psym Ppos b Lb (rtol * nrm b) Hpos' maxiter
                    [] 0%nat (rzero b) b b 0 (inv_start n Hf Pf Hlen Hlin b Lb)) as S.
      unfold loopR in S. change (@vzero_like R NumR b) with (rzero b).
      destruct (scg_loop Hf Pf maxiter 0 (rtol * nrm b) (rzero b) b b 0) as [[x ok] k].
      destruct S as (L & Hk & Hok & Hfuel). assert (ok = true) by (apply Hfuel; lia).
      split; [exact L|]. split; [assumption|]. split; [lia|]. apply Rlt_le, Hok. assumption.
  Qed.

  (* WarmStart.warm_start_increment: m = size of the parameter slot, Bf = objective.jacobian_p_vec(x, .) *)
  Variable m : nat.
  Variable Bf : rvec -> rvec.
  Hypothesis Blen : forall q, len m q -> len n (Bf q).

  Theorem warm_start_increment_solves p_old p_new rtol : len m p_old -> len m p_new -> 0 < rtol ->
    let bb := Bf (rsub p_old p_new) in
    let '(dx, ok, k) := @warm_start_increment R NumR Hf Pf Bf p_old p_new rtol in
    len n dx /\ ok = true /\ (k <= n)%nat /\ nrm (rsub bb (Hf dx)) <= rtol * nrm bb.
  Proof.
    intros Lo Ln Hrtol bb. unfold warm_start_increment.
    change (@vsub R NumR p_old p_new) with (rsub p_old p_new). fold bb.
    assert (Lb : len n bb) by (unfold bb; auto with vlen).
    rewrite Lb. destruct (Nat.eq_dec n 0) as [E0|NE0].
    - (* no unknowns: b = [] *)
      assert (L0 : len 0 bb) by (unfold len in *; congruence).
      rewrite (len_0_inv bb L0). unfold scipy_cg. rewrite vnorm_R. unfold nrm at 1. rewrite rdot_nil_l, sqrt_0.
      unfold_num. q2r. unfold Reqb.
      match goal with |- context [Req_EM_T ?u ?v] => destruct (Req_EM_T u v) as [_|C]; [|exfalso; apply C; lra] end.
      cbv beta iota. split; [unfold len; simpl; congruence|]. split; [reflexivity|]. split; [lia|].
      unfold nrm. rewrite rdot_nil_r, rdot_nil_l, sqrt_0. lra.
    - apply (scipy_cg_solves bb (10 * n) rtol Lb Hrtol). lia.
  Qed.

  (* the predicted point for a residual affine in (x, p): g(x, p) = H x + B p + c *)
  Variable c : rvec.
  Hypothesis clen : len n c.
  Hypothesis Blin : forall p q w, len m p -> len m q -> len n w -> Bf (rsub p q) ⋅ w = Bf p ⋅ w - Bf q ⋅ w.
  Definition gaff (x p : rvec) : rvec := radd (radd (Hf x) (Bf p)) c.

  Lemma raxpy_one (a d : rvec) : raxpy a 1 d = radd a d.
  Proof.
    unfold vaxpy. f_equal. unfold vscale. induction d as [|y d IH]; [reflexivity|]. cbn. unfold_num. f_equal; [ring|exact IH].
  Qed.

  Theorem warm_start_increment_residual_bound x p_old p_new rtol : len n x -> len m p_old -> len m p_new -> 0 < rtol ->
    let dx := fst (fst (@warm_start_increment R NumR Hf Pf Bf p_old p_new rtol)) in
    nrm (gaff (radd x dx) p_new) <= nrm (gaff x p_old) + rtol * nrm (Bf (rsub p_old p_new)).
  Proof.
    intros Lx Lo Ln Hrtol dx.
    pose proof (warm_start_increment_solves p_old p_new rtol Lo Ln Hrtol) as S. cbv zeta in S.
    subst dx. destruct (warm_start_increment Hf Pf Bf p_old p_new rtol) as [[dx ok] k]. cbn [fst].
    destruct S as (Ldx & _ & _ & Hres).
    set (bb := Bf (rsub p_old p_new)) in *.
    assert (Lb : len n bb) by (unfold bb; auto with vlen).
    set (e := rsub (Hf dx) bb).
    assert (Le : len n e) by (unfold e; auto with vlen).
    assert (Ne : nrm e = nrm (rsub bb (Hf dx))).
    { unfold nrm, e. f_equal. assert (LH := Hlen dx Ldx). rewrite !(rdot_rsub_l n), !(rdot_rsub_r n) by assumption. ring. }
    apply Rle_trans with (nrm (gaff x p_old) + nrm e); [|lra].
    apply (nrm_weak_triangle n); unfold gaff; auto 6 with vlen.
    intros w Lw. assert (LHx := Hlen x Lx). assert (LHd := Hlen dx Ldx).
    rewrite <- (raxpy_one x dx), Hlin by assumption. rewrite raxpy_one.
    unfold e. rewrite !(rdot_radd_l n), (rdot_rsub_l n) by auto with vlen.
    unfold bb. rewrite (Blin p_old p_new w) by assumption. ring.
  Qed.
End WarmStartIncrement.

(* the hypotheses are satisfiable: Hessian 2 I, identity preconditioner, identity parameter Jacobian, two unknowns *)
Example warm_start_increment_nonvacuous :
  let '(dx, ok, k) := @warm_start_increment R NumR (rscale 2) (fun v => v) (fun v => v) [1; 0] [0; 0] (/ 100000) in
  len 2 dx /\ ok = true /\ (k <= 2)%nat /\ nrm (rsub (rsub [1; 0] [0; 0]) (rscale 2 dx)) <= / 100000 * nrm (rsub [1; 0] [0; 0]).
Proof.
  apply (warm_start_increment_solves 2 (rscale 2) (fun v => v)) with (m := 2%nat); try reflexivity; try lra; intros; auto with vlen.
  - apply rscale_raxpy.
  - rewrite rdot_rscale_r, rdot_rscale_l. reflexivity.
  - rewrite rdot_rscale_r. lra.
Qed.
