(* C06 -- the eigenvalue-based sub-problem solver (treigen.solve):
   (1) More'-Sorensen sufficiency: a point satisfying the shifted system with a positive semidefinite shift is a global
       minimiser of the model over the ball (this is what the L2 predicate of the harness checks on the implementation);
   (2) the hard-case completion (after repo commit 5a997d7: z = v[:,0]) lands on the boundary and is optimal up to
       2|tau| eps Delta, where eps = 1e-12*mean|sig| is the code's shift of the lowest eigenvalue. *)
From Coq Require Import Reals Lra Lia List QArith Psatz Bool.
From OV.base Require Import Num.
From OV.model Require Import M_C06_Vec M_C06_Treigen.
From OV.proofs Require Import L_C06_Vec.
From Coq Require Import ZArith.
From Coq Require Floats.PrimFloat.
Import ListNotations.
Local Open Scope R_scope.

Definition energyR (A : rvec -> rvec) (b s : rvec) : R := / 2 * (s ⋅ A s) + s ⋅ b.
Lemma tr_energy_R (A : list rvec) b s : @tr_energy R NumR A b s = energyR (@matvec R NumR A) b s.
Proof. unfold tr_energy, energyR. unfold_num. q2r. lra. Qed.

Lemma raxpy_rsub_cancel (p s : rvec) : length p = length s -> raxpy p 1 (rsub s p) = s.
Proof.
  revert s; induction p as [|x p IH]; intros [|y s] E; try discriminate; [reflexivity|].
  cbn. unfold_num. f_equal; [ring|]. apply IH. simpl in E; congruence.
Qed.

Section MS.
  Variable n : nat.
  Variable A : rvec -> rvec.
  Variables (b p : rvec) (lam Delta : R).
  Hypothesis Alen : forall v, len n v -> len n (A v).
  Hypothesis Alin : forall a k c, len n a -> len n c -> A (raxpy a k c) = raxpy (A a) k (A c).
  Hypothesis Asym : forall a c, len n a -> len n c -> a ⋅ A c = A a ⋅ c.
  Hypothesis blen : len n b.
  Hypothesis plen : len n p.
  Hypothesis lam_nonneg : 0 <= lam.
  Hypothesis shifted_system : forall w, len n w -> A p ⋅ w + lam * (p ⋅ w) = - (b ⋅ w).     (* (A + lam I) p = -b *)
  Hypothesis shifted_psd : forall v, len n v -> 0 <= v ⋅ A v + lam * (v ⋅ v).               (* A + lam I >= 0 *)
  Hypothesis in_ball : p ⋅ p <= Delta * Delta.
  Hypothesis complementarity : lam * (Delta * Delta - p ⋅ p) = 0.                           (* |p| = Delta, or lam = 0 *)

  Theorem ms_sufficiency s : len n s -> s ⋅ s <= Delta * Delta -> energyR A b p <= energyR A b s.
  Proof.
    intros Hs Hball.
    assert (He : len n (rsub s p)) by auto with vlen.
    assert (Es : s = raxpy p 1 (rsub s p)) by (symmetry; apply raxpy_rsub_cancel; congruence).
    set (e := rsub s p) in *.
    assert (HAp := Alen p plen). assert (HAe := Alen e He).
    assert (Ess : s ⋅ s = p ⋅ p + 2 * (p ⋅ e) + e ⋅ e).
    { rewrite Es at 1 2. rewrite (rdot_raxpy_self n) by assumption. ring. }
    assert (Een : energyR A b s = energyR A b p + (A p ⋅ e + b ⋅ e) + / 2 * (e ⋅ A e)).
    { unfold energyR. rewrite Es at 1 2 3. rewrite Alin by assumption.
      rewrite (rdot_raxpy_l n), !(rdot_raxpy_r n), (rdot_raxpy_l n) by auto with vlen.
      rewrite (Asym p e), (rdot_comm e (A p)), (rdot_comm e b) by assumption. field. }
    pose proof (shifted_system e He) as Hsys. pose proof (shifted_psd e He) as Hpsd.
    rewrite Een.
    assert (lam * (s ⋅ s - p ⋅ p) <= 0).
    { assert (lam * (s ⋅ s - p ⋅ p) = lam * (s ⋅ s - Delta * Delta)) by lra.
      assert (lam * (s ⋅ s - Delta * Delta) <= 0) by nra. lra. }
    nra.
  Qed.
End MS.

Lemma ms_sufficiency_full : forall n (A : rvec -> rvec) (b p : rvec) lam Delta,
  (forall v, len n v -> len n (A v)) ->
  (forall a k c, len n a -> len n c -> A (raxpy a k c) = raxpy (A a) k (A c)) ->
  (forall a c, len n a -> len n c -> a ⋅ A c = A a ⋅ c) ->
  len n b -> len n p -> 0 <= lam ->
  (forall w, len n w -> A p ⋅ w + lam * (p ⋅ w) = - (b ⋅ w)) ->
  (forall v, len n v -> 0 <= v ⋅ A v + lam * (v ⋅ v)) ->
  p ⋅ p <= Delta * Delta -> lam * (Delta * Delta - p ⋅ p) = 0 ->
  forall s, len n s -> s ⋅ s <= Delta * Delta -> energyR A b p <= energyR A b s.
Proof. intros n A b p lam Delta H1 H2 H3 _ H5 H6 H7 H8 _ H10. exact (ms_sufficiency n A b p lam Delta H1 H2 H3 H5 H6 H7 H8 H10). Qed.

(* ------------------------------------------------------------------ the hard case (as repaired in repo commit 5a997d7) *)
(* the completed step lies on the boundary *)
Lemma hard_case_on_boundary n (p z : rvec) Delta : len n p -> len n z -> z ⋅ z = 1 -> p ⋅ p < Delta * Delta ->
  let x := @hard_case_step R NumR p z Delta in
  len n x /\ x ⋅ x = Delta * Delta.
Proof.
  intros Hp Hz Hzz Hpp. cbv zeta. unfold hard_case_step. unfold_num. q2r.
  set (pz := p ⋅ z). set (pp := p ⋅ p) in *. set (dd := Delta * Delta - pp).
  assert (Hdd : 0 < dd) by (unfold dd; lra).
  assert (Hrad : 0 < pz * pz + dd) by nra.
  pose proof (sqrt_sqrt (pz * pz + dd) ltac:(lra)) as Hs. pose proof (sqrt_lt_R0 _ Hrad) as Hs0.
  set (s := sqrt (pz * pz + dd)) in *.
  assert (Hgt : Rabs pz < s).
  { apply Rabs_def1; nra. }
  split; [auto with vlen|].
  rewrite (rdot_raxpy_self n) by assumption. fold pz pp. rewrite Hzz.
  unfold Rltb. destruct (Rlt_dec pz 0) as [Hneg|Hpos].
  - match goal with |- context [dd / ?D] => replace D with (pz - s) by ring end.
    assert (Hd : pz - s <> 0) by (rewrite Rabs_left in Hgt by lra; lra).
    assert (E : dd / (pz - s) = - (s + pz)). { apply Rmult_eq_reg_r with (pz - s); [|exact Hd]. unfold Rdiv. rewrite Rmult_assoc, Rinv_l by exact Hd. nra. }
    rewrite E. unfold dd in *. nra.
  - match goal with |- context [dd / ?D] => replace D with (pz + s) by ring end.
    assert (Hd : pz + s <> 0) by lra.
    assert (E : dd / (pz + s) = s - pz). { apply Rmult_eq_reg_r with (pz + s); [|exact Hd]. unfold Rdiv. rewrite Rmult_assoc, Rinv_l by exact Hd. nra. }
    rewrite E. unfold dd in *. nra.
Qed.

(* optimality of a point x = p + tau z on the boundary when p solves the shifted system and z is a unit eigenvector whose
   shifted eigenvalue is eps >= 0 (the code uses lam = -minSig + eps with eps = 1e-12*mean|sig|):
   x minimises the model over the ball up to 2*|tau|*eps*Delta; with eps = 0 (the exact hard case) it is a global minimiser. *)
Section HardCase.
  Variable n : nat.
  Variable A : rvec -> rvec.
  Variables (b p z : rvec) (lam eps tau Delta : R).
  Hypothesis Alen : forall v, len n v -> len n (A v).
  Hypothesis Alin : forall a k c, len n a -> len n c -> A (raxpy a k c) = raxpy (A a) k (A c).
  Hypothesis Asym : forall a c, len n a -> len n c -> a ⋅ A c = A a ⋅ c.
  Hypothesis blen : len n b.
  Hypothesis plen : len n p.
  Hypothesis zlen : len n z.
  Hypothesis lam_nonneg : 0 <= lam.
  Hypothesis eps_nonneg : 0 <= eps.
  Hypothesis Delta_nonneg : 0 <= Delta.
  Hypothesis shifted_system : forall w, len n w -> A p ⋅ w + lam * (p ⋅ w) = - (b ⋅ w).
  Hypothesis shifted_psd : forall v, len n v -> 0 <= v ⋅ A v + lam * (v ⋅ v).
  Hypothesis z_unit : z ⋅ z = 1.
  Hypothesis z_eigen : forall w, len n w -> A z ⋅ w + lam * (z ⋅ w) = eps * (z ⋅ w).     (* (A + lam I) z = eps z *)
  Let x := raxpy p tau z.
  Hypothesis on_boundary : x ⋅ x = Delta * Delta.

  Theorem hard_case_near_optimal s : len n s -> s ⋅ s <= Delta * Delta ->
    energyR A b x <= energyR A b s + 2 * Rabs tau * eps * Delta.
  Proof.
    intros Hs Hball.
    assert (Hx : len n x) by (unfold x; auto with vlen).
    assert (He : len n (rsub s x)) by auto with vlen.
    assert (Es : s = raxpy x 1 (rsub s x)) by (symmetry; apply raxpy_rsub_cancel; congruence).
    set (e := rsub s x) in *.
    assert (HAx := Alen x Hx). assert (HAe := Alen e He). assert (HAp := Alen p plen). assert (HAz := Alen z zlen).
    assert (Ess : s ⋅ s = x ⋅ x + 2 * (x ⋅ e) + e ⋅ e).
    { rewrite Es at 1 2. rewrite (rdot_raxpy_self n) by assumption. ring. }
    assert (Een : energyR A b s = energyR A b x + (A x ⋅ e + b ⋅ e) + / 2 * (e ⋅ A e)).
    { unfold energyR. rewrite Es at 1 2 3. rewrite Alin by assumption.
      rewrite (rdot_raxpy_l n), !(rdot_raxpy_r n), (rdot_raxpy_l n) by auto with vlen.
      rewrite (Asym x e), (rdot_comm e (A x)), (rdot_comm e b) by assumption. field. }
    (* residual of the shifted system at x: (A + lam I) x + b = tau * eps * z *)
    assert (Hres : A x ⋅ e + lam * (x ⋅ e) + b ⋅ e = tau * eps * (z ⋅ e)).
    { unfold x. rewrite Alin by assumption. rewrite !(rdot_raxpy_l n) by auto with vlen.
      pose proof (shifted_system e He). pose proof (z_eigen e He). nra. }
    pose proof (shifted_psd e He) as Hpsd.
    (* |z.e| <= 2 Delta *)
    pose proof (rdot_cauchy_schwarz n z e zlen He) as Hcs. rewrite z_unit in Hcs.
    assert (Hee : e ⋅ e <= 4 * (Delta * Delta)).
    { pose proof (rdot_cauchy_schwarz n s x Hs Hx) as H1.
      assert (Esx : e ⋅ e = s ⋅ s - 2 * (s ⋅ x) + x ⋅ x).
      { unfold e. rewrite (rdot_rsub_l n), !(rdot_rsub_r n) by assumption. rewrite (rdot_comm x s). ring. }
      rewrite Esx. rewrite on_boundary in *.
      assert (Hsx : - (Delta * Delta) <= s ⋅ x).
      { destruct (Rle_dec 0 (s ⋅ x)); [nra|].
        assert ((s ⋅ x) * (s ⋅ x) <= (Delta * Delta) * (Delta * Delta)) by nra. nra. }
      nra. }
    assert (Hze : Rabs (z ⋅ e) <= 2 * Delta).
    { apply Rsqr_le_abs_0_alt || idtac. 
      assert ((z ⋅ e) * (z ⋅ e) <= (2 * Delta) * (2 * Delta)) by nra.
      apply Rabs_le. split; nra. }
    assert (Hterm : - (2 * Rabs tau * eps * Delta) <= tau * eps * (z ⋅ e)).
    { assert (Rabs (tau * (z ⋅ e)) <= Rabs tau * (2 * Delta)).
      { rewrite Rabs_mult. apply Rmult_le_compat_l; [apply Rabs_pos|exact Hze]. }
      pose proof (Rle_abs (- (tau * (z ⋅ e)))) as H2. rewrite Rabs_Ropp in H2.
      assert (- (Rabs tau * (2 * Delta)) <= tau * (z ⋅ e)) by lra.
      replace (tau * eps * (z ⋅ e)) with (eps * (tau * (z ⋅ e))) by ring.
      replace (2 * Rabs tau * eps * Delta) with (eps * (Rabs tau * (2 * Delta))) by ring. nra. }
    assert (Hlam : lam * (s ⋅ s - x ⋅ x) <= 0) by (rewrite on_boundary; nra).
    rewrite Een. nra.
  Qed.
End HardCase.

Lemma hard_case_near_optimal_full : forall n (A : rvec -> rvec) (b p z : rvec) lam eps tau Delta,
  (forall v, len n v -> len n (A v)) ->
  (forall a k c, len n a -> len n c -> A (raxpy a k c) = raxpy (A a) k (A c)) ->
  (forall a c, len n a -> len n c -> a ⋅ A c = A a ⋅ c) ->
  len n b -> len n p -> len n z -> 0 <= lam -> 0 <= eps -> 0 <= Delta ->
  (forall w, len n w -> A p ⋅ w + lam * (p ⋅ w) = - (b ⋅ w)) ->
  (forall v, len n v -> 0 <= v ⋅ A v + lam * (v ⋅ v)) ->
  z ⋅ z = 1 ->
  (forall w, len n w -> A z ⋅ w + lam * (z ⋅ w) = eps * (z ⋅ w)) ->
  raxpy p tau z ⋅ raxpy p tau z = Delta * Delta ->
  forall s, len n s -> s ⋅ s <= Delta * Delta ->
  energyR A b (raxpy p tau z) <= energyR A b s + 2 * Rabs tau * eps * Delta.
Proof. intros n A b p z lam eps tau Delta H1 H2 H3 H4 H5 H6 H7 H8 H9 H10 H11 H12 H13 H14 s Hs Hb. eapply (hard_case_near_optimal n A b p z lam eps tau Delta); eassumption. Qed.

(* ------------------------------------------------------------------ zero Hessian (finding F2b, fixed by repo commit 4d37146):
   the binary64 model takes the early return and yields -(Delta/|b|) b, resp. the zero step when b = 0 as well.
   Statements about the PrimFloat instance (the one executed against the implementation). *)
Lemma treigen_zero_hessian_binary64 :
  let I2 := [[F 1 0; F 0 0]; [F 0 0; F 1 0]] in
  let res := @treigen_solve PrimFloat.float NumF 100 [F 0 0; F 0 0] I2 [F 3 0; F (-4) 0] (F 10 0) in
  let res0 := @treigen_solve PrimFloat.float NumF 100 [F 0 0; F 0 0] I2 [F 0 0; F 0 0] (F 10 0) in
  fst res = TZero /\ fencs (snd res) = fencs [F (-6) 0; F 8 0] /\ fst res0 = TZero /\ fencs (snd res0) = fencs [F 0 0; F 0 0].
Proof. vm_compute. repeat split; reflexivity. Qed.

(* ------------------------------------------------------------------ the secular iteration can stall in binary64 (finding F2c, fixed
   by repo commit 545a5c4): for sig = (-3,-3), b = (1/2, 1/8), Delta = 2^23 the iteration reaches, after ONE update, a value of lam whose
   Newton correction is below its resolution while |bError| > 1e-9.  The uncapped `while` of the old code looped forever there; the
   repaired loop leaves through `if lamNew == lam: break`, whatever the cap. *)
Definition stall_sig : list PrimFloat.float := [F (-3) 0; F (-3) 0].
Definition stall_b : list PrimFloat.float := [F 1 (-1); F 1 (-3)].
Definition stall_Delta : PrimFloat.float := F 1 23.
Lemma treigen_secular_stall_exit_binary64 :
  fst (@treigen_solve PrimFloat.float NumF 100 stall_sig [[F 1 0; F 0 0]; [F 0 0; F 1 0]] stall_b stall_Delta) = TStalled 1 /\
  fst (@treigen_solve PrimFloat.float NumF 400 stall_sig [[F 1 0; F 0 0]; [F 0 0; F 1 0]] stall_b stall_Delta) = TStalled 1 /\
  fst (@treigen_solve PrimFloat.float NumF 2 stall_sig [[F 1 0; F 0 0]; [F 0 0; F 1 0]] stall_b stall_Delta) = TStalled 1.
Proof. vm_compute. repeat split; reflexivity. Qed.
(* with a cap of one pass the same input leaves through the end of the range with |bError| > 1e-9: the third exit *)
Lemma treigen_secular_cap_exit_binary64 :
  fst (@treigen_solve PrimFloat.float NumF 1 stall_sig [[F 1 0; F 0 0]; [F 0 0; F 1 0]] stall_b stall_Delta) = TCapped 1.
Proof. vm_compute. reflexivity. Qed.
