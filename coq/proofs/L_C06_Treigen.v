(* C06 -- the eigenvalue-based sub-problem solver (treigen.solve):
   (1) More'-Sorensen sufficiency: a point satisfying the shifted system with a positive semidefinite shift is a global
       minimiser of the model over the ball (this is what the L2 predicate of the harness checks on the implementation);
   (2) the hard-case branch AS WRITTEN (z = v[0], a row of the eigenvector matrix) returns a non-optimal point for a
       non-symmetric orthogonal eigenbasis: explicit witness over R. *)
From Coq Require Import Reals Lra Lia List QArith Psatz Bool.
From Interval Require Import Tactic.
From OV.base Require Import Num.
From OV.model Require Import M_C06_Vec M_C06_Treigen.
From OV.proofs Require Import L_C06_Vec.
From Coq Require Import ZArith Floats.PrimFloat.
Import ListNotations.
Local Open Scope R_scope.

Definition energyR (A : rvec -> rvec) (b s : rvec) : R := / 2 * (s ⋅ A s) + s ⋅ b.
Lemma tr_energy_R (A : list rvec) b s : @tr_energy R NumR A b s = energyR (@matvec R NumR A) b s.
Proof. unfold tr_energy, energyR. unfold_num. q2r. lra. Qed.

Lemma raxpy_rsub_cancel (p s : rvec) : length p = length s -> raxpy p 1 (rsub s p) = s.
Proof.
  revert s; induction p as [|x p IH]; intros [|y s] E; try discriminate; [reflexivity|].
  cbn. unfold_num. f_equal; [ring|]. apply IH. simpl in E; congruence.
Qed.

Section MS.
  Variable n : nat.
  Variable A : rvec -> rvec.
  Variables (b p : rvec) (lam Delta : R).
  Hypothesis Alen : forall v, len n v -> len n (A v).
  Hypothesis Alin : forall a k c, len n a -> len n c -> A (raxpy a k c) = raxpy (A a) k (A c).
  Hypothesis Asym : forall a c, len n a -> len n c -> a ⋅ A c = A a ⋅ c.
  Hypothesis blen : len n b.
  Hypothesis plen : len n p.
  Hypothesis lam_nonneg : 0 <= lam.
  Hypothesis shifted_system : forall w, len n w -> A p ⋅ w + lam * (p ⋅ w) = - (b ⋅ w).     (* (A + lam I) p = -b *)
  Hypothesis shifted_psd : forall v, len n v -> 0 <= v ⋅ A v + lam * (v ⋅ v).               (* A + lam I >= 0 *)
  Hypothesis in_ball : p ⋅ p <= Delta * Delta.
  Hypothesis complementarity : lam * (Delta * Delta - p ⋅ p) = 0.                           (* |p| = Delta, or lam = 0 *)

  Theorem ms_sufficiency s : len n s -> s ⋅ s <= Delta * Delta -> energyR A b p <= energyR A b s.
  Proof.
    intros Hs Hball.
    assert (He : len n (rsub s p)) by auto with vlen.
    assert (Es : s = raxpy p 1 (rsub s p)) by (symmetry; apply raxpy_rsub_cancel; congruence).
    set (e := rsub s p) in *.
    assert (HAp := Alen p plen). assert (HAe := Alen e He).
    assert (Ess : s ⋅ s = p ⋅ p + 2 * (p ⋅ e) + e ⋅ e).
    { rewrite Es at 1 2. rewrite (rdot_raxpy_self n) by assumption. ring. }
    assert (Een : energyR A b s = energyR A b p + (A p ⋅ e + b ⋅ e) + / 2 * (e ⋅ A e)).
    { unfold energyR. rewrite Es at 1 2 3. rewrite Alin by assumption.
      rewrite (rdot_raxpy_l n), !(rdot_raxpy_r n), (rdot_raxpy_l n) by auto with vlen.
      rewrite (Asym p e), (rdot_comm e (A p)), (rdot_comm e b) by assumption. field. }
    pose proof (shifted_system e He) as Hsys. pose proof (shifted_psd e He) as Hpsd.
    rewrite Een.
    assert (lam * (s ⋅ s - p ⋅ p) <= 0).
    { assert (lam * (s ⋅ s - p ⋅ p) = lam * (s ⋅ s - Delta * Delta)) by lra.
      assert (lam * (s ⋅ s - Delta * Delta) <= 0) by nra. lra. }
    nra.
  Qed.
End MS.

Lemma ms_sufficiency_full : forall n (A : rvec -> rvec) (b p : rvec) lam Delta,
  (forall v, len n v -> len n (A v)) ->
  (forall a k c, len n a -> len n c -> A (raxpy a k c) = raxpy (A a) k (A c)) ->
  (forall a c, len n a -> len n c -> a ⋅ A c = A a ⋅ c) ->
  len n b -> len n p -> 0 <= lam ->
  (forall w, len n w -> A p ⋅ w + lam * (p ⋅ w) = - (b ⋅ w)) ->
  (forall v, len n v -> 0 <= v ⋅ A v + lam * (v ⋅ v)) ->
  p ⋅ p <= Delta * Delta -> lam * (Delta * Delta - p ⋅ p) = 0 ->
  forall s, len n s -> s ⋅ s <= Delta * Delta -> energyR A b p <= energyR A b s.
Proof. intros n A b p lam Delta H1 H2 H3 _ H5 H6 H7 H8 _ H10. exact (ms_sufficiency n A b p lam Delta H1 H2 H3 H5 H6 H7 H8 H10). Qed.

(* ------------------------------------------------------------------ the hard case as written *)
Definition wA : list rvec := [[7/25; -24/25]; [-24/25; -7/25]].
Definition wV : list rvec := [[3/5; -4/5]; [4/5; 3/5]].          (* columns (3/5,4/5), (-4/5,3/5): orthonormal eigenvectors *)
Definition wsig : rvec := [-1; 1].
Definition wb : rvec := [-4/5; 3/5].                              (* orthogonal to the lowest eigenvector (3/5,4/5) *)
Definition ws : rvec := [6/5; 8/5].                               (* 2 * lowest eigenvector: inside the ball of radius 2 *)

Lemma witness_is_eigendecomposition :
  @matvec R NumR wA [3/5; 4/5] = rscale (-1) [3/5; 4/5] /\ @matvec R NumR wA [-4/5; 3/5] = rscale 1 [-4/5; 3/5] /\
  [3/5; 4/5] ⋅ [3/5; 4/5] = 1 /\ [-4/5; 3/5] ⋅ [-4/5; 3/5] = 1 /\ [3/5; 4/5] ⋅ [-4/5; 3/5] = 0 /\
  wb ⋅ [3/5; 4/5] = 0.
Proof.
  unfold wA, wb, matvec, vscale. cbn. unfold_num. q2r.
  split; [f_equal; [field|f_equal; field]|]. split; [f_equal; [field|f_equal; field]|].
  repeat split; field.
Qed.

Ltac split_cmp :=
  match goal with
  | |- context [Rltb ?a ?b] =>
      let H := fresh "Hc" in destruct (Rltb a b) eqn:H; [apply Rltb_true in H | apply Rltb_false in H]
  end.

Theorem treigen_hard_case_refuted_R : forall fuel,
  fst (@treigen_solve R NumR fuel wsig wV wb 2) = THard /\
  ws ⋅ ws <= 2 * 2 /\
  @tr_energy R NumR wA wb ws + 1 < @tr_energy R NumR wA wb (snd (@treigen_solve R NumR fuel wsig wV wb 2)).
Proof.
  intros fuel.
  assert (Hws : ws ⋅ ws <= 2 * 2) by (unfold ws; cbn; unfold_num; q2r; lra).
  cbv [treigen_solve matvec transpose_n vdiv vmap2 vshift vneg vnorm vmul vdot ndot map hd tl length vmean_abs nsum
       hard_case_step vaxpy vadd vscale wsig wV wb c_1em12 nZ Z.of_nat Pos.of_succ_nat Pos.succ inject_Z tr_energy wA ws].
  unfold nsign. unfold_num. q2r.
  (* interior test: sig[0] > 0 fails *)
  split_cmp; [exfalso; lra|]. cbn [andb].
  (* minSig < eps *)
  split_cmp; [|exfalso; revert Hc0; apply Rlt_not_le; interval].
  (* the hard-case test passes *)
  split_cmp; [|exfalso; revert Hc1; apply Rlt_not_le; interval with (i_prec 120)].
  cbn [andb fst snd].
  (* sign(pz) = 1 *)
  split_cmp; [|exfalso; revert Hc2; apply Rlt_not_le; interval with (i_prec 120)].
  split; [reflexivity|]. split; [exact Hws|].
  interval with (i_prec 120).
Qed.

(* ------------------------------------------------------------------ zero Hessian: the binary64 model returns NaN (finding F2b).
   A statement about the PrimFloat instance (the one executed against the implementation); over R division by zero is total. *)
Lemma treigen_zero_hessian_nan_binary64 :
  let res := @treigen_solve float NumF 50 [F 0 0] [[F 1 0]] [F 1 0] (F 2 0) in
  (match fst res with TSecular _ => true | _ => false end = true) /\ fencs (snd res) = [0; 7777]%Z.
Proof. vm_compute. split; reflexivity. Qed.

(* ------------------------------------------------------------------ the uncapped secular `while` can stall (finding F2c): for
   sig = (-3,-3), b = (1/2, 1/8), Delta = 2^23 the binary64 iteration reaches a value of lam whose Newton correction is below
   its resolution while |bError| > 1e-9 -- one more pass returns the same state, so no amount of fuel terminates it. *)
Definition stall_sig : list float := [F (-3) 0; F (-3) 0].
Definition stall_b : list float := [F 1 (-1); F 1 (-3)].
Definition stall_Delta : float := F 1 23.
Lemma treigen_secular_stalls_binary64 :
  fst (@treigen_solve float NumF 400 stall_sig [[F 1 0; F 0 0]; [F 0 0; F 1 0]] stall_b stall_Delta) = TOutOfFuel.
Proof. vm_compute. reflexivity. Qed.
