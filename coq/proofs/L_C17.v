(* C17: lemmas about the root-finder model (model/M_C17.v) at T := R.  The loop body/test are the kernels regenerated
   from optimism/ScalarRootFind.py; f and f' are arbitrary functions (Section variables). *)
From Coq Require Import Reals Lra Lia ZArith QArith Bool List Psatz.
From OV.base Require Import Num.
From OV.gen Require Import Gen_ScalarRootFind.
From OV.model Require Import M_C17.
Import ListNotations.
Local Open Scope R_scope.

(* ---------- the Newton in-range product test (pure algebra) ---------- *)
Definition between (a b x : R) : Prop := Rmin a b <= x <= Rmax a b.

Lemma between_cases a b x : between a b x <-> (a <= x <= b \/ b <= x <= a).
Proof. unfold between, Rmin, Rmax. destruct (Rle_dec a b); lra. Qed.

Lemma newton_in_range_test root xl xh F DF : DF <> 0 ->
  (0 < ((root - xh) * DF - F) * ((root - xl) * DF - F) <-> ~ between xl xh (root - F / DF)).
Proof.
  intros H. set (xn := root - F / DF).
  assert (E1 : (root - xh) * DF - F = DF * (xn - xh)) by (unfold xn; field; exact H).
  assert (E2 : (root - xl) * DF - F = DF * (xn - xl)) by (unfold xn; field; exact H).
  rewrite E1, E2, between_cases.
  assert (0 < DF * DF) by nra.
  replace (DF * (xn - xh) * (DF * (xn - xl))) with (DF * DF * ((xn - xh) * (xn - xl))) by ring.
  split.
  - intros Hp [[A B]|[A B]]; assert ((xn - xh) * (xn - xl) <= 0) by nra; nra.
  - intros Hn. assert (0 < (xn - xh) * (xn - xl)); [|nra].
    destruct (Rlt_dec xn xh), (Rlt_dec xn xl); try nra; exfalso; apply Hn; lra.
Qed.

Lemma newton_test_zero_slope root xl xh F : 
  (0 < ((root - xh) * 0 - F) * ((root - xl) * 0 - F) <-> F <> 0).
Proof. split; intros; nra. Qed.

(* the range test may be written with the product itself or with the product of the signs (repo: the sign form, which cannot
   underflow); over R the two are equivalent *)
Lemma sign_product_test (a b : R) :
  Rltb 0 ((if Rltb 0 a then 1 else if Rltb a 0 then - (1) else 0) * (if Rltb 0 b then 1 else if Rltb b 0 then - (1) else 0))
  = Rltb 0 (a * b).
Proof.
  assert (Hs : forall x y, (0 < x * y) <-> ((0 < x /\ 0 < y) \/ (x < 0 /\ y < 0))).
  { intros x y. split.
    - intros H. destruct (Rlt_dec 0 x) as [Hx|Hx]; [left|right].
      + split; [exact Hx|]. destruct (Rlt_dec 0 y); [assumption|]. exfalso. nra.
      + assert (x < 0) by (destruct (Req_dec x 0); [subst; lra | lra]).
        split; [assumption|]. destruct (Rlt_dec y 0); [assumption|]. exfalso. nra.
    - intros [[? ?]|[? ?]]; nra. }
  unfold Rltb at 1 6.
  destruct (Rlt_dec 0 (a * b)) as [H|H]; [apply Hs in H | rewrite Hs in H].
  - destruct H as [[Ha Hb]|[Ha Hb]]; unfold Rltb;
    destruct (Rlt_dec 0 a), (Rlt_dec a 0), (Rlt_dec 0 b), (Rlt_dec b 0); try lra;
    match goal with |- (if ?d then _ else _) = _ => destruct d end; try reflexivity; exfalso; lra.
  - unfold Rltb;
    destruct (Rlt_dec 0 a), (Rlt_dec a 0), (Rlt_dec 0 b), (Rlt_dec b 0); try (exfalso; tauto); try lra;
    match goal with |- (if ?d then _ else _) = _ => destruct d end; try reflexivity; exfalso; try lra; tauto.
Qed.

(* ---------- the regenerated loop body, characterised ---------- *)
Ltac unfold_carry := unfold c_root, c_dx, c_dxOld, c_F, c_DF, c_xl, c_xh, c_conv, c_i in *.

Section Loop.
  Variables f df : R -> R.
  Variables x_tol r_tol : R.
  Definition fdf_of (f df : R -> R) := fun x : R => (f x, df x).
  Let fdf := fdf_of f df.

  (* the body's own choice: bisection iff the product test says "out of range" or the residual decreases too slowly *)
  Definition bisect_chosen (c : @carry R) : Prop :=
    0 < ((c_root c - c_xh c) * c_DF c - c_F c) * ((c_root c - c_xl c) * c_DF c - c_F c)
    \/ Rabs (c_dxOld c * c_DF c) < Rabs (2 * c_F c).

  Lemma body_spec (c : @carry R) :
    let c' := body fdf x_tol r_tol c in
    (bisect_chosen c ->
       c_dx c' = (c_xh c - c_xl c) / 2 /\ c_root c' = c_xl c + (c_xh c - c_xl c) / 2 /\
       c_conv c' = orb (orb (Reqb (c_root c') (c_xl c)) (Rltb (Rabs (c_dx c')) x_tol)) (Rleb (Rabs (c_F c')) r_tol)) /\
    (~ bisect_chosen c ->
       c_dx c' = - c_F c / c_DF c /\ c_root c' = c_root c + - c_F c / c_DF c /\
       c_conv c' = orb (orb (Reqb (c_root c') (c_root c)) (Rltb (Rabs (c_dx c')) x_tol)) (Rleb (Rabs (c_F c')) r_tol)) /\
    c_dxOld c' = c_dx c /\ c_F c' = f (c_root c') /\ c_DF c' = df (c_root c') /\
    c_xl c' = (if Rlt_dec (c_F c') 0 then c_root c' else c_xl c) /\
    c_xh c' = (if Rlt_dec (c_F c') 0 then c_xh c else c_root c') /\
    c_i c' = c_i c + 1.
  Proof.
    destruct c as [[[[[[[[root dx] dxOld] F] DF] xl] xh] cv] i].
    unfold bisect_chosen, body, loop_body, bisection_step, newton_step, fdf, fdf_of. unfold_carry.
    unfold_num. q2r. try unfold nsign. unfold_num. q2r. rewrite ?sign_product_test.
    match goal with |- context [if orb ?a ?b then _ else _] => destruct a eqn:E1; destruct b eqn:E2 end; cbn [orb];
    try apply Rltb_true in E1; try apply Rltb_false in E1; try apply Rltb_true in E2; try apply Rltb_false in E2.
    all: repeat split; intros; try tauto; try lra; try reflexivity;
         try (unfold Rltb; destruct (Rlt_dec _ 0); reflexivity).
  Qed.

  (* ---- the one state in which the body divides by zero with a selected result ---- *)
  Definition zoz (c : @carry R) : Prop := c_DF c = 0 /\ c_F c = 0.
  Lemma zoz_iff c : zero_over_zero c = true <-> zoz c.
  Proof.
    unfold zero_over_zero, zoz. unfold_num. q2r. rewrite andb_true_iff, !Reqb_true. tauto.
  Qed.
  Lemma zoz_false c : zero_over_zero c = false <-> ~ zoz c.
  Proof. rewrite <- zoz_iff. destruct (zero_over_zero c); split; intros; try congruence; try tauto. Qed.

  Lemma zero_slope_bisects c : c_DF c = 0 -> c_F c <> 0 -> bisect_chosen c.
  Proof. intros H0 HF. left. rewrite H0. nra. Qed.
  Lemma zoz_takes_newton c : zoz c -> ~ bisect_chosen c.
  Proof. intros [H0 HF] [H|H]; rewrite H0, HF in H; [nra|]. rewrite !Rmult_0_r, Rabs_R0 in H. lra. Qed.
  Lemma newton_needs_slope c : ~ zoz c -> ~ bisect_chosen c -> c_DF c <> 0.
  Proof.
    intros Hz Hb H0. destruct (Req_EM_T (c_F c) 0) as [HF|HF]; [apply Hz; split; assumption|].
    apply Hb, zero_slope_bisects; assumption.
  Qed.

  (* Newton accepted => the new iterate is inside the current (closed) bracket; and conversely an in-range Newton
     iterate whose residual decreases fast enough is accepted *)
  Lemma newton_accepted_in_bracket c : ~ zoz c -> ~ bisect_chosen c ->
    c_DF c <> 0 /\ c_root (body fdf x_tol r_tol c) = c_root c - c_F c / c_DF c /\
    between (c_xl c) (c_xh c) (c_root (body fdf x_tol r_tol c)) /\ Rabs (2 * c_F c) <= Rabs (c_dxOld c * c_DF c).
  Proof.
    intros Hz Hb. pose proof (newton_needs_slope c Hz Hb) as Hd.
    destruct (body_spec c) as (_ & HN & _). destruct (HN Hb) as (_ & Hr & _).
    assert (Hr' : c_root (body fdf x_tol r_tol c) = c_root c - c_F c / c_DF c) by (rewrite Hr; unfold Rdiv; ring).
    split; [exact Hd|]. split; [exact Hr'|]. split.
    - rewrite Hr'. apply Classical_Prop.NNPP. intros Hn. apply Hb. left.
      apply (newton_in_range_test _ _ _ _ _ Hd). exact Hn.
    - apply Rnot_lt_le. intros H. apply Hb. right. exact H.
  Qed.
  Lemma in_range_newton_accepted c : c_DF c <> 0 ->
    between (c_xl c) (c_xh c) (c_root c - c_F c / c_DF c) -> Rabs (2 * c_F c) <= Rabs (c_dxOld c * c_DF c) ->
    c_root (body fdf x_tol r_tol c) = c_root c - c_F c / c_DF c.
  Proof.
    intros Hd Hb Hs.
    assert (Hn : ~ bisect_chosen c).
    { intros [H|H]; [|lra]. apply (newton_in_range_test _ _ _ _ _ Hd) in H. contradiction. }
    destruct (body_spec c) as (_ & HN & _). destruct (HN Hn) as (_ & Hr & _). rewrite Hr. unfold Rdiv. ring.
  Qed.
  Lemma out_of_range_bisects c : c_DF c <> 0 -> ~ between (c_xl c) (c_xh c) (c_root c - c_F c / c_DF c) ->
    c_root (body fdf x_tol r_tol c) = c_xl c + (c_xh c - c_xl c) / 2.
  Proof.
    intros Hd Hb. assert (Hc : bisect_chosen c) by (left; apply (newton_in_range_test _ _ _ _ _ Hd); exact Hb).
    destruct (body_spec c) as (HB & _). destruct (HB Hc) as (_ & Hr & _). exact Hr.
  Qed.

  (* ---- bracket invariant ---- *)
  Record Inv (lo hi : R) (c : @carry R) : Prop := {
    inv_xl : lo <= c_xl c <= hi;
    inv_xh : lo <= c_xh c <= hi;
    inv_fl : f (c_xl c) < 0;
    inv_fh : 0 <= f (c_xh c);
    inv_root : between (c_xl c) (c_xh c) (c_root c);
    inv_F : c_F c = f (c_root c);
    inv_DF : c_DF c = df (c_root c) }.

  Lemma between_in lo hi a b x : lo <= a <= hi -> lo <= b <= hi -> between a b x -> lo <= x <= hi.
  Proof. intros Ha Hb Hx. apply between_cases in Hx. lra. Qed.
  Lemma between_left a b : between a b a.
  Proof. apply between_cases. destruct (Rle_dec a b); lra. Qed.
  Lemma between_right a b : between a b b.
  Proof. apply between_cases. destruct (Rle_dec a b); lra. Qed.

  Lemma body_inv lo hi c : Inv lo hi c -> ~ zoz c ->
    Inv lo hi (body fdf x_tol r_tol c) /\
    (c_root (body fdf x_tol r_tol c) = c_xl (body fdf x_tol r_tol c) \/ c_root (body fdf x_tol r_tol c) = c_xh (body fdf x_tol r_tol c)).
  Proof.
    intros [Hxl Hxh Hfl Hfh Hrt HF HDF] Hz.
    assert (Hb : between (c_xl c) (c_xh c) (c_root (body fdf x_tol r_tol c))).
    { destruct (Classical_Prop.classic (bisect_chosen c)) as [Hc|Hc].
      - destruct (body_spec c) as (HB & _). destruct (HB Hc) as (_ & Hr & _). rewrite Hr.
        apply between_cases. destruct (Rle_dec (c_xl c) (c_xh c)); lra.
      - apply newton_accepted_in_bracket; assumption. }
    destruct (body_spec c) as (_ & _ & _ & HF' & HDF' & Hl' & Hh' & _).
    set (c' := body fdf x_tol r_tol c) in *.
    pose proof (between_in lo hi _ _ _ Hxl Hxh Hb) as Hin.
    rewrite HF' in Hl', Hh'.
    destruct (Rlt_dec (f (c_root c')) 0) as [Hneg|Hpos].
    - split; [|left; congruence]. constructor; rewrite ?Hl', ?Hh'; try assumption; try lra. apply between_left.
    - split; [|right; congruence]. constructor; rewrite ?Hl', ?Hh'; try assumption; try lra. apply between_right.
  Qed.

  (* ---- the while loop ---- *)
  Variable n : nat.                      (* max_iters *)
  Let mi : R := INR n.

  Lemma cond_spec (c : @carry R) : cond mi c = true <-> c_conv c = false /\ c_i c < mi.
  Proof.
    destruct c as [[[[[[[[root dx] dxOld] F] DF] xl] xh] cv] i].
    unfold cond, loop_cond. unfold_carry. unfold_num.
    rewrite andb_true_iff, negb_true_iff, Rltb_true. tauto.
  Qed.

  Inductive steps : @carry R -> @carry R -> Prop :=
  | steps_refl c : steps c c
  | steps_step c c' : cond mi c = true -> zero_over_zero c = false -> steps (body fdf x_tol r_tol c) c' -> steps c c'.

  Lemma steps_last c c' : steps c c' ->
    c' = c \/ exists p, steps c p /\ cond mi p = true /\ zero_over_zero p = false /\ c' = body fdf x_tol r_tol p.
  Proof.
    induction 1 as [c|c c' Hc Hz Hs IH]; [left; reflexivity|right].
    destruct IH as [->|(p & Hp & Hcp & Hzp & ->)].
    - exists c. repeat split; try assumption. constructor.
    - exists p. repeat split; try assumption. econstructor; eassumption.
  Qed.

  Lemma steps_pres (P : @carry R -> Prop) :
    (forall c, P c -> cond mi c = true -> ~ zoz c -> P (body fdf x_tol r_tol c)) ->
    forall c c', steps c c' -> P c -> P c'.
  Proof. intros HP c c' H. induction H; intros; auto. apply IHsteps, HP; auto. apply zoz_false; assumption. Qed.

  Lemma wloop_spec (P : @carry R -> Prop) :
    (forall c, P c -> cond mi c = true -> ~ zoz c -> P (body fdf x_tol r_tol c)) ->
    forall fuel c k, P c -> c_i c = INR k -> (k + fuel = n)%nat ->
    match wloop fdf x_tol r_tol mi fuel c with
    | LDone c' => steps c c' /\ cond mi c' = false /\ P c'
    | LNaN c' => steps c c' /\ cond mi c' = true /\ zoz c' /\ P c'
    | LFuel _ => False
    end.
  Proof.
    intros HP. induction fuel as [|fuel IH]; intros c k Hc Hi Hk; cbn [wloop].
    - destruct (cond mi c) eqn:E.
      + apply cond_spec in E. destruct E as [_ E]. rewrite Hi in E. unfold mi in E. apply INR_lt in E. lia.
      + repeat split; try assumption. constructor.
    - destruct (cond mi c) eqn:E; [|repeat split; try assumption; constructor].
      destruct (zero_over_zero c) eqn:Ez.
      + repeat split; try assumption; try constructor; apply zoz_iff; assumption.
      + assert (Hz : ~ zoz c) by (apply zoz_false; assumption).
        specialize (IH (body fdf x_tol r_tol c) (S k) (HP c Hc E Hz)).
        destruct (body_spec c) as (_ & _ & _ & _ & _ & _ & _ & Hi').
        rewrite Hi', Hi, <- S_INR in IH. specialize (IH eq_refl ltac:(lia)).
        destruct (wloop fdf x_tol r_tol mi fuel (body fdf x_tol r_tol c)); try exact IH.
        * destruct IH as (A & B); split; [econstructor; eassumption|exact B].
        * destruct IH as (A & B); split; [econstructor; eassumption|exact B].
  Qed.

  (* ---- prologue ---- *)
  Lemma nZ_INR : @nZ R NumR (Z.of_nat n) = mi.
  Proof. unfold nZ, mi. unfold_num. q2r. symmetry. apply INR_IZR_INZ. Qed.

  Definition clipR (x lo hi : R) : R := Rmin (Rmax x lo) hi.
  Lemma clip_R x lo hi : @clip R NumR x lo hi = clipR x lo hi.
  Proof.
    unfold clip, clipR, nmin, nmax. unfold_num. unfold Rltb, Rmin, Rmax.
    destruct (Rlt_dec x lo); destruct (Rle_dec x lo);
    repeat match goal with
           | |- context [Rlt_dec ?a ?b] => destruct (Rlt_dec a b)
           | |- context [Rle_dec ?a ?b] => destruct (Rle_dec a b)
           end; lra.
  Qed.
  Lemma clip_between x b0 b1 : between b0 b1 (clipR x b0 b1).
  Proof. apply between_cases. unfold clipR, Rmin, Rmax. destruct (Rle_dec x b0); destruct (Rle_dec _ b1); lra. Qed.

  (* over R the sign test by signs is the product test (the code compares signs because fl*fh can underflow in binary64) *)
  Lemma sign_test_R (a b : R) : Rltb (@nmul R NumR (nsign a) (nsign b)) (@nzero R NumR) = Rltb (a * b) 0.
  Proof.
    unfold nsign. unfold_num. q2r.
    rcases_on (Rltb 0 a); rcases_on (Rltb 0 b); try rcases_on (Rltb a 0); try rcases_on (Rltb b 0);
    unfold Rltb; repeat match goal with |- context [Rlt_dec ?u ?v] => destruct (Rlt_dec u v) end; try reflexivity; exfalso; nra.
  Qed.

  Lemma init_spec x0 b0 b1 :
    match init f df x0 b0 b1 r_tol with
    | None => ~ (f b0 * f b1 < 0) /\ r_tol < Rabs (f b0) /\ r_tol < Rabs (f b1)
    | Some c0 =>
        c_i c0 = 0 /\ c_F c0 = f (c_root c0) /\ c_DF c0 = df (c_root c0) /\
        (c_conv c0 = false -> r_tol < Rabs (c_F c0)) /\
        (f b0 * f b1 < 0 -> Inv (Rmin b0 b1) (Rmax b0 b1) c0) /\
        ((Rabs (f b1) <= r_tol /\ c_conv c0 = true /\ c_root c0 = b1)
         \/ (r_tol < Rabs (f b1) /\ Rabs (f b0) <= r_tol /\ c_conv c0 = true /\ c_root c0 = b0)
         \/ (r_tol < Rabs (f b1) /\ r_tol < Rabs (f b0) /\ f b0 * f b1 < 0 /\ c_root c0 = clipR x0 b0 b1 /\
             c_conv c0 = Rleb (Rabs (f (clipR x0 b0 b1))) r_tol))
    end.
  Proof.
    unfold init. rewrite clip_R, sign_test_R. unfold_num. q2r.
    pose proof (clip_between x0 b0 b1) as Hclip.
    assert (Hlo : between b0 b1 b0) by apply between_left.
    assert (Hhi : between b0 b1 b1) by apply between_right.
    assert (Hlo' : Rmin b0 b1 <= b0 <= Rmax b0 b1) by exact Hlo.
    assert (Hhi' : Rmin b0 b1 <= b1 <= Rmax b0 b1) by exact Hhi.
    assert (Hinv : forall rt, between b0 b1 rt -> f b0 * f b1 < 0 ->
              Inv (Rmin b0 b1) (Rmax b0 b1)
                  (rt, Rabs (b1 - b0), Rabs (b1 - b0), f rt, df rt, (if Rltb (f b0) 0 then b0 else b1), (if Rltb (f b0) 0 then b1 else b0),
                   (Rleb (Rabs (f b0)) r_tol || Rleb (Rabs (f b1)) r_tol || Rleb (Rabs (f rt)) r_tol)%bool, 0)).
    { intros rt Hrt Hb. rcases_on (Rltb (f b0) 0); constructor; cbn; try assumption; try reflexivity; try nra.
      apply between_cases. apply between_cases in Hrt. lra. }
    rcases_on (Rltb (f b0 * f b1) 0); rcases_on (Rleb (Rabs (f b0)) r_tol); rcases_on (Rleb (Rabs (f b1)) r_tol); cbn [negb andb orb].
    all: try (split; [reflexivity|]; split; [reflexivity|]; split; [reflexivity|]; split; [cbn; intros; discriminate|]).
    all: try (split; [intros Hb'; first [lra | apply Hinv; assumption]|]).
    - left. cbn. auto.
    - right. left. cbn. auto.
    - left. cbn. auto.
    - (* bracketed, no end-point solution *)
      split; [reflexivity|]. split; [reflexivity|]. split; [reflexivity|]. split.
      { cbn. intros Hcc. apply Rleb_false. exact Hcc. }
      split; [intros _; apply Hinv; assumption|]. right. right. cbn. auto.
    - left. cbn. auto.
    - right. left. cbn. auto.
    - left. cbn. auto.
    - auto.
  Qed.

  (* ---- the whole routine ---- *)
  Definition iterate_of (x0 b0 b1 : R) (c : @carry R) : Prop :=
    exists c0, init f df x0 b0 b1 r_tol = Some c0 /\ steps c0 c.

  Lemma rtsafe_spec x0 b0 b1 :
    match init f df x0 b0 b1 r_tol with
    | None => rtsafe f df x0 b0 b1 n x_tol r_tol = Res None false mi 0 0 NotBracketed
    | Some c0 => exists c, steps c0 c /\
        ((cond mi c = false /\ c_conv c = true /\
          rtsafe f df x0 b0 b1 n x_tol r_tol = Res (Some (c_root c)) true (c_i c) (c_F c) (c_dx c) Converged)
         \/ (cond mi c = false /\ c_conv c = false /\ mi <= c_i c /\
          rtsafe f df x0 b0 b1 n x_tol r_tol = Res None false (c_i c) (c_F c) (c_dx c) IterCap)
         \/ (cond mi c = true /\ zoz c /\
          rtsafe f df x0 b0 b1 n x_tol r_tol = Res None false mi (c_F c) (c_dx c) ZeroOverZero))
    end.
  Proof.
    unfold rtsafe. rewrite nZ_INR. pose proof (init_spec x0 b0 b1) as Hi.
    destruct (init f df x0 b0 b1 r_tol) as [c0|]; [|unfold_num; q2r; reflexivity].
    destruct Hi as (Hi0 & _).
    pose proof (wloop_spec (fun _ => True) (fun _ _ _ _ => I) n c0 0%nat I Hi0 eq_refl) as Hw.
    fold fdf. fold (fdf_of f df). fold fdf.
    destruct (wloop fdf x_tol r_tol mi n c0) as [c|c|c]; [| |contradiction].
    - destruct Hw as (Hs & Hc & _). exists c. split; [exact Hs|].
      destruct (c_conv c) eqn:Ecv; [left; auto|right; left].
      repeat split; auto.
      apply Rnot_lt_le. intros Hlt. assert (cond mi c = true) by (apply cond_spec; auto). congruence.
    - destruct Hw as (Hs & Hc & Hz & _). exists c. split; [exact Hs|]. right. right. auto.
  Qed.

  (* an iterate that is not yet converged has |F| > r_tol: with 0 <= r_tol the body never sees F = 0, so it never computes 0/0 *)
  Lemma unconverged_residual c0 c : (c_conv c0 = false -> r_tol < Rabs (c_F c0)) -> steps c0 c ->
    c_conv c = false -> r_tol < Rabs (c_F c).
  Proof.
    intros H0 Hs. refine (steps_pres (fun c => c_conv c = false -> r_tol < Rabs (c_F c)) _ c0 c Hs H0).
    intros c1 _ _ _ Hcv. destruct (body_spec c1) as (HB & HN & _).
    destruct (Classical_Prop.classic (bisect_chosen c1)) as [Hb|Hb];
      [destruct (HB Hb) as (_ & _ & E)|destruct (HN Hb) as (_ & _ & E)];
      rewrite E, !orb_false_iff in Hcv; destruct Hcv as (_ & Hcv); apply Rleb_false in Hcv; exact Hcv.
  Qed.

  Lemma start_converged x0 b0 b1 c0 : init f df x0 b0 b1 r_tol = Some c0 -> c_conv c0 = true ->
    rtsafe f df x0 b0 b1 n x_tol r_tol = Res (Some (c_root c0)) true 0 (c_F c0) (c_dx c0) Converged.
  Proof.
    intros Hi Hc. pose proof (rtsafe_spec x0 b0 b1) as H. pose proof (init_spec x0 b0 b1) as Hsp. rewrite Hi in H, Hsp.
    destruct Hsp as (Hi0 & _).
    assert (Hend : forall c, steps c0 c -> c = c0).
    { intros c Hs. destruct Hs as [|c1 c2 Hcond _ _]; [reflexivity|]. apply cond_spec in Hcond. destruct Hcond; congruence. }
    destruct H as (c & Hs & [(_ & _ & E)|[(_ & Hcv & _ & _)|(Hcd & _ & _)]]); rewrite (Hend c Hs) in *.
    - rewrite E, Hi0. reflexivity.
    - congruence.
    - apply cond_spec in Hcd. destruct Hcd; congruence.
  Qed.

  (* ---- theorems of the section ---- *)
  Theorem bracket_invariant x0 b0 b1 : f b0 * f b1 < 0 ->
    forall c, iterate_of x0 b0 b1 c -> Inv (Rmin b0 b1) (Rmax b0 b1) c.
  Proof.
    intros Hb c (c0 & Hi & Hs). pose proof (init_spec x0 b0 b1) as Hsp. rewrite Hi in Hsp.
    destruct Hsp as (_ & _ & _ & _ & Hinv & _). specialize (Hinv Hb).
    revert Hinv. apply steps_pres; [|exact Hs].
    intros c1 H1 _ Hz. apply body_inv; assumption.
  Qed.

  Lemma inv_root_in lo hi c : Inv lo hi c -> lo <= c_root c <= hi.
  Proof. intros [A B _ _ C _ _]. exact (between_in lo hi _ _ _ A B C). Qed.

  Theorem never_out_of_fuel x0 b0 b1 : rtsafe f df x0 b0 b1 n x_tol r_tol <> OutOfFuel.
  Proof.
    pose proof (rtsafe_spec x0 b0 b1) as H. destruct (init f df x0 b0 b1 r_tol) as [c0|].
    - destruct H as (c & _ & [(_ & _ & ->)|[(_ & _ & _ & ->)|(_ & _ & ->)]]); discriminate.
    - rewrite H. discriminate.
  Qed.

  Theorem result_contract x0 b0 b1 x cv it F dx w :
    rtsafe f df x0 b0 b1 n x_tol r_tol = Res x cv it F dx w ->
    (x <> None <-> cv = true) /\ (cv = true <-> w = Converged) /\
    (w = NotBracketed <-> (~ (f b0 * f b1 < 0) /\ r_tol < Rabs (f b0) /\ r_tol < Rabs (f b1))) /\
    (Rabs (f b1) <= r_tol -> x = Some b1 /\ it = 0) /\
    (Rabs (f b0) <= r_tol -> r_tol < Rabs (f b1) -> x = Some b0 /\ it = 0) /\
    (f b0 * f b1 < 0 -> r_tol < Rabs (f b0) -> r_tol < Rabs (f b1) -> Rabs (f (clipR x0 b0 b1)) <= r_tol ->
       x = Some (clipR x0 b0 b1) /\ it = 0) /\
    (w = IterCap -> INR n <= it) /\
    (0 <= r_tol -> w <> ZeroOverZero) /\
    (forall v, x = Some v -> F = f v).
  Proof.
    intros Hr. pose proof (rtsafe_spec x0 b0 b1) as H. pose proof (init_spec x0 b0 b1) as Hi.
    pose proof (start_converged x0 b0 b1) as Hstart.
    destruct (init f df x0 b0 b1 r_tol) as [c0|].
    - specialize (Hstart c0 eq_refl). destruct Hi as (Hi0 & HF0 & _ & Hun & _ & Hcase).
      assert (Hnb : ~ (~ f b0 * f b1 < 0 /\ r_tol < Rabs (f b0) /\ r_tol < Rabs (f b1))).
      { destruct Hcase as [(A & _)|[(_ & A & _)|(_ & _ & A & _)]]; intros (B1 & B2 & B3); try lra; contradiction. }
      assert (Hpres : forall c, steps c0 c -> c_F c = f (c_root c)).
      { intros c Hs. revert HF0. apply steps_pres with (P := fun c => c_F c = f (c_root c)); [|exact Hs].
        intros c1 _ _ _. destruct (body_spec c1) as (_ & _ & _ & A & _). exact A. }
      assert (Hends : (Rabs (f b1) <= r_tol -> x = Some b1 /\ it = 0) /\
                      (Rabs (f b0) <= r_tol -> r_tol < Rabs (f b1) -> x = Some b0 /\ it = 0) /\
                      (f b0 * f b1 < 0 -> r_tol < Rabs (f b0) -> r_tol < Rabs (f b1) -> Rabs (f (clipR x0 b0 b1)) <= r_tol ->
                         x = Some (clipR x0 b0 b1) /\ it = 0)).
      { split; [|split].
        - intros H1. destruct Hcase as [(_ & A & B)|[(A & _)|(A & _)]]; try (exfalso; lra).
          rewrite (Hstart A) in Hr. injection Hr as Hx _ Hit _ _ _. rewrite <- Hx, <- Hit, B. auto.
        - intros H0 H1. destruct Hcase as [(A & _)|[(_ & _ & A & B)|(_ & A & _)]]; try (exfalso; lra).
          rewrite (Hstart A) in Hr. injection Hr as Hx _ Hit _ _ _. rewrite <- Hx, <- Hit, B. auto.
        - intros _ H0 H1 H2. destruct Hcase as [(A & _)|[(_ & A & _)|(_ & _ & _ & B & A)]]; try (exfalso; lra).
          assert (A' : c_conv c0 = true) by (rewrite A; apply Rleb_true; exact H2).
          rewrite (Hstart A') in Hr. injection Hr as Hx _ Hit _ _ _. rewrite <- Hx, <- Hit, B. auto. }
      destruct Hends as (He1 & He2 & He3).
      destruct H as (c & Hs & [(Hc & Hcv & E)|[(Hc & Hcv & Hge & E)|(Hc & Hz & E)]]); rewrite E in Hr; inversion Hr; subst; clear Hr.
      + refine (conj _ (conj _ (conj _ (conj He1 (conj He2 (conj He3 (conj _ (conj _ _)))))))).
        * split; congruence.
        * tauto.
        * split; [discriminate|tauto].
        * discriminate.
        * discriminate.
        * intros v Hv. inversion Hv; subst. apply Hpres; assumption.
      + refine (conj _ (conj _ (conj _ (conj He1 (conj He2 (conj He3 (conj _ (conj _ _)))))))).
        * split; [tauto|discriminate].
        * split; discriminate.
        * split; [discriminate|tauto].
        * intros _. exact Hge.
        * discriminate.
        * discriminate.
      + refine (conj _ (conj _ (conj _ (conj He1 (conj He2 (conj He3 (conj _ (conj _ _)))))))).
        * split; [tauto|discriminate].
        * split; discriminate.
        * split; [discriminate|tauto].
        * discriminate.
        * intros Hrt _. apply cond_spec in Hc. destruct Hc as (Hc & _).
          pose proof (unconverged_residual c0 c Hun Hs Hc) as Hlt. destruct Hz as (_ & Hz). rewrite Hz, Rabs_R0 in Hlt. lra.
        * discriminate.
    - rewrite H in Hr. inversion Hr; subst; clear Hr. destruct Hi as (A & B & C).
      refine (conj _ (conj _ (conj _ (conj _ (conj _ (conj _ (conj _ (conj _ _)))))))).
      + split; [tauto|discriminate].
      + split; discriminate.
      + tauto.
      + intros; lra.
      + intros; lra.
      + intros; contradiction.
      + discriminate.
      + discriminate.
      + discriminate.
  Qed.

  Theorem result_in_bracket x0 b0 b1 v cv it F dx w : f b0 * f b1 < 0 ->
    rtsafe f df x0 b0 b1 n x_tol r_tol = Res (Some v) cv it F dx w ->
    Rmin b0 b1 <= v <= Rmax b0 b1 /\
    exists xl xh, between xl xh v /\ f xl < 0 <= f xh /\
                  Rmin b0 b1 <= xl <= Rmax b0 b1 /\ Rmin b0 b1 <= xh <= Rmax b0 b1.
  Proof.
    intros Hb Hr. pose proof (rtsafe_spec x0 b0 b1) as H. pose proof (bracket_invariant x0 b0 b1 Hb) as HI.
    unfold iterate_of in HI. destruct (init f df x0 b0 b1 r_tol) as [c0|]; [|rewrite H in Hr; discriminate].
    destruct H as (c & Hs & [(Hc & Hcv & E)|[(Hc & Hcv & Hge & E)|(Hc & Hz & E)]]); rewrite E in Hr; inversion Hr; subst; clear Hr.
    specialize (HI c (ex_intro _ c0 (conj eq_refl Hs))).
    split; [exact (inv_root_in _ _ _ HI)|].
    destruct HI as [A B C D E' _ _]. exists (c_xl c), (c_xh c). repeat split; try assumption; try apply E'; try apply A; try apply B.
  Qed.

  (* why a run reports convergence: an end point or the (clipped) guess already meets the residual tolerance and is returned
     untouched, or the last iteration met one of the tests *)
  Theorem converged_reason x0 b0 b1 v it F dx :
    rtsafe f df x0 b0 b1 n x_tol r_tol = Res (Some v) true it F dx Converged ->
    (it = 0 /\ (v = b0 \/ v = b1 \/ v = clipR x0 b0 b1) /\ Rabs (f v) <= r_tol)
    \/ (exists p, iterate_of x0 b0 b1 p /\ c_conv p = false /\ c_i p < INR n /\ ~ zoz p /\ it = c_i p + 1 /\
                  v = c_root (body fdf x_tol r_tol p) /\
                  (Rabs dx < x_tol \/ Rabs F <= r_tol \/ v = c_root p \/ v = c_xl p)).
  Proof.
    intros Hr. pose proof (rtsafe_spec x0 b0 b1) as H. pose proof (init_spec x0 b0 b1) as Hi.
    unfold iterate_of. destruct (init f df x0 b0 b1 r_tol) as [c0|]; [|rewrite H in Hr; discriminate].
    destruct H as (c & Hs & [(Hc & Hcv & E)|[(Hc & Hcv & Hge & E)|(Hc & Hz & E)]]); rewrite E in Hr; inversion Hr; subst; clear Hr.
    destruct (steps_last _ _ Hs) as [->|(p & Hp & Hcp & Hzp & ->)].
    - left. destruct Hi as (Hi0 & _ & _ & _ & _ & [(A & _ & B)|[(_ & A & _ & B)|(_ & _ & _ & B & A)]]).
      + rewrite B. auto.
      + rewrite B. auto.
      + rewrite B. split; [exact Hi0|]. split; [auto|]. rewrite A in Hcv. apply Rleb_true in Hcv. exact Hcv.
    - right. exists p. apply cond_spec in Hcp. destruct Hcp as (Hcp1 & Hcp2). apply zoz_false in Hzp.
      split; [exists c0; auto|]. repeat split; try assumption.
      + destruct (body_spec p) as (_ & _ & _ & _ & _ & _ & _ & A). exact A.
      + destruct (body_spec p) as (HB & HN & _ & HF' & _).
        destruct (Classical_Prop.classic (bisect_chosen p)) as [Hb|Hb].
        * destruct (HB Hb) as (_ & _ & Hcv'). rewrite Hcv' in Hcv.
          rewrite !orb_true_iff, Rltb_true, Rleb_true, Reqb_true in Hcv. tauto.
        * destruct (HN Hb) as (_ & _ & Hcv'). rewrite Hcv' in Hcv.
          rewrite !orb_true_iff, Rltb_true, Rleb_true, Reqb_true in Hcv. tauto.
  Qed.

  (* with x_tol <= 0 (as the J2 update calls it) and 0 <= r_tol a converged run ends with |f| <= r_tol *)
  Theorem converged_small_residual x0 b0 b1 v it F dx : x_tol <= 0 -> 0 <= r_tol -> f b0 * f b1 < 0 ->
    rtsafe f df x0 b0 b1 n x_tol r_tol = Res (Some v) true it F dx Converged ->
    Rabs (f v) <= r_tol.
  Proof.
    intros Hxt Hrt Hb Hr. pose proof (rtsafe_spec x0 b0 b1) as H. pose proof (init_spec x0 b0 b1) as Hi.
    pose proof (bracket_invariant x0 b0 b1 Hb) as HI. unfold iterate_of in HI.
    destruct (converged_reason x0 b0 b1 v it F dx Hr) as [(_ & _ & A)|_]; [exact A|].
    destruct (init f df x0 b0 b1 r_tol) as [c0|]; [|rewrite H in Hr; discriminate].
    destruct H as (c & Hs & [(Hc & Hcv & E)|[(Hc & Hcv & Hge & E)|(Hc & Hz & E)]]); rewrite E in Hr; inversion Hr; subst; clear Hr.
    destruct (steps_last _ _ Hs) as [->|(p & Hp & Hcp & Hzp & ->)].
    - destruct Hi as (_ & HF0 & _ & _ & _ & [(A & _ & B)|[(_ & A & _ & B)|(_ & _ & _ & B & A)]]); rewrite B; try exact A.
      rewrite A in Hcv. apply Rleb_true in Hcv. exact Hcv.
    - apply zoz_false in Hzp. specialize (HI p (ex_intro _ c0 (conj eq_refl Hp))).
      destruct HI as [_ _ Hfl Hfh _ HFp _].
      destruct (body_spec p) as (HB & HN & _ & HF' & _).
      destruct (Classical_Prop.classic (bisect_chosen p)) as [Hbis|Hbis].
      + destruct (HB Hbis) as (_ & Hr' & Hcv'). rewrite Hcv' in Hcv.
        rewrite !orb_true_iff, Rltb_true, Rleb_true, Reqb_true in Hcv.
        destruct Hcv as [[Hq|Hq]|Hq].
        * exfalso. rewrite Hr' in Hq. assert (c_xh p = c_xl p) by lra. rewrite H in Hfh. lra.
        * exfalso. pose proof (Rabs_pos (c_dx (body fdf x_tol r_tol p))). lra.
        * rewrite <- HF'. exact Hq.
      + destruct (HN Hbis) as (_ & Hr' & Hcv'). rewrite Hcv' in Hcv.
        pose proof (newton_needs_slope p Hzp Hbis) as Hd.
        rewrite !orb_true_iff, Rltb_true, Rleb_true, Reqb_true in Hcv.
        destruct Hcv as [[Hq|Hq]|Hq].
        * rewrite Hq. rewrite <- HFp.
          rewrite Hr' in Hq. assert (Hz0 : - c_F p / c_DF p = 0) by lra.
          unfold Rdiv in Hz0. apply Rmult_integral in Hz0. destruct Hz0 as [Hz0|Hz0].
          -- replace (c_F p) with 0 by lra. rewrite Rabs_R0. exact Hrt.
          -- exfalso. apply (Rinv_neq_0_compat _ Hd). exact Hz0.
        * exfalso. pose proof (Rabs_pos (c_dx (body fdf x_tol r_tol p))). lra.
        * rewrite <- HF'. exact Hq.
  Qed.

  (* ---- bisection regime: the width halves, so the iteration cap decides ---- *)
  Lemma bisection_halves lo hi c : Inv lo hi c -> bisect_chosen c ->
    let c' := body fdf x_tol r_tol c in
    Rabs (c_xh c' - c_xl c') = Rabs (c_xh c - c_xl c) / 2 /\ Rabs (c_dx c') = Rabs (c_xh c - c_xl c) / 2.
  Proof.
    intros HI Hb c'. destruct (body_spec c) as (HB & _ & _ & HF' & _ & Hl' & Hh' & _).
    destruct (HB Hb) as (Hdx & Hr & _). fold c' in Hdx, Hr, HF', Hl', Hh'.
    split.
    - rewrite Hl', Hh'. destruct (Rlt_dec (c_F c') 0); rewrite Hr;
      [replace (c_xh c - (c_xl c + (c_xh c - c_xl c) / 2)) with ((c_xh c - c_xl c) / 2) by field
      |replace (c_xl c + (c_xh c - c_xl c) / 2 - c_xl c) with ((c_xh c - c_xl c) / 2) by field];
      unfold Rdiv; rewrite Rabs_mult, (Rabs_pos_eq (/ 2)); lra.
    - rewrite Hdx. unfold Rdiv; rewrite Rabs_mult, (Rabs_pos_eq (/ 2)); lra.
  Qed.
End Loop.

(* ---------- continuity: a root of f lies in the final bracket (IVT) ---------- *)
Theorem root_in_final_bracket (f df : R -> R) x_tol r_tol n x0 b0 b1 v cv it F dx w :
  continuity f -> f b0 * f b1 < 0 ->
  rtsafe f df x0 b0 b1 n x_tol r_tol = Res (Some v) cv it F dx w ->
  exists xl xh z, between xl xh v /\ between xl xh z /\ f z = 0 /\
                  Rmin b0 b1 <= xl <= Rmax b0 b1 /\ Rmin b0 b1 <= xh <= Rmax b0 b1.
Proof.
  intros Hc Hb Hr. destruct (result_in_bracket f df x_tol r_tol n x0 b0 b1 v cv it F dx w Hb Hr) as (_ & xl & xh & Hv & (Hl & Hh) & Bl & Bh).
  exists xl, xh.
  destruct (Rle_dec xl xh) as [Hle|Hgt].
  - destruct (IVT_cor f xl xh Hc Hle ltac:(nra)) as (z & Hz & Hfz). exists z.
    split; [exact Hv|]. split; [apply between_cases; lra|]. split; [exact Hfz|]. split; assumption.
  - destruct (IVT_cor f xh xl Hc ltac:(lra) ltac:(nra)) as (z & Hz & Hfz). exists z.
    split; [exact Hv|]. split; [apply between_cases; lra|]. split; [exact Hfz|]. split; assumption.
Qed.

(* ---------- exact-arithmetic witnesses: the same generic model run over reduced rationals ---------- *)
Definition NumQr : Num Q := {|
  nconst := fun q _ => Qred q;
  nadd := fun a b => Qred (Qplus a b); nsub := fun a b => Qred (Qminus a b);
  nmul := fun a b => Qred (Qmult a b); ndiv := fun a b => Qred (Qdiv a b);
  nopp := fun a => Qred (Qopp a); nabs := fun a => Qred (Qabs.Qabs a);
  nsqrt := fun _ => 0%Q; nexp := fun _ => 0%Q; nln := fun _ => 0%Q;
  nltb := Qltb; nleb := Qle_bool; neqb := Qeq_bool |}.

Definition cubeQ : list Q := [1; 0; 0; 0]%Q.       (* x^3 *)
Definition dcubeQ : list Q := [3; 0; 0]%Q.         (* 3 x^2 *)
Definition is_nan_by (w : why) (r : @result Q) : bool :=
  match r with Res None false _ _ _ w' => Z.eqb (why_code w) (why_code w') | _ => false end.

(* default settings (50 iterations, x_tol = 1e-13, r_tol = 0), f = x^3 on [-1, 1], sign change, initial guess 0.3:
   not converged after 50 iterations -> NaN *)
Lemma cap_witness :
  Qlt (@poly Q NumQr cubeQ (-1)%Q * @poly Q NumQr cubeQ 1%Q)%Q 0%Q /\
  is_nan_by IterCap (@rtsafe Q NumQr (@poly Q NumQr cubeQ) (@poly Q NumQr dcubeQ) (3 # 10)%Q (-1)%Q 1%Q 50 (1 # 10000000000000)%Q 0%Q) = true.
Proof. split; vm_compute; reflexivity. Qed.

(* same function and bracket, initial guess exactly at the (triple) root, where F = 0 and DF = 0: the repaired code accepts the
   guess (|F| <= r_tol) before the loop; no 0/0 (before the fix this run ended in nan) *)
Definition converges_at (v : Q) (r : @result Q) : bool :=
  match r with Res (Some x) true it _ _ Converged => andb (Qeq_bool x v) (Qeq_bool it 0) | _ => false end.
Lemma zero_slope_root_witness :
  converges_at 0%Q (@rtsafe Q NumQr (@poly Q NumQr cubeQ) (@poly Q NumQr dcubeQ) 0%Q (-1)%Q 1%Q 50 (1 # 10000000000000)%Q 0%Q) = true.
Proof. vm_compute. reflexivity. Qed.

(* an iterate with F = 0 ends the iteration: with 0 <= r_tol the run never reaches the 0/0 state *)
Lemma no_zero_over_zero (f df : R -> R) x_tol r_tol n x0 b0 b1 x cv it F dx w : 0 <= r_tol ->
  rtsafe f df x0 b0 b1 n x_tol r_tol = Res x cv it F dx w -> w <> ZeroOverZero.
Proof. intros Hr H. destruct (result_contract f df x_tol r_tol n x0 b0 b1 x cv it F dx w H) as (_ & _ & _ & _ & _ & _ & _ & A & _). exact (A Hr). Qed.

(* ---------- differentiability: what custom_root's tangent solve and the implicit function theorem give ---------- *)
From Coquelicot Require Import Coquelicot.

Lemma tangent_solve (a y : R) : a <> 0 -> let g := fun t : R => a * t in g (y / g 1) = y.
Proof. intros H g. unfold g. field. exact H. Qed.

(* if F(x(p), p) = 0 near p0, F is (Frechet) differentiable at (x(p0), p0) with partials a, b, and x is differentiable at p0,
   then a * x'(p0) + b = 0; with a <> 0 the derivative is -b/a, which is what the tangent solve returns for y = -b *)
Lemma scalar_ift (F : R -> R -> R) (x : R -> R) (p0 a b dx : R) :
  locally p0 (fun p => F (x p) p = 0) ->
  filterdiff (fun xp : R * R => F (fst xp) (snd xp)) (locally (x p0, p0)) (fun h => a * fst h + b * snd h) ->
  is_derive x p0 dx ->
  a * dx + b = 0.
Proof.
  intros Hz HF Hx.
  assert (H1 : filterdiff (fun p : R => F (x p) p) (locally p0) (fun h : R => a * (scal h dx) + b * h)).
  { apply (filterdiff_comp'_2 x (fun p => p) F p0 (fun h => scal h dx) (fun h => h) (fun u v => a * u + b * v)).
    - exact Hx.
    - apply filterdiff_id.
    - exact HF. }
  assert (H2 : is_derive (fun p : R => F (x p) p) p0 (a * dx + b)).
  { unfold is_derive. apply filterdiff_ext_lin with (1 := H1). intros h. unfold scal; simpl; unfold mult; simpl. ring. }
  assert (H3 : is_derive (fun p : R => F (x p) p) p0 0).
  { apply is_derive_ext_loc with (f := fun _ : R => 0).
    - revert Hz. apply filter_imp. intros p Hp. symmetry. exact Hp.
    - apply (is_derive_const (V := R_NormedModule) 0 p0). }
  apply is_derive_unique in H2. apply is_derive_unique in H3. rewrite H2 in H3. exact H3.
Qed.

Lemma ift_value (a b dx : R) : a <> 0 -> a * dx + b = 0 -> dx = (- b) / a.
Proof. intros Ha H. apply Rmult_eq_reg_l with a; [|exact Ha]. field_simplify; [|exact Ha]. lra. Qed.

Lemma ift_with_tangent_solve (F : R -> R -> R) (x : R -> R) (p0 a b dx : R) :
  locally p0 (fun p => F (x p) p = 0) ->
  filterdiff (fun xp : R * R => F (fst xp) (snd xp)) (locally (x p0, p0)) (fun h => a * fst h + b * snd h) ->
  is_derive x p0 dx -> a <> 0 ->
  dx = (- b) / a /\ (fun t : R => a * t) ((- b) / (fun t : R => a * t) 1) = - b.
Proof. intros H1 H2 H3 Ha. split; [exact (ift_value a b dx Ha (scalar_ift F x p0 a b dx H1 H2 H3))|exact (tangent_solve a (- b) Ha)]. Qed.

(* ---------- non-vacuity: a bracketed run of the real-number model that converges ---------- *)
Ltac rb_one :=
  match goal with
  | |- context [Rltb ?a ?b] =>
      first [ replace (Rltb a b) with true by (symmetry; apply Rltb_true; unfold Rabs; repeat destruct (Rcase_abs _); lra)
            | replace (Rltb a b) with false by (symmetry; apply Rltb_false; unfold Rabs; repeat destruct (Rcase_abs _); lra) ]
  | |- context [Rleb ?a ?b] =>
      first [ replace (Rleb a b) with true by (symmetry; apply Rleb_true; unfold Rabs; repeat destruct (Rcase_abs _); lra)
            | replace (Rleb a b) with false by (symmetry; apply Rleb_false; unfold Rabs; repeat destruct (Rcase_abs _); lra) ]
  | |- context [Reqb ?a ?b] =>
      first [ replace (Reqb a b) with true by (symmetry; apply Reqb_true; lra)
            | replace (Reqb a b) with false by (symmetry; apply Reqb_false; lra) ]
  end.
Lemma nonvacuous_run : exists v it F dx,
  rtsafe (fun x => x - 1 / 2) (fun _ => 1) 0 0 1 1 1 0 = Res (Some v) true it F dx Converged /\ (0 - 1 / 2) * (1 - 1 / 2) < 0.
Proof.
  eexists _, _, _, _. split; [|lra].
  unfold rtsafe, init, clip, nmin, nmax, nsign. unfold_num. q2r. cbn [Z.of_nat Pos.of_succ_nat].
  repeat (rb_one; cbn [negb andb orb]).
  cbn [wloop cond loop_cond]. unfold_num. q2r.
  repeat (rb_one; cbn [negb andb orb]).
  unfold zero_over_zero. unfold_carry. unfold_num. q2r.
  repeat (rb_one; cbn [negb andb orb]).
  unfold body, loop_body, bisection_step, newton_step. unfold_num. q2r. try unfold nsign. unfold_num. q2r.
  repeat (rb_one; cbn [negb andb orb]).
  cbn [wloop cond loop_cond]. unfold_num. q2r.
  repeat (rb_one; cbn [negb andb orb]).
  unfold loop_cond. unfold_num. q2r. repeat (rb_one; cbn [negb andb orb]).
  reflexivity.
Qed.
