(* the executable derivative formulas of model/M_C18.v coincide, over R, with the proved C1 derivatives *)
From Coq Require Import Reals Lra QArith.
From Coquelicot Require Import Coquelicot.
From OV.base Require Import Num Piecewise.
From OV.model Require Import M_C18.
From OV.proofs Require Import L_C18 L_C18b.
Local Open Scope R_scope.

Ltac dnum := unfold_num; cbn [quarter]; q2r; unfold Rleb, Rltb, pw.

Lemma d_smin_dx_ok x y e : @d_smin_dx R NumR x y e = dsmin_dx y e x.
Proof. unfold d_smin_dx, dsmin_dx. dnum. destruct (Rle_dec x (y - e)), (Rle_dec x (y + e)); reflexivity. Qed.
Lemma d_smax_dx_ok x y e : @d_smax_dx R NumR x y e = dsmin_dx (- y) e (- x).
Proof. unfold d_smax_dx. rewrite d_smin_dx_ok. reflexivity. Qed.
Lemma d_sabs_ok x e : @d_sabs R NumR x e = dsabs_dx e x.
Proof. unfold d_sabs, dsabs_dx. dnum. destruct (Rle_dec x (- e / 2)), (Rle_dec x (e / 2)); reflexivity. Qed.
Lemma d_zmax_ok x e : @d_zmax R NumR x e = dzmax_dx e x.
Proof. unfold d_zmax, dzmax_dx. dnum. destruct (Rle_dec x (- e)), (Rle_dec x e); reflexivity. Qed.
Lemma d_slin_ok x l : @d_slin R NumR x l = dslin l x.
Proof. unfold d_slin, dslin. dnum. destruct (Rle_dec x l), (Rle_dec x (1 - l)); reflexivity. Qed.
Lemma d_friction_ok s0 s1 mu sReg :
  fst (@d_friction R NumR s0 s1 mu sReg) = mu * (dfE sReg (s0 * s0 + s1 * s1) * (2 * s0)).
Proof. unfold d_friction, dfE. dnum. cbn [fst]. destruct (Rle_dec (s0 * s0 + s1 * s1) (sReg * sReg)); reflexivity. Qed.

Lemma d_smax_dy_ok x y e : @d_smax_dy R NumR x y e = dsmin_dx (- x) e (- y).
Proof. unfold d_smax_dy. rewrite d_smin_dx_ok. reflexivity. Qed.
Lemma d_friction_ok_1 s0 s1 mu sReg :
  snd (@d_friction R NumR s0 s1 mu sReg) = mu * (dfE sReg (s0 * s0 + s1 * s1) * (2 * s1)).
Proof. unfold d_friction, dfE. dnum. cbn [snd]. destruct (Rle_dec (s0 * s0 + s1 * s1) (sReg * sReg)); reflexivity. Qed.
Lemma d_sstep_ok x : @d_sstep R NumR x = dsstep x.
Proof. unfold d_sstep, dsstep. dnum. destruct (Rle_dec x 0), (Rle_dec x 1); try reflexivity; ring. Qed.
