(* C19: a dimension lemma for list vectors -- any n+1 vectors of R^n are linearly dependent -- and its consequence for
   H-conjugate families (pairwise conjugate, positive curvature): such a family has at most n members.  Used for the
   finite-termination half of the scipy-CG theorem (proofs/L_C19_CG.v).  Linear combinations are handled in weak form
   (tested against an arbitrary vector), so no list algebra is needed. *)
From Coq Require Import Reals Lra Lia List.
From OV.base Require Import Num.
From OV.model Require Import M_C06_Vec.
From OV.proofs Require Import L_C06_Vec.
Import ListNotations.
Local Open Scope R_scope.

(* sum_i c_i (v_i . w) *)
Fixpoint lc (cs : list R) (vs : list rvec) (w : rvec) : R :=
  match cs, vs with c :: cs', v :: vs' => c * (v ⋅ w) + lc cs' vs' w | _, _ => 0 end.
(* sum_i c_i head(v_i) *)
Fixpoint hsum (cs : list R) (vs : list rvec) : R :=
  match cs, vs with c :: cs', v :: vs' => c * hd 0 v + hsum cs' vs' | _, _ => 0 end.

Lemma lc_app cs1 vs1 cs2 vs2 w : length cs1 = length vs1 ->
  lc (cs1 ++ cs2) (vs1 ++ vs2) w = lc cs1 vs1 w + lc cs2 vs2 w.
Proof.
  revert vs1; induction cs1 as [|c cs1 IH]; intros [|v vs1] E; simpl in E; try discriminate; cbn [lc app].
  - lra.
  - rewrite IH by congruence. lra.
Qed.
Lemma hsum_app cs1 vs1 cs2 vs2 : length cs1 = length vs1 ->
  hsum (cs1 ++ cs2) (vs1 ++ vs2) = hsum cs1 vs1 + hsum cs2 vs2.
Proof.
  revert vs1; induction cs1 as [|c cs1 IH]; intros [|v vs1] E; simpl in E; try discriminate; cbn [hsum app].
  - lra.
  - rewrite IH by congruence. lra.
Qed.

Lemma len_S_inv n v : len (S n) v -> v = hd 0 v :: tl v /\ len n (tl v).
Proof. unfold len. destruct v as [|h t]; simpl; intros E; [discriminate|]. split; [reflexivity|congruence]. Qed.
Lemma len_0_inv v : len 0 v -> v = [].
Proof. unfold len. destruct v; [reflexivity|discriminate]. Qed.

(* eliminate the head coordinate of u with the pivot v *)
Definition felim (v u : rvec) : rvec := rsub (tl u) (rscale (hd 0 u / hd 0 v) (tl v)).

Lemma felim_len n v u : len (S n) v -> len (S n) u -> len n (felim v u).
Proof. intros Hv Hu. destruct (len_S_inv n v Hv) as (_ & Tv). destruct (len_S_inv n u Hu) as (_ & Tu). unfold felim. auto with vlen. Qed.

Lemma lc_elim n v : len (S n) v -> hd 0 v <> 0 -> forall us cs y w', Forall (len (S n)) us -> length cs = length us -> len n w' ->
  lc cs us (y :: w') + (- hsum cs us / hd 0 v) * (v ⋅ (y :: w')) = lc cs (map (felim v) us) w'.
Proof.
  intros Hv Hnz. destruct v as [|hv tv]; [discriminate|]. cbn [hd] in Hnz. cbn [hd].
  assert (Tv : len n tv) by (unfold len in *; simpl in Hv; congruence).
  induction us as [|u us IH]; intros [|c cs] y w' Hall E Hw; simpl in E; try discriminate; cbn [lc hsum map].
  - unfold Rdiv. lra.
  - inversion Hall as [|? ? Hu Hus]; subst. destruct u as [|hu tu]; [discriminate|].
    assert (Tu : len n tu) by (unfold len in *; simpl in Hu; congruence).
    rewrite <- (IH cs y w' Hus ltac:(congruence) Hw).
    unfold felim. cbn [hd tl]. rewrite (rdot_rsub_l n) by auto with vlen. rewrite rdot_rscale_l.
    rewrite !rdot_cons. field. exact Hnz.
Qed.

Lemma lc_tails cs vs y w' : Forall (fun v => hd 0 v = 0) vs -> lc cs vs (y :: w') = lc cs (map (@tl R) vs) w'.
Proof.
  revert cs; induction vs as [|v vs IH]; intros [|c cs] Hall; cbn [lc map]; try reflexivity.
  inversion Hall as [|? ? Hv Hvs]; subst. rewrite (IH cs Hvs). destruct v as [|h t].
  - cbn [tl]. rewrite !rdot_nil_l. reflexivity.
  - cbn [hd] in Hv. subst h. cbn [tl]. rewrite rdot_cons. lra.
Qed.

Lemma heads_case (vs : list rvec) :
  Forall (fun v => hd 0 v = 0) vs \/ exists l1 v l2, vs = l1 ++ v :: l2 /\ hd 0 v <> 0.
Proof.
  induction vs as [|v vs [IH|(l1 & p & l2 & E & Hp)]].
  - left. constructor.
  - destruct (Req_dec (hd 0 v) 0) as [Hz|Hnz].
    + left. constructor; assumption.
    + right. exists [], v, vs. split; [reflexivity|assumption].
  - right. exists (v :: l1), p, l2. split; [rewrite E; reflexivity|assumption].
Qed.

Definition Dep (n : nat) (vs : list rvec) : Prop :=
  exists cs, length cs = length vs /\ Exists (fun c => c <> 0) cs /\ forall w, len n w -> lc cs vs w = 0.

Theorem dependent n : forall vs, Forall (len n) vs -> length vs = S n -> Dep n vs.
Proof.
  induction n as [|n IH]; intros vs Hall Hlen.
  - destruct vs as [|v [|? ?]]; try discriminate. exists [1]. split; [reflexivity|]. split; [constructor; lra|].
    intros w Hw. inversion Hall; subst. rewrite (len_0_inv v) by assumption. cbn [lc]. rewrite rdot_nil_l. lra.
  - destruct (heads_case vs) as [Hz|(l1 & v & l2 & E & Hnz)].
    + destruct vs as [|v0 vs']; [discriminate|]. simpl in Hlen.
      inversion Hall as [|? ? Hv0 Hvs']; subst. inversion Hz as [|? ? Hz0 Hzs]; subst.
      destruct (IH (map (@tl R) vs')) as (cs & Ec & Hex & Hlc).
      { apply Forall_map. eapply Forall_impl; [|exact Hvs']. intros a Ha. apply (len_S_inv n a Ha). }
      { rewrite map_length. congruence. }
      exists (0 :: cs). split; [simpl; rewrite Ec, map_length; reflexivity|]. split; [apply Exists_cons_tl; exact Hex|].
      intros w Hw. destruct (len_S_inv n w Hw) as (Ew & Tw). rewrite Ew. cbn [lc].
      rewrite (lc_tails cs vs' _ _ Hzs). rewrite (Hlc _ Tw). lra.
    + subst vs. rewrite app_length in Hlen. simpl in Hlen.
      apply Forall_app in Hall. destruct Hall as (H1 & H2). inversion H2 as [|? ? Hv H2']; subst.
      assert (Hus : Forall (len (S n)) (l1 ++ l2)) by (apply Forall_app; split; assumption).
      destruct (IH (map (felim v) (l1 ++ l2))) as (cs & Ec & Hex & Hlc).
      { apply Forall_map. eapply Forall_impl; [|exact Hus]. intros a Ha. apply felim_len; assumption. }
      { rewrite map_length, app_length. lia. }
      rewrite map_length in Ec.
      set (c1 := firstn (length l1) cs). set (c2 := skipn (length l1) cs).
      assert (Ecs : cs = c1 ++ c2) by (symmetry; apply firstn_skipn).
      assert (E1 : length c1 = length l1).
      { unfold c1. rewrite firstn_length. rewrite Ec, app_length. lia. }
      set (cv := - hsum cs (l1 ++ l2) / hd 0 v).
      exists (c1 ++ cv :: c2). split.
      { pose proof (f_equal (@length R) Ecs) as EL. rewrite app_length in EL. rewrite Ec, app_length in EL.
        rewrite !app_length. simpl. lia. }
      split.
      { rewrite Ecs in Hex. apply Exists_app in Hex. apply Exists_app. destruct Hex as [Hx|Hx]; [left; exact Hx|right; apply Exists_cons_tl; exact Hx]. }
      intros w Hw. destruct (len_S_inv n w Hw) as (Ew & Tw). rewrite Ew.
      rewrite (lc_app c1 l1 (cv :: c2) (v :: l2)) by exact E1. cbn [lc].
      pose proof (lc_elim n v Hv Hnz (l1 ++ l2) cs (hd 0 w) (tl w) Hus Ec Tw) as El. fold cv in El.
      rewrite (Hlc _ Tw) in El. rewrite Ecs in El at 1. rewrite (lc_app c1 l1 c2 l2) in El by exact E1. lra.
Qed.

(* ---- conjugate families *)
Section Conj.
  Variable n : nat.
  Variable Hf : rvec -> rvec.
  Hypothesis Hlen : forall v, len n v -> len n (Hf v).
  Hypothesis Hsym : forall a b, len n a -> len n b -> a ⋅ Hf b = Hf a ⋅ b.

  (* newest first: every member has length n and positive curvature and is conjugate to all members after it *)
  Fixpoint Conj (ps : list rvec) : Prop :=
    match ps with
    | [] => True
    | e :: r => len n e /\ 0 < e ⋅ Hf e /\ (forall e', In e' r -> e ⋅ Hf e' = 0) /\ Conj r
    end.

  Lemma Conj_len ps : Conj ps -> Forall (len n) ps.
  Proof. induction ps as [|e r IH]; [constructor|]. intros (L & _ & _ & C). constructor; [exact L|apply IH, C]. Qed.
  Lemma Conj_skipn k : forall ps, Conj ps -> Conj (skipn k ps).
  Proof. induction k as [|k IH]; intros [|e r] C; cbn [skipn]; try exact C. apply IH. apply C. Qed.

  Lemma lc_conj_zero e r cs : len n e -> Forall (len n) r -> (forall e', In e' r -> e ⋅ Hf e' = 0) -> lc cs r (Hf e) = 0.
  Proof.
    intros Le. revert cs; induction r as [|a r IH]; intros [|c cs] Lr Hc; cbn [lc]; try reflexivity.
    inversion Lr; subst. rewrite IH; [|assumption|intros e' He'; apply Hc; right; exact He'].
    rewrite Hsym by assumption. rewrite rdot_comm. rewrite (Hc a (or_introl eq_refl)). lra.
  Qed.

  Lemma conj_independent ps : Conj ps -> forall cs, length cs = length ps -> (forall w, len n w -> lc cs ps w = 0) ->
    Forall (fun c => c = 0) cs.
  Proof.
    induction ps as [|e r IH]; intros C [|c cs] E Hz; simpl in E; try discriminate; [constructor|].
    destruct C as (Le & Hpos & Hc & Cr).
    assert (c = 0).
    { pose proof (Hz (Hf e) (Hlen e Le)) as Z. cbn [lc] in Z. rewrite (lc_conj_zero e r cs Le (Conj_len r Cr) Hc) in Z. nra. }
    subst c. constructor; [reflexivity|]. apply IH; [exact Cr|congruence|].
    intros w Hw. specialize (Hz w Hw). cbn [lc] in Hz. lra.
  Qed.

  Theorem conj_length ps : Conj ps -> (length ps <= n)%nat.
  Proof.
    intros C. destruct (le_lt_dec (length ps) n) as [|Hgt]; [assumption|exfalso].
    set (qs := skipn (length ps - S n) ps).
    assert (Cq : Conj qs) by (apply Conj_skipn; exact C).
    assert (Lq : length qs = S n) by (unfold qs; rewrite skipn_length; lia).
    destruct (dependent n qs (Conj_len qs Cq) Lq) as (cs & Ec & Hex & Hlc).
    pose proof (conj_independent qs Cq cs Ec Hlc) as Hall.
    apply Exists_exists in Hex. destruct Hex as (c & Hin & Hnz).
    rewrite Forall_forall in Hall. apply Hnz, Hall, Hin.
  Qed.
End Conj.
