(* C08: elastic energies are objective, isotropic and stress-free at rest.
   Subjects: the kernels regenerated from /repo (gen/Gen_*.v) at T := R, composed as in the material factories (model/M_C08.v).
   Method: each generated energy is shown (by unfolding + field) to be a function of invariants of F^T F (bridge lemmas);
   objectivity/isotropy then follow from matrix algebra; the rest state by evaluation; zero stress at rest as a Coquelicot
   derivative along every straight path t |-> t D through H = 0. *)
From Coq Require Import Reals Lra QArith Nsatz.
From Coquelicot Require Import Coquelicot.
From OV.base Require Import Num.
From OV.gen Require Import Gen_TensorMath Gen_LinearElastic Gen_Neohookean Gen_Gent Gen_J2Elastic
  Gen_HyperViscoelastic Gen_MultiBranchHyperViscoelastic Gen_PhaseFieldThreshold.
From OV.model Require Import M_C08.
Local Open Scope R_scope.

Notation M := (mat R).
Ltac mnum := cbv beta iota zeta delta [
   E_le_linear E_le_gl E_le_log W_le strain_linear strain_gl strain_log E_neo_coupled E_neo_adagio E_gent
   W_j2 j2_strain_log j2_strain_linear j2_strain_seth_hill E_j2_log E_j2_linear E_j2_seth_hill E_hv E_hv_eq E_mb E_mb_eq mb_branch
   W_pf pf_strain_log pf_strain_linear E_pf_log E_pf_linear
   t_trace I2 t_det detpIm1 deviator dev sym skw norm_of_deviator_squared
   _linear_elastic_energy_density green_lagrange_strain linear_strain log_strain
   _neohookean_3D_energy_density _adagio_neohookean _gent_3D_energy_density
   j2_elastic_deviatoric_free_energy j2_elastic_volumetric_free_energy j2_elastic_free_energy
   compute_elastic_logarithmic_strain compute_elastic_linear_strain compute_elastic_seth_hill_strain
   _eq_strain_energy _neq_strain_energy _dissipation_potential _compute_state_increment _compute_elastic_logarithmic_strain
   hv_energy_density mb_eq_strain_energy mb_compute_elastic_logarithmic_strain
   _neq_strain_energy_b1 _dissipation_potential_b1 _compute_state_increment_b1
   _neq_strain_energy_b2 _dissipation_potential_b2 _compute_state_increment_b2
   _neq_strain_energy_b3 _dissipation_potential_b3 _compute_state_increment_b3
   degradation pf_elastic_deviatoric_free_energy pf_elastic_volumetric_free_energy pf_strain_energy_density
   pf_phase_potential_density pf_energy_density pf_compute_linear_strain pf_compute_logarithmic_strain
   rotL rotR defgrad madd msub map2 mscal mmul mtr mtrace mddot mdet mid mzero ap9 of9 to9 lift1 lift2
   m00 m01 m02 m10 m11 m12 m20 m21 m22
   nconst nadd nsub nmul ndiv nopp nabs nsqrt nexp nln nltb nleb neqb NumR nZ nzero nunit ntwo nhalf ngtb ngeb nneb nmin nmax nsign nsq npow npowr
   Q2R' Qnum Qden inject_Z].
Ltac mat_eq := mnum; f_equal; ring.
Ltac dm A := destruct A as [? ? ? ? ? ? ? ? ?].

Lemma mmul_assoc (A B C : M) : mmul (mmul A B) C = mmul A (mmul B C).
Proof. dm A; dm B; dm C. mat_eq. Qed.
Lemma mtr_mmul (A B : M) : mtr (mmul A B) = mmul (mtr B) (mtr A).
Proof. dm A; dm B. mat_eq. Qed.
Lemma mtr_mtr (A : M) : mtr (mtr A) = A.
Proof. dm A. reflexivity. Qed.
Lemma mmul_id_l (A : M) : mmul mid A = A.
Proof. dm A. mat_eq. Qed.
Lemma mmul_id_r (A : M) : mmul A mid = A.
Proof. dm A. mat_eq. Qed.
Lemma mdet_mmul (A B : M) : mdet (mmul A B) = mdet A * mdet B.
Proof. dm A; dm B. mnum. ring. Qed.
Lemma mdet_mtr (A : M) : mdet (mtr A) = mdet A.
Proof. dm A. mnum. ring. Qed.
Lemma mddot_trace (A B : M) : mddot A B = mtrace (mmul (mtr A) B).
Proof. dm A; dm B. mnum. ring. Qed.
Lemma mtrace_cyclic (A B : M) : mtrace (mmul A B) = mtrace (mmul B A).
Proof. dm A; dm B. mnum. ring. Qed.
Lemma defgrad_rotL (Q H : M) : defgrad (rotL Q H) = mmul Q (defgrad H).
Proof. dm Q; dm H. mat_eq. Qed.
Lemma defgrad_rotR (Q H : M) : defgrad (rotR Q H) = mmul (defgrad H) Q.
Proof. dm Q; dm H. mat_eq. Qed.

Definition rotation (Q : M) : Prop := mmul (mtr Q) Q = mid /\ mmul Q (mtr Q) = mid /\ mdet Q = 1.


Ltac norm_fun f J :=
  repeat match goal with
  | |- context [f ?x] => tryif constr_eq x J then fail else (replace x with J by field)
  end.
Lemma Reqb_ne (x a b : R) : x <> 0 -> (if Reqb x 0 then a else b) = b.
Proof. intros Hx. destruct (Reqb x 0) eqn:E; [apply Reqb_true in E; contradiction | reflexivity]. Qed.
Ltac kill_eq0 HJ :=
  repeat match goal with |- context [if Reqb ?x 0 then ?a else ?b] =>
     rewrite (Reqb_ne x a b) by (let Hc := fresh in intro Hc; apply HJ; (etransitivity; [|exact Hc]); ring) end.

Lemma rot_invL Q F : rotation Q ->
  mmul (mtr (mmul Q F)) (mmul Q F) = mmul (mtr F) F /\ mdet (mmul Q F) = mdet F /\ mddot (mmul Q F) (mmul Q F) = mddot F F.
Proof.
  intros (H1 & H2 & H3).
  assert (E : mmul (mtr (mmul Q F)) (mmul Q F) = mmul (mtr F) F).
  { rewrite mtr_mmul, mmul_assoc, <- (mmul_assoc (mtr Q)), H1, mmul_id_l. reflexivity. }
  split; [exact E|]. split.
  - rewrite mdet_mmul, H3. ring.
  - rewrite !mddot_trace, E. reflexivity.
Qed.
Definition conj (Q A : M) : M := mmul (mtr Q) (mmul A Q).
Lemma rot_invR Q F : rotation Q ->
  mmul (mtr (mmul F Q)) (mmul F Q) = conj Q (mmul (mtr F) F) /\ mdet (mmul F Q) = mdet F /\ mddot (mmul F Q) (mmul F Q) = mddot F F.
Proof.
  intros (H1 & H2 & H3).
  assert (E : mmul (mtr (mmul F Q)) (mmul F Q) = conj Q (mmul (mtr F) F)).
  { unfold conj. rewrite mtr_mmul, !mmul_assoc. reflexivity. }
  split; [exact E|]. split.
  - rewrite mdet_mmul, H3. ring.
  - rewrite !mddot_trace, E. unfold conj. rewrite mtrace_cyclic, mmul_assoc, H2, mmul_id_r. reflexivity.
Qed.

Definition psi_neo (mu lam I1 J : R) : R := / 2 * mu * (I1 - 3 - 2 * ln J) + / 2 * lam * (ln J * ln J).
Definition psi_vol (kappa J : R) : R := / 2 * kappa * (/ 2 * (J * J) - / 2 - ln J).
Definition I1bar (I1 J : R) : R := exp (- (2 / 3) * ln J) * I1.
Definition psi_adagio (kappa mu I1 J : R) : R := / 2 * mu * (I1bar I1 J - 3) + psi_vol kappa J.
Definition psi_gent (kappa mu Jm I1 J : R) : R := - / 2 * (mu * Jm) * ln (1 - (I1bar I1 J - 3) / Jm) + psi_vol kappa J.
Definition I1 (H : M) : R := mddot (defgrad H) (defgrad H).
Definition JJ (H : M) : R := mdet (defgrad H).

Lemma neo_bridge p H : E_neo_coupled p H = let '(_, _, mu, _, lam) := p in psi_neo mu lam (I1 H) (JJ H).
Proof.
  destruct p as [[[[a b] c] d] e]. dm H. unfold E_neo_coupled, _neohookean_3D_energy_density, psi_neo, I1, JJ. mnum.
  match goal with |- _ = ?r => match r with context [ln ?j] => norm_fun ln j end end. field.
Qed.
Lemma adagio_bridge p H : JJ H <> 0 -> E_neo_adagio p H = let '(_, _, mu, kappa, _) := p in psi_adagio kappa mu (I1 H) (JJ H).
Proof.
  destruct p as [[[[a b] c] d] e]. dm H. unfold E_neo_adagio, _adagio_neohookean, psi_adagio, psi_vol, I1bar, I1, JJ. mnum. intros HJ.
  kill_eq0 HJ.
  match goal with |- _ = ?r => match r with context [ln ?j] => norm_fun ln j end end.
  match goal with |- _ = ?r => match r with context [exp ?j] => norm_fun exp j end end. field.
Qed.

Lemma gent_bridge p H : JJ H <> 0 -> E_gent p H = let '(kappa, mu, Jm) := p in psi_gent kappa mu Jm (I1 H) (JJ H).
Proof.
  destruct p as [[a b] c]. dm H. unfold E_gent, _gent_3D_energy_density, psi_gent, psi_vol, I1bar, I1, JJ. mnum. intros HJ.
  kill_eq0 HJ.
  match goal with |- _ = ?r => match r with context [exp (_ * ln ?j)] => norm_fun ln j end end.
  match goal with |- _ = ?r => match r with context [exp ?j] => norm_fun exp j end end.
  match goal with |- _ = ?r => match r with context [ln (1 - ?j)] => norm_fun ln (1 - j) end end.
  field.
Qed.

Lemma hveq_bridge p H : JJ H <> 0 -> E_hv_eq p H = let '(K, G, _, _) := p in psi_adagio K G (I1 H) (JJ H).
Proof.
  destruct p as [[[a b] c] d]. dm H. unfold E_hv_eq, _eq_strain_energy, psi_adagio, psi_vol, I1bar, I1, JJ. mnum. intros HJ.
  kill_eq0 HJ.
  match goal with |- _ = ?r => match r with context [ln ?j] => norm_fun ln j end end.
  match goal with |- _ = ?r => match r with context [exp ?j] => norm_fun exp j end end. field.
Qed.
Lemma mbeq_bridge p H : JJ H <> 0 -> E_mb_eq p H = let '(K, G, _, _, _, _, _, _) := p in psi_adagio K G (I1 H) (JJ H).
Proof.
  destruct p as [[[[[[[a b] c] d] e] f] g] h]. dm H. unfold E_mb_eq, mb_eq_strain_energy, psi_adagio, psi_vol, I1bar, I1, JJ. mnum. intros HJ.
  kill_eq0 HJ.
  match goal with |- _ = ?r => match r with context [ln ?j] => norm_fun ln j end end.
  match goal with |- _ = ?r => match r with context [exp ?j] => norm_fun exp j end end. field.
Qed.

Lemma I1_rotL Q H : rotation Q -> I1 (rotL Q H) = I1 H.
Proof. intros HR. unfold I1. rewrite defgrad_rotL. apply (rot_invL Q (defgrad H) HR). Qed.
Lemma JJ_rotL Q H : rotation Q -> JJ (rotL Q H) = JJ H.
Proof. intros HR. unfold JJ. rewrite defgrad_rotL. apply (rot_invL Q (defgrad H) HR). Qed.
Lemma I1_rotR Q H : rotation Q -> I1 (rotR Q H) = I1 H.
Proof. intros HR. unfold I1. rewrite defgrad_rotR. apply (rot_invR Q (defgrad H) HR). Qed.
Lemma JJ_rotR Q H : rotation Q -> JJ (rotR Q H) = JJ H.
Proof. intros HR. unfold JJ. rewrite defgrad_rotR. apply (rot_invR Q (defgrad H) HR). Qed.

Ltac inv_rw HR := rewrite ?(I1_rotL _ _ HR), ?(JJ_rotL _ _ HR), ?(I1_rotR _ _ HR), ?(JJ_rotR _ _ HR).

Theorem neo_coupled_objective p Q H : rotation Q -> E_neo_coupled p (rotL Q H) = E_neo_coupled p H.
Proof. intros HR. rewrite !neo_bridge. inv_rw HR. reflexivity. Qed.
Theorem neo_coupled_isotropic p Q H : rotation Q -> E_neo_coupled p (rotR Q H) = E_neo_coupled p H.
Proof. intros HR. rewrite !neo_bridge. inv_rw HR. reflexivity. Qed.
Theorem neo_adagio_objective p Q H : rotation Q -> 0 < JJ H -> E_neo_adagio p (rotL Q H) = E_neo_adagio p H.
Proof. intros HR HJ. rewrite !adagio_bridge by (inv_rw HR; lra). inv_rw HR. reflexivity. Qed.
Theorem neo_adagio_isotropic p Q H : rotation Q -> 0 < JJ H -> E_neo_adagio p (rotR Q H) = E_neo_adagio p H.
Proof. intros HR HJ. rewrite !adagio_bridge by (inv_rw HR; lra). inv_rw HR. reflexivity. Qed.
Theorem gent_objective p Q H : rotation Q -> 0 < JJ H -> E_gent p (rotL Q H) = E_gent p H.
Proof. intros HR HJ. rewrite !gent_bridge by (inv_rw HR; lra). inv_rw HR. reflexivity. Qed.
Theorem gent_isotropic p Q H : rotation Q -> 0 < JJ H -> E_gent p (rotR Q H) = E_gent p H.
Proof. intros HR HJ. rewrite !gent_bridge by (inv_rw HR; lra). inv_rw HR. reflexivity. Qed.
Theorem hveq_objective p Q H : rotation Q -> 0 < JJ H -> E_hv_eq p (rotL Q H) = E_hv_eq p H.
Proof. intros HR HJ. rewrite !hveq_bridge by (inv_rw HR; lra). inv_rw HR. reflexivity. Qed.
Theorem hveq_isotropic p Q H : rotation Q -> 0 < JJ H -> E_hv_eq p (rotR Q H) = E_hv_eq p H.
Proof. intros HR HJ. rewrite !hveq_bridge by (inv_rw HR; lra). inv_rw HR. reflexivity. Qed.
Theorem mbeq_objective p Q H : rotation Q -> 0 < JJ H -> E_mb_eq p (rotL Q H) = E_mb_eq p H.
Proof. intros HR HJ. rewrite !mbeq_bridge by (inv_rw HR; lra). inv_rw HR. reflexivity. Qed.
Theorem mbeq_isotropic p Q H : rotation Q -> 0 < JJ H -> E_mb_eq p (rotR Q H) = E_mb_eq p H.
Proof. intros HR HJ. rewrite !mbeq_bridge by (inv_rw HR; lra). inv_rw HR. reflexivity. Qed.

(* ---------- rest state ---------- *)
Lemma I1_zero : I1 mzero = 3. Proof. unfold I1. mnum. ring. Qed.
Lemma JJ_zero : JJ mzero = 1. Proof. unfold JJ. mnum. ring. Qed.
Lemma psi_neo_rest mu lam : psi_neo mu lam 3 1 = 0.
Proof. unfold psi_neo. rewrite ln_1. field. Qed.
Lemma psi_adagio_rest k mu : psi_adagio k mu 3 1 = 0.
Proof. unfold psi_adagio, psi_vol, I1bar. rewrite ln_1, Rmult_0_r, exp_0. field. Qed.
Lemma psi_gent_rest k mu Jm : psi_gent k mu Jm 3 1 = 0.
Proof. unfold psi_gent, psi_vol, I1bar. rewrite ln_1, Rmult_0_r, exp_0.
  replace (1 - (1 * 3 - 3) / Jm) with 1 by (unfold Rdiv; ring). rewrite ln_1. field. Qed.

Theorem neo_coupled_rest p : E_neo_coupled p mzero = 0.
Proof. rewrite neo_bridge, I1_zero, JJ_zero. destruct p as [[[[a b] c] d] e]. apply psi_neo_rest. Qed.
Theorem neo_adagio_rest p : E_neo_adagio p mzero = 0.
Proof. rewrite adagio_bridge by (rewrite JJ_zero; lra). rewrite I1_zero, JJ_zero. destruct p as [[[[a b] c] d] e]. apply psi_adagio_rest. Qed.
Theorem gent_rest p : E_gent p mzero = 0.
Proof. rewrite gent_bridge by (rewrite JJ_zero; lra). rewrite I1_zero, JJ_zero. destruct p as [[a b] c]. apply psi_gent_rest. Qed.
Theorem hveq_rest p : E_hv_eq p mzero = 0.
Proof. rewrite hveq_bridge by (rewrite JJ_zero; lra). rewrite I1_zero, JJ_zero. destruct p as [[[a b] c] d]. apply psi_adagio_rest. Qed.
Theorem mbeq_rest p : E_mb_eq p mzero = 0.
Proof. rewrite mbeq_bridge by (rewrite JJ_zero; lra). rewrite I1_zero, JJ_zero. destruct p as [[[[[[[a b] c] d] e] f] g] h]. apply psi_adagio_rest. Qed.

(* ---------- stress-free rest state: derivative of the energy along every straight path t |-> t D ---------- *)
Lemma I1_path D : is_derive (fun t => I1 (mscal t D)) 0 (2 * mtrace D).
Proof. dm D. unfold I1. mnum. auto_derive; [trivial | ring]. Qed.
Lemma JJ_path D : is_derive (fun t => JJ (mscal t D)) 0 (mtrace D).
Proof. dm D. unfold JJ. mnum. auto_derive; [trivial | ring]. Qed.
Lemma I1_path0 D : I1 (mscal 0 D) = 3. Proof. dm D. unfold I1. mnum. ring. Qed.
Lemma JJ_path0 D : JJ (mscal 0 D) = 1. Proof. dm D. unfold JJ. mnum. ring. Qed.
Lemma JJ_path_locally D : locally 0 (fun t => JJ (mscal t D) <> 0).
Proof.
  assert (Hc : continuous (fun t => JJ (mscal t D)) 0).
  { apply (ex_derive_continuous (fun t => JJ (mscal t D))). eexists. apply JJ_path. }
  assert (HP : locally (JJ (mscal 0 D)) (fun y => 0 < y)).
  { apply (open_gt 0). rewrite JJ_path0. lra. }
  specialize (Hc _ HP). unfold filtermap in Hc. revert Hc. apply filter_imp. intros t Ht. lra.
Qed.

Section RestDerive.
  Variables (i j : R -> R) (a : R).
  Hypothesis Hi : is_derive i 0 (2 * a).
  Hypothesis Hj : is_derive j 0 a.
  Hypothesis Hi0 : i 0 = 3.
  Hypothesis Hj0 : j 0 = 1.
  Lemma Di : Derive (fun x => i x) 0 = 2 * a. Proof. apply is_derive_unique. exact Hi. Qed.
  Lemma Dj : Derive (fun x => j x) 0 = a. Proof. apply is_derive_unique. exact Hj. Qed.
  Lemma psi_neo_rest_derive mu lam : is_derive (fun t => psi_neo mu lam (i t) (j t)) 0 0.
  Proof.
    unfold psi_neo. auto_derive.
    - repeat split; try (eexists; eassumption); rewrite Hj0; lra.
    - rewrite Di, Dj, Hj0, ln_1. field.
  Qed.
  Lemma psi_adagio_rest_derive k mu : is_derive (fun t => psi_adagio k mu (i t) (j t)) 0 0.
  Proof.
    unfold psi_adagio, psi_vol, I1bar. auto_derive.
    - repeat split; try (eexists; eassumption); rewrite Hj0; lra.
    - rewrite Di, Dj, Hi0, Hj0, ln_1, ?Rmult_0_r, exp_0. field.
  Qed.
  Lemma psi_gent_rest_derive k mu Jm : Jm <> 0 -> is_derive (fun t => psi_gent k mu Jm (i t) (j t)) 0 0.
  Proof.
    intros HJm. unfold psi_gent, psi_vol, I1bar. auto_derive.
    - rewrite Hi0, Hj0, ln_1, ?Rmult_0_r, exp_0.
      repeat split; try (eexists; eassumption); try lra.
    - rewrite Di, Dj, Hi0, Hj0, ln_1, ?Rmult_0_r, exp_0. field.
      repeat split; try exact HJm; intro Hx; apply HJm; lra.
  Qed.
End RestDerive.

Theorem neo_coupled_rest_stress p D : is_derive (fun t => E_neo_coupled p (mscal t D)) 0 0.
Proof.
  destruct p as [[[[a b] c] d] e].
  apply (is_derive_ext (fun t => psi_neo c e (I1 (mscal t D)) (JJ (mscal t D)))).
  - intros t. rewrite neo_bridge. reflexivity.
  - apply (psi_neo_rest_derive _ _ (mtrace D)); first [apply I1_path | apply JJ_path | apply I1_path0 | apply JJ_path0].
Qed.
Theorem neo_adagio_rest_stress p D : is_derive (fun t => E_neo_adagio p (mscal t D)) 0 0.
Proof.
  destruct p as [[[[a b] c] d] e].
  apply (is_derive_ext_loc (fun t => psi_adagio d c (I1 (mscal t D)) (JJ (mscal t D)))).
  - generalize (JJ_path_locally D). apply filter_imp. intros t Ht. rewrite adagio_bridge by exact Ht. reflexivity.
  - apply (psi_adagio_rest_derive _ _ (mtrace D)); first [apply I1_path | apply JJ_path | apply I1_path0 | apply JJ_path0].
Qed.
Theorem gent_rest_stress p D : snd p <> 0 -> is_derive (fun t => E_gent p (mscal t D)) 0 0.
Proof.
  destruct p as [[a b] c]. cbn [snd]. intros Hc.
  apply (is_derive_ext_loc (fun t => psi_gent a b c (I1 (mscal t D)) (JJ (mscal t D)))).
  - generalize (JJ_path_locally D). apply filter_imp. intros t Ht. rewrite gent_bridge by exact Ht. reflexivity.
  - apply (psi_gent_rest_derive _ _ (mtrace D)); first [apply I1_path | apply JJ_path | apply I1_path0 | apply JJ_path0 | exact Hc].
Qed.
Theorem hveq_rest_stress p D : is_derive (fun t => E_hv_eq p (mscal t D)) 0 0.
Proof.
  destruct p as [[[a b] c] d].
  apply (is_derive_ext_loc (fun t => psi_adagio a b (I1 (mscal t D)) (JJ (mscal t D)))).
  - generalize (JJ_path_locally D). apply filter_imp. intros t Ht. rewrite hveq_bridge by exact Ht. reflexivity.
  - apply (psi_adagio_rest_derive _ _ (mtrace D)); first [apply I1_path | apply JJ_path | apply I1_path0 | apply JJ_path0].
Qed.

(* ---------- quadratic (Hencky / St-Venant type) energies: functions of tr E and E:E only ---------- *)
Definition phi_q (kappa mu a b : R) : R := / 2 * kappa * (a * a) + mu * (b - a * a / 3).
Lemma W_le_bridge p E : W_le p E = let '(_, _, mu, kappa) := p in phi_q kappa mu (mtrace E) (mddot E E).
Proof. destruct p as [[[a b] c] d]. dm E. unfold W_le, _linear_elastic_energy_density, phi_q. mnum. field. Qed.
Lemma W_j2_bridge p E : W_j2 p E = let '(_, _, mu, kappa, _) := p in phi_q kappa mu (mtrace E) (mddot E E).
Proof.
  destruct p as [[[[a b] c] d] e]. dm E.
  unfold W_j2, j2_elastic_free_energy, j2_elastic_volumetric_free_energy, j2_elastic_deviatoric_free_energy,
    norm_of_deviator_squared, deviator, t_trace, phi_q. mnum. field.
Qed.
Definition phi_pf (p : p6) (phase g0 g1 g2 a b : R) : R :=
  let '(_, _, mu, kappa, Gc, l) := p in
  (1 - phase) * (1 - phase) * mu * (b - a * a / 3)
  + (if Rlt_dec 0 a then (1 - phase) * (1 - phase) else 1) * / 2 * kappa * (a * a)
  + 3 * Gc / 8 * (phase / l + l * (g0 * g0 + g1 * g1 + g2 * g2)).
Lemma W_pf_bridge p phase g0 g1 g2 E : W_pf p phase g0 g1 g2 E = phi_pf p phase g0 g1 g2 (mtrace E) (mddot E E).
Proof.
  destruct p as [[[[[a b] c] d] e] f]. dm E.
  unfold W_pf, pf_energy_density, pf_strain_energy_density, pf_phase_potential_density, pf_elastic_volumetric_free_energy,
    pf_elastic_deviatoric_free_energy, degradation, norm_of_deviator_squared, deviator, t_trace, phi_pf. mnum.
  unfold Rltb. generalize (phase / f). intros pl.
  repeat match goal with |- context [Rlt_dec 0 ?x] => destruct (Rlt_dec 0 x) end; try field; exfalso; lra.
Qed.

Lemma conj_tr Q A : mtr (conj Q A) = conj Q (mtr A).
Proof. unfold conj. rewrite !mtr_mmul, mtr_mtr, mmul_assoc. reflexivity. Qed.
Lemma conj_mul Q A B : rotation Q -> mmul (conj Q A) (conj Q B) = conj Q (mmul A B).
Proof.
  intros (H1 & H2 & H3). unfold conj.
  rewrite !mmul_assoc. f_equal. f_equal. rewrite <- !mmul_assoc. rewrite H2, mmul_id_l. reflexivity.
Qed.
Lemma trace_conj Q A : rotation Q -> mtrace (conj Q A) = mtrace A.
Proof. intros (H1 & H2 & H3). unfold conj. rewrite mtrace_cyclic, mmul_assoc, H2, mmul_id_r. reflexivity. Qed.
Lemma ddot_conj Q A : rotation Q -> mddot (conj Q A) (conj Q A) = mddot A A.
Proof. intros HR. rewrite !mddot_trace, conj_tr, conj_mul by exact HR. apply trace_conj. exact HR. Qed.
Lemma conj_id Q : rotation Q -> conj Q mid = mid.
Proof. intros (H1 & H2 & H3). unfold conj. rewrite mmul_id_l. exact H1. Qed.
Lemma mmul_msub_l (A B C : M) : mmul (msub A B) C = msub (mmul A C) (mmul B C).
Proof. dm A; dm B; dm C. mat_eq. Qed.
Lemma mmul_msub_r (A B C : M) : mmul C (msub A B) = msub (mmul C A) (mmul C B).
Proof. dm A; dm B; dm C. mat_eq. Qed.
Lemma mmul_madd_l (A B C : M) : mmul (madd A B) C = madd (mmul A C) (mmul B C).
Proof. dm A; dm B; dm C. mat_eq. Qed.
Lemma mmul_madd_r (A B C : M) : mmul C (madd A B) = madd (mmul C A) (mmul C B).
Proof. dm A; dm B; dm C. mat_eq. Qed.
Lemma mmul_mscal_l s (A B : M) : mmul (mscal s A) B = mscal s (mmul A B).
Proof. dm A; dm B. mat_eq. Qed.
Lemma mmul_mscal_r s (A B : M) : mmul A (mscal s B) = mscal s (mmul A B).
Proof. dm A; dm B. mat_eq. Qed.
Lemma conj_sub Q A B : conj Q (msub A B) = msub (conj Q A) (conj Q B).
Proof. unfold conj. rewrite mmul_msub_l, mmul_msub_r. reflexivity. Qed.
Lemma conj_add Q A B : conj Q (madd A B) = madd (conj Q A) (conj Q B).
Proof. unfold conj. rewrite mmul_madd_l, mmul_madd_r. reflexivity. Qed.
Lemma conj_scal Q s A : conj Q (mscal s A) = mscal s (conj Q A).
Proof. unfold conj. rewrite mmul_mscal_l, mmul_mscal_r. reflexivity. Qed.

Theorem W_le_conj p Q E : rotation Q -> W_le p (conj Q E) = W_le p E.
Proof. intros HR. rewrite !W_le_bridge, trace_conj, ddot_conj by exact HR. reflexivity. Qed.
Theorem W_j2_conj p Q E : rotation Q -> W_j2 p (conj Q E) = W_j2 p E.
Proof. intros HR. rewrite !W_j2_bridge, trace_conj, ddot_conj by exact HR. reflexivity. Qed.

(* ---------- strain measures ---------- *)
Definition CC (H : M) : M := mmul (mtr (defgrad H)) (defgrad H).
Definition mdevm (A : M) : M := msub A (mscal (mtrace A / 3) mid).
Lemma CC_rotL Q H : rotation Q -> CC (rotL Q H) = CC H.
Proof. intros HR. unfold CC. rewrite defgrad_rotL. apply (rot_invL Q (defgrad H) HR). Qed.
Lemma CC_rotR Q H : rotation Q -> CC (rotR Q H) = conj Q (CC H).
Proof. intros HR. unfold CC. rewrite defgrad_rotR. apply (rot_invR Q (defgrad H) HR). Qed.
Lemma CC_sym H : mtr (CC H) = CC H.
Proof. unfold CC. rewrite mtr_mmul, mtr_mtr. reflexivity. Qed.
Lemma CC_zero : CC mzero = mid. Proof. unfold CC. mat_eq. Qed.
Lemma mdevm_conj Q A : rotation Q -> mdevm (conj Q A) = conj Q (mdevm A).
Proof. intros HR. unfold mdevm. rewrite conj_sub, conj_scal, conj_id, trace_conj by exact HR. reflexivity. Qed.

Lemma strain_gl_bridge H : strain_gl H = mscal (/ 2) (msub (CC H) mid).
Proof. dm H. unfold strain_gl, green_lagrange_strain, CC. mnum. f_equal; field. Qed.
Lemma strain_linear_bridge H : strain_linear H = mscal (/ 2) (madd H (mtr H)).
Proof. dm H. unfold strain_linear, linear_strain, sym. mnum. f_equal; field. Qed.

Ltac sync_arg f tac :=
  match goal with |- _ = ?r => match r with context [f ?X] =>
    repeat match goal with |- context [f ?x] => tryif constr_eq x X then fail else (replace x with X by tac) end end end.

Lemma strain_log_bridge lss H : strain_log lss H = madd (mdevm (lss (CC H))) (mscal (ln (JJ H) / 3) mid).
Proof.
  dm H. unfold strain_log, log_strain, detpIm1, dev, deviator, t_trace, I2, t_det, CC, JJ, mdevm. mnum.
  sync_arg lss ltac:(f_equal; field).
  match goal with |- context [lss ?X] => destruct (lss X) end. mnum.
  sync_arg ln ltac:(field).
  f_equal; field.
Qed.

(* ----- hypotheses on the un-modelled spectral tensor functions (TensorMath.log_sqrt_symm, pow_symm) ----- *)
Definition msym (A : M) : Prop := mtr A = A.
Record LogSqrtSpec (lss : M -> M) : Prop := {
  lss_equivariant : forall Q A, rotation Q -> msym A -> lss (conj Q A) = conj Q (lss A);
  lss_identity : lss mid = mzero }.
Record PowSpec (pw : M -> R -> M) : Prop := {
  pw_equivariant : forall Q A m, rotation Q -> msym A -> pw (conj Q A) m = conj Q (pw A m);
  pw_identity : forall m, pw mid m = mid;
  pw_zero : forall m, 0 < m -> pw mzero m = mzero }.
(* the hypotheses are satisfiable (non-vacuity; these instances are NOT the matrix logarithm / power) *)
Lemma LogSqrtSpec_inhabited : LogSqrtSpec (fun A => mscal (/ 2) (msub A mid)).
Proof.
  split.
  - intros Q A HR _. rewrite conj_scal, conj_sub, conj_id by exact HR. reflexivity.
  - mat_eq.
Qed.
Lemma PowSpec_inhabited : PowSpec (fun A _ => A).
Proof. split; auto. Qed.
Lemma rotation_example : rotation (mk 0 (-1) 0 1 0 0 0 0 1).
Proof. unfold rotation. repeat split; mnum; try (f_equal; ring); ring. Qed.

Definition log_strain_of (lss : M -> M) (C : M) (J : R) : M := madd (mdevm (lss C)) (mscal (ln J / 3) mid).
Lemma log_strain_of_conj lss Q C J : LogSqrtSpec lss -> rotation Q -> msym C ->
  log_strain_of lss (conj Q C) J = conj Q (log_strain_of lss C J).
Proof.
  intros HS HR HC. unfold log_strain_of.
  rewrite (lss_equivariant _ HS) by assumption.
  rewrite conj_add, conj_scal, conj_id, mdevm_conj by exact HR. reflexivity.
Qed.
Lemma log_strain_of_rest lss : LogSqrtSpec lss -> log_strain_of lss mid 1 = mzero.
Proof. intros HS. unfold log_strain_of. rewrite (lss_identity _ HS), ln_1. unfold mdevm. mnum. f_equal; field. Qed.

Lemma strain_log_bridge' lss H : strain_log lss H = log_strain_of lss (CC H) (JJ H).
Proof. apply strain_log_bridge. Qed.
Lemma pf_strain_log_bridge lss H : pf_strain_log lss H = log_strain_of lss (CC H) (JJ H).
Proof.
  dm H. unfold log_strain_of, CC, JJ, mdevm. mnum.
  sync_arg lss ltac:(f_equal; field).
  match goal with |- context [lss ?X] => destruct (lss X) end. mnum.
  sync_arg ln ltac:(field).
  f_equal; field.
Qed.
Lemma pf_strain_linear_bridge H : pf_strain_linear H = mscal (/ 2) (madd H (mtr H)).
Proof. dm H. mnum. f_equal; field. Qed.

(* J2: elastic trial strain with plastic distortion Fp; G stands for the generated TensorMath.inv(Fp) *)
Definition tinv (A : M) : M := of9 (ap9 (@t_inv R NumR) A).
Definition CCe (H G : M) : M := mmul (mtr (mmul (defgrad H) G)) (mmul (defgrad H) G).
Lemma j2_strain_log_bridge lss eqps Fp H : mdet Fp <> 0 ->
  j2_strain_log lss eqps Fp H = log_strain_of lss (CCe H (tinv Fp)) (JJ H).
Proof.
  dm H. dm Fp. unfold log_strain_of, CCe, JJ, mdevm, tinv. mnum. cbv beta iota zeta delta [t_inv]. mnum. intros Hd.
  sync_arg lss ltac:(f_equal; field; intro Hx; apply Hd; (etransitivity; [|exact Hx]); ring).
  match goal with |- context [lss ?X] => destruct (lss X) end. mnum.
  sync_arg ln ltac:(field).
  f_equal; field.
Qed.
Lemma tinv_id : tinv mid = mid.
Proof. unfold tinv, t_inv. mnum. f_equal; field. Qed.
Lemma CCe_id H : CCe H mid = CC H.
Proof. unfold CCe, CC. rewrite mmul_id_r. reflexivity. Qed.
Lemma CCe_rotL Q H G : rotation Q -> CCe (rotL Q H) G = CCe H G.
Proof.
  intros HR. unfold CCe. rewrite defgrad_rotL, mmul_assoc.
  apply (rot_invL Q (mmul (defgrad H) G) HR).
Qed.
Lemma j2_strain_linear_bridge eqps Ep H : j2_strain_linear eqps Ep H = msub (mscal (/ 2) (madd H (mtr H))) Ep.
Proof. dm H. dm Ep. mnum. f_equal; field. Qed.
Lemma j2_strain_seth_hill_bridge pw eqps Ep H :
  j2_strain_seth_hill pw eqps Ep H = msub (mscal 2 (msub (pw (CC H) (/ 4)) mid)) Ep.
Proof.
  dm H. dm Ep. unfold CC. mnum.
  match goal with |- _ = ?r => match r with context [pw ?X ?m] =>
    repeat match goal with |- context [pw ?x ?n] => tryif constr_eq x X then fail else (replace x with X by (f_equal; field)) end;
    repeat match goal with |- context [pw X ?n] => tryif constr_eq n m then fail else (replace n with m by field) end;
    destruct (pw X m) end end.
  mnum. f_equal; field.
Qed.

(* ---------- LinearElastic: the three strain-measure options ---------- *)
Lemma W_le_zero p : W_le p mzero = 0.
Proof. rewrite W_le_bridge. destruct p as [[[a b] c] d]. unfold phi_q. mnum. field. Qed.
Lemma W_j2_zero p : W_j2 p mzero = 0.
Proof. rewrite W_j2_bridge. destruct p as [[[[a b] c] d] e]. unfold phi_q. mnum. field. Qed.
Lemma msym_conj_free : forall H, msym (CC H). Proof. exact CC_sym. Qed.

Theorem le_gl_objective p Q H : rotation Q -> E_le_gl p (rotL Q H) = E_le_gl p H.
Proof. intros HR. unfold E_le_gl. rewrite !strain_gl_bridge, CC_rotL by exact HR. reflexivity. Qed.
Theorem le_gl_isotropic p Q H : rotation Q -> E_le_gl p (rotR Q H) = E_le_gl p H.
Proof.
  intros HR. unfold E_le_gl. rewrite !strain_gl_bridge, CC_rotR by exact HR.
  rewrite <- (conj_id Q HR) at 1. rewrite <- conj_sub, <- conj_scal. apply W_le_conj. exact HR.
Qed.
Theorem le_log_objective lss p Q H : rotation Q -> E_le_log lss p (rotL Q H) = E_le_log lss p H.
Proof. intros HR. unfold E_le_log. rewrite !strain_log_bridge', CC_rotL, JJ_rotL by exact HR. reflexivity. Qed.
Theorem le_log_isotropic lss p Q H : LogSqrtSpec lss -> rotation Q -> E_le_log lss p (rotR Q H) = E_le_log lss p H.
Proof.
  intros HS HR. unfold E_le_log. rewrite !strain_log_bridge', CC_rotR, JJ_rotR by exact HR.
  rewrite log_strain_of_conj by (first [assumption | apply CC_sym]). apply W_le_conj. exact HR.
Qed.
Theorem le_linear_rest p : E_le_linear p mzero = 0.
Proof. unfold E_le_linear. rewrite strain_linear_bridge. replace (mscal (/ 2) (madd mzero (mtr mzero))) with (@mzero R NumR) by mat_eq. apply W_le_zero. Qed.
Theorem le_gl_rest p : E_le_gl p mzero = 0.
Proof. unfold E_le_gl. rewrite strain_gl_bridge, CC_zero. replace (mscal (/ 2) (msub mid mid)) with (@mzero R NumR) by mat_eq. apply W_le_zero. Qed.
Theorem le_log_rest lss p : LogSqrtSpec lss -> E_le_log lss p mzero = 0.
Proof. intros HS. unfold E_le_log. rewrite strain_log_bridge', CC_zero, JJ_zero, log_strain_of_rest by exact HS. apply W_le_zero. Qed.

Lemma phi_q_path_derive kappa mu (a b : R -> R) a' :
  is_derive a 0 a' -> is_derive b 0 0 -> a 0 = 0 -> is_derive (fun t => phi_q kappa mu (a t) (b t)) 0 0.
Proof.
  intros Ha Hb Ha0. unfold phi_q. auto_derive.
  - repeat split; eexists; eassumption.
  - assert (Da : Derive (fun x => a x) 0 = a') by (apply is_derive_unique; exact Ha).
    assert (Db : Derive (fun x => b x) 0 = 0) by (apply is_derive_unique; exact Hb).
    rewrite Da, Db, Ha0. field.
Qed.
Theorem le_linear_rest_stress p D : is_derive (fun t => E_le_linear p (mscal t D)) 0 0.
Proof.
  destruct p as [[[a b] c] d]. unfold E_le_linear.
  apply (is_derive_ext (fun t => phi_q d c (mtrace (strain_linear (mscal t D))) (mddot (strain_linear (mscal t D)) (strain_linear (mscal t D))))).
  - intros t. rewrite W_le_bridge. reflexivity.
  - dm D. apply (phi_q_path_derive _ _ _ _ (m00 + m11 + m22)); mnum; try (auto_derive; [trivial | field]); field.
Qed.
Theorem le_gl_rest_stress p D : is_derive (fun t => E_le_gl p (mscal t D)) 0 0.
Proof.
  destruct p as [[[a b] c] d]. unfold E_le_gl.
  apply (is_derive_ext (fun t => phi_q d c (mtrace (strain_gl (mscal t D))) (mddot (strain_gl (mscal t D)) (strain_gl (mscal t D))))).
  - intros t. rewrite W_le_bridge. reflexivity.
  - dm D. apply (phi_q_path_derive _ _ _ _ (m00 + m11 + m22)); mnum; try (auto_derive; [trivial | field]); field.
Qed.

(* ---------- J2 plasticity, elastic regime ---------- *)
Theorem j2_log_objective lss p eqps Fp Q H : rotation Q -> mdet Fp <> 0 ->
  E_j2_log lss p eqps Fp (rotL Q H) = E_j2_log lss p eqps Fp H.
Proof. intros HR Hd. unfold E_j2_log. rewrite !j2_strain_log_bridge, CCe_rotL, JJ_rotL by assumption. reflexivity. Qed.
Lemma mdet_mid : mdet (@mid R NumR) = 1. Proof. mnum. ring. Qed.
Theorem j2_log_isotropic_virgin lss p eqps Q H : LogSqrtSpec lss -> rotation Q ->
  E_j2_log lss p eqps mid (rotR Q H) = E_j2_log lss p eqps mid H.
Proof.
  intros HS HR. unfold E_j2_log. rewrite !j2_strain_log_bridge by (rewrite mdet_mid; lra).
  rewrite tinv_id, !CCe_id, CC_rotR, JJ_rotR by exact HR.
  rewrite log_strain_of_conj by (first [assumption | apply CC_sym]). apply W_j2_conj. exact HR.
Qed.
Theorem j2_log_rest lss p eqps : LogSqrtSpec lss -> E_j2_log lss p eqps mid mzero = 0.
Proof.
  intros HS. unfold E_j2_log. rewrite j2_strain_log_bridge by (rewrite mdet_mid; lra).
  rewrite tinv_id, CCe_id, CC_zero, JJ_zero, log_strain_of_rest by exact HS. apply W_j2_zero.
Qed.
Theorem j2_linear_rest p eqps : E_j2_linear p eqps mzero mzero = 0.
Proof.
  unfold E_j2_linear. rewrite j2_strain_linear_bridge.
  replace (msub (mscal (/ 2) (madd mzero (mtr mzero))) mzero) with (@mzero R NumR) by mat_eq. apply W_j2_zero.
Qed.
Theorem j2_linear_rest_stress p eqps D : is_derive (fun t => E_j2_linear p eqps mzero (mscal t D)) 0 0.
Proof.
  destruct p as [[[[a b] c] d] e]. unfold E_j2_linear.
  apply (is_derive_ext (fun t => phi_q d c (mtrace (j2_strain_linear eqps mzero (mscal t D)))
                                       (mddot (j2_strain_linear eqps mzero (mscal t D)) (j2_strain_linear eqps mzero (mscal t D))))).
  - intros t. rewrite W_j2_bridge. reflexivity.
  - dm D. apply (phi_q_path_derive _ _ _ _ (m00 + m11 + m22)); mnum; try (auto_derive; [trivial | field]); field.
Qed.
(* 'seth hill' kinematics (after the repair of defect F4 in /repo 60fe5f7: C = F^T F): strain (C^(1/4) - I)/(1/2) - Ep *)
Theorem j2_seth_hill_rest pw p eqps : PowSpec pw -> E_j2_seth_hill pw p eqps mzero mzero = 0.
Proof.
  intros HP. unfold E_j2_seth_hill. rewrite j2_strain_seth_hill_bridge, CC_zero, (pw_identity _ HP).
  replace (msub (mscal 2 (msub mid mid)) mzero) with (@mzero R NumR) by mat_eq. apply W_j2_zero.
Qed.
Theorem j2_seth_hill_objective pw p eqps Ep Q H : rotation Q ->
  E_j2_seth_hill pw p eqps Ep (rotL Q H) = E_j2_seth_hill pw p eqps Ep H.
Proof. intros HR. unfold E_j2_seth_hill. rewrite !j2_strain_seth_hill_bridge, CC_rotL by exact HR. reflexivity. Qed.
Lemma msub_mzero_r (A : M) : msub A mzero = A. Proof. dm A. mat_eq. Qed.
Theorem j2_seth_hill_isotropic_virgin pw p eqps Q H : PowSpec pw -> rotation Q ->
  E_j2_seth_hill pw p eqps mzero (rotR Q H) = E_j2_seth_hill pw p eqps mzero H.
Proof.
  intros HP HR. unfold E_j2_seth_hill. rewrite !j2_strain_seth_hill_bridge, CC_rotR, !msub_mzero_r by exact HR.
  rewrite (pw_equivariant _ HP) by (first [assumption | apply CC_sym]).
  rewrite <- (conj_id Q HR) at 1. rewrite <- conj_sub, <- conj_scal. apply W_j2_conj. exact HR.
Qed.
(* what the energy of the rest state would be if the strain were built from H^T H (the defect F4 that /repo 60fe5f7 repaired):
   kept as a regression witness; it is a statement about the formula, not about the current code *)
Theorem seth_hill_defect_value (pw : M -> R -> M) p : PowSpec pw ->
  W_j2 p (msub (mscal 2 (msub (pw (mmul (mtr mzero) mzero) (/ 4)) mid)) mzero) = let '(_, _, _, kappa, _) := p in 18 * kappa.
Proof.
  intros HP. replace (mmul (mtr mzero) mzero) with (@mzero R NumR) by mat_eq.
  rewrite (pw_zero _ HP) by lra. rewrite W_j2_bridge. destruct p as [[[[a b] c] d] e]. unfold phi_q. mnum. field.
Qed.

(* ---------- phase-field threshold model ---------- *)
Lemma rot_vec_norm Q g0 g1 g2 : rotation Q ->
  (m00 Q * g0 + m10 Q * g1 + m20 Q * g2) * (m00 Q * g0 + m10 Q * g1 + m20 Q * g2)
  + (m01 Q * g0 + m11 Q * g1 + m21 Q * g2) * (m01 Q * g0 + m11 Q * g1 + m21 Q * g2)
  + (m02 Q * g0 + m12 Q * g1 + m22 Q * g2) * (m02 Q * g0 + m12 Q * g1 + m22 Q * g2) = g0 * g0 + g1 * g1 + g2 * g2.
Proof.
  intros (_ & H2 & _). dm Q. revert H2. mnum. intros H2. injection H2 as E1 E2 E3 E4 E5 E6 E7 E8 E9.
  nsatz.
Qed.
Theorem pf_log_objective lss p phase g0 g1 g2 Q H : rotation Q ->
  E_pf_log lss p phase g0 g1 g2 (rotL Q H) = E_pf_log lss p phase g0 g1 g2 H.
Proof. intros HR. unfold E_pf_log. rewrite !pf_strain_log_bridge, CC_rotL, JJ_rotL by exact HR. reflexivity. Qed.
(* rotation of the reference configuration: the reference gradient of the phase field rotates too (g -> Q^T g) *)
Theorem pf_log_isotropic lss p phase g0 g1 g2 Q H : LogSqrtSpec lss -> rotation Q ->
  E_pf_log lss p phase (m00 Q * g0 + m10 Q * g1 + m20 Q * g2) (m01 Q * g0 + m11 Q * g1 + m21 Q * g2)
           (m02 Q * g0 + m12 Q * g1 + m22 Q * g2) (rotR Q H) = E_pf_log lss p phase g0 g1 g2 H.
Proof.
  intros HS HR. unfold E_pf_log. rewrite !pf_strain_log_bridge, CC_rotR, JJ_rotR by exact HR.
  rewrite log_strain_of_conj by (first [assumption | apply CC_sym]).
  rewrite !W_pf_bridge, trace_conj, ddot_conj by exact HR.
  destruct p as [[[[[a b] c] d] e] f]. unfold phi_pf. rewrite (rot_vec_norm Q g0 g1 g2 HR). reflexivity.
Qed.
Theorem pf_log_rest lss p : LogSqrtSpec lss -> E_pf_log lss p 0 0 0 0 mzero = 0.
Proof.
  intros HS. unfold E_pf_log. rewrite pf_strain_log_bridge, CC_zero, JJ_zero, log_strain_of_rest by exact HS.
  rewrite W_pf_bridge. destruct p as [[[[[a b] c] d] e] f]. unfold phi_pf. mnum.
  destruct (Rlt_dec 0 (0 + 0 + 0)); unfold Rdiv; ring.
Qed.
Theorem pf_linear_rest p : E_pf_linear p 0 0 0 0 mzero = 0.
Proof.
  unfold E_pf_linear. rewrite pf_strain_linear_bridge.
  replace (mscal (/ 2) (madd mzero (mtr mzero))) with (@mzero R NumR) by mat_eq.
  rewrite W_pf_bridge. destruct p as [[[[[a b] c] d] e] f]. unfold phi_pf. mnum.
  destruct (Rlt_dec 0 (0 + 0 + 0)); unfold Rdiv; ring.
Qed.

(* ---------- Kirchhoff stress: for an energy w(C) with symmetric S = dw/dC, tau = 2 F S F^T is symmetric ---------- *)
Theorem kirchhoff_symmetric_form (F S : M) : msym S -> msym (mscal 2 (mmul F (mmul S (mtr F)))).
Proof. unfold msym. intros HS. dm F. dm S. revert HS. mnum. intros HS. injection HS as E1 E2 E3 E4 E5 E6. subst. f_equal; ring. Qed.

(* ---------- HyperViscoelastic: the complete generated _energy_density (equilibrium + non-equilibrium + dissipation) ---------- *)
(* the translator's model of np.linalg.inv on 3x3: cofactors / determinant *)
Definition linv (A : M) : M :=
  let d := mdet A in
  mk ((m11 A * m22 A - m12 A * m21 A) / d) ((m02 A * m21 A - m01 A * m22 A) / d) ((m01 A * m12 A - m02 A * m11 A) / d)
     ((m12 A * m20 A - m10 A * m22 A) / d) ((m00 A * m22 A - m02 A * m20 A) / d) ((m02 A * m10 A - m00 A * m12 A) / d)
     ((m10 A * m21 A - m11 A * m20 A) / d) ((m01 A * m20 A - m00 A * m21 A) / d) ((m00 A * m11 A - m01 A * m10 A) / d).
Lemma linv_id : linv mid = mid.
Proof. unfold linv. mnum. f_equal; field. Qed.
Definition hv_c (tau dt : R) : R := dt * (1 / (1 + dt / tau)) / tau.
Definition hv_tail (Gn tau dt a b : R) : R :=
  (Gn * ((1 - hv_c tau dt) * (1 - hv_c tau dt)) + dt * (Gn * tau * (hv_c tau dt / dt * (hv_c tau dt / dt)))) * (b - a * a / 3).
Lemma hv_bridge lss p Fv dt H : JJ H <> 0 -> mdet Fv <> 0 -> 0 < dt -> (let '(_, _, _, tau) := p in 0 < tau) ->
  E_hv lss p Fv dt H =
  let '(K, G, Gn, tau) := p in let Ee := lss (CCe H (linv Fv)) in
  psi_adagio K G (I1 H) (JJ H) + hv_tail Gn tau dt (mtrace Ee) (mddot Ee Ee).
Proof.
  destruct p as [[[K G] Gn] tau]. dm H. dm Fv.
  unfold psi_adagio, psi_vol, I1bar, I1, JJ, hv_tail, hv_c, CCe, linv. mnum. intros HJ Hd Hdt Htau.
  kill_eq0 HJ.
  sync_arg lss ltac:(f_equal; field; intro Hx; apply Hd; (etransitivity; [|exact Hx]); ring).
  match goal with |- context [lss ?X] => destruct (lss X) end. mnum.
  match goal with |- _ = ?r => match r with context [ln ?j] => norm_fun ln j end end.
  match goal with |- _ = ?r => match r with context [exp ?j] => norm_fun exp j end end.
  field. repeat split; lra.
Qed.
Lemma mtrace_mzero : mtrace (@mzero R NumR) = 0. Proof. mnum. ring. Qed.
Lemma mddot_mzero : mddot (@mzero R NumR) mzero = 0. Proof. mnum. ring. Qed.
Lemma hv_tail_zero Gn tau dt : hv_tail Gn tau dt 0 0 = 0.
Proof. unfold hv_tail. replace (0 - 0 * 0 / 3) with 0 by field. ring. Qed.
Theorem hv_objective lss p Fv dt Q H : rotation Q -> 0 < JJ H -> mdet Fv <> 0 -> 0 < dt -> (let '(_, _, _, tau) := p in 0 < tau) ->
  E_hv lss p Fv dt (rotL Q H) = E_hv lss p Fv dt H.
Proof.
  intros HR HJ Hd Hdt Htau. rewrite !hv_bridge by (try assumption; inv_rw HR; lra).
  destruct p as [[[K G] Gn] tau]. inv_rw HR. rewrite CCe_rotL by exact HR. reflexivity.
Qed.
Theorem hv_isotropic_virgin lss p dt Q H : LogSqrtSpec lss -> rotation Q -> 0 < JJ H -> 0 < dt -> (let '(_, _, _, tau) := p in 0 < tau) ->
  E_hv lss p mid dt (rotR Q H) = E_hv lss p mid dt H.
Proof.
  intros HS HR HJ Hdt Htau. rewrite !hv_bridge by (try assumption; try (rewrite mdet_mid; lra); inv_rw HR; lra).
  destruct p as [[[K G] Gn] tau]. inv_rw HR. rewrite linv_id, !CCe_id, CC_rotR by exact HR.
  cbv zeta. rewrite (lss_equivariant _ HS) by (first [assumption | apply CC_sym]).
  rewrite trace_conj, ddot_conj by exact HR. reflexivity.
Qed.
Theorem hv_rest lss p dt : LogSqrtSpec lss -> 0 < dt -> (let '(_, _, _, tau) := p in 0 < tau) -> E_hv lss p mid dt mzero = 0.
Proof.
  intros HS Hdt Htau. rewrite hv_bridge by (try assumption; try (rewrite mdet_mid; lra); rewrite JJ_zero; lra).
  destruct p as [[[K G] Gn] tau]. rewrite linv_id, CCe_id, CC_zero, I1_zero, JJ_zero, psi_adagio_rest.
  cbv zeta. rewrite (lss_identity _ HS), mtrace_mzero, mddot_mzero, hv_tail_zero. ring.
Qed.
Example nonvacuous_witness :
  rotation (mk 0 (-1) 0 1 0 0 0 0 1) /\ 0 < JJ (mk (/ 2) (/ 4) 0 0 (/ 3) 0 0 0 0) /\ LogSqrtSpec (fun A => mscal (/ 2) (msub A mid))
  /\ PowSpec (fun A _ => A) /\ mdet (@mid R NumR) <> 0.
Proof.
  split; [apply rotation_example|]. split; [unfold JJ; mnum; lra|]. split; [apply LogSqrtSpec_inhabited|].
  split; [apply PowSpec_inhabited|]. rewrite mdet_mid. lra.
Qed.
