(* C18, binary64: SYMMETRY of the generated min_base kernel at the level of values.  Bitwise symmetry is false (min_base (+0) (-0) e
   = -0 but min_base (-0) (+0) e = +0; NaN arguments: proofs/L_C18f.v min_base_binary64_nan), so the statement is: for finite
   x, y, eps the two results are finite together, and when finite they have the same real value -- including all overflow cases. *)
From Flocq Require Import Core BinarySingleNaN Relative.
Require Flocq.IEEE754.PrimFloat.
From Coq Require Import ZArith QArith Reals Lra Lia Floats.
From OV.base Require Import Num.
From OV.gen Require Import Gen_SmoothFunctions.
From OV.proofs Require Import L_C18r L_C18f.
Local Open Scope R_scope.

(* "no overflow when the exact result r is rounded" *)
Definition okr (r : R) : bool := Rlt_bool (Rabs (rnd64 r)) (bpow radix2 emax).

Lemma not_fin_of_overflow (a : binary_float prec emax) s : B2SF a = binary_overflow prec emax mode_NE s -> BinarySingleNaN.is_finite a = false.
Proof. intros E. rewrite <- is_finite_SF_B2SF, E. reflexivity. Qed.

Lemma add_spec64 a b : fin a = true -> fin b = true ->
  fin (a + b)%float = okr (FR a + FR b) /\ (okr (FR a + FR b) = true -> FR (a + b)%float = rnd64 (FR a + FR b)).
Proof.
  unfold fin, FR, okr, rnd64. rewrite FP.add_equiv. intros Ha Hb.
  pose proof (Bplus_correct prec emax FP.Hprec FP.Hmax mode_NE _ _ Ha Hb) as C.
  destruct (Rlt_bool _ _).
  - destruct C as (C1 & C2 & _). split; [exact C2|intros _; exact C1].
  - split; [exact (not_fin_of_overflow _ _ (proj1 C))|discriminate].
Qed.
Lemma sub_spec64 a b : fin a = true -> fin b = true ->
  fin (a - b)%float = okr (FR a - FR b) /\ (okr (FR a - FR b) = true -> FR (a - b)%float = rnd64 (FR a - FR b)).
Proof.
  unfold fin, FR, okr, rnd64. rewrite FP.sub_equiv. intros Ha Hb.
  pose proof (Bminus_correct prec emax FP.Hprec FP.Hmax mode_NE _ _ Ha Hb) as C.
  destruct (Rlt_bool _ _).
  - destruct C as (C1 & C2 & _). split; [exact C2|intros _; exact C1].
  - split; [exact (not_fin_of_overflow _ _ (proj1 C))|discriminate].
Qed.
Lemma mul_spec64 a b : fin a = true -> fin b = true ->
  fin (a * b)%float = okr (FR a * FR b) /\ (okr (FR a * FR b) = true -> FR (a * b)%float = rnd64 (FR a * FR b)).
Proof.
  unfold fin, FR, okr, rnd64. rewrite FP.mul_equiv. intros Ha Hb.
  pose proof (Bmult_correct prec emax FP.Hprec FP.Hmax mode_NE (FP.Prim2B a) (FP.Prim2B b)) as C.
  destruct (Rlt_bool _ _).
  - destruct C as (C1 & C2 & _). rewrite Ha, Hb in C2. split; [exact C2|intros _; exact C1].
  - split; [exact (not_fin_of_overflow _ _ C)|discriminate].
Qed.
Lemma div_spec64 a s : FR s <> 0 -> fin a = true ->
  fin (a / s)%float = okr (FR a / FR s) /\ (okr (FR a / FR s) = true -> FR (a / s)%float = rnd64 (FR a / FR s)).
Proof.
  unfold fin, FR, okr, rnd64. rewrite FP.div_equiv. intros Hs Ha.
  pose proof (Bdiv_correct prec emax FP.Hprec FP.Hmax mode_NE (FP.Prim2B a) (FP.Prim2B s) Hs) as C.
  destruct (Rlt_bool _ _).
  - destruct C as (C1 & C2 & _). rewrite Ha in C2. split; [exact C2|intros _; exact C1].
  - split; [exact (not_fin_of_overflow _ _ C)|discriminate].
Qed.

(* a non-finite operand gives a non-finite result (contrapositives of the *_fin lemmas) *)
Lemma add_nonfin a b : fin a = false \/ fin b = false -> fin (a + b)%float = false.
Proof. intros H. destruct (fin (a + b)%float) eqn:E; [|reflexivity]. apply add_fin in E. destruct E as (E1 & E2 & _). destruct H; congruence. Qed.
Lemma sub_nonfin a b : fin a = false \/ fin b = false -> fin (a - b)%float = false.
Proof. intros H. destruct (fin (a - b)%float) eqn:E; [|reflexivity]. apply sub_fin in E. destruct E as (E1 & E2 & _). destruct H; congruence. Qed.
Lemma mul_nonfin a b : fin a = false \/ fin b = false -> fin (a * b)%float = false.
Proof. intros H. destruct (fin (a * b)%float) eqn:E; [|reflexivity]. apply mul_fin in E. destruct E as (E1 & E2 & _). destruct H; congruence. Qed.
Lemma div_nonfin a s : FR s <> 0 -> fin a = false -> fin (a / s)%float = false.
Proof. intros Hs H. destruct (fin (a / s)%float) eqn:E; [|reflexivity]. apply (div_fin _ _ Hs) in E. destruct E as (E1 & _). congruence. Qed.

(* same finiteness, and same value when finite *)
Definition same64 (a a' : float) : Prop := fin a = fin a' /\ (fin a = true -> FR a = FR a').

Lemma same64_refl a : same64 a a.
Proof. split; auto. Qed.

Ltac nonfin_case L := split; [rewrite !L by (first [left; congruence|right; congruence]); reflexivity
                              |intros Hf; rewrite L in Hf by (first [left; congruence|right; congruence]); discriminate Hf].

Lemma sub_cong a a' b b' : same64 a a' -> same64 b b' -> same64 (a - b)%float (a' - b')%float.
Proof.
  intros [Fa Va] [Fb Vb]. destruct (fin a) eqn:Ea; destruct (fin b) eqn:Eb; try (nonfin_case sub_nonfin).
  symmetry in Fa, Fb. destruct (sub_spec64 a b Ea Eb) as [S1 S2]. destruct (sub_spec64 a' b' Fa Fb) as [S1' S2'].
  rewrite <- (Va eq_refl), <- (Vb eq_refl) in S1', S2'. split; [congruence|]. intros H. rewrite S1 in H. rewrite (S2 H), (S2' H). reflexivity.
Qed.
Lemma mul_cong a a' b b' : same64 a a' -> same64 b b' -> same64 (a * b)%float (a' * b')%float.
Proof.
  intros [Fa Va] [Fb Vb]. destruct (fin a) eqn:Ea; destruct (fin b) eqn:Eb; try (nonfin_case mul_nonfin).
  symmetry in Fa, Fb. destruct (mul_spec64 a b Ea Eb) as [S1 S2]. destruct (mul_spec64 a' b' Fa Fb) as [S1' S2'].
  rewrite <- (Va eq_refl), <- (Vb eq_refl) in S1', S2'. split; [congruence|]. intros H. rewrite S1 in H. rewrite (S2 H), (S2' H). reflexivity.
Qed.
Lemma div_cong a a' s : FR s <> 0 -> same64 a a' -> same64 (a / s)%float (a' / s)%float.
Proof.
  intros Hs [Fa Va]. destruct (fin a) eqn:Ea.
  - symmetry in Fa. destruct (div_spec64 a s Hs Ea) as [S1 S2]. destruct (div_spec64 a' s Hs Fa) as [S1' S2'].
    rewrite <- (Va eq_refl) in S1', S2'. split; [congruence|]. intros H. rewrite S1 in H. rewrite (S2 H), (S2' H). reflexivity.
  - split; [rewrite !div_nonfin by (assumption || congruence); reflexivity|intros Hf; rewrite div_nonfin in Hf by assumption; discriminate Hf].
Qed.

Lemma rnd64_opp r : rnd64 (- r) = - rnd64 r.
Proof. unfold rnd64. apply round_NE_opp. Qed.
Lemma okr_opp r : okr (- r) = okr r.
Proof. unfold okr. rewrite rnd64_opp, Rabs_Ropp. reflexivity. Qed.

(* the three places where the arguments are swapped *)
Lemma add_swap x y : fin x = true -> fin y = true -> same64 (x + y)%float (y + x)%float.
Proof.
  intros Hx Hy. destruct (add_spec64 x y Hx Hy) as [S1 S2]. destruct (add_spec64 y x Hy Hx) as [S1' S2'].
  rewrite (Rplus_comm (FR y)) in S1', S2'. split; [congruence|]. intros H. rewrite S1 in H. rewrite (S2 H), (S2' H). reflexivity.
Qed.
Lemma sub_swap x y : fin x = true -> fin y = true ->
  fin (x - y)%float = fin (y - x)%float /\ (fin (x - y)%float = true -> FR (y - x)%float = - FR (x - y)%float).
Proof.
  intros Hx Hy. destruct (sub_spec64 x y Hx Hy) as [S1 S2]. destruct (sub_spec64 y x Hy Hx) as [S1' S2'].
  replace (FR y - FR x) with (- (FR x - FR y)) in S1', S2' by ring. rewrite okr_opp in S1', S2'. rewrite rnd64_opp in S2'.
  split; [congruence|]. intros H. rewrite S1 in H. rewrite (S2 H), (S2' H). reflexivity.
Qed.
Lemma sq_swap d d' : fin d = fin d' -> (fin d = true -> FR d' = - FR d) -> same64 (d * d)%float (d' * d')%float.
Proof.
  intros Fd Vd. destruct (fin d) eqn:Ed.
  - symmetry in Fd. destruct (mul_spec64 d d Ed Ed) as [S1 S2]. destruct (mul_spec64 d' d' Fd Fd) as [S1' S2'].
    rewrite (Vd eq_refl) in S1', S2'. replace (- FR d * - FR d) with (FR d * FR d) in S1', S2' by ring.
    split; [congruence|]. intros H. rewrite S1 in H. rewrite (S2 H), (S2' H). reflexivity.
  - split; [rewrite !mul_nonfin by (left; congruence); reflexivity|intros Hf; rewrite mul_nonfin in Hf by (left; congruence); discriminate Hf].
Qed.

Lemma in_band64_swap x y eps : fin x = true -> fin y = true -> fin eps = true -> in_band64 x y eps = in_band64 y x eps.
Proof.
  intros Hx Hy He. unfold in_band64. destruct (sub_swap x y Hx Hy) as [F V].
  destruct (fin (x - y)%float) eqn:Ed.
  - symmetry in F. rewrite !ltb_fin by (rewrite ?fin_abs; assumption). rewrite !FR_abs, (V eq_refl), Rabs_Ropp. reflexivity.
  - destruct (abs (x - y) <? eps)%float eqn:E1; [apply abs_ltb_fin in E1; congruence|].
    destruct (abs (y - x) <? eps)%float eqn:E2; [apply abs_ltb_fin in E2; congruence|]. reflexivity.
Qed.

Theorem min_base_binary64_sym x y eps : fin x = true -> fin y = true -> fin eps = true ->
  same64 (@min_base float NumF x y eps) (@min_base float NumF y x eps).
Proof.
  intros Hx Hy He. pose proof (in_band64_swap x y eps Hx Hy He) as Hb. unfold in_band64 in Hb.
  destruct (abs (x - y) <? eps)%float eqn:E1; symmetry in Hb.
  - unfold min_base. cbn [nltb nsub nadd nmul ndiv nabs NumF npow]. rewrite E1, Hb.
    destruct (FR_width eps He) as [Hsf HsR].
    set (s := if (f_tol <? eps)%float then eps else f_tol) in *.
    assert (Hs0 : FR s <> 0). { rewrite HsR. pose proof (Rmax_r (FR eps) tol64). pose proof tol64_bounds. lra. }
    destruct (sub_swap x y Hx Hy) as [F V].
    apply sub_cong.
    + apply sub_cong; [|apply same64_refl]. apply mul_cong; [apply same64_refl|]. apply add_swap; assumption.
    + apply div_cong; [exact Hs0|]. apply mul_cong; [apply same64_refl|]. apply sq_swap; assumption.
  - rewrite !min_base_binary64_outside_exact by assumption.
    split.
    + destruct (x <? y)%float, (y <? x)%float; congruence.
    + intros _. rewrite !FR_justmin by assumption. apply Rmin_comm.
Qed.
