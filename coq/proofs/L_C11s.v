(* C11: the two hypotheses on the un-modelled matrix functions, PROVED for the spectral functions of model/M_C11s.v
   (V diag(f(lam)) V^T as TensorMath.symmetric_matrix_function builds them) from the contract of the eigen-solver at the
   matrices it is called on: V^T V = V V^T = I and V diag(lam) V^T = A. *)
From Coq Require Import Reals Lra QArith List.
From OV.base Require Import Num.
From OV.gen Require Import Gen_TensorMath Gen_HyperViscoelastic Gen_MultiBranchHyperViscoelastic Gen_ViscoState.
From OV.model Require Import M_C08 M_C11.
From OV.model Require Import M_C11s.
From OV.proofs Require Import L_C08 L_C11a L_C11.
Import ListNotations.
Local Open Scope R_scope.

Notation E3 := (@eig R).
Ltac snum := cbv beta iota zeta delta [
   mdiag spectral lss_spec expm_spec
   madd msub map2 mscal mmul mtr mtrace mddot mdet mid mzero ap9 of9 to9 lift1 lift2
   m00 m01 m02 m10 m11 m12 m20 m21 m22
   nconst nadd nsub nmul ndiv nopp nabs nsqrt nexp nln nltb nleb neqb NumR nZ nzero nunit ntwo nhalf ngtb ngeb nneb nmin nmax nsign nsq npow npowr
   Q2R' Qnum Qden inject_Z].

Definition msym (A : M) : Prop := mtr A = A.
(* what the eigen-solver has to deliver AT the matrix A (it implies that A is symmetric) *)
Definition eigh_ok (eigh : M -> E3) (A : M) : Prop :=
  let '((w0, w1, w2), V) := eigh A in
  mmul (mtr V) V = mid /\ mmul V (mtr V) = mid /\ mmul (mmul V (mdiag w0 w1 w2)) (mtr V) = A.

Lemma mdet_mid : mdet (@mid R NumR) = 1.
Proof. snum. ring. Qed.
Lemma mdet_mdiag a b c : mdet (mdiag a b c) = a * b * c.
Proof. snum. ring. Qed.
Lemma mtrace_mdiag a b c : mtrace (mdiag a b c) = a + b + c.
Proof. snum. ring. Qed.
Lemma conj_det (V D : M) : mmul (mtr V) V = mid -> mdet (mmul (mmul V D) (mtr V)) = mdet D.
Proof.
  intros HV. rewrite !mdet_mmul. replace (mdet V * mdet D * mdet (mtr V)) with (mdet D * (mdet (mtr V) * mdet V)) by ring.
  rewrite <- mdet_mmul, HV, mdet_mid. ring.
Qed.
Lemma conj_trace (V D : M) : mmul (mtr V) V = mid -> mtrace (mmul (mmul V D) (mtr V)) = mtrace D.
Proof. intros HV. rewrite mtrace_cyclic, <- mmul_assoc, HV, mmul_id_l. reflexivity. Qed.
Lemma conj_sym (V : M) a b c : msym (mmul (mmul V (mdiag a b c)) (mtr V)).
Proof. unfold msym. dm V. snum. f_equal; ring. Qed.

Lemma spectral_sym eigh f A : msym (spectral eigh f A).
Proof. unfold spectral. destruct (eigh A) as [[[w0 w1] w2] V]. apply conj_sym. Qed.
Lemma eigh_ok_sym eigh A : eigh_ok eigh A -> msym A.
Proof. unfold eigh_ok. destruct (eigh A) as [[[w0 w1] w2] V]. intros (_ & _ & <-). apply conj_sym. Qed.

(* Hexp for the spectral exponential: det(exp A) = exp(tr A) *)
Lemma expm_spec_det eigh A : eigh_ok eigh A -> mdet (expm_spec eigh A) = exp (mtrace A).
Proof.
  unfold eigh_ok, expm_spec, spectral. destruct (eigh A) as [[[w0 w1] w2] V]. intros (HV & _ & HA).
  rewrite (conj_det V _ HV), mdet_mdiag. rewrite <- HA, (conj_trace V _ HV), mtrace_mdiag. unfold_num. rewrite !exp_plus. ring.
Qed.

(* ---- isochoric viscous flow without a hypothesis on the exponential: the contract of the eigen-solver at the increment *)
Lemma state_new_hv_det_spec (lss : M -> M) eighE K G Gn tau (Fv : M) dt (H : M) : 0 < tau -> 0 < dt ->
  eigh_ok eighE (inc_hv (K, G, Gn, tau) dt (Etrial lss H Fv)) ->
  mdet (state_new_hv lss (expm_spec eighE) (K, G, Gn, tau) Fv dt H) = mdet Fv.
Proof.
  intros Ht Hd Hok. rewrite state_new_hv_bridge, mdet_mmul, (expm_spec_det _ _ Hok), inc_trace by assumption. rewrite exp_0. ring.
Qed.
Lemma state_new_b_det_spec n (lss : M -> M) eighE (p : @p8 R) (Fv : M) dt (H : M) : 0 < taub n p -> 0 < dt ->
  eigh_ok eighE (inc_b n p dt (Etrial_mb lss H Fv)) ->
  mdet (state_new_b n lss (expm_spec eighE) p Fv dt H) = mdet Fv.
Proof.
  intros Ht Hd Hok. unfold state_new_b. rewrite mdet_mmul, (expm_spec_det _ _ Hok), inc_b_trace by assumption. rewrite exp_0. ring.
Qed.

(* the increment of a symmetric trial strain is symmetric, and the spectral log_sqrt_symm returns symmetric matrices: under the
   contract for ALL symmetric matrices (the spectral theorem, not proved here) nothing else is needed *)
Lemma inc_hv_sym K G Gn tau dt (E : M) : msym E -> msym (inc_hv (K, G, Gn, tau) dt E).
Proof. unfold msym. dm E. intros HE. injection HE as E1 E2 E3 E4 E5 E6. cnum. f_equal; try reflexivity; congruence. Qed.
Lemma inc_b_sym n p dt (E : M) : msym E -> msym (inc_b n p dt E).
Proof. unfold msym. dp8 p. dm E. intros HE. injection HE as E1 E2 E3 E4 E5 E6. d3 n; cnum; f_equal; try reflexivity; congruence. Qed.
Lemma mscal_sym s (A : M) : msym A -> msym (mscal s A).
Proof. unfold msym. dm A. intros HE. injection HE as E1 E2 E3 E4 E5 E6. snum. f_equal; try reflexivity; congruence. Qed.
Lemma lss_spec_sym eigh A : msym (lss_spec eigh A).
Proof. unfold lss_spec. apply mscal_sym, spectral_sym. Qed.

(* ---- the trial strain is log_sqrt_symm of Ce = Fe^T Fe, Fe = F Fv^-1 (TensorMath.inv: adjugate / determinant) *)
Definition Fe_of (H Fv : M) : M := mmul (defgrad H) (minv Fv).
Definition Ce_of (H Fv : M) : M := mmul (mtr (Fe_of H Fv)) (Fe_of H Fv).
Ltac tnum := cbv beta iota zeta delta [Fe_of Ce_of minv t_inv t_det defgrad
   mdiag spectral lss_spec expm_spec
   madd msub map2 mscal mmul mtr mtrace mddot mdet mid mzero ap9 of9 to9 lift1 lift2
   m00 m01 m02 m10 m11 m12 m20 m21 m22
   nconst nadd nsub nmul ndiv nopp nabs nsqrt nexp nln nltb nleb neqb NumR nZ nzero nunit ntwo nhalf ngtb ngeb nneb nmin nmax nsign nsq npow npowr
   Q2R' Qnum Qden inject_Z].
Lemma mat_eta (A : M) : mk (m00 A) (m01 A) (m02 A) (m10 A) (m11 A) (m12 A) (m20 A) (m21 A) (m22 A) = A.
Proof. dm A. reflexivity. Qed.
Lemma Etrial_form (lss : M -> M) (H Fv : M) : Etrial lss H Fv = lss (Ce_of H Fv).
Proof.
  destruct H as [h0 h1 h2 h3 h4 h5 h6 h7 h8]. destruct Fv as [v0 v1 v2 v3 v4 v5 v6 v7 v8].
  cbv beta iota zeta delta [Etrial _compute_elastic_logarithmic_strain lift1 ap9 of9 to9 m00 m01 m02 m10 m11 m12 m20 m21 m22].
  match goal with |- ?L = _ => match L with context [lss ?X] => set (X1 := X) end end.
  assert (E : X1 = Ce_of (mk h0 h1 h2 h3 h4 h5 h6 h7 h8) (mk v0 v1 v2 v3 v4 v5 v6 v7 v8)).
  { unfold X1. tnum. unfold Rdiv. f_equal; ring. }
  rewrite <- E. destruct (lss X1). reflexivity.
Qed.
Lemma Etrial_mb_form (lss : M -> M) (H Fv : M) : Etrial_mb lss H Fv = lss (Ce_of H Fv).
Proof.
  destruct H as [h0 h1 h2 h3 h4 h5 h6 h7 h8]. destruct Fv as [v0 v1 v2 v3 v4 v5 v6 v7 v8].
  cbv beta iota zeta delta [Etrial_mb mb_compute_elastic_logarithmic_strain lift1 ap9 of9 to9 m00 m01 m02 m10 m11 m12 m20 m21 m22].
  match goal with |- ?L = _ => match L with context [lss ?X] => set (X1 := X) end end.
  assert (E : X1 = Ce_of (mk h0 h1 h2 h3 h4 h5 h6 h7 h8) (mk v0 v1 v2 v3 v4 v5 v6 v7 v8)).
  { unfold X1. tnum. unfold Rdiv. f_equal; ring. }
  rewrite <- E. destruct (lss X1). reflexivity.
Qed.
Lemma Ce_sym (H Fv : M) : msym (Ce_of H Fv).
Proof. unfold msym, Ce_of. rewrite mtr_mmul, mtr_mtr. reflexivity. Qed.
Lemma Etrial_sym (lss : M -> M) H Fv : (forall C, msym (lss C)) -> msym (Etrial lss H Fv).
Proof. intros Hs. rewrite Etrial_form. apply Hs. Qed.

Lemma state_new_hv_det_spec_all (eighL eighE : M -> E3) K G Gn tau : (forall A, msym A -> eigh_ok eighE A) ->
  forall (Fv : M) dt (H : M), 0 < tau -> 0 < dt ->
  mdet (state_new_hv (lss_spec eighL) (expm_spec eighE) (K, G, Gn, tau) Fv dt H) = mdet Fv.
Proof.
  intros Hall Fv dt H Ht Hd. apply state_new_hv_det_spec; try assumption. apply Hall, inc_hv_sym, Etrial_sym. intros C. apply lss_spec_sym.
Qed.

(* ---- non-vacuity: on diagonal matrices the solver (diagonal entries, identity) meets the contract *)
Definition eigh_diag (A : M) : E3 := ((m00 A, m11 A, m22 A), mid).
Lemma eigh_diag_ok a b c : eigh_ok eigh_diag (mdiag a b c).
Proof. unfold eigh_ok, eigh_diag. snum. split; [| split]; f_equal; ring. Qed.
Lemma inc_hv_diag K G Gn tau dt a b c : 0 < tau -> 0 < dt -> exists x y z, inc_hv (K, G, Gn, tau) dt (mdiag a b c) = mdiag x y z.
Proof.
  intros Ht Hd. pose proof (den_ne dt tau Hd Ht).
  exists (m00 (inc_hv (K, G, Gn, tau) dt (mdiag a b c))), (m11 (inc_hv (K, G, Gn, tau) dt (mdiag a b c))), (m22 (inc_hv (K, G, Gn, tau) dt (mdiag a b c))).
  cnum. snum. f_equal; field; split; lra.
Qed.
Lemma spectral_contract_satisfiable : exists (eigh : M -> E3) (H Fv : M),
  (forall K G Gn tau dt, 0 < tau -> 0 < dt -> eigh_ok eigh (inc_hv (K, G, Gn, tau) dt (Etrial (lss_spec eigh) H Fv)))
  /\ inc_hv (0, 0, 1, 1) 1 (Etrial (lss_spec eigh) H Fv) <> mzero.
Proof.
  exists eigh_diag, (mk 1 0 0 0 0 0 0 0 0), mid.
  assert (EC : Ce_of (mk 1 0 0 0 0 0 0 0 0) mid = mdiag 4 1 1) by (tnum; f_equal; field).
  assert (EL : lss_spec eigh_diag (mdiag 4 1 1) = mdiag (/ 2 * ln 4) (/ 2 * ln 1) (/ 2 * ln 1)).
  { unfold lss_spec, spectral, eigh_diag. snum. f_equal; field. }
  rewrite Etrial_form, EC, EL. split.
  - intros K G Gn tau dt Ht Hd. destruct (inc_hv_diag K G Gn tau dt (/ 2 * ln 4) (/ 2 * ln 1) (/ 2 * ln 1) Ht Hd) as (x & y & z & ->). apply eigh_diag_ok.
  - intros E. apply (f_equal m00) in E. revert E. rewrite ln_1. cnum. snum.
    assert (0 < ln 4) by (rewrite <- ln_1; apply ln_increasing; lra). intros E. field_simplify in E. lra.
Qed.
