(* C03 -- soundness of the scaled-number arithmetic of model/M_C03.v with respect to the reals *)
From Coq Require Import ZArith QArith List Bool Lia Reals Lra.
From OV.model Require Import M_C03.
Import ListNotations.
Local Open Scope R_scope.

(* real-valued sums used in all statements *)
Fixpoint rsum (l : list R) : R := match l with [] => 0 | x :: r => x + rsum r end.
Fixpoint rdot (a c : list R) : R :=
  match a, c with x :: a', y :: c' => x * y + rdot a' c' | _, _ => 0 end.

Lemma fpow_pos_spec z p : fpow_pos z p = Z.pow_pos z p.
Proof.
  induction p; cbn [fpow_pos].
  - rewrite IHp. change (Z.pow_pos z p~1) with (z ^ Zpos p~1)%Z. change (Z.pow_pos z p) with (z ^ Zpos p)%Z.
    replace (Zpos p~1) with (1 + (Zpos p + Zpos p))%Z by lia.
    rewrite Z.pow_add_r, Z.pow_add_r, Z.pow_1_r by lia. ring.
  - rewrite IHp. change (Z.pow_pos z p~0) with (z ^ Zpos p~0)%Z. change (Z.pow_pos z p) with (z ^ Zpos p)%Z.
    replace (Zpos p~0) with (Zpos p + Zpos p)%Z by lia. rewrite Z.pow_add_r by lia. ring.
  - change (Z.pow_pos z 1) with (z ^ 1)%Z. rewrite Z.pow_1_r. reflexivity.
Qed.
Lemma fpow_spec z k : (0 <= k)%Z -> fpow z k = (z ^ k)%Z.
Proof. destruct k; intros H; cbn [fpow]; [reflexivity | apply fpow_pos_spec | lia]. Qed.

Section SNR.
  Variable b : Z.
  Hypothesis Hb : (2 <= b)%Z.
  Let B := IZR b.
  Lemma Bpos : 0 < B.
  Proof. unfold B. apply IZR_lt. lia. Qed.
  Lemma Bne : B <> 0.
  Proof. pose proof Bpos. lra. Qed.
  Definition s2r (x : sn) : R := IZR (fst x) * powerRZ B (snd x).
  Definition p2r (p : sn * sn) : R * R := (s2r (fst p), s2r (snd p)).

  Lemma powerRZ_pos k : 0 < powerRZ B k.
  Proof. apply powerRZ_lt, Bpos. Qed.
  Lemma IZR_fpow n : (0 <= n)%Z -> IZR (fpow b n) = powerRZ B n.
  Proof.
    intros Hn. rewrite fpow_spec by exact Hn. unfold B.
    destruct n as [|p|p]; [reflexivity | | lia].
    cbn [powerRZ]. rewrite <- (positive_nat_Z p) at 1. rewrite <- pow_IZR. reflexivity.
  Qed.
  Lemma align_spec x k : (k <= snd x)%Z -> IZR (s_align b x k) * powerRZ B k = s2r x.
  Proof.
    intros H. unfold s_align, s2r. rewrite mult_IZR, IZR_fpow by lia.
    rewrite Rmult_assoc, <- powerRZ_add by apply Bne. f_equal. f_equal. lia.
  Qed.
  Lemma s2r_mul x y : s2r (s_mul x y) = s2r x * s2r y.
  Proof. unfold s2r, s_mul; cbn [fst snd]. rewrite mult_IZR, powerRZ_add by apply Bne. ring. Qed.
  Lemma s2r_add x y : s2r (s_add b x y) = s2r x + s2r y.
  Proof.
    unfold s_add. set (k := Z.min (snd x) (snd y)).
    rewrite <- (align_spec x k), <- (align_spec y k) by lia.
    unfold s2r; cbn [fst snd]. rewrite plus_IZR. ring.
  Qed.
  Lemma s2r_opp x : s2r (s_opp x) = - s2r x.
  Proof. unfold s2r, s_opp; cbn [fst snd]. rewrite opp_IZR. ring. Qed.
  Lemma s2r_sub x y : s2r (s_sub b x y) = s2r x - s2r y.
  Proof. unfold s_sub. rewrite s2r_add, s2r_opp. ring. Qed.
  Lemma s2r_abs x : s2r (s_abs x) = Rabs (s2r x).
  Proof.
    unfold s2r, s_abs; cbn [fst snd]. rewrite abs_IZR, Rabs_mult.
    rewrite (Rabs_pos_eq (powerRZ B (snd x))) by (left; apply powerRZ_pos). reflexivity.
  Qed.
  Lemma s2r_scale z x : s2r (s_scale z x) = IZR z * s2r x.
  Proof. unfold s2r, s_scale; cbn [fst snd]. rewrite mult_IZR. ring. Qed.
  Lemma s2r_Z z : s2r (z, 0%Z) = IZR z.
  Proof. unfold s2r; cbn [fst snd powerRZ]. ring. Qed.
  Lemma s_leb_sound x y : s_leb b x y = true -> s2r x <= s2r y.
  Proof.
    unfold s_leb. set (k := Z.min (snd x) (snd y)). intros H. apply Z.leb_le in H.
    rewrite <- (align_spec x k), <- (align_spec y k) by lia.
    apply Rmult_le_compat_r; [left; apply powerRZ_pos | apply IZR_le, H].
  Qed.
  Lemma s_ltb_sound x y : s_ltb b x y = true -> s2r x < s2r y.
  Proof.
    unfold s_ltb. set (k := Z.min (snd x) (snd y)). intros H. apply Z.ltb_lt in H.
    rewrite <- (align_spec x k), <- (align_spec y k) by lia.
    apply Rmult_lt_compat_r; [apply powerRZ_pos | apply IZR_lt, H].
  Qed.
  Lemma s2r_pow x n : s2r (s_pow x n) = s2r x ^ n.
  Proof.
    induction n; cbn [s_pow pow]; [apply s2r_Z | rewrite s2r_mul, IHn; reflexivity].
  Qed.
  Lemma s2r_pows_from x acc n : forall i z, (i <= n)%nat -> s2r (nth i (s_pows_from x acc n) z) = s2r acc * s2r x ^ i.
  Proof.
    revert acc; induction n as [|n IH]; intros acc i z Hi.
    - replace i with 0%nat by lia. cbn [s_pows_from nth pow]. ring.
    - destruct i as [|i]; cbn [s_pows_from nth pow]; [ring|]. rewrite IH by lia. rewrite s2r_mul. ring.
  Qed.
  Lemma s2r_pows x n i z : (i <= n)%nat -> s2r (nth i (s_pows x n) z) = s2r x ^ i.
  Proof. intros H. unfold s_pows. rewrite s2r_pows_from by exact H. rewrite s2r_Z. ring. Qed.
  Lemma s2r_sum l : s2r (s_sum b l) = rsum (map s2r l).
  Proof. induction l; cbn [s_sum map rsum]; [apply s2r_Z | rewrite s2r_add, IHl; reflexivity]. Qed.
  Lemma s2r_dot a c : s2r (s_dot b a c) = rdot (map s2r a) (map s2r c).
  Proof.
    revert c; induction a as [|x a IH]; intros c; cbn [s_dot map rdot]; [apply s2r_Z|].
    destruct c as [|y c]; cbn [map rdot]; [apply s2r_Z|]. rewrite s2r_add, s2r_mul, IH. reflexivity.
  Qed.

  Lemma s_close_sound x y tn td : (0 < td)%Z -> s_close b x y tn td = true -> Rabs (s2r x - s2r y) <= IZR tn / IZR td.
  Proof.
    intros Htd H. unfold s_close in H. apply s_leb_sound in H.
    rewrite s2r_scale, s2r_abs, s2r_sub, s2r_Z in H.
    assert (0 < IZR td) by (apply IZR_lt; lia).
    apply Rmult_le_reg_l with (IZR td); [assumption|]. field_simplify; [|lra]. lra.
  Qed.
  Lemma s_close_frac_sound x num den tn td : (0 < den)%Z -> (0 < td)%Z ->
    s_close_frac b x num den tn td = true -> Rabs (s2r x - IZR num / IZR den) <= IZR tn / IZR td.
  Proof.
    intros Hd Htd H. unfold s_close_frac in H. apply s_leb_sound in H.
    rewrite s2r_scale, s2r_abs, s2r_sub, s2r_scale, !s2r_Z, mult_IZR in H.
    assert (Hd' : 0 < IZR den) by (apply IZR_lt; lia).
    assert (Ht' : 0 < IZR td) by (apply IZR_lt; lia).
    replace (s2r x - IZR num / IZR den) with ((IZR den * s2r x - IZR num) / IZR den) by (field; lra).
    unfold Rdiv at 1. rewrite Rabs_mult, (Rabs_pos_eq (/ IZR den)) by (left; apply Rinv_0_lt_compat; assumption).
    apply Rmult_le_reg_l with (IZR td); [assumption|].
    apply Rmult_le_reg_r with (IZR den); [assumption|]. field_simplify; [|lra|lra]. lra.
  Qed.

  (* monomials *)
  Definition rmon (p : R * R) (ij : nat * nat) : R := fst p ^ fst ij * snd p ^ snd ij.
  Definition rdmon (x : R) (i : nat) : R := INR i * x ^ pred i.
  Definition rmon_dx (p : R * R) (ij : nat * nat) : R := rdmon (fst p) (fst ij) * snd p ^ snd ij.
  Definition rmon_dy (p : R * R) (ij : nat * nat) : R := fst p ^ fst ij * rdmon (snd p) (snd ij).
  Lemma s2r_mon p ij : s2r (s_mon p ij) = rmon (p2r p) ij.
  Proof. unfold s_mon, rmon, p2r; cbn [fst snd]. rewrite s2r_mul, !s2r_pow. reflexivity. Qed.
  Lemma s2r_dmon x i : s2r (s_dmon x i) = rdmon (s2r x) i.
  Proof. unfold s_dmon, rdmon. rewrite s2r_scale, s2r_pow, <- INR_IZR_INZ. reflexivity. Qed.
  Lemma s2r_mon_dx p ij : s2r (s_mon_dx p ij) = rmon_dx (p2r p) ij.
  Proof. unfold s_mon_dx, rmon_dx, p2r; cbn [fst snd]. rewrite s2r_mul, s2r_dmon, s2r_pow. reflexivity. Qed.
  Lemma s2r_mon_dy p ij : s2r (s_mon_dy p ij) = rmon_dy (p2r p) ij.
  Proof. unfold s_mon_dy, rmon_dy, p2r; cbn [fst snd]. rewrite s2r_mul, s2r_dmon, s2r_pow. reflexivity. Qed.
End SNR.

Lemma in_monos d i j : (i + j <= d)%nat <-> In (i, j) (monos d).
Proof.
  unfold monos. rewrite in_flat_map. split.
  - intros H. exists i. split; [apply in_seq; lia|]. apply in_map_iff. exists j. split; [reflexivity | apply in_seq; lia].
  - intros [i' [Hi Hj]]. apply in_seq in Hi. apply in_map_iff in Hj. destruct Hj as [j' [Heq Hj']].
    inversion Heq; subst. apply in_seq in Hj'. lia.
Qed.

Lemma zfact_pos n : (0 < zfact n)%Z.
Proof. induction n; cbn [zfact]; [lia|]. apply Z.mul_pos_pos; lia. Qed.
Lemma zfact_fact n : IZR (zfact n) = INR (fact n).
Proof.
  induction n; [reflexivity|]. cbn [zfact]. rewrite mult_IZR, IHn, <- INR_IZR_INZ.
  change (fact (S n)) with (S n * fact n)%nat. rewrite mult_INR. reflexivity.
Qed.
