(* C10 (stretch): Daleckii-Krein for monomials on diagonal arguments -- the JVP helper returns the derivative of the matrix power. *)
From Coq Require Import Reals Lra Lia Bool Arith.
From Coquelicot Require Import Coquelicot.
From OV.base Require Import Num.
From OV.model Require Import M_C10.
From OV.proofs Require Import L_C10.
Local Open Scope R_scope.

(* first divided difference of x^n: sum_{k<n} x^k y^(n-1-k) *)
Fixpoint dd (n : nat) (x y : R) : R := match n with O => 0 | S m => dd m x y * y + x ^ m end.

Lemma dd_diff n x y : dd n x y * (x - y) = x ^ n - y ^ n.
Proof. induction n; simpl; [ring|]. replace ((dd n x y * y + x ^ n) * (x - y)) with (dd n x y * (x - y) * y + x ^ n * (x - y)) by ring. rewrite IHn. ring. Qed.

Lemma dd_quotient n x y : x <> y -> dd n x y = (x ^ n - y ^ n) / (x - y).
Proof. intros H. rewrite <- dd_diff. field. lra. Qed.

Lemma dd_confluent n x : dd n x x = INR n * x ^ (n - 1).
Proof.
  induction n; [simpl; ring|]. cbn [dd]. rewrite IHn. destruct n; [simpl; ring|].
  replace (S (S n) - 1)%nat with (S n) by lia. replace (S n - 1)%nat with n by lia.
  rewrite !S_INR. simpl. ring.
Qed.

Lemma dd_sym n x y : dd n x y = dd n y x.
Proof.
  destruct (Req_dec x y) as [->|H]; [reflexivity|].
  rewrite !dd_quotient by (auto; lra). field. split; lra.
Qed.

(* 3x3 real matrices as index functions *)
Definition Rm := nat -> nat -> R.
Definition s3 (f : nat -> R) : R := f 0%nat + f 1%nat + f 2%nat.
Definition mm (A B : Rm) : Rm := fun i j => s3 (fun k => A i k * B k j).
Definition I3 : Rm := fun i j => if Nat.eqb i j then 1 else 0.
Definition Dg (l : nat -> R) : Rm := fun i j => if Nat.eqb i j then l i else 0.
Fixpoint mpow (A : Rm) (n : nat) : Rm := match n with O => I3 | S m => mm (mpow A m) A end.
Definition line (A E : Rm) (t : R) : Rm := fun i j => A i j + t * E i j.
(* sum_k A^k E A^(n-1-k), built by the product rule *)
Fixpoint Dpow (A E : Rm) (n : nat) : Rm :=
  match n with O => fun _ _ => 0 | S m => fun i j => mm (Dpow A E m) A i j + mm (mpow A m) E i j end.

Lemma mpow_ext A B n : (forall i j, A i j = B i j) -> forall i j, mpow A n i j = mpow B n i j.
Proof. intros H. induction n; intros i j; simpl; [reflexivity|]. unfold mm, s3. rewrite !IHn, !H. reflexivity. Qed.

(* d/dt (A + tE)^n at t = 0, entrywise *)
Lemma mpow_derive A E n : forall i j, is_derive (fun t => mpow (line A E t) n i j) 0 (Dpow A E n i j).
Proof.
  induction n; intros i j.
  - simpl. apply (is_derive_const (V := R_NormedModule)).
  - cbn [mpow Dpow]. unfold mm, s3.
    assert (P : forall k, is_derive (fun t => mpow (line A E t) n i k * line A E t k j) 0
                                    (Dpow A E n i k * A k j + mpow A n i k * E k j)).
    { intros k. evar_last.
      - apply (is_derive_mult (fun t => mpow (line A E t) n i k) (fun t => line A E t k j) 0 (Dpow A E n i k) (E k j)).
        + apply IHn.
        + unfold line. auto_derive; [exact I|ring].
        + intros a b. apply Rmult_comm.
      - unfold plus, mult; simpl.
        rewrite (mpow_ext (line A E 0) A n) by (intros; unfold line; ring). unfold line. ring. }
    evar_last.
    + apply (is_derive_plus (V := R_NormedModule)); [apply (is_derive_plus (V := R_NormedModule))|]; apply P.
    + unfold plus; simpl. ring.
Qed.

Lemma mpow_diag l n i j : (i < 3)%nat -> (j < 3)%nat -> mpow (Dg l) n i j = if Nat.eqb i j then l i ^ n else 0.
Proof.
  revert i j. induction n; intros i j Hi Hj; [reflexivity|].
  cbn [mpow]. unfold mm, s3. rewrite !IHn by lia. unfold Dg.
  destruct i as [|[|[|i]]]; try lia; destruct j as [|[|[|j]]]; try lia; cbn [Nat.eqb]; simpl; ring.
Qed.

Lemma Dpow_diag l E n i j : (i < 3)%nat -> (j < 3)%nat -> Dpow (Dg l) E n i j = dd n (l i) (l j) * E i j.
Proof.
  revert i j. induction n; intros i j Hi Hj; [simpl; ring|].
  cbn [Dpow dd]. unfold mm, s3. rewrite !IHn, !mpow_diag by lia. unfold Dg.
  destruct i as [|[|[|i]]]; try lia; destruct j as [|[|[|j]]]; try lia; cbn [Nat.eqb]; simpl; ring.
Qed.

(* the divided-difference matrix the helper builds for f = x^n (df = n x^(n-1), any kernel equal to the quotient off the diagonal) *)
Lemma h_matrix_monomial n rel lam i j : (i < 3)%nat -> (j < 3)%nat ->
  (forall a b, a <> b -> rel a b = (a ^ n - b ^ n) / (a - b)) ->
  @h_matrix R NumR (fun x => INR n * x ^ (n - 1)) rel lam i j = dd n (lam i) (lam j).
Proof.
  intros Hi Hj Hrel.
  assert (G : forall x y, @rd_guard R NumR (fun x => INR n * x ^ (n - 1)) rel x y = dd n x y).
  { intros x y. rewrite (rd_guard_divided_difference (fun x => x ^ n)) by exact Hrel.
    destruct (Req_EM_T x y) as [->|H]; [symmetry; apply dd_confluent|symmetry; apply dd_quotient; exact H]. }
  destruct i as [|[|[|i]]]; try lia; destruct j as [|[|[|j]]]; try lia; unfold h_matrix;
    rewrite ?G; try (symmetry; apply dd_confluent); try reflexivity; apply dd_sym.
Qed.

(* Daleckii-Krein, monomial case: on A = diag(lam) the helper returns d/dt (A + t sym(E))^n |_{t=0}, entry by entry *)
Lemma daleckii_krein_monomial n rel lam (E : Rm) i j : (i < 3)%nat -> (j < 3)%nat ->
  (forall a b, a <> b -> rel a b = (a ^ n - b ^ n) / (a - b)) ->
  is_derive (fun t => mpow (line (Dg lam) (fun a b => (E a b + E b a) / 2) t) n i j) 0
            (@jvp_helper R NumR (fun x => INR n * x ^ (n - 1)) rel lam mid E i j).
Proof.
  intros Hi Hj Hrel. rewrite helper_diagonal, h_matrix_monomial by assumption.
  rewrite <- (Dpow_diag lam (fun a b => (E a b + E b a) / 2) n i j) by assumption.
  apply mpow_derive.
Qed.

Lemma dk_nonvacuous : dd 3 2 5 = (2 ^ 3 - 5 ^ 3) / (2 - 5) /\ dd 3 2 2 = INR 3 * 2 ^ (3 - 1)
  /\ mpow (Dg (fun i => INR i + 1)) 2 1%nat 1%nat = 4.
Proof.
  split; [simpl; field|]. split; [simpl; ring|].
  unfold mpow, mm, s3, I3, Dg; simpl. ring.
Qed.
