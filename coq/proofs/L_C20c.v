(* C20 -- structural tie: the output structure extracted from the AST of optimism/VTKWriter.py (gen/CFG_vtk.v, regenerated on
   every run) against the structure table of the hand model (model/M_C20_CFG.v), by computation *)
From Coq Require Import ZArith List Bool String.
From OV.model Require Import M_C20 M_C20_Num M_C20_CFG.
From OV.gen Require Import CFG_vtk.
From OV.proofs Require Import L_C20 L_C20w.
Import ListNotations.

(* order and presence of the sections (header, POINTS, CELLS + contact-edge rows, CELL_TYPES, POINT_DATA, CELL_DATA), the
   keyword words of every write, the loops over spheres / contact edges / the field dict and the conditions guarding the two
   data sections, as found in the source, are exactly the hand model's *)
Lemma source_structure : cfg_vtk = model_cfg /\ consts_vtk = model_consts.
Proof. split; vm_compute; reflexivity. Qed.

(* the IR interpreted on concrete reachable states of every kind reproduces the keyword tokens of the model's file *)
Lemma trace_examples :
  (forall w0, init m1 = Some w0 -> trace_ok cfg_vtk consts_vtk w0 = true)
  /\ (exists w0 w1 w2, init m3 = Some w0
      /\ add_nodal_field w0 1 [[q 1; q 2; q 3; q 4]; [q 5; q 6; q 7; q 8]; [q 9; q 1; q 2; q 3]; [q 1; q 1; q 1; q 1];
                           [q 2; q 2; q 2; q 2]; [q 3; q 3; q 3; q 3]; [q 4; q 4; q 4; q 4]; [q 5; q 5; q 5; q 5];
                           [q 6; q 6; q 6; q 6]; [q 7; q 7; q 7; q 7]] TENSORS FLOAT = Some w1
      /\ add_cell_field w1 2 [[q 1; q 2]] VECTORS INT = Some w2
      /\ let w := add_contact_edges (add_sphere (add_sphere w2 (q 2) (q 2) (q 1)) (q 4) (q 4) (q 2)) [(0, 3); (4, 1)] in
         trace_ok cfg_vtk consts_vtk w = true
         /\ List.length (kw_trace cfg_vtk consts_vtk (shape_of w)) = 15).
Proof.
  split.
  - intros w0 H. vm_compute in H. injection H as <-. vm_compute. reflexivity.
  - do 3 eexists. do 3 (split; [vm_compute; reflexivity |]). cbv zeta. split; vm_compute; reflexivity.
Qed.

(* every table write found in the source (4 of them) is immediately followed by a whitespace (newline) write in the same block *)
Lemma source_tables_terminated : tables_terminated cfg_vtk = true /\ list_sum (map (fun m => count_tables 100 (snd m)) cfg_vtk) = 4.
Proof. split; vm_compute; reflexivity. Qed.
