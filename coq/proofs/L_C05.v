(* C05 -- bound-constrained trust-region solver (model/M_C05_SPG.v at T := R):
   projection onto the box is the nearest feasible point and idempotent; project_onto_tr lands in the box for EVERY value the
   root finder may return and in the trust region whenever the residual is <= 0; SPG updates with step length in [0,1] are
   convex combinations of feasible points; the non-monotone step length is in [0,1]; the outer loop (arbitrary objective
   oracles, arbitrary step proposals) descends on accepted iterates, flags honestly and returns the last iterate;
   exact projected-gradient stationarity + convexity => bound-constrained minimiser. *)
From Coq Require Import Reals Lra Lia List QArith Psatz Bool.
From OV.base Require Import Num.
From OV.gen Require Import Gen_TrustRegionSPG.
From OV.model Require Import M_C06_Vec M_C06_CG M_C01_TR M_C05_SPG.
From OV.proofs Require Import L_C06_Vec L_C01.
Import ListNotations.
Local Open Scope R_scope.

Notation rbound := (@bound R).
Definition lb_ok (b : rbound) (y : R) : Prop := match fst b with Some l => l <= y | None => True end.
Definition ub_ok (b : rbound) (y : R) : Prop := match snd b with Some u => y <= u | None => True end.
Definition in_bound (b : rbound) (y : R) : Prop := lb_ok b y /\ ub_ok b y.
Definition wf_bound (b : rbound) : Prop := match fst b, snd b with Some l, Some u => l <= u | _, _ => True end.
Fixpoint in_box (bs : list rbound) (y : rvec) : Prop :=
  match bs, y with b :: bs', yi :: y' => in_bound b yi /\ in_box bs' y' | [], [] => True | _, _ => False end.
Definition wf_box (bs : list rbound) : Prop := Forall wf_bound bs.

Notation clampR := (@clamp R NumR).
Notation projectR := (@project R NumR).

Ltac clamp_cases b :=
  destruct b as [[l|] [u|]]; unfold clamp, in_bound, lb_ok, ub_ok, wf_bound in *; cbn [fst snd] in *; unfold_num; unfold Rltb;
  repeat match goal with |- context [Rlt_dec ?a ?c] =>
    lazymatch c with context [Rlt_dec _ _] => fail | _ => destruct (Rlt_dec a c) end end.

Lemma clamp_in_bound x b : wf_bound b -> in_bound b (clampR x b).
Proof. intros W. clamp_cases b; split; try exact I; lra. Qed.
Lemma clamp_fixes x b : in_bound b x -> clampR x b = x.
Proof. intros [A B]. clamp_cases b; lra. Qed.
Lemma clamp_nearest x y b : wf_bound b -> in_bound b y -> (x - clampR x b) * (x - clampR x b) <= (x - y) * (x - y).
Proof.
  intros W [A B]. pose proof (Rle_0_sqr (x - y)) as Hq; unfold Rsqr in Hq. clamp_cases b; try lra; try nra;
    try (assert (0 <= (u - y) * ((x - u) + (x - y))) by (apply Rmult_le_pos; lra); nra);
    try (assert (0 <= (y - l) * ((l - x) + (y - x))) by (apply Rmult_le_pos; lra); nra).
Qed.
(* variational inequality of the projection: (x - P x)(y - P x) <= 0 for feasible y *)
Lemma clamp_obtuse x y b : wf_bound b -> in_bound b y -> (x - clampR x b) * (y - clampR x b) <= 0.
Proof.
  intros W [A B]. clamp_cases b; try nra;
    try (assert (0 <= (x - u) * (u - y)) by (apply Rmult_le_pos; lra); nra);
    try (assert (0 <= (l - x) * (y - l)) by (apply Rmult_le_pos; lra); nra).
Qed.

Lemma project_length x bs : length x = length bs -> length (projectR x bs) = length bs.
Proof. revert bs; induction x as [|a x IH]; intros [|b bs] E; simpl in *; try discriminate; auto. Qed.
Lemma project_in_box x bs : wf_box bs -> length x = length bs -> in_box bs (projectR x bs).
Proof.
  revert bs; induction x as [|a x IH]; intros [|b bs] W E; simpl in *; try discriminate; [exact I|].
  inversion W; subst. split; [apply clamp_in_bound; assumption|apply IH; auto].
Qed.
Lemma project_idempotent x bs : wf_box bs -> length x = length bs -> projectR (projectR x bs) bs = projectR x bs.
Proof.
  revert bs; induction x as [|a x IH]; intros [|b bs] W E; simpl in *; try discriminate; [reflexivity|].
  inversion W; subst. f_equal; [apply clamp_fixes, clamp_in_bound; assumption|apply IH; auto].
Qed.
Lemma project_fixes y bs : in_box bs y -> projectR y bs = y.
Proof.
  revert bs; induction y as [|a y IH]; intros [|b bs] H; simpl in *; try contradiction; [reflexivity|].
  destruct H as [H1 H2]. f_equal; [apply clamp_fixes; assumption|apply IH; assumption].
Qed.
Lemma in_box_length bs y : in_box bs y -> length y = length bs.
Proof. revert y; induction bs as [|b bs IH]; intros [|a y] H; simpl in *; try contradiction; auto. destruct H. f_equal; auto. Qed.

(* nearest point: |x - P x|^2 <= |x - y|^2 for every y in the box *)
Theorem project_nearest x y bs : wf_box bs -> length x = length bs -> in_box bs y ->
  rsub x (projectR x bs) ⋅ rsub x (projectR x bs) <= rsub x y ⋅ rsub x y.
Proof.
  revert y bs; induction x as [|a x IH]; intros [|c y] [|b bs] W E H; simpl in E, H; try discriminate; try contradiction.
  - cbn. unfold_num. q2r. lra.
  - inversion W as [|? ? H3 H4]; subst. destruct H as [H1 H2].
    change (projectR (a :: x) (b :: bs)) with (clampR a b :: projectR x bs).
    change (rsub (a :: x) (clampR a b :: projectR x bs)) with ((a - clampR a b) :: rsub x (projectR x bs)).
    change (rsub (a :: x) (c :: y)) with ((a - c) :: rsub x y).
    rewrite !rdot_cons. pose proof (clamp_nearest a c b H3 H1). specialize (IH y bs H4 ltac:(congruence) H2). lra.
Qed.

(* clipping never moves a point away from a point of the box: |P y - c| <= |y - c| for feasible c *)
Lemma clamp_toward y c b : in_bound b c -> (clampR y b - c) * (clampR y b - c) <= (y - c) * (y - c).
Proof. intros [A B]. clamp_cases b; nra. Qed.
Lemma project_toward y c bs : in_box bs c -> length y = length bs ->
  rsub (projectR y bs) c ⋅ rsub (projectR y bs) c <= rsub y c ⋅ rsub y c.
Proof.
  revert c bs; induction y as [|a y IH]; intros [|c0 c] [|b bs] H E; simpl in E, H; try discriminate; try contradiction.
  - cbn. unfold_num. q2r. lra.
  - destruct H as [H1 H2].
    change (projectR (a :: y) (b :: bs)) with (clampR a b :: projectR y bs).
    change (rsub (clampR a b :: projectR y bs) (c0 :: c)) with ((clampR a b - c0) :: rsub (projectR y bs) c).
    change (rsub (a :: y) (c0 :: c)) with ((a - c0) :: rsub y c).
    rewrite !rdot_cons. pose proof (clamp_toward a c0 b H1). specialize (IH c bs H2 ltac:(congruence)). lra.
Qed.
Lemma rsub_raxpy_self c s d : length d = length c -> rsub (raxpy c s d) c ⋅ rsub (raxpy c s d) c = s * s * (d ⋅ d).
Proof.
  revert d; induction c as [|c0 c IH]; intros [|d0 d] E; simpl in E; try discriminate.
  - cbn. unfold_num. q2r. lra.
  - change (raxpy (c0 :: c) s (d0 :: d)) with ((c0 + s * d0) :: raxpy c s d).
    change (rsub ((c0 + s * d0) :: raxpy c s d) (c0 :: c)) with ((c0 + s * d0 - c0) :: rsub (raxpy c s d) c).
    rewrite !rdot_cons, IH by congruence. lra.
Qed.

(* the pull-back of repo fix F15: for EVERY point p of the box (whatever the root finder returned), a feasible centre xk and a
   radius D >= 0 the result is in the box AND within the radius *)
Theorem pull_back_props p xk bs D : wf_box bs -> in_box bs xk -> in_box bs p -> 0 <= D ->
  let q := @pull_back R NumR p xk bs D in
  in_box bs q /\ rsub q xk ⋅ rsub q xk <= D * D.
Proof.
  intros W Hk Hp HD. cbv zeta. unfold pull_back.
  pose proof (in_box_length _ _ Hk) as Lk. pose proof (in_box_length _ _ Hp) as Lp.
  set (d := rsub p xk).
  assert (Ld : length d = length xk).
  { unfold d. pose proof (len_rsub (length bs) p xk Lp Lk) as L. unfold len in L. congruence. }
  pose proof (rdot_self_nonneg d) as Hdd.
  unfold vnorm. fold (rdot d d). unfold_num.
  destruct (Rltb D (sqrt (d ⋅ d))) eqn:C.
  - apply Rltb_true in C.
    assert (Ly : length (raxpy xk (D / sqrt (d ⋅ d)) d) = length bs).
    { pose proof (len_raxpy (length bs) xk (D / sqrt (d ⋅ d)) d Lk ltac:(unfold len; congruence)) as L. exact L. }
    split; [apply project_in_box; assumption|].
    eapply Rle_trans; [apply project_toward; assumption|].
    rewrite rsub_raxpy_self by assumption.
    assert (Hs : 0 < sqrt (d ⋅ d)) by lra.
    pose proof (sqrt_sqrt _ Hdd) as SS. set (S := sqrt (d ⋅ d)) in *.
    rewrite <- SS. right. field. lra.
  - apply Rltb_false in C. split; [assumption|].
    fold d. rewrite <- (sqrt_sqrt (d ⋅ d)) by assumption.
    apply Rmult_le_compat; try apply sqrt_pos; assumption.
Qed.

(* in the box for every root-finder answer, every centre and every radius (no feasibility of xk needed) *)
Lemma pull_back_in_box p xk bs D : wf_box bs -> length xk = length bs -> in_box bs p -> in_box bs (@pull_back R NumR p xk bs D).
Proof.
  intros W Lk Hp. unfold pull_back. pose proof (in_box_length _ _ Hp) as Lp.
  destruct (nltb D (vnorm (vsub p xk))); [|exact Hp].
  apply project_in_box; [assumption|].
  pose proof (len_rsub (length bs) p xk Lp Lk) as L1.
  exact (len_raxpy (length bs) xk _ (rsub p xk) Lk L1).
Qed.
Theorem project_onto_tr_in_box x xk bs D t : wf_box bs -> length x = length bs -> length xk = length bs ->
  in_box bs (@project_onto_tr R NumR x xk bs D t).
Proof.
  intros W Ex Ek. unfold project_onto_tr. destruct (needs_root_find x xk bs D); [|apply project_in_box; assumption].
  apply pull_back_in_box; [assumption|assumption|]. apply project_in_box; [assumption|].
  pose proof (len_rsub (length bs) x xk Ex Ek) as L1.
  exact (len_raxpy (length bs) xk t (rsub x xk) Ek L1).
Qed.

(* project_onto_tr: in the box whatever the root finder returns; since repo fix F15 ALSO within the radius whatever the root
   finder returns (feasible centre, radius >= 0); unchanged (the plain projection) when that is already inside *)
Theorem project_onto_tr_props x xk bs D t : wf_box bs -> length x = length bs -> in_box bs xk -> 0 <= D ->
  let p := @project_onto_tr R NumR x xk bs D t in
  in_box bs p /\
  (@needs_root_find R NumR x xk bs D = false -> p = projectR x bs) /\
  rsub p xk ⋅ rsub p xk <= D * D.
Proof.
  intros W Ex Hk HD. cbv zeta. unfold project_onto_tr.
  pose proof (in_box_length _ _ Hk) as Ek.
  assert (Hnr : @needs_root_find R NumR x xk bs D = false -> rsub (projectR x bs) xk ⋅ rsub (projectR x bs) xk <= D * D).
  { unfold needs_root_find. unfold_num. intros H. apply negb_false_iff in H. apply Rleb_true in H. exact H. }
  destruct (needs_root_find x xk bs D) eqn:N.
  - assert (Hp : in_box bs (projectR (raxpy xk t (rsub x xk)) bs)).
    { apply project_in_box; [assumption|].
      pose proof (len_rsub (length bs) x xk Ex Ek) as L1.
      exact (len_raxpy (length bs) xk t (rsub x xk) Ek L1). }
    pose proof (pull_back_props _ xk bs D W Hk Hp HD) as H. cbv zeta in H. destruct H as [H1 H2].
    split; [exact H1|]. split; [discriminate|exact H2].
  - split; [apply project_in_box; assumption|]. split; [intros _; reflexivity|apply Hnr; reflexivity].
Qed.

(* a convex combination of two feasible points is feasible: the SPG update xNew + alpha (P - xNew), 0 <= alpha <= 1 *)
Theorem spg_update_feasible bs xNew p alpha : in_box bs xNew -> in_box bs p -> 0 <= alpha <= 1 ->
  in_box bs (@spg_update R NumR xNew p alpha).
Proof.
  revert xNew p; induction bs as [|b bs IH]; intros [|a x] [|c p] Hx Hp Ha; simpl in *; try contradiction; [exact I|].
  destruct Hx as [[X1 X2] X3], Hp as [[P1 P2] P3]. unfold_num. split; [|apply IH; assumption].
  destruct Ha as [Ha0 Ha1].
  destruct b as [[l|] [u|]]; unfold in_bound, lb_ok, ub_ok in *; cbn [fst snd] in *; split; try exact I.
  all: try (assert (0 <= alpha * (c - l)) by (apply Rmult_le_pos; lra); assert (0 <= (1 - alpha) * (a - l)) by (apply Rmult_le_pos; lra); lra).
  all: try (assert (0 <= alpha * (u - c)) by (apply Rmult_le_pos; lra); assert (0 <= (1 - alpha) * (u - a)) by (apply Rmult_le_pos; lra); lra).
Qed.

(* the clipped step length is in [0,1] for EVERY line-search value (repo commit d722144), hence for both line searches *)
(* spg_step_clip is the kernel regenerated from the statement `alpha = min(1.0, max(0.0, alpha)) if sBs > 0 else 1.0` *)
Lemma spg_step_clip_range a sBs : 0 <= @spg_step_clip R NumR a sBs <= 1.
Proof. unfold spg_step_clip. unfold_num. q2r. cbv zeta. rcases; lra. Qed.
Lemma spg_step_clip_spec a sBs : @spg_step_clip R NumR a sBs = if Rlt_dec 0 sBs then Rmin 1 (Rmax 0 a) else 1.
Proof.
  unfold spg_step_clip. unfold_num. q2r. cbv zeta. unfold Rmin, Rmax.
  destruct (Rlt_dec 0 sBs); destruct (Rle_dec 0 a); rcases; try destruct (Rle_dec 1 a); try destruct (Rle_dec 1 0); lra.
Qed.
Theorem spg_alpha_range nm ds sBs q qMax : 0 <= @spg_alpha R NumR nm ds sBs q qMax <= 1.
Proof. unfold spg_alpha. apply spg_step_clip_range. Qed.

(* the list model's component operation `clamp` IS the regenerated project kernel (np.maximum(lb, np.minimum(x, ub))) *)
Lemma clamp_is_generated x l u : clampR x (Some l, Some u) = @project_n1 R NumR x l u.
Proof. unfold clamp, project_n1, nmin, nmax. cbn [fst snd]. unfold_num. cbv zeta. rcases; lra. Qed.
Lemma project_is_generated_n2 x0 x1 l0 u0 l1 u1 :
  projectR [x0; x1] [(Some l0, Some u0); (Some l1, Some u1)] =
  let '(a, b) := @project_n2 R NumR x0 x1 l0 u0 l1 u1 in [a; b].
Proof. unfold project_n2. cbn [project]. unfold clamp, nmin, nmax. cbn [fst snd]. unfold_num. cbv zeta. repeat f_equal; rcases; lra. Qed.
Lemma project_is_generated_n3 x0 x1 x2 l0 u0 l1 u1 l2 u2 :
  projectR [x0; x1; x2] [(Some l0, Some u0); (Some l1, Some u1); (Some l2, Some u2)] =
  let '(a, b, c) := @project_n3 R NumR x0 x1 x2 l0 u0 l1 u1 l2 u2 in [a; b; c].
Proof. unfold project_n3. cbn [project]. unfold clamp, nmin, nmax. cbn [fst snd]. unfold_num. cbv zeta. repeat f_equal; rcases; lra. Qed.
(* so every SPG update is a convex combination of feasible points, in both line-search modes, without any hypothesis *)
Theorem spg_step_feasible bs xNew p nm ds sBs q qMax : in_box bs xNew -> in_box bs p ->
  in_box bs (@spg_update R NumR xNew p (@spg_alpha R NumR nm ds sBs q qMax)).
Proof. intros. apply spg_update_feasible; auto. apply spg_alpha_range. Qed.

(* remark about the UNCLIPPED monotone kernel (the mechanism of the repaired finding F12): d.s = 1, sBs = 1 gives -1 *)
Lemma monotone_alpha_negative : exists ds sBs q qMax, 0 < sBs /\ q <= qMax /\ @kouri_exact_line_search R NumR ds sBs q qMax 0 < 0.
Proof.
  exists 1, 1, 0, 0. split; [lra|]. split; [lra|].
  unfold kouri_exact_line_search. unfold_num. cbv zeta. lra.
Qed.
(* the non-monotone kernel is already non-negative when q <= qMax (q is in the history) *)
Lemma nonmonotone_kernel_nonneg ds sBs q qMax : 0 < sBs -> q <= qMax -> 0 <= @nonmonotone_line_search R NumR ds sBs q qMax 0.
Proof.
  intros Hs Hq. unfold nonmonotone_line_search. unfold_num. q2r. cbv zeta.
  match goal with |- context [sqrt ?e] => set (E := e) end.
  match goal with |- 0 <= (- ?bb + _) / _ => set (b := bb) in * end.
  assert (HE : b * b <= E) by (unfold E; nra).
  assert (0 <= E) by nra. pose proof (sqrt_sqrt E ltac:(lra)) as Hsq. pose proof (sqrt_pos E) as Hp.
  assert (b <= sqrt E) by nra.
  apply Rmult_le_pos; [lra|]. left. apply Rinv_0_lt_compat. lra.
Qed.

(* ------------------------------------------------------------------ the outer loop, arbitrary oracles *)
Section BCproofs.
  Variable value : rvec -> R.
  Variable grad : rvec -> rvec.
  Variable bs : list rbound.
  Variable proposal : nat -> rvec -> rvec * R * bool * nat.
  Variable S : settings R.

  Notation outerB := (@bc_outer R NumR value grad bs proposal S).
  Notation optR := (fun y => @optimality R NumR y (grad y) bs).

  Definition bc_post (s : @bst R) (r : rvec * bool * list (event R)) : Prop :=
    let '(x, flag, tr) := r in
    accepts_ok value tr /\
    (s_use_incremental S = false -> 0 <= s_eta1 S -> chain (b_o s) (accept_vals tr)) /\
    (flag = true -> (exists tr', tr = tr' ++ [EConverged x]) /\ optR x < s_tol S) /\
    (flag = false -> x = cur (b_x s) tr /\ exists tr', tr = tr' ++ [ETooSmall x] \/ tr = tr' ++ [EMaxIters x]).

  Lemma bc_outer_spec iters : forall k s, b_o s = value (b_x s) -> bc_post s (outerB iters k s).
  Proof.
    induction iters as [|iters IH]; intros k s Ho.
    - cbn. split; [repeat constructor|]. split; [intros; exact I|]. split; [discriminate|].
      intros _. split; [reflexivity|]. exists []. right; reflexivity.
    - cbn [bc_outer]. destruct (proposal k (b_x s)) as [[[sv mo] onb] spg].
      set (y := radd (b_x s) sv).
      destruct (nltb (optimality y (grad y) bs) (s_tol S)) eqn:Hconv.
      { cbn [bc_post]. split; [repeat constructor|]. split; [intros; exact I|]. split.
        - intros _. split; [exists []; reflexivity|]. revert Hconv. unfold_num. intros Hc. apply Rltb_true in Hc. exact Hc.
        - discriminate. }
      match goal with |- context [will_accept S ?r ?a ?b] => destruct (will_accept S r a b) eqn:Hacc end.
      + (* accepted *)
        assert (Hdesc : s_use_incremental S = false -> 0 <= s_eta1 S -> value y <= b_o s).
        { intros Hd He. rewrite Hd in Hacc. apply accept_descent in Hacc; [|assumption]. revert Hacc. unfold_num. lra. }
        match goal with |- context [nltb ?a (s_min_tr_size S)] => destruct (nltb a (s_min_tr_size S)) end; cbn [negb].
        * match goal with |- context [outerB iters ?kk ?ss] =>
            pose proof (IH kk ss eq_refl) as H; destruct (outerB iters kk ss) as [[x f] ev] end.
          cbn [bc_post b_o b_x] in H |- *. destruct H as (A & B & Cc & D).
          split; [repeat constructor; assumption|]. split.
          { intros Hd He. cbn. split; [apply Hdesc; assumption|apply B; assumption]. }
          split.
          { intros F. destruct (Cc F) as ((t & Et) & G). split; [|exact G]. exists (EAccept y (value y) :: EPrecond y :: t). rewrite Et. reflexivity. }
          intros F. destruct (D F) as (X & t & Et). split; [cbn; exact X|].
          exists (EAccept y (value y) :: EPrecond y :: t). destruct Et as [Et|Et]; rewrite Et; auto.
        * match goal with |- context [outerB iters ?kk ?ss] =>
            pose proof (IH kk ss eq_refl) as H; destruct (outerB iters kk ss) as [[x f] ev] end.
          cbn [bc_post b_o b_x] in H |- *. destruct H as (A & B & Cc & D).
          split; [repeat constructor; assumption|]. split.
          { intros Hd He. cbn. split; [apply Hdesc; assumption|apply B; assumption]. }
          split.
          { intros F. destruct (Cc F) as ((t & Et) & G). split; [|exact G]. exists (EAccept y (value y) :: t). rewrite Et. reflexivity. }
          intros F. destruct (D F) as (X & t & Et). split; [cbn; exact X|].
          exists (EAccept y (value y) :: t). destruct Et as [Et|Et]; rewrite Et; auto.
      + (* rejected *)
        match goal with |- context [nltb ?a (s_min_tr_size S)] => destruct (nltb a (s_min_tr_size S)) end.
        * destruct (negb (b_tried s)).
          -- match goal with |- context [outerB iters ?kk ?ss] =>
               pose proof (IH kk ss Ho) as H; destruct (outerB iters kk ss) as [[x f] ev] end.
             cbn [bc_post b_o b_x app] in H |- *. destruct H as (A & B & Cc & D).
             split; [constructor; [exact I|assumption]|]. split; [exact B|]. split.
             { intros F. destruct (Cc F) as ((t & Et) & G). split; [|exact G]. exists (EPrecond (b_x s) :: t). rewrite Et. reflexivity. }
             intros F. destruct (D F) as (X & t & Et). split; [exact X|].
             exists (EPrecond (b_x s) :: t). destruct Et as [Et|Et]; rewrite Et; auto.
          -- cbn [bc_post app]. split; [repeat constructor|]. split; [intros; exact I|]. split; [discriminate|].
             intros _. split; [reflexivity|]. exists []. left; reflexivity.
        * match goal with |- context [outerB iters ?kk ?ss] =>
            pose proof (IH kk ss Ho) as H; destruct (outerB iters kk ss) as [[x f] ev] end.
          cbn [bc_post b_o b_x app] in H |- *. exact H.
  Qed.

  Theorem bc_minimize_spec x :
    let '(xr, flag, tr) := @bc_minimize R NumR value grad bs proposal S x in
    accepts_ok value tr /\
    (s_use_incremental S = false -> 0 <= s_eta1 S -> chain (value x) (accept_vals tr)) /\
    (flag = true -> ((exists tr', tr = tr' ++ [EConverged xr]) \/ tr = [EConvergedInit xr]) /\ optR xr < s_tol S) /\
    (flag = false -> xr = cur x tr /\ exists tr', tr = tr' ++ [ETooSmall xr] \/ tr = tr' ++ [EMaxIters xr]).
  Proof.
    unfold bc_minimize.
    destruct (nltb (optimality x (grad x) bs) (s_tol S)) eqn:Hc.
    - split; [repeat constructor|]. split; [intros; exact I|]. split; [|discriminate].
      intros _. split; [right; reflexivity|]. revert Hc. unfold_num. intros Hc. apply Rltb_true in Hc. exact Hc.
    - match goal with |- context [bc_outer _ _ _ _ _ _ _ ?s0] =>
        pose proof (bc_outer_spec (s_max_trust_iters S) O s0 eq_refl) as H;
        destruct (outerB (s_max_trust_iters S) O s0) as [[xr flag] tr] end.
      cbn [bc_post b_o b_x] in H. destruct H as (A & B & Cc & D).
      split; [exact A|]. split; [exact B|]. split; [|exact D].
      intros F. destruct (Cc F) as (E & G). split; [left; exact E|exact G].
  Qed.
End BCproofs.

(* ------------------------------------------------------------------ convexity + exact stationarity => constrained minimiser *)
Lemma stationarity_componentwise x g y bs : wf_box bs -> in_box bs y -> length x = length bs -> length g = length bs ->
  projectR (rsub x g) bs = x -> 0 <= g ⋅ rsub y x.
Proof.
  revert g y bs; induction x as [|a x IH]; intros [|c g] [|d y] [|b bs] W Hy Ex Eg Hp; simpl in Hy, Ex, Eg;
    try discriminate; try contradiction.
  - cbn. unfold_num. q2r. lra.
  - inversion W as [|? ? H1 H2]; subst. destruct Hy as [Y1 Y2].
    change (rsub (a :: x) (c :: g)) with ((a - c) :: rsub x g) in Hp.
    change (projectR ((a - c) :: rsub x g) (b :: bs)) with (clampR (a - c) b :: projectR (rsub x g) bs) in Hp.
    injection Hp as Hc Hr.
    change (rsub (d :: y) (a :: x)) with ((d - a) :: rsub y x). rewrite rdot_cons.
    specialize (IH g y bs H2 Y2 ltac:(congruence) ltac:(congruence) Hr).
    pose proof (clamp_obtuse (a - c) d b H1 Y1) as Ho. rewrite !Hc in Ho. nra.
Qed.

Theorem convex_stationary_is_minimizer (f : rvec -> R) (gradf : rvec -> rvec) bs x :
  wf_box bs -> in_box bs x -> length (gradf x) = length bs ->
  (forall y, in_box bs y -> f x + gradf x ⋅ rsub y x <= f y) ->          (* gradient inequality of a convex function *)
  projectR (rsub x (gradf x)) bs = x ->                                    (* projected-gradient measure exactly zero *)
  forall y, in_box bs y -> f x <= f y.
Proof.
  intros W Hx Eg Hconv Hst y Hy.
  pose proof (stationarity_componentwise x (gradf x) y bs W Hy (in_box_length _ _ Hx) Eg Hst).
  specialize (Hconv y Hy). lra.
Qed.

(* non-vacuity: a box with a finite, a one-sided, a degenerate and an unbounded component *)
Lemma example_box : wf_box [(Some 0, Some 1); (None, Some 2); (Some 3, Some 3); (None, None)] /\
  in_box [(Some 0, Some 1); (None, Some 2); (Some 3, Some 3); (None, None)] [1/2; -5; 3; 7].
Proof. split; [repeat constructor; cbn; lra|cbn; unfold in_bound, lb_ok, ub_ok; cbn; repeat split; lra]. Qed.
