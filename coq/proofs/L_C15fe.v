(* C15: the quadrature model of the mass and stiffness forms of a mesh (model/M_C15_FE.v) satisfies the hypotheses that the
   Newmark theorems of L_C15.v make about "any symmetric bilinear forms m, k":  symmetry and bilinearity for every mesh,
   kinetic energy = 1/2 m(v,v) and strain energy = 1/2 k(u,u) for the regenerated energy densities, positive
   semi-definiteness for non-negative volume weights, characterisation of the null space of the mass form, K c = 0 for
   rigid translations from "the shape-function gradients sum to zero at every quadrature point" (C03), total mass from the
   partition of unity (C03); then the Newmark theorems restated over the modelled energies with no hypothesis on forms left. *)
From Coq Require Import Reals Lra Lia QArith List FunctionalExtensionality.
From Coquelicot Require Import Coquelicot.
From OV.base Require Import Num.
From OV.gen Require Import Gen_Mechanics Gen_TensorMath Gen_LinearElastic.
From OV.model Require Import M_C15_Newmark M_C15_FE.
From OV.proofs Require Import L_C15.
Import ListNotations.
Local Open Scope R_scope.

Notation ndotR := (@ndot R NumR).

Lemma sq_nn (x : R) : 0 <= x * x.
Proof. apply Rle_0_sqr. Qed.

Lemma ndotR_cons x a y b : ndotR (x :: a) (y :: b) = x * y + ndotR a b.
Proof. reflexivity. Qed.
Lemma ndotR_nil_l b : ndotR [] b = 0.
Proof. reflexivity. Qed.
Lemma ndotR_nil_r a : ndotR a [] = 0.
Proof. destruct a; reflexivity. Qed.
Lemma ndotR_comm a : forall b, ndotR a b = ndotR b a.
Proof. induction a as [|x a IH]; intros [|y b]; try reflexivity. rewrite !ndotR_cons, IH. ring. Qed.
Lemma ndotR_map_add {B} N (f g : B -> R) : forall l,
  ndotR N (map (fun a => f a + g a) l) = ndotR N (map f l) + ndotR N (map g l).
Proof.
  induction N as [|n N IH]; intros [|x l]; cbn [map]; rewrite ?ndotR_nil_l, ?ndotR_nil_r, ?ndotR_cons; try lra.
  rewrite IH. ring.
Qed.
Lemma ndotR_map_scal {B} N c (f : B -> R) : forall l, ndotR N (map (fun a => c * f a) l) = c * ndotR N (map f l).
Proof.
  induction N as [|n N IH]; intros [|x l]; cbn [map]; rewrite ?ndotR_nil_l, ?ndotR_nil_r, ?ndotR_cons; try lra.
  rewrite IH. ring.
Qed.
Lemma ndotR_map_const {B} c : forall (l : list B) N, length N = length l -> ndotR N (map (fun _ => c) l) = c * nsumR N.
Proof.
  induction l as [|x l IH]; intros [|n N] H; try discriminate; cbn [map].
  - rewrite ndotR_nil_l, nsumR_nil. ring.
  - rewrite ndotR_cons, nsumR_cons, IH by (cbn [length] in H; lia). ring.
Qed.

Lemma nsumR_nonneg l : (forall x, In x l -> 0 <= x) -> 0 <= nsumR l.
Proof.
  induction l as [|x l IH]; intros H; [rewrite nsumR_nil; lra|].
  rewrite nsumR_cons. pose proof (H x (or_introl eq_refl)). assert (0 <= nsumR l) by (apply IH; intros; apply H; right; assumption). lra.
Qed.
Lemma nsumR_zero_terms l : (forall x, In x l -> 0 <= x) -> nsumR l = 0 -> forall x, In x l -> x = 0.
Proof.
  induction l as [|y l IH]; intros H E x Hx; [destruct Hx|].
  rewrite nsumR_cons in E. pose proof (H y (or_introl eq_refl)).
  assert (0 <= nsumR l) by (apply nsumR_nonneg; intros; apply H; right; assumption).
  destruct Hx as [<-|Hx]; [lra|]. apply IH; [intros; apply H; right; assumption|lra|exact Hx].
Qed.

(* ================================================================== fields on a mesh *)
Section FE_R.
  Variable A : Type.
  Notation fld := (@nfield R A).
  Notation elemR := (@elem R A).
  Notation "u +f v" := (@fadd R NumR (@dof A) u v) (at level 50, left associativity).
  Notation "u -f v" := (@fsub R NumR (@dof A) u v) (at level 50, left associativity).
  Notation "a *f u" := (@fscal R NumR (@dof A) a u) (at level 40, left associativity).
  Notation fsum := (@fe_sum R NumR A).
  Notation itp := (@interp R NumR A).
  Notation grd := (@grad2 R NumR A).

  (* ---------- the sum over elements and quadrature points *)
  Definition qsum (f : list A -> @qpt R -> R) (e : elemR) : R := nsumR (map (fun q => f (fst e) q * qw q) (snd e)).
  Lemma fe_sum_eq f mesh : fsum f mesh = nsumR (map (qsum f) mesh).
  Proof. reflexivity. Qed.
  Lemma fe_sum_nil f : fsum f [] = 0.
  Proof. reflexivity. Qed.
  Lemma fe_sum_cons f e mesh : fsum f (e :: mesh) = qsum f e + fsum f mesh.
  Proof. reflexivity. Qed.
  Lemma qsum_ext_in f g e : (forall q, In q (snd e) -> f (fst e) q = g (fst e) q) -> qsum f e = qsum g e.
  Proof.
    unfold qsum. destruct e as [conn qs]. cbn [fst snd]. induction qs as [|q qs IH]; intros H; cbn [map]; [reflexivity|].
    rewrite !nsumR_cons, IH by (intros; apply H; right; assumption). rewrite (H q (or_introl eq_refl)). reflexivity.
  Qed.
  Lemma fe_sum_ext_in f g mesh :
    (forall e q, In e mesh -> In q (snd e) -> f (fst e) q = g (fst e) q) -> fsum f mesh = fsum g mesh.
  Proof.
    induction mesh as [|e mesh IH]; intros H; [reflexivity|].
    rewrite !fe_sum_cons, IH by (intros e' q He; apply H; right; exact He).
    rewrite (qsum_ext_in f g e) by (intros q Hq; apply H; [left; reflexivity|exact Hq]). reflexivity.
  Qed.
  Lemma fe_sum_ext f g mesh : (forall c q, f c q = g c q) -> fsum f mesh = fsum g mesh.
  Proof. intros H. apply fe_sum_ext_in. intros; apply H. Qed.
  Lemma fe_sum_add f g mesh : fsum (fun c q => f c q + g c q) mesh = fsum f mesh + fsum g mesh.
  Proof.
    induction mesh as [|e mesh IH]; [rewrite !fe_sum_nil; ring|]. rewrite !fe_sum_cons, IH.
    assert (E : qsum (fun c q => f c q + g c q) e = qsum f e + qsum g e).
    { unfold qsum. rewrite <- nsumR_map_add. apply nsumR_map_ext. intros q. ring. }
    rewrite E. ring.
  Qed.
  Lemma fe_sum_scal a f mesh : fsum (fun c q => a * f c q) mesh = a * fsum f mesh.
  Proof.
    induction mesh as [|e mesh IH]; [rewrite !fe_sum_nil; ring|]. rewrite !fe_sum_cons, IH.
    assert (E : qsum (fun c q => a * f c q) e = a * qsum f e).
    { unfold qsum. rewrite <- nsumR_map_scal. apply nsumR_map_ext. intros q. ring. }
    rewrite E. ring.
  Qed.
  Lemma fe_sum_zero mesh : fsum (fun _ _ => 0) mesh = 0.
  Proof.
    induction mesh as [|e mesh IH]; [reflexivity|]. rewrite fe_sum_cons, IH. unfold qsum.
    rewrite nsumR_map_zero; [ring|intros; ring].
  Qed.
  Lemma qsum_nonneg f e : (forall q, In q (snd e) -> 0 <= f (fst e) q * qw q) -> 0 <= qsum f e.
  Proof. intros H. unfold qsum. apply nsumR_nonneg. intros x Hx. apply in_map_iff in Hx. destruct Hx as [q [<- Hq]]. apply H, Hq. Qed.
  Lemma fe_sum_nonneg f mesh :
    (forall e q, In e mesh -> In q (snd e) -> 0 <= f (fst e) q * qw q) -> 0 <= fsum f mesh.
  Proof.
    intros H. rewrite fe_sum_eq. apply nsumR_nonneg. intros x Hx. apply in_map_iff in Hx. destruct Hx as [e [<- He]].
    apply qsum_nonneg. intros q Hq. apply H; assumption.
  Qed.
  Lemma fe_sum_zero_terms f mesh :
    (forall e q, In e mesh -> In q (snd e) -> 0 <= f (fst e) q * qw q) -> fsum f mesh = 0 ->
    forall e q, In e mesh -> In q (snd e) -> f (fst e) q * qw q = 0.
  Proof.
    intros H E e q He Hq. rewrite fe_sum_eq in E.
    assert (Q : qsum f e = 0).
    { apply (nsumR_zero_terms (map (qsum f) mesh)); [|exact E|apply in_map; exact He].
      intros x Hx. apply in_map_iff in Hx. destruct Hx as [e' [<- He']]. apply qsum_nonneg. intros; apply H; assumption. }
    unfold qsum in Q.
    apply (nsumR_zero_terms (map (fun q => f (fst e) q * qw q) (snd e))); [|exact Q|apply (in_map (fun q => f (fst e) q * qw q)); exact Hq].
    intros x Hx. apply in_map_iff in Hx. destruct Hx as [q' [<- Hq']]. apply H; assumption.
  Qed.

  Lemma nsumR_abs_bound {B} (f g : B -> R) l : (forall x, In x l -> Rabs (f x) <= g x) ->
    Rabs (nsumR (map f l)) <= nsumR (map g l).
  Proof.
    induction l as [|x l IH]; intros H; cbn [map]; [rewrite !nsumR_nil, Rabs_R0; lra|].
    rewrite !nsumR_cons. eapply Rle_trans; [apply Rabs_triang|].
    pose proof (H x (or_introl eq_refl)). assert (Rabs (nsumR (map f l)) <= nsumR (map g l)) by (apply IH; intros; apply H; right; assumption).
    lra.
  Qed.
  (* |sum f w| <= B * sum w  when the weights are non-negative and |f| <= B *)
  Lemma fe_sum_abs_bound f Bd mesh :
    (forall e q, In e mesh -> In q (snd e) -> 0 <= qw q /\ Rabs (f (fst e) q) <= Bd) ->
    Rabs (fsum f mesh) <= Bd * fsum (fun _ _ => 1) mesh.
  Proof.
    intros H. rewrite <- fe_sum_scal, !fe_sum_eq. apply nsumR_abs_bound. intros e He. unfold qsum.
    apply nsumR_abs_bound. intros q Hq. destruct (H e q He Hq) as [Hw Hf].
    rewrite Rabs_mult, (Rabs_pos_eq (qw q)) by exact Hw. rewrite Rmult_1_r. apply Rmult_le_compat_r; assumption.
  Qed.

  (* ---------- interpolation and gradient are linear in the nodal field *)
  Lemma gather_add (u v : fld) conn c : @gather R A (u +f v) conn c = map (fun a => u (a, c) + v (a, c)) conn.
  Proof. reflexivity. Qed.
  Lemma gather_scal a (u : fld) conn c : @gather R A (a *f u) conn c = map (fun x => a * u (x, c)) conn.
  Proof. reflexivity. Qed.
  Lemma interp_add u v conn q c : itp (u +f v) conn q c = itp u conn q c + itp v conn q c.
  Proof. unfold interp. rewrite gather_add. apply (ndotR_map_add (qN q) (fun a => u (a, c)) (fun a => v (a, c))). Qed.
  Lemma interp_scal a u conn q c : itp (a *f u) conn q c = a * itp u conn q c.
  Proof. unfold interp. rewrite gather_scal. apply (ndotR_map_scal (qN q) a (fun x => u (x, c))). Qed.
  Lemma gdot_add (u v : fld) conn c G :
    ndotR (@gather R A (u +f v) conn c) G = ndotR (@gather R A u conn c) G + ndotR (@gather R A v conn c) G.
  Proof. rewrite !(ndotR_comm _ G), gather_add. apply (ndotR_map_add G (fun a => u (a, c)) (fun a => v (a, c))). Qed.
  Lemma gdot_scal a (u : fld) conn c G : ndotR (@gather R A (a *f u) conn c) G = a * ndotR (@gather R A u conn c) G.
  Proof. rewrite !(ndotR_comm _ G), gather_scal. apply (ndotR_map_scal G a (fun x => u (x, c))). Qed.

  Definition g4add (g h : R * R * R * R) : R * R * R * R :=
    let '(g00, g01, g10, g11) := g in let '(h00, h01, h10, h11) := h in (g00 + h00, g01 + h01, g10 + h10, g11 + h11).
  Definition g4scal (a : R) (g : R * R * R * R) : R * R * R * R :=
    let '(g00, g01, g10, g11) := g in (a * g00, a * g01, a * g10, a * g11).
  Lemma grad2_add u v conn q : grd (u +f v) conn q = g4add (grd u conn q) (grd v conn q).
  Proof. unfold grad2, g4add. rewrite !gdot_add. reflexivity. Qed.
  Lemma grad2_scal a u conn q : grd (a *f u) conn q = g4scal a (grd u conn q).
  Proof. unfold grad2, g4scal. rewrite !gdot_scal. reflexivity. Qed.

  (* ---------- the elasticity contraction eps(g):C:eps(h) *)
  Notation cd := (@cdot R NumR).
  Lemma cdot_closed mu kappa g00 g01 g10 g11 h00 h01 h10 h11 :
    cd mu kappa (g00, g01, g10, g11) (h00, h01, h10, h11)
    = kappa * ((g00 + g11) * (h00 + h11))
      + 2 * mu * (g00 * h00 + g11 * h11 + (g01 + g10) * (h01 + h10) / 2 - (g00 + g11) * (h00 + h11) / 3).
  Proof. unfold cdot. unfold_num. q2r. field. Qed.
  Lemma cdot_add mu kappa g g' h : cd mu kappa (g4add g g') h = cd mu kappa g h + cd mu kappa g' h.
  Proof. destruct g as [[[? ?] ?] ?], g' as [[[? ?] ?] ?], h as [[[? ?] ?] ?]. unfold g4add. rewrite !cdot_closed. field. Qed.
  Lemma cdot_scal mu kappa a g h : cd mu kappa (g4scal a g) h = a * cd mu kappa g h.
  Proof. destruct g as [[[? ?] ?] ?], h as [[[? ?] ?] ?]. unfold g4scal. rewrite !cdot_closed. field. Qed.
  Lemma cdot_sym mu kappa g h : cd mu kappa g h = cd mu kappa h g.
  Proof. destruct g as [[[? ?] ?] ?], h as [[[? ?] ?] ?]. rewrite !cdot_closed. field. Qed.
  Lemma cdot_psd mu kappa g : 0 <= mu -> 0 <= kappa -> 0 <= cd mu kappa g g.
  Proof.
    intros Hm Hk. destruct g as [[[g00 g01] g10] g11]. rewrite cdot_closed.
    assert (0 <= (g00 + g11) * (g00 + g11)) by apply sq_nn.
    assert (0 <= g00 * g00 + g11 * g11 + (g01 + g10) * (g01 + g10) / 2 - (g00 + g11) * (g00 + g11) / 3).
    { pose proof (sq_nn (g00 - g11)). pose proof (sq_nn g00). pose proof (sq_nn g11). pose proof (sq_nn (g01 + g10)).
      replace (g00 * g00 + g11 * g11 + (g01 + g10) * (g01 + g10) / 2 - (g00 + g11) * (g00 + g11) / 3)
        with (((g00 - g11) * (g00 - g11) + g00 * g00 + g11 * g11) / 3 + (g01 + g10) * (g01 + g10) / 2) by field. lra. }
    assert (0 <= kappa * ((g00 + g11) * (g00 + g11))) by (apply Rmult_le_pos; assumption).
    assert (0 <= 2 * mu * (g00 * g00 + g11 * g11 + (g01 + g10) * (g01 + g10) / 2 - (g00 + g11) * (g00 + g11) / 3))
      by (apply Rmult_le_pos; lra).
    lra.
  Qed.
  Lemma cdot_zero_l mu kappa h : cd mu kappa (0, 0, 0, 0) h = 0.
  Proof. destruct h as [[[? ?] ?] ?]. rewrite cdot_closed. field. Qed.

  (* the regenerated strain energy density is half the contraction: for the property tuple whatever its first two entries *)
  Lemma se_density_props_half p0 p1 mu kappa g : @se_density_props R NumR p0 p1 mu kappa g = 1 / 2 * cd mu kappa g g.
  Proof.
    destruct g as [[[g00 g01] g10] g11]. rewrite cdot_closed.
    unfold se_density_props, linear_strain, sym, _linear_elastic_energy_density. unfold_num. q2r. cbv zeta. field.
  Qed.
  Definition le_mu (E nu : R) : R := let '(_, _, mu, _) := @le_make_properties R NumR E nu in mu.
  Definition le_kappa (E nu : R) : R := let '(_, _, _, kappa) := @le_make_properties R NumR E nu in kappa.
  Lemma se_density_half E nu g : @se_density R NumR E nu g = 1 / 2 * cd (le_mu E nu) (le_kappa E nu) g g.
  Proof.
    unfold se_density, le_mu, le_kappa. destruct (@le_make_properties R NumR E nu) as [[[p0 p1] mu] kappa].
    apply se_density_props_half.
  Qed.
  Lemma le_moduli_closed E nu : le_mu E nu = E / (2 * (1 + nu)) /\ le_kappa E nu = E / (3 * (1 - 2 * nu)).
  Proof.
    unfold le_mu, le_kappa, le_make_properties. unfold_num. q2r. cbv zeta. split; unfold Rdiv.
    - rewrite Rinv_mult. lra.
    - rewrite Rinv_mult. lra.
  Qed.
  Lemma le_moduli_pos E nu : 0 < E -> -1 < nu < 1 / 2 -> 0 < le_mu E nu /\ 0 < le_kappa E nu.
  Proof.
    intros HE Hnu. destruct (le_moduli_closed E nu) as [-> ->].
    split; apply Rdiv_lt_0_compat; lra.
  Qed.

  (* ================================================================== the mass form *)
  Section Forms.
    Variable mesh : list elemR.
    Variable rho : R.
    Notation mF := (@fe_mass_form R NumR A rho mesh).

    Definition mass_integrand (u v : fld) (conn : list A) (q : @qpt R) : R :=
      rho * (itp u conn q false * itp v conn q false + itp u conn q true * itp v conn q true).
    Lemma mass_form_eq u v : mF u v = fsum (mass_integrand u v) mesh.
    Proof. reflexivity. Qed.

    Theorem fe_mass_sbf : sbf (@dof A) mF.
    Proof.
      split.
      - intros u v w. rewrite !mass_form_eq, <- fe_sum_add. apply fe_sum_ext. intros c q.
        unfold mass_integrand. rewrite !interp_add. ring.
      - intros a u w. rewrite !mass_form_eq, <- fe_sum_scal. apply fe_sum_ext. intros c q.
        unfold mass_integrand. rewrite !interp_scal. ring.
      - intros u w. rewrite !mass_form_eq. apply fe_sum_ext. intros c q. unfold mass_integrand. ring.
    Qed.

    (* the kinetic energy the library reports (regenerated density) is half the mass form *)
    Theorem fe_kinetic_half_mass v : @fe_kinetic_energy R NumR A rho mesh v = 1 / 2 * mF v v.
    Proof.
      rewrite mass_form_eq, <- fe_sum_scal. unfold fe_kinetic_energy. apply fe_sum_ext. intros c q.
      unfold mass_integrand, kinetic_energy_density. unfold_num. q2r. field.
    Qed.

    Definition weights_nonneg : Prop := forall e q, In e mesh -> In q (snd e) -> 0 <= qw q.
    Definition weights_pos : Prop := forall e q, In e mesh -> In q (snd e) -> 0 < qw q.

    Theorem fe_mass_psd v : 0 <= rho -> weights_nonneg -> 0 <= mF v v.
    Proof.
      intros Hr Hw. rewrite mass_form_eq. apply fe_sum_nonneg. intros e q He Hq. unfold mass_integrand.
      pose proof (Hw e q He Hq). apply Rmult_le_pos; [|assumption]. apply Rmult_le_pos; [assumption|nra].
    Qed.

    (* the null space of the mass form: exactly the fields whose interpolant vanishes at every quadrature point *)
    Definition vanishes_at_qps (v : fld) : Prop :=
      forall e q, In e mesh -> In q (snd e) -> itp v (fst e) q false = 0 /\ itp v (fst e) q true = 0.
    Theorem fe_mass_null_space v : 0 < rho -> weights_pos -> (mF v v = 0 <-> vanishes_at_qps v).
    Proof.
      intros Hr Hw. split.
      - intros E e q He Hq. rewrite mass_form_eq in E.
        assert (T : mass_integrand v v (fst e) q * qw q = 0).
        { apply (fe_sum_zero_terms (mass_integrand v v) mesh); try assumption.
          intros e' q' He' Hq'. pose proof (Hw e' q' He' Hq'). unfold mass_integrand.
          apply Rmult_le_pos; [|lra]. apply Rmult_le_pos; [lra|nra]. }
        pose proof (Hw e q He Hq) as Hp. unfold mass_integrand in T.
        assert (S : itp v (fst e) q false * itp v (fst e) q false + itp v (fst e) q true * itp v (fst e) q true = 0).
        { apply Rmult_integral in T. destruct T as [T|T]; [|lra]. apply Rmult_integral in T. destruct T; [lra|assumption]. }
        split; nra.
      - intros H. rewrite mass_form_eq. rewrite (fe_sum_ext_in _ (fun _ _ => 0)).
        + apply fe_sum_zero.
        + intros e q He Hq. unfold mass_integrand. destruct (H e q He Hq) as [-> ->]. ring.
    Qed.
    (* hence: positive definite exactly when sampling at the quadrature points is injective on nodal fields *)
    Definition unisolvent : Prop := forall v : fld, vanishes_at_qps v -> v = @fzero R NumR (@dof A).
    Theorem fe_mass_definite_iff : 0 < rho -> weights_pos ->
      ((forall v, mF v v = 0 -> v = @fzero R NumR (@dof A)) <-> unisolvent).
    Proof.
      intros Hr Hw. split.
      - intros H v Hv. apply H. apply (proj2 (fe_mass_null_space v Hr Hw)). exact Hv.
      - intros H v Hv. apply H. apply (proj1 (fe_mass_null_space v Hr Hw)). exact Hv.
    Qed.

    (* ================================================================== the stiffness form *)
    Variables mu kappa : R.
    Notation kF := (@fe_stiff_form R NumR A mu kappa mesh).
    Definition stiff_integrand (u v : fld) (conn : list A) (q : @qpt R) : R := cd mu kappa (grd u conn q) (grd v conn q).
    Lemma stiff_form_eq u v : kF u v = fsum (stiff_integrand u v) mesh.
    Proof. reflexivity. Qed.

    Theorem fe_stiff_sbf : sbf (@dof A) kF.
    Proof.
      split.
      - intros u v w. rewrite !stiff_form_eq, <- fe_sum_add. apply fe_sum_ext. intros c q.
        unfold stiff_integrand. rewrite grad2_add, cdot_add. reflexivity.
      - intros a u w. rewrite !stiff_form_eq, <- fe_sum_scal. apply fe_sum_ext. intros c q.
        unfold stiff_integrand. rewrite grad2_scal, cdot_scal. reflexivity.
      - intros u w. rewrite !stiff_form_eq. apply fe_sum_ext. intros c q. unfold stiff_integrand. apply cdot_sym.
    Qed.
    Theorem fe_stiff_psd v : 0 <= mu -> 0 <= kappa -> weights_nonneg -> 0 <= kF v v.
    Proof.
      intros Hm Hk Hw. rewrite stiff_form_eq. apply fe_sum_nonneg. intros e q He Hq. unfold stiff_integrand.
      apply Rmult_le_pos; [apply cdot_psd; assumption|apply (Hw e q He Hq)].
    Qed.

    (* K c = 0 for rigid translations, from: the shape-function gradients of every element sum to zero at every
       quadrature point (C03), one gradient per element node *)
    Definition grad_sums_zero : Prop := forall e q, In e mesh -> In q (snd e) ->
      length (qGx q) = length (fst e) /\ length (qGy q) = length (fst e) /\ nsumR (qGx q) = 0 /\ nsumR (qGy q) = 0.
    Lemma gather_translation cx cy conn c :
      @gather R A (@translation R A cx cy) conn c = map (fun _ => if c then cy else cx) conn.
    Proof. reflexivity. Qed.
    Lemma grad2_translation cx cy conn q :
      length (qGx q) = length conn -> length (qGy q) = length conn ->
      grd (@translation R A cx cy) conn q = (cx * nsumR (qGx q), cx * nsumR (qGy q), cy * nsumR (qGx q), cy * nsumR (qGy q)).
    Proof.
      intros Lx Ly. unfold grad2. rewrite !gather_translation, !(ndotR_comm (map _ conn)).
      rewrite !ndotR_map_const by assumption. reflexivity.
    Qed.
    Theorem fe_stiff_translation cx cy w : grad_sums_zero -> kF (@translation R A cx cy) w = 0.
    Proof.
      intros H. rewrite stiff_form_eq. rewrite (fe_sum_ext_in _ (fun _ _ => 0)).
      - apply fe_sum_zero.
      - intros e q He Hq. destruct (H e q He Hq) as (Lx & Ly & Sx & Sy). unfold stiff_integrand.
        rewrite grad2_translation by assumption. rewrite Sx, Sy, !Rmult_0_r. apply cdot_zero_l.
    Qed.

    (* total mass: partition of unity (C03) => m(c, c') = rho * (total quadrature volume) * c.c' for translations *)
    Definition partition_of_unity : Prop := forall e q, In e mesh -> In q (snd e) ->
      length (qN q) = length (fst e) /\ nsumR (qN q) = 1.
    Lemma interp_translation cx cy conn q c : length (qN q) = length conn ->
      itp (@translation R A cx cy) conn q c = (if c then cy else cx) * nsumR (qN q).
    Proof. intros L. unfold interp. rewrite gather_translation. apply ndotR_map_const. exact L. Qed.
    Theorem fe_mass_translations cx cy dx dy : partition_of_unity ->
      mF (@translation R A cx cy) (@translation R A dx dy) = rho * @fe_volume R NumR A mesh * (cx * dx + cy * dy).
    Proof.
      intros H. rewrite mass_form_eq. unfold fe_volume.
      rewrite (fe_sum_ext_in _ (fun c q => (rho * (cx * dx + cy * dy)) * (fun _ _ => 1) c q)).
      - rewrite fe_sum_scal. replace (@nunit R NumR) with 1 by (unfold nunit, nZ; cbn [nconst NumR]; q2r; reflexivity). ring.
      - intros e q He Hq. destruct (H e q He Hq) as [L S]. unfold mass_integrand.
        rewrite !interp_translation by exact L. rewrite S. ring.
    Qed.
    Lemma fe_volume_eq : @fe_volume R NumR A mesh = fsum (fun _ _ => 1) mesh.
    Proof. unfold fe_volume. apply fe_sum_ext. intros. unfold nunit, nZ. cbn [nconst NumR]. q2r. reflexivity. Qed.
    (* the same with shape functions that sum to one only within eps (what the certificates of the binary64 tables give) *)
    Definition partition_of_unity_eps (eps : R) : Prop := forall e q, In e mesh -> In q (snd e) ->
      length (qN q) = length (fst e) /\ Rabs (nsumR (qN q) - 1) <= eps.
    Theorem fe_mass_translations_eps eps cx cy dx dy : 0 <= eps -> weights_nonneg -> partition_of_unity_eps eps ->
      Rabs (mF (@translation R A cx cy) (@translation R A dx dy) - rho * @fe_volume R NumR A mesh * (cx * dx + cy * dy))
      <= Rabs (rho * (cx * dx + cy * dy)) * (eps * (2 + eps)) * @fe_volume R NumR A mesh.
    Proof.
      intros He Hw H. rewrite fe_volume_eq, mass_form_eq.
      set (g := fun (c : list A) (q : @qpt R) => nsumR (qN q) * nsumR (qN q) - 1).
      assert (E : fsum (mass_integrand (@translation R A cx cy) (@translation R A dx dy)) mesh
                  - rho * fsum (fun _ _ => 1) mesh * (cx * dx + cy * dy) = (rho * (cx * dx + cy * dy)) * fsum g mesh).
      { rewrite <- fe_sum_scal.
        rewrite (fe_sum_ext_in _ (fun c q => (rho * (cx * dx + cy * dy)) * g c q + (rho * (cx * dx + cy * dy)) * (fun _ _ => 1) c q)).
        - rewrite fe_sum_add, !fe_sum_scal. ring.
        - intros e q Hin Hq. destruct (H e q Hin Hq) as [L _]. unfold mass_integrand, g.
          rewrite !interp_translation by exact L. ring. }
      rewrite E, Rabs_mult, !Rmult_assoc. apply Rmult_le_compat_l; [apply Rabs_pos|]. rewrite <- Rmult_assoc.
      apply fe_sum_abs_bound. intros e q Hin Hq. split; [apply (Hw e q Hin Hq)|].
      destruct (H e q Hin Hq) as [_ HS]. unfold g. set (S := nsumR (qN q)) in *.
      replace (S * S - 1) with ((S - 1) * (S - 1) + 2 * (S - 1)) by ring.
      apply Rabs_le_between in HS. apply Rabs_le. assert (0 <= (S - 1) * (S - 1)) by apply sq_nn.
      assert ((S - 1) * (S - 1) <= eps * eps) by nra. nra.
    Qed.
  End Forms.

  (* ================================================================== the modelled energies and the Newmark theorems *)
  Section Dynamics.
    Variable mesh : list elemR.
    Variables rho E nu : R.
    Notation mF := (@fe_mass_form R NumR A rho mesh).
    Notation kF := (@fe_stiff_form R NumR A (le_mu E nu) (le_kappa E nu) mesh).
    Notation KE := (@fe_kinetic_energy R NumR A rho mesh).
    Notation SE := (@fe_strain_energy R NumR A E nu mesh).

    Theorem fe_strain_half_stiff u : SE u = 1 / 2 * kF u u.
    Proof.
      rewrite stiff_form_eq, <- fe_sum_scal. unfold fe_strain_energy. apply fe_sum_ext. intros c q.
      unfold stiff_integrand. apply se_density_half.
    Qed.
    Lemma fe_strain_is_SEq u : SE u = SEq (@dof A) kF u.
    Proof. unfold SEq. apply fe_strain_half_stiff. Qed.

    (* compute_newmark_lagrangian as modelled IS the algorithmic energy of the abstract theorems with m, k the forms above *)
    Theorem fe_alg_energy_eq b dt Up U :
      @fe_alg_energy R NumR A rho E nu b dt mesh Up U = @alg_energy R NumR (@dof A) (SEq (@dof A) kF) mF b dt Up U.
    Proof.
      unfold fe_alg_energy, alg_energy. rewrite fe_strain_is_SEq, fe_kinetic_half_mass. unfold_num. q2r.
      ring.
    Qed.

    Definition fe_stationary (b dt : R) (Up U1 : fld) : Prop :=
      forall w, is_derive (fun e : R => @fe_alg_energy R NumR A rho E nu b dt mesh Up (U1 +f e *f w)) 0 0.
    Lemma fe_stationary_abstract b dt Up U1 : fe_stationary b dt Up U1 <-> stationary_at (@dof A) mF kF b dt Up U1.
    Proof.
      unfold fe_stationary, stationary_at. split; intros H w; specialize (H w).
      - apply is_derive_ext with (2 := H). intros e. apply fe_alg_energy_eq.
      - apply is_derive_ext with (2 := H). intros e. symmetry. apply fe_alg_energy_eq.
    Qed.
    Definition fe_total_energy (s : @state R (@dof A)) : R := KE (sV s) + SE (sU s).
    Lemma fe_total_energy_abstract s : fe_total_energy s = energy (@dof A) mF kF s.
    Proof.
      unfold fe_total_energy, energy, total_energy. rewrite fe_kinetic_half_mass, fe_strain_is_SEq. unfold_num. q2r. reflexivity.
    Qed.
    Definition fe_balanced (s : @state R (@dof A)) : Prop := forall w, mF (sA s) w + kF (sU s) w = 0.

    (* energy conservation of the trapezoidal rule on ANY mesh, any density and elastic constants: no hypothesis on forms *)
    Theorem fe_energy_conserved (solve : fld -> R -> fld) (dts : list R) (s : @state R (@dof A)) :
      (forall dt, In dt dts -> dt <> 0) ->
      (forall Up dt, dt <> 0 -> fe_stationary (1 / 4) dt Up (solve Up dt)) ->
      fe_balanced s ->
      fe_total_energy (@newmark_run R NumR (@dof A) (1 / 2) (1 / 4) solve s dts) = fe_total_energy s /\
      fe_balanced (@newmark_run R NumR (@dof A) (1 / 2) (1 / 4) solve s dts).
    Proof.
      intros Hnz Hst Hbal. rewrite !fe_total_energy_abstract.
      apply (energy_conserved (@dof A) mF kF (fe_mass_sbf mesh rho) (fe_stiff_sbf mesh _ _) solve dts s Hnz).
      - intros Up dt Hdt. exact (proj1 (fe_stationary_abstract _ dt Up (solve Up dt)) (Hst Up dt Hdt)).
      - exact Hbal.
    Qed.

    (* rigid translation at constant velocity, any gamma, beta > 0, any sequence of steps, on every mesh whose shape-function
       gradients sum to zero (C03) and whose quadrature points are unisolvent for the nodal fields *)
    Theorem fe_rigid_translation (g b : R) (cx cy ox oy : R) (solve : fld -> R -> fld) (dts : list R) :
      0 < rho -> 0 < E -> -1 < nu < 1 / 2 -> 0 < b ->
      weights_pos mesh -> grad_sums_zero mesh -> unisolvent mesh ->
      (forall Up dt, dt <> 0 -> fe_stationary b dt Up (solve Up dt)) ->
      (forall dt, In dt dts -> dt <> 0) ->
      @newmark_run R NumR (@dof A) g b solve
         (mkState (@translation R A ox oy) (@translation R A cx cy) (@fzero R NumR (@dof A))) dts
      = mkState (@translation R A ox oy +f fold_right Rplus 0 dts *f @translation R A cx cy)
                (@translation R A cx cy) (@fzero R NumR (@dof A)).
    Proof.
      intros Hr HE Hnu Hb Hw Hg Hu Hst Hnz.
      destruct (le_moduli_pos E nu HE Hnu) as [Hmu Hka].
      assert (Hwn : weights_nonneg mesh) by (intros e q He Hq; apply Rlt_le, (Hw e q He Hq)).
      apply (rigid_translation_run (@dof A) mF kF (fe_mass_sbf mesh rho) (fe_stiff_sbf mesh _ _) g b
               (@translation R A cx cy) solve Hb).
      - intros x. apply fe_mass_psd; [lra|exact Hwn].
      - apply (proj2 (fe_mass_definite_iff mesh rho Hr Hw)). exact Hu.
      - intros x. apply fe_stiff_psd; [lra|lra|exact Hwn].
      - intros w. apply fe_stiff_translation. exact Hg.
      - intros Up dt Hdt. exact (proj1 (fe_stationary_abstract _ dt Up (solve Up dt)) (Hst Up dt Hdt)).
      - exact Hnz.
      - intros w. apply fe_stiff_translation. exact Hg.
    Qed.
  End Dynamics.
End FE_R.

(* ================================================================== witnesses *)
(* a P1 triangle with vertices (1,0), (0,1), (0,0) and the edge-midpoint rule: every premise of the theorems above holds *)
Inductive three : Type := n0 | n1 | n2.
Definition ex_q (N : list R) : @qpt R := mkQ (1 / 6) N [1; 0; -1] [0; 1; -1].
Definition ex_elem : @elem R three := ([n0; n1; n2], [ex_q [1 / 2; 1 / 2; 0]; ex_q [0; 1 / 2; 1 / 2]; ex_q [1 / 2; 0; 1 / 2]]).
Definition ex_mesh : list (@elem R three) := [ex_elem].
Ltac ex_cases He Hq :=
  destruct He as [<-|[]]; cbn [ex_elem snd fst] in Hq |- *; destruct Hq as [<-|[<-|[<-|[]]]]; cbn [ex_q qw qN qGx qGy length].
Ltac sum_norm := repeat rewrite ?nsumR_cons, ?nsumR_nil, ?ndotR_cons, ?ndotR_nil_l.
Lemma ex_mesh_premises :
  weights_pos three ex_mesh /\ partition_of_unity three ex_mesh /\ grad_sums_zero three ex_mesh /\ unisolvent three ex_mesh /\
  @fe_volume R NumR three ex_mesh = 1 / 2 /\
  (exists u, 0 < @fe_stiff_form R NumR three 1 1 ex_mesh u u).
Proof.
  split; [|split; [|split; [|split; [|split]]]].
  - intros e q He Hq. ex_cases He Hq; lra.
  - intros e q He Hq. ex_cases He Hq; (split; [reflexivity|sum_norm; lra]).
  - intros e q He Hq. ex_cases He Hq; (repeat split; try reflexivity; sum_norm; lra).
  - intros v H.
    assert (Q : forall c, v (n0, c) + v (n1, c) = 0 /\ v (n1, c) + v (n2, c) = 0 /\ v (n0, c) + v (n2, c) = 0).
    { intros c.
      pose proof (H ex_elem (ex_q [1 / 2; 1 / 2; 0]) (or_introl eq_refl) (or_introl eq_refl)) as H1.
      pose proof (H ex_elem (ex_q [0; 1 / 2; 1 / 2]) (or_introl eq_refl) (or_intror (or_introl eq_refl))) as H2.
      pose proof (H ex_elem (ex_q [1 / 2; 0; 1 / 2]) (or_introl eq_refl) (or_intror (or_intror (or_introl eq_refl)))) as H3.
      unfold interp, gather in H1, H2, H3. cbn [ex_elem fst map ex_q qN] in H1, H2, H3.
      repeat rewrite ?ndotR_cons, ?ndotR_nil_l in H1, H2, H3.
      destruct c; [destruct H1 as [_ H1], H2 as [_ H2], H3 as [_ H3]|destruct H1 as [H1 _], H2 as [H2 _], H3 as [H3 _]]; repeat split; lra. }
    apply functional_extensionality. intros [a c]. destruct (Q c) as (Q1 & Q2 & Q3).
    unfold fzero, nzero, nZ. cbn [nconst NumR]. q2r. destruct a; lra.
  - rewrite fe_volume_eq, fe_sum_eq. cbn [ex_mesh map]. unfold qsum. cbn [ex_elem snd map ex_q qw]. sum_norm. lra.
  - exists (fun d => match d with (n0, false) => 1 | _ => 0 end).
    rewrite stiff_form_eq, fe_sum_eq. cbn [ex_mesh map]. unfold qsum, stiff_integrand, grad2, gather. cbn [ex_elem snd fst map ex_q qw qGx qGy].
    sum_norm. rewrite !cdot_closed. lra.
Qed.

(* without unisolvence the mass form is only semi-definite: two nodes, one quadrature point *)
Definition ex2_mesh : list (@elem R bool) := [([false; true], [mkQ 1 [1 / 2; 1 / 2] [1; -1] [0; 0]])].
Lemma fe_mass_not_definite_witness :
  weights_pos bool ex2_mesh /\ partition_of_unity bool ex2_mesh /\ grad_sums_zero bool ex2_mesh /\
  exists v : @nfield R bool, @fe_mass_form R NumR bool 1 ex2_mesh v v = 0 /\ v <> @fzero R NumR (@dof bool).
Proof.
  split; [|split; [|split]].
  - intros e q [<-|[]] [<-|[]]. cbn [qw]. lra.
  - intros e q [<-|[]] [<-|[]]. cbn [qN fst length]. split; [reflexivity|sum_norm; lra].
  - intros e q [<-|[]] [<-|[]]. cbn [qGx qGy fst length]. repeat split; sum_norm; lra.
  - exists (fun d : bool * bool => if fst d then -1 else 1). split.
    + rewrite mass_form_eq, fe_sum_eq. cbn [ex2_mesh map]. unfold qsum, mass_integrand, interp, gather. cbn [snd fst map qw qN].
      sum_norm. lra.
    + intros H. apply (f_equal (fun f => f (false, false))) in H. cbn [fst] in H.
      unfold fzero, nzero, nZ in H. cbn [nconst NumR] in H. q2r. lra.
Qed.
