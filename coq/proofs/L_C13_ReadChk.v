(* C13 -- readers: (a) the repository's reader (read_exodus_checked, /repo ce166ed) accepts exactly the files whose final names are
   pairwise distinct, which are exactly the files on which the reader without the check keeps every record; on an accepted file nothing is
   lost; (b) block_maps are the slices of the element number map, (c) coordinates (model/M_C13_ReadChk.v). *)
From Coq Require Import List Arith ZArith Bool Lia.
From OV.model Require Import M_C13_Combine M_C13_Read M_C13_ReadFile M_C13_ReadChk.
From OV.proofs Require Import L_C13_Combine L_C13_Read L_C13_ReadFile.
Import ListNotations.

Lemma zmem_In k l : zmem k l = true <-> In k l.
Proof.
  induction l as [| x l IH]; cbn; [split; [discriminate | tauto] |].
  rewrite orb_true_iff, IH, Z.eqb_eq. split; intros [H | H]; auto.
Qed.
Lemma distinctb_NoDup l : distinctb l = true <-> NoDup l.
Proof.
  induction l as [| x l IH]; cbn; [split; [constructor | reflexivity] |].
  rewrite andb_true_iff, negb_true_iff, IH. split.
  - intros [H1 H2]. constructor; [| exact H2]. intros Hin. apply zmem_In in Hin. congruence.
  - intros H. inversion H; subst. split; [| assumption]. destruct (zmem x l) eqn:E; [apply zmem_In in E; contradiction | reflexivity].
Qed.

(* ---- the dict built by assignment: keys stay distinct, come from the assigned names, at most one new entry per assignment *)
Lemma dset_length_le {V} (d : dict V) k v : length (dset d k v) <= S (length d).
Proof. induction d as [| [k' v'] d IH]; cbn; [lia |]. destruct (Z.eqb k k'); cbn; lia. Qed.
Lemma dset_keys_incl {V} (d : dict V) k v : incl (map fst (dset d k v)) (k :: map fst d).
Proof.
  induction d as [| [k' v'] d IH]; cbn; [intros x Hx; exact Hx |].
  destruct (Z.eqb k k') eqn:E; cbn.
  - apply Z.eqb_eq in E. subst. intros x [Hx | Hx]; [left; exact Hx | right; right; exact Hx].
  - intros x [Hx | Hx]; [right; left; exact Hx |]. apply IH in Hx. destruct Hx as [Hx | Hx]; [left; exact Hx | right; right; exact Hx].
Qed.
Lemma dset_keys_nodup {V} (d : dict V) k v : NoDup (map fst d) -> NoDup (map fst (dset d k v)).
Proof.
  induction d as [| [k' v'] d IH]; cbn; intros H; [constructor; [intros [] | constructor] |].
  inversion H as [| ? ? Hn Hd]; subst. destruct (Z.eqb k k') eqn:E; cbn.
  - apply Z.eqb_eq in E. subst. constructor; assumption.
  - constructor; [| now apply IH]. intros Hin. apply dset_keys_incl in Hin. destruct Hin as [Hin | Hin]; [| contradiction].
    subst. rewrite Z.eqb_refl in E. discriminate.
Qed.
Lemma fold_dset_keys {V} (l : list (Z * V)) : forall d, NoDup (map fst d) ->
  let r := fold_left (fun d kv => dset d (fst kv) (snd kv)) l d in
  NoDup (map fst r) /\ incl (map fst r) (map fst d ++ map fst l) /\ length r <= length d + length l.
Proof.
  induction l as [| [k v] l IH]; intros d Hd; cbn [fold_left map fst snd length].
  - split; [exact Hd |]. split; [rewrite app_nil_r; apply incl_refl | lia].
  - destruct (IH (dset d k v) (dset_keys_nodup d k v Hd)) as (A & B & C). cbv zeta in *. split; [exact A |]. split.
    + intros x Hx. apply B in Hx. apply in_app_or in Hx. apply in_or_app. destruct Hx as [Hx | Hx].
      * apply dset_keys_incl in Hx. destruct Hx as [Hx | Hx]; [right; left; exact Hx | left; exact Hx].
      * right; right; exact Hx.
    + pose proof (dset_length_le d k v). lia.
Qed.
Lemma dict_of_length_le {V} (names : list Z) (vals : list V) : length (dict_of names vals) <= length names.
Proof.
  unfold dict_of. destruct (fold_dset_keys (combine names vals) [] (NoDup_nil _)) as (_ & _ & C). cbv zeta in C.
  rewrite combine_length in C. cbn in C. lia.
Qed.
(* dict(zip(names, vals)) has one entry per record  iff  the names are pairwise distinct *)
Theorem dict_of_lossless_iff {V} (names : list Z) (vals : list V) : length names = length vals ->
  (length (dict_of names vals) = length names <-> NoDup names).
Proof.
  intros Hl. split.
  - intros H. unfold dict_of in H. destruct (fold_dset_keys (combine names vals) [] (NoDup_nil _)) as (A & B & _). cbv zeta in A, B.
    cbn [map app] in B. rewrite map_fst_combine_eq in B by exact Hl.
    apply (NoDup_incl_NoDup A); [rewrite map_length; lia | exact B].
  - intros H. rewrite dict_of_nodup by assumption. rewrite combine_length. lia.
Qed.
Corollary dict_of_clash_loses {V} (names : list Z) (vals : list V) : length names = length vals ->
  ~ NoDup names -> length (dict_of names vals) < length names.
Proof.
  intros Hl Hn. pose proof (dict_of_length_le names vals). pose proof (dict_of_lossless_iff names vals Hl) as [H1 _].
  destruct (Nat.eq_dec (length (dict_of names vals)) (length names)) as [E | E]; [exfalso; auto | lia].
Qed.

(* ---- (a) the repaired reader *)
Section Checked.
  Variable six : bool.
  Variables aB aN aS : nat -> Z.
  Variable f : exo_file.
  Let r := read_exodus six aB aN aS f.
  Let bn := final_names aB 0 (ef_bnames f).
  Let nn := final_names aN 0 (ef_nsnames f).
  Let sn := final_names aS 0 (ef_ssnames f).

  Theorem read_exodus_checked_spec :
    (forall r', read_exodus_checked six aB aN aS f = Some r' <-> (NoDup bn /\ NoDup nn /\ NoDup sn) /\ r' = r)
    /\ (read_exodus_checked six aB aN aS f = None <-> ~ (NoDup bn /\ NoDup nn /\ NoDup sn)).
  Proof.
    unfold read_exodus_checked. fold bn nn sn r.
    destruct (distinctb bn) eqn:E1, (distinctb nn) eqn:E2, (distinctb sn) eqn:E3; cbn [andb];
      try (apply distinctb_NoDup in E1); try (apply distinctb_NoDup in E2); try (apply distinctb_NoDup in E3);
      try (assert (N1 : ~ NoDup bn) by (intros H; apply distinctb_NoDup in H; congruence));
      try (assert (N2 : ~ NoDup nn) by (intros H; apply distinctb_NoDup in H; congruence));
      try (assert (N3 : ~ NoDup sn) by (intros H; apply distinctb_NoDup in H; congruence));
      (split; [intros r'; split; [intros H; try discriminate; inversion H; tauto | intros [H ->]; try reflexivity; tauto]
              | split; [intros H; try discriminate; tauto | intros H; try reflexivity; tauto]]).
  Qed.

  Hypothesis Hwf : exo_wf six f.

  (* the files the repaired reader rejects are exactly those on which the present reader drops a block / node-set / side-set record *)
  Theorem read_exodus_rejects_iff_record_lost :
    read_exodus_checked six aB aN aS f = None
    <-> (length (rm_blocks r) < length (ef_blocks f) \/ length (rm_nodesets r) < length (ef_nodesets f)
         \/ length (rm_sidesets r) < length (ef_sidesets f)).
  Proof.
    assert (Lb : length bn = length (read_block_ranges (ef_blocks f))) by (unfold bn; rewrite final_names_length, read_blocks_count; apply (wf_bn _ _ Hwf)).
    assert (Ln : length nn = length (map to0 (ef_nodesets f))) by (unfold nn; rewrite final_names_length, map_length; apply (wf_nsn _ _ Hwf)).
    assert (Ls : length sn = length (map (fun es => read_sideset (fst es) (snd es)) (ef_sidesets f)))
      by (unfold sn; rewrite final_names_length, map_length; apply (wf_ssn _ _ Hwf)).
    assert (Cb : length bn = length (ef_blocks f)) by (unfold bn; rewrite final_names_length; apply (wf_bn _ _ Hwf)).
    assert (Cn : length nn = length (ef_nodesets f)) by (unfold nn; rewrite final_names_length; apply (wf_nsn _ _ Hwf)).
    assert (Cs : length sn = length (ef_sidesets f)) by (unfold sn; rewrite final_names_length; apply (wf_ssn _ _ Hwf)).
    pose proof (dict_of_lossless_iff bn _ Lb) as Ib. pose proof (dict_of_lossless_iff nn _ Ln) as In_. pose proof (dict_of_lossless_iff sn _ Ls) as Is.
    pose proof (dict_of_length_le bn (read_block_ranges (ef_blocks f))) as Gb.
    pose proof (dict_of_length_le nn (map to0 (ef_nodesets f))) as Gn.
    pose proof (dict_of_length_le sn (map (fun es => read_sideset (fst es) (snd es)) (ef_sidesets f))) as Gs.
    unfold r, read_exodus. cbn [rm_blocks rm_nodesets rm_sidesets]. fold bn nn sn.
    rewrite (proj2 read_exodus_checked_spec). fold bn nn sn. split.
    - intros H.
      destruct (distinctb bn) eqn:E1; [apply distinctb_NoDup in E1 | left; assert (Q : ~ NoDup bn) by (intros K; apply distinctb_NoDup in K; congruence); pose proof (dict_of_clash_loses bn _ Lb Q); lia].
      destruct (distinctb nn) eqn:E2; [apply distinctb_NoDup in E2 | right; left; assert (Q : ~ NoDup nn) by (intros K; apply distinctb_NoDup in K; congruence); pose proof (dict_of_clash_loses nn _ Ln Q); lia].
      destruct (distinctb sn) eqn:E3; [apply distinctb_NoDup in E3 | right; right; assert (Q : ~ NoDup sn) by (intros K; apply distinctb_NoDup in K; congruence); pose proof (dict_of_clash_loses sn _ Ls Q); lia].
      tauto.
    - intros [H | [H | H]] (K1 & K2 & K3); [apply Ib in K1 | apply In_ in K2 | apply Is in K3]; lia.
  Qed.

  (* on an accepted file nothing is lost: the conclusions of read_exodus_blocks / _nodesets / _sidesets with NO hypothesis on names *)
  Theorem read_exodus_checked_no_loss r' : read_exodus_checked six aB aN aS f = Some r' ->
    r' = r
    /\ (concat (map snd (rm_blocks r')) = seq 0 (length (rm_conns r')) /\ length (rm_blocks r') = length (ef_blocks f)
        /\ forall b blk k, nth_error (ef_blocks f) b = Some blk -> nth_error bn b = Some k ->
             dget (rm_blocks r') k = Some (seq (block_first (ef_blocks f) b) (length blk)))
    /\ (length (rm_nodesets r') = length (ef_nodesets f)
        /\ forall i l k, nth_error (ef_nodesets f) i = Some l -> nth_error nn i = Some k ->
             dget (rm_nodesets r') k = Some (to0 l) /\ map S (to0 l) = l /\ Forall (fun n => n < ef_nnodes f) (to0 l))
    /\ (length (rm_sidesets r') = length (ef_sidesets f)
        /\ forall i es ss k, nth_error (ef_sidesets f) i = Some (es, ss) -> nth_error sn i = Some k ->
             dget (rm_sidesets r') k = Some (read_sideset es ss) /\ map (fun p => S (fst p)) (read_sideset es ss) = es
             /\ map (fun p => S (snd p)) (read_sideset es ss) = ss
             /\ Forall (fun p => fst p < length (rm_conns r') /\ snd p < 3) (read_sideset es ss)).
  Proof.
    intros H. apply (proj1 read_exodus_checked_spec) in H. destruct H as [(K1 & K2 & K3) ->]. split; [reflexivity |].
    destruct (read_exodus_blocks six aB aN aS f Hwf K1) as (_ & B2 & B3 & B4).
    destruct (read_exodus_nodesets six aB aN aS f Hwf K2) as (N1 & N2).
    destruct (read_exodus_sidesets six aB aN aS f Hwf K3) as (S1 & S2).
    split; [split; [exact B3 | split; [exact B4 | exact B2]] |]. split.
    - split; [exact N1 |]. intros i l k Hi Hk. destruct (N2 i l k Hi Hk) as (A & _ & C & D). auto.
    - split; [exact S1 |]. intros i es ss k Hi Hk. destruct (S2 i es ss k Hi Hk) as (A & _ & C & D & E). auto.
  Qed.
End Checked.

(* ---- (b) block_maps *)
Lemma firstn_plus {A} n m (l : list A) : firstn (n + m) l = firstn n l ++ firstn m (skipn n l).
Proof. revert l. induction n as [| n IH]; intros [| x l]; cbn; try reflexivity; [now rewrite firstn_nil | now rewrite IH]. Qed.
Lemma skipn_plus {A} n m (l : list A) : skipn (n + m) l = skipn m (skipn n l).
Proof. revert l. induction n as [| n IH]; intros [| x l]; cbn; try reflexivity; [now rewrite skipn_nil | apply IH]. Qed.
Lemma slices_concat {A} sizes : forall first (l : list A), concat (slices first sizes l) = firstn (list_sum sizes) (skipn first l).
Proof.
  induction sizes as [| n r IH]; intros first l; cbn [slices concat list_sum fold_right]; [reflexivity |].
  rewrite IH. change (fold_right Nat.add 0 r) with (list_sum r). now rewrite firstn_plus, skipn_plus.
Qed.
Lemma slices_length {A} sizes first (l : list A) : length (slices first sizes l) = length sizes.
Proof. revert first. induction sizes as [| n r IH]; intros first; cbn; [reflexivity | now rewrite IH]. Qed.
Lemma slices_nth {A} sizes : forall first (l : list A) b n, nth_error sizes b = Some n ->
  nth_error (slices first sizes l) b = Some (firstn n (skipn (first + list_sum (firstn b sizes)) l)).
Proof.
  induction sizes as [| n0 r IH]; intros first l [| b] n H; try discriminate; cbn in *.
  - inversion H; subst. now rewrite Nat.add_0_r.
  - rewrite (IH (first + n0) l b n H). do 3 f_equal. unfold list_sum. lia.
Qed.
Lemma block_ranges_sizes first sizes : map (@length _) (block_ranges first sizes) = sizes.
Proof. revert first. induction sizes as [| n r IH]; intros first; cbn; [reflexivity |]. now rewrite seq_length, IH. Qed.

Section BlockMaps.
  Variable six : bool.
  Variables aB aN aS : nat -> Z.
  Variable f : exo_file.
  Hypothesis Hwf : exo_wf six f.
  Let r := read_exodus six aB aN aS f.
  Let bn := final_names aB 0 (ef_bnames f).
  Hypothesis Hn : NoDup bn.
  Variable emap : option (list nat).
  Hypothesis Hmap : match emap with Some l => length l = length (rm_conns r) | None => True end.
  (* the element number map in force: the file's, or 1..nE *)
  Let em := match emap with Some l => l | None => seq 1 (length (rm_conns r)) end.

  (* block b's entry is the slice [first_b, first_b + n_b) of the element number map; the slices, in order, are the whole map *)
  Theorem read_block_maps_spec :
    let bm := read_block_maps emap (rm_blocks r) in
    map fst bm = bn /\ length bm = length (ef_blocks f)
    /\ (forall b blk k, nth_error (ef_blocks f) b = Some blk -> nth_error bn b = Some k ->
          dget bm k = Some (firstn (length blk) (skipn (block_first (ef_blocks f) b) em)))
    /\ concat (map snd bm) = em.
  Proof.
    cbv zeta. destruct (read_exodus_blocks six aB aN aS f Hwf Hn) as (E & _ & _ & B4). fold r bn in E, B4.
    set (sizes := map (@length _) (ef_blocks f)).
    assert (Hl : length bn = length (read_block_ranges (ef_blocks f))) by (unfold bn; rewrite final_names_length, read_blocks_count; apply (wf_bn _ _ Hwf)).
    assert (Sz : map (fun kv : Z * list nat => length (snd kv)) (rm_blocks r) = sizes).
    { rewrite E. rewrite <- (map_map snd (@length nat)). rewrite map_snd_combine_eq by exact Hl. apply block_ranges_sizes. }
    assert (Kn : map fst (rm_blocks r) = bn) by (rewrite E; now apply map_fst_combine_eq).
    assert (NE : list_sum sizes = length (rm_conns r)).
    { unfold r. rewrite (rm_conns_length six aB aN aS f Hwf). unfold exo_nelems. now rewrite read_conns_length. }
    assert (Em : (match emap with Some l => l | None => seq 1 (list_sum sizes) end) = em) by (unfold em; destruct emap; [reflexivity | now rewrite NE]).
    assert (Le : length em = list_sum sizes) by (unfold em; destruct emap; [now rewrite Hmap | now rewrite seq_length]).
    assert (Ls : length bn = length (slices 0 sizes em)) by (rewrite slices_length; unfold sizes; rewrite map_length; unfold bn; rewrite final_names_length; apply (wf_bn _ _ Hwf)).
    assert (BM : read_block_maps emap (rm_blocks r) = combine bn (slices 0 sizes em)).
    { unfold read_block_maps. cbv zeta. rewrite Sz, Kn, Em. now apply dict_of_nodup. }
    rewrite BM. split; [now apply map_fst_combine_eq |]. split; [| split].
    - rewrite combine_length, <- Ls, Nat.min_id. unfold bn. rewrite final_names_length. apply (wf_bn _ _ Hwf).
    - intros b blk k Hb Hk. apply (dget_combine_nth _ _ b); auto.
      rewrite (slices_nth sizes 0 em b (length blk)) by (unfold sizes; now rewrite nth_error_map, Hb).
      cbn [Nat.add]. unfold block_first, sizes. now rewrite firstn_map.
    - rewrite map_snd_combine_eq by exact Ls. rewrite slices_concat. cbn [skipn]. rewrite <- Le. apply firstn_all.
  Qed.
End BlockMaps.

(* with a name clash block_maps are MISALIGNED as well: in the witness file (elements numbered 10, 20) the surviving block, which holds
   element 1, gets the global number of element 0 *)
Lemma read_block_maps_name_clash_refuted :
  let r := read_exodus false clash_auto clash_auto clash_auto clash_file in
  rm_blocks r = [(7%Z, [1])] /\ read_block_maps (Some [10; 20]) (rm_blocks r) = [(7%Z, [10])] /\ nth 1 [10; 20] 0 = 20
  /\ read_exodus_checked false clash_auto clash_auto clash_auto clash_file = None.
Proof. cbv zeta. repeat split. Qed.

(* ---- (c) coordinates: np.column_stack([coordx, coordy]) *)
Lemma read_coords_spec {T} (xs ys : list T) n : length xs = n -> length ys = n ->
  length (read_coords xs ys) = n /\ map fst (read_coords xs ys) = xs /\ map snd (read_coords xs ys) = ys
  /\ forall i x y, nth_error xs i = Some x -> nth_error ys i = Some y -> nth_error (read_coords xs ys) i = Some (x, y).
Proof.
  intros Hx Hy. unfold read_coords. split; [rewrite combine_length; lia |].
  split; [apply map_fst_combine_eq; lia |]. split; [apply map_snd_combine_eq; lia |].
  intros i x y. apply combine_nth_error.
Qed.

(* non-vacuity: the sample file of L_C13_ReadFile is accepted by the repaired reader; its block_maps without an element map *)
Lemma read_checked_nonvacuous :
  (exists r', read_exodus_checked true clash_auto clash_auto clash_auto sample_file = Some r')
  /\ read_block_maps None (rm_blocks (read_exodus true clash_auto clash_auto clash_auto sample_file)) = [(6%Z, [1]); (7%Z, [2])].
Proof. split; [eexists; reflexivity | reflexivity]. Qed.

(* ---- the repository's reader (since ce166ed) in ONE statement: on every well-formed file it either rejects -- exactly when some final
        names coincide -- or returns a mesh in which every file row is an element (in range, 3 / 6 entries), every block / node set / side
        set of the file is stored under its name with all its members, and block_maps give every block its slice of the element number map *)
Theorem read_exodus_checked_whole_file six aB aN aS f : exo_wf six f ->
  match read_exodus_checked six aB aN aS f with
  | None => ~ (NoDup (final_names aB 0 (ef_bnames f)) /\ NoDup (final_names aN 0 (ef_nsnames f)) /\ NoDup (final_names aS 0 (ef_ssnames f)))
  | Some r =>
      (NoDup (final_names aB 0 (ef_bnames f)) /\ NoDup (final_names aN 0 (ef_nsnames f)) /\ NoDup (final_names aS 0 (ef_ssnames f)))
      /\ length (rm_conns r) = list_sum (map (@length _) (ef_blocks f))
      /\ Forall (Forall (fun n => n < ef_nnodes f)) (rm_conns r) /\ Forall (fun row => length row = if six then 6 else 3) (rm_conns r)
      /\ length (rm_blocks r) = length (ef_blocks f) /\ concat (map snd (rm_blocks r)) = seq 0 (length (rm_conns r))
      /\ length (rm_nodesets r) = length (ef_nodesets f) /\ members (rm_nodesets r) = list_sum (map (@length _) (ef_nodesets f))
      /\ length (rm_sidesets r) = length (ef_sidesets f)
      /\ forall emap, (match emap with Some l => length l = length (rm_conns r) | None => True end) ->
           concat (map snd (read_block_maps emap (rm_blocks r))) = match emap with Some l => l | None => seq 1 (length (rm_conns r)) end
  end.
Proof.
  intros Hwf. destruct (read_exodus_checked six aB aN aS f) as [r |] eqn:E.
  - pose proof (proj1 (proj1 (read_exodus_checked_spec six aB aN aS f) r) E) as [(K1 & K2 & K3) ->].
    destruct (read_exodus_elements six aB aN aS f Hwf) as (A1 & _ & A3 & A4).
    destruct (read_exodus_blocks six aB aN aS f Hwf K1) as (_ & _ & B3 & B4).
    destruct (read_exodus_nodesets six aB aN aS f Hwf K2) as (N1 & _).
    destruct (read_exodus_sidesets six aB aN aS f Hwf K3) as (S1 & _).
    split; [auto |]. split; [exact A1 |]. split; [exact A3 |]. split; [exact A4 |]. split; [exact B4 |]. split; [exact B3 |].
    split; [exact N1 |]. split; [| split; [exact S1 |]].
    + unfold read_exodus. cbn [rm_nodesets]. rewrite dict_of_nodup by (try exact K2; rewrite final_names_length, map_length; apply (wf_nsn _ _ Hwf)).
      unfold members. rewrite <- (map_map snd (@length nat)), map_snd_combine_eq by (rewrite final_names_length, map_length; apply (wf_nsn _ _ Hwf)).
      rewrite map_map. f_equal. apply map_ext. intros l. apply to0_length.
    + intros emap Hm. destruct (read_block_maps_spec six aB aN aS f Hwf K1 emap Hm) as (_ & _ & _ & C). exact C.
  - exact (proj1 (proj2 (read_exodus_checked_spec six aB aN aS f)) E).
Qed.
