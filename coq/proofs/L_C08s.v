(* C08 (deepening, round 4, part 3): the hypotheses LogSqrtSpec / PowSpec are THEOREMS for the spectral tensor functions
   V diag(f(lam)) V^T (model/M_C11s.v lss_spec = TensorMath.log_sqrt_symm, model/M_C08s.v pw_spec = TensorMath.pow_symm) over ANY
   eigen-solver that returns an orthogonal eigen-decomposition of every symmetric matrix (solver_ok), because a spectral function does
   not depend on which decomposition the solver returns (L_C11t.spectral_unique).  With the total solver eigh_sym of L_C11e.v (spectral
   theorem for symmetric 3x3 real matrices) the objectivity / isotropy / rest theorems of C08 hold with no hypothesis on the tensor functions. *)
From Coq Require Import Reals Lra QArith List.
From Coquelicot Require Import Coquelicot.
From OV.base Require Import Num.
From OV.gen Require Import Gen_TensorMath Gen_HyperViscoelastic Gen_MultiBranchHyperViscoelastic Gen_ViscoState.
From OV.model Require Import M_C08 M_C08b M_C11 M_C11s M_C08s.
From OV.proofs Require Import L_C08 L_C08b L_C08c L_C08d L_C11a L_C11 L_C11s L_C11t L_C11e L_C11u.
Local Open Scope R_scope.

Lemma cj_conj Q V D : cj (mmul (mtr Q) V) D = conj Q (cj V D).
Proof. unfold cj, conj. rewrite mtr_mmul, mtr_mtr, !mmul_assoc. reflexivity. Qed.
Lemma orth_conj_l Q V : rotation Q -> mmul (mtr V) V = mid -> mmul (mtr (mmul (mtr Q) V)) (mmul (mtr Q) V) = mid.
Proof. intros (_ & H2 & _) HV. rewrite mtr_mmul, mtr_mtr, mmul_assoc, <- (mmul_assoc Q), H2, mmul_id_l. exact HV. Qed.
Lemma orth_conj_r Q V : rotation Q -> mmul V (mtr V) = mid -> mmul (mmul (mtr Q) V) (mtr (mmul (mtr Q) V)) = mid.
Proof. intros (H1 & _ & _) HV. rewrite mtr_mmul, mtr_mtr, mmul_assoc, <- (mmul_assoc V), HV, mmul_id_l. exact H1. Qed.

(* a spectral function commutes with a rotation of its argument *)
Lemma spectral_equivariant (eigh : M -> E3) (f : R -> R) Q A : rotation Q -> eigh_ok eigh A -> eigh_ok eigh (conj Q A) ->
  spectral eigh f (conj Q A) = conj Q (spectral eigh f A).
Proof.
  intros HR. unfold eigh_ok, spectral. destruct (eigh A) as [[[a0 a1] a2] V]. destruct (eigh (conj Q A)) as [[[b0 b1] b2] V'].
  intros (H1 & H2 & HA) (H1' & H2' & HA').
  fold (cj V (mdiag (f a0) (f a1) (f a2))). fold (cj V' (mdiag (f b0) (f b1) (f b2))). rewrite <- cj_conj.
  apply (spectral_unique V' (mmul (mtr Q) V) b0 b1 b2 a0 a1 a2 f H1' H2' (orth_conj_l Q V HR H1) (orth_conj_r Q V HR H2)).
  rewrite cj_conj. unfold cj. rewrite HA, HA'. reflexivity.
Qed.
(* value at a multiple of the identity, whatever decomposition the solver returns *)
Lemma msym_mid : L_C08.msym (@mid R NumR). Proof. unfold L_C08.msym. mat_eq. Qed.
Lemma msym_mzero : L_C08.msym (@mzero R NumR). Proof. unfold L_C08.msym. mat_eq. Qed.
Lemma spectral_at_scalar (eigh : M -> E3) (f : R -> R) c : eigh_ok eigh (mdiag c c c) -> spectral eigh f (mdiag c c c) = mdiag (f c) (f c) (f c).
Proof.
  unfold eigh_ok, spectral. destruct (eigh (mdiag c c c)) as [[[b0 b1] b2] V']. intros (H1' & H2' & HA').
  fold (cj V' (mdiag (f b0) (f b1) (f b2))).
  assert (Hm : mmul (mtr (@mid R NumR)) mid = mid) by mat_eq. assert (Hm' : mmul (@mid R NumR) (mtr mid) = mid) by mat_eq.
  rewrite (spectral_unique V' mid b0 b1 b2 c c c f H1' H2' Hm Hm').
  - unfold cj, mdiag. mat_eq.
  - unfold cj at 1. rewrite HA'. unfold cj, mdiag. mat_eq.
Qed.
Lemma mdiag_111 : mdiag 1 1 1 = @mid R NumR. Proof. reflexivity. Qed.
Lemma mdiag_000 : mdiag 0 0 0 = @mzero R NumR. Proof. reflexivity. Qed.

Lemma msym_conv (A : M) : L_C08.msym A -> L_C11s.msym A. Proof. intros HA; exact HA. Qed.
Lemma conj_msym Q A : L_C08.msym A -> L_C08.msym (conj Q A).
Proof. unfold L_C08.msym. intros HA. rewrite conj_tr, HA. reflexivity. Qed.

Theorem lss_spec_LogSqrtSpec (eigh : M -> E3) : solver_ok eigh -> LogSqrtSpec (lss_spec eigh).
Proof.
  intros Hok. split.
  - intros Q A HR HA. unfold lss_spec. rewrite conj_scal. f_equal.
    apply spectral_equivariant; [exact HR | apply Hok, HA | apply Hok, (conj_msym Q A HA)].
  - unfold lss_spec. rewrite <- mdiag_111, spectral_at_scalar by (rewrite mdiag_111; apply Hok, msym_mid).
    change (@nln R NumR) with ln. rewrite ln_1. unfold mdiag. mat_eq.
Qed.
Lemma nzero_R : @nzero R NumR = 0. Proof. unfold_num. q2r. reflexivity. Qed.
Lemma npowr_1 m : @npowr R NumR 1 m = 1.
Proof.
  unfold npowr. rewrite nzero_R. change (@neqb R NumR) with Reqb. rewrite (proj2 (Reqb_false 1 0)) by lra.
  change (@nexp R NumR) with exp. change (@nln R NumR) with ln. change (@nmul R NumR) with Rmult. rewrite ln_1, Rmult_0_r. apply exp_0.
Qed.
Lemma npowr_0 m : @npowr R NumR 0 m = 0.
Proof. unfold npowr. rewrite nzero_R. change (@neqb R NumR) with Reqb. rewrite (proj2 (Reqb_true 0 0)) by reflexivity. reflexivity. Qed.
Theorem pw_spec_PowSpec (eigh : M -> E3) : solver_ok eigh -> PowSpec (pw_spec eigh).
Proof.
  intros Hok. split.
  - intros Q A m HR HA. unfold pw_spec. apply spectral_equivariant; [exact HR | apply Hok, HA | apply Hok, (conj_msym Q A HA)].
  - intros m. unfold pw_spec. rewrite <- mdiag_111, spectral_at_scalar by (rewrite mdiag_111; apply Hok, msym_mid). rewrite npowr_1. reflexivity.
  - intros m _. unfold pw_spec. rewrite <- mdiag_000, spectral_at_scalar by (rewrite mdiag_000; apply Hok, msym_mzero). rewrite npowr_0. reflexivity.
Qed.

(* with the total solver of L_C11e.v: THE logarithm of the square root and THE power of a symmetric matrix, no hypothesis left *)
Definition pw_R : M -> R -> M := pw_spec eigh_sym.
Theorem lss_R_LogSqrtSpec : LogSqrtSpec lss_R.
Proof. apply lss_spec_LogSqrtSpec, eigh_sym_solver_ok. Qed.
Theorem pw_R_PowSpec : PowSpec pw_R.
Proof. apply pw_spec_PowSpec, eigh_sym_solver_ok. Qed.
Lemma spectral_functions_exist : solver_ok eigh_sym /\ LogSqrtSpec lss_R /\ PowSpec pw_R.
Proof. split; [exact eigh_sym_solver_ok | split; [exact lss_R_LogSqrtSpec | exact pw_R_PowSpec]]. Qed.
(* every solver that meets the contract computes these two functions on symmetric matrices *)
Lemma pw_R_canonical eigh (A : M) m : L_C08.msym A -> eigh_ok eigh A -> pw_spec eigh A m = pw_R A m.
Proof. intros HA Hok. unfold pw_R, pw_spec. apply spectral_solver_independent; [exact Hok | apply eigh_sym_ok, HA]. Qed.

(* lss_R is the matrix logarithm of the square root: exp(2 lss_R C) = C for symmetric positive definite C = F^T F *)
Theorem unconditional_le_log_isotropic p Q H : rotation Q -> E_le_log lss_R p (rotR Q H) = E_le_log lss_R p H.
Proof. intros HR. apply le_log_isotropic; [apply lss_R_LogSqrtSpec | exact HR]. Qed.
Theorem unconditional_j2_log_isotropic p eqps Fp Q H : rotation Q -> mdet Fp <> 0 ->
  E_j2_log lss_R p eqps (conj Q Fp) (rotR Q H) = E_j2_log lss_R p eqps Fp H.
Proof. intros HR Hd. apply j2_log_isotropic; [apply lss_R_LogSqrtSpec | exact HR | exact Hd]. Qed.
Theorem unconditional_j2_seth_hill_isotropic p eqps Ep Q H : rotation Q ->
  E_j2_seth_hill pw_R p eqps (conj Q Ep) (rotR Q H) = E_j2_seth_hill pw_R p eqps Ep H.
Proof. intros HR. apply j2_seth_hill_isotropic; [apply pw_R_PowSpec | exact HR]. Qed.
Theorem unconditional_hv_isotropic p Fv dt Q H : rotation Q -> 0 < JJ H -> mdet Fv <> 0 -> 0 < dt -> (let '(_, _, _, tau) := p in 0 < tau) ->
  E_hv lss_R p (conj Q Fv) dt (rotR Q H) = E_hv lss_R p Fv dt H.
Proof. intros. apply hv_isotropic; try assumption. apply lss_R_LogSqrtSpec. Qed.
Theorem unconditional_mb_isotropic p Fv1 Fv2 Fv3 dt Q H :
  rotation Q -> 0 < JJ H -> mdet Fv1 <> 0 -> mdet Fv2 <> 0 -> mdet Fv3 <> 0 -> 0 < dt -> mb_taus_pos p ->
  E_mb lss_R p (conj Q Fv1) (conj Q Fv2) (conj Q Fv3) dt (rotR Q H) = E_mb lss_R p Fv1 Fv2 Fv3 dt H.
Proof. intros. apply mb_isotropic; try assumption. apply lss_R_LogSqrtSpec. Qed.
Theorem unconditional_pf_log_isotropic p phase g0 g1 g2 Q H : rotation Q ->
  E_pf_log lss_R p phase (m00 Q * g0 + m10 Q * g1 + m20 Q * g2) (m01 Q * g0 + m11 Q * g1 + m21 Q * g2)
           (m02 Q * g0 + m12 Q * g1 + m22 Q * g2) (rotR Q H) = E_pf_log lss_R p phase g0 g1 g2 H.
Proof. intros HR. apply pf_log_isotropic; [apply lss_R_LogSqrtSpec | exact HR]. Qed.
Theorem unconditional_rest_energies p4_ p5_ p6_ p8_ hvp eqps dt : 0 < dt -> (let '(_, _, _, tau) := hvp in 0 < tau) -> mb_taus_pos p8_ ->
  E_le_log lss_R p4_ mzero = 0 /\ E_j2_log lss_R p5_ eqps mid mzero = 0 /\ E_j2_seth_hill pw_R p5_ eqps mzero mzero = 0 /\
  E_hv lss_R hvp mid dt mzero = 0 /\ E_mb lss_R p8_ mid mid mid dt mzero = 0 /\ E_pf_log lss_R p6_ 0 0 0 0 mzero = 0.
Proof.
  intros Hdt Htau Hmb. pose proof lss_R_LogSqrtSpec as HS. pose proof pw_R_PowSpec as HP.
  repeat split; [apply le_log_rest | apply j2_log_rest | apply j2_seth_hill_rest | apply hv_rest | apply mb_rest | apply pf_log_rest]; assumption.
Qed.
