(* C15: Newmark stepping: update formulas from the regenerated predict/correct, balance of momentum = stationarity of the
   algorithmic energy, energy conservation for the trapezoidal parameters, rigid translation, total mass. *)
From Coq Require Import Reals Lra Lia QArith List FunctionalExtensionality.
From Coquelicot Require Import Coquelicot.
From OV.base Require Import Num.
From OV.gen Require Import Gen_Mechanics.
From OV.model Require Import M_C15_Newmark.
Import ListNotations.
Local Open Scope R_scope.

Lemma pair_eq2 (x y x' y' : R) : x = x' -> y = y' -> (x, y) = (x', y').
Proof. intros -> ->. reflexivity. Qed.

(* ---------- the regenerated scalar kernels ---------- *)
Lemma predict_closed g b U V A dt :
  @predict R NumR g b U V A dt = (U + dt * V + dt * dt * (1 / 2 - b) * A, V + dt * (1 - g) * A).
Proof. unfold predict. unfold_num. q2r. cbv zeta. apply pair_eq2; field. Qed.
Lemma correct_closed g b UC V A dt : b <> 0 -> dt <> 0 ->
  @correct R NumR g b UC V A dt = (V + dt * g * (UC / (b * dt * dt)), UC / (b * dt * dt)).
Proof. intros Hb Hdt. unfold correct. unfold_num. q2r. cbv zeta. apply pair_eq2; field; split; assumption. Qed.

(* one step on one degree of freedom: whatever displacement U1 the minimiser returns, the corrected velocity and acceleration
   satisfy the Newmark update formulas *)
Theorem update_formulas g b U0 V0 A0 dt U1 : b <> 0 -> dt <> 0 ->
  let '(Up, Vp) := @predict R NumR g b U0 V0 A0 dt in
  let '(V1, A1) := @correct R NumR g b (U1 - Up) Vp A0 dt in
  A1 = (U1 - Up) / (b * dt * dt) /\
  U1 = U0 + dt * V0 + dt * dt * ((1 / 2 - b) * A0 + b * A1) /\
  V1 = V0 + dt * ((1 - g) * A0 + g * A1).
Proof.
  intros Hb Hdt. rewrite predict_closed, correct_closed by assumption.
  split; [reflexivity|]. split; field; split; assumption.
Qed.

(* ---------- fields over an arbitrary index set ---------- *)
Section Fields.
  Variable I : Type.
  Notation fld := (@field R I).
  Notation "u +f v" := (@fadd R NumR I u v) (at level 50, left associativity).
  Notation "u -f v" := (@fsub R NumR I u v) (at level 50, left associativity).
  Notation "a *f u" := (@fscal R NumR I a u) (at level 40, left associativity).

  Lemma fext (u v : fld) : (forall i, u i = v i) -> u = v.
  Proof. intros H. apply functional_extensionality. exact H. Qed.
  Ltac fring := apply fext; intro; unfold fadd, fsub, fscal, fzero; cbn [nadd nsub nmul NumR]; try ring.

  (* a symmetric bilinear form on fields *)
  Record sbf (m : fld -> fld -> R) : Prop := {
    sbf_add : forall u v w, m (u +f v) w = m u w + m v w;
    sbf_scal : forall a u w, m (a *f u) w = a * m u w;
    sbf_sym : forall u w, m u w = m w u }.

  Section Forms.
    Variables m k : fld -> fld -> R.
    Hypothesis Hm : sbf m.
    Hypothesis Hk : sbf k.

    Lemma m_add_r u v w : m w (u +f v) = m w u + m w v.
    Proof. rewrite (sbf_sym m Hm), (sbf_add m Hm), !(sbf_sym m Hm w). reflexivity. Qed.
    Lemma m_scal_r a u w : m w (a *f u) = a * m w u.
    Proof. rewrite (sbf_sym m Hm), (sbf_scal m Hm), (sbf_sym m Hm w). reflexivity. Qed.
    Lemma k_add_r u v w : k w (u +f v) = k w u + k w v.
    Proof. rewrite (sbf_sym k Hk), (sbf_add k Hk), !(sbf_sym k Hk w). reflexivity. Qed.
    Lemma k_scal_r a u w : k w (a *f u) = a * k w u.
    Proof. rewrite (sbf_sym k Hk), (sbf_scal k Hk), (sbf_sym k Hk w). reflexivity. Qed.
    Lemma fsub_as_add (u v : fld) : u -f v = u +f ((-1) *f v).
    Proof. fring. Qed.
    Lemma m_sub_l u v w : m (u -f v) w = m u w - m v w.
    Proof. rewrite fsub_as_add, (sbf_add m Hm), (sbf_scal m Hm). ring. Qed.
    Lemma k_sub_l u v w : k (u -f v) w = k u w - k v w.
    Proof. rewrite fsub_as_add, (sbf_add k Hk), (sbf_scal k Hk). ring. Qed.

    (* ---- balance of momentum = stationarity of the algorithmic energy ---- *)
    Section Balance.
      Variable SE : fld -> R.                 (* strain energy *)
      Variable dSE : fld -> fld -> R.         (* its directional derivative: internal force tested with w *)
      Hypothesis HdSE : forall U w, is_derive (fun e : R => SE (U +f e *f w)) 0 (dSE U w).
      Variables b dt : R.
      Hypothesis Hb : b <> 0.
      Hypothesis Hdt : dt <> 0.
      Variables Up U1 : fld.
      Definition A_new : fld := (1 / (b * dt * dt)) *f (U1 -f Up).

      Lemma kinetic_part_expand w e :
        m ((U1 +f e *f w) -f Up) ((U1 +f e *f w) -f Up)
        = m (U1 -f Up) (U1 -f Up) + 2 * e * m (U1 -f Up) w + e * e * m w w.
      Proof.
        replace ((U1 +f e *f w) -f Up) with ((U1 -f Up) +f e *f w) by fring.
        rewrite (sbf_add m Hm), !m_add_r, (sbf_scal m Hm), !m_scal_r, (sbf_scal m Hm), (sbf_sym m Hm w (U1 -f Up)). ring.
      Qed.

      Theorem alg_energy_derivative w :
        is_derive (fun e : R => @alg_energy R NumR I SE m b dt Up (U1 +f e *f w)) 0 (dSE U1 w + m A_new w).
      Proof.
        unfold alg_energy. cbn [nadd nmul ndiv NumR]. unfold nunit, nhalf, nZ. cbn [nconst NumR]. unfold Q2R'. cbn [Qnum Qden inject_Z].
        apply (is_derive_ext (fun e : R => SE (U1 +f e *f w) + 1 / (b * (dt * dt)) * (1 / 2 * (m (U1 -f Up) (U1 -f Up) + 2 * e * m (U1 -f Up) w + e * e * m w w)))).
        { intros e. rewrite kinetic_part_expand. reflexivity. }
        apply (is_derive_plus (fun e : R => SE (U1 +f e *f w)) (fun e : R => 1 / (b * (dt * dt)) * (1 / 2 * (m (U1 -f Up) (U1 -f Up) + 2 * e * m (U1 -f Up) w + e * e * m w w)))).
        - apply HdSE.
        - auto_derive; [trivial|]. unfold A_new. rewrite (sbf_scal m Hm). field. split; assumption.
      Qed.

      (* U1 is a stationary point of the algorithmic energy iff the discrete balance of momentum holds with A1 = (U1-Up)/(beta dt^2) *)
      Theorem balance_iff_stationary :
        (forall w, is_derive (fun e : R => @alg_energy R NumR I SE m b dt Up (U1 +f e *f w)) 0 0)
        <-> (forall w, m A_new w + dSE U1 w = 0).
      Proof.
        split; intros H w.
        - pose proof (alg_energy_derivative w) as D. specialize (H w).
          apply is_derive_unique in D. apply is_derive_unique in H. rewrite H in D. lra.
        - pose proof (alg_energy_derivative w) as D. replace (dSE U1 w + m A_new w) with 0 in D by (specialize (H w); lra). exact D.
      Qed.
    End Balance.

    (* the quadratic strain energy of linear elasticity and its derivative *)
    Definition SEq (U : fld) : R := 1 / 2 * k U U.
    Lemma SEq_expand U w (e : R) : SEq (U +f e *f w) = 1 / 2 * (k U U + 2 * e * k U w + e * e * k w w).
    Proof.
      unfold SEq. rewrite (sbf_add k Hk), !k_add_r, (sbf_scal k Hk), !k_scal_r, (sbf_scal k Hk), (sbf_sym k Hk w U). ring.
    Qed.
    Lemma SEq_derive U w : is_derive (fun e : R => SEq (U +f e *f w)) 0 (k U w).
    Proof.
      apply (is_derive_ext (fun e : R => 1 / 2 * (k U U + 2 * e * k U w + e * e * k w w))).
      { intros e. symmetry. apply SEq_expand. }
      auto_derive; [trivial|]. field.
    Qed.

    (* ---- the step of the model in closed form (from the regenerated kernels) ---- *)
    Notation stepR := (@newmark_step R NumR I).
    Lemma step_formulas g b (solve : fld -> R -> fld) (s : @state R I) dt : b <> 0 -> dt <> 0 ->
      let Up := fst (@predictF R NumR I g b (sU s) (sV s) (sA s) dt) in
      let s1 := stepR g b solve s dt in
      sU s1 = solve Up dt /\
      sA s1 = (1 / (b * dt * dt)) *f (sU s1 -f Up) /\
      Up = (fun i => sU s i + dt * sV s i + dt * dt * (1 / 2 - b) * sA s i) /\
      (forall i, sU s1 i = sU s i + dt * sV s i + dt * dt * ((1 / 2 - b) * sA s i + b * sA s1 i)) /\
      (forall i, sV s1 i = sV s i + dt * ((1 - g) * sA s i + g * sA s1 i)).
    Proof.
      intros Hb Hdt. cbv zeta. unfold newmark_step, predictF, correctF. cbn [fst snd sU sV sA].
      split; [reflexivity|]. split; [|split; [|split]].
      - apply fext; intro i. rewrite correct_closed by assumption. cbn [snd]. unfold fscal, fsub. cbn [nsub nmul NumR]. field. split; assumption.
      - apply fext; intro i. rewrite predict_closed. cbn [fst]. ring.
      - intro i. rewrite correct_closed by assumption. cbn [snd]. unfold fsub. cbn [nsub NumR]. rewrite predict_closed. cbn [fst]. field. split; assumption.
      - intro i. rewrite correct_closed by assumption. cbn [fst snd]. unfold fsub. cbn [nsub NumR]. rewrite predict_closed. cbn [fst snd]. field. split; assumption.
    Qed.

    Lemma form_diff_sq (f : fld -> fld -> R) : sbf f -> forall x y, f x x - f y y = f (x +f y) (x -f y).
    Proof.
      intros Hf x y. rewrite fsub_as_add.
      assert (R1 : forall u v w, f w (u +f v) = f w u + f w v).
      { intros u v w. rewrite (sbf_sym f Hf w (u +f v)), (sbf_add f Hf), (sbf_sym f Hf u w), (sbf_sym f Hf v w). reflexivity. }
      assert (R2 : forall a u w, f w (a *f u) = a * f w u).
      { intros a u w. rewrite (sbf_sym f Hf w (a *f u)), (sbf_scal f Hf), (sbf_sym f Hf u w). reflexivity. }
      rewrite R1, R2, !(sbf_add f Hf), (sbf_sym f Hf y x). ring.
    Qed.

    (* ---- energy conservation, trapezoidal parameters, linear elasticity ---- *)
    Definition balanced (s : @state R I) : Prop := forall w, m (sA s) w + k (sU s) w = 0.
    Definition energy (s : @state R I) : R := @total_energy R NumR I SEq m s.
    (* the solver returns a stationary point of the algorithmic energy it is given *)
    Definition stationary_at (b dt : R) (Up U1 : fld) : Prop :=
      forall w, is_derive (fun e : R => @alg_energy R NumR I SEq m b dt Up (U1 +f e *f w)) 0 0.

    Lemma stationary_balance b dt Up U1 : b <> 0 -> dt <> 0 -> stationary_at b dt Up U1 ->
      forall w, m ((1 / (b * dt * dt)) *f (U1 -f Up)) w + k U1 w = 0.
    Proof.
      intros Hb Hdt H. apply (proj1 (balance_iff_stationary SEq k SEq_derive b dt Hb Hdt Up U1)). exact H.
    Qed.

    Theorem energy_step (solve : fld -> R -> fld) (s : @state R I) dt : dt <> 0 ->
      balanced s ->
      stationary_at (1 / 4) dt (fst (@predictF R NumR I (1 / 2) (1 / 4) (sU s) (sV s) (sA s) dt))
                    (solve (fst (@predictF R NumR I (1 / 2) (1 / 4) (sU s) (sV s) (sA s) dt)) dt) ->
      balanced (stepR (1 / 2) (1 / 4) solve s dt) /\ energy (stepR (1 / 2) (1 / 4) solve s dt) = energy s.
    Proof.
      intros Hdt Hbal Hst.
      assert (Hb : 1 / 4 <> 0) by lra.
      destruct (step_formulas (1 / 2) (1 / 4) solve s dt Hb Hdt) as (EU & EA & EUp & FU & FV).
      set (Up := fst (@predictF R NumR I (1 / 2) (1 / 4) (sU s) (sV s) (sA s) dt)) in *.
      set (s1 := stepR (1 / 2) (1 / 4) solve s dt) in *.
      assert (Hbal1 : balanced s1).
      { intros w. rewrite EA. rewrite EU. apply (stationary_balance (1 / 4) dt Up (solve Up dt) Hb Hdt Hst). }
      split; [exact Hbal1|].
      unfold energy, total_energy, SEq. cbn [nadd nmul NumR]. unfold nhalf. cbn [nconst NumR]. unfold Q2R'. cbn [Qnum Qden].
      set (S := sA s +f sA s1).
      assert (EV : sV s1 -f sV s = (dt / 2) *f S).
      { apply fext; intro i. unfold S, fsub, fscal, fadd. cbn [nadd nsub nmul NumR]. rewrite FV. field. }
      assert (ED : sU s1 -f sU s = (dt / 2) *f (sV s1 +f sV s)).
      { apply fext; intro i. unfold fsub, fscal, fadd. cbn [nadd nsub nmul NumR]. rewrite FU, FV. field. }
      pose proof (form_diff_sq m Hm (sV s1) (sV s)) as Tm. rewrite EV in Tm.
      pose proof (form_diff_sq k Hk (sU s1) (sU s)) as Tk.
      (* balance at both ends tested with the displacement increment *)
      pose proof (Hbal (sU s1 -f sU s)) as B0. pose proof (Hbal1 (sU s1 -f sU s)) as B1.
      assert (ES : m S (sU s1 -f sU s) = m (sA s) (sU s1 -f sU s) + m (sA s1) (sU s1 -f sU s)) by (unfold S; apply (sbf_add m Hm)).
      assert (EM : m (sV s1 +f sV s) ((dt / 2) *f S) = m S (sU s1 -f sU s)).
      { rewrite ED, !m_scal_r. rewrite (sbf_sym m Hm S). reflexivity. }
      assert (EK : k (sU s1 +f sU s) (sU s1 -f sU s) = k (sU s) (sU s1 -f sU s) + k (sU s1) (sU s1 -f sU s)).
      { rewrite (sbf_add k Hk). ring. }
      lra.
    Qed.

    (* by induction: every sequence of (non-zero, variable) time steps *)
    Notation runR := (@newmark_run R NumR I).
    Theorem energy_conserved (solve : fld -> R -> fld) : forall (dts : list R) (s : @state R I),
      (forall dt, In dt dts -> dt <> 0) ->
      (forall Up dt, dt <> 0 -> stationary_at (1 / 4) dt Up (solve Up dt)) ->
      balanced s ->
      energy (runR (1 / 2) (1 / 4) solve s dts) = energy s /\ balanced (runR (1 / 2) (1 / 4) solve s dts).
    Proof.
      induction dts as [|dt r IH]; intros s Hnz Hsolve Hbal; cbn [newmark_run]; [split; [reflexivity|exact Hbal]|].
      assert (Hdt : dt <> 0) by (apply Hnz; left; reflexivity).
      destruct (energy_step solve s dt Hdt Hbal (Hsolve _ dt Hdt)) as [B1 E1].
      destruct (IH (stepR (1 / 2) (1 / 4) solve s dt)) as [E2 B2]; [intros; apply Hnz; right; assumption|exact Hsolve|exact B1|].
      split; [rewrite E2; exact E1|exact B2].
    Qed.

    (* ---- rigid translation at constant velocity ---- *)
    Section Translation.
      Variables (g b dt : R) (U0 c : fld) (solve : fld -> R -> fld).
      Hypothesis Hb : 0 < b.
      Hypothesis Hdt : dt <> 0.
      Hypothesis m_pos : forall x, 0 <= m x x.
      Hypothesis m_def : forall x, m x x = 0 -> x = (@fzero R NumR I).
      Hypothesis k_psd : forall x, 0 <= k x x.
      Hypothesis kU0 : forall w, k U0 w = 0.          (* the current configuration carries no internal force *)
      Hypothesis kc : forall w, k c w = 0.            (* K c = 0: the velocity field is a rigid translation *)
      Let s0 := @mkState R I U0 c (@fzero R NumR I).
      Let Up := fst (@predictF R NumR I g b U0 c (@fzero R NumR I) dt).
      Hypothesis Hst : stationary_at b dt Up (solve Up dt).

      Lemma Up_translation : Up = U0 +f dt *f c.
      Proof.
        unfold Up, predictF. cbn [fst]. apply fext; intro i. rewrite predict_closed. cbn [fst].
        unfold fadd, fscal, fzero, nzero, nZ. cbn [nadd nmul nconst NumR]. unfold Q2R'. cbn [Qnum Qden inject_Z]. ring.
      Qed.

      Theorem rigid_translation_exact :
        let s1 := stepR g b solve s0 dt in
        sU s1 = U0 +f dt *f c /\ sV s1 = c /\ sA s1 = (@fzero R NumR I).
      Proof.
        cbv zeta. assert (Hb' : b <> 0) by lra.
        destruct (step_formulas g b solve s0 dt Hb' Hdt) as (EU & EA & _ & FU & FV).
        cbn [sU sV sA s0] in *.
        set (s1 := stepR g b solve s0 dt) in *.
        assert (EU' : sU s1 = solve Up dt) by exact EU.
        assert (EA' : sA s1 = (1 / (b * dt * dt)) *f (sU s1 -f Up)) by exact EA.
        clear EU EA. rename EU' into EU. rename EA' into EA.
        set (D := sU s1 -f Up).
        pose proof (stationary_balance b dt Up (solve Up dt) Hb' Hdt Hst D) as B. rewrite <- EU in B. fold D in B.
        assert (EU1 : sU s1 = Up +f D) by (unfold D; apply fext; intro i; unfold fadd, fsub; cbn [nadd nsub NumR]; ring).
        assert (KU : k (sU s1) D = k D D).
        { rewrite EU1 at 1. rewrite (sbf_add k Hk), Up_translation, (sbf_add k Hk), (sbf_scal k Hk), kU0, kc. ring. }
        rewrite (sbf_scal m Hm), KU in B.
        assert (P : 0 < 1 / (b * dt * dt)).
        { assert (Hsq : 0 < dt * dt) by (destruct (Rtotal_order dt 0) as [H|[H|H]]; [nra|lra|nra]).
          assert (0 < b * dt * dt) by nra. apply Rdiv_lt_0_compat; lra. }
        assert (MD : m D D = 0).
        { pose proof (m_pos D). pose proof (k_psd D). assert (0 <= 1 / (b * dt * dt) * m D D) by (apply Rmult_le_pos; lra). nra. }
        assert (D0 : D = (@fzero R NumR I)) by (apply m_def; exact MD).
        assert (A0 : sA s1 = (@fzero R NumR I)).
        { rewrite EA. fold D. rewrite D0. apply fext; intro i. unfold fscal, fzero, nzero, nZ. cbn [nmul nconst NumR]. unfold Q2R'. cbn [Qnum Qden inject_Z]. ring. }
        split; [rewrite EU1, D0, Up_translation; apply fext; intro i; unfold fadd, fscal, fzero, nzero, nZ; cbn [nadd nmul nconst NumR]; unfold Q2R'; cbn [Qnum Qden inject_Z]; ring|].
        split; [|exact A0].
        apply fext; intro i. rewrite FV, A0. unfold fzero, nzero, nZ. cbn [nconst NumR]. unfold Q2R'. cbn [Qnum Qden inject_Z]. ring.
      Qed.
    End Translation.
  End Forms.
End Fields.

(* ---------- one degree of freedom: witnesses ---------- *)
Definition m1 (u v : unit -> R) : R := u tt * v tt.
Lemma sbf_m1 : sbf unit m1.
Proof. split; intros; unfold m1, fadd, fscal; cbn [nadd nmul NumR]; ring. Qed.
Lemma field1_ext (u v : unit -> R) : u tt = v tt -> u = v.
Proof. intros H. apply functional_extensionality. intros []. exact H. Qed.

Lemma stationary1 (b dt : R) (Up U1 : unit -> R) : b <> 0 -> dt <> 0 ->
  1 / (b * dt * dt) * (U1 tt - Up tt) + U1 tt = 0 -> stationary_at unit m1 m1 b dt Up U1.
Proof.
  intros Hb Hdt H. unfold stationary_at.
  apply (proj2 (balance_iff_stationary unit m1 sbf_m1 (SEq unit m1) m1 (SEq_derive unit m1 sbf_m1) b dt Hb Hdt Up U1)).
  intros w. unfold A_new, m1, fscal, fsub. cbn [nsub nmul NumR].
  match goal with |- ?l = 0 => replace l with ((1 / (b * dt * dt) * (U1 tt - Up tt) + U1 tt) * w tt) by ring end. rewrite H. ring.
Qed.

(* the consistency premise on the initial acceleration cannot be dropped: unit mass and stiffness, U0 = 1, V0 = 0, A0 = 0
   (so M A0 + K U0 = 1 <> 0), dt = 1, exact minimiser U1 = 4/5: the energy goes from 1/2 to 2/5 *)
Theorem needs_consistent_A0_refuted :
  exists (s : @state R unit) (solve : (unit -> R) -> R -> (unit -> R)) (dt : R),
    dt <> 0 /\
    stationary_at unit m1 m1 (1 / 4) dt (fst (@predictF R NumR unit (1 / 2) (1 / 4) (sU s) (sV s) (sA s) dt))
                  (solve (fst (@predictF R NumR unit (1 / 2) (1 / 4) (sU s) (sV s) (sA s) dt)) dt) /\
    ~ balanced unit m1 m1 s /\
    energy unit m1 m1 (@newmark_step R NumR unit (1 / 2) (1 / 4) solve s dt) <> energy unit m1 m1 s.
Proof.
  exists (mkState (fun _ => 1) (fun _ => 0) (fun _ => 0)), (fun _ _ _ => 4 / 5), 1.
  split; [lra|]. split; [|split].
  - apply stationary1; try lra. unfold predictF. cbn [fst sU sV sA]. rewrite predict_closed. cbn [fst]. lra.
  - intros H. specialize (H (fun _ => 1)). unfold m1 in H. cbn [sU sA] in H. lra.
  - unfold energy, total_energy, SEq, m1, newmark_step, predictF, correctF. cbn [sU sV sA fst snd].
    rewrite !correct_closed by lra. rewrite !predict_closed. cbn [fst snd]. unfold fsub. cbn [nadd nsub nmul NumR].
    unfold nhalf. cbn [nconst NumR]. unfold Q2R'. cbn [Qnum Qden]. rewrite ?predict_closed. cbn [fst snd]. lra.
Qed.

(* the hypotheses of energy_conserved are satisfiable: unit mass and stiffness, exact minimiser, consistent start *)
Lemma energy_hypotheses_satisfiable :
  exists (s : @state R unit) (solve : (unit -> R) -> R -> (unit -> R)),
    balanced unit m1 m1 s /\ (forall Up dt, dt <> 0 -> stationary_at unit m1 m1 (1 / 4) dt Up (solve Up dt)) /\
    energy unit m1 m1 s = 1.
Proof.
  exists (mkState (fun _ => 1) (fun _ => 1) (fun _ => -1)), (fun Up dt _ => 4 * Up tt / (dt * dt + 4)).
  split; [|split].
  - intros w. unfold m1. cbn [sU sA]. ring.
  - intros Up dt Hdt. apply stationary1; try lra. assert (0 < dt * dt + 4) by nra. field. split; lra.
  - unfold energy, total_energy, SEq, m1. cbn [sU sV nadd nmul NumR]. unfold nhalf. cbn [nconst NumR]. unfold Q2R'. cbn [Qnum Qden]. lra.
Qed.

(* ---------- kinetic energy of a finite-element field and total mass ---------- *)
Notation nsumR := (@nsum R NumR).
Lemma nsumR_cons x l : nsumR (x :: l) = x + nsumR l.
Proof. reflexivity. Qed.
Lemma nsumR_nil : nsumR [] = 0.
Proof. cbn [nsum]. unfold nzero, nZ. cbn [nconst NumR]. unfold Q2R'. cbn [Qnum Qden inject_Z]. reflexivity. Qed.

Lemma interp2_const (N : list R) vx vy : forall n, length N = n ->
  @interp2 R NumR N (repeat (vx, vy) n) = (nsumR N * vx, nsumR N * vy).
Proof.
  induction N as [|a N IH]; intros n Hn; destruct n; try discriminate; cbn [interp2 repeat].
  - rewrite nsumR_nil. unfold nzero, nZ. cbn [nconst NumR]. unfold Q2R'. cbn [Qnum Qden inject_Z]. apply pair_eq2; ring.
  - rewrite (IH n) by (cbn [length] in Hn; lia). rewrite nsumR_cons. cbn [nadd nmul NumR]. apply pair_eq2; ring.
Qed.

(* partition of unity at every quadrature point => a rigid velocity (vx,vy) has kinetic energy 1/2 rho area |v|^2 *)
Theorem kinetic_energy_rigid rho (qp : list (R * list R)) n vx vy :
  (forall q, In q qp -> length (snd q) = n /\ nsumR (snd q) = 1) ->
  @kinetic_energy R NumR rho qp (repeat (vx, vy) n) = 1 / 2 * rho * nsumR (map fst qp) * (vx * vx + vy * vy).
Proof.
  intros H. unfold kinetic_energy. induction qp as [|[w N] r IH]; cbn [map fst].
  - rewrite !nsumR_nil. ring.
  - rewrite !nsumR_cons. rewrite IH by (intros; apply H; right; assumption).
    destruct (H (w, N) (or_introl eq_refl)) as [Hl Hs]. cbn [snd] in *.
    rewrite (interp2_const N vx vy n Hl), Hs. unfold kinetic_energy_density. unfold_num. q2r. field.
Qed.

(* total of the consistent mass matrix of one velocity component = rho * area *)
Lemma nsumR_map_add {A} (f g : A -> R) l : nsumR (map (fun a => f a + g a) l) = nsumR (map f l) + nsumR (map g l).
Proof. induction l as [|a l IH]; cbn [map]; [rewrite !nsumR_nil; ring|]. rewrite !nsumR_cons, IH. ring. Qed.
Lemma nsumR_map_scal {A} c (f : A -> R) l : nsumR (map (fun a => c * f a) l) = c * nsumR (map f l).
Proof. induction l as [|a l IH]; cbn [map]; [rewrite !nsumR_nil; ring|]. rewrite !nsumR_cons, IH. ring. Qed.
Lemma nsumR_map_ext {A} (f g : A -> R) l : (forall a, f a = g a) -> nsumR (map f l) = nsumR (map g l).
Proof. intros H. induction l as [|a l IH]; cbn [map]; [reflexivity|]. rewrite !nsumR_cons, IH, H. reflexivity. Qed.
Lemma nsumR_nth (N : list R) : nsumR (map (fun a => nth a N 0) (seq 0 (length N))) = nsumR N.
Proof.
  induction N as [|x N IH]; cbn [length seq map]; [reflexivity|].
  rewrite !nsumR_cons. cbn [nth]. rewrite <- seq_shift, map_map. cbn [nth]. rewrite IH. reflexivity.
Qed.

Lemma nsumR_map_zero {A} (f : A -> R) l : (forall a, f a = 0) -> nsumR (map f l) = 0.
Proof. intros H. induction l as [|a l IH]; cbn [map]; [apply nsumR_nil|]. rewrite nsumR_cons, IH, H. ring. Qed.

Definition Gm (rho : R) (a b : nat) (q : R * list R) : R := fst q * rho * (nth a (snd q) 0 * nth b (snd q) 0).
Lemma mass_total_R rho qp n :
  @mass_total R NumR rho qp n = nsumR (map (fun a => nsumR (map (fun b => nsumR (map (Gm rho a b) qp)) (seq 0 n))) (seq 0 n)).
Proof.
  unfold mass_total, mass_entry. apply nsumR_map_ext; intro a. apply nsumR_map_ext; intro b. apply nsumR_map_ext; intros [w N].
  unfold Gm. cbn [fst snd]. unfold nzero, nZ. cbn [nmul nconst NumR]. unfold Q2R'. cbn [Qnum Qden inject_Z]. ring.
Qed.

Theorem mass_total_is_rho_area rho (qp : list (R * list R)) n :
  (forall q, In q qp -> length (snd q) = n /\ nsumR (snd q) = 1) ->
  @mass_total R NumR rho qp n = rho * nsumR (map fst qp).
Proof.
  intros H. rewrite mass_total_R.
  induction qp as [|[w N] r IH]; cbn [map fst].
  - rewrite nsumR_nil, Rmult_0_r. apply nsumR_map_zero; intro a. apply nsumR_map_zero; intro b. apply nsumR_nil.
  - destruct (H (w, N) (or_introl eq_refl)) as [Hl Hs]. cbn [snd] in *.
    rewrite (nsumR_map_ext _ (fun a => nsumR (map (fun b => Gm rho a b (w, N)) (seq 0 n))
                                        + nsumR (map (fun b => nsumR (map (Gm rho a b) r)) (seq 0 n)))).
    2:{ intros a. rewrite <- nsumR_map_add. apply nsumR_map_ext. intros b. apply nsumR_cons. }
    rewrite nsumR_map_add, nsumR_cons, IH by (intros q Hq; apply H; right; exact Hq).
    assert (E : nsumR (map (fun a => nsumR (map (fun b => Gm rho a b (w, N)) (seq 0 n))) (seq 0 n)) = w * rho).
    { unfold Gm. cbn [fst snd].
      rewrite (nsumR_map_ext _ (fun a => (w * rho) * nth a N 0)).
      - rewrite nsumR_map_scal. rewrite <- Hl, nsumR_nth, Hs. ring.
      - intros a. rewrite (nsumR_map_ext _ (fun b => (w * rho * nth a N 0) * nth b N 0)) by (intros; ring).
        rewrite nsumR_map_scal. rewrite <- Hl, nsumR_nth, Hs. ring. }
    rewrite E. ring.
Qed.

(* hypotheses of the mass theorems are satisfiable: one quadrature point, two nodes with shape values 1/4, 3/4 *)
Lemma mass_hypotheses_satisfiable : forall q, In q [(2, [1 / 4; 3 / 4])] -> length (snd q) = 2%nat /\ nsumR (snd q) = 1.
Proof. intros q [<-|[]]. cbn [snd length]. split; [reflexivity|]. rewrite !nsumR_cons, nsumR_nil. lra. Qed.

(* ---------- rigid translation over any sequence of steps ---------- *)
Section TranslationRun.
  Variable I : Type.
  Variables m k : @field R I -> @field R I -> R.
  Hypothesis Hm : sbf I m.
  Hypothesis Hk : sbf I k.
  Variables (g b : R) (c : @field R I) (solve : @field R I -> R -> @field R I).
  Hypothesis Hb : 0 < b.
  Hypothesis m_pos : forall x, 0 <= m x x.
  Hypothesis m_def : forall x, m x x = 0 -> x = (@fzero R NumR I).
  Hypothesis k_psd : forall x, 0 <= k x x.
  Hypothesis kc : forall w, k c w = 0.
  Hypothesis Hsolve : forall Up dt, dt <> 0 -> stationary_at I m k b dt Up (solve Up dt).

  Lemma state_eta (s : @state R I) : s = mkState (sU s) (sV s) (sA s).
  Proof. destruct s; reflexivity. Qed.

  Theorem rigid_translation_run : forall (dts : list R) (U0 : @field R I),
    (forall dt, In dt dts -> dt <> 0) -> (forall w, k U0 w = 0) ->
    @newmark_run R NumR I g b solve (mkState U0 c (@fzero R NumR I)) dts
    = mkState (@fadd R NumR I U0 (@fscal R NumR I (fold_right Rplus 0 dts) c)) c (@fzero R NumR I).
  Proof.
    induction dts as [|dt r IH]; intros U0 Hnz HU0; cbn [newmark_run fold_right].
    - f_equal. apply functional_extensionality; intro i. unfold fadd, fscal. cbn [nadd nmul NumR]. ring.
    - assert (Hdt : dt <> 0) by (apply Hnz; left; reflexivity).
      destruct (rigid_translation_exact I m k Hm Hk g b dt U0 c solve Hb Hdt m_pos m_def k_psd HU0 kc (Hsolve _ dt Hdt)) as (EU & EV & EA).
      rewrite (state_eta (@newmark_step R NumR I g b solve (mkState U0 c (@fzero R NumR I)) dt)), EU, EV, EA.
      rewrite IH.
      + f_equal. apply functional_extensionality; intro i. unfold fadd, fscal. cbn [nadd nmul NumR]. ring.
      + intros; apply Hnz; right; assumption.
      + intros w. rewrite (sbf_add I k Hk), (sbf_scal I k Hk), HU0, kc. ring.
  Qed.
End TranslationRun.

(* the hypotheses of rigid_translation_run are satisfiable: unit mass, zero stiffness (free body), exact minimiser U1 = Up *)
Definition k0 (u v : unit -> R) : R := 0.
Lemma translation_hypotheses_satisfiable :
  sbf unit m1 /\ sbf unit k0 /\ (forall x, 0 <= m1 x x) /\ (forall x, m1 x x = 0 -> x = @fzero R NumR unit) /\ (forall x, 0 <= k0 x x) /\
  (forall c w, k0 c w = 0) /\
  (forall b, b <> 0 -> forall Up dt, dt <> 0 -> stationary_at unit m1 k0 b dt Up ((fun Up _ => Up) Up dt)).
Proof.
  assert (Hk0 : sbf unit k0) by (split; intros; unfold k0; ring).
  split; [exact sbf_m1|]. split; [exact Hk0|]. split; [intros x; unfold m1; nra|]. split; [|split; [intros; unfold k0; lra|split; [reflexivity|]]].
  - intros x Hx. apply field1_ext. unfold m1 in Hx. unfold fzero, nzero, nZ. cbn [nconst NumR]. unfold Q2R'. cbn [Qnum Qden inject_Z]. nra.
  - intros b Hb Up dt Hdt. unfold stationary_at.
    apply (proj2 (balance_iff_stationary unit m1 sbf_m1 (SEq unit k0) k0 (SEq_derive unit k0 Hk0) b dt Hb Hdt Up Up)).
    intros w. unfold A_new, m1, k0, fscal, fsub. cbn [nsub nmul NumR]. ring.
Qed.
