(* C17, derivative clause: lemmas over the kernels regenerated from find_root's jax.lax.custom_root call
   (gen/Gen_C17FindRoot.v, tools/vlib/extract_c17.py): the tangent solve, what find_root does to custom_root's result,
   and the wiring of the call.  jax.lax.custom_root's forward rule (jax/_src/lax/control_flow/solves.py:_root_jvp) is
       solution_dot = - tangent_solve (linearisation of f in x at the returned solution) (d_params f . params_dot)
   whatever path the solve took to the solution; model/M_C17.v:root_jvp is that expression over the generated tangent solve. *)
From Coq Require Import Reals Lra Lia ZArith QArith Bool List Psatz FunctionalExtensionality.
From Coquelicot Require Import Coquelicot.
From OV.base Require Import Num.
From OV.gen Require Import Gen_ScalarRootFind Gen_C17FindRoot.
From OV.model Require Import M_C17 M_C17d.
From OV.proofs Require Import L_C17.
Import ListNotations.
Local Open Scope R_scope.

(* ---------- the generated tangent solve: for EVERY non-zero slope (however small) it divides by the slope ---------- *)
Lemma gen_tangent_solve (s y : R) : s <> 0 -> Gen_C17FindRoot.tangent_solve (T:=R) (fun dx => s * dx) y = y / s.
Proof.
  intros Hs. unfold Gen_C17FindRoot.tangent_solve. cbv zeta. unfold_num. q2r.
  rcases; try (field; repeat split; first [assumption | lra]); try lra.
Qed.

(* ... hence it inverts any linear map with non-zero slope: g (tangent_solve g y) = y *)
Lemma gen_tangent_solve_inverts (g : R -> R) (y : R) : (forall t, g t = g 1 * t) -> g 1 <> 0 ->
  g (Gen_C17FindRoot.tangent_solve (T:=R) g y) = y /\ Gen_C17FindRoot.tangent_solve (T:=R) g y = y / g 1.
Proof.
  intros Hl H1.
  assert (E : g = fun dx => g 1 * dx) by (apply functional_extensionality; exact Hl).
  assert (E2 : Gen_C17FindRoot.tangent_solve (T:=R) g y = y / g 1) by (rewrite E at 1; apply gen_tangent_solve; exact H1).
  split; [|exact E2]. rewrite E2, Hl. field. exact H1.
Qed.

(* no threshold: slopes of any magnitude 10^-k (the residual may be expressed in arbitrarily small units) *)
Lemma gen_tangent_solve_scale_invariant (c s y : R) : c <> 0 -> s <> 0 ->
  Gen_C17FindRoot.tangent_solve (T:=R) (fun dx => (c * s) * dx) (c * y) = Gen_C17FindRoot.tangent_solve (T:=R) (fun dx => s * dx) y.
Proof.
  intros Hc Hs. rewrite !gen_tangent_solve; try assumption; [field; split; assumption|].
  apply Rmult_integral_contrapositive_currified; assumption.
Qed.

(* ---------- custom_root's forward rule over the generated tangent solve ---------- *)
Lemma root_jvp_value (fx fp dp : R) : fx <> 0 -> @root_jvp R NumR fx fp dp = - (fp * dp) / fx.
Proof.
  intros H. unfold root_jvp. unfold_num. rewrite gen_tangent_solve by exact H. field. exact H.
Qed.

(* ---------- find_root returns what custom_root returns, untouched ---------- *)
Lemma gen_find_root_post_id (f : R -> R) (x aux x0 b0 b1 mi xt rt : R) :
  find_root_post (T:=R) f x aux x0 b0 b1 mi xt rt = (x, aux).
Proof.
  unfold find_root_post. cbv zeta. unfold_num. q2r. try reflexivity.
  all: rcases; try reflexivity; f_equal; lra.
Qed.

Lemma find_root_post_derive (f : R -> R) (aux x0 b0 b1 mi xt rt : R) (v : R) :
  is_derive (fun u => fst (find_root_post (T:=R) f u aux x0 b0 b1 mi xt rt)) v 1.
Proof.
  apply is_derive_ext with (f := fun u : R => u).
  - intros t. rewrite gen_find_root_post_id. reflexivity.
  - apply (is_derive_id v).
Qed.

Lemma wiring_ok : custom_root_wiring_ok = true.
Proof. reflexivity. Qed.

(* ---------- the derivative of the value find_root returns, in one statement ----------
   find_root's first output as a function of the parameter p:  p |-> fst (find_root_post (root p) ...), where root p is what
   custom_root returns; custom_root's rule gives root' = root_jvp (d_x F) (d_p F) 1 at the RETURNED solution.  If the returned
   solutions are roots of F(., p) near p0 (interior root, or a bracket end that is a root), F is differentiable at the solution
   with d_x F <> 0 and the root map is differentiable, then the rule's value IS the derivative of find_root's output, and it is
   the implicit-function-theorem value -d_p F / d_x F. *)
Lemma find_root_derivative (F : R -> R -> R) (root : R -> R) (p0 a b dx : R) (f : R -> R) (aux x0 b0 b1 mi xt rt : R) :
  locally p0 (fun p => F (root p) p = 0) ->
  filterdiff (fun xp : R * R => F (fst xp) (snd xp)) (locally (root p0, p0)) (fun h => a * fst h + b * snd h) ->
  is_derive root p0 dx -> a <> 0 ->
  is_derive (fun p => fst (find_root_post (T:=R) f (root p) aux x0 b0 b1 mi xt rt)) p0 (@root_jvp R NumR a b 1) /\
  @root_jvp R NumR a b 1 = - b / a.
Proof.
  intros H1 H2 H3 Ha.
  destruct (ift_with_tangent_solve F root p0 a b dx H1 H2 H3 Ha) as (Hdx & _).
  assert (Hv : @root_jvp R NumR a b 1 = - b / a) by (rewrite root_jvp_value by exact Ha; field; exact Ha).
  split; [|exact Hv]. rewrite Hv, <- Hdx.
  apply is_derive_ext with (f := root); [|exact H3].
  intros t. rewrite gen_find_root_post_id. reflexivity.
Qed.

(* ---------- end-point roots: the returned value IS the bracket end, find_root's post-processing is differentiable there
   with derivative 1 (no clamp), and custom_root's rule evaluated at the end gives the implicit-function value ---------- *)
Lemma endpoint_root_derivative (f df fp : R -> R) x_tol r_tol n x0 b0 b1 x cv it Fv dxv w (aux : R) :
  rtsafe f df x0 b0 b1 n x_tol r_tol = Res x cv it Fv dxv w ->
  (Rabs (f b1) <= r_tol \/ (Rabs (f b0) <= r_tol /\ r_tol < Rabs (f b1))) ->
  exists v, x = Some v /\ it = 0 /\ cv = true /\
    ((Rabs (f b1) <= r_tol /\ v = b1) \/ (r_tol < Rabs (f b1) /\ v = b0)) /\
    fst (find_root_post (T:=R) f v aux x0 b0 b1 (INR n) x_tol r_tol) = v /\
    is_derive (fun u => fst (find_root_post (T:=R) f u aux x0 b0 b1 (INR n) x_tol r_tol)) v 1 /\
    (df v <> 0 -> @root_jvp R NumR (df v) (fp v) 1 = - fp v / df v).
Proof.
  intros Hr He.
  destruct (result_contract f df x_tol r_tol n x0 b0 b1 x cv it Fv dxv w Hr) as (Hx & _ & _ & H1 & H0 & _).
  assert (Hv : exists v, x = Some v /\ it = 0 /\ ((Rabs (f b1) <= r_tol /\ v = b1) \/ (r_tol < Rabs (f b1) /\ v = b0))).
  { destruct He as [A|(A & B)].
    - destruct (H1 A) as (E1 & E2). exists b1. auto.
    - destruct (H0 A B) as (E1 & E2). exists b0. auto. }
  destruct Hv as (v & Ex & Eit & Hv). exists v.
  split; [exact Ex|]. split; [exact Eit|]. split; [apply Hx; rewrite Ex; discriminate|]. split; [exact Hv|].
  split; [rewrite gen_find_root_post_id; reflexivity|]. split; [apply find_root_post_derive|].
  intros Hd. rewrite root_jvp_value by exact Hd. field. exact Hd.
Qed.

(* non-vacuity of the tiny-slope clause: slope 10^-14 (the residual 1e-14 (x^3 - a) at its root has slope 6.24e-14) *)
Lemma tiny_slope_nonvacuous : Gen_C17FindRoot.tangent_solve (T:=R) (fun dx => (1 / 100000000000000) * dx) (1 / 100000000000000) = 1.
Proof. rewrite gen_tangent_solve by lra. field. Qed.
