(* C01 -- the NaN-rejection mechanism of trust_region_minimize (model/M_C01_TR.v), default mode.
   Over ANY number type with a predicate isnan obeying the IEEE laws "an arithmetic operation with a NaN operand is NaN" (for the
   operations rho is made of: -, unary -, /) and "every comparison with a NaN is false" (Section hypotheses):
     if the measured objective change realObjective is NaN (in particular if the trial point's objective value is NaN) then rho is NaN
     (as a quotient, or as 0/0-like ENaN), hence `rho >= eta1` and `rho >= 0` are false: the step is NOT accepted, and
     `not rho >= eta2` is true: the radius shrinks by t1 -- whatever the model objective, the residual norms and the settings;
     consequently no Accept event of any run carries a NaN objective value: a NaN-valued trial point is never accepted.
   The laws are then PROVED for binary64 (PrimFloat with the FloatAxioms specification, isnan = PrimFloat.is_nan), which gives the
   statements for the binary64 instance of the model -- the one that is executed against the implementation -- for arbitrary oracles. *)
From Coq Require Import ZArith List Bool Floats.
From OV.base Require Import Num.
From OV.model Require Import M_C06_Vec M_C06_CG M_C01_TR.
Import ListNotations.

Section NaN.
  Context {T : Type} {NT : Num T}.
  Variable isnan : T -> bool.
  Hypothesis nan_sub_l : forall a b, isnan a = true -> isnan (nsub a b) = true.
  Hypothesis nan_opp : forall a, isnan a = true -> isnan (nopp a) = true.
  Hypothesis nan_div_l : forall a b, isnan a = true -> isnan (ndiv a b) = true.
  Hypothesis nan_ltb_l : forall a b, isnan a = true -> nltb a b = false.
  Hypothesis nan_ltb_r : forall a b, isnan b = true -> nltb a b = false.
  Hypothesis nan_leb_r : forall a b, isnan b = true -> nleb a b = false.

  Definition ext_nan (r : ext T) : bool := match r with Fin q => isnan q | ENaN => true | _ => false end.

  Lemma ediv_nan num den : isnan num = true -> ext_nan (ediv num den) = true.
  Proof.
    intros H. unfold ediv. destruct (neqb den nzero).
    - assert (Hs : isnan (if nltb (ndiv nunit den) nzero then nopp num else num) = true)
        by (destruct (nltb (ndiv nunit den) nzero); auto).
      rewrite (nan_ltb_r _ _ Hs), (nan_ltb_l _ _ Hs). reflexivity.
    - cbn. auto.
  Qed.
  Lemma ege_nan r thr : ext_nan r = true -> ege r thr = false.
  Proof. destruct r; cbn; try discriminate; auto. Qed.
  Lemma egt_nan r thr : ext_nan r = true -> egt r thr = false.
  Proof. destruct r; cbn; try discriminate; auto. Qed.

  Lemma rho_nan mo ro : isnan ro = true -> ext_nan (rho_of mo ro) = true.
  Proof. intros H. unfold rho_of. destruct (nltb nzero mo); apply ediv_nan; auto. Qed.

  Variable value : list T -> T.
  Variable grad : list T -> list T.
  Variable hessvec precond mult_approx : list T -> list T -> list T.
  Variable S : settings T.

  (* a NaN measured change is never accepted and always shrinks the radius *)
  Lemma nan_change_rejected mo ro rn gn stepType tr : isnan ro = true ->
    will_accept S (rho_of mo ro) rn gn = false /\ new_radius S (rho_of mo ro) stepType tr = nmul tr (s_t1 S).
  Proof.
    intros H. pose proof (rho_nan mo _ H) as Hr. unfold will_accept, new_radius.
    rewrite !(ege_nan _ _ Hr). split; reflexivity.
  Qed.

  (* ---- along a run: no Accept event carries a NaN objective value (default mode) *)
  Definition no_nan_accept (e : event T) : Prop := match e with EAccept _ o => isnan o = false | _ => True end.
  Definition events_of (o : @inner_out T) : list (event T) := match o with IReturn _ _ ev => ev | IContinue _ ev => ev | IFuel ev => ev end.

  Lemma events_prepend ev o : events_of (prepend ev o) = ev ++ events_of o.
  Proof. destruct o; reflexivity. Qed.

  Hypothesis default_mode : s_use_incremental S = false.

  Lemma inner_no_nan_accept fuel : forall s cp qn stepType cgIters,
    Forall no_nan_accept (events_of (@inner T NT value grad hessvec mult_approx S fuel s cp qn stepType cgIters)).
  Proof.
    induction fuel as [|fuel IH]; intros s cp qn stepType cgIters.
    - cbn. repeat constructor.
    - cbn [inner].
      match goal with |- context [nltb (vdot (grad ?yy) (grad ?yy)) _] => set (y := yy) end.
      destruct (nltb (vdot (grad y) (grad y)) (tol2 S)); [cbn; repeat constructor|].
      match goal with |- context [will_accept S ?r ?a ?b] => destruct (will_accept S r a b) eqn:Hacc end.
      + assert (Hv : isnan (value y) = false).
        { destruct (isnan (value y)) eqn:Hn; [|reflexivity]. exfalso.
          unfold real_objective in Hacc. rewrite default_mode in Hacc.
          match type of Hacc with will_accept _ (rho_of ?mo ?ro) ?rn ?gn = true =>
            destruct (nan_change_rejected mo ro rn gn stepType (c_tr s) (nan_sub_l _ _ Hn)) as [Hr _]; congruence end. }
        match goal with |- context [nltb ?a (s_min_tr_size S)] => destruct (nltb a (s_min_tr_size S)) end;
          match goal with |- context [orb ?a ?b] => destruct (orb a b) end; cbn; repeat constructor; exact Hv.
      + match goal with |- context [nltb ?a (s_min_tr_size S)] => destruct (nltb a (s_min_tr_size S)) end.
        * destruct (negb (c_tried s)); match goal with |- context [orb ?a ?b] => destruct (orb a b) end; cbn; repeat constructor.
        * rewrite events_prepend. apply Forall_app. split; [|apply IH].
          match goal with |- context [orb ?a ?b] => destruct (orb a b) end; repeat constructor.
  Qed.

  Lemma outer_no_nan_accept iters fuel : forall s,
    Forall no_nan_accept (snd (@outer T NT value grad hessvec precond mult_approx S iters fuel s)).
  Proof.
    induction iters as [|k IH]; intros s.
    - cbn. repeat constructor.
    - cbn [outer]. destruct (propose hessvec precond mult_approx S s) as [[[cp qn] stepType] cgIters].
      match goal with |- context [inner ?a ?b ?c ?d ?e ?f ?s1 ?g ?h ?i ?j] =>
        pose proof (inner_no_nan_accept f s1 g h i j) as Hin; destruct (inner a b c d e f s1 g h i j) as [x flag ev|s' ev|ev] end;
        cbn [events_of] in Hin.
      + exact Hin.
      + specialize (IH s'). destruct (outer value grad hessvec precond mult_approx S k fuel s') as [[x flag] ev']. cbn [snd] in *.
        apply Forall_app. split; assumption.
      + exact Hin.
  Qed.

  Theorem trm_no_nan_accept fuel x xp0 :
    Forall no_nan_accept (snd (@trust_region_minimize T NT value grad hessvec precond mult_approx S fuel x xp0)).
  Proof.
    unfold trust_region_minimize. destruct (nltb (vdot (grad x) (grad x)) (tol2 S)); [cbn; repeat constructor|].
    apply outer_no_nan_accept.
  Qed.
End NaN.

(* ------------------------------------------------------------------ the laws hold in binary64 *)
Local Open Scope float_scope.

Lemma SFeqb_refl_not_nan f : f <> S754_nan -> SFeqb f f = true.
Proof.
  destruct f as [s|s| |s m e]; intros H; try (destruct s; reflexivity); try congruence.
  unfold SFeqb, SFcompare. destruct s; rewrite Z.compare_refl, Pos.compare_cont_refl; reflexivity.
Qed.

Lemma is_nan_spec x : PrimFloat.is_nan x = true <-> Prim2SF x = S754_nan.
Proof.
  unfold PrimFloat.is_nan. rewrite eqb_spec. split.
  - intros H. destruct (Prim2SF x) eqn:E; try reflexivity; exfalso;
      rewrite SFeqb_refl_not_nan in H by congruence; discriminate.
  - intros ->. reflexivity.
Qed.

Lemma F_nan_sub_l a b : PrimFloat.is_nan a = true -> PrimFloat.is_nan (a - b) = true.
Proof. rewrite !is_nan_spec, sub_spec. intros ->. reflexivity. Qed.
Lemma F_nan_opp a : PrimFloat.is_nan a = true -> PrimFloat.is_nan (- a) = true.
Proof. rewrite !is_nan_spec, opp_spec. intros ->. reflexivity. Qed.
Lemma F_nan_div_l a b : PrimFloat.is_nan a = true -> PrimFloat.is_nan (a / b) = true.
Proof. rewrite !is_nan_spec, div_spec. intros ->. reflexivity. Qed.
Lemma F_nan_ltb_l a b : PrimFloat.is_nan a = true -> (a <? b) = false.
Proof. rewrite is_nan_spec, ltb_spec. intros ->. reflexivity. Qed.
Lemma F_nan_ltb_r a b : PrimFloat.is_nan b = true -> (a <? b) = false.
Proof. rewrite is_nan_spec, ltb_spec. intros ->. unfold SFltb, SFcompare. destruct (Prim2SF a) as [s|s| |s m e]; try destruct s; reflexivity. Qed.
Lemma F_nan_leb_r a b : PrimFloat.is_nan b = true -> (a <=? b) = false.
Proof. rewrite is_nan_spec, leb_spec. intros ->. unfold SFleb, SFcompare. destruct (Prim2SF a) as [s|s| |s m e]; try destruct s; reflexivity. Qed.

(* binary64 instance of the model, arbitrary oracles and settings *)
Theorem nan_change_rejected_binary64 (S : settings float) (mo ro rn gn : float) stepType (tr : float) : PrimFloat.is_nan ro = true ->
  @will_accept float NumF S (@rho_of float NumF mo ro) rn gn = false /\
  @new_radius float NumF S (@rho_of float NumF mo ro) stepType tr = (tr * s_t1 S)%float.
Proof. apply (@nan_change_rejected float NumF PrimFloat.is_nan F_nan_opp F_nan_div_l F_nan_ltb_l F_nan_ltb_r F_nan_leb_r). Qed.

Theorem trm_no_nan_accept_binary64 (value : list float -> float) (grad : list float -> list float)
    (hessvec precond mult_approx : list float -> list float -> list float) (S : settings float) fuel x xp0 :
  s_use_incremental S = false ->
  Forall (no_nan_accept PrimFloat.is_nan) (snd (@trust_region_minimize float NumF value grad hessvec precond mult_approx S fuel x xp0)).
Proof.
  intros H. apply (@trm_no_nan_accept float NumF PrimFloat.is_nan F_nan_sub_l F_nan_opp F_nan_div_l F_nan_ltb_l F_nan_ltb_r F_nan_leb_r); exact H.
Qed.

(* not vacuous: NaN is a NaN, and subtracting a finite objective value from it gives a NaN measured change *)
Lemma nan_hypothesis_satisfiable : PrimFloat.is_nan (PrimFloat.nan - 1) = true.
Proof. reflexivity. Qed.
