(* C12 (round 3): the closed-form trigonometric stage of eigen_sym33_non_unit.  `eig_trig_stage` is the PREFIX of that routine's
   body (mean c1, deviatoric invariants c2, c3, trisection argument rr, clamped argument arg, root eval2) regenerated from
   /repo/optimism/TensorMath.py on every run; eval2 is computed with the Pade kernel cos_of_acos_divided_by_3.
   (g1) x^3 + c2 x + c3 is the characteristic polynomial of the deviator of the symmetrised input, c1 its mean;
   (g2) with c2 < 0 and |rr| <= 1, the residual of eval2 in that polynomial is 2 (-c2/3)^(3/2) times the Pade residual, hence <= 2e-13 (-c2/3)^(3/2);
   (g3) eval2 is within 4e-14 sqrt(-c2/3) of the exact root s 2 sqrt(-c2/3) cos(acos|rr| / 3), and that root has the largest
        magnitude among the roots -- the deviatoric eigenvalue of largest magnitude;
   (g4) |rr| <= 1 whenever the polynomial has three real roots (true for symmetric tensors by the spectral theorem, which is NOT proved here). *)
From Coq Require Import Reals Lra.
From Coquelicot Require Import Coquelicot.
From Interval Require Import Tactic.
From OV.base Require Import Num.
From OV.gen Require Import Gen_TensorMath Gen_TensorMathFun.
From OV.model Require Import M_C08 M_C12_Trig.
From OV.proofs Require Import L_C08 L_C12.
Local Open Scope R_scope.

Notation M := (mat R).

Ltac stnum := cbv beta iota zeta delta [stage st_c1 st_c2 st_c3 st_rr st_arg st_eval2 devsym charpoly cubic eig_trig_stage
   dev deviator sym t_trace ap9 of9 m00 m01 m02 m10 m11 m12 m20 m21 m22 mdet msub mscal mid map2 mtrace nunit nzero nZ]; unfold_num; q2r.

(* ---------- (g1) ---------- *)
Theorem stage_invariants (A : M) :
  st_c1 A = mtrace A / 3 /\ forall x, charpoly (devsym A) x = cubic (st_c2 A) (st_c3 A) x.
Proof.
  dm A. split.
  - stnum. reflexivity.
  - intros x. stnum. field.
Qed.

(* ---------- trisection facts ---------- *)
Lemma cos_3a t : cos (3 * t) = 4 * cos t * cos t * cos t - 3 * cos t.
Proof.
  replace (3 * t) with (2 * t + t) by ring. rewrite cos_plus, cos_2a, sin_2a.
  assert (H := sin2_cos2 t). unfold Rsqr in H. replace (sin t * sin t) with (1 - cos t * cos t) by lra.
  replace (2 * sin t * cos t * sin t) with (2 * cos t * (sin t * sin t)) by ring.
  replace (sin t * sin t) with (1 - cos t * cos t) by lra. ring.
Qed.

Definition ctri (x : R) : R := cos (acos x / 3).
Lemma ctri_spec x : 0 <= x <= 1 -> 4 * ctri x * ctri x * ctri x - 3 * ctri x = x /\ sqrt 3 / 2 <= ctri x <= 1.
Proof.
  intros Hx. unfold ctri.
  assert (Hb := acos_bound x). assert (Hc : cos (acos x) = x) by (apply cos_acos; lra).
  assert (Hpi := PI_RGT_0).
  assert (Hle : acos x <= PI / 2).
  { destruct (Rle_dec (acos x) (PI / 2)) as [|Hn]; [assumption|]. exfalso.
    assert (cos (acos x) < 0) by (apply cos_lt_0; lra). lra. }
  split.
  - rewrite <- cos_3a. replace (3 * (acos x / 3)) with (acos x) by field. exact Hc.
  - split.
    + rewrite <- cos_PI6. apply cos_decr_1; lra.
    + apply COS_bound.
Qed.

(* the Pade value is within 1.7e-14 of the exact cos(acos(x)/3) *)
Lemma pade_vs_ctri x : 0 <= x <= 1 -> Rabs (pade x - ctri x) <= 17 / 1000000000000000.
Proof.
  intros Hx. destruct (ctri_spec x Hx) as [E [L U]].
  assert (R1 := pade_residual x Hx). assert (R2 := pade_range x Hx).
  set (c := pade x) in *. set (d := ctri x) in *.
  assert (S3 : 866 / 1000 <= sqrt 3 / 2) by interval.
  assert (Hd : 866 / 1000 <= d) by lra.
  (* (4c^3 - 3c) - (4d^3 - 3d) = (c - d) (4 (c^2 + c d + d^2) - 3), and the second factor is >= 5.99 *)
  assert (F : 4 * c * c * c - 3 * c - x = (c - d) * (4 * (c * c + c * d + d * d) - 3)) by (rewrite <- E; ring).
  assert (G : 599 / 100 <= 4 * (c * c + c * d + d * d) - 3) by nra.
  rewrite F, Rabs_mult in R1. rewrite (Rabs_pos_eq (4 * (c * c + c * d + d * d) - 3)) in R1 by lra.
  assert (0 <= Rabs (c - d)) by apply Rabs_pos. nra.
Qed.

(* ---------- (g2), (g3): the shape of the stage when c2 < 0 ---------- *)
Lemma stage_shape (A : M) : st_c2 A < 0 ->
  let a := - st_c2 A in let t := sqrt (3 / a) in
  let sg := if Rlt_dec (st_rr A) 0 then -1 else 1 in
  st_rr A = - (1 / 2) * st_c3 A * (3 / a) * t
  /\ st_arg A = Rmin (Rabs (st_rr A)) 1
  /\ st_eval2 A = 2 * pade (st_arg A) * sg / t.
Proof.
  intros Hc. cbv zeta. dm A. revert Hc. stnum. unfold pade.
  set (c2 := _ - _ - _ - _) in *. intros Hc.
  unfold nmin. unfold_num. unfold Rltb. destruct (Rlt_dec c2 0) as [_|Hn]; [|contradiction].
  assert (E : - (3) / c2 = 3 / - c2) by (field; lra). rewrite !E.
  split; [reflexivity|]. split.
  - unfold Rmin.
    match goal with |- context [Rlt_dec ?x 1] => destruct (Rlt_dec x 1), (Rle_dec x 1) end; try lra; reflexivity.
  - match goal with |- context [Rlt_dec ?x 0] => destruct (Rlt_dec x 0) end; [replace (-1) with (- (1)) by lra|]; reflexivity.
Qed.

Lemma sqrt_inv_prod a : 0 < a -> sqrt (3 / a) * sqrt (a / 3) = 1.
Proof.
  intros Ha. rewrite <- sqrt_mult_alt by (apply Rlt_le, Rdiv_lt_0_compat; lra).
  replace (3 / a * (a / 3)) with 1 by (field; lra). apply sqrt_1.
Qed.

Section Root.
  Variables c2 c3 : R.
  Hypothesis Hc2 : c2 < 0.
  Let a := - c2.
  Let t := sqrt (3 / a).
  Let rr := - (1 / 2) * c3 * (3 / a) * t.
  Let sg := if Rlt_dec rr 0 then -1 else 1.

  Lemma t_pos : 0 < t. Proof. unfold t, a. apply sqrt_lt_R0. apply Rdiv_lt_0_compat; lra. Qed.
  Lemma t_sqr : t * t = 3 / a. Proof. unfold t, a. apply sqrt_sqrt. apply Rlt_le, Rdiv_lt_0_compat; lra. Qed.
  Lemma sg_rr : sg * rr = Rabs rr /\ sg * sg = 1.
  Proof. unfold sg. destruct (Rlt_dec rr 0); [rewrite Rabs_left by lra|rewrite Rabs_right by lra]; lra. Qed.

  (* residual of the candidate root 2 c sg / t in the cubic, for ANY c: 2 sg / t^3 times the trisection residual *)
  Lemma cubic_at_candidate c : cubic c2 c3 (2 * c * sg / t) = 2 * sg / (t * t * t) * (4 * c * c * c - 3 * c - Rabs rr).
  Proof.
    assert (Ht := t_pos). assert (Hq := t_sqr). destruct sg_rr as [S1 S2].
    assert (Ha : 0 < a) by (unfold a; lra).
    assert (E3 : c3 = - 2 * rr / (t * t * t)).
    { unfold rr. rewrite <- Hq. field. lra. }
    assert (E2 : c2 = - 3 / (t * t)). { rewrite Hq. unfold a. field. lra. }
    unfold cubic. rewrite <- S1. rewrite E3. rewrite E2 at 1.
    replace (2 * c * sg / t * (2 * c * sg / t) * (2 * c * sg / t)) with (8 * c * c * c * (sg * sg) * sg / (t * t * t)) by (field; lra).
    rewrite S2.
    replace (2 * sg / (t * t * t) * (4 * c * c * c - 3 * c - sg * rr))
      with (8 * c * c * c * 1 * sg / (t * t * t) + -3 / (t * t) * (2 * c * sg / t) + - 2 * (sg * sg) * rr / (t * t * t)) by (field; lra).
    rewrite S2. field. lra.
  Qed.

  Lemma inv_t : / t = sqrt (a / 3).
  Proof.
    assert (Ht := t_pos). assert (Ha : 0 < a) by (unfold a; lra).
    apply Rmult_eq_reg_l with t; [|lra]. rewrite Rinv_r by lra. symmetry. apply sqrt_inv_prod. exact Ha.
  Qed.

  Hypothesis Hrr : Rabs rr <= 1.

  Lemma candidate_residual : Rabs (cubic c2 c3 (2 * pade (Rabs rr) * sg / t))
     <= 2 / 10000000000000 * (sqrt (a / 3) * sqrt (a / 3) * sqrt (a / 3)).
  Proof.
    assert (Ht := t_pos). destruct sg_rr as [_ S2].
    assert (Hx : 0 <= Rabs rr <= 1) by (split; [apply Rabs_pos|exact Hrr]).
    rewrite cubic_at_candidate, <- inv_t.
    assert (P := pade_residual (Rabs rr) Hx).
    replace (2 * sg / (t * t * t)) with (2 * sg * (/ t * / t * / t)) by (field; lra).
    rewrite !Rabs_mult. rewrite (Rabs_pos_eq 2) by lra.
    assert (Hs : Rabs sg = 1). { unfold sg. destruct (Rlt_dec rr 0); [rewrite Rabs_left|rewrite Rabs_right]; lra. }
    rewrite Hs. assert (Hi : 0 < / t) by (apply Rinv_0_lt_compat; lra).
    rewrite (Rabs_pos_eq (/ t)) by lra.
    assert (0 < / t * / t * / t) by (repeat apply Rmult_lt_0_compat; lra). nra.
  Qed.

  (* the exact trigonometric root *)
  Definition exact_root : R := 2 * ctri (Rabs rr) * sg / t.
  Lemma exact_root_is_root : cubic c2 c3 exact_root = 0.
  Proof.
    assert (Hx : 0 <= Rabs rr <= 1) by (split; [apply Rabs_pos|exact Hrr]).
    unfold exact_root. rewrite cubic_at_candidate. destruct (ctri_spec _ Hx) as [E _]. rewrite E. ring.
  Qed.
  Lemma candidate_error : Rabs (2 * pade (Rabs rr) * sg / t - exact_root) <= 4 / 100000000000000 * sqrt (a / 3).
  Proof.
    assert (Ht := t_pos).
    assert (Hx : 0 <= Rabs rr <= 1) by (split; [apply Rabs_pos|exact Hrr]).
    unfold exact_root. rewrite <- inv_t.
    replace (2 * pade (Rabs rr) * sg / t - 2 * ctri (Rabs rr) * sg / t) with (2 * sg * (pade (Rabs rr) - ctri (Rabs rr)) * / t) by (field; lra).
    rewrite !Rabs_mult. rewrite (Rabs_pos_eq 2) by lra.
    assert (Hs : Rabs sg = 1). { unfold sg. destruct (Rlt_dec rr 0); [rewrite Rabs_left|rewrite Rabs_right]; lra. }
    rewrite Hs. assert (Hi : 0 < / t) by (apply Rinv_0_lt_compat; lra). rewrite (Rabs_pos_eq (/ t)) by lra.
    assert (P := pade_vs_ctri _ Hx). nra.
  Qed.
  (* every root of the cubic is at most as large in magnitude as the exact trigonometric root *)
  Lemma exact_root_largest mu : cubic c2 c3 mu = 0 -> Rabs mu <= Rabs exact_root.
  Proof.
    intros Hmu. assert (H0 := exact_root_is_root).
    assert (Ht := t_pos). assert (Hq := t_sqr). assert (Ha : 0 < a) by (unfold a; lra).
    assert (Hx : 0 <= Rabs rr <= 1) by (split; [apply Rabs_pos|exact Hrr]).
    destruct (ctri_spec _ Hx) as [_ [L _]]. destruct sg_rr as [_ S2].
    set (l := exact_root) in *.
    (* l^2 = 4 c^2 a / 3 >= a *)
    assert (Hl2 : a <= l * l).
    { unfold l, exact_root.
      replace (2 * ctri (Rabs rr) * sg / t * (2 * ctri (Rabs rr) * sg / t))
        with (4 * (ctri (Rabs rr) * ctri (Rabs rr)) * (sg * sg) / (t * t)) by (field; lra).
      rewrite S2, Hq. replace (4 * (ctri (Rabs rr) * ctri (Rabs rr)) * 1 / (3 / a)) with (a * (4 * (ctri (Rabs rr) * ctri (Rabs rr)) / 3)) by (field; lra).
      assert (S3 : sqrt 3 * sqrt 3 = 3) by (apply sqrt_sqrt; lra).
      assert (0 <= sqrt 3) by apply sqrt_pos.
      assert (3 / 4 <= ctri (Rabs rr) * ctri (Rabs rr)) by nra. nra. }
    (* mu = l, or mu^2 + l mu + (l^2 - a) = 0 *)
    assert (Hf : (mu - l) * (mu * mu + l * mu + (l * l - a)) = 0).
    { unfold cubic in Hmu, H0. unfold a. nra. }
    apply Rmult_integral in Hf. destruct Hf as [Hf|Hf].
    - replace mu with l by lra. lra.
    - (* mu (mu + l) <= 0: mu lies between 0 and -l *)
      apply Rsqr_le_abs_0. unfold Rsqr. nra.
  Qed.
End Root.

(* ---------- the theorems about the generated stage ---------- *)
Theorem trig_root_residual (A : M) : st_c2 A < 0 -> Rabs (st_rr A) <= 1 ->
  Rabs (cubic (st_c2 A) (st_c3 A) (st_eval2 A))
  <= 2 / 10000000000000 * (sqrt (- st_c2 A / 3) * sqrt (- st_c2 A / 3) * sqrt (- st_c2 A / 3)).
Proof.
  intros Hc Hr. destruct (stage_shape A Hc) as (Err & Earg & Eev). cbv zeta in *.
  rewrite Eev, Earg. rewrite Rmin_left by exact Hr. rewrite Err in Hr |- *.
  apply candidate_residual; assumption.
Qed.

Theorem trig_root_error (A : M) : st_c2 A < 0 -> Rabs (st_rr A) <= 1 ->
  exists lstar, cubic (st_c2 A) (st_c3 A) lstar = 0
    /\ Rabs (st_eval2 A - lstar) <= 4 / 100000000000000 * sqrt (- st_c2 A / 3)
    /\ (forall mu, cubic (st_c2 A) (st_c3 A) mu = 0 -> Rabs mu <= Rabs lstar).
Proof.
  intros Hc Hr. destruct (stage_shape A Hc) as (Err & Earg & Eev). cbv zeta in *.
  rewrite Err in Hr. exists (exact_root (st_c2 A) (st_c3 A)). split; [|split].
  - apply exact_root_is_root; assumption.
  - rewrite Eev, Earg, Err. rewrite Rmin_left by exact Hr. apply candidate_error; assumption.
  - intros mu Hmu. apply exact_root_largest; assumption.
Qed.

(* ---------- (g4) three real roots => |rr| <= 1 ---------- *)
Theorem rr_bounded_of_real_roots (c2 c3 l1 l2 l3 : R) : c2 < 0 ->
  (forall x, cubic c2 c3 x = (x - l1) * (x - l2) * (x - l3)) ->
  Rabs (- (1 / 2) * c3 * (3 / - c2) * sqrt (3 / - c2)) <= 1.
Proof.
  intros Hc Hf.
  assert (H0 := Hf 0). assert (H1 := Hf 1). assert (Hm := Hf (-1)). unfold cubic in H0, H1, Hm.
  assert (Es : l1 + l2 + l3 = 0) by nra.
  assert (E2 : c2 = l1 * l2 + l2 * l3 + l3 * l1) by nra.
  assert (E3 : c3 = - (l1 * l2 * l3)) by nra.
  set (a := - c2) in *. assert (Ha : 0 < a) by (unfold a; lra).
  (* discriminant: 4 a^3 - 27 c3^2 = ((l1-l2)(l2-l3)(l3-l1))^2 >= 0 *)
  assert (Hd : 27 * (c3 * c3) <= 4 * (a * a * a)).
  { assert (l3 = - l1 - l2) by lra. subst l3.
    assert (Hid : 4 * (a * a * a) - 27 * (c3 * c3) = ((l1 - l2) * (l2 - (- l1 - l2)) * ((- l1 - l2) - l1)) * ((l1 - l2) * (l2 - (- l1 - l2)) * ((- l1 - l2) - l1))).
    { unfold a. rewrite E2, E3. ring. }
    assert (0 <= ((l1 - l2) * (l2 - (- l1 - l2)) * ((- l1 - l2) - l1)) * ((l1 - l2) * (l2 - (- l1 - l2)) * ((- l1 - l2) - l1))) by apply Rle_0_sqr.
    lra. }
  set (t := sqrt (3 / a)). assert (Ht : 0 < t) by (apply sqrt_lt_R0, Rdiv_lt_0_compat; lra).
  assert (Hq : t * t = 3 / a) by (apply sqrt_sqrt, Rlt_le, Rdiv_lt_0_compat; lra).
  apply Rle_trans with (Rabs 1); [|rewrite Rabs_R1; lra].
  apply Rsqr_le_abs_0. rewrite Rsqr_1. unfold Rsqr.
  replace (- (1 / 2) * c3 * (3 / a) * t * (- (1 / 2) * c3 * (3 / a) * t)) with (c3 * c3 * (3 / a) * (3 / a) * (t * t) / 4) by (field; lra).
  rewrite Hq. replace (c3 * c3 * (3 / a) * (3 / a) * (3 / a) / 4) with (27 * (c3 * c3) / (4 * (a * a * a))) by (field; lra).
  assert (Ha3 : 0 < a * a * a) by (repeat apply Rmult_lt_0_compat; lra).
  apply Rmult_le_reg_r with (4 * (a * a * a)); [lra|]. unfold Rdiv. rewrite Rmult_assoc, Rinv_l by lra. lra.
Qed.

(* non-vacuity: diag(2, 3, 7) -- mean 4, deviatoric eigenvalues -2, -1, 3; c2 = -7 < 0, c3 = -6 (rr > 0) *)
Lemma trig_nonvacuous : st_c1 Aex = 4 /\ st_c2 Aex = -7 /\ st_c3 Aex = -6 /\ st_c2 Aex < 0 /\ Rabs (st_rr Aex) <= 1
  /\ cubic (st_c2 Aex) (st_c3 Aex) 3 = 0 /\ Rabs (st_eval2 Aex - 3) <= 1 / 10000000000000.
Proof.
  assert (E1 : st_c1 Aex = 4) by (unfold Aex; stnum; field).
  assert (E2 : st_c2 Aex = -7) by (unfold Aex; stnum; field).
  assert (E3 : st_c3 Aex = -6) by (unfold Aex; stnum; field).
  assert (Hc : st_c2 Aex < 0) by lra.
  destruct (stage_shape Aex Hc) as (Err & Earg & Eev). cbv zeta in *. rewrite E2, E3 in Err.
  assert (Hr : Rabs (st_rr Aex) <= 1).
  { rewrite Err. apply (rr_bounded_of_real_roots (-7) (-6) (-2) (-1) 3); [lra|]. intros x. unfold cubic. ring. }
  repeat split; try assumption.
  - rewrite E2, E3. unfold cubic. ring.
  - destruct (trig_root_error Aex Hc Hr) as (ls & R0 & Re & Rl).
    rewrite E2, E3 in *.
    (* the roots of x^3 - 7x - 6 are -2, -1, 3; the largest in magnitude is 3 *)
    assert (Hls : ls = 3).
    { assert (F : (ls + 2) * (ls + 1) * (ls - 3) = 0) by (unfold cubic in R0; nra).
      assert (H3 := Rl 3 ltac:(unfold cubic; ring)). rewrite (Rabs_pos_eq 3) in H3 by lra.
      apply Rmult_integral in F. destruct F as [F|F]; [apply Rmult_integral in F; destruct F as [F|F]|]; try lra.
      - exfalso. replace ls with (-2) in H3 by lra. rewrite Rabs_left in H3; lra.
      - exfalso. replace ls with (-1) in H3 by lra. rewrite Rabs_left in H3; lra. }
    rewrite Hls in Re. replace (- -7 / 3) with (7 / 3) in Re by field.
    assert (sqrt (7 / 3) <= 2) by interval. lra.
Qed.
