(* C03 -- the reference monomial formula is the Riemann integral over the reference triangle:
   int_0^1 int_0^(1-x) x^i y^j dy dx = i! j! / (i+j+2)!   (Beta integral), hence pint_ref P = iterated integral of peval P. *)
From Coq Require Import ZArith List Lia Reals Lra Psatz.
From Coquelicot Require Import Coquelicot.
From OV.proofs Require Import L_C03sn L_C03cert L_C03lift.
Import ListNotations.
Local Open Scope R_scope.

Lemma cont_of_deriv (f : R -> R) x : ex_derive f x -> continuous f x.
Proof. exact (@ex_derive_continuous R_AbsRing R_NormedModule f x). Qed.

(* Beta integral *)
Lemma beta_int i : forall m, is_RInt (fun x => x ^ i * (1 - x) ^ m) 0 1 (INR (fact i) * INR (fact m) / INR (fact (i + m + 1))).
Proof.
  induction i as [|i IH]; intros m.
  - (* int (1-x)^m = 1/(m+1) *)
    assert (Hc : INR (S m) <> 0) by (apply not_0_INR; lia).
    assert (Ec : INR (S m) = INR m + 1) by apply S_INR.
    remember (INR (S m)) as c.
    evar_last.
    + apply (is_RInt_ext (fun x => (1 - x) ^ m)); [intros; simpl; ring|].
      apply (is_RInt_derive (fun x => - (1 - x) ^ (S m) / c) (fun x => (1 - x) ^ m)).
      * intros x _. auto_derive; [trivial|]. simpl pred. change (match m with O => 1 | S _ => INR m + 1 end) with (INR (S m)). rewrite <- Heqc. replace (1 + - x) with (1 - x) by ring. field. exact Hc.
      * intros x _. apply cont_of_deriv. auto_derive. trivial.
    + change ((- (1 - 1) ^ S m / c) + - (- (1 - 0) ^ S m / c) = INR (fact 0) * INR (fact m) / INR (fact (0 + m + 1))).
      replace (0 + m + 1)%nat with (S m) by lia. rewrite Rminus_eq_0, Rminus_0_r, pow1, pow_i by lia.
      rewrite fact_simpl, mult_INR, <- Heqc. change (INR (fact 0)) with 1.
      field. split; [apply INR_fact_neq_0 | exact Hc].
  - (* x^(i+1) (1-x)^m = G' + (i+1)/(m+1) x^i (1-x)^(m+1) *)
    assert (Hc : INR (S m) <> 0) by (apply not_0_INR; lia).
    assert (Ec : INR (S m) = INR m + 1) by apply S_INR.
    assert (Ed : INR (S i) = INR i + 1) by apply S_INR.
    remember (INR (S m)) as c. remember (INR (S i)) as d.
    evar_last.
    + apply (is_RInt_ext (fun x => plus ((fun x => - d * x ^ i * (1 - x) ^ (S m) / c + x ^ (S i) * (1 - x) ^ m) x)
                                        (scal (d / c) (x ^ i * (1 - x) ^ (S m))))).
      * intros x _. unfold plus, scal; simpl; unfold mult; simpl. field. exact Hc.
      * apply @is_RInt_plus.
        -- apply (is_RInt_derive (fun x => - x ^ (S i) * (1 - x) ^ (S m) / c)
                                 (fun x => - d * x ^ i * (1 - x) ^ (S m) / c + x ^ (S i) * (1 - x) ^ m)).
           ++ intros x _. auto_derive; [trivial|]. simpl pred. change (match m with O => 1 | S _ => INR m + 1 end) with (INR (S m)). change (match i with O => 1 | S _ => INR i + 1 end) with (INR (S i)). rewrite <- Heqc, <- Heqd. replace (1 + - x) with (1 - x) by ring. simpl pow. field. exact Hc.
           ++ intros x _. apply cont_of_deriv. auto_derive. trivial.
        -- apply @is_RInt_scal. apply IH.
    + change ((- 1 ^ S i * (1 - 1) ^ S m / c + - (- 0 ^ S i * (1 - 0) ^ S m / c))
              + (d / c) * (INR (fact i) * INR (fact (S m)) / INR (fact (i + S m + 1)))
              = INR (fact (S i)) * INR (fact m) / INR (fact (S i + m + 1))).
      replace (S i + m + 1)%nat with (S (i + S m)) by lia. replace (i + S m + 1)%nat with (S (i + S m)) by lia.
      rewrite Rminus_eq_0, (pow_i (S m)), (pow_i (S i)) by lia.
      rewrite (fact_simpl i), (fact_simpl m), !mult_INR, <- Heqc, <- Heqd.
      field. repeat split; try apply INR_fact_neq_0; assumption.
Qed.

Lemma inner_mono x i j : is_RInt (fun y => x ^ i * y ^ j) 0 (1 - x) (x ^ i * (1 - x) ^ S j / INR (S j)).
Proof.
  assert (Hc : INR (S j) <> 0) by (apply not_0_INR; lia).
  remember (INR (S j)) as c.
  evar_last.
  - apply (is_RInt_derive (fun y => x ^ i * y ^ S j / c) (fun y => x ^ i * y ^ j)).
    + intros y _. auto_derive; [trivial|]. simpl pred.
      change (match j with O => 1 | S _ => INR j + 1 end) with (INR (S j)). rewrite <- Heqc. field. exact Hc.
    + intros y _. apply cont_of_deriv. auto_derive. trivial.
  - change (x ^ i * (1 - x) ^ S j / c + - (x ^ i * 0 ^ S j / c) = x ^ i * (1 - x) ^ S j / c).
    rewrite pow_i by lia. field. exact Hc.
Qed.

Lemma beta_scaled i j : is_RInt (fun x => x ^ i * (1 - x) ^ S j / INR (S j)) 0 1 (tri_moment i j).
Proof.
  assert (Hc : INR (S j) <> 0) by (apply not_0_INR; lia).
  evar_last.
  - apply (is_RInt_ext (fun x => scal (/ INR (S j)) (x ^ i * (1 - x) ^ S j))).
    + intros x _. unfold scal; simpl; unfold mult; simpl. field. exact Hc.
    + apply @is_RInt_scal. apply beta_int.
  - change (/ INR (S j) * (INR (fact i) * INR (fact (S j)) / INR (fact (i + S j + 1))) = tri_moment i j).
    unfold tri_moment. replace (i + S j + 1)%nat with (i + j + 2)%nat by lia.
    rewrite (fact_simpl j), mult_INR. field. split; [apply INR_fact_neq_0 | exact Hc].
Qed.

(* the moment formula is the iterated Riemann integral of the monomial over the reference triangle *)
Theorem tri_moment_is_integral i j :
  is_RInt (fun x => RInt (fun y => rmon (x, y) (i, j)) 0 (1 - x)) 0 1 (tri_moment i j).
Proof.
  apply (is_RInt_ext (fun x => x ^ i * (1 - x) ^ S j / INR (S j))); [|apply beta_scaled].
  intros x _. symmetry. apply is_RInt_unique. unfold rmon; cbn [fst snd]. apply inner_mono.
Qed.

Definition inner_poly (P : poly) (x : R) : R := plin (fun m => x ^ fst m * (1 - x) ^ S (snd m) / INR (S (snd m))) P.

Lemma inner_poly_int P x : is_RInt (fun y => peval P (x, y)) 0 (1 - x) (inner_poly P x).
Proof.
  induction P as [|t P IH].
  - evar_last; [apply (is_RInt_const 0 (1 - x) 0)|]. unfold inner_poly, plin, scal; simpl; unfold mult; simpl. ring.
  - evar_last.
    + apply (is_RInt_ext (fun y => plus (scal (fst t) (x ^ fst (snd t) * y ^ snd (snd t))) (peval P (x, y)))).
      * intros y _. unfold plus, scal; simpl; unfold mult; simpl. unfold peval at 2. rewrite plin_cons. unfold rmon; cbn [fst snd]. reflexivity.
      * apply @is_RInt_plus; [apply @is_RInt_scal; apply inner_mono | exact IH].
    + unfold inner_poly. rewrite plin_cons. reflexivity.
Qed.

Lemma outer_poly_int P : is_RInt (inner_poly P) 0 1 (pint_ref P).
Proof.
  induction P as [|t P IH].
  - evar_last; [apply (is_RInt_ext (fun _ => 0)); [intros; reflexivity | apply (is_RInt_const 0 1 0)]|].
    unfold pint_ref, plin, scal; simpl; unfold mult; simpl. ring.
  - evar_last.
    + apply (is_RInt_ext (fun x => plus (scal (fst t) (x ^ fst (snd t) * (1 - x) ^ S (snd (snd t)) / INR (S (snd (snd t))))) (inner_poly P x))).
      * intros x _. unfold inner_poly at 2. rewrite plin_cons. reflexivity.
      * apply @is_RInt_plus; [apply @is_RInt_scal; apply beta_scaled | exact IH].
    + unfold pint_ref. rewrite plin_cons. reflexivity.
Qed.

(* pint_ref P is the integral of the polynomial function peval P over the reference triangle; in particular it
   depends only on the function, not on the monomial list representing it *)
Theorem pint_ref_is_integral P :
  RInt (fun x => RInt (fun y => peval P (x, y)) 0 (1 - x)) 0 1 = pint_ref P.
Proof.
  rewrite (RInt_ext _ (inner_poly P)).
  - apply is_RInt_unique, outer_poly_int.
  - intros x _. apply is_RInt_unique, inner_poly_int.
Qed.
Corollary pint_ref_ext P Q : (forall x, peval P x = peval Q x) -> pint_ref P = pint_ref Q.
Proof.
  intros H. rewrite <- !pint_ref_is_integral. apply RInt_ext. intros x _. apply RInt_ext. intros y _. apply H.
Qed.

(* ------------------------------------------------------------------ integrals over the reference and physical triangle *)
Definition int_ref (h : R * R -> R) : R := RInt (fun x => RInt (fun y => h (x, y)) 0 (1 - x)) 0 1.
(* integral over the triangle (v0, v1, v2) by the affine change of variables x = X(xi); for counter-clockwise vertices
   jacR > 0 is the Jacobian determinant, for clockwise ones the integral is signed like the element volumes *)
Definition int_tri (v0 v1 v2 : R * R) (f : R * R -> R) : R := jacR v0 v1 v2 * int_ref (fun xi => f (elmap v0 v1 v2 xi)).

Lemma int_ref_ext f g : (forall x, f x = g x) -> int_ref f = int_ref g.
Proof. intros H. unfold int_ref. apply RInt_ext. intros x _. apply RInt_ext. intros y _. apply H. Qed.
Lemma int_ref_peval P : int_ref (peval P) = pint_ref P.
Proof. unfold int_ref. exact (pint_ref_is_integral P). Qed.
Lemma int_ref_one : int_ref (fun _ => 1) = 1 / 2.
Proof.
  rewrite (int_ref_ext _ (peval [(1, (0, 0)%nat)])) by (intros; unfold peval, plin, rmon; cbn; ring).
  rewrite int_ref_peval. unfold pint_ref, plin; cbn [map rsum fst snd]. rewrite tri_moment_00. ring.
Qed.

(* quadrature on every element against the genuine integral *)
Theorem lift_quadrature_integral v0 v1 v2 d f fx fy : PolyG d f fx fy ->
  exists C, 0 <= C /\ forall eps pts ws, TriQuadExact d eps pts ws ->
    Rabs (rdot (volsR v0 v1 v2 ws) (map f (map (elmap v0 v1 v2) pts)) - int_tri v0 v1 v2 f)
      <= Rabs (jacR v0 v1 v2) * (C * eps).
Proof.
  intros H. destruct (lift_quadrature v0 v1 v2 d f fx fy H) as [P [DP [EP HB]]].
  exists (pnorm1 P). split; [apply pnorm1_nonneg|]. intros eps pts ws HQ.
  unfold int_tri. rewrite (int_ref_ext _ (peval P)) by exact EP. rewrite int_ref_peval, (Rmult_comm (pnorm1 P)).
  apply HB, HQ.
Qed.
(* the area is the integral of 1 *)
Lemma int_tri_one v0 v1 v2 : int_tri v0 v1 v2 (fun _ => 1) = tri_area_signed v0 v1 v2.
Proof. unfold int_tri. rewrite int_ref_one, area_jac. field. Qed.
