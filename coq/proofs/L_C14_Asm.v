(* C14: lemmas about model/M_C14_Asm.v -- the matrix the assembler builds THROUGH the index maps equals the matrix assembled by
   hand from the element matrices, the connectivity and the BC mask; it is a function of those three only (no hidden state:
   a history of assemblies is answered request by request), and of the declared BC pairs only through the SET they form. *)
From Coq Require Import ZArith List Bool Arith Lia Permutation.
From Coq Require Import ZifyBool.
From OV.model Require Import M_C14_Dof M_C14_Asm.
From OV.proofs Require Import L_C14.
Import ListNotations.

(* ------------------------------------------------------------------ generic list facts *)
Lemma asm_combine_map_fst_snd {A B C} (f : A -> C) (F : list (A * B)) :
  combine (map f (map fst F)) (map snd F) = map (fun pv => (f (fst pv), snd pv)) F.
Proof. induction F as [|[a b] F IH]; simpl; auto. rewrite IH; reflexivity. Qed.

Lemma asm_filter_fst_combine {A B} (P : A -> bool) (l : list A) (vs : list B) :
  length l = length vs -> filter P l = map fst (filter (fun pv => P (fst pv)) (combine l vs)).
Proof.
  revert vs; induction l as [|a l IH]; intros [|v vs] H; simpl in *; try discriminate; auto.
  destruct (P a); simpl; rewrite (IH vs) by lia; reflexivity.
Qed.

Section Entries.
  Variable isBc : list bool.
  Variable dim : nat.

  (* each element matrix has one number per local pair (a, b) *)
  Definition asm_blocks_ok (conns : list (list nat)) (kvals : list (list Z)) : Prop :=
    Forall2 (fun en ke => length ke = length (el_pairs dim en)) conns kvals.

  (* every entry of every block with its element and local pair, row-major (e, a, b) order *)
  Definition raw_entries (conns : list (list nat)) (kvals : list (list Z)) : list ((list nat * (nat * nat)) * Z) :=
    flat_map (fun ek => map (fun pv => ((fst ek, fst pv), snd pv)) (combine (el_pairs dim (fst ek)) (snd ek)))
             (combine conns kvals).
  Definition cond_sum {X} (P : X -> bool) (l : list (X * Z)) : Z :=
    fold_right (fun xv acc => if P (fst xv) then (snd xv + acc)%Z else acc) 0%Z l.

  Lemma el_coo_Z en (ke : list Z) : el_in_range isBc dim en -> length ke = length (el_pairs dim en) ->
    combine (combine (el_rows isBc dim en) (el_cols isBc dim en)) (mask_select (el_mask isBc dim en) ke)
    = map (fun pv => (el_coord isBc dim en (fst pv), snd pv))
          (filter (fun pv => el_both_unknown isBc dim en (fst pv)) (combine (el_pairs dim en) ke)).
  Proof.
    intros Hr Hl. rewrite el_coords_spec by assumption. rewrite el_mask_selects_values by assumption.
    unfold el_selected. rewrite (asm_filter_fst_combine _ _ ke) by (symmetry; assumption).
    apply asm_combine_map_fst_snd.
  Qed.

  (* the triples handed to coo_matrix are the both-unknown block entries with their coordinates *)
  Lemma coo_as_filter_Z conns kvals :
    Forall (el_in_range isBc dim) conns -> asm_blocks_ok conns kvals ->
    combine (combine (HessRowCoords isBc dim conns) (HessColCoords isBc dim conns)) (masked_kvalues isBc dim conns kvals)
    = map (fun xv => (el_coord isBc dim (fst (fst xv)) (snd (fst xv)), snd xv))
          (filter (fun xv => el_both_unknown isBc dim (fst (fst xv)) (snd (fst xv))) (raw_entries conns kvals)).
  Proof.
    intros HR HB. unfold masked_kvalues, HessRowCoords, HessColCoords, hessian_bc_mask, raw_entries.
    induction HB as [|en ke conns kvals Hl HB IH]; simpl; auto.
    inversion HR as [|? ? Hen HR']; subst.
    rewrite combine_app' by (apply el_rows_cols_length).
    rewrite mask_select_app by (rewrite el_mask_length by assumption; symmetry; assumption).
    rewrite combine_app'.
    - rewrite filter_app, map_app. rewrite IH by assumption. f_equal.
      rewrite el_coo_Z by assumption.
      rewrite filter_map_comm, map_map. reflexivity.
    - rewrite combine_length, <- el_rows_cols_length, Nat.min_id.
      destruct (el_lengths isBc dim en Hen) as (L1 & _ & _). rewrite L1.
      symmetry. apply mask_select_length. rewrite el_mask_length by assumption. symmetry; assumption.
  Qed.

  Lemma coo_entry_map_filter {X} (g : X -> Z * Z) (P : X -> bool) (l : list (X * Z)) i j :
    coo_entry (map (fun xv => (g (fst xv), snd xv)) (filter (fun xv => P (fst xv)) l)) i j
    = cond_sum (fun x => P x && (fst (g x) =? i)%Z && (snd (g x) =? j)%Z) l.
  Proof.
    unfold coo_entry, cond_sum. induction l as [|[x v] l IH]; simpl; auto.
    destruct (P x); simpl; rewrite IH; reflexivity.
  Qed.

  Lemma dof_entries_as_map conns kvals :
    dof_entries dim conns kvals
    = map (fun xv => ((nth (fst (snd (fst xv))) (el_dofs dim (fst (fst xv))) 0,
                       nth (snd (snd (fst xv))) (el_dofs dim (fst (fst xv))) 0), snd xv)) (raw_entries conns kvals).
  Proof.
    unfold dof_entries, raw_entries, el_entries.
    induction (combine conns kvals) as [|[en ke] l IH]; simpl; auto.
    rewrite map_app, IH, map_map. reflexivity.
  Qed.

  Lemma entry_sum_map {X} (g : X -> nat * nat) (l : list (X * Z)) di dj :
    entry_sum (map (fun xv => (g (fst xv), snd xv)) l) di dj
    = cond_sum (fun x => (snd (g x) =? di) && (fst (g x) =? dj)) l.
  Proof. unfold entry_sum, cond_sum. induction l as [|[x v] l IH]; simpl; auto. rewrite IH. reflexivity. Qed.

  Lemma cond_sum_ext_in {X} (P Q : X -> bool) (l : list (X * Z)) :
    (forall x v, In (x, v) l -> P x = Q x) -> cond_sum P l = cond_sum Q l.
  Proof.
    unfold cond_sum. induction l as [|[x v] l IH]; simpl; intros H; auto.
    rewrite (H x v) by (left; reflexivity). rewrite IH by (intros; eapply H; right; eassumption). reflexivity.
  Qed.

  Lemma In_raw_entries conns kvals en a b (v : Z) :
    In ((en, (a, b)), v) (raw_entries conns kvals) ->
    In en conns /\ a < length (el_dofs dim en) /\ b < length (el_dofs dim en).
  Proof.
    unfold raw_entries. rewrite in_flat_map. intros ([en' ke] & Hek & Hin).
    apply in_map_iff in Hin. destruct Hin as ([[a' b'] v'] & E & Hin). simpl in E. inversion E; subst.
    apply in_combine_l in Hek. apply in_combine_l in Hin. unfold el_pairs in Hin. cbv zeta in Hin. simpl fst in *.
    apply in_prod_iff in Hin. destruct Hin as [H1 H2]. apply in_seq in H1. apply in_seq in H2.
    repeat split; auto; lia.
  Qed.

  (* "dof d is unknown and carries unknown number k"  <->  "d is the k-th non-essential dof" *)
  Lemma unknown_number_iff d k : d < length isBc -> k < length (unknownIndices isBc) ->
    (is_unknown isBc d && (unk isBc d =? Z.of_nat k)%Z) = (d =? nth k (unknownIndices isBc) 0).
  Proof.
    intros Hd Hk. rewrite is_unknown_in_range by assumption.
    destruct (Nat.eqb_spec d (nth k (unknownIndices isBc) 0)) as [E|NE].
    - assert (Hin : In d (unknownIndices isBc)) by (rewrite E; apply nth_In; assumption).
      apply In_unknownIndices in Hin. destruct Hin as [_ Hb']. rewrite Hb'. simpl.
      rewrite E, unk_inverse_right by assumption. apply Z.eqb_refl.
    - destruct (is_bc isBc d) eqn:Eb; simpl; auto.
      destruct (unk_inverse_left isBc d Hd Eb) as (k' & U1 & U2 & U3).
      rewrite U1. destruct (Z.eqb_spec (Z.of_nat k') (Z.of_nat k)) as [E'|]; auto.
      apply Nat2Z.inj in E'. subst k'. congruence.
  Qed.

  (* one entry: what the COO path accumulates at (i, j) is the by-hand sum for the i-th and j-th non-essential dofs *)
  Lemma assemble_entry_by_hand conns kvals i j :
    Forall (el_in_range isBc dim) conns -> asm_blocks_ok conns kvals ->
    i < length (unknownIndices isBc) -> j < length (unknownIndices isBc) ->
    coo_entry (combine (combine (HessRowCoords isBc dim conns) (HessColCoords isBc dim conns)) (masked_kvalues isBc dim conns kvals))
              (Z.of_nat i) (Z.of_nat j)
    = entry_sum (dof_entries dim conns kvals) (nth i (unknownIndices isBc) 0) (nth j (unknownIndices isBc) 0).
  Proof.
    intros HR HB Hi Hj. rewrite coo_as_filter_Z by assumption.
    rewrite (coo_entry_map_filter (fun x => el_coord isBc dim (fst x) (snd x)) (fun x => el_both_unknown isBc dim (fst x) (snd x))).
    rewrite dof_entries_as_map.
    rewrite (entry_sum_map (fun x => (nth (fst (snd x)) (el_dofs dim (fst x)) 0, nth (snd (snd x)) (el_dofs dim (fst x)) 0))).
    apply cond_sum_ext_in. intros [en [a b]] v Hin.
    apply In_raw_entries in Hin. destruct Hin as (Hen & Ha & Hb).
    rewrite Forall_forall in HR. specialize (HR _ Hen). unfold el_in_range in HR. rewrite Forall_forall in HR.
    assert (Ra : nth a (el_dofs dim en) 0 < length isBc) by (apply HR, nth_In; assumption).
    assert (Rb : nth b (el_dofs dim en) 0 < length isBc) by (apply HR, nth_In; assumption).
    unfold el_both_unknown, el_coord; simpl.
    set (da := nth a (el_dofs dim en) 0) in *. set (db := nth b (el_dofs dim en) 0) in *.
    rewrite <- (unknown_number_iff db i Rb Hi), <- (unknown_number_iff da j Ra Hj).
    destruct (is_unknown isBc da), (is_unknown isBc db); simpl; auto using andb_false_r.
  Qed.

  Lemma map_seq_nth {A B} (d : A) (f : A -> B) (u : list A) : map f u = map (fun k => f (nth k u d)) (seq 0 (length u)).
  Proof. rewrite (list_as_map_nth d u) at 1. rewrite map_map. reflexivity. Qed.

  (* the whole matrix *)
  Lemma assemble_maps_by_hand conns kvals :
    Forall (el_in_range isBc dim) conns -> asm_blocks_ok conns kvals ->
    assemble_maps isBc dim conns kvals = assemble isBc dim conns kvals.
  Proof.
    intros HR HB. unfold assemble_maps, assemble, coo_dense. cbv zeta.
    rewrite (map_seq_nth 0 (fun di => map (fun dj => entry_sum (dof_entries dim conns kvals) di dj) (unknownIndices isBc))).
    apply map_ext_in. intros i Hi. apply in_seq in Hi.
    rewrite (map_seq_nth 0 (fun dj => entry_sum (dof_entries dim conns kvals) (nth i (unknownIndices isBc) 0) dj)).
    apply map_ext_in. intros j Hj. apply in_seq in Hj.
    apply assemble_entry_by_hand; auto; lia.
  Qed.

  (* shape: unknown x unknown *)
  Lemma assemble_shape conns kvals :
    length (assemble isBc dim conns kvals) = get_unknown_size isBc
    /\ Forall (fun row => length row = get_unknown_size isBc) (assemble isBc dim conns kvals).
  Proof.
    unfold assemble. cbv zeta. rewrite map_length, length_unknownIndices. split; auto.
    rewrite Forall_forall. intros row Hrow. apply in_map_iff in Hrow. destruct Hrow as (di & <- & _).
    rewrite map_length. apply length_unknownIndices.
  Qed.
End Entries.

(* ------------------------------------------------------------------ packaged: maps path = by-hand reference *)
Lemma assemble_maps_by_hand_full isBc dim nNodes conns kvals :
  length isBc = nNodes * dim -> valid_conns nNodes conns -> asm_blocks_ok dim conns kvals ->
  assemble_maps isBc dim conns kvals = assemble isBc dim conns kvals
  /\ length (assemble isBc dim conns kvals) = get_unknown_size isBc
  /\ Forall (fun row => length row = get_unknown_size isBc) (assemble isBc dim conns kvals).
Proof.
  intros HN HV HB. split; [|apply assemble_shape].
  apply assemble_maps_by_hand; auto. apply (valid_conns_in_range isBc dim nNodes); assumption.
Qed.

(* ------------------------------------------------------------------ no hidden state: a history is answered request by request *)
Definition valid_request (r : request) : Prop :=
  valid_conns (r_nNodes r) (r_conns r) /\ asm_blocks_ok (r_dim r) (r_conns r) (r_kvals r).

Lemma request_maps_by_hand r : valid_request r -> assemble_request_maps r = assemble_request r.
Proof.
  intros [HV HB]. unfold assemble_request_maps, assemble_request.
  apply (assemble_maps_by_hand_full _ _ (r_nNodes r)); auto. apply mk_isBc_length.
Qed.

Lemma history_pure :
  (* the k-th answer is the by-hand matrix of the k-th request, whatever was assembled before or after *)
  (forall h k d, k < length h -> nth k (assemble_history h) [] = assemble_request (nth k h d))
  /\ (forall pre pre' post post' r,
        nth (length pre) (assemble_history (pre ++ r :: post)) [] = nth (length pre') (assemble_history (pre' ++ r :: post')) [])
  (* ... and, through the index maps, the same matrix for every valid request *)
  /\ (forall h, Forall valid_request h -> map assemble_request_maps h = assemble_history h)
  /\ (forall h, length (assemble_history h) = length h).
Proof.
  unfold assemble_history. repeat split.
  - intros h k d Hk. rewrite (nth_indep _ [] (assemble_request d)) by (rewrite map_length; assumption).
    apply map_nth.
  - intros pre pre' post post' r. rewrite !map_app. simpl.
    rewrite !app_nth2 by (rewrite map_length; lia). rewrite !map_length, !Nat.sub_diag. reflexivity.
  - intros h H. apply map_ext_in. intros r Hr. rewrite Forall_forall in H. apply request_maps_by_hand; auto.
  - intros h. apply map_length.
Qed.

(* ------------------------------------------------------------------ the declared BC pairs matter only through the set they form *)
Lemma list_bool_ext (l l' : list bool) : length l = length l' -> (forall i, i < length l -> nth i l false = nth i l' false) -> l = l'.
Proof.
  revert l'; induction l as [|b l IH]; intros [|b' l'] HL H; simpl in *; try discriminate; auto.
  f_equal; [apply (H 0); lia|]. apply IH; [lia|]. intros i Hi. apply (H (S i)). lia.
Qed.

Lemma mk_isBc_set_ext nNodes dim ebcs ebcs' :
  (forall n c, (exists nodes, In (nodes, c) ebcs /\ In n nodes) <-> (exists nodes, In (nodes, c) ebcs' /\ In n nodes)) ->
  mk_isBc nNodes dim ebcs = mk_isBc nNodes dim ebcs'.
Proof.
  intros H. apply list_bool_ext; [rewrite !mk_isBc_length; reflexivity|].
  rewrite mk_isBc_length. intros i Hi.
  destruct dim as [|dm]; [lia|].
  assert (Hc : i mod S dm < S dm) by (apply Nat.mod_upper_bound; lia).
  assert (Hn : i / S dm < nNodes).
  { apply Nat.div_lt_upper_bound; lia. }
  assert (E : i = (i / S dm) * S dm + i mod S dm) by (rewrite Nat.mul_comm; apply Nat.div_mod; lia).
  rewrite E.
  pose proof (mk_isBc_spec nNodes (S dm) ebcs _ _ Hn Hc) as S1.
  pose proof (mk_isBc_spec nNodes (S dm) ebcs' _ _ Hn Hc) as S2.
  unfold is_bc in S1, S2.
  destruct (nth _ (mk_isBc nNodes (S dm) ebcs) false) eqn:E1, (nth _ (mk_isBc nNodes (S dm) ebcs') false) eqn:E2; auto.
  - assert (true = true) as T by reflexivity. apply S1 in T. apply H in T. apply S2 in T. discriminate.
  - assert (true = true) as T by reflexivity. apply S2 in T. apply H in T. apply S1 in T. discriminate.
Qed.

Lemma request_depends_on_bc_set r r' :
  r_nNodes r = r_nNodes r' -> r_dim r = r_dim r' -> r_conns r = r_conns r' -> r_kvals r = r_kvals r' ->
  (forall n c, (exists nodes, In (nodes, c) (r_ebcs r) /\ In n nodes) <-> (exists nodes, In (nodes, c) (r_ebcs r') /\ In n nodes)) ->
  assemble_request r = assemble_request r' /\ assemble_request_maps r = assemble_request_maps r'.
Proof.
  intros HN HD HC HK HS. unfold assemble_request, assemble_request_maps, request_mask.
  rewrite HN, HD, HC, HK, (mk_isBc_set_ext (r_nNodes r') (r_dim r') (r_ebcs r) (r_ebcs r') HS). auto.
Qed.

(* ------------------------------------------------------------------ non-vacuity / a worked history *)
(* two requests of equal sizes (one 3-node element, 1 field, 4 nodes, one essential node) whose numberings differ, then the first again *)
Definition ex_req_A : request :=
  {| r_nNodes := 4; r_dim := 1; r_ebcs := [([3], 0)]; r_conns := [[0;1;2]]; r_kvals := [[1;2;3;4;5;6;7;8;9]%Z] |}.
Definition ex_req_B : request :=
  {| r_nNodes := 4; r_dim := 1; r_ebcs := [([0], 0)]; r_conns := [[3;2;1]]; r_kvals := [[1;2;3;4;5;6;7;8;9]%Z] |}.

Lemma ex_history :
  valid_request ex_req_A /\ valid_request ex_req_B
  /\ assemble_history [ex_req_A; ex_req_B; ex_req_A]
     = [ [[1;4;7];[2;5;8];[3;6;9]]; [[9;6;3];[8;5;2];[7;4;1]]; [[1;4;7];[2;5;8];[3;6;9]] ]%Z
  /\ map assemble_request_maps [ex_req_A; ex_req_B; ex_req_A] = assemble_history [ex_req_A; ex_req_B; ex_req_A]
  (* same sizes, different index maps *)
  /\ length (HessRowCoords (request_mask ex_req_A) 1 (r_conns ex_req_A)) = length (HessRowCoords (request_mask ex_req_B) 1 (r_conns ex_req_B))
  /\ HessRowCoords (request_mask ex_req_A) 1 (r_conns ex_req_A) <> HessRowCoords (request_mask ex_req_B) 1 (r_conns ex_req_B).
Proof.
  assert (VA : valid_request ex_req_A).
  { split; [repeat constructor|]. constructor; [reflexivity|constructor]. }
  assert (VB : valid_request ex_req_B).
  { split; [repeat constructor|]. constructor; [reflexivity|constructor]. }
  split; [exact VA|]. split; [exact VB|].
  split; [vm_compute; reflexivity|]. split; [vm_compute; reflexivity|]. split; [vm_compute; reflexivity|].
  intro E. vm_compute in E. discriminate E.
Qed.
