(* C02: the Hessian of the total energy w.r.t. the unknowns is the assembled matrix -- chain rule through the affine map
   create_field and the element gathers, for ARBITRARY element energies that are twice differentiable along the 2-planes
   through the current local field (no polynomial restriction).  The point: a line (plane) composed with an affine map is a
   line (plane), so  t |-> E_total(Uu + t v)  IS  t |-> sum_e E_e(x_e + t a_e)  with x_e = G_e U, a_e = G_e P v,
   exactly; what remains is linearity of the derivative over the finite element sum and the index algebra
   sum_e (G_e P v)^T K_e (G_e P w) = v^T K w  with K the assembled matrix (L_C02.assembly_is_PtKP). *)
From Coq Require Import ZArith List Bool Arith Lia Permutation Reals Lra.
From Coquelicot Require Import Coquelicot.
From OV.model Require Import M_C14_Dof M_C02_Assembly M_C02_Energy.
From OV.proofs Require Import L_C14 L_C02.
Import ListNotations.
Local Open Scope R_scope.

(* ------------------------------------------------------------------ finite sums *)
Lemma Rsum_msum {A} (f : A -> R) l : Rsum f l = msum 0 Rplus (map f l).
Proof. reflexivity. Qed.

Lemma Rsum_ext {A} (f g : A -> R) l : (forall x, In x l -> f x = g x) -> Rsum f l = Rsum g l.
Proof. intros H. unfold Rsum. f_equal. apply map_ext_in, H. Qed.

Lemma Rsum_nil {A} (f : A -> R) : Rsum f [] = 0.
Proof. reflexivity. Qed.

Lemma Rsum_cons {A} (f : A -> R) a l : Rsum f (a :: l) = f a + Rsum f l.
Proof. reflexivity. Qed.

Lemma Rsum_plus {A} (f g : A -> R) l : Rsum (fun x => f x + g x) l = Rsum f l + Rsum g l.
Proof. induction l; rewrite ?Rsum_nil, ?Rsum_cons; [lra|rewrite IHl; lra]. Qed.

Lemma Rsum_mult_l {A} c (f : A -> R) l : c * Rsum f l = Rsum (fun x => c * f x) l.
Proof. induction l; rewrite ?Rsum_nil, ?Rsum_cons; [lra|rewrite <- IHl; lra]. Qed.

Lemma Rsum_mult_r {A} c (f : A -> R) l : Rsum f l * c = Rsum (fun x => f x * c) l.
Proof. induction l; rewrite ?Rsum_nil, ?Rsum_cons; [lra|rewrite <- IHl; lra]. Qed.

Lemma Rsum_zero {A} (l : list A) : Rsum (fun _ => 0) l = 0.
Proof. induction l; rewrite ?Rsum_nil, ?Rsum_cons; lra. Qed.

Lemma Rsum_swap {A B} (F : A -> B -> R) X Y :
  Rsum (fun a => Rsum (fun b => F a b) Y) X = Rsum (fun b => Rsum (fun a => F a b) X) Y.
Proof.
  induction X as [|a X IH]; rewrite ?Rsum_cons.
  - rewrite Rsum_nil. symmetry. apply Rsum_zero.
  - rewrite IH, <- Rsum_plus. reflexivity.
Qed.

Lemma Rsum_app {A} (f : A -> R) l1 l2 : Rsum f (l1 ++ l2) = Rsum f l1 + Rsum f l2.
Proof. induction l1; cbn [app]; rewrite ?Rsum_nil, ?Rsum_cons; [lra|rewrite IHl1; lra]. Qed.

Lemma Rsum_map {A B} (f : B -> R) (k : A -> B) l : Rsum f (map k l) = Rsum (fun a => f (k a)) l.
Proof. unfold Rsum. rewrite map_map. reflexivity. Qed.

Lemma Rsum_list_prod {A B} (h : A -> B -> R) X Y :
  Rsum (fun ab => h (fst ab) (snd ab)) (list_prod X Y) = Rsum (fun a => Rsum (fun b => h a b) Y) X.
Proof.
  induction X as [|a X IH]; [reflexivity|].
  cbn [list_prod]. rewrite Rsum_app, Rsum_map, IH, Rsum_cons. reflexivity.
Qed.

(* a sum with a single non-zero term *)
Lemma Rsum_single (f : nat -> R) n j : (j < n)%nat -> (forall i, (i < n)%nat -> i <> j -> f i = 0) -> Rsum f (seq 0 n) = f j.
Proof.
  intros Hj H0.
  assert (G : forall s m, (forall i, (s <= i < s + m)%nat -> i <> j -> f i = 0) ->
              Rsum f (seq s m) = if (s <=? j)%nat && (j <? s + m)%nat then f j else 0).
  { intros s m; revert s; induction m as [|m IH]; intros s Hz; cbn [seq]; rewrite ?Rsum_nil, ?Rsum_cons.
    - destruct (Nat.leb_spec s j), (Nat.ltb_spec j (s + 0)); simpl; auto; lia.
    - rewrite IH by (intros; apply Hz; lia).
      destruct (Nat.eq_dec s j) as [->|NE].
      + replace (S j <=? j)%nat with false by (symmetry; apply Nat.leb_gt; lia).
        replace (j <=? j)%nat with true by (symmetry; apply Nat.leb_le; lia).
        replace (j <? j + S m)%nat with true by (symmetry; apply Nat.ltb_lt; lia). simpl. lra.
      + rewrite (Hz s) by lia.
        destruct (Nat.leb_spec (S s) j), (Nat.leb_spec s j), (Nat.ltb_spec j (S s + m)), (Nat.ltb_spec j (s + S m)); simpl; try lra; lia. }
  rewrite G by (intros; apply H0; lia).
  replace (0 <=? j)%nat with true by (symmetry; apply Nat.leb_le; lia).
  replace (j <? 0 + n)%nat with true by (symmetry; apply Nat.ltb_lt; lia). reflexivity.
Qed.

(* map over combine of equally long lists, re-indexed *)
Lemma map_combine_seq {A B C} (f : A * B -> C) (dA : A) (dB : B) l1 l2 : length l1 = length l2 ->
  map f (combine l1 l2) = map (fun e => f (nth e l1 dA, nth e l2 dB)) (seq 0 (length l1)).
Proof.
  revert l2; induction l1 as [|a l1 IH]; intros [|b l2] H; simpl in *; try discriminate; auto.
  f_equal. rewrite <- seq_shift, map_map. apply IH. lia.
Qed.

(* ------------------------------------------------------------------ A: affine identities *)
Lemma lin_length x t a : length a = length x -> length (lin x t a) = length x.
Proof. intros H. unfold lin. rewrite map_length, combine_length, H. apply Nat.min_id. Qed.

Lemma lin_nth x t a d : length a = length x -> nth d (lin x t a) 0 = nth d x 0 + t * nth d a 0.
Proof.
  unfold lin. revert a d; induction x as [|x0 x IH]; intros [|a0 a] d H; simpl in *; try discriminate.
  - destruct d; lra.
  - destruct d; [reflexivity|]. apply IH. lia.
Qed.

Lemma lin_map {A} (f g : A -> R) t l : lin (map f l) t (map g l) = map (fun d => f d + t * g d) l.
Proof. unfold lin. induction l; simpl; auto. rewrite IHl; reflexivity. Qed.

Lemma lin_repeat0 t n : lin (repeat 0 n) t (repeat 0 n) = repeat 0 n.
Proof. unfold lin. induction n; simpl; auto. rewrite IHn. f_equal. lra. Qed.

Lemma lin_zero_dir x t : lin x t (repeat 0 (length x)) = x.
Proof. unfold lin. induction x; simpl; auto. rewrite IHx. f_equal. lra. Qed.

Lemma mask_set_lin t m : forall b1 b2 x1 x2, length b2 = length b1 -> length x2 = length x1 ->
  mask_set m (lin b1 t b2) (lin x1 t x2) = lin (mask_set m b1 x1) t (mask_set m b2 x2).
Proof.
  unfold lin. induction m as [|b m IH]; intros [|p b1] [|q b2] x1 x2 Hb Hx; simpl in *; try discriminate; auto.
  destruct b.
  - destruct x1 as [|u x1], x2 as [|w x2]; simpl in *; try discriminate.
    + f_equal. apply (IH b1 b2 [] []); auto; lia.
    + f_equal. apply IH; lia.
  - simpl. f_equal. apply IH; auto; lia.
Qed.

Section Affine.
  Variable isBc : list bool.
  Variable dim : nat.

  (* create_field is affine in the unknowns; its linear part is P = create_field(., 0) *)
  Definition Pfield (v : list R) (nbc : nat) : list R := create_field isBc 0 v (repeat 0 nbc).

  Lemma create_field_lin Uu Ubc t v : length v = length Uu ->
    create_field isBc 0 (lin Uu t v) Ubc = lin (create_field isBc 0 Uu Ubc) t (Pfield v (length Ubc)).
  Proof.
    intros H. unfold Pfield, create_field.
    rewrite <- mask_set_lin; auto.
    - f_equal. rewrite <- (lin_repeat0 t) at 1. rewrite <- (lin_zero_dir Ubc t) at 1. apply mask_set_lin; rewrite ?repeat_length; auto.
    - rewrite !mask_set_length. reflexivity.
  Qed.

  Lemma Pfield_length v nbc : length (Pfield v nbc) = length isBc.
  Proof. apply create_field_length. Qed.

  Lemma gather_local_lin U t W en : length W = length U ->
    gather_local 0 dim (lin U t W) en = lin (gather_local 0 dim U en) t (gather_local 0 dim W en).
  Proof.
    intros H. unfold gather_local. rewrite lin_map. apply map_ext. intros d. apply lin_nth; assumption.
  Qed.

  Lemma gather_local_length U en : length (gather_local 0 dim U en) = length (el_dofs dim en).
  Proof. unfold gather_local. apply map_length. Qed.

  Lemma gather_local_nth U en p : (p < length (el_dofs dim en))%nat ->
    nth p (gather_local 0 dim U en) 0 = nth (nth p (el_dofs dim en) 0%nat) U 0.
  Proof.
    intros Hp. unfold gather_local.
    rewrite (nth_indep _ 0 ((fun d => nth d U 0) 0%nat)) by (rewrite map_length; assumption).
    apply (map_nth (fun d => nth d U 0)).
  Qed.

  (* the element's view of the two-parameter family Uu + s v + t w *)
  Lemma local_plane Uu Ubc v w s t en : length v = length Uu -> length w = length Uu ->
    gather_local 0 dim (create_field isBc 0 (lin (lin Uu s v) t w) Ubc) en
    = lin (lin (gather_local 0 dim (create_field isBc 0 Uu Ubc) en) s (gather_local 0 dim (Pfield v (length Ubc)) en)) t
          (gather_local 0 dim (Pfield w (length Ubc)) en).
  Proof.
    intros Hv Hw.
    rewrite create_field_lin by (rewrite lin_length; assumption).
    rewrite create_field_lin by assumption.
    rewrite gather_local_lin by (rewrite lin_length; rewrite Pfield_length, ?create_field_length; reflexivity).
    rewrite gather_local_lin by (rewrite Pfield_length, create_field_length; reflexivity).
    reflexivity.
  Qed.

  Lemma local_line Uu Ubc v t en : length v = length Uu ->
    gather_local 0 dim (create_field isBc 0 (lin Uu t v) Ubc) en
    = lin (gather_local 0 dim (create_field isBc 0 Uu Ubc) en) t (gather_local 0 dim (Pfield v (length Ubc)) en).
  Proof.
    intros Hv. rewrite create_field_lin by assumption.
    rewrite gather_local_lin by (rewrite Pfield_length, create_field_length; reflexivity). reflexivity.
  Qed.
End Affine.

(* ------------------------------------------------------------------ B: second derivatives of two-parameter families *)
(* k is the mixed second derivative  d/ds d/dt F(s,t)  at (0,0): the inner derivative exists for s near 0 and
   s |-> dF/dt(s,0) is differentiable at 0 with derivative k *)
Definition mixed2 (F : R -> R -> R) (k : R) : Prop :=
  locally 0 (fun s => ex_derive (F s) 0) /\ is_derive (fun s => Derive (F s) 0) 0 k.
(* k is the second derivative of f at 0: f is differentiable near 0 and f' is differentiable at 0 with derivative k
   (is_derive_n f 2 0 k plus the existence of f' around 0, which Derive_n totalises away) *)
Definition line2 (f : R -> R) (k : R) : Prop :=
  locally 0 (fun t => ex_derive f t) /\ is_derive_n f 2 0 k.

Lemma mixed2_ext F G k : (forall s t, F s t = G s t) -> mixed2 F k -> mixed2 G k.
Proof.
  intros E [H1 H2]. split.
  - revert H1. apply filter_imp. intros s Hs. eapply ex_derive_ext; [|exact Hs]. intros t; apply E.
  - eapply is_derive_ext; [|exact H2]. intros s. simpl. apply Derive_ext. intros t; apply E.
Qed.

Lemma mixed2_zero : mixed2 (fun _ _ => 0) 0.
Proof.
  split.
  - apply filter_forall. intros s. apply ex_derive_const.
  - apply (is_derive_ext (fun _ => 0)).
    + intros s. symmetry. apply Derive_const.
    + apply (is_derive_const (K := R_AbsRing) (V := R_NormedModule) 0 0).
Qed.

Lemma mixed2_plus F G k l : mixed2 F k -> mixed2 G l -> mixed2 (fun s t => F s t + G s t) (k + l).
Proof.
  intros [F1 F2] [G1 G2]. split.
  - generalize (filter_and _ _ F1 G1). apply filter_imp. intros s [A B].
    apply (ex_derive_plus (F s) (G s)); assumption.
  - apply (is_derive_ext_loc (fun s => Derive (F s) 0 + Derive (G s) 0)).
    + generalize (filter_and _ _ F1 G1). apply filter_imp. intros s [A B]. symmetry. apply Derive_plus; assumption.
    + apply (is_derive_plus (fun s => Derive (F s) 0) (fun s => Derive (G s) 0)); assumption.
Qed.

Lemma mixed2_Rsum {A} (F : A -> R -> R -> R) (k : A -> R) l :
  (forall x, In x l -> mixed2 (F x) (k x)) -> mixed2 (fun s t => Rsum (fun x => F x s t) l) (Rsum k l).
Proof.
  induction l as [|a l IH]; intros H.
  - apply mixed2_zero.
  - change (mixed2 (fun s t => F a s t + Rsum (fun x => F x s t) l) (k a + Rsum k l)).
    apply mixed2_plus; [apply H; left; reflexivity|apply IH; intros; apply H; right; assumption].
Qed.

Lemma line2_ext f g k : (forall t, f t = g t) -> line2 f k -> line2 g k.
Proof.
  intros E [H1 H2]. split.
  - revert H1. apply filter_imp. intros t Ht. eapply ex_derive_ext; [|exact Ht]. intros u; apply E.
  - eapply is_derive_n_ext; [|exact H2]. intros t; apply E.
Qed.

Lemma line2_zero : line2 (fun _ => 0) 0.
Proof.
  split.
  - apply filter_forall. intros t. apply ex_derive_const.
  - change (is_derive (Derive (fun _ : R => 0)) 0 0).
    apply (is_derive_ext (fun _ => 0)).
    + intros s. symmetry. apply Derive_const.
    + apply (is_derive_const (K := R_AbsRing) (V := R_NormedModule) 0 0).
Qed.

Lemma line2_plus f g k l : line2 f k -> line2 g l -> line2 (fun t => f t + g t) (k + l).
Proof.
  intros [F1 F2] [G1 G2]. split.
  - generalize (filter_and _ _ F1 G1). apply filter_imp. intros s [A B].
    apply (ex_derive_plus f g); assumption.
  - change (is_derive (Derive (fun t => f t + g t)) 0 (k + l)).
    change (is_derive (Derive f) 0 k) in F2. change (is_derive (Derive g) 0 l) in G2.
    apply (is_derive_ext_loc (fun s => Derive f s + Derive g s)).
    + generalize (filter_and _ _ F1 G1). apply filter_imp. intros s [A B]. symmetry. apply Derive_plus; assumption.
    + apply (is_derive_plus (Derive f) (Derive g)); assumption.
Qed.

Lemma line2_Rsum {A} (F : A -> R -> R) (k : A -> R) l :
  (forall x, In x l -> line2 (F x) (k x)) -> line2 (fun t => Rsum (fun x => F x t) l) (Rsum k l).
Proof.
  induction l as [|a l IH]; intros H.
  - apply line2_zero.
  - change (line2 (fun t => F a t + Rsum (fun x => F x t) l) (k a + Rsum k l)).
    apply line2_plus; [apply H; left; reflexivity|apply IH; intros; apply H; right; assumption].
Qed.

(* ------------------------------------------------------------------ C: index algebra *)
Lemma nth_in_mask_select {A} (x : A) m : forall l d, nth d m false = true -> (d < length l)%nat -> In (nth d l x) (mask_select m l).
Proof.
  induction m as [|b m IH]; intros [|y l] d Hm Hd; simpl in *; try lia.
  - destruct d; discriminate.
  - destruct d as [|d].
    + subst b. left; reflexivity.
    + destruct b; [right|]; apply IH; auto; lia.
Qed.

Definition ind (b : bool) : R := if b then 1 else 0.

Section PField.
  Variable isBc : list bool.
  Let nu := get_unknown_size isBc.
  Let uidx (i : nat) : nat := nth i (unknownIndices isBc) 0%nat.

  (* (P v)[d] = v[unknown(d)] on unknown dofs, 0 on constrained (and out-of-range) ones; written as sum_i [d = u_i] v_i *)
  Lemma Pfield_nth v d : length v = nu ->
    nth d (Pfield isBc v (get_bc_size isBc)) 0 = Rsum (fun i => ind (d =? uidx i)%nat * nth i v 0) (seq 0 nu).
  Proof.
    intros Hv. set (V := Pfield isBc v (get_bc_size isBc)).
    assert (LV : length V = length isBc) by apply Pfield_length.
    assert (Hnone : (forall i, (i < nu)%nat -> d <> uidx i) -> Rsum (fun i => ind (d =? uidx i)%nat * nth i v 0) (seq 0 nu) = 0).
    { intros Hn. rewrite <- (Rsum_zero (seq 0 nu)). apply Rsum_ext. intros i Hi. apply in_seq in Hi.
      destruct (Nat.eqb_spec d (uidx i)) as [E|_]; [exfalso; apply (Hn i); [lia|exact E]|]. unfold ind. lra. }
    assert (Hu : forall i, (i < nu)%nat -> (uidx i < length isBc)%nat /\ is_bc isBc (uidx i) = false).
    { intros i Hi. apply In_unknownIndices. apply nth_In. rewrite length_unknownIndices. exact Hi. }
    destruct (Nat.lt_ge_cases d (length isBc)) as [Hd|Hd].
    2:{ rewrite nth_overflow by (rewrite LV; exact Hd). symmetry. apply Hnone. intros i Hi E. destruct (Hu i Hi) as [H1 _]. lia. }
    destruct (is_bc isBc d) eqn:Eb.
    - assert (Hin : In (nth d V 0) (get_bc_values isBc V)).
      { unfold get_bc_values. apply nth_in_mask_select; [exact Eb|rewrite LV; exact Hd]. }
      assert (HB : get_bc_values isBc V = repeat 0 (get_bc_size isBc)) by (apply get_bc_create; apply repeat_length).
      rewrite HB in Hin. apply repeat_spec in Hin. rewrite Hin. symmetry. apply Hnone.
      intros i Hi E. destruct (Hu i Hi) as [_ H2]. rewrite <- E in H2. congruence.
    - destruct (unk_unknown isBc 0 d V LV Hd Eb) as (j & U1 & U2 & U3).
      destruct (unk_inverse_left isBc d Hd Eb) as (j' & W1 & W2 & W3).
      assert (j' = j) by (apply Nat2Z.inj; congruence). subst j'.
      assert (HU : get_unknown_values isBc V = v) by (apply get_unknown_create; exact Hv).
      rewrite HU in U3. rewrite <- U3.
      rewrite (Rsum_single _ nu j U2).
      + fold (uidx j) in W3. rewrite W3, Nat.eqb_refl. unfold ind. lra.
      + intros i Hi NE. destruct (Nat.eqb_spec d (uidx i)) as [E|_]; [|unfold ind; lra].
        exfalso. apply NE.
        pose proof (sorted_lt_NoDup _ (unknownIndices_sorted isBc)) as ND.
        rewrite (NoDup_nth _ 0%nat) in ND. apply ND; rewrite ?length_unknownIndices; auto.
        unfold uidx in E. rewrite <- E. symmetry. exact W3.
  Qed.
End PField.

Lemma Rsum_prod3 {A B} (a : A -> R) (b : B -> R) k X Y :
  Rsum a X * k * Rsum b Y = Rsum (fun i => Rsum (fun j => a i * k * b j) Y) X.
Proof.
  rewrite Rsum_mult_r, Rsum_mult_r. apply Rsum_ext; intros i _. apply Rsum_mult_l.
Qed.

(* v^T M w = sum_p sum_q (sum_i c(p,i) v_i) K(p,q) (sum_j c(q,j) w_j)  when  M(i,j) = sum_{p,q} c(p,i) c(q,j) K(p,q) *)
Lemma scatter_bilinear (c : nat -> nat -> R) (K : nat -> nat -> R) (v w : nat -> R) I P :
  Rsum (fun i => Rsum (fun j => v i * Rsum (fun pq => c (fst pq) i * c (snd pq) j * K (fst pq) (snd pq)) (list_prod P P) * w j) I) I
  = Rsum (fun p => Rsum (fun q => Rsum (fun i => c p i * v i) I * K p q * Rsum (fun j => c q j * w j) I) P) P.
Proof.
  transitivity (Rsum (fun ij => Rsum (fun pq => (c (fst pq) (fst ij) * v (fst ij)) * K (fst pq) (snd pq) * (c (snd pq) (snd ij) * w (snd ij))) (list_prod P P)) (list_prod I I)).
  - rewrite (Rsum_list_prod (fun i j => Rsum (fun pq => c (fst pq) i * v i * K (fst pq) (snd pq) * (c (snd pq) j * w j)) (list_prod P P))).
    apply Rsum_ext; intros i _. apply Rsum_ext; intros j _.
    rewrite Rsum_mult_l. rewrite (Rsum_mult_r (w j)). apply Rsum_ext; intros pq _. ring.
  - rewrite Rsum_swap.
    rewrite (Rsum_list_prod (fun p q => Rsum (fun ij => c p (fst ij) * v (fst ij) * K p q * (c q (snd ij) * w (snd ij))) (list_prod I I))).
    apply Rsum_ext; intros p _. apply Rsum_ext; intros q _.
    rewrite (Rsum_list_prod (fun i j => c p i * v i * K p q * (c q j * w j))).
    rewrite Rsum_prod3. apply Rsum_ext; intros i _. apply Rsum_ext; intros j _. ring.
Qed.

(* the straight scatter sum of L_C02 written with indicator products, element by element *)
Lemma sum_where_Rsum {X} (P : X -> bool) (l : list (X * R)) :
  sum_where 0 Rplus P l = Rsum (fun xv => ind (P (fst xv)) * snd xv) l.
Proof.
  unfold sum_where. induction l as [|[x r] l IH]; [reflexivity|].
  rewrite Rsum_cons. cbn [fold_right fst snd]. rewrite IH. unfold ind. destruct (P x); lra.
Qed.

Definition E0 : list R -> R := fun _ => 0.
Definition K0 : nat -> nat -> R := fun _ _ => 0.

Section Chain.
  Variable isBc : list bool.
  Variable dim : nat.
  Variable conns : list (list nat).
  Let nu := get_unknown_size isBc.
  Let uidx (i : nat) : nat := nth i (unknownIndices isBc) 0%nat.
  Let elem (e : nat) : list nat := nth e conns [].
  Let nloc (e : nat) : nat := length (el_dofs dim (elem e)).
  Let D (e p : nat) : nat := nth p (el_dofs dim (elem e)) 0%nat.

  Lemma straight_scatter_Rsum (Ks : list (nat -> nat -> R)) di dj : length conns = length Ks ->
    sum_where 0 Rplus (scatters_to_straight dim di dj) (all_entries dim conns (kvals_of dim conns Ks))
    = Rsum (fun e => Rsum (fun pq => ind (D e (fst pq) =? di)%nat * ind (D e (snd pq) =? dj)%nat * nth e Ks K0 (fst pq) (snd pq))
                          (list_prod (seq 0 (nloc e)) (seq 0 (nloc e)))) (seq 0 (length conns)).
  Proof.
    intros HL. rewrite all_entries_of by assumption. rewrite sum_where_Rsum.
    transitivity (Rsum (fun eK : list nat * (nat -> nat -> R) =>
                          Rsum (fun pq => ind (nth (fst pq) (el_dofs dim (fst eK)) 0 =? di)%nat * ind (nth (snd pq) (el_dofs dim (fst eK)) 0 =? dj)%nat
                                          * snd eK (fst pq) (snd pq)) (el_pairs dim (fst eK))) (combine conns Ks)).
    - generalize (combine conns Ks). intros l. induction l as [|eK l IH]; [reflexivity|].
      cbn [flat_map]. rewrite Rsum_app, Rsum_cons, IH. f_equal.
      rewrite Rsum_map. apply Rsum_ext. intros [p q] _. unfold scatters_to_straight. cbn [fst snd].
      unfold ind. destruct (_ =? di)%nat, (_ =? dj)%nat; simpl; lra.
    - unfold Rsum at 1. rewrite (map_combine_seq _ [] K0) by assumption. reflexivity.
  Qed.

  Variable nNodes : nat.
  Variable Ks : list (nat -> nat -> R).
  Hypothesis Hsize : length isBc = (nNodes * dim)%nat.
  Hypothesis Hconns : valid_conns nNodes conns.
  Hypothesis Hsym : blocks_symmetric dim conns Ks.

  Definition Kasm (i j : nat) : R := dense 0 Rplus (coo_triples isBc dim conns (kvals_of dim conns Ks)) (Z.of_nat i) (Z.of_nat j).

  (* sum_e (G_e P v)^T K_e (G_e P w) = v^T K w *)
  Lemma element_forms_assemble v w : length v = nu -> length w = nu ->
    Rsum (fun e => bil (nloc e) (nth e Ks K0)
                       (gather_local 0 dim (Pfield isBc v (get_bc_size isBc)) (elem e))
                       (gather_local 0 dim (Pfield isBc w (get_bc_size isBc)) (elem e))) (seq 0 (length conns))
    = bil nu Kasm v w.
  Proof.
    intros Hv Hw. assert (HL : length conns = length Ks) by (eapply Forall2_len; eassumption).
    symmetry. unfold bil at 1.
    transitivity (Rsum (fun i => Rsum (fun j => Rsum (fun e =>
        nth i v 0 * Rsum (fun pq => ind (D e (fst pq) =? uidx i)%nat * ind (D e (snd pq) =? uidx j)%nat * nth e Ks K0 (fst pq) (snd pq))
                         (list_prod (seq 0 (nloc e)) (seq 0 (nloc e))) * nth j w 0) (seq 0 (length conns))) (seq 0 nu)) (seq 0 nu)).
    { apply Rsum_ext; intros i Hi. apply Rsum_ext; intros j Hj. apply in_seq in Hi. apply in_seq in Hj.
      unfold Kasm. rewrite (assembly_is_PtKP_R isBc dim nNodes conns Ks i j) by (auto; unfold nu in *; lia).
      rewrite straight_scatter_Rsum by assumption.
      rewrite Rsum_mult_l, Rsum_mult_r. reflexivity. }
    transitivity (Rsum (fun e => Rsum (fun i => Rsum (fun j =>
        nth i v 0 * Rsum (fun pq => ind (D e (fst pq) =? uidx i)%nat * ind (D e (snd pq) =? uidx j)%nat * nth e Ks K0 (fst pq) (snd pq))
                         (list_prod (seq 0 (nloc e)) (seq 0 (nloc e))) * nth j w 0) (seq 0 nu)) (seq 0 nu)) (seq 0 (length conns))).
    { rewrite (Rsum_swap _ (seq 0 (length conns)) (seq 0 nu)). apply Rsum_ext; intros i _. apply Rsum_swap. }
    apply Rsum_ext; intros e _.
    rewrite (scatter_bilinear (fun p i => ind (D e p =? uidx i)%nat) (nth e Ks K0) (fun i => nth i v 0) (fun j => nth j w 0)).
    unfold bil. apply Rsum_ext; intros p Hp. apply Rsum_ext; intros q Hq. apply in_seq in Hp. apply in_seq in Hq.
    rewrite !gather_local_nth by (unfold nloc, elem in *; lia).
    rewrite !Pfield_nth by assumption. reflexivity.
  Qed.
End Chain.

(* ------------------------------------------------------------------ D: the chain rule *)
(* K holds the second directional derivatives of the element energy E at the local field x (n local dofs):
   d/ds d/dt E(x + s a + t b) at (0,0) = a^T K b for all directions a, b *)
Definition represents (n : nat) (E : list R -> R) (x : list R) (K : nat -> nat -> R) : Prop :=
  forall a b, length a = n -> length b = n -> mixed2 (fun s t => E (lin (lin x s a) t b)) (bil n K a b).
(* ... along single lines only: d2/dt2 E(x + t a) at 0 = a^T K a *)
Definition represents_line (n : nat) (E : list R -> R) (x : list R) (K : nat -> nat -> R) : Prop :=
  forall a, length a = n -> line2 (fun t => E (lin x t a)) (bil n K a a).

Section ChainRule.
  Variable isBc : list bool.
  Variable dim nNodes : nat.
  Variable conns : list (list nat).
  Variable Es : list (list R -> R).
  Variable Ks : list (nat -> nat -> R).
  Variables Uu Ubc : list R.
  Hypothesis Hsize : length isBc = (nNodes * dim)%nat.
  Hypothesis Hconns : valid_conns nNodes conns.
  Hypothesis Hsym : blocks_symmetric dim conns Ks.
  Hypothesis HEs : length Es = length conns.
  Hypothesis HUu : length Uu = get_unknown_size isBc.
  Hypothesis HUbc : length Ubc = get_bc_size isBc.

  Let U := create_field isBc 0 Uu Ubc.
  Let nloc (e : nat) := length (el_dofs dim (nth e conns [])).

  Lemma reduced_energy_Rsum W :
    reduced_energy isBc dim conns Es Ubc W
    = Rsum (fun e => nth e Es E0 (gather_local 0 dim (create_field isBc 0 W Ubc) (nth e conns []))) (seq 0 (length conns)).
  Proof.
    unfold reduced_energy, total_energy. fold (Rsum (fun eE : list nat * (list R -> R) => snd eE (gather_local 0 dim (create_field isBc 0 W Ubc) (fst eE))) (combine conns Es)).
    unfold Rsum. rewrite (map_combine_seq _ [] E0) by (symmetry; assumption). reflexivity.
  Qed.

  (* mixed second derivative in directions (v, w) *)
  Lemma hessian_chain v w : length v = get_unknown_size isBc -> length w = get_unknown_size isBc ->
    (forall e, (e < length conns)%nat ->
        represents (nloc e) (nth e Es E0) (gather_local 0 dim U (nth e conns [])) (nth e Ks K0)) ->
    mixed2 (fun s t => reduced_energy isBc dim conns Es Ubc (lin (lin Uu s v) t w))
           (bil (get_unknown_size isBc) (Kasm isBc dim conns Ks) v w).
  Proof.
    intros Hv Hw HR.
    rewrite <- (element_forms_assemble isBc dim conns nNodes Ks Hsize Hconns Hsym v w Hv Hw).
    apply (mixed2_ext (fun s t => Rsum (fun e => nth e Es E0
              (lin (lin (gather_local 0 dim U (nth e conns [])) s (gather_local 0 dim (Pfield isBc v (get_bc_size isBc)) (nth e conns []))) t
                   (gather_local 0 dim (Pfield isBc w (get_bc_size isBc)) (nth e conns [])))) (seq 0 (length conns)))).
    - intros s t. rewrite reduced_energy_Rsum. apply Rsum_ext; intros e _.
      rewrite local_plane by congruence. rewrite HUbc. reflexivity.
    - apply (mixed2_Rsum (fun e s t => nth e Es E0 (lin (lin (gather_local 0 dim U (nth e conns [])) s _) t _))).
      intros e He. apply in_seq in He. apply HR; [lia|apply gather_local_length|apply gather_local_length].
  Qed.

  (* second derivative along the line Uu + t v *)
  Lemma hessian_chain_line v : length v = get_unknown_size isBc ->
    (forall e, (e < length conns)%nat ->
        represents_line (nloc e) (nth e Es E0) (gather_local 0 dim U (nth e conns [])) (nth e Ks K0)) ->
    line2 (fun t => reduced_energy isBc dim conns Es Ubc (lin Uu t v))
          (bil (get_unknown_size isBc) (Kasm isBc dim conns Ks) v v).
  Proof.
    intros Hv HR.
    rewrite <- (element_forms_assemble isBc dim conns nNodes Ks Hsize Hconns Hsym v v Hv Hv).
    apply (line2_ext (fun t => Rsum (fun e => nth e Es E0
              (lin (gather_local 0 dim U (nth e conns [])) t (gather_local 0 dim (Pfield isBc v (get_bc_size isBc)) (nth e conns [])))) (seq 0 (length conns)))).
    - intros t. rewrite reduced_energy_Rsum. apply Rsum_ext; intros e _.
      rewrite local_line by congruence. rewrite HUbc. reflexivity.
    - apply (line2_Rsum (fun e t => nth e Es E0 (lin (gather_local 0 dim U (nth e conns [])) t _))).
      intros e He. apply in_seq in He. apply HR; [lia|apply gather_local_length].
  Qed.
End ChainRule.

(* ------------------------------------------------------------------ E: instances -- quadratic element energies (unconditional), a cubic one *)
Lemma Rsum_lin (g : nat -> R) x t a n : length a = length x ->
  Rsum (fun p => g p * nth p (lin x t a) 0) (seq 0 n) = Rsum (fun p => g p * nth p x 0) (seq 0 n) + t * Rsum (fun p => g p * nth p a 0) (seq 0 n).
Proof.
  intros H. rewrite Rsum_mult_l, <- Rsum_plus. apply Rsum_ext; intros p _. rewrite lin_nth by assumption. ring.
Qed.

Lemma bil_lin_l n K x t a y : length a = length x -> bil n K (lin x t a) y = bil n K x y + t * bil n K a y.
Proof.
  intros H. unfold bil. rewrite Rsum_mult_l, <- Rsum_plus. apply Rsum_ext; intros p _.
  rewrite Rsum_mult_l, <- Rsum_plus. apply Rsum_ext; intros q _. rewrite lin_nth by assumption. ring.
Qed.

Lemma bil_lin_r n K x t a y : length a = length x -> bil n K y (lin x t a) = bil n K y x + t * bil n K y a.
Proof.
  intros H. unfold bil. rewrite Rsum_mult_l, <- Rsum_plus. apply Rsum_ext; intros p _.
  rewrite Rsum_mult_l, <- Rsum_plus. apply Rsum_ext; intros q _. rewrite lin_nth by assumption. ring.
Qed.

Lemma bil_sym n K a b : (forall p q, (p < n)%nat -> (q < n)%nat -> K p q = K q p) -> bil n K a b = bil n K b a.
Proof.
  intros HS. unfold bil. rewrite Rsum_swap. apply Rsum_ext; intros p Hp. apply Rsum_ext; intros q Hq.
  apply in_seq in Hp. apply in_seq in Hq. rewrite (HS q p) by lia. ring.
Qed.

Lemma mixed2_poly c0 c1 c2 c3 c4 c5 :
  mixed2 (fun s t => c0 + c1 * s + c2 * t + c3 * (s * s) + c4 * (s * t) + c5 * (t * t)) c4.
Proof.
  split.
  - apply filter_forall. intros s. auto_derive. exact I.
  - apply (is_derive_ext (fun s => c2 + c4 * s)).
    + intros s. symmetry. apply is_derive_unique. auto_derive; [exact I|ring].
    + auto_derive; [exact I|ring].
Qed.

Lemma line2_poly c0 c1 c2 : line2 (fun t => c0 + c1 * t + c2 * (t * t)) (2 * c2).
Proof.
  split.
  - apply filter_forall. intros t. auto_derive. exact I.
  - change (is_derive (Derive (fun t => c0 + c1 * t + c2 * (t * t))) 0 (2 * c2)).
    apply (is_derive_ext (fun t => c1 + 2 * c2 * t)).
    + intros t. symmetry. apply is_derive_unique. auto_derive; [exact I|ring].
    + auto_derive; [exact I|ring].
Qed.

Lemma quad_represents n c g K x : length x = n -> (forall p q, (p < n)%nat -> (q < n)%nat -> K p q = K q p) ->
  represents n (quad_energy n c g K) x K /\ represents_line n (quad_energy n c g K) x K.
Proof.
  intros Hx HS. split.
  - intros a b Ha Hb.
    set (G := fun y => Rsum (fun p => g p * nth p y 0) (seq 0 n)).
    apply (mixed2_ext (fun s t => (c + G x + / 2 * bil n K x x) + (G a + / 2 * (bil n K x a + bil n K a x)) * s
                                  + (G b + / 2 * (bil n K x b + bil n K b x)) * t + (/ 2 * bil n K a a) * (s * s)
                                  + bil n K a b * (s * t) + (/ 2 * bil n K b b) * (t * t))); [|apply mixed2_poly].
    intros s t. unfold quad_energy. fold (G (lin (lin x s a) t b)).
    assert (L1 : length a = length x) by congruence.
    assert (L2 : length b = length (lin x s a)) by (rewrite lin_length; congruence).
    unfold G. rewrite !Rsum_lin by assumption.
    rewrite !bil_lin_l, !bil_lin_r by assumption.
    rewrite (bil_sym n K b a HS). field.
  - intros a Ha.
    set (G := fun y => Rsum (fun p => g p * nth p y 0) (seq 0 n)).
    replace (bil n K a a) with (2 * (/ 2 * bil n K a a)) by field.
    apply (line2_ext (fun t => (c + G x + / 2 * bil n K x x) + (G a + / 2 * (bil n K x a + bil n K a x)) * t
                               + (/ 2 * bil n K a a) * (t * t))); [|apply line2_poly].
    intros t. unfold quad_energy. fold (G (lin x t a)).
    assert (L1 : length a = length x) by congruence.
    unfold G. rewrite !Rsum_lin by assumption.
    rewrite !bil_lin_l, !bil_lin_r by assumption. field.
Qed.

Lemma Forall2_nth {A B} (R : A -> B -> Prop) dA dB l l' e : Forall2 R l l' -> (e < length l)%nat -> R (nth e l dA) (nth e l' dB).
Proof.
  intros H; revert e; induction H; intros [|e] He; simpl in *; try lia; auto. apply IHForall2; lia.
Qed.

(* every element energy is quadratic with (symmetric) matrix K_e: the assembled matrix IS the Hessian, no further hypothesis *)
Lemma hessian_quadratic isBc dim nNodes conns (Es : list (list R -> R)) (Ks : list (nat -> nat -> R)) Uu Ubc v w :
  length isBc = (nNodes * dim)%nat -> valid_conns nNodes conns -> blocks_symmetric dim conns Ks -> length Es = length conns ->
  length Uu = get_unknown_size isBc -> length Ubc = get_bc_size isBc ->
  length v = get_unknown_size isBc -> length w = get_unknown_size isBc ->
  (forall e, (e < length conns)%nat -> exists c g, forall x,
        nth e Es E0 x = quad_energy (length (el_dofs dim (nth e conns []))) c g (nth e Ks K0) x) ->
  mixed2 (fun s t => reduced_energy isBc dim conns Es Ubc (lin (lin Uu s v) t w))
         (bil (get_unknown_size isBc) (Kasm isBc dim conns Ks) v w)
  /\ line2 (fun t => reduced_energy isBc dim conns Es Ubc (lin Uu t v))
           (bil (get_unknown_size isBc) (Kasm isBc dim conns Ks) v v).
Proof.
  intros Hsize Hc Hsym HEs HUu HUbc Hv Hw HQ.
  assert (HS : forall e, (e < length conns)%nat -> forall p q,
             (p < length (el_dofs dim (nth e conns [])))%nat -> (q < length (el_dofs dim (nth e conns [])))%nat ->
             nth e Ks K0 p q = nth e Ks K0 q p).
  { intros e He. apply (Forall2_nth _ [] K0 _ _ e Hsym He). }
  split.
  - apply (hessian_chain isBc dim nNodes conns Es Ks Uu Ubc); auto.
    intros e He. destruct (HQ e He) as (c & g & HE). intros a b Ha Hb.
    apply (mixed2_ext (fun s t => quad_energy (length (el_dofs dim (nth e conns []))) c g (nth e Ks K0)
                                   (lin (lin (gather_local 0 dim (create_field isBc 0 Uu Ubc) (nth e conns [])) s a) t b))).
    + intros s t. symmetry. apply HE.
    + apply quad_represents; auto using gather_local_length.
  - apply (hessian_chain_line isBc dim nNodes conns Es Ks Uu Ubc); auto.
    intros e He. destruct (HQ e He) as (c & g & HE). intros a Ha.
    apply (line2_ext (fun t => quad_energy (length (el_dofs dim (nth e conns []))) c g (nth e Ks K0)
                                  (lin (gather_local 0 dim (create_field isBc 0 Uu Ubc) (nth e conns [])) t a))).
    + intros t. symmetry. apply HE.
    + apply quad_represents; auto using gather_local_length.
Qed.

(* a non-quadratic energy with a state-dependent Hessian: E(x) = x_0^3 on one local dof, K(x) = [6 x_0] *)
Lemma cubic_represents x0 : represents 1 (fun x => nth 0 x 0 ^ 3) [x0] (fun _ _ => 6 * x0).
Proof.
  intros a b Ha Hb.
  destruct a as [|a0 [|? ?]]; try discriminate. destruct b as [|b0 [|? ?]]; try discriminate.
  replace (bil 1 (fun _ _ => 6 * x0) [a0] [b0]) with (6 * x0 * a0 * b0) by (unfold bil, Rsum; simpl; ring).
  apply (mixed2_ext (fun s t => (x0 + s * a0 + t * b0) ^ 3)); [intros s t; reflexivity|].
  split.
  - apply filter_forall. intros s. auto_derive. exact I.
  - apply (is_derive_ext (fun s => 3 * (x0 + s * a0) ^ 2 * b0)).
    + intros s. symmetry. apply is_derive_unique. auto_derive; [exact I|ring].
    + auto_derive; [exact I|ring].
Qed.

(* ------------------------------------------------------------------ F: coordinate form -- entry (i,j) is the mixed partial derivative *)
Definition unitv (n i : nat) : list R := map (fun k => ind (k =? i)%nat) (seq 0 n).

Lemma unitv_length n i : length (unitv n i) = n.
Proof. unfold unitv. rewrite map_length, seq_length. reflexivity. Qed.

Lemma unitv_nth n i p : (p < n)%nat -> nth p (unitv n i) 0 = ind (p =? i)%nat.
Proof.
  intros Hp. unfold unitv.
  rewrite (nth_indep _ 0 ((fun k => ind (k =? i)%nat) 0%nat)) by (rewrite map_length, seq_length; assumption).
  rewrite (map_nth (fun k => ind (k =? i)%nat)). rewrite seq_nth by assumption. reflexivity.
Qed.

Lemma bil_unit n K i j : (i < n)%nat -> (j < n)%nat -> bil n K (unitv n i) (unitv n j) = K i j.
Proof.
  intros Hi Hj. unfold bil.
  rewrite (Rsum_single _ n i Hi).
  - rewrite (Rsum_single _ n j Hj).
    + rewrite !unitv_nth by assumption. rewrite !Nat.eqb_refl. unfold ind. ring.
    + intros q Hq NE. rewrite (unitv_nth n j q) by assumption.
      destruct (Nat.eqb_spec q j); [contradiction|]. unfold ind. ring.
  - intros p Hp NE. rewrite (Rsum_ext _ (fun _ => 0)); [apply Rsum_zero|]. intros q _.
    rewrite (unitv_nth n i p) by assumption. destruct (Nat.eqb_spec p i); [contradiction|]. unfold ind. ring.
Qed.

Lemma hessian_entries isBc dim nNodes conns (Es : list (list R -> R)) (Ks : list (nat -> nat -> R)) Uu Ubc i j :
  length isBc = (nNodes * dim)%nat -> valid_conns nNodes conns -> blocks_symmetric dim conns Ks -> length Es = length conns ->
  length Uu = get_unknown_size isBc -> length Ubc = get_bc_size isBc ->
  (i < get_unknown_size isBc)%nat -> (j < get_unknown_size isBc)%nat ->
  (forall e, (e < length conns)%nat ->
      represents (length (el_dofs dim (nth e conns []))) (nth e Es E0)
                 (gather_local 0 dim (create_field isBc 0 Uu Ubc) (nth e conns [])) (nth e Ks K0)) ->
  mixed2 (fun s t => reduced_energy isBc dim conns Es Ubc
                       (lin (lin Uu s (unitv (get_unknown_size isBc) i)) t (unitv (get_unknown_size isBc) j)))
         (dense 0 Rplus (coo_triples isBc dim conns (kvals_of dim conns Ks)) (Z.of_nat i) (Z.of_nat j)).
Proof.
  intros Hsize Hc Hsym HEs HUu HUbc Hi Hj HR.
  change (dense 0 Rplus (coo_triples isBc dim conns (kvals_of dim conns Ks)) (Z.of_nat i) (Z.of_nat j)) with (Kasm isBc dim conns Ks i j).
  rewrite <- (bil_unit (get_unknown_size isBc) (Kasm isBc dim conns Ks) i j Hi Hj).
  apply (hessian_chain isBc dim nNodes conns Es Ks Uu Ubc); auto using unitv_length.
Qed.

(* ------------------------------------------------------------------ G: the hypotheses are jointly satisfiable *)
Definition ex_KsR : list (nat -> nat -> R) := map (fun (K : nat -> nat -> Z) a b => IZR (K a b)) ex_Ks.
Definition ex_Es : list (list R -> R) := map (fun K => quad_energy 6 1 (fun p => INR p) K) ex_KsR.

Lemma hessian_nonvacuous :
  length ex_isBc = (4 * 2)%nat /\ valid_conns 4 ex_conns /\ blocks_symmetric 2 ex_conns ex_KsR /\ length ex_Es = length ex_conns
  /\ get_unknown_size ex_isBc = 5%nat /\ get_bc_size ex_isBc = 3%nat
  /\ (forall Uu Ubc e, length Uu = 5%nat -> length Ubc = 3%nat -> (e < length ex_conns)%nat ->
        represents (length (el_dofs 2 (nth e ex_conns []))) (nth e ex_Es E0)
                   (gather_local 0 2 (create_field ex_isBc 0 Uu Ubc) (nth e ex_conns [])) (nth e ex_KsR K0))
  /\ (forall x0, represents 1 (fun x => nth 0 x 0 ^ 3) [x0] (fun _ _ => 6 * x0))
  /\ (exists x0 x1, (fun _ _ : nat => 6 * x0) 0%nat 0%nat <> (fun _ _ : nat => 6 * x1) 0%nat 0%nat).
Proof.
  split; [reflexivity|]. split; [repeat constructor|]. split.
  { repeat constructor; intros a b _ _; unfold ex_KsR; simpl; f_equal; f_equal; lia. }
  split; [reflexivity|]. split; [reflexivity|]. split; [reflexivity|]. split.
  { intros Uu Ubc e HU HB He.
    destruct e as [|[|e]]; [| |simpl in He; lia]; simpl nth; apply quad_represents;
      try (rewrite gather_local_length; reflexivity); intros p q _ _; f_equal; f_equal; lia. }
  split; [apply cubic_represents|].
  exists 0, 1. lra.
Qed.

Local Open Scope nat_scope.
(* ------------------------------------------------------------------ packaged statements (assembled matrix spelled out) *)
Lemma hessian_chain_full :
  forall isBc dim nNodes conns (Es : list (list R -> R)) (Ks : list (nat -> nat -> R)) (Uu Ubc v w : list R),
  length isBc = nNodes * dim -> valid_conns nNodes conns -> blocks_symmetric dim conns Ks -> length Es = length conns ->
  length Uu = get_unknown_size isBc -> length Ubc = get_bc_size isBc ->
  length v = get_unknown_size isBc -> length w = get_unknown_size isBc ->
  (forall e, e < length conns ->
      represents (length (el_dofs dim (nth e conns []))) (nth e Es E0)
                 (gather_local 0%R dim (create_field isBc 0%R Uu Ubc) (nth e conns [])) (nth e Ks K0)) ->
  mixed2 (fun s t => reduced_energy isBc dim conns Es Ubc (lin (lin Uu s v) t w))
         (bil (get_unknown_size isBc)
              (fun i j => dense 0%R Rplus (coo_triples isBc dim conns (kvals_of dim conns Ks)) (Z.of_nat i) (Z.of_nat j)) v w).
Proof. intros. apply (hessian_chain isBc dim nNodes conns Es Ks Uu Ubc); assumption. Qed.

Lemma hessian_chain_line_full :
  forall isBc dim nNodes conns (Es : list (list R -> R)) (Ks : list (nat -> nat -> R)) (Uu Ubc v : list R),
  length isBc = nNodes * dim -> valid_conns nNodes conns -> blocks_symmetric dim conns Ks -> length Es = length conns ->
  length Uu = get_unknown_size isBc -> length Ubc = get_bc_size isBc -> length v = get_unknown_size isBc ->
  (forall e, e < length conns ->
      represents_line (length (el_dofs dim (nth e conns []))) (nth e Es E0)
                      (gather_local 0%R dim (create_field isBc 0%R Uu Ubc) (nth e conns [])) (nth e Ks K0)) ->
  line2 (fun t => reduced_energy isBc dim conns Es Ubc (lin Uu t v))
        (bil (get_unknown_size isBc)
             (fun i j => dense 0%R Rplus (coo_triples isBc dim conns (kvals_of dim conns Ks)) (Z.of_nat i) (Z.of_nat j)) v v).
Proof. intros. apply (hessian_chain_line isBc dim nNodes conns Es Ks Uu Ubc); assumption. Qed.
