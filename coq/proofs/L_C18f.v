(* C18, binary64: the PrimFloat instance of the GENERATED kernel min_base (gen/Gen_SmoothFunctions.v at T := float, NumF -- the
   instance the harness executes bit-for-bit against the implementation) obeys the one-sided bound and the quarter-width
   tightness up to an explicit rounding term:
       min x y - s/4 - 3 u (|x|+|y|+s)  <=  min_base x y eps  <=  min x y + 3 u (|x|+|y|+s),      u = 2^-53,
   for ALL finite binary64 x, y, eps whose result is finite (no overflow anywhere: finiteness of the result is shown to imply
   finiteness of every intermediate), s = the clamped width max(eps, fl(1e-14)) as the code computes it.  Underflow is covered.
   Route: Coq's PrimFloat operations are Flocq's Bplus/Bminus/Bmult/Bdiv (Flocq.IEEE754.PrimFloat, *_equiv), these round the exact
   real result to nearest-even when no overflow occurs (B*_correct), nearest-even rounding has relative error 2^-53 plus absolute
   error 2^-1075 (Relative.error_N_FLT) -- which discharges the Section hypotheses of proofs/L_C18r.v.
   Outside the band (as the code decides it) the result is the plain minimum, bit for bit, for every float incl. NaN/inf. *)
From Flocq Require Import Core BinarySingleNaN Relative.
Require Flocq.IEEE754.PrimFloat.
From Coq Require Import ZArith QArith Reals Lra Lia Floats.
From OV.base Require Import Num.
From OV.gen Require Import Gen_SmoothFunctions.
From OV.proofs Require Import L_C18r.
Module FP := Flocq.IEEE754.PrimFloat.
Local Open Scope R_scope.

Definition FR (x : float) : R := B2R (FP.Prim2B x).
Definition fin (x : float) : bool := BinarySingleNaN.is_finite (FP.Prim2B x).
Definition rnd64 (z : R) : R := round radix2 (fexp prec emax) (round_mode mode_NE) z.
Definition u64 : R := / 2 * bpow radix2 (-52).        (* 2^-53 *)
Definition eta64 : R := / 2 * bpow radix2 (-1074).    (* 2^-1075 *)

Lemma rnd64_err z : Rabs (rnd64 z - z) <= u64 * Rabs z + eta64.
Proof.
  unfold rnd64, u64, eta64.
  destruct (error_N_FLT radix2 (-1074) 53 ltac:(lia) (fun x => negb (Z.even x)) z) as (eps & eta & He & Hn & _ & E).
  change (fexp prec emax) with (FLT_exp (-1074) 53). change (round_mode mode_NE) with (Znearest (fun x => negb (Z.even x))).
  rewrite E. change (- (53) + 1)%Z with (-52)%Z in He.
  replace (z * (1 + eps) + eta - z) with (z * eps + eta) by ring.
  eapply Rle_trans; [apply Rabs_triang|]. rewrite Rabs_mult.
  assert (Rabs z * Rabs eps <= Rabs z * (/ 2 * bpow radix2 (-52))) by (apply Rmult_le_compat_l; [apply Rabs_pos|exact He]).
  lra.
Qed.

(* ---------- the four operations and the comparison, on finite results ---------- *)
Lemma overflow_not_finite (a : binary_float prec emax) s : B2SF a = binary_overflow prec emax mode_NE s -> BinarySingleNaN.is_finite a = true -> False.
Proof. intros E H. rewrite <- is_finite_SF_B2SF, E in H. discriminate H. Qed.

Lemma add_fin x y : fin (x + y)%float = true -> fin x = true /\ fin y = true /\ FR (x + y)%float = rnd64 (FR x + FR y).
Proof.
  unfold fin, FR. rewrite FP.add_equiv. generalize (FP.Prim2B x) (FP.Prim2B y). intros a b H.
  assert (Hab : BinarySingleNaN.is_finite a = true /\ BinarySingleNaN.is_finite b = true).
  { destruct a as [sa|sa| |sa ma ea Ha], b as [sb|sb| |sb mb eb Hb]; try (split; reflexivity); exfalso; revert H;
      try discriminate; simpl; try discriminate; destruct sa, sb; discriminate. }
  destruct Hab as [Ha Hb]. split; [exact Ha|]. split; [exact Hb|].
  pose proof (Bplus_correct prec emax FP.Hprec FP.Hmax mode_NE a b Ha Hb) as C.
  destruct (Rlt_bool _ _); [exact (proj1 C)|]. exfalso. exact (overflow_not_finite _ _ (proj1 C) H).
Qed.

Lemma sub_fin x y : fin (x - y)%float = true -> fin x = true /\ fin y = true /\ FR (x - y)%float = rnd64 (FR x - FR y).
Proof.
  unfold fin, FR. rewrite FP.sub_equiv. generalize (FP.Prim2B x) (FP.Prim2B y). intros a b H.
  assert (Hab : BinarySingleNaN.is_finite a = true /\ BinarySingleNaN.is_finite b = true).
  { destruct a as [sa|sa| |sa ma ea Ha], b as [sb|sb| |sb mb eb Hb]; try (split; reflexivity); exfalso; revert H;
      try discriminate; simpl; try discriminate; destruct sa, sb; discriminate. }
  destruct Hab as [Ha Hb]. split; [exact Ha|]. split; [exact Hb|].
  pose proof (Bminus_correct prec emax FP.Hprec FP.Hmax mode_NE a b Ha Hb) as C.
  destruct (Rlt_bool _ _); [exact (proj1 C)|]. exfalso. exact (overflow_not_finite _ _ (proj1 C) H).
Qed.

Lemma mul_fin x y : fin (x * y)%float = true -> fin x = true /\ fin y = true /\ FR (x * y)%float = rnd64 (FR x * FR y).
Proof.
  unfold fin, FR. rewrite FP.mul_equiv. generalize (FP.Prim2B x) (FP.Prim2B y). intros a b H.
  pose proof (Bmult_correct prec emax FP.Hprec FP.Hmax mode_NE a b) as C.
  destruct (Rlt_bool _ _).
  - destruct C as (C1 & C2 & _). rewrite H in C2. symmetry in C2. apply andb_prop in C2. tauto.
  - exfalso. exact (overflow_not_finite _ _ C H).
Qed.

Lemma div_fin x y : FR y <> 0 -> fin (x / y)%float = true -> fin x = true /\ FR (x / y)%float = rnd64 (FR x / FR y).
Proof.
  unfold fin, FR. rewrite FP.div_equiv. generalize (FP.Prim2B x) (FP.Prim2B y). intros a b Hb H.
  pose proof (Bdiv_correct prec emax FP.Hprec FP.Hmax mode_NE a b Hb) as C.
  destruct (Rlt_bool _ _).
  - destruct C as (C1 & C2 & _). rewrite H in C2. auto.
  - exfalso. exact (overflow_not_finite _ _ C H).
Qed.

Lemma ltb_fin x y : fin x = true -> fin y = true -> (x <? y)%float = Rlt_bool (FR x) (FR y).
Proof. unfold fin, FR. intros Hx Hy. rewrite FP.ltb_equiv. apply Bltb_correct; assumption. Qed.

Lemma FR_abs x : FR (abs x) = Rabs (FR x).
Proof. unfold FR. rewrite FP.abs_equiv. apply B2R_Babs. Qed.

Lemma fin_abs x : fin (abs x) = fin x.
Proof. unfold fin. rewrite FP.abs_equiv. apply is_finite_Babs. Qed.

(* a float strictly below a finite float in absolute value is finite (inf and NaN never compare below) *)
Lemma abs_ltb_fin d e : (abs d <? e)%float = true -> fin d = true.
Proof.
  unfold fin. rewrite FP.ltb_equiv, FP.abs_equiv. generalize (FP.Prim2B d) (FP.Prim2B e). intros a b.
  destruct a as [sa|sa| |sa ma ea Ha]; try reflexivity; destruct b as [sb|sb| |sb mb eb Hb]; try destruct sb; intros H; discriminate H.
Qed.

(* ---------- constants of the kernel ---------- *)
Lemma FR_SF c : FR c = SF2R radix2 (Prim2SF c).
Proof. unfold FR, FP.Prim2B. apply B2R_SF2B. Qed.
Lemma fin_SF c : fin c = is_finite_SF (Prim2SF c).
Proof. unfold fin, FP.Prim2B. apply is_finite_SF2B. Qed.

Notation f_half := (@nconst float NumF (1 # 2) (1%Z, (-1)%Z)).
Notation f_quarter := (@nconst float NumF (1 # 4) (1%Z, (-2)%Z)).
Notation f_tol := (@c_safeTol float NumF).

Definition tol64 : R := FR f_tol.

Lemma FR_half : FR f_half = 1 / 2.
Proof. rewrite FR_SF. vm_compute (Prim2SF _). unfold SF2R, F2R, cond_Zopp, Fnum, Fexp, bpow. simpl Z.pow_pos. lra. Qed.
Lemma FR_quarter : FR f_quarter = 1 / 4.
Proof. rewrite FR_SF. vm_compute (Prim2SF _). unfold SF2R, F2R, cond_Zopp, Fnum, Fexp, bpow. simpl Z.pow_pos. lra. Qed.
Lemma fin_half : fin f_half = true. Proof. rewrite fin_SF. vm_compute. reflexivity. Qed.
Lemma fin_quarter : fin f_quarter = true. Proof. rewrite fin_SF. vm_compute. reflexivity. Qed.
Lemma fin_tol : fin f_tol = true. Proof. rewrite fin_SF. vm_compute. reflexivity. Qed.
Lemma tol64_value : tol64 = 6338253001141147 / 633825300114114700748351602688.
Proof. unfold tol64. rewrite FR_SF. vm_compute (Prim2SF _). unfold SF2R, F2R, cond_Zopp, Fnum, Fexp, bpow. simpl Z.pow_pos. lra. Qed.

(* ---------- numeric side conditions of the abstract analysis ---------- *)
Lemma u64_bounds : 0 <= u64 <= 1 / 1000.
Proof. unfold u64, bpow. simpl Z.pow_pos. lra. Qed.

Lemma tol64_bounds : 0 < tol64 <= 1.
Proof. rewrite tol64_value. lra. Qed.

Lemma eta64_bounds : 0 <= eta64 /\ eta64 * 1000 <= u64 * (tol64 * tol64).
Proof.
  unfold eta64. pose proof (bpow_gt_0 radix2 (-1074)) as H0.
  assert (H1 : bpow radix2 (-1074) <= bpow radix2 (-200)) by (apply bpow_le; lia).
  split; [lra|]. rewrite tol64_value. unfold u64.
  assert (E1 : bpow radix2 (-200) = / 1606938044258990275541962092341162602522202993782792835301376) by (unfold bpow; simpl Z.pow_pos; reflexivity).
  assert (E2 : bpow radix2 (-52) = / 4503599627370496) by (unfold bpow; simpl Z.pow_pos; reflexivity).
  rewrite E2. rewrite E1 in H1. lra.
Qed.

(* the clamped width, as the code computes it *)
Lemma FR_width eps : fin eps = true ->
  fin (if (f_tol <? eps)%float then eps else f_tol) = true /\ FR (if (f_tol <? eps)%float then eps else f_tol) = Rmax (FR eps) tol64.
Proof.
  intros He. rewrite (ltb_fin _ _ fin_tol He). fold tol64. destruct (Rlt_bool_spec tol64 (FR eps)).
  - split; [exact He|]. rewrite Rmax_left; lra.
  - split; [exact fin_tol|]. rewrite Rmax_right; [reflexivity|lra].
Qed.

Lemma FR_justmin x y : fin x = true -> fin y = true -> FR (if (x <? y)%float then x else y) = Rmin (FR x) (FR y).
Proof.
  intros Hx Hy. rewrite (ltb_fin _ _ Hx Hy). unfold Rmin. destruct (Rlt_bool_spec (FR x) (FR y)); destruct (Rle_dec (FR x) (FR y)); lra.
Qed.

(* ---------- outside the band, as the code decides it: the plain minimum, bit for bit, for EVERY float ---------- *)
Theorem min_base_binary64_outside_exact x y eps : (abs (x - y) <? eps)%float = false ->
  @min_base float NumF x y eps = if (x <? y)%float then x else y.
Proof. intros H. unfold min_base. cbn [nltb nsub nadd nmul ndiv nabs NumF npow]. rewrite H. reflexivity. Qed.

(* in the band the result is the rounded expression analysed in L_C18r.v *)
Lemma min_base_binary64_inband x y eps : fin x = true -> fin y = true -> fin eps = true ->
  (abs (x - y) <? eps)%float = true -> fin (@min_base float NumF x y eps) = true ->
  FR (@min_base float NumF x y eps) = rounded_inband rnd64 (FR f_half) (FR f_quarter) (FR x) (FR y) (Rmax (FR eps) tol64)
  /\ Rabs (rnd64 (FR x - FR y)) < Rmax (FR eps) tol64.
Proof.
  intros Hx Hy He Eb. unfold min_base. cbn [nltb nsub nadd nmul ndiv nabs NumF npow]. rewrite Eb.
  destruct (FR_width eps He) as [Hsf HsR].
  set (s := if (f_tol <? eps)%float then eps else f_tol) in *.
  pose proof tol64_bounds as Ht.
  assert (Hs0 : FR s <> 0). { rewrite HsR. pose proof (Rmax_r (FR eps) tol64). lra. }
  intros Hr.
  apply sub_fin in Hr. destruct Hr as (Hc1 & Hc & Er).
  apply sub_fin in Hc1. destruct Hc1 as (Ha2 & Hb & Ec1).
  apply mul_fin in Ha2. destruct Ha2 as (_ & Ha1 & Ea2).
  apply add_fin in Ha1. destruct Ha1 as (_ & _ & Ea1).
  apply mul_fin in Hb. destruct Hb as (_ & _ & Ebq).
  apply (div_fin _ _ Hs0) in Hc. destruct Hc as (Hq4 & Ec).
  apply mul_fin in Hq4. destruct Hq4 as (_ & Hq1 & Eq4).
  apply mul_fin in Hq1. destruct Hq1 as (Hd & _ & Eq1).
  pose proof Hd as Hd'. apply sub_fin in Hd'. destruct Hd' as (_ & _ & Ed).
  split.
  - unfold rounded_inband. rewrite Er, Ec1, Ea2, Ea1, Ebq, Ec, Eq4, Eq1, Ed, HsR. reflexivity.
  - rewrite <- Ed, <- FR_abs.
    assert (Hl : Rlt_bool (FR (abs (x - y))) (FR eps) = true).
    { rewrite <- ltb_fin; [exact Eb| rewrite fin_abs; exact Hd | exact He]. }
    destruct (Rlt_bool_spec (FR (abs (x - y))) (FR eps)); [|discriminate Hl].
    pose proof (Rmax_l (FR eps) tol64). lra.
Qed.

(* ---------- the rounding-aware property clause for binary64 ---------- *)
Theorem min_base_binary64_bounds x y eps : fin x = true -> fin y = true -> fin eps = true ->
  fin (@min_base float NumF x y eps) = true ->
  Rmin (FR x) (FR y) - Rmax (FR eps) tol64 / 4 - 3 * u64 * (Rabs (FR x) + Rabs (FR y) + Rmax (FR eps) tol64)
    <= FR (@min_base float NumF x y eps)
    <= Rmin (FR x) (FR y) + 3 * u64 * (Rabs (FR x) + Rabs (FR y) + Rmax (FR eps) tol64).
Proof.
  intros Hx Hy He Hr.
  pose proof tol64_bounds as Ht. pose proof u64_bounds as Hu. pose proof eta64_bounds as [Hn0 Hn].
  pose proof (Rmax_r (FR eps) tol64) as Hsr.
  destruct (abs (x - y) <? eps)%float eqn:Eb.
  - destruct (min_base_binary64_inband x y eps Hx Hy He Eb Hr) as [E Hband]. rewrite E.
    apply (rounded_inband_bounds rnd64 u64 eta64 (proj1 Hu) (proj2 Hu) Hn0 rnd64_err _ _ _ _ _ tol64 FR_half FR_quarter Ht Hsr Hn Hband).
  - rewrite (min_base_binary64_outside_exact _ _ _ Eb), (FR_justmin _ _ Hx Hy).
    pose proof (Rabs_pos (FR x)). pose proof (Rabs_pos (FR y)).
    assert (0 <= 3 * u64 * (Rabs (FR x) + Rabs (FR y) + Rmax (FR eps) tol64)) by (apply Rmult_le_pos; lra).
    lra.
Qed.

(* and against the exact closed form (two-sided forward error), in the band *)
Theorem min_base_binary64_inband_error x y eps : fin x = true -> fin y = true -> fin eps = true ->
  (abs (x - y) <? eps)%float = true -> fin (@min_base float NumF x y eps) = true ->
  Rabs (FR (@min_base float NumF x y eps) - closed_form (FR x) (FR y) (Rmax (FR eps) tol64))
    <= 3 * u64 * (Rabs (FR x) + Rabs (FR y) + Rmax (FR eps) tol64).
Proof.
  intros Hx Hy He Eb Hr.
  pose proof tol64_bounds as Ht. pose proof u64_bounds as Hu. pose proof eta64_bounds as [Hn0 Hn].
  pose proof (Rmax_r (FR eps) tol64) as Hsr.
  destruct (min_base_binary64_inband x y eps Hx Hy He Eb Hr) as [E Hband]. rewrite E.
  destruct (rounded_inband_near rnd64 u64 eta64 (proj1 Hu) (proj2 Hu) Hn0 rnd64_err _ _ _ _ _ tol64 FR_half FR_quarter Ht Hsr Hn Hband) as [Hnr _].
  apply abs_le_of_bounds. exact Hnr.
Qed.

(* exactness outside the band in terms of the exact real difference: whenever |x - y| >= eps as real numbers *)
Theorem min_base_binary64_exact_outside x y eps : fin x = true -> fin y = true -> fin eps = true ->
  FR eps <= Rabs (FR x - FR y) -> FR (@min_base float NumF x y eps) = Rmin (FR x) (FR y).
Proof.
  intros Hx Hy He Hout.
  destruct (abs (x - y) <? eps)%float eqn:Eb.
  - exfalso. pose proof (abs_ltb_fin _ _ Eb) as Hd. pose proof Hd as Hd'. apply sub_fin in Hd'. destruct Hd' as (_ & _ & Ed).
    assert (Hl : Rlt_bool (FR (abs (x - y))) (FR eps) = true).
    { rewrite <- ltb_fin; [exact Eb| rewrite fin_abs; exact Hd | exact He]. }
    destruct (Rlt_bool_spec (FR (abs (x - y))) (FR eps)) as [Hlt|]; [|discriminate Hl].
    rewrite FR_abs, Ed in Hlt.
    assert (Hge : FR eps <= Rabs (rnd64 (FR x - FR y))).
    { unfold rnd64. apply abs_round_ge_generic; [apply fexp_correct; exact FP.Hprec | apply valid_rnd_round_mode | apply generic_format_B2R | exact Hout]. }
    lra.
  - rewrite (min_base_binary64_outside_exact _ _ _ Eb). apply FR_justmin; assumption.
Qed.

(* not vacuous: finite arguments inside the band with a finite result *)
Lemma binary64_nonvacuous :
  fin 1%float = true /\ fin 0x1.8p+0%float = true /\ (abs (1 - 0x1.8p+0) <? 1)%float = true /\ fin (@min_base float NumF 1%float 0x1.8p+0%float 1%float) = true.
Proof. rewrite !fin_SF. vm_compute. repeat split; reflexivity. Qed.

(* ---------- mirrored bounds: max and abs are -min_base(-.,-.) and negation is exact ---------- *)
Lemma FR_opp x : FR (- x)%float = - FR x.
Proof. unfold FR. rewrite FP.opp_equiv. apply B2R_Bopp. Qed.
Lemma fin_opp x : fin (- x)%float = fin x.
Proof. unfold fin. rewrite FP.opp_equiv. apply is_finite_Bopp. Qed.

Lemma Rmin_opp a b : Rmin (- a) (- b) = - Rmax a b.
Proof. unfold Rmin, Rmax. destruct (Rle_dec (- a) (- b)); destruct (Rle_dec a b); lra. Qed.
Lemma Rmin_opp_self a : Rmin (- a) a = - Rabs a.
Proof. unfold Rmin, Rabs. destruct (Rle_dec (- a) a); destruct (Rcase_abs a); lra. Qed.

Theorem s_max_binary64_bounds x y eps : fin x = true -> fin y = true -> fin eps = true ->
  fin (@s_max float NumF x y eps) = true ->
  Rmax (FR x) (FR y) - 3 * u64 * (Rabs (FR x) + Rabs (FR y) + Rmax (FR eps) tol64)
    <= FR (@s_max float NumF x y eps)
    <= Rmax (FR x) (FR y) + Rmax (FR eps) tol64 / 4 + 3 * u64 * (Rabs (FR x) + Rabs (FR y) + Rmax (FR eps) tol64).
Proof.
  intros Hx Hy He. unfold s_max. cbn [nopp NumF]. rewrite fin_opp, FR_opp. intros Hr.
  pose proof (min_base_binary64_bounds (- x)%float (- y)%float eps) as H.
  rewrite !fin_opp, !FR_opp, !Rabs_Ropp, Rmin_opp in H. specialize (H Hx Hy He Hr). lra.
Qed.

Theorem s_abs_binary64_bounds x eps : fin x = true -> fin eps = true ->
  fin (@s_abs float NumF x eps) = true ->
  Rabs (FR x) - 3 * u64 * (2 * Rabs (FR x) + Rmax (FR eps) tol64)
    <= FR (@s_abs float NumF x eps)
    <= Rabs (FR x) + Rmax (FR eps) tol64 / 4 + 3 * u64 * (2 * Rabs (FR x) + Rmax (FR eps) tol64).
Proof.
  intros Hx He. unfold s_abs. cbn [nopp NumF]. rewrite fin_opp, FR_opp. intros Hr.
  pose proof (min_base_binary64_bounds (- x)%float x eps) as H.
  rewrite !fin_opp, !FR_opp, !Rabs_Ropp, Rmin_opp_self in H. specialize (H Hx Hx He Hr). lra.
Qed.

(* ---------- NaN arguments: the result is the SECOND argument whenever either of x, y is NaN
   (a NaN in y propagates; a NaN in x is dropped, because the code's fallback is where(x < y, x, y)) ---------- *)
Lemma nan_Prim2B x : PrimFloat.is_nan x = true -> FP.Prim2B x = B754_nan.
Proof. rewrite FP.is_nan_equiv. destruct (FP.Prim2B x); try discriminate. reflexivity. Qed.

Theorem min_base_binary64_nan x y eps : PrimFloat.is_nan x = true \/ PrimFloat.is_nan y = true ->
  @min_base float NumF x y eps = y.
Proof.
  intros H.
  assert (Hd : FP.Prim2B (x - y)%float = B754_nan).
  { rewrite FP.sub_equiv. destruct H as [H|H]; rewrite (nan_Prim2B _ H); [reflexivity|]. destruct (FP.Prim2B x); reflexivity. }
  rewrite min_base_binary64_outside_exact.
  - destruct H as [H|H]; rewrite FP.ltb_equiv, (nan_Prim2B _ H); [reflexivity|].
    destruct (FP.Prim2B x) as [s|s| |s m e Hb]; try destruct s; reflexivity.
  - rewrite FP.ltb_equiv, FP.abs_equiv, Hd. reflexivity.
Qed.

(* names used by props/P_C18.v (which does not import Floats, whose sqrt/abs would shadow the real ones) *)
Definition in_band64 (x y eps : float) : bool := (abs (x - y) <? eps)%float.   (* the band test as the code evaluates it *)
Definition plain_min64 (x y : float) : float := if (x <? y)%float then x else y.   (* where(x < y, x, y) *)
Definition f64_one : float := 1%float.
Definition f64_three_halves : float := 0x1.8p+0%float.
