(* C06 -- EquationSolverSubspace.trust_region_cg (model/M_C06_CG.v trust_region_cg / sscg_loop at T := R) and the zero-iteration
   returns of both CG routines.  The subspace routine keeps no recurrences: it tests the radius with freshly computed Euclidean inner
   products and is handed the first search direction's data (Pr, HPr) by its caller.  With Pr = precond r and HPr = hess_vec Pr it
   satisfies the same clauses as solve_trust_region_minimization in Euclidean mode: radius, boundary tags, model decrease against every
   step along the Cauchy direction, interior residual.  The loop invariant and the one-dimensional facts are those of L_C06_CG.v
   (Inv at pcip := false with zz, zd, dd instantiated by the true inner products). *)
From Coq Require Import Reals Lra Lia List QArith Psatz Bool.
From OV.base Require Import Num.
From OV.gen Require Import Gen_EquationSolver Gen_EquationSolverSubspace.
From OV.model Require Import M_C06_Vec M_C06_CG.
From OV.proofs Require Import L_C06_Vec L_C06_CG.
Import ListNotations.
Local Open Scope R_scope.

Definition tauS (D zz zd dd : R) : R := @tau_coefs_ss R NumR D zz zd dd.

Section SSproofs.
  Variable n : nat.
  Variables Hf Pf : rvec -> rvec.
  Variables D tol2 : R.
  Variable g : rvec.
  Hypothesis Hlen : forall v, len n v -> len n (Hf v).
  Hypothesis Plen : forall v, len n v -> len n (Pf v).
  Hypothesis Hlin : forall a k b, len n a -> len n b -> Hf (raxpy a k b) = raxpy (Hf a) k (Hf b).
  Hypothesis Hsym : forall a b, len n a -> len n b -> a ⋅ Hf b = Hf a ⋅ b.
  Hypothesis Ppos : forall v, len n v -> 0 < v ⋅ v -> 0 < v ⋅ Pf v.
  Hypothesis tol2_pos : 0 < tol2.
  Hypothesis glen : len n g.

  Notation InvE z r d rPr := (Inv n Hf Pf false D g z r d rPr (z ⋅ z) (z ⋅ d) (d ⋅ d)).
  Notation mqE := (mq Hf g).
  Definition loopS := @sscg_loop R NumR Hf Pf D.

  Lemma ss_step f i z r d rPr : InvE z r d rPr ->
    let curv := d ⋅ Hf d in
    let a := rPr / curv in
    let t := tauS D (z ⋅ z) (z ⋅ d) (d ⋅ d) in
    let z' := raxpy z a d in
    let r' := raxpy r a (Hf d) in
    (curv <= 0 /\ loopS (S f) i tol2 z r d rPr curv = (raxpy z t d, NegCurve, S i))
    \/ (0 < curv /\ D * D < z' ⋅ z' /\ loopS (S f) i tol2 z r d rPr curv = (raxpy z t d, Boundary, S i))
    \/ (0 < curv /\ z' ⋅ z' <= D * D /\ r' ⋅ r' < tol2 /\
          (forall w, len n w -> r' ⋅ w = g ⋅ w + Hf z' ⋅ w) /\
          loopS (S f) i tol2 z r d rPr curv = (z', Interior, S i))
    \/ (0 < curv /\ z' ⋅ z' <= D * D /\
          exists d', InvE z' r' d' (r' ⋅ Pf r') /\
          loopS (S f) i tol2 z r d rPr curv = loopS f (S i) tol2 z' r' d' (r' ⋅ Pf r') (d' ⋅ Hf d')).
  Proof.
    intros I. destruct I as [Iz Ir Id IrPr Ird Irr Idd Izz Ires Ieuc].
    intros curv a t z' r'.
    assert (HdL := Hlen d Id).
    assert (HrPr : 0 < rPr) by (rewrite IrPr; apply Ppos; assumption).
    unfold loopS. cbn [sscg_loop]. unfold project_coefs_ss. unfold_num. q2r. fold curv. fold a. fold z'.
    fold (tauS D (z ⋅ z) (z ⋅ d) (d ⋅ d)). fold t.
    unfold Rleb, Rltb.
    destruct (Rle_dec curv 0) as [Hc|Hc].
    { left. split; [assumption|reflexivity]. }
    assert (Hcp : 0 < curv) by lra.
    destruct (Rlt_dec (D * D) (z' ⋅ z')) as [Hb|Hb].
    { right; left. repeat split; try assumption. }
    assert (Hin : z' ⋅ z' <= D * D) by lra.
    fold r'.
    assert (Hr'L : len n r') by (unfold r'; auto with vlen).
    assert (Hz'L : len n z') by (unfold z'; auto with vlen).
    assert (Hres' : forall w, len n w -> r' ⋅ w = g ⋅ w + Hf z' ⋅ w).
    { intros w Hw. unfold r', z'. rewrite Hlin by assumption.
      rewrite !(rdot_raxpy_l n) by auto with vlen. rewrite (Ires w Hw). ring. }
    destruct (Rlt_dec (r' ⋅ r') tol2) as [Ht|Ht].
    { right; right; left. repeat split; try assumption. }
    right; right; right. split; [assumption|]. split; [assumption|].
    assert (Hrr' : 0 < r' ⋅ r') by lra.
    assert (HrPr' : 0 < r' ⋅ Pf r') by (apply Ppos; assumption).
    set (b := r' ⋅ Pf r' / rPr).
    set (d' := radd (rneg (Pf r')) (rscale b d)).
    assert (HPr'L : len n (Pf r')) by auto.
    assert (Hd'L : len n d') by (unfold d'; auto with vlen).
    assert (Hr'd : r' ⋅ d = 0).
    { unfold r'. rewrite (rdot_raxpy_l n) by assumption. rewrite Ird, (rdot_comm (Hf d) d). fold curv.
      unfold a. field. lra. }
    assert (Hr'd' : r' ⋅ d' = - (r' ⋅ Pf r')).
    { unfold d'. rewrite (rdot_radd_r n) by auto with vlen. rewrite rdot_rneg_r, rdot_rscale_r, Hr'd. ring. }
    assert (Hd'd' : 0 < d' ⋅ d').
    { pose proof (rdot_self_nonneg d') as Hnn.
      destruct (Req_dec (d' ⋅ d') 0) as [Hz0|Hnz]; [|lra].
      pose proof (rdot_self_zero d' Hz0 r') as Hz1. rewrite rdot_comm in Hz1. lra. }
    exists d'. split; [|reflexivity].
    constructor; try assumption; try reflexivity. intros _. auto.
  Qed.

  Definition PostS (zin : rvec) (res : rvec * steptag * nat) : Prop :=
    let '(z, tag, _) := res in
    len n z /\ mqE z <= mqE zin /\
    (tag = Interior -> resid Hf g z < tol2) /\
    z ⋅ z <= D * D /\ (is_on_boundary tag = true -> z ⋅ z = D * D).

  Lemma ss_loop_post f : forall i z r d rPr, InvE z r d rPr -> PostS z (loopS f i tol2 z r d rPr (d ⋅ Hf d)).
  Proof.
    induction f as [|f IH]; intros i z r d rPr I.
    - unfold loopS; cbn [sscg_loop]. unfold PostS.
      destruct I. split; [assumption|]. split; [lra|]. split; [discriminate|]. split; [lra|cbn; discriminate].
    - pose proof (rPr_pos n Hf Pf false D g Ppos _ _ _ _ _ _ _ I) as HrPr.
      pose proof (fun s => mq_step n Hf Pf false D g Hlen Hlin Hsym z r d rPr _ _ _ s I) as Hmq.
      destruct (ss_step f i z r d rPr I) as [(Hc & E)|[(Hc & Hout & E)|[(Hc & Hin & Hres & Hr' & E)|(Hc & Hin & d' & I' & E)]]];
        rewrite E; clear E.
      + destruct I. destruct (tau_ss_spec D _ (z ⋅ d) _ i_zz i_dd) as (Ht0 & Hq). fold (tauS D (z ⋅ z) (z ⋅ d) (d ⋅ d)) in Ht0, Hq.
        unfold PostS. split; [auto with vlen|]. split.
        { rewrite Hmq. pose proof (phi_negcurve rPr _ _ HrPr Hc Ht0). lra. }
        split; [discriminate|].
        rewrite (rdot_raxpy_self n) by assumption. split; [lra|intros _; lra].
      + destruct I. destruct (tau_ss_spec D _ (z ⋅ d) _ i_zz i_dd) as (Ht0 & Hq). fold (tauS D (z ⋅ z) (z ⋅ d) (d ⋅ d)) in Ht0, Hq.
        assert (Ha : 0 < rPr / (d ⋅ Hf d)) by (apply Rdiv_lt_0_compat; assumption).
        rewrite (rdot_raxpy_self n) in Hout by assumption.
        pose proof (tau_lt_step D _ _ _ _ _ i_zz i_dd Ht0 Hq Ha Hout) as Hlt.
        unfold PostS. split; [auto with vlen|]. split.
        { rewrite Hmq. pose proof (phi_boundary rPr _ _ HrPr Hc Ht0 Hlt). lra. }
        split; [discriminate|].
        rewrite (rdot_raxpy_self n) by assumption. split; [lra|intros _; lra].
      + destruct I.
        unfold PostS. split; [auto with vlen|]. split.
        { rewrite Hmq. pose proof (phi_full rPr _ HrPr Hc). pose proof (phi_full_neg rPr _ HrPr Hc). lra. }
        split.
        { intros _. rewrite (resid_of_res n Hf g Hlen glen _ (raxpy r (rPr / (d ⋅ Hf d)) (Hf d))); auto with vlen. }
        split; [exact Hin|cbn; discriminate].
      + pose proof (IH (S i) _ _ _ _ I') as P. unfold PostS in *.
        destruct (loopS f (S i) tol2 _ _ _ _ _) as [[zo tago] ito]. destruct P as (P1 & P2 & P3 & P4).
        split; [assumption|]. split; [|split; assumption].
        eapply Rle_trans; [exact P2|]. rewrite Hmq.
        pose proof (phi_full rPr _ HrPr Hc). pose proof (phi_full_neg rPr _ HrPr Hc). lra.
  Qed.

  Section Start.
    Variable x : rvec.
    Hypothesis xlen : len n x.
    Hypothesis g_big : ~ g ⋅ g < tol2.
    Let z0 := rzero x.
    Let d0 := rneg (Pf g).
    Let rPr0 := g ⋅ Pf g.

    Lemma inv_startE : InvE z0 g d0 rPr0.
    Proof.
      pose proof (inv_start n Hf Pf false D tol2 g Hlen Plen Hlin Ppos tol2_pos glen x xlen g_big) as I. cbv zeta in I.
      fold z0 d0 rPr0 in I.
      assert (E1 : z0 ⋅ z0 = 0) by (unfold z0; apply rdot_rzero_l). assert (E2 : z0 ⋅ d0 = 0) by (unfold z0; apply rdot_rzero_l).
      rewrite E1, E2. exact I.
    Qed.

    Lemma ss_from_start f : let res := loopS (S f) 0 tol2 z0 g d0 rPr0 (d0 ⋅ Hf d0) in
      PostS z0 res /\
      (forall t, 0 <= t -> t * t * (d0 ⋅ d0) <= D * D -> mqE (fst (fst res)) <= mqE (raxpy z0 t d0)).
    Proof.
      intros res. split; [apply ss_loop_post, inv_startE|].
      intros t Ht Htr. subst res.
      pose proof inv_startE as I.
      pose proof (rPr_pos n Hf Pf false D g Ppos _ _ _ _ _ _ _ I) as HrPr.
      pose proof (fun s => mq_step n Hf Pf false D g Hlen Hlin Hsym _ _ _ _ _ _ _ s I) as Hmq.
      assert (Hdd0 : 0 < d0 ⋅ d0) by (destruct I; assumption).
      assert (Ezz : z0 ⋅ z0 = 0) by (unfold z0; apply rdot_rzero_l).
      assert (Ezd : z0 ⋅ d0 = 0) by (unfold z0; apply rdot_rzero_l).
      destruct (ss_step f 0%nat _ _ _ _ I) as [(Hc & E)|[(Hc & Hout & E)|[(Hc & Hin & Hres & Hr' & E)|(Hc & Hin & d' & I' & E)]]];
        rewrite E; clear E; cbn [fst].
      - destruct (tau_ss_spec D (z0 ⋅ z0) (z0 ⋅ d0) (d0 ⋅ d0) ltac:(rewrite Ezz; nra) Hdd0) as (Ht0 & Hq).
        fold (tauS D (z0 ⋅ z0) (z0 ⋅ d0) (d0 ⋅ d0)) in Ht0, Hq.
        rewrite !Hmq. set (tt := tauS D (z0 ⋅ z0) (z0 ⋅ d0) (d0 ⋅ d0)) in *. set (curv := d0 ⋅ Hf d0) in *.
        rewrite Ezz, Ezd in Hq. set (dd0 := d0 ⋅ d0) in *.
        assert (t * t * dd0 <= tt * tt * dd0) by lra.
        assert (t * t <= tt * tt) by (apply Rmult_le_reg_r with dd0; lra).
        assert (t <= tt) by nra.
        assert ((tt * tt - t * t) * curv <= 0) by nra.
        assert ((tt - t) * rPr0 >= 0) by nra. lra.
      - destruct (tau_ss_spec D (z0 ⋅ z0) (z0 ⋅ d0) (d0 ⋅ d0) ltac:(rewrite Ezz; nra) Hdd0) as (Ht0 & Hq).
        fold (tauS D (z0 ⋅ z0) (z0 ⋅ d0) (d0 ⋅ d0)) in Ht0, Hq.
        assert (Ha : 0 < rPr0 / (d0 ⋅ Hf d0)) by (apply Rdiv_lt_0_compat; assumption).
        destruct I. rewrite (rdot_raxpy_self n) in Hout by assumption.
        pose proof (tau_lt_step D (z0 ⋅ z0) (z0 ⋅ d0) (d0 ⋅ d0) _ _ ltac:(rewrite Ezz; nra) Hdd0 Ht0 Hq Ha Hout) as Hlt.
        rewrite !Hmq. set (tt := tauS D (z0 ⋅ z0) (z0 ⋅ d0) (d0 ⋅ d0)) in *. set (curv := d0 ⋅ Hf d0) in *.
        rewrite Ezz, Ezd in Hq. set (dd0 := d0 ⋅ d0) in *.
        assert (t * t * dd0 <= tt * tt * dd0) by lra.
        assert (t * t <= tt * tt) by (apply Rmult_le_reg_r with dd0; lra).
        assert (t <= tt) by nra.
        assert (E : rPr0 / curv * curv = rPr0) by (field; lra).
        assert (tt * curv < rPr0) by (rewrite <- E; apply Rmult_lt_compat_r; assumption).
        assert (t * curv <= tt * curv) by (apply Rmult_le_compat_r; lra).
        assert ((tt - t) * (- rPr0 + / 2 * (tt + t) * curv) <= 0) by nra. lra.
      - rewrite !Hmq. set (curv := d0 ⋅ Hf d0) in *.
        pose proof (phi_full_eq rPr0 curv t HrPr Hc) as Eq.
        pose proof (Rle_0_sqr (t - rPr0 / curv)) as Hsq. unfold Rsqr in Hsq.
        assert (0 <= / 2 * curv) by lra.
        assert (0 <= / 2 * curv * ((t - rPr0 / curv) * (t - rPr0 / curv))) by (apply Rmult_le_pos; assumption).
        lra.
      - pose proof (ss_loop_post f 1%nat _ _ _ _ I') as P. unfold PostS in P.
        destruct (loopS f 1 tol2 _ _ _ _ _) as [[zo tago] ito]. cbn [fst]. destruct P as (_ & P2 & _).
        eapply Rle_trans; [exact P2|]. rewrite !Hmq. set (curv := d0 ⋅ Hf d0) in *.
        pose proof (phi_full_eq rPr0 curv t HrPr Hc) as Eq.
        pose proof (Rle_0_sqr (t - rPr0 / curv)) as Hsq. unfold Rsqr in Hsq.
        assert (0 <= / 2 * curv) by lra.
        assert (0 <= / 2 * curv * ((t - rPr0 / curv) * (t - rPr0 / curv))) by (apply Rmult_le_pos; assumption). lra.
    Qed.
  End Start.
End SSproofs.

(* ------------------------------------------------------------------ the zero-iteration return (both routines): |g|^2 < cgTolSquared.
   The step returned is 0 (model value 0).  It does NOT beat the Cauchy step unless g = 0; what holds instead, for every step t*d0 along the
   Cauchy direction d0 = -P g inside the Euclidean ball of radius D:
     m(0) - m(t d0) = t (g.Pg) - t^2/2 (d0.H d0)  <=  D sqrt(cgTolSquared) - t^2/2 (d0.H d0),
   i.e. the decrease the Cauchy step would have achieved is below D*sqrt(cgTolSquared) when the curvature along d0 is >= 0, and exceeds that
   only by the negative-curvature term. *)
Section ZeroIter.
  Variable n : nat.
  Variables Hf Pf : rvec -> rvec.
  Variables D tol2 : R.
  Variables x g : rvec.
  Hypothesis Hlen : forall v, len n v -> len n (Hf v).
  Hypothesis Plen : forall v, len n v -> len n (Pf v).
  Hypothesis Hlin : forall a k b, len n a -> len n b -> Hf (raxpy a k b) = raxpy (Hf a) k (Hf b).
  Hypothesis Hsym : forall a b, len n a -> len n b -> a ⋅ Hf b = Hf a ⋅ b.
  Hypothesis xlen : len n x.
  Hypothesis glen : len n g.
  Let d0 := rneg (Pf g).

  Lemma rscale_as_raxpy t : rscale t d0 = raxpy (rzero x) t d0.
  Proof.
    unfold vaxpy. rewrite radd_rzero_l; [reflexivity|].
    unfold vzero_like, vscale, d0, vneg. rewrite !map_length. rewrite xlen. symmetry. apply Plen. exact glen.
  Qed.
  Lemma qmodel_along_d0 t : @qmodel R NumR Hf g (rscale t d0) = - t * (g ⋅ Pf g) + / 2 * (t * t) * (d0 ⋅ Hf d0).
  Proof.
    rewrite qmodel_R, rscale_as_raxpy.
    assert (Hd0 : len n d0) by (unfold d0; auto with vlen).
    pose proof (mq_ray n Hf g Hlen Hlin Hsym (rzero x) d0 t g ltac:(auto with vlen) Hd0
                  ltac:(intros w Hw; rewrite (Hf_zero n Hf Hlen Hlin x w xlen); ring)) as E.
    unfold mq in E. rewrite E. rewrite rdot_rzero_r, rdot_rzero_l. unfold d0. rewrite rdot_rneg_r. ring.
  Qed.
  Lemma zero_step_cauchy_gap t : g ⋅ g < tol2 -> 0 <= D -> 0 <= t -> t * t * (d0 ⋅ d0) <= D * D ->
    0 - @qmodel R NumR Hf g (rscale t d0) <= D * sqrt tol2 - / 2 * (t * t) * (d0 ⋅ Hf d0).
  Proof.
    intros Hsmall HD Ht Hin. rewrite qmodel_along_d0.
    assert (HPg : len n (Pf g)) by auto.
    pose proof (rdot_cauchy_schwarz n g (Pf g) glen HPg) as Hcs.
    assert (Edd : d0 ⋅ d0 = Pf g ⋅ Pf g) by (unfold d0; rewrite rdot_rneg_l, rdot_rneg_r; ring).
    rewrite Edd in Hin.
    pose proof (rdot_self_nonneg g) as Hgg. pose proof (rdot_self_nonneg (Pf g)) as Hpp.
    assert (Htol : 0 < tol2) by lra.
    pose proof (sqrt_sqrt tol2 ltac:(lra)) as Hs. pose proof (sqrt_lt_R0 tol2 Htol) as Hs0.
    set (X := t * (g ⋅ Pf g)).
    assert (HX : X * X <= (D * sqrt tol2) * (D * sqrt tol2)).
    { unfold X. replace (t * (g ⋅ Pf g) * (t * (g ⋅ Pf g))) with (t * t * ((g ⋅ Pf g) * (g ⋅ Pf g))) by ring.
      replace (D * sqrt tol2 * (D * sqrt tol2)) with (D * D * (sqrt tol2 * sqrt tol2)) by ring. rewrite Hs.
      assert (0 <= t * t) by nra.
      assert (t * t * ((g ⋅ Pf g) * (g ⋅ Pf g)) <= t * t * ((g ⋅ g) * (Pf g ⋅ Pf g))) by (apply Rmult_le_compat_l; assumption).
      assert (t * t * ((g ⋅ g) * (Pf g ⋅ Pf g)) = (g ⋅ g) * (t * t * (Pf g ⋅ Pf g))) by ring.
      assert ((g ⋅ g) * (t * t * (Pf g ⋅ Pf g)) <= (g ⋅ g) * (D * D)) by (apply Rmult_le_compat_l; assumption).
      assert ((g ⋅ g) * (D * D) <= tol2 * (D * D)) by (apply Rmult_le_compat_r; nra).
      lra. }
    assert (H0 : 0 <= D * sqrt tol2) by (apply Rmult_le_pos; lra).
    assert (X <= D * sqrt tol2) by nra.
    fold X. replace (0 - (- t * (g ⋅ Pf g) + / 2 * (t * t) * (d0 ⋅ Hf d0))) with (X - / 2 * (t * t) * (d0 ⋅ Hf d0)) by (unfold X; ring).
    lra.
  Qed.
End ZeroIter.

(* the loop reports at least the iterations it was entered with, and at least one more when it runs at all *)
Lemma ss_iters_ge Hf Pf D f : forall i tol2 z r d rPr c, (i <= snd (@sscg_loop R NumR Hf Pf D f i tol2 z r d rPr c))%nat.
Proof.
  induction f as [|f IH]; intros i tol2 z r d rPr c; cbn [sscg_loop]; [cbn; lia|].
  destruct (nleb _ _); [cbn; lia|]. destruct (nltb _ _); [cbn; lia|]. destruct (nltb _ _); [cbn; lia|].
  eapply Nat.le_trans; [|apply IH]. lia.
Qed.
Lemma ss_iters_pos Hf Pf D f i tol2 z r d rPr c : (S i <= snd (@sscg_loop R NumR Hf Pf D (S f) i tol2 z r d rPr c))%nat.
Proof.
  cbn [sscg_loop].
  destruct (nleb _ _); [cbn; lia|]. destruct (nltb _ _); [cbn; lia|]. destruct (nltb _ _); [cbn; lia|].
  apply ss_iters_ge.
Qed.

(* ------------------------------------------------------------------ the public entry point of the subspace routine *)
Section SSmain.
  Variable n : nat.
  Variables Hf Pf : rvec -> rvec.
  Variables D cg_tol cg_ratio : R.
  Variables x g : rvec.
  Hypothesis Hlen : forall v, len n v -> len n (Hf v).
  Hypothesis Plen : forall v, len n v -> len n (Pf v).
  Hypothesis Hlin : forall a k b, len n a -> len n b -> Hf (raxpy a k b) = raxpy (Hf a) k (Hf b).
  Hypothesis Hsym : forall a b, len n a -> len n b -> a ⋅ Hf b = Hf a ⋅ b.
  Hypothesis Ppos : forall v, len n v -> 0 < v ⋅ v -> 0 < v ⋅ Pf v.
  Hypothesis tol_nz : cg_tol <> 0.
  Hypothesis xlen : len n x.
  Hypothesis glen : len n g.

  Let tol2 := @cg_tol_squared R NumR cg_tol cg_ratio g.
  Let d0 := rneg (Pf g).

  Lemma first_curvature : - (d0 ⋅ Hf (Pf g)) = d0 ⋅ Hf d0.
  Proof.
    assert (HPg : len n (Pf g)) by auto. assert (Hd0 : len n d0) by (unfold d0; auto with vlen).
    rewrite (Hsym d0 (Pf g)) by assumption. rewrite (Hsym d0 d0) by assumption.
    replace (Hf d0 ⋅ d0) with (Hf d0 ⋅ rneg (Pf g)) by reflexivity. rewrite rdot_rneg_r. reflexivity.
  Qed.

  Theorem ss_solve_correct f :
    let res := @trust_region_cg R NumR Hf Pf D cg_tol cg_ratio (S f) x g (Pf g) (Hf (Pf g)) in
    let z := fst (fst res) in let tag := snd (fst res) in let iters := snd res in
    len n z /\
    @qmodel R NumR Hf g z <= 0 /\
    (iters <> 0%nat -> forall t, 0 <= t -> t * t * (d0 ⋅ d0) <= D * D ->
       @qmodel R NumR Hf g z <= @qmodel R NumR Hf g (rscale t d0)) /\
    (iters = 0%nat -> 0 <= D -> forall t, 0 <= t -> t * t * (d0 ⋅ d0) <= D * D ->
       @qmodel R NumR Hf g z - @qmodel R NumR Hf g (rscale t d0) <= D * sqrt tol2 - / 2 * (t * t) * (d0 ⋅ Hf d0)) /\
    (tag = Interior -> radd g (Hf z) ⋅ radd g (Hf z) < tol2) /\
    z ⋅ z <= D * D /\ (is_on_boundary tag = true -> z ⋅ z = D * D).
  Proof.
    cbv zeta. unfold trust_region_cg. fold tol2. unfold_num. q2r. unfold Rltb.
    pose proof (tol2_pos cg_tol cg_ratio g tol_nz) as Htol. fold tol2 in Htol.
    destruct (Rlt_dec (g ⋅ g) tol2) as [Hsmall|Hbig]; cbn [fst snd].
    - assert (Hz0 : len n (rzero x)) by auto with vlen.
      split; [assumption|]. split.
      { rewrite qmodel_R, rdot_rzero_r, rdot_rzero_l. lra. }
      split; [intros E; exfalso; apply E; reflexivity|]. split.
      { intros _ HD t Ht Hin. replace (@qmodel R NumR Hf g (rzero x)) with 0 by (rewrite qmodel_R, rdot_rzero_r, rdot_rzero_l; lra).
        apply (zero_step_cauchy_gap n Hf Pf D tol2 x g Hlen Plen Hlin Hsym xlen glen t Hsmall HD Ht Hin). }
      split.
      { intros _.
        pose proof (resid_of_res n Hf g Hlen glen (rzero x) g Hz0 glen) as E. unfold resid in E. rewrite E; [assumption|].
        intros w Hw. rewrite (Hf_zero n Hf Hlen Hlin x w xlen). ring. }
      rewrite rdot_rzero_l. split; [nra|cbn; discriminate].
    - fold d0. rewrite first_curvature.
      pose proof (ss_from_start n Hf Pf D tol2 g Hlen Plen Hlin Hsym Ppos Htol glen x xlen Hbig f) as (P & C).
      cbv zeta in P, C. fold d0 in P, C. unfold loopS in *.
      destruct (sscg_loop _ _ _ _ _ _ _ _ _ _ _) as [[zo tago] ito] eqn:El. cbn [fst snd] in *.
      unfold PostS in P. destruct P as (P1 & P2 & P3 & P4 & P5).
      split; [exact P1|]. split.
      { rewrite qmodel_R. unfold mq in P2. eapply Rle_trans; [exact P2|]. rewrite rdot_rzero_r, rdot_rzero_l. lra. }
      split.
      { intros _ t Ht Htr. specialize (C t Ht Htr). unfold mq in C. rewrite !qmodel_R.
        rewrite (rscale_as_raxpy n Pf x g Plen xlen glen). exact C. }
      split.
      { intros E0. exfalso.
        (* a run that enters the loop reports at least one iteration *)
        pose proof (ss_iters_pos Hf Pf D f 0%nat tol2 (rzero x) g d0 (g ⋅ Pf g) (d0 ⋅ Hf d0)) as Hpos.
        rewrite El in Hpos. cbn [snd] in Hpos. lia. }
      split; [exact P3|]. split; [exact P4|exact P5].
  Qed.
End SSmain.

(* ------------------------------------------------------------------ the same clause for solve_trust_region_minimization *)
Lemma cg_iters_ge Hf Pf pcip D f : forall i tol2 cp z r d rPr zz zd dd,
  (i <= cg_iters (@cg_loop R NumR Hf Pf pcip D f i tol2 cp z r d rPr zz zd dd))%nat.
Proof.
  induction f as [|f IH]; intros i tol2 cp z r d rPr zz zd dd; cbn [cg_loop]; [cbn; lia|].
  destruct (nleb _ _); [cbn; lia|]. destruct (nltb _ _); [cbn; lia|]. destruct (nltb _ _); [cbn; lia|].
  destruct (if pcip then _ else _) as [zd' dd']. eapply Nat.le_trans; [|apply IH]. lia.
Qed.
Lemma cg_iters_pos Hf Pf pcip D f i tol2 cp z r d rPr zz zd dd :
  (S i <= cg_iters (@cg_loop R NumR Hf Pf pcip D (S f) i tol2 cp z r d rPr zz zd dd))%nat.
Proof.
  cbn [cg_loop].
  destruct (nleb _ _); [cbn; lia|]. destruct (nltb _ _); [cbn; lia|]. destruct (nltb _ _); [cbn; lia|].
  destruct (if pcip then _ else _) as [zd' dd']. apply cg_iters_ge.
Qed.

Theorem cg_zero_iteration n (Hf Pf : rvec -> rvec) pcip D cg_tol cg_ratio (x g : rvec) :
  (forall v, len n v -> len n (Hf v)) -> (forall v, len n v -> len n (Pf v)) ->
  (forall a k b, len n a -> len n b -> Hf (raxpy a k b) = raxpy (Hf a) k (Hf b)) ->
  (forall a b, len n a -> len n b -> a ⋅ Hf b = Hf a ⋅ b) ->
  len n x -> len n g ->
  forall f,
  let tol2 := @cg_tol_squared R NumR cg_tol cg_ratio g in
  let d0 := rneg (Pf g) in
  let res := @solve_trust_region_minimization R NumR Hf Pf pcip D cg_tol cg_ratio (S f) x g in
  (cg_iters res = 0%nat <-> g ⋅ g < tol2) /\
  (g ⋅ g < tol2 ->
     cg_z res = rzero x /\ cg_tag res = Interior /\ @qmodel R NumR Hf g (cg_z res) = 0 /\
     forall t, 0 <= D -> 0 <= t -> t * t * (d0 ⋅ d0) <= D * D ->
       @qmodel R NumR Hf g (cg_z res) - @qmodel R NumR Hf g (rscale t d0) <= D * sqrt tol2 - / 2 * (t * t) * (d0 ⋅ Hf d0)).
Proof.
  intros Hlen Plen Hlin Hsym xlen glen f. cbv zeta. unfold solve_trust_region_minimization.
  set (tol2 := @cg_tol_squared R NumR cg_tol cg_ratio g). unfold_num. q2r. unfold Rltb.
  destruct (Rlt_dec (g ⋅ g) tol2) as [Hsmall|Hbig]; cbn [cg_z cg_tag cg_iters].
  - split; [split; auto|]. intros _.
    assert (E0 : @qmodel R NumR Hf g (rzero x) = 0) by (rewrite qmodel_R, rdot_rzero_r, rdot_rzero_l; lra).
    repeat split; try assumption. intros t HD Ht Hin. rewrite E0.
    apply (zero_step_cauchy_gap n Hf Pf D tol2 x g Hlen Plen Hlin Hsym xlen glen t Hsmall HD Ht Hin).
  - split; [|intros H; contradiction]. split; [|intros H; contradiction].
    intros E. exfalso.
    match goal with E : cg_iters ?L = 0%nat |- _ => assert (Hp : (1 <= cg_iters L)%nat) by apply cg_iters_pos end. lia.
Qed.
