(* C06 -- truncated CG (solve_trust_region_minimization) over the reals: tau lands on the boundary, radius, model decrease
   versus the Cauchy step, interior residual.  Subjects: model/M_C06_CG.v at T := R, whose scalar kernels are the generated
   definitions of gen/Gen_EquationSolver.v. *)
From Coq Require Import Reals Lra Lia List QArith Psatz Bool.
From OV.base Require Import Num.
From OV.gen Require Import Gen_EquationSolver Gen_EquationSolverSubspace.
From OV.model Require Import M_C06_Vec M_C06_CG.
From OV.proofs Require Import L_C06_Vec.
Import ListNotations.
Local Open Scope R_scope.

(* ------------------------------------------------------------------ scalar kernels (generated) *)
Definition tauR (D zz zd dd : R) : R := @tau_coefs R NumR D zz zd dd.

Lemma upd_R a zz zd dd : @update_step_length_squared R NumR a zz zd dd = zz + 2 * a * zd + a * a * dd.
Proof. unfold update_step_length_squared. unfold_num. q2r. ring. Qed.

Lemma cgip_R a b zd dd rPr u v :
  @cg_inner_products_preconditioned R NumR a b zd dd rPr u v = (b * (zd + a * dd), rPr + b * b * dd).
Proof. unfold cg_inner_products_preconditioned. unfold_num. cbv zeta. f_equal; ring. Qed.

(* the source's tau: discriminant >= 0, tau >= 0, and the quadratic hits Delta^2 *)
Lemma tau_spec D zz zd dd : zz <= D * D -> 0 < dd ->
  0 <= (D * D - zz) * dd + zd * zd /\ 0 <= tauR D zz zd dd /\
  zz + 2 * tauR D zz zd dd * zd + tauR D zz zd dd * tauR D zz zd dd * dd = D * D.
Proof.
  intros Hzz Hdd.
  assert (Hdisc : 0 <= (D * D - zz) * dd + zd * zd) by nra.
  split; [exact Hdisc|].
  unfold tauR, tau_coefs, project_to_boundary_with_coefs. unfold_num. q2r. cbv zeta.
  match goal with |- context [sqrt ?e] => set (E := e) end.
  assert (HE : E = (D * D - zz) * dd + zd * zd) by (unfold E; ring).
  assert (Hs : sqrt E * sqrt E = E) by (apply sqrt_sqrt; lra).
  pose proof (sqrt_pos E) as Hs0.
  set (s := sqrt E) in *.
  match goal with |- 0 <= ?t /\ _ => set (tau := t) end.
  assert (Ht : tau * dd = s - zd) by (unfold tau; field; lra).
  assert (Hge : zd <= s) by nra.
  split.
  - assert (0 <= tau * dd) by lra. nra.
  - assert (E1 : zz + 2 * tau * zd + tau * tau * dd = zz + tau * (2 * zd + tau * dd)) by ring.
    rewrite E1, Ht. replace (2 * zd + (s - zd)) with (s + zd) by ring.
    assert (tau * (s + zd) * dd = (s - zd) * (s + zd)) by (rewrite <- Ht; ring).
    assert (tau * (s + zd) * dd = (D * D - zz) * dd) by nra.
    assert (tau * (s + zd) = D * D - zz) by nra. lra.
Qed.

(* the subspace solver's private copy of the same kernel *)
Lemma tau_ss_spec D zz zd dd : zz <= D * D -> 0 < dd ->
  let t := @tau_coefs_ss R NumR D zz zd dd in
  0 <= t /\ zz + 2 * t * zd + t * t * dd = D * D.
Proof.
  intros Hzz Hdd.
  assert (Hdisc : 0 <= (D * D - zz) * dd + zd * zd) by nra.
  unfold tau_coefs_ss, ss_project_to_boundary_with_coefs. unfold_num. q2r. cbv zeta.
  match goal with |- context [sqrt ?e] => set (E := e) end.
  assert (HE : E = (D * D - zz) * dd + zd * zd) by (unfold E; ring).
  assert (Hs : sqrt E * sqrt E = E) by (apply sqrt_sqrt; lra).
  pose proof (sqrt_pos E) as Hs0.
  set (s := sqrt E) in *.
  match goal with |- 0 <= ?t /\ _ => set (tau := t) end.
  assert (Ht : tau * dd = s - zd) by (unfold tau; field; lra).
  assert (Hge : zd <= s) by nra.
  split.
  - assert (0 <= tau * dd) by lra. nra.
  - assert (E1 : zz + 2 * tau * zd + tau * tau * dd = zz + tau * (2 * zd + tau * dd)) by ring.
    rewrite E1, Ht. replace (2 * zd + (s - zd)) with (s + zd) by ring.
    assert (tau * (s + zd) * dd = (s - zd) * (s + zd)) by (rewrite <- Ht; ring).
    assert (tau * (s + zd) * dd = (D * D - zz) * dd) by nra.
    assert (tau * (s + zd) = D * D - zz) by nra. lra.
Qed.

(* if a positive step a already leaves the ball, the boundary parameter is smaller *)
Lemma tau_lt_step D zz zd dd a t : zz <= D * D -> 0 < dd -> 0 <= t ->
  zz + 2 * t * zd + t * t * dd = D * D -> 0 < a -> D * D < zz + 2 * a * zd + a * a * dd -> t < a.
Proof.
  intros Hzz Hdd Ht Hq Ha Hout.
  destruct (Rlt_dec t a) as [|Hn]; [assumption|exfalso].
  assert (Hle : a <= t) by lra.
  assert (H1 : a * a * dd <= a * t * dd).
  { apply Rmult_le_compat_r; [lra|]. apply Rmult_le_compat_l; lra. }
  assert (H1' : t * (a * a * dd) <= t * (a * t * dd)) by (apply Rmult_le_compat_l; lra).
  assert (H2 : t * (zz + 2 * a * zd + a * a * dd) <= t * zz + a * (2 * t * zd + t * t * dd)) by lra.
  assert (H3 : 2 * t * zd + t * t * dd = D * D - zz) by lra.
  rewrite H3 in H2.
  assert (H4 : a * (D * D - zz) <= t * (D * D - zz)) by (apply Rmult_le_compat_r; lra).
  assert (H5 : t * (zz + 2 * a * zd + a * a * dd) <= t * (D * D)) by lra.
  assert (Ht0 : 0 < t) by lra.
  assert (zz + 2 * a * zd + a * a * dd <= D * D) by (apply Rmult_le_reg_l with t; assumption). lra.
Qed.

(* project_to_boundary_with_coefs on vectors with consistent coefficients: the result has norm Delta *)
Lemma project_on_boundary n (z d : rvec) D : len n z -> len n d -> z ⋅ z <= D * D -> 0 < d ⋅ d ->
  let out := @project_coefs R NumR z d D (z ⋅ z) (z ⋅ d) (d ⋅ d) in
  len n out /\ out ⋅ out = D * D /\ exists t, 0 <= t /\ out = raxpy z t d.
Proof.
  intros Hz Hd Hzz Hdd. cbv zeta. unfold project_coefs. fold (tauR D (z ⋅ z) (z ⋅ d) (d ⋅ d)).
  destruct (tau_spec D _ (z ⋅ d) _ Hzz Hdd) as (_ & Ht & Hq).
  split; [auto with vlen|]. split.
  - rewrite (rdot_raxpy_self n) by assumption. exact Hq.
  - eexists; split; [exact Ht|reflexivity].
Qed.

(* ------------------------------------------------------------------ the CG loop *)
Lemma qmodel_R Hf g z : @qmodel R NumR Hf g z = g ⋅ z + / 2 * (z ⋅ Hf z).
Proof. unfold qmodel. unfold_num. q2r. lra. Qed.

Section CGproofs.
  Variable n : nat.
  Variables Hf Pf : rvec -> rvec.          (* hess_vec_func, precond *)
  Variable pcip : bool.
  Variables D tol2 : R.
  Variable g : rvec.
  Hypothesis Hlen : forall v, len n v -> len n (Hf v).
  Hypothesis Plen : forall v, len n v -> len n (Pf v).
  Hypothesis Hlin : forall a k b, len n a -> len n b -> Hf (raxpy a k b) = raxpy (Hf a) k (Hf b).
  Hypothesis Hsym : forall a b, len n a -> len n b -> a ⋅ Hf b = Hf a ⋅ b.
  Hypothesis Ppos : forall v, len n v -> 0 < v ⋅ v -> 0 < v ⋅ Pf v.
  Hypothesis tol2_pos : 0 < tol2.
  Hypothesis glen : len n g.

  Definition mq (z : rvec) : R := g ⋅ z + / 2 * (z ⋅ Hf z).

  (* model value along a ray from z: uses only symmetry and linearity of the Hessian oracle *)
  Lemma mq_ray z d s r : len n z -> len n d ->
    (forall w, len n w -> r ⋅ w = g ⋅ w + Hf z ⋅ w) ->
    mq (raxpy z s d) = mq z + s * (r ⋅ d) + / 2 * (s * s) * (d ⋅ Hf d).
  Proof.
    intros Hz Hd Hr. unfold mq. rewrite Hlin by assumption.
    assert (Hz' := Hlen z Hz). assert (Hd' := Hlen d Hd).
    rewrite (rdot_raxpy_r n), (rdot_raxpy_l n), !(rdot_raxpy_r n) by auto with vlen.
    rewrite (Hr d Hd). rewrite (Hsym z d) by assumption. rewrite (rdot_comm d (Hf z)).
    field.
  Qed.

  Record Inv (z r d : rvec) (rPr zz zd dd : R) : Prop := {
    i_z : len n z; i_r : len n r; i_d : len n d;
    i_rPr : rPr = r ⋅ Pf r;
    i_rd : r ⋅ d = - rPr;
    i_rr : 0 < r ⋅ r;
    i_dd : 0 < dd;
    i_zz : zz <= D * D;
    i_res : forall w, len n w -> r ⋅ w = g ⋅ w + Hf z ⋅ w;
    i_euc : pcip = false -> zz = z ⋅ z /\ zd = z ⋅ d /\ dd = d ⋅ d }.

  Definition loopR := @cg_loop R NumR Hf Pf pcip D.
  Definition mk z c t i := @Build_cgres R z c t i.

  (* one pass through the loop body: which exit is taken, or the next state (which satisfies the invariant again) *)
  Lemma cg_step f i cp z r d rPr zz zd dd : Inv z r d rPr zz zd dd ->
    let curv := d ⋅ Hf d in
    let a := rPr / curv in
    let t := tauR D zz zd dd in
    let z' := raxpy z a d in
    let zz' := zz + 2 * a * zd + a * a * dd in
    let r' := raxpy r a (Hf d) in
    (curv <= 0 /\ loopR (S f) i tol2 cp z r d rPr zz zd dd = mk (raxpy z t d) cp NegCurve (S i))
    \/ (0 < curv /\ D * D < zz' /\ loopR (S f) i tol2 cp z r d rPr zz zd dd = mk (raxpy z t d) cp Boundary (S i))
    \/ (0 < curv /\ zz' <= D * D /\ r' ⋅ r' < tol2 /\
          (forall w, len n w -> r' ⋅ w = g ⋅ w + Hf z' ⋅ w) /\
          loopR (S f) i tol2 cp z r d rPr zz zd dd = mk z' cp Interior (S i))
    \/ (0 < curv /\ zz' <= D * D /\
          exists d' zd' dd', Inv z' r' d' (r' ⋅ Pf r') zz' zd' dd' /\
          loopR (S f) i tol2 cp z r d rPr zz zd dd = loopR f (S i) tol2 cp z' r' d' (r' ⋅ Pf r') zz' zd' dd').
  Proof.
    intros I. destruct I as [Iz Ir Id IrPr Ird Irr Idd Izz Ires Ieuc].
    intros curv a t z' zz' r'.
    assert (HdL := Hlen d Id).
    assert (HrPr : 0 < rPr) by (rewrite IrPr; apply Ppos; assumption).
    unfold loopR. cbn [cg_loop]. unfold project_coefs. rewrite upd_R. unfold_num. q2r. fold curv. fold a. fold zz'.
    fold (tauR D zz zd dd). fold t.
    unfold Rleb, Rltb.
    destruct (Rle_dec curv 0) as [Hc|Hc].
    { left. split; [assumption|reflexivity]. }
    assert (Hcp : 0 < curv) by lra.
    destruct (Rlt_dec (D * D) zz') as [Hb|Hb].
    { right; left. repeat split; try assumption. }
    assert (Hin : zz' <= D * D) by lra.
    fold r'.
    assert (Hr'L : len n r') by (unfold r'; auto with vlen).
    assert (Hz'L : len n z') by (unfold z'; auto with vlen).
    assert (Hres' : forall w, len n w -> r' ⋅ w = g ⋅ w + Hf z' ⋅ w).
    { intros w Hw. unfold r', z'. rewrite Hlin by assumption.
      rewrite !(rdot_raxpy_l n) by auto with vlen. rewrite (Ires w Hw). ring. }
    destruct (Rlt_dec (r' ⋅ r') tol2) as [Ht|Ht].
    { right; right; left. repeat split; try assumption. }
    right; right; right. split; [assumption|]. split; [assumption|].
    assert (Hrr' : 0 < r' ⋅ r') by lra.
    assert (HrPr' : 0 < r' ⋅ Pf r') by (apply Ppos; assumption).
    set (b := r' ⋅ Pf r' / rPr).
    set (d' := radd (rneg (Pf r')) (rscale b d)).
    assert (HPr'L : len n (Pf r')) by auto.
    assert (Hd'L : len n d') by (unfold d'; auto with vlen).
    assert (Hr'd : r' ⋅ d = 0).
    { unfold r'. rewrite (rdot_raxpy_l n) by assumption. rewrite Ird, (rdot_comm (Hf d) d). fold curv.
      unfold a. field. lra. }
    assert (Hr'd' : r' ⋅ d' = - (r' ⋅ Pf r')).
    { unfold d'. rewrite (rdot_radd_r n) by auto with vlen. rewrite rdot_rneg_r, rdot_rscale_r, Hr'd. ring. }
    assert (Hd'd' : 0 < d' ⋅ d').
    { pose proof (rdot_self_nonneg d') as Hnn.
      destruct (Req_dec (d' ⋅ d') 0) as [Hz0|Hnz]; [|lra].
      pose proof (rdot_self_zero d' Hz0 r') as Hz1. rewrite rdot_comm in Hz1. lra. }
    destruct pcip eqn:Epc.
    - rewrite cgip_R. exists d', (b * (zd + a * dd)), (r' ⋅ Pf r' + b * b * dd).
      split; [|reflexivity].
      constructor; try assumption; try reflexivity.
      + assert (0 <= b * b * dd) by (apply Rmult_le_pos; [apply Rle_0_sqr || nra | lra]). lra.
      + congruence.
    - exists d', (z' ⋅ d'), (d' ⋅ d').
      split; [|reflexivity].
      constructor; try assumption; try reflexivity.
      intros _. destruct (Ieuc eq_refl) as (Ezz & Ezd & Edd).
      split; [|split; reflexivity].
      unfold zz', z'. rewrite (rdot_raxpy_self n) by assumption. rewrite Ezz, Ezd, Edd. ring.
  Qed.

  (* ---- consequences of one step for the model value *)
  Lemma mq_step z r d rPr zz zd dd s : Inv z r d rPr zz zd dd ->
    mq (raxpy z s d) = mq z - s * rPr + / 2 * (s * s) * (d ⋅ Hf d).
  Proof. intros I. destruct I. rewrite (mq_ray z d s r) by assumption. rewrite i_rd0. ring. Qed.

  Definition resid (z : rvec) : R := radd g (Hf z) ⋅ radd g (Hf z).
  Lemma resid_of_res z r : len n z -> len n r -> (forall w, len n w -> r ⋅ w = g ⋅ w + Hf z ⋅ w) -> resid z = r ⋅ r.
  Proof.
    intros Hz Hr Hres. unfold resid. assert (HzL := Hlen z Hz).
    rewrite (rdot_radd_l n), !(rdot_radd_r n) by assumption.
    rewrite (Hres r Hr). rewrite (rdot_comm g r), (rdot_comm (Hf z) r).
    rewrite (Hres g glen), (Hres (Hf z) HzL). ring.
  Qed.

  Definition Post (zin : rvec) (res : @cgres R) : Prop :=
    len n (cg_z res) /\ mq (cg_z res) <= mq zin /\
    (cg_tag res = Interior -> resid (cg_z res) < tol2) /\
    (pcip = false -> cg_z res ⋅ cg_z res <= D * D /\
                     (is_on_boundary (cg_tag res) = true -> cg_z res ⋅ cg_z res = D * D)).

  Lemma rPr_pos z r d rPr zz zd dd : Inv z r d rPr zz zd dd -> 0 < rPr.
  Proof. intros I; destruct I. subst rPr. apply Ppos; assumption. Qed.

  (* phi(s) = -s rPr + s^2 curv / 2 along the current direction *)
  Lemma phi_negcurve rPr curv t : 0 < rPr -> curv <= 0 -> 0 <= t -> - t * rPr + / 2 * (t * t) * curv <= 0.
  Proof. intros. assert (0 <= t * t) by nra. assert (t * t * curv <= 0) by nra. nra. Qed.
  Lemma phi_boundary rPr curv t : 0 < rPr -> 0 < curv -> 0 <= t -> t < rPr / curv -> - t * rPr + / 2 * (t * t) * curv <= 0.
  Proof.
    intros H1 H2 H3 H4. assert (E : rPr / curv * curv = rPr) by (field; lra).
    assert (t * curv < rPr) by (rewrite <- E; apply Rmult_lt_compat_r; assumption).
    assert (t * (t * curv) <= t * rPr) by (apply Rmult_le_compat_l; lra).
    assert (0 <= t * rPr) by (apply Rmult_le_pos; lra). lra.
  Qed.
  Lemma phi_full rPr curv : 0 < rPr -> 0 < curv ->
    - (rPr / curv) * rPr + / 2 * (rPr / curv * (rPr / curv)) * curv = - / 2 * (rPr * rPr / curv).
  Proof. intros. field. lra. Qed.
  Lemma phi_full_neg rPr curv : 0 < rPr -> 0 < curv -> - / 2 * (rPr * rPr / curv) <= 0.
  Proof. intros. assert (0 < rPr * rPr / curv). { apply Rdiv_lt_0_compat; nra. } lra. Qed.


  Lemma phi_full_eq rPr curv t : 0 < rPr -> 0 < curv ->
    - t * rPr + / 2 * (t * t) * curv =
    - (rPr / curv) * rPr + / 2 * (rPr / curv * (rPr / curv)) * curv + / 2 * curv * ((t - rPr / curv) * (t - rPr / curv)).
  Proof. intros. field. lra. Qed.

  Lemma cg_loop_post f : forall i cp z r d rPr zz zd dd, Inv z r d rPr zz zd dd ->
    Post z (loopR f i tol2 cp z r d rPr zz zd dd).
  Proof.
    induction f as [|f IH]; intros i cp z r d rPr zz zd dd I.
    - unfold loopR; cbn [cg_loop]. unfold Post; cbn [cg_z cg_tag].
      destruct I. split; [assumption|]. split; [lra|]. split; [discriminate|].
      intros E. destruct (i_euc0 E) as (Ezz & _). split; [lra|]. cbn. discriminate.
    - pose proof (rPr_pos _ _ _ _ _ _ _ I) as HrPr.
      pose proof (fun s => mq_step z r d rPr zz zd dd s I) as Hmq.
      destruct (cg_step f i cp z r d rPr zz zd dd I) as [(Hc & E)|[(Hc & Hout & E)|[(Hc & Hin & Hres & Hr' & E)|(Hc & Hin & d' & zd' & dd' & I' & E)]]];
        rewrite E; clear E.
      + (* negative curvature: project to the boundary *)
        destruct I. destruct (tau_spec D zz zd dd i_zz0 i_dd0) as (_ & Ht0 & Hq).
        unfold Post, mk; cbn [cg_z cg_tag]. split; [auto with vlen|]. split.
        { rewrite Hmq. pose proof (phi_negcurve rPr _ _ HrPr Hc Ht0). lra. }
        split; [discriminate|]. intros Epc. destruct (i_euc0 Epc) as (Ezz & Ezd & Edd).
        rewrite (rdot_raxpy_self n) by assumption. rewrite <- Ezz, <- Ezd, <- Edd.
        replace (tauR D zz zd dd * tauR D zz zd dd * dd) with (tauR D zz zd dd * tauR D zz zd dd * dd) by ring.
        split; [lra|intros _; lra].
      + (* boundary *)
        destruct I. destruct (tau_spec D zz zd dd i_zz0 i_dd0) as (_ & Ht0 & Hq).
        assert (Ha : 0 < rPr / (d ⋅ Hf d)) by (apply Rdiv_lt_0_compat; assumption).
        pose proof (tau_lt_step D zz zd dd _ _ i_zz0 i_dd0 Ht0 Hq Ha Hout) as Hlt.
        unfold Post, mk; cbn [cg_z cg_tag]. split; [auto with vlen|]. split.
        { rewrite Hmq. pose proof (phi_boundary rPr _ _ HrPr Hc Ht0 Hlt). lra. }
        split; [discriminate|]. intros Epc. destruct (i_euc0 Epc) as (Ezz & Ezd & Edd).
        rewrite (rdot_raxpy_self n) by assumption. rewrite <- Ezz, <- Ezd, <- Edd.
        split; [lra|intros _; lra].
      + (* converged in the interior *)
        destruct I.
        unfold Post, mk; cbn [cg_z cg_tag]. split; [auto with vlen|]. split.
        { rewrite Hmq. rewrite Rmult_minus_distr_l || idtac.
          pose proof (phi_full rPr _ HrPr Hc). pose proof (phi_full_neg rPr _ HrPr Hc). lra. }
        split.
        { intros _. rewrite (resid_of_res _ (raxpy r (rPr / (d ⋅ Hf d)) (Hf d))); auto with vlen. }
        intros Epc. destruct (i_euc0 Epc) as (Ezz & Ezd & Edd).
        rewrite (rdot_raxpy_self n) by assumption. rewrite <- Ezz, <- Ezd, <- Edd.
        split; [lra|cbn; discriminate].
      + (* next iteration *)
        destruct (IH (S i) cp _ _ _ _ _ _ _ I') as (P1 & P2 & P3 & P4).
        unfold Post. split; [assumption|]. split; [|split; assumption].
        eapply Rle_trans; [exact P2|]. rewrite Hmq.
        pose proof (phi_full rPr _ HrPr Hc). pose proof (phi_full_neg rPr _ HrPr Hc). lra.
  Qed.

  (* ---- the start state and the comparison with every step along the first (Cauchy) direction *)
  Lemma raxpy_self_neg (x : rvec) : raxpy x (-1) x = rzero x.
  Proof. induction x as [|a x IH]; [reflexivity|]. cbn. unfold_num. q2r. f_equal; [ring|exact IH]. Qed.
  Lemma Hf_zero x w : len n x -> Hf (rzero x) ⋅ w = 0.
  Proof.
    intros Hx. rewrite <- raxpy_self_neg, Hlin by assumption.
    rewrite (rdot_raxpy_l n) by auto. ring.
  Qed.

  Section Start.
    Variable x : rvec.
    Hypothesis xlen : len n x.
    Hypothesis g_big : ~ g ⋅ g < tol2.
    Let z0 := rzero x.
    Let d0 := rneg (Pf g).
    Let rPr0 := g ⋅ Pf g.
    Let dd0 := if pcip then rPr0 else d0 ⋅ d0.

    Lemma mq_z0 : mq z0 = 0.
    Proof. unfold mq, z0. rewrite rdot_rzero_r, rdot_rzero_l. ring. Qed.

    Lemma inv_start : Inv z0 g d0 rPr0 0 0 dd0.
    Proof.
      assert (Hgg : 0 < g ⋅ g) by lra.
      assert (HrPr : 0 < rPr0) by (apply Ppos; assumption).
      assert (Hd0 : len n d0) by (unfold d0; auto with vlen).
      assert (Hgd : g ⋅ d0 = - rPr0) by (unfold d0; rewrite rdot_rneg_r; reflexivity).
      assert (Hdd : 0 < d0 ⋅ d0).
      { pose proof (rdot_self_nonneg d0). destruct (Req_dec (d0 ⋅ d0) 0) as [Hz0|]; [|lra].
        pose proof (rdot_self_zero d0 Hz0 g) as Hz1. rewrite rdot_comm in Hz1. lra. }
      constructor; try assumption; try reflexivity.
      - unfold z0; auto with vlen.
      - unfold dd0; destruct pcip; assumption.
      - nra.
      - intros w Hw. unfold z0. rewrite (Hf_zero x w xlen). ring.
      - intros E. unfold dd0; rewrite E. unfold z0. rewrite !rdot_rzero_l. auto.
    Qed.

    Theorem cg_from_start f : let res := loopR (S f) 0 tol2 d0 z0 g d0 rPr0 0 0 dd0 in
      Post z0 res /\
      (forall t, 0 <= t -> t * t * dd0 <= D * D -> mq (cg_z res) <= mq (raxpy z0 t d0)).
    Proof.
      intros res. split; [apply cg_loop_post, inv_start|].
      intros t Ht Htr. subst res.
      pose proof inv_start as I.
      pose proof (rPr_pos _ _ _ _ _ _ _ I) as HrPr.
      pose proof (fun s => mq_step _ _ _ _ _ _ _ s I) as Hmq.
      assert (Hdd0 : 0 < dd0) by (destruct I; assumption).
      destruct (cg_step f 0%nat d0 _ _ _ _ _ _ _ I) as [(Hc & E)|[(Hc & Hout & E)|[(Hc & Hin & Hres & Hr' & E)|(Hc & Hin & d' & zd' & dd' & I' & E)]]];
        rewrite E; clear E; unfold mk; cbn [cg_z].
      - destruct (tau_spec D 0 0 dd0 ltac:(nra) Hdd0) as (_ & Ht0 & Hq).
        rewrite !Hmq. set (tt := tauR D 0 0 dd0) in *. set (curv := d0 ⋅ Hf d0) in *.
        assert (t * t * dd0 <= tt * tt * dd0) by lra.
        assert (t * t <= tt * tt) by (apply Rmult_le_reg_r with dd0; lra).
        assert (t <= tt) by nra.
        assert ((tt * tt - t * t) * curv <= 0) by nra.
        assert ((tt - t) * rPr0 >= 0) by nra. lra.
      - destruct (tau_spec D 0 0 dd0 ltac:(nra) Hdd0) as (_ & Ht0 & Hq).
        assert (Ha : 0 < rPr0 / (d0 ⋅ Hf d0)) by (apply Rdiv_lt_0_compat; assumption).
        pose proof (tau_lt_step D 0 0 dd0 _ _ ltac:(nra) Hdd0 Ht0 Hq Ha Hout) as Hlt.
        rewrite !Hmq. set (tt := tauR D 0 0 dd0) in *. set (curv := d0 ⋅ Hf d0) in *.
        assert (t * t * dd0 <= tt * tt * dd0) by lra.
        assert (t * t <= tt * tt) by (apply Rmult_le_reg_r with dd0; lra).
        assert (t <= tt) by nra.
        assert (E : rPr0 / curv * curv = rPr0) by (field; lra).
        assert (tt * curv < rPr0) by (rewrite <- E; apply Rmult_lt_compat_r; assumption).
        assert (t * curv <= tt * curv) by (apply Rmult_le_compat_r; lra).
        (* (tt - t) * (-rPr + (tt + t)/2 curv) <= 0 *)
        assert ((tt - t) * (- rPr0 + / 2 * (tt + t) * curv) <= 0) by nra. lra.
      - rewrite !Hmq. set (curv := d0 ⋅ Hf d0) in *.
        pose proof (phi_full_eq rPr0 curv t HrPr Hc) as Eq.
        pose proof (Rle_0_sqr (t - rPr0 / curv)) as Hsq. unfold Rsqr in Hsq.
        assert (0 <= / 2 * curv) by lra.
        assert (0 <= / 2 * curv * ((t - rPr0 / curv) * (t - rPr0 / curv))) by (apply Rmult_le_pos; assumption).
        lra.
      - destruct (cg_loop_post f 1%nat d0 _ _ _ _ _ _ _ I') as (_ & P2 & _).
        eapply Rle_trans; [exact P2|]. rewrite !Hmq. set (curv := d0 ⋅ Hf d0) in *.
        pose proof (phi_full_eq rPr0 curv t HrPr Hc) as Eq.
        pose proof (Rle_0_sqr (t - rPr0 / curv)) as Hsq. unfold Rsqr in Hsq.
        assert (0 <= / 2 * curv) by lra.
        assert (0 <= / 2 * curv * ((t - rPr0 / curv) * (t - rPr0 / curv))) by (apply Rmult_le_pos; assumption). lra.
    Qed.
  End Start.
End CGproofs.

(* ------------------------------------------------------------------ the public entry point *)
Lemma radd_rzero_l (x y : rvec) : length x = length y -> radd (rzero x) y = y.
Proof.
  revert y; induction x as [|a x IH]; intros [|b y] E; try discriminate; [reflexivity|].
  cbn. unfold_num. q2r. f_equal; [ring|]. apply IH. simpl in E; congruence.
Qed.

Section CGmain.
  Variable n : nat.
  Variables Hf Pf : rvec -> rvec.
  Variable pcip : bool.
  Variables D cg_tol cg_ratio : R.
  Variables x g : rvec.
  Hypothesis Hlen : forall v, len n v -> len n (Hf v).
  Hypothesis Plen : forall v, len n v -> len n (Pf v).
  Hypothesis Hlin : forall a k b, len n a -> len n b -> Hf (raxpy a k b) = raxpy (Hf a) k (Hf b).
  Hypothesis Hsym : forall a b, len n a -> len n b -> a ⋅ Hf b = Hf a ⋅ b.
  Hypothesis Ppos : forall v, len n v -> 0 < v ⋅ v -> 0 < v ⋅ Pf v.
  Hypothesis tol_nz : cg_tol <> 0.
  Hypothesis xlen : len n x.
  Hypothesis glen : len n g.

  Let tol2 := @cg_tol_squared R NumR cg_tol cg_ratio g.
  Let d0 := rneg (Pf g).
  Let dd0 := if pcip then g ⋅ Pf g else d0 ⋅ d0.

  Lemma tol2_pos : 0 < tol2.
  Proof.
    unfold tol2, cg_tol_squared, nmax. unfold_num. unfold Rltb.
    assert (0 < cg_tol * cg_tol) by nra.
    destruct (Rlt_dec (cg_tol * cg_tol) (cg_ratio * cg_ratio * (g ⋅ g))); lra.
  Qed.

  Theorem cg_solve_correct f :
    let res := @solve_trust_region_minimization R NumR Hf Pf pcip D cg_tol cg_ratio (S f) x g in
    len n (cg_z res) /\
    @qmodel R NumR Hf g (cg_z res) <= 0 /\
    (cg_iters res <> 0%nat -> forall t, 0 <= t -> t * t * dd0 <= D * D ->
       @qmodel R NumR Hf g (cg_z res) <= @qmodel R NumR Hf g (rscale t d0)) /\
    (cg_tag res = Interior -> radd g (Hf (cg_z res)) ⋅ radd g (Hf (cg_z res)) < tol2) /\
    (pcip = false -> cg_z res ⋅ cg_z res <= D * D /\
                     (is_on_boundary (cg_tag res) = true -> cg_z res ⋅ cg_z res = D * D)).
  Proof.
    intros res. subst res. unfold solve_trust_region_minimization.
    fold tol2. unfold_num. q2r. unfold Rltb.
    pose proof tol2_pos as Htol.
    destruct (Rlt_dec (g ⋅ g) tol2) as [Hsmall|Hbig]; cbn [cg_z cg_tag cg_iters].
    - assert (Hz0 : len n (rzero x)) by auto with vlen.
      split; [assumption|]. split.
      { rewrite qmodel_R, rdot_rzero_r, rdot_rzero_l. lra. }
      split; [intros E; exfalso; apply E; reflexivity|]. split.
      { intros _.
        pose proof (resid_of_res n Hf g Hlen glen (rzero x) g Hz0 glen) as E. unfold resid in E. rewrite E; [assumption|].
        intros w Hw. rewrite (Hf_zero n Hf Hlen Hlin x w xlen). ring. }
      intros _. rewrite rdot_rzero_l. split; [nra|cbn; discriminate].
    - pose proof (cg_from_start n Hf Pf pcip D tol2 g Hlen Plen Hlin Hsym Ppos Htol glen x xlen Hbig f) as (P & C).
      cbv zeta in P, C. fold d0 in P, C. fold dd0 in P, C.
      destruct P as (P1 & P2 & P3 & P4).
      unfold loopR in *.
      split; [exact P1|]. split.
      { rewrite qmodel_R. unfold mq in P2. rewrite (mq_z0 Hf g x) in P2 || idtac.
        eapply Rle_trans; [exact P2|]. rewrite rdot_rzero_r, rdot_rzero_l. lra. }
      split.
      { intros _ t Ht Htr. specialize (C t Ht Htr). unfold mq in C. rewrite !qmodel_R.
        unfold vaxpy in C. rewrite radd_rzero_l in C; [exact C|].
        unfold vzero_like, vscale, d0, vneg. rewrite !map_length. rewrite xlen. symmetry. apply Plen. exact glen. }
      split; [exact P3|exact P4].
  Qed.
End CGmain.

(* the hypotheses on the oracles are satisfiable: Hessian 2*I, identity preconditioner, any dimension *)
Lemma rscale_raxpy c (a : rvec) k (b : rvec) : rscale c (raxpy a k b) = raxpy (rscale c a) k (rscale c b).
Proof.
  revert b; induction a as [|x a IH]; intros [|y b]; try reflexivity.
  cbn. unfold_num. f_equal; [ring|apply IH].
Qed.
Lemma cg_hypotheses_satisfiable n :
  let Hf := rscale 2 in let Pf := fun v : rvec => v in
  (forall v, len n v -> len n (Hf v)) /\ (forall v, len n v -> len n (Pf v)) /\
  (forall a k b, len n a -> len n b -> Hf (raxpy a k b) = raxpy (Hf a) k (Hf b)) /\
  (forall a b, len n a -> len n b -> a ⋅ Hf b = Hf a ⋅ b) /\
  (forall v, len n v -> 0 < v ⋅ v -> 0 < v ⋅ Pf v) /\ len 2 [1; 0].
Proof.
  cbv zeta. repeat split; intros; auto with vlen.
  - apply rscale_raxpy.
  - rewrite rdot_rscale_r, rdot_rscale_l. reflexivity.
Qed.
