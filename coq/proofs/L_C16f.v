(* C16 part 5: statements about the BINARY64 instances (PrimFloat, executed by vm_compute inside the kernel):
   (1) the sign clause of cpp_distance for points EXACTLY on the line of the segment (0 |-> +, beyond the ends +|p - end|) for the
       regenerated kernel Gen_EdgeCpp.cpp_distance at T := float, on a grid of dyadic inputs, lifted from forallb to a
       quantified statement with the bounds of the grid in the statement;
   (2) the witnesses of the open findings C16-F1 / C16-F2 on the binary64 instance of the hand model of the UNPATCHED source
       (NaN resp. 0 instead of the overlap length) and on the models of the proposed patches (overlap length). *)
From Coq Require Import ZArith List Bool Floats Lia.
From OV.base Require Import Num.
From OV.gen Require Import Gen_Surface Gen_EdgeCpp Gen_MortarContact.
From OV.model Require Import M_C16_Mortar M_C16_Patched.
Import ListNotations.
Local Open Scope Z_scope.

(* ---------------- (1) points exactly on the line ---------------- *)
(* segment a = (a0,a1) 2^e, b = a + (d0,d1) 2^e, point p = a + (k/4) (b - a): all exactly representable *)
Definition line_dist (e a0 a1 d0 d1 k : Z) : float :=
  @cpp_distance float NumF (F a0 e) (F a1 e) (F (a0 + d0) e) (F (a1 + d1) e) (F (4 * a0 + k * d0) (e - 2)) (F (4 * a1 + k * d1) (e - 2)).
Definition line_ok (e a0 a1 d0 d1 k : Z) : bool :=
  let r := line_dist e a0 a1 d0 d1 k in
  PrimFloat.leb 0 r && (if (0 <=? k) && (k <=? 4) then PrimFloat.eqb r 0 else PrimFloat.ltb 0 r).

Definition zrange (lo hi : Z) : list Z := map (fun i => lo + Z.of_nat i) (seq 0 (Z.to_nat (hi - lo + 1))).
Lemma zrange_In lo hi z : lo <= z <= hi -> In z (zrange lo hi).
Proof.
  intros H. unfold zrange. apply in_map_iff. exists (Z.to_nat (z - lo)). split; [lia|]. apply in_seq. lia.
Qed.

Definition grid_okf (f : Z -> Z -> Z -> Z -> Z -> Z -> bool) (es : list Z) (N D K : Z) : bool :=
  forallb (fun e => forallb (fun a0 => forallb (fun a1 => forallb (fun d0 => forallb (fun d1 =>
    ((d0 =? 0) && (d1 =? 0)) || forallb (fun k => f e a0 a1 d0 d1 k) (zrange (- K) (4 + K)))
    (zrange (- D) D)) (zrange (- D) D)) (zrange (- N) N)) (zrange (- N) N)) es.
(* lifting, for an arbitrary check f (nothing is computed here) *)
Lemma grid_lift f es N D K : grid_okf f es N D K = true ->
  forall e a0 a1 d0 d1 k, In e es -> - N <= a0 <= N -> - N <= a1 <= N -> - D <= d0 <= D -> - D <= d1 <= D -> (d0, d1) <> (0, 0) ->
  - K <= k <= 4 + K -> f e a0 a1 d0 d1 k = true.
Proof.
  intros G e a0 a1 d0 d1 k He Ha0 Ha1 Hd0 Hd1 Hd Hk. unfold grid_okf in G.
  rewrite forallb_forall in G. specialize (G e He).
  rewrite forallb_forall in G. specialize (G a0 (zrange_In _ _ _ Ha0)).
  rewrite forallb_forall in G. specialize (G a1 (zrange_In _ _ _ Ha1)).
  rewrite forallb_forall in G. specialize (G d0 (zrange_In _ _ _ Hd0)).
  rewrite forallb_forall in G. specialize (G d1 (zrange_In _ _ _ Hd1)).
  apply orb_true_iff in G. destruct G as [G|G].
  - exfalso. apply andb_true_iff in G. destruct G as [G0 G1]. apply Z.eqb_eq in G0, G1. apply Hd. congruence.
  - rewrite forallb_forall in G. exact (G k (zrange_In _ _ _ Hk)).
Qed.
Lemma line_ok_spec e a0 a1 d0 d1 k : line_ok e a0 a1 d0 d1 k = true ->
  let r := line_dist e a0 a1 d0 d1 k in
  PrimFloat.leb 0 r = true /\ (0 <= k <= 4 -> PrimFloat.eqb r 0 = true) /\ (k < 0 \/ 4 < k -> PrimFloat.ltb 0 r = true).
Proof.
  unfold line_ok. generalize (line_dist e a0 a1 d0 d1 k). intros r G. cbv zeta in *.
  apply andb_true_iff in G. destruct G as [G1 G2]. split; [exact G1|].
  destruct ((0 <=? k) && (k <=? 4)) eqn:B.
  - apply andb_true_iff in B. destruct B as [B1 B2]. apply Z.leb_le in B1, B2. split; [intros _; exact G2|lia].
  - split; [|intros _; exact G2]. intros [H1 H2]. apply Z.leb_le in H1, H2. rewrite H1, H2 in B. discriminate.
Qed.

Definition grid_es : list Z := [-3; 0; 2].
Lemma grid_computed : grid_okf line_ok grid_es 3 3 8 = true.
Proof. vm_compute. reflexivity. Qed.

Theorem cpp_distance_on_line_binary64 : forall e a0 a1 d0 d1 k,
  In e grid_es -> -3 <= a0 <= 3 -> -3 <= a1 <= 3 -> -3 <= d0 <= 3 -> -3 <= d1 <= 3 -> (d0, d1) <> (0, 0) -> -8 <= k <= 12 ->
  let r := line_dist e a0 a1 d0 d1 k in
  PrimFloat.leb 0 r = true /\ (0 <= k <= 4 -> PrimFloat.eqb r 0 = true) /\ (k < 0 \/ 4 < k -> PrimFloat.ltb 0 r = true).
Proof.
  intros e a0 a1 d0 d1 k He Ha0 Ha1 Hd0 Hd1 Hd Hk. apply line_ok_spec.
  apply (grid_lift line_ok grid_es 3 3 8 grid_computed); assumption.
Qed.
Example on_line_nonvacuous : PrimFloat.eqb (line_dist 0 1 2 1 2 (-2)) (PrimFloat.sqrt (F 5 (-2))) = true /\ fenc (line_dist 0 1 2 (-1) 2 3) = [0; 0].
Proof. vm_compute. split; reflexivity. Qed.

(* ---------------- (2) the witnesses of C16-F1 / C16-F2 at binary64 ---------------- *)
Local Open Scope float_scope.
(* the 2-point Gauss rule on [0,1] of QuadratureRule.create_quadrature_rule_1D(degree=2) (read from the implementation by ./check C16) *)
Definition gauss2F : list (float * float) := [(F 951722585092921 (-52), F 1 (-1)); (F 3551877042277575 (-52), F 1 (-1))].
Definition oneF : float -> float -> float -> float := fun _ _ _ => 1.
Definition gapF : float -> float -> float -> float := fun _ _ g => g.

(* F1: A = (0,0)-(1,0), B = (0.2,-0.1)-(0.8,-0.1) (same orientation: bitwise equal unit normals), relativeSmoothingSize 1e-3 *)
Definition f1_mortar (rule : float -> float -> float -> float -> float -> float -> float -> float -> float * float) (f : float -> float -> float -> float) : float :=
  @mortar float NumF rule 0 0 1 0 (F 3602879701896397 (-54)) (F (-3602879701896397) (-55)) (F 3602879701896397 (-52)) (F (-3602879701896397) (-55))
          f (F 1152921504606847 (-60)) gauss2F.
Definition near (x y tol : float) : bool := PrimFloat.leb (PrimFloat.abs (x - y)) tol.
Theorem F1_witness_binary64 :
  (* model of the unpatched source: NaN *)
  fenc (f1_mortar (@average_normal float NumF) oneF) = [0; 7777]%Z /\
  (* model of the patch (both thresholds): overlap length 0.6 within l(|A|+|B|)/2 = 8e-4, gap integral = 0.1 * area *)
  near (f1_mortar (@average_normal_p float NumF 0) oneF) (F 5404319552844595 (-53)) (F 7378697629483821 (-63)) = true /\
  near (f1_mortar (@average_normal_p float NumF (F 3022314549036573 (-78))) oneF) (F 5404319552844595 (-53)) (F 7378697629483821 (-63)) = true /\
  near (f1_mortar (@average_normal_p float NumF (F 3022314549036573 (-78))) gapF)
       (F 3602879701896397 (-55) * f1_mortar (@average_normal_p float NumF (F 3022314549036573 (-78))) oneF) (F 1 (-50)) = true.
Proof. vm_compute. repeat split; reflexivity. Qed.

(* F2: conforming pairs (0,0)-(2,0) / (2,-1/4)-(0,-1/4) after a generic rigid motion, relativeSmoothingSize 1e-9; exact overlap length 2.
   WHICH rotated copies lose the overlap depends on the rounding of the 2x2 solves: the hand model solves by Cramer's rule, the
   implementation by LU (jnp.linalg.solve), so the failing inputs differ: f2_W is a failing input of the binary64 MODEL (all four
   candidates miss [0,1] by one rounding: exactly the pattern of `conforming_perturbed`, proofs/L_C16p.v), f2_K is the failing
   input of the IMPLEMENTATION recorded in known_findings.d/C16.json (replayed on the implementation by ./check C16; the Cramer
   model happens to round the other way there).  The patched model returns the overlap length on both. *)
Definition f2_W (m : float -> float -> float -> float -> float -> float -> float -> float -> (float -> float -> float -> float) -> float -> list (float * float) -> float) : float :=
  m (F (-7586797007672805) (-52)) (F (61532156694939) (-46)) (F (-2662345653147475) (-52)) (F (-1801893196293493) (-51))
    (F (-450634525722545) (-49)) (F (-1054835702975663) (-50)) (F (-4264763780152845) (-51)) (F (1661250804580215) (-51))
    oneF (F 4835703278458517 (-82)) gauss2F.
Definition f2_K (m : float -> float -> float -> float -> float -> float -> float -> float -> (float -> float -> float -> float) -> float -> list (float * float) -> float) : float :=
  m (F (-6085528687457925) (-52)) (F (-738170619131553) (-50)) (F (-1878936782395809) (-49)) (F (-8002351747872105) (-53))
    (F (-1894561428842247) (-49)) (F (-2934673789896205) (-52)) (F (-1552631464757357) (-50)) (F (-471545098121591) (-50))
    oneF (F 4835703278458517 (-82)) gauss2F.
Definition tol12 : float := F 4951760157141521 (-92).      (* 1e-12 *)
Theorem F2_witness_binary64 :
  (* model of the unpatched source on f2_W: no candidate passes the un-toleranced mask, the integral is 0 instead of 2 *)
  fenc (f2_W (@mortar float NumF (@normal_from_a float NumF))) = [0; 0]%Z /\
  (* model of the patch (tol = 1e-12): 2 up to the smoothing length, on both witnesses *)
  near (f2_W (@mortar_p float NumF tol12 (@normal_from_a float NumF))) 2 (F 1 (-26)) = true /\
  near (f2_K (@mortar_p float NumF tol12 (@normal_from_a float NumF))) 2 (F 1 (-26)) = true /\
  (* with tol = 0 the patched model is the unpatched one (cf. mortar_p_tol0 over R) *)
  fenc (f2_W (@mortar_p float NumF 0 (@normal_from_a float NumF))) = [0; 0]%Z.
Proof. vm_compute. repeat split; reflexivity. Qed.
