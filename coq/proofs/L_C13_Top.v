(* C13 -- assembled statements and non-vacuity examples *)
From Coq Require Import List Arith Lia Reals Lra.
From OV.base Require Import Num.
From OV.model Require Import M_C13_Struct M_C13_Edges M_C13_Combine M_C13_Read.
From OV.proofs Require Import L_C13_Struct L_C13_Edges L_C13_Combine L_C13_Read.
Import ListNotations.

Lemma structured_valid Nx Ny (xs ys : nat -> R) : 2 <= Nx -> 2 <= Ny ->
  (forall i, S i < Nx -> (xs i < xs (S i))%R) -> (forall j, S j < Ny -> (ys j < ys (S j))%R) ->
  let conns := struct_conns Nx Ny in
  let coords := struct_coords Nx Ny xs ys in
  length conns = 2 * (Nx - 1) * (Ny - 1)
  /\ length coords = Ny * Nx
  /\ (forall t, In t conns -> length t = 3 /\ forall i, In i t -> i < length coords)
  /\ (forall n, n < length coords -> exists t, In t conns /\ In n t)
  /\ (forall t, In t conns -> exists q, @tri_area2 R NumR coords t = Some q /\ (0 < q)%R)
  /\ struct_block0 Nx Ny = seq 0 (length conns).
Proof.
  intros HNx HNy Hxs Hys conns coords. subst conns coords. rewrite struct_coords_length.
  split; [apply struct_count |]. split; [reflexivity |]. split; [| split; [| split]].
  - intros t Ht. split; [now apply (struct_three Nx Ny) |]. intros i Hi. rewrite Nat.mul_comm. now apply (struct_in_range Nx Ny t).
  - intros n Hn. apply struct_every_node_used; auto. now rewrite Nat.mul_comm.
  - intros t Ht. destruct (struct_ccw Nx Ny xs ys t Hxs Hys Ht) as [ex [ey (_ & _ & E & P)]]. eexists. split; [exact E | exact P].
  - reflexivity.
Qed.

Lemma structured_nonvacuous : exists (xs ys : nat -> R),
  (forall i, S i < 3 -> (xs i < xs (S i))%R) /\ (forall j, S j < 4 -> (ys j < ys (S j))%R)
  /\ length (struct_conns 3 4) = 12 /\ NoDup (all_faces (struct_conns 3 4)).
Proof.
  exists INR, INR. split; [intros; apply lt_INR; lia |]. split; [intros; apply lt_INR; lia |]. split; [reflexivity |].
  replace (all_faces (struct_conns 3 4))
    with (nodup (fun a b : nat * nat => ltac:(decide equality; apply Nat.eq_dec) : {a = b} + {a <> b}) (all_faces (struct_conns 3 4)))
    by (vm_compute; reflexivity).
  apply NoDup_nodup.
Qed.
