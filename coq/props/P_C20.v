(* C20 -- VTK output is a well-formed dataset that round-trips: property theorems only.
   Subject: the executable model of optimism/VTKWriter.py in model/M_C20.v ([init], [add_*], [write]) and the independent
   reader [parse] + consistency check [check]; the model is tied to /repo on every run by tools/props/c20.py
   (token-for-token comparison with the files the implementation writes, and [parse]/[check] run on those files). *)
From Coq Require Import ZArith List.
From OV.model Require Import M_C20.
From OV.proofs Require Import L_C20 L_C20w.
Import ListNotations.

(* NOT PROVED (false of the faithful model, see the three ..._refuted theorems):
     forall w, wf_writer w -> in_range w ->
       parse (fst (write w)) = Some (abstract w) /\ check (abstract w) = true
       /\ forall n o, In o (writes n w) -> o = fst (write w).
   The theorems below carry exactly the extra hypotheses under which the model of the current code satisfies it:
   [all_nodes_written_if_spheres] (defect F10), [no_cell_data_with_edges] (defect F11), and for repeated writes
   "no spheres or no nodal field besides sphere_radius" (defect F9). *)

(* the file parses, with an independent strict reader, to exactly the supplied dataset, and that dataset is consistent *)
Theorem C20_roundtrip_wellformed_partial : forall w,
  wf_writer w -> in_range w -> all_nodes_written_if_spheres w -> no_cell_data_with_edges w ->
  parse (fst (write w)) = Some (abstract w) /\ check (abstract w) = true.
Proof. intros w H1 H2 H3 H4. split; [exact (parse_write w H1 H3 H4) | exact (check_abstract w H1 H2)]. Qed.

(* what the consistency check says: declared counts equal the records read, connectivity refers to read points, every
   array has exactly one record per point / per cell *)
Theorem C20_check_meaning : forall d, check d = true ->
  d_size d = list_sum (map (fun c => S (length c)) (d_cells d))
  /\ length (d_types d) = length (d_cells d)
  /\ (forall c i, In c (d_cells d) -> In i c -> i < length (d_pts d))
  /\ data_spec (length (d_pts d)) (d_pd d)
  /\ data_spec (length (d_cells d)) (d_cd d).
Proof. exact check_sound. Qed.

(* every state reachable through the public operations satisfies the invariant assumed above *)
Theorem C20_init_wf : forall m w, init m = Some w -> wf_writer w.
Proof. exact init_wf. Qed.
Theorem C20_add_nodal_field_wf : forall w nm data ft dt w',
  wf_writer w -> add_nodal_field w nm data ft dt = Some w' -> wf_writer w'.
Proof. exact add_nodal_field_wf. Qed.
Theorem C20_add_cell_field_wf : forall w nm data ft dt w',
  wf_writer w -> add_cell_field w nm data ft dt = Some w' -> wf_writer w'.
Proof. exact add_cell_field_wf. Qed.
Theorem C20_add_sphere_wf : forall w x y r, wf_writer w -> wf_writer (add_sphere w x y r).
Proof. exact add_sphere_wf. Qed.
Theorem C20_add_contact_edges_wf : forall w es, wf_writer w -> wf_writer (add_contact_edges w es).
Proof. exact add_contact_edges_wf. Qed.

Theorem C20_write_wf_partial : forall w,
  wf_writer w -> w_spheres w = [] \/ only_sphere_radius w -> wf_writer (snd (write w)).
Proof. exact write_wf. Qed.

(* repeated writes *)
Theorem C20_write_keeps_state_without_spheres : forall w, w_spheres w = [] -> snd (write w) = w.
Proof. exact write_no_spheres. Qed.
Theorem C20_repeated_writes_identical_partial : forall w,
  NoDup (map fst (w_nodal w)) -> w_spheres w = [] \/ only_sphere_radius w ->
  forall n o, In o (writes n w) -> o = fst (write w).
Proof. exact repeated_writes. Qed.

(* the clauses the current code does not satisfy, with witnesses (each replayed on the implementation as a known finding) *)
Theorem C20_double_write_refuted :
  exists w0 w1, init m1 = Some w0 /\ add_nodal_field w0 1 [[q 5]; [q 6]; [q 7]] SCALARS DOUBLE = Some w1 /\
  let w := add_sphere w1 (q 2) (q 2) (q 1) in
  (wf_writer w /\ in_range w /\ all_nodes_written_if_spheres w /\ no_cell_data_with_edges w)
  /\ parse (fst (write w)) = Some (abstract w)
  /\ fst (write (snd (write w))) <> fst (write w)
  /\ parse (fst (write (snd (write w)))) = None
  /\ ~ wf_writer (snd (write w)).
Proof. exact double_write_witness. Qed.
Theorem C20_sphere_radius_count_refuted :
  exists w0, init m3 = Some w0 /\
  let w := add_sphere w0 (q 1) (q 1) (q 1) in
  (wf_writer w /\ in_range w /\ no_cell_data_with_edges w /\ w_nall w <> length (w_points w))
  /\ exists d n arrs, parse (fst (write w)) = Some d /\ d_pd d = Some (n, arrs) /\ length (d_pts d) = 4 /\ n = 11
                      /\ c_pd d = false /\ check d = false.
Proof. exact sphere_radius_count_witness. Qed.
Theorem C20_cell_data_count_refuted :
  exists w0 w1, init m1 = Some w0 /\ add_cell_field w0 1 [[q 5]] SCALARS INT = Some w1 /\
  let w := add_contact_edges w1 [(0, 1)] in
  (wf_writer w /\ in_range w /\ all_nodes_written_if_spheres w)
  /\ exists d n arrs, parse (fst (write w)) = Some d /\ d_cd d = Some (n, arrs) /\ length (d_cells d) = 2 /\ n = 1
                      /\ c_cd d = false /\ check d = false.
Proof. exact cell_data_count_witness. Qed.

(* non-vacuity: reachable states meeting every hypothesis of C20_roundtrip_wellformed_partial *)
Example C20_nonvacuous_fields :
  exists w0 w1 w2, init m1 = Some w0
  /\ add_nodal_field w0 1 [[q 1; q 2; q 3; q 4]; [q 5; q 6; q 7; q 8]; [q 9; q 1; q 2; q 3]] TENSORS FLOAT = Some w1
  /\ add_cell_field w1 2 [[q 1; q 2]] VECTORS INT = Some w2
  /\ (wf_writer w2 /\ in_range w2 /\ all_nodes_written_if_spheres w2 /\ no_cell_data_with_edges w2)
  /\ parse (fst (write w2)) = Some (abstract w2) /\ check (abstract w2) = true.
Proof. exact nonvacuous_a. Qed.
Example C20_nonvacuous_sphere_edge :
  exists w0 w1, init m1 = Some w0
  /\ add_nodal_field w0 1 [[q 1; q 2]; [q 5; q 6]; [q 9; q 1]] VECTORS DOUBLE = Some w1
  /\ let w := add_contact_edges (add_sphere w1 (q 2) (q 2) (q 1)) [(0, 3)] in
     (w_spheres w <> [] /\ w_edges w <> [] /\ w_nodal w <> [])
  /\ (wf_writer w /\ in_range w /\ all_nodes_written_if_spheres w /\ no_cell_data_with_edges w)
  /\ parse (fst (write w)) = Some (abstract w) /\ check (abstract w) = true.
Proof. exact nonvacuous_b. Qed.

Print Assumptions C20_roundtrip_wellformed_partial.
Print Assumptions C20_repeated_writes_identical_partial.
Print Assumptions C20_add_nodal_field_wf.
Print Assumptions C20_double_write_refuted.
Print Assumptions C20_sphere_radius_count_refuted.
Print Assumptions C20_cell_data_count_refuted.
