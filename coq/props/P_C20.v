(* C20 -- VTK output is a well-formed dataset that round-trips: property theorems only.
   Subject: the executable model of optimism/VTKWriter.py in model/M_C20.v ([init], [add_*], [write]) and the independent
   reader [parse] + consistency check [check]; the model is tied to /repo on every run by tools/props/c20.py
   (token-for-token comparison with the files the implementation writes, and [parse]/[check] run on those files).
   The model follows the repaired code (fix commits 2cde078, 34184b3, 07417cb); the statements are full strength. *)
From Coq Require Import ZArith List.
From OV.model Require Import M_C20.
From OV.proofs Require Import L_C20 L_C20w.
Import ListNotations.

(* for EVERY writer state satisfying the invariant (established by init and kept by every operation, below) -- any element
   order, any nodal / cell fields, any number of spheres and contact edges -- the file parses, with an independent strict
   reader, to exactly the supplied dataset, and that dataset is consistent.  [in_range] (connectivity and contact-edge ids
   refer to written points) is a property of the user's mesh / edge list, not of the writer. *)
Theorem C20_roundtrip_wellformed : forall w,
  wf_writer w -> in_range w -> parse (fst (write w)) = Some (abstract w) /\ check (abstract w) = true.
Proof. intros w H1 H2. split; [exact (parse_write w H1) | exact (check_abstract w H1 H2)]. Qed.
Theorem C20_roundtrip : forall w, wf_writer w -> parse (fst (write w)) = Some (abstract w).
Proof. exact parse_write. Qed.

(* what the consistency check says: declared counts equal the records read, connectivity refers to read points, every
   array has exactly one record per point / per cell *)
Theorem C20_check_meaning : forall d, check d = true ->
  d_size d = list_sum (map (fun c => S (length c)) (d_cells d))
  /\ length (d_types d) = length (d_cells d)
  /\ (forall c i, In c (d_cells d) -> In i c -> i < length (d_pts d))
  /\ data_spec (length (d_pts d)) (d_pd d)
  /\ data_spec (length (d_cells d)) (d_cd d).
Proof. exact check_sound. Qed.

(* every state reachable through the public operations satisfies the invariant *)
Theorem C20_init_wf : forall m w, init m = Some w -> wf_writer w.
Proof. exact init_wf. Qed.
Theorem C20_add_nodal_field_wf : forall w nm data ft dt w',
  wf_writer w -> add_nodal_field w nm data ft dt = Some w' -> wf_writer w'.
Proof. exact add_nodal_field_wf. Qed.
Theorem C20_add_cell_field_wf : forall w nm data ft dt w',
  wf_writer w -> add_cell_field w nm data ft dt = Some w' -> wf_writer w'.
Proof. exact add_cell_field_wf. Qed.
Theorem C20_add_sphere_wf : forall w x y r, wf_writer w -> wf_writer (add_sphere w x y r).
Proof. exact add_sphere_wf. Qed.
Theorem C20_add_contact_edges_wf : forall w es, wf_writer w -> wf_writer (add_contact_edges w es).
Proof. exact add_contact_edges_wf. Qed.

(* repeated writes: write() leaves the writer unchanged, so any number of writes produces identical files *)
Theorem C20_write_keeps_state : forall w, snd (write w) = w.
Proof. exact write_state. Qed.
Theorem C20_repeated_writes_identical : forall w n o, In o (writes n w) -> o = fst (write w).
Proof. exact repeated_writes. Qed.
Theorem C20_writes_count : forall n w, length (writes n w) = n.
Proof. exact writes_length. Qed.

(* regression theorems: the reachable states on which the code failed before the repairs (known findings F9, F10, F11,
   now fixed) -- each is replayed on the implementation by the harness *)
Theorem C20_double_write_regression :
  exists w0 w1, init m1 = Some w0 /\ add_nodal_field w0 1 [[q 5]; [q 6]; [q 7]] SCALARS DOUBLE = Some w1 /\
  let w := add_sphere w1 (q 2) (q 2) (q 1) in
  (wf_writer w /\ in_range w)
  /\ parse (fst (write w)) = Some (abstract w) /\ check (abstract w) = true
  /\ snd (write w) = w /\ fst (write (snd (write w))) = fst (write w)
  /\ parse (fst (write (snd (write w)))) = Some (abstract w).
Proof. exact double_write_regression. Qed.
Theorem C20_sphere_radius_count_regression :
  exists w0, init m3 = Some w0 /\
  let w := add_sphere w0 (q 1) (q 1) (q 1) in
  (wf_writer w /\ in_range w /\ w_nall w <> length (w_points w))
  /\ parse (fst (write w)) = Some (abstract w) /\ check (abstract w) = true
  /\ exists arrs, d_pd (abstract w) = Some (4, arrs) /\ length (d_pts (abstract w)) = 4.
Proof. exact sphere_radius_count_regression. Qed.
Theorem C20_cell_data_count_regression :
  exists w0 w1, init m1 = Some w0 /\ add_cell_field w0 1 [[q 5]] SCALARS INT = Some w1 /\
  let w := add_contact_edges w1 [(0, 1)] in
  (wf_writer w /\ in_range w)
  /\ parse (fst (write w)) = Some (abstract w) /\ check (abstract w) = true
  /\ exists arrs, d_cd (abstract w) = Some (2, arrs) /\ length (d_cells (abstract w)) = 2.
Proof. exact cell_data_count_regression. Qed.

(* non-vacuity: a reachable state with everything at once (cubic element, tensor nodal field, vector cell field, two
   spheres, two contact edges) meets the hypotheses *)
Example C20_nonvacuous_all :
  exists w0 w1 w2, init m3 = Some w0
  /\ add_nodal_field w0 1 [[q 1; q 2; q 3; q 4]; [q 5; q 6; q 7; q 8]; [q 9; q 1; q 2; q 3]; [q 1; q 1; q 1; q 1];
                           [q 2; q 2; q 2; q 2]; [q 3; q 3; q 3; q 3]; [q 4; q 4; q 4; q 4]; [q 5; q 5; q 5; q 5];
                           [q 6; q 6; q 6; q 6]; [q 7; q 7; q 7; q 7]] TENSORS FLOAT = Some w1
  /\ add_cell_field w1 2 [[q 1; q 2]] VECTORS INT = Some w2
  /\ let w := add_contact_edges (add_sphere (add_sphere w2 (q 2) (q 2) (q 1)) (q 4) (q 4) (q 2)) [(0, 3); (4, 1)] in
     (w_spheres w <> [] /\ w_edges w <> [] /\ w_nodal w <> [] /\ w_cell w <> [] /\ w_nall w <> length (w_points w))
  /\ (wf_writer w /\ in_range w)
  /\ parse (fst (write w)) = Some (abstract w) /\ check (abstract w) = true.
Proof. exact nonvacuous_all. Qed.

Print Assumptions C20_roundtrip_wellformed.
Print Assumptions C20_repeated_writes_identical.
Print Assumptions C20_add_nodal_field_wf.
Print Assumptions C20_double_write_regression.
Print Assumptions C20_sphere_radius_count_regression.
Print Assumptions C20_cell_data_count_regression.
