(* C20 -- VTK output is a well-formed dataset that round-trips: property theorems only.
   Subject: the executable model of optimism/VTKWriter.py in model/M_C20.v ([init], [add_*], [write]) and the independent
   reader [parse] + consistency check [check]; the model is tied to /repo on every run by tools/props/c20.py
   (token-for-token comparison with the files the implementation writes, and [parse]/[check] run on those files).
   The model follows the repaired code (fix commits 2cde078, 34184b3, 07417cb); the statements are full strength. *)
From Coq Require Import ZArith List.
From OV.model Require Import M_C20 M_C20_Num M_C20_CFG.
From OV.gen Require Import CFG_vtk.
From OV.proofs Require Import L_C20 L_C20w L_C20n L_C20c.
Import ListNotations.

(* for EVERY writer state satisfying the invariant (established by init and kept by every operation, below) -- any element
   order, any nodal / cell fields, any number of spheres and contact edges -- the file parses, with an independent strict
   reader, to exactly the supplied dataset, and that dataset is consistent.  [in_range] (connectivity and contact-edge ids
   refer to written points) is a property of the user's mesh / edge list, not of the writer. *)
Theorem C20_roundtrip_wellformed : forall w,
  wf_writer w -> in_range w -> parse (fst (write w)) = Some (abstract w) /\ check (abstract w) = true.
Proof. intros w H1 H2. split; [exact (parse_write w H1) | exact (check_abstract w H1 H2)]. Qed.
Theorem C20_roundtrip : forall w, wf_writer w -> parse (fst (write w)) = Some (abstract w).
Proof. exact parse_write. Qed.

(* what the consistency check says: declared counts equal the records read, connectivity refers to read points, every
   array has exactly one record per point / per cell *)
Theorem C20_check_meaning : forall d, check d = true ->
  d_size d = list_sum (map (fun c => S (length c)) (d_cells d))
  /\ length (d_types d) = length (d_cells d)
  /\ (forall c i, In c (d_cells d) -> In i c -> i < length (d_pts d))
  /\ data_spec (length (d_pts d)) (d_pd d)
  /\ data_spec (length (d_cells d)) (d_cd d).
Proof. exact check_sound. Qed.

(* every state reachable through the public operations satisfies the invariant *)
Theorem C20_init_wf : forall m w, init m = Some w -> wf_writer w.
Proof. exact init_wf. Qed.
Theorem C20_add_nodal_field_wf : forall w nm data ft dt w',
  wf_writer w -> add_nodal_field w nm data ft dt = Some w' -> wf_writer w'.
Proof. exact add_nodal_field_wf. Qed.
Theorem C20_add_cell_field_wf : forall w nm data ft dt w',
  wf_writer w -> add_cell_field w nm data ft dt = Some w' -> wf_writer w'.
Proof. exact add_cell_field_wf. Qed.
Theorem C20_add_sphere_wf : forall w x y r, wf_writer w -> wf_writer (add_sphere w x y r).
Proof. exact add_sphere_wf. Qed.
Theorem C20_add_contact_edges_wf : forall w es, wf_writer w -> wf_writer (add_contact_edges w es).
Proof. exact add_contact_edges_wf. Qed.

(* repeated writes: write() leaves the writer unchanged, so any number of writes produces identical files *)
Theorem C20_write_keeps_state : forall w, snd (write w) = w.
Proof. exact write_state. Qed.
Theorem C20_repeated_writes_identical : forall w n o, In o (writes n w) -> o = fst (write w).
Proof. exact repeated_writes. Qed.
Theorem C20_writes_count : forall n w, length (writes n w) = n.
Proof. exact writes_length. Qed.

(* regression theorems: the reachable states on which the code failed before the repairs (known findings F9, F10, F11,
   now fixed) -- each is replayed on the implementation by the harness *)
Theorem C20_double_write_regression :
  exists w0 w1, init m1 = Some w0 /\ add_nodal_field w0 1 [[q 5]; [q 6]; [q 7]] SCALARS DOUBLE = Some w1 /\
  let w := add_sphere w1 (q 2) (q 2) (q 1) in
  (wf_writer w /\ in_range w)
  /\ parse (fst (write w)) = Some (abstract w) /\ check (abstract w) = true
  /\ snd (write w) = w /\ fst (write (snd (write w))) = fst (write w)
  /\ parse (fst (write (snd (write w)))) = Some (abstract w).
Proof. exact double_write_regression. Qed.
Theorem C20_sphere_radius_count_regression :
  exists w0, init m3 = Some w0 /\
  let w := add_sphere w0 (q 1) (q 1) (q 1) in
  (wf_writer w /\ in_range w /\ w_nall w <> length (w_points w))
  /\ parse (fst (write w)) = Some (abstract w) /\ check (abstract w) = true
  /\ exists arrs, d_pd (abstract w) = Some (4, arrs) /\ length (d_pts (abstract w)) = 4.
Proof. exact sphere_radius_count_regression. Qed.
Theorem C20_cell_data_count_regression :
  exists w0 w1, init m1 = Some w0 /\ add_cell_field w0 1 [[q 5]] SCALARS INT = Some w1 /\
  let w := add_contact_edges w1 [(0, 1)] in
  (wf_writer w /\ in_range w)
  /\ parse (fst (write w)) = Some (abstract w) /\ check (abstract w) = true
  /\ exists arrs, d_cd (abstract w) = Some (2, arrs) /\ length (d_cells (abstract w)) = 2.
Proof. exact cell_data_count_regression. Qed.

(* non-vacuity: a reachable state with everything at once (cubic element, tensor nodal field, vector cell field, two
   spheres, two contact edges) meets the hypotheses *)
Example C20_nonvacuous_all :
  exists w0 w1 w2, init m3 = Some w0
  /\ add_nodal_field w0 1 [[q 1; q 2; q 3; q 4]; [q 5; q 6; q 7; q 8]; [q 9; q 1; q 2; q 3]; [q 1; q 1; q 1; q 1];
                           [q 2; q 2; q 2; q 2]; [q 3; q 3; q 3; q 3]; [q 4; q 4; q 4; q 4]; [q 5; q 5; q 5; q 5];
                           [q 6; q 6; q 6; q 6]; [q 7; q 7; q 7; q 7]] TENSORS FLOAT = Some w1
  /\ add_cell_field w1 2 [[q 1; q 2]] VECTORS INT = Some w2
  /\ let w := add_contact_edges (add_sphere (add_sphere w2 (q 2) (q 2) (q 1)) (q 4) (q 4) (q 2)) [(0, 3); (4, 1)] in
     (w_spheres w <> [] /\ w_edges w <> [] /\ w_nodal w <> [] /\ w_cell w <> [] /\ w_nall w <> length (w_points w))
  /\ (wf_writer w /\ in_range w)
  /\ parse (fst (write w)) = Some (abstract w) /\ check (abstract w) = true.
Proof. exact nonvacuous_all. Qed.

(* ---------------------------------------------------------------- number formatting (model/M_C20_Num.v)
   The words of the file.  Integers (every count, id, cell type and integer field value: '{}'.format of a Python int / numpy
   integer = decimal literal) are modelled by [fmt_int] and read back exactly, for EVERY integer. *)
Theorem C20_int_token_roundtrip : forall z, read_int (fmt_int z) = Some z.
Proof. exact read_int_fmt_int. Qed.
Theorem C20_int_number_word : forall z, read_num (fmt_int z) = Some (z, 1%positive).
Proof. exact read_num_fmt_int. Qed.
Theorem C20_int_words_distinct : forall a b, fmt_int a = fmt_int b -> a = b.
Proof. exact fmt_int_inj. Qed.
Theorem C20_count_word_roundtrip : forall n,
  option_map (fun v => as_nat (TNum v)) (read_num (fmt_int (Z.of_nat n))) = Some (Some n).
Proof. exact count_roundtrip. Qed.
(* reading at the DECLARED data type of an array: an integer type admits integer literals only, within its range *)
Theorem C20_int_word_at_declared_type : forall d lo hi z,
  int_range d = Some (lo, hi) -> (lo <= z <= hi)%Z -> read_at d (fmt_int z) = Some (z, 1%positive).
Proof. exact read_at_fmt_int. Qed.
Theorem C20_integer_type_admits_integer_literals_only : forall d r s v,
  int_range d = Some r -> read_at d s = Some v -> exists z, read_int s = Some z /\ v = (z, 1%positive).
Proof. exact read_at_int_only. Qed.
(* every word the writer's formats produce for a token ([renders]: the 24 keywords / field types / data types, decimal integer
   literals, decimal literals whose correctly rounded double is the value, field names that are neither numeric nor keywords)
   is mapped back to that token by the Coq lexer *)
Theorem C20_word_roundtrip : forall names t s, renders names t s -> lex_word names s = t.
Proof. exact lex_word_renders. Qed.
(* text-level round trip: ANY file whose first two lines are the writer's and whose whitespace-separated words render the
   model's tokens parses (Coq lexer + independent reader) to exactly the supplied dataset *)
Theorem C20_text_roundtrip : forall names w ws, wf_writer w -> Forall2 (renders names) (body w) ws ->
  parse_words names (magic_line :: title_line :: ws) = Some (abstract w).
Proof. exact text_roundtrip. Qed.
(* floats: the shortest-repr algorithm of CPython / numpy is not modelled; under the NAMED HYPOTHESIS [float_repr_contract]
   (repr of a finite double is a non-integer-looking decimal literal whose correctly rounded double is the value) its output is a
   rendering of the value token, so the two theorems above apply.  The contract is checked per token on every run: every
   numeric word of every explored file is lexed by [lex_word] / [read_num] (Coq's own correctly rounded decimal -> binary64
   conversion) and compared with the supplied value; float32 words with [read_num32]. *)
Theorem C20_float_word_under_repr_contract : forall repr64 names x,
  float_repr_contract repr64 -> is_b64 x -> renders names (TNum x) (repr64 x).
Proof. exact contract_renders. Qed.
(* NOT PROVED: (a) that CPython's float repr satisfies float_repr_contract (the algorithm is not modelled; per-token check only);
   (b) that [round_bin] is the correctly rounded conversion in the sense of IEEE 754 (it is an executable definition, tied to
   Python's float() / numpy.float32() per token by the streams `words` and `f32words`, not proved against a specification);
   (c) the splitting of the text into lines / words (str.split in the harness) and the layout of rows on lines. *)
Theorem C20_renders_decidable : forall names ts ws, renders_all names ts ws = true -> Forall2 (renders names) ts ws.
Proof. exact renders_all_sound. Qed.
(* non-vacuity: the actual words of the file written for a triangle with a double field (0.1, 1e-05, -2.5), an int cell field,
   a sphere and a contact edge render the model's tokens (with non-integer float values among them) *)
Example C20_text_nonvacuous : exists w0 w1 w2, init m1 = Some w0
  /\ add_nodal_field w0 1 ex_u SCALARS DOUBLE = Some w1 /\ add_cell_field w1 2 [[q 7]] SCALARS INT = Some w2
  /\ let w := add_contact_edges (add_sphere w2 (1, 2%positive)%Z (1, 4%positive)%Z (1, 8%positive)%Z) [(0, 1)] in
     wf_writer w /\ Forall2 (renders ex_names) (body w) ex_words
     /\ parse_words ex_names (magic_line :: title_line :: ex_words) = Some (abstract w)
     /\ (exists x s, In (TNum x) (body w) /\ In s ex_words /\ read_int s = None /\ renders ex_names (TNum x) s /\ snd x <> 1%positive).
Proof. exact text_nonvacuous. Qed.

(* ---------------------------------------------------------------- structural tie to the source (model/M_C20_CFG.v, gen/CFG_vtk.v)
   [cfg_vtk] / [consts_vtk] are regenerated from the AST of optimism/VTKWriter.py on every run (tools/vlib/extract_vtk.py, fail
   closed): the order and presence of the section writers called by write(), the keyword words of every vtkFile.write, the loops
   over spheres / contact edges / the field dict and the conditions guarding POINT_DATA / CELL_DATA.  They are compared BY
   COMPUTATION with the structure table written next to the hand model. *)
Theorem C20_source_structure_is_model_structure : cfg_vtk = model_cfg /\ consts_vtk = model_consts.
Proof. exact source_structure. Qed.
(* every table write of the source is immediately followed by a newline write in the same block (so the last number of a table is
   never glued to the next token, also not across iterations of an enclosing loop) *)
Theorem C20_source_tables_terminated : tables_terminated cfg_vtk = true /\ list_sum (map (fun m => count_tables 100 (snd m)) cfg_vtk) = 4.
Proof. exact source_tables_terminated. Qed.
(* the extracted IR, interpreted on the shape of a state, yields the keyword tokens of the model's file: on concrete reachable
   states here; for ALL states see C20_structure_trace (if present below) *)
Theorem C20_structure_trace_examples :
  (forall w0, init m1 = Some w0 -> trace_ok cfg_vtk consts_vtk w0 = true)
  /\ (exists w0 w1 w2, init m3 = Some w0
      /\ add_nodal_field w0 1 [[q 1; q 2; q 3; q 4]; [q 5; q 6; q 7; q 8]; [q 9; q 1; q 2; q 3]; [q 1; q 1; q 1; q 1];
                           [q 2; q 2; q 2; q 2]; [q 3; q 3; q 3; q 3]; [q 4; q 4; q 4; q 4]; [q 5; q 5; q 5; q 5];
                           [q 6; q 6; q 6; q 6]; [q 7; q 7; q 7; q 7]] TENSORS FLOAT = Some w1
      /\ add_cell_field w1 2 [[q 1; q 2]] VECTORS INT = Some w2
      /\ let w := add_contact_edges (add_sphere (add_sphere w2 (q 2) (q 2) (q 1)) (q 4) (q 4) (q 2)) [(0, 3); (4, 1)] in
         trace_ok cfg_vtk consts_vtk w = true
         /\ length (kw_trace cfg_vtk consts_vtk (shape_of w)) = 15).
Proof. exact trace_examples. Qed.

Print Assumptions C20_roundtrip_wellformed.
Print Assumptions C20_repeated_writes_identical.
Print Assumptions C20_add_nodal_field_wf.
Print Assumptions C20_double_write_regression.
Print Assumptions C20_sphere_radius_count_regression.
Print Assumptions C20_cell_data_count_regression.
Print Assumptions C20_text_roundtrip.
Print Assumptions C20_int_number_word.
